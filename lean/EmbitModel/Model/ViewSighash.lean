import EmbitModel.Model.View
import EmbitModel.Model.Sign
/-
  Model of the two PSBT-level signature-hash entry points of embit:

  * `PSBT.sighash(i, sighash, **kwargs)` (psbt.py): picks the algorithm and the script code from the input scope
    (`Model.sighashDispatch`), then calls `self.tx.sighash_*` — the `Transaction` methods of `Model/Sighash.lean`
    on the transaction rebuilt from the scopes (`Psbt.tx`).
  * `PSBTView.sighash(i, sighash, input_scope, **kwargs)` (psbtview.py): the same dispatch on `self.input(i)`, then
    the view's OWN copies `PSBTView.sighash_legacy / sighash_segwit / sighash_taproot`, which never build a
    transaction: they stream `self.vin(i)` / `self.vout(j)` / `self.tx_version` / `self.locktime` from the
    underlying buffer at offsets (`hash_prevouts`, `hash_sequence`, `hash_outputs` loop over `range(num_inputs)` /
    `range(num_outputs)`).

  An `Option` result `none` = the Python call raises. A loop `for i in range(n): x = self.vin(i); h.update(f(x))`
  is written "fetch all (`View.vins`), then feed all": the call raises iff some fetch or some `f` raises, and
  otherwise hashes the same concatenation. Integer `to_bytes` widths are not range-checked, exactly as in
  `Model/Sighash.lean` (every integer here was decoded from a field of that width when `PSBT.parse` accepts the
  bytes). The digest memo fields (`_hash_prevouts` …) are the C19 heap model's business; here a fresh view.
  Follows the code after the C01X `fix:` commit (tx-version fallback).

  Boundary of `Psbt.sighash`: Python builds `self.tx` lazily from `inp.vin` / `out.vout` of every scope and fails
  only when an algorithm serialises an input whose txid / vout is `None`; `Psbt.tx` is `none` as soon as one scope
  lacks its transaction fields. The two agree whenever every scope carries them (always for version 0; required by
  BIP370 for version 2) — the correspondence check exercises `psbt.sighash` on such PSBTs.
-/
namespace Embit.Model

/-- the keyword arguments `PSBT.sighash` / `PSBTView.sighash` pass through to `sighash_taproot` -/
structure TapExtra where
  extFlag : Nat := 0
  annex : Option Bytes := none
  script : Option Bytes := none
  leafVer : Nat := 0xC0
  codesep : Option Nat := none
deriving Repr, Inhabited

/-- algorithm, script code for an input scope whose `utxo` is `u` (lines "sc = … / is_segwit = … /
    p2pkh_from_p2wpkh" shared verbatim by `PSBT.sighash` and `PSBTView.sighash`) -/
def InScope.dispatch (inp : InScope) (u : TxOut) : Algo × Bytes :=
  sighashDispatch u.spk inp.witnessScript inp.redeemScript inp.witnessUtxo.isSome

/-- `PSBT.sighash(i, sighash, **kwargs)` -/
def Psbt.sighash (sha : Bytes → Bytes) (p : Psbt) (i f : Nat) (x : TapExtra) : Option Bytes :=
  match p.inputs[i]? with
  | none => none                       -- IndexError
  | some inp =>
    match inp.utxo with
    | none => none                     -- `inp.utxo.script_pubkey` on None
    | some u =>
      match inp.dispatch u with
      | (Algo.taproot, _) =>
        -- values = [inp.utxo.value for inp in self.inputs]; scripts = [inp.utxo.script_pubkey for …]
        match optAll (p.inputs.map InScope.utxo), p.tx with
        | some us, some t =>
          sighashTaproot sha t i (us.map (·.spk)) (us.map (·.value)) f x.extFlag x.annex x.script x.leafVer x.codesep
        | _, _ => none
      | (Algo.segwit, sc) =>
        match p.tx with
        | some t => sighashSegwit sha t i sc u.value f
        | none => none
      | (Algo.legacy, sc) =>
        match p.tx with
        | some t => sighashLegacy sha t i sc f
        | none => none

/-! ### the view's streaming accessors -/

/-- `for i in range(self.num_inputs): inp = self.vin(i)` — every input through the view, or raise -/
def View.vins (buf : Bytes) (v : View) : Option (List TxIn) :=
  optAll ((List.range v.numIn).map (View.vin buf v))

/-- `for i in range(self.num_outputs): out = self.vout(i)` -/
def View.vouts (buf : Bytes) (v : View) : Option (List TxOut) :=
  optAll ((List.range v.numOut).map (View.vout buf v))

/-- `PSBTView.hash_prevouts()` (single SHA-256 over outpoints read one by one) -/
def View.hashPrevouts (sha : Bytes → Bytes) (buf : Bytes) (v : View) : Option Bytes :=
  (View.vins buf v).map fun l => sha (l.flatMap fun i => i.txid.reverse ++ leN 4 i.vout)

/-- `PSBTView.hash_sequence()` -/
def View.hashSequence (sha : Bytes → Bytes) (buf : Bytes) (v : View) : Option Bytes :=
  (View.vins buf v).map fun l => sha (l.flatMap fun i => leN 4 i.sequence)

/-- `PSBTView.hash_outputs()` -/
def View.hashOutputs (sha : Bytes → Bytes) (buf : Bytes) (v : View) : Option Bytes :=
  (View.vouts buf v).map fun l => sha (l.flatMap TxOut.ser)

/-- `PSBTView.sighash_legacy(input_index, script_pubkey, sighash)` -/
def View.sighashLegacy (sha : Bytes → Bytes) (buf : Bytes) (v : View) (idx : Nat) (sc : Bytes) (f : Nat) :
    Option Bytes :=
  if idx ≥ v.numIn then none else
  match sighashCheck f with
  | none => none
  | some (sh0, acp) =>
    let sh := if sh0 == 0 then SIGHASH_ALL else sh0
    if sh == SIGHASH_SINGLE && idx ≥ v.numOut then
      some (1 :: List.replicate 31 0)
    else
      let ins : Option Bytes :=
        if acp then
          match View.vin buf v idx with
          | none => none
          | some inp => (TxIn.serWith inp (some sc) SIGHASH_ALL).map (Compact.enc 1 ++ ·)
        else
          match View.vins buf v with
          | none => none
          | some l =>
            (optConcat (l.zipIdx.map fun (inp, i) =>
              if idx = i then TxIn.serWith inp (some sc) SIGHASH_ALL
              else TxIn.serWith inp (some []) f)).map (Compact.enc v.numIn ++ ·)
      let outs : Option Bytes :=
        if sh == SIGHASH_NONE then some (Compact.enc 0)
        else if sh == SIGHASH_SINGLE then
          match View.vout buf v idx with
          | none => none
          | some o =>
            let empty := TxOut.ser { value := 0xFFFFFFFFFFFFFFFF, spk := [] }
            some (Compact.enc (idx + 1) ++ (List.replicate idx empty).flatten ++ TxOut.ser o)
        else
          match View.vouts buf v with
          | none => none
          | some l => some (Compact.enc v.numOut ++ l.flatMap TxOut.ser)
      match View.getTxVersion buf v, ins, outs, View.getLocktime buf v with
      | some ver, some i, some o, some lt => some (sha (sha (leN 4 ver ++ i ++ o ++ leN 4 lt ++ leN 4 f)))
      | _, _, _, _ => none

/-- `PSBTView.sighash_segwit(input_index, script_pubkey, value, sighash)` -/
def View.sighashSegwit (sha : Bytes → Bytes) (buf : Bytes) (v : View) (idx : Nat) (sc : Bytes) (value : Nat)
    (f : Nat) : Option Bytes :=
  if idx ≥ v.numIn then none else
  match sighashCheck f with
  | none => none
  | some (sh0, acp) =>
    let sh := if sh0 == 0 then SIGHASH_ALL else sh0
    match View.vin buf v idx with
    | none => none
    | some inp =>
      let zero : Bytes := List.replicate 32 0
      let noneOrSingle := sh == SIGHASH_NONE || sh == SIGHASH_SINGLE
      let hp : Option Bytes := if acp then some zero else (View.hashPrevouts sha buf v).map sha
      let hs : Option Bytes :=
        if acp || noneOrSingle then some zero else (View.hashSequence sha buf v).map sha
      let ho : Option Bytes :=
        if !noneOrSingle then (View.hashOutputs sha buf v).map sha
        else if sh == SIGHASH_SINGLE && idx < v.numOut then
          (View.vout buf v idx).map fun o => sha (sha (TxOut.ser o))
        else some zero
      match View.getTxVersion buf v, hp, hs, ho, View.getLocktime buf v with
      | some ver, some hp, some hs, some ho, some lt =>
        some (sha (sha (leN 4 ver ++ hp ++ hs ++ inp.txid.reverse ++ leN 4 inp.vout ++ scriptSer sc
          ++ leN 8 value ++ leN 4 inp.sequence ++ ho ++ leN 4 lt ++ leN 4 f)))
      | _, _, _, _, _ => none

/-- `PSBTView.sighash_taproot(input_index, script_pubkeys, values, sighash, ext_flag, annex, script,
     leaf_version, codeseparator_pos)` -/
def View.sighashTaproot (sha : Bytes → Bytes) (buf : Bytes) (v : View) (idx : Nat) (spks : List Bytes)
    (values : List Nat) (f : Nat) (extFlag : Nat) (annex : Option Bytes) (script : Option Bytes) (leafVer : Nat)
    (codesep : Option Nat) : Option Bytes :=
  if idx ≥ v.numIn then none else
  if values.length ≠ v.numIn then none else
  if spks.length ≠ v.numIn then none else     -- "All spent scripts are required"
  match sighashCheck f with
  | none => none
  | some (sh, acp) =>
    if acp && sh == 0 then none else   -- 0x80 is not a hash type of BIP-341
    if f ≥ 256 then none else   -- bytes([sighash])
    let spendType := 2 * extFlag + (if annex.isSome then 1 else 0)
    if spendType ≥ 256 then none else
    let shas : Option Bytes :=
      if !acp then
        match View.hashPrevouts sha buf v, View.hashSequence sha buf v with
        | some hp, some hs => some (hp ++ sha (hashAmountsPre values) ++ sha (hashSpksPre spks) ++ hs)
        | _, _ => none
      else some []
    let outsH : Option Bytes :=
      if !(sh == SIGHASH_SINGLE || sh == SIGHASH_NONE) then View.hashOutputs sha buf v else some []
    let thisIn : Option Bytes :=
      if acp then
        match View.vin buf v idx, values[idx]?, spks[idx]? with
        | some inp, some a, some spk =>
          some (inp.txid.reverse ++ leN 4 inp.vout ++ leN 8 a ++ scriptSer spk ++ leN 4 inp.sequence)
        | _, _, _ => none
      else some (leN 4 idx)
    let annexPart : Bytes := match annex with
      | none => []
      | some a => sha (Compact.enc a.length ++ a)
    let single : Option Bytes :=
      if sh == SIGHASH_SINGLE then
        match View.vout buf v idx with
        | some o => some (sha (TxOut.ser o))
        | none => none
      else some []
    let ext : Option Bytes := match script with
      | none => some []
      | some s =>
        if leafVer ≥ 256 then none else
        some (taggedHash sha "TapLeaf" ([UInt8.ofNat leafVer] ++ scriptSer s) ++ [0]
          ++ (match codesep with | none => [0xff, 0xff, 0xff, 0xff] | some c => leN 4 c))
    match View.getTxVersion buf v, View.getLocktime buf v, shas, outsH, thisIn, single, ext with
    | some ver, some lt, some sh4, some oh, some ti, some sg, some ex =>
      some (taggedHash sha "TapSighash" ([0] ++ ([UInt8.ofNat f] ++ leN 4 ver ++ leN 4 lt ++ sh4 ++ oh
        ++ [UInt8.ofNat spendType]) ++ ti ++ annexPart ++ sg ++ ex))
    | _, _, _, _, _, _, _ => none

/-- `PSBTView.sighash(i, sighash, input_scope=inp, **kwargs)`; `vc` is the view's own compression mode
    (`self.compress`, used by `self.input(idx)` in the taproot loop) -/
def View.sighashWith (ko : KeyOps) (sha : Bytes → Bytes) (buf : Bytes) (v : View) (vc : Nat) (i f : Nat)
    (x : TapExtra) (inp : InScope) : Option Bytes :=
  match inp.utxo with
  | none => none
  | some u =>
    match inp.dispatch u with
    | (Algo.taproot, _) =>
      -- for idx in range(self.num_inputs): inp = self.input(idx); values.append(inp.utxo.value); …
      match optAll ((List.range v.numIn).map fun idx => (View.input ko sha buf v idx vc).bind InScope.utxo) with
      | none => none
      | some us =>
        View.sighashTaproot sha buf v i (us.map (·.spk)) (us.map (·.value)) f x.extFlag x.annex x.script x.leafVer
          x.codesep
    | (Algo.segwit, sc) => View.sighashSegwit sha buf v i sc u.value f
    | (Algo.legacy, sc) => View.sighashLegacy sha buf v i sc f

/-- `PSBTView.sighash(i, sighash, **kwargs)` (`input_scope=None`: the scope is read through the view) -/
def View.sighash (ko : KeyOps) (sha : Bytes → Bytes) (buf : Bytes) (v : View) (vc : Nat) (i f : Nat)
    (x : TapExtra) : Option Bytes :=
  match View.input ko sha buf v i vc with
  | none => none
  | some inp => View.sighashWith ko sha buf v vc i f x inp

end Embit.Model
