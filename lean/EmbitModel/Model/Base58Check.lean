import EmbitModel.Model.KeyCurve
/-
  Model of embit/base58.py (`encode`, `decode`, `encode_check`, `decode_check`) over ASCII codes, following the
  Python (big-integer conversion, leading-zero padding, the `s[:-1]` quirk of `decode`). Executable; used as the
  concrete text layer of the key models in the driver and for the theorem that the SLIP-132 version bytes fix
  the characters `[1:4]` of an extended key. The double SHA-256 is a parameter.
  (C11 has its own, more complete Base58 development; this file only serves C09/C10.)
-/
namespace Embit.Keys.B58
open Embit Embit.Keys

/-- B58_DIGITS -/
def alphabet : Text := [0x31, 0x32, 0x33, 0x34, 0x35, 0x36, 0x37, 0x38, 0x39, 0x41, 0x42, 0x43, 0x44, 0x45, 0x46, 0x47, 0x48, 0x4a, 0x4b, 0x4c, 0x4d, 0x4e, 0x50, 0x51, 0x52, 0x53, 0x54, 0x55, 0x56, 0x57, 0x58, 0x59, 0x5a, 0x61, 0x62, 0x63, 0x64, 0x65, 0x66, 0x67, 0x68, 0x69, 0x6a, 0x6b, 0x6d, 0x6e, 0x6f, 0x70, 0x71, 0x72, 0x73, 0x74, 0x75, 0x76, 0x77, 0x78, 0x79, 0x7a]

def digitChar (d : Nat) : UInt8 := alphabet.getD d 0

/-- `while n > 0: n, r = divmod(n, 58); chars.append(B58_DIGITS[r])`: digits least significant first -/
def digitsLsd (n : Nat) : List Nat :=
  if _h : n = 0 then [] else n % 58 :: digitsLsd (n / 58)
termination_by n
decreasing_by omega

/-- `encode(b)` -/
def encode (b : Bytes) : Text :=
  List.replicate (b.takeWhile (· = 0)).length 0x31 ++ (digitsLsd (ofBe b)).reverse.map digitChar

/-- `B58_DIGITS.index(c)` guarded by `c in B58_DIGITS` -/
def charVal (c : UInt8) : Option Nat :=
  let i := alphabet.idxOf c
  if i < alphabet.length then some i else none

/-- `for c in s: n *= 58; n += digit` -/
def decodeNat : Text → Nat → Option Nat
  | [], n => some n
  | c :: r, n =>
    match charVal c with
    | none => none
    | some d => decodeNat r (n * 58 + d)

/-- big-endian bytes of `n` without leading zeros -/
def natBytesAux (n : Nat) : Bytes :=
  if _h : n = 0 then [] else natBytesAux (n / 256) ++ [UInt8.ofNat (n % 256)]
termination_by n
decreasing_by omega

/-- `unhexlify("%x" % n` padded to an even length`)`: at least one byte -/
def natBytes (n : Nat) : Bytes := if n = 0 then [0] else natBytesAux n

/-- `decode(s)`; the padding loop runs over `s[:-1]` -/
def decode (s : Text) : Option Bytes :=
  if s = [] then some []
  else
    match decodeNat s 0 with
    | none => none
    | some n => some (List.replicate (s.dropLast.takeWhile (· = 0x31)).length 0 ++ natBytes n)

/-- `encode_check(b)` -/
def encodeCheck (dsha : Bytes → Bytes) (b : Bytes) : Text := encode (b ++ (dsha b).take 4)

/-- `decode_check(s)`: `b[:-4]`, `b[-4:]` -/
def decodeCheck (dsha : Bytes → Bytes) (s : Text) : Option Bytes :=
  match decode s with
  | none => none
  | some b =>
    if b.drop (b.length - 4) = (dsha (b.take (b.length - 4))).take 4 then some (b.take (b.length - 4)) else none

end Embit.Keys.B58
