import EmbitModel.Model.View
/-
  `PSBTView.write_to(stream, compress, extra_input_streams, extra_output_streams)` with the stream LISTS the code
  takes (Model/View.lean's `View.writeTo` has at most one extra stream of each kind; `View.writeTo_eq_writeToL` in
  Proofs/ViewWrite.lean shows it is the special case), and the in-memory procedure the property compares it with.

      for i in range(self.num_inputs):
          inp = self.input(i)                          # read in the view's own mode `vc`
          for s in extra_input_streams:
              extra = InputScope.read_from(s)          # KEEP_ALL, no vin; every stream advances by one scope
              inp.update(extra)
          if compress: inp.clear_metadata(compress=compress)
          res += inp.write_to(writable_stream, version=self.version)
-/
namespace Embit.Model

/-- the inner loop over the extra input streams: the merged scope and the streams behind the scope just read -/
def updateInFrom (ko : KeyOps) (sha : Bytes → Bytes) : InScope → List Bytes → Option (InScope × List Bytes)
  | s, [] => some (s, [])
  | s, e :: es =>
    match readKVs e with
    | none => none
    | some (kvs, r) =>
      match InScope.addPairs ko sha 0 {} kvs with
      | none => none
      | some o =>
        match updateInFrom ko sha (s.update o) es with
        | none => none
        | some (s', rs) => some (s', r :: rs)

def updateOutFrom (ko : KeyOps) : OutScope → List Bytes → Option (OutScope × List Bytes)
  | s, [] => some (s, [])
  | s, e :: es =>
    match readKVs e with
    | none => none
    | some (kvs, r) =>
      match OutScope.addPairs ko {} kvs with
      | none => none
      | some o =>
        match updateOutFrom ko (s.update o) es with
        | none => none
        | some (s', rs) => some (s', r :: rs)

/-- `if compress: scope.clear_metadata(compress=compress)` -/
def InScope.compressed (s : InScope) (compress : Nat) : InScope :=
  if compress ≠ 0 then s.clearMetadata compress else s

def OutScope.compressed (s : OutScope) (compress : Nat) : OutScope :=
  if compress ≠ 0 then s.clearMetadata compress else s

/-- `PSBTView.write_to(stream, compress, extra_input_streams, extra_output_streams)`; `vc` is the view's own mode -/
def View.writeToL (ko : KeyOps) (sha : Bytes → Bytes) (buf : Bytes) (v : View) (vc compress : Nat)
    (extraI extraO : List Bytes) : Option Bytes :=
  let globalBytes := readAt buf v.offset (v.firstScope - v.offset)
  let rec ins : Nat → Nat → List Bytes → Option Bytes
    | 0, _, _ => some []
    | n+1, i, es =>
      match View.input ko sha buf v i vc with
      | none => none
      | some s =>
        match updateInFrom ko sha s es with
        | none => none
        | some (s1, es') =>
          match ins n (i+1) es' with
          | some rest => some (writeKVs ((s1.compressed compress).pairs v.version) ++ rest)
          | none => none
  let rec outs : Nat → Nat → List Bytes → Option Bytes
    | 0, _, _ => some []
    | n+1, j, es =>
      match View.output ko buf v j with
      | none => none
      | some s =>
        match updateOutFrom ko s es with
        | none => none
        | some (s1, es') =>
          match outs n (j+1) es' with
          | some rest => some (writeKVs ((s1.compressed compress).pairs v.version) ++ rest)
          | none => none
  match ins v.numIn 0 extraI with
  | none => none
  | some ib =>
    match outs v.numOut 0 extraO with
    | none => none
    | some ob => some (globalBytes ++ ib ++ ob)

/-! ### the in-memory procedure

      p = PSBT.parse(b, compress=vc)
      for inp in p.inputs:
          for s in extra_input_streams: inp.update(InputScope.read_from(s))
          if compress: inp.clear_metadata(compress=compress)
      (the same for the outputs)
-/

def mergeIns (ko : KeyOps) (sha : Bytes → Bytes) (compress : Nat) : List InScope → List Bytes → Option (List InScope)
  | [], _ => some []
  | s :: ss, es =>
    match updateInFrom ko sha s es with
    | none => none
    | some (s1, es') =>
      match mergeIns ko sha compress ss es' with
      | none => none
      | some r => some (s1.compressed compress :: r)

def mergeOuts (ko : KeyOps) (compress : Nat) : List OutScope → List Bytes → Option (List OutScope)
  | [], _ => some []
  | s :: ss, es =>
    match updateOutFrom ko s es with
    | none => none
    | some (s1, es') =>
      match mergeOuts ko compress ss es' with
      | none => none
      | some r => some (s1.compressed compress :: r)

/-- merge the extra scopes into the parsed PSBT and apply the compression choice, all in memory -/
def Psbt.mergeExtra (ko : KeyOps) (sha : Bytes → Bytes) (compress : Nat) (extraI extraO : List Bytes) (p : Psbt) :
    Option Psbt :=
  match mergeIns ko sha compress p.inputs extraI, mergeOuts ko compress p.outputs extraO with
  | some ins, some outs => some { p with inputs := ins, outputs := outs }
  | _, _ => none

/-- the scopes of a PSBT as `PSBT.write_to` emits them behind the global scope -/
def Psbt.scopeBytes (p : Psbt) : Bytes :=
  p.inputs.flatMap (fun s => writeKVs (s.pairs p.version)) ++ p.outputs.flatMap (fun s => writeKVs (s.pairs p.version))

/-! ### what a version-0 reader reconstructs

  Version-0 scopes do not carry txid / vout / sequence (value / script): `read_from` seeds them from the global
  transaction. Since `write_to` of the view copies the global transaction verbatim, a reader of its output sees the
  ORIGINAL transaction fields whatever the merge did to them in memory. -/

/-- the scope without `_utxo` / `_txhash` (set only by the memory-saving reader modes, never written by `write_to`) -/
def InScope.erase (s : InScope) : InScope := { s with utxoS := none, txhash := none }

/-- the PSBT without those attributes -/
def Psbt.eraseHidden (p : Psbt) : Psbt := { p with inputs := p.inputs.map InScope.erase }

def InScope.withTxOf (s o : InScope) : InScope := { s with txid := o.txid, vout := o.vout, sequence := o.sequence }
def OutScope.withTxOf (s o : OutScope) : OutScope := { s with value := o.value, spk := o.spk }

/-- `p'` (a PSBT derived from `p`) as a reader of its serialisation behind `p`'s global scope sees it -/
def Psbt.restoreTx (p p' : Psbt) : Psbt :=
  if p.version = some 2 then p' else
    { p' with inputs := List.zipWith InScope.withTxOf p'.inputs p.inputs,
              outputs := List.zipWith OutScope.withTxOf p'.outputs p.outputs }

end Embit.Model
