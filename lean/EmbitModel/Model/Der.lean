import EmbitModel.Basic.Bytes
/-
  Model of the DER signature codec of embit's pure-python secp256k1 fallback:
  `util/py_secp256k1.py: ecdsa_signature_parse_der / ecdsa_signature_serialize_der`,
  `util/key.py: ECPubKey.verify_ecdsa` (the same byte checks, returning False instead of raising) and the
  serialiser at the end of `ECKey.sign_ecdsa`.
  The parser follows the Python index for index: `der[i]` raises IndexError (= reject) when out of range,
  slices are lenient. `none` = the Python raises / returns False.
-/
namespace Embit.Model.Der

/-- Python `b[i]` on a bytes object -/
def at' (b : Bytes) (i : Nat) : Option UInt8 := b[i]?

/-- Python `int.bit_length()` -/
def bitLength (v : Nat) : Nat := if v = 0 then 0 else v.log2 + 1

/-- `v.to_bytes((v.bit_length() + 8) // 8, "big")` -/
def derInt (v : Nat) : Bytes := beN ((bitLength v + 8) / 8) v

/-- the DER encoding produced by `ecdsa_signature_serialize_der` / `sign_ecdsa` for the pair `(r, s)`:
    `b"\x30" + bytes([4 + len(rb) + len(sb), 2, len(rb)]) + rb + bytes([2, len(sb)]) + sb` -/
def serRS (r s : Nat) : Bytes :=
  0x30 :: UInt8.ofNat (4 + (derInt r).length + (derInt s).length) :: 0x02 :: UInt8.ofNat (derInt r).length ::
    (derInt r ++ 0x02 :: UInt8.ofNat (derInt s).length :: derInt s)

/-- `len > 1 and (b[i] == 0) and not (b[i+1] & 0x80)` with Python's short-circuit evaluation -/
def excessPad (b : Bytes) (len i : Nat) : Option Bool :=
  if len > 1 then
    match at' b i with
    | none => none
    | some x =>
      if x = 0 then
        match at' b (i + 1) with
        | none => none
        | some y => some (y &&& 0x80 = 0)
      else some false
  else some false

/-- `if not c: raise …` -/
def req (c : Prop) [Decidable c] : Option Unit := if c then some () else none

/-- The structural part of the parser (everything before the range checks), check by check in the order of
    the Python (`parse_der` raises, `verify_ecdsa` returns False — both are `none`). Returns `(r, s)`. -/
def parseRS (der : Bytes) : Option (Nat × Nat) := do
  let l1 ← at' der 1
  req (l1.toNat + 2 = der.length)                 -- if der[1] + 2 != len(der)
  req (¬ der.length < 4)                          -- if len(der) < 4
  let t0 ← at' der 0
  req (t0 = 0x30)                                 -- if der[0] != 0x30
  let t2 ← at' der 2
  req (t2 = 0x02)                                 -- if der[2] != 0x02
  let rl ← at' der 3
  let rlen := rl.toNat                            -- rlen = der[3]
  req (¬ der.length < rlen + 6)                   -- if len(der) < 6 + rlen
  req (¬ (rlen < 1 ∨ rlen > 33))                  -- if rlen < 1 or rlen > 33
  let r0 ← at' der 4
  req (¬ r0 ≥ 0x80)                               -- if der[4] >= 0x80
  let padr ← excessPad der rlen 4                 -- if rlen > 1 and (der[4] == 0) and not (der[5] & 0x80)
  req (padr = false)
  let r := ofBe ((der.drop 4).take rlen)          -- int.from_bytes(der[4 : 4 + rlen], "big")
  let t4 ← at' der (rlen + 4)
  req (t4 = 0x02)                                 -- if der[4 + rlen] != 0x02
  let sl ← at' der (rlen + 5)
  let slen := sl.toNat                            -- slen = der[5 + rlen]
  req (¬ (slen < 1 ∨ slen > 33))                  -- if slen < 1 or slen > 33
  req (der.length = rlen + 6 + slen)              -- if len(der) != 6 + rlen + slen
  let s0 ← at' der (rlen + 6)
  req (¬ s0 ≥ 0x80)                               -- if der[6 + rlen] >= 0x80
  let pads ← excessPad der slen (rlen + 6)        -- if slen > 1 and (der[6 + rlen] == 0) and not (der[7 + rlen] & 0x80)
  req (pads = false)
  let s := ofBe ((der.drop (rlen + 6)).take slen) -- int.from_bytes(der[6 + rlen : 6 + rlen + slen], "big")
  pure (r, s)

/-- the range checks that follow: `r < 1 or s < 1 or r >= n or s >= n`, then (after the D11 fix)
    `low_s and s > n // 2` -/
def rangeOk (n : Nat) (lowS : Bool) (r s : Nat) : Bool :=
  !(r < 1 || s < 1 || r ≥ n || s ≥ n) && !(lowS && s > n / 2)

/-- `(r, s)` accepted by `verify_ecdsa(sig, msg, low_s)` before the curve arithmetic, and by
    `ecdsa_signature_parse_der` (which has `low_s = True`) -/
def parse (n : Nat) (lowS : Bool) (der : Bytes) : Option (Nat × Nat) :=
  match parseRS der with
  | none => none
  | some (r, s) => if rangeOk n lowS r s then some (r, s) else none

end Embit.Model.Der
