import EmbitModel.Model.Psbt
/-
  Model of embit `psbtview.py`: `GlobalTransactionView` offset arithmetic, `PSBTView.view` (global scan),
  `_skip_scope`, `seek_to_scope`, `seek_to_value` / `get_value`, `vin` / `vout` / `locktime` / `tx_version`,
  `input(i)` / `output(i)`. The stream is the whole buffer `buf` plus an absolute position; `seek` past the end
  is allowed (BytesIO), reads return what is there. Follows the code after the C05 `fix:` commits.
-/
namespace Embit.Model

/-- `stream.seek(pos); stream.read(n)` -/
def readAt (buf : Bytes) (pos n : Nat) : Bytes := (buf.drop pos).take n

/-- `compact.read_from` at an absolute position: (value, position after it) -/
def compactAt (buf : Bytes) (pos : Nat) : Option (Nat × Nat) :=
  match Compact.read (buf.drop pos) with
  | some (v, _) => some (v, pos + (Compact.enc v).length)
  | none => none

/-- `read_string` at an absolute position -/
def stringAt (buf : Bytes) (pos : Nat) : Option (Bytes × Nat) :=
  match readString (buf.drop pos) with
  | some (s, _) => some (s, pos + (Compact.enc s.length).length + s.length)
  | none => none

/-- `skip_string`: length prefix read, payload skipped without looking at it (also past the end) -/
def skipStringAt (buf : Bytes) (pos : Nat) : Option (Nat × Nat) :=   -- (bytes skipped, new position)
  match compactAt buf pos with
  | some (l, p) => some ((Compact.enc l).length + l, p + l)
  | none => none

/-! ### GlobalTransactionView -/

def LEN_VIN : Nat := 32 + 4 + 1 + 4

structure GTx where
  off : Nat
  numVin : Nat
  vin0 : Nat
  numVout : Nat
  vout0 : Nat

/-- the lazily computed properties `num_vin`, `vin0_offset`, `num_vout`, `vout0_offset` -/
def GTx.open (buf : Bytes) (off : Nat) : Option GTx :=
  match compactAt buf (off + 4) with
  | none => none
  | some (n, vin0) =>
    match compactAt buf (vin0 + LEN_VIN * n) with
    | none => none
    | some (m, vout0) => some { off := off, numVin := n, vin0 := vin0, numVout := m, vout0 := vout0 }

def GTx.version (buf : Bytes) (g : GTx) : Nat := ofLe (readAt buf g.off 4)

def GTx.vin (buf : Bytes) (g : GTx) (i : Nat) : Option TxIn :=
  if i ≥ g.numVin then none else
  match TxIn.read (buf.drop (g.vin0 + LEN_VIN * i)) with
  | some (x, _) => some x
  | none => none

/-- `_skip_output`: `seek(8, 1)`, read the script length, `seek(l, 1)` -/
def skipOutputAt (buf : Bytes) (pos : Nat) : Option Nat :=
  match compactAt buf (pos + 8) with
  | some (l, p) => some (p + l)
  | none => none

def skipOutputs (buf : Bytes) : Nat → Nat → Option Nat
  | 0, pos => some pos
  | n+1, pos => match skipOutputAt buf pos with
    | some p => skipOutputs buf n p
    | none => none

def GTx.vout (buf : Bytes) (g : GTx) (j : Nat) : Option TxOut :=
  if j ≥ g.numVout then none else
  match skipOutputs buf j g.vout0 with
  | none => none
  | some p => match TxOut.read (buf.drop p) with
    | some (x, _) => some x
    | none => none

def GTx.locktime (buf : Bytes) (g : GTx) : Option Nat :=
  match skipOutputs buf g.numVout g.vout0 with
  | none => none
  | some p => some (ofLe (readAt buf p 4))

/-! ### PSBTView -/

structure View where
  offset : Nat
  firstScope : Nat
  numIn : Nat
  numOut : Nat
  version : Option Nat
  tx : Option GTx
  txVersion : Option Nat     -- `_tx_version` as initialised by the constructor
  locktime : Option Nat      -- `_locktime`
deriving Inhabited

structure GScan where
  cur : Nat
  version : Option Nat := none
  numIn : Option Nat := none
  numOut : Option Nat := none
  txOffset : Option Nat := none
  gtx : Option GTx := none

/-- the global-scope loop of `PSBTView.view` (fuel = remaining bytes bounds it: every turn advances `cur`) -/
def viewScan (buf : Bytes) : Nat → GScan → Option GScan
  | 0, _ => none
  | fuel+1, st =>
    match stringAt buf st.cur with
    | none => none
    | some (key, cur1) =>
      if key.isEmpty then some { st with cur := cur1 } else
      if key = [0xfb] || key = [0x04] || key = [0x05] then
        match stringAt buf cur1 with
        | none => none
        | some (value, cur2) =>
          if key = [0xfb] then viewScan buf fuel { st with cur := cur2, version := some (ofLe value) }
          else
            match parseAll Compact.read value with
            | none => none
            | some n =>
              if key = [0x04] then viewScan buf fuel { st with cur := cur2, numIn := some n }
              else viewScan buf fuel { st with cur := cur2, numOut := some n }
      else if key = [0x00] then
        if st.version = some 2 then none else
        if st.numIn.isSome || st.numOut.isSome then none else
        match compactAt buf cur1 with
        | none => none
        | some (txLen, txOff) =>
          match GTx.open buf txOff with
          | none => none
          | some g =>
            viewScan buf fuel { st with cur := txOff + txLen, numIn := some g.numVin, numOut := some g.numVout,
                                         txOffset := some txOff, gtx := some g }
      else
        match skipStringAt buf cur1 with
        | none => none
        | some (_, cur2) => viewScan buf fuel { st with cur := cur2 }

/-- `PSBTView.view(stream, offset)` followed by the constructor -/
def View.open (buf : Bytes) (offset : Nat) : Option View :=
  if readAt buf offset 5 ≠ psbtMagic then none else
  match viewScan buf (buf.length + 1) { cur := offset + 5 } with
  | none => none
  | some st =>
    -- `None in [version or tx_offset, num_inputs, num_outputs]`
    let vOrTx : Bool := (match st.version with | some v => v ≠ 0 | none => false) || st.txOffset.isSome
    if !vOrTx || st.numIn.isNone || st.numOut.isNone then none else
    if st.version ≠ some 2 && st.txOffset.isNone then none else
    match st.numIn, st.numOut with
    | some ni, some no =>
      match st.gtx with
      | some g =>
        match GTx.locktime buf g with
        | none => none
        | some lt =>
          some { offset := offset, firstScope := st.cur, numIn := ni, numOut := no, version := st.version,
                 tx := some g, txVersion := some (GTx.version buf g), locktime := some lt }
      | none =>
        some { offset := offset, firstScope := st.cur, numIn := ni, numOut := no, version := st.version,
               tx := none, txVersion := none, locktime := none }
    | _, _ => none

/-- `_skip_scope`: number of bytes of one scope incl. its separator (fuel-bounded) -/
def skipScopeAt (buf : Bytes) : Nat → Nat → Option Nat
  | 0, _ => none
  | fuel+1, pos =>
    match skipStringAt buf pos with
    | none => none
    | some (klen, p1) =>
      if klen = 1 then some p1 else
      match skipStringAt buf p1 with
      | none => none
      | some (_, p2) => skipScopeAt buf fuel p2

/-- `seek_to_scope(n)`: absolute offset of scope `n` (0-based over inputs then outputs) -/
def View.scopeOffset (buf : Bytes) (v : View) : Nat → Option Nat
  | n =>
    if n > v.numIn + v.numOut then none else
    let rec go : Nat → Nat → Option Nat
      | 0, pos => some pos
      | k+1, pos => match skipScopeAt buf (buf.length + 1) pos with
        | some p => go k p
        | none => none
    go n v.firstScope

/-- `seek_to_value(key, from_current=True)` followed by `read_string`: value under exactly this key in the scope
    starting at `pos` -/
def valueAt (buf : Bytes) (key : Bytes) : Nat → Nat → Option (Option Bytes)
  | 0, _ => none
  | fuel+1, pos =>
    match stringAt buf pos with
    | none => none
    | some (k, p1) =>
      if k.isEmpty then some none else
      if k = key then
        match stringAt buf p1 with
        | some (v, _) => some (some v)
        | none => none
      else
        match skipStringAt buf p1 with
        | some (_, p2) => valueAt buf key fuel p2
        | none => none

def View.getValue (buf : Bytes) (key : Bytes) (pos : Nat) : Option (Option Bytes) :=
  valueAt buf key (buf.length + 1) pos

/-- `PSBTView.vin(i)` -/
def View.vin (buf : Bytes) (v : View) (i : Nat) : Option TxIn :=
  if i ≥ v.numIn then none else
  match v.tx with
  | some g => GTx.vin buf g i
  | none =>
    match v.scopeOffset buf i with
    | none => none
    | some pos =>
      match View.getValue buf [0x0e] pos, View.getValue buf [0x0f] pos, View.getValue buf [0x10] pos with
      | some (some t), some (some n), some sq =>
        some { txid := t.reverse, vout := ofLe n, scriptSig := [],
               sequence := ofLe (match sq with | some s => if s.isEmpty then [0xff, 0xff, 0xff, 0xff] else s
                                               | none => [0xff, 0xff, 0xff, 0xff]),
               witness := [] }
      | _, _, _ => none

/-- `PSBTView.vout(i)` -/
def View.vout (buf : Bytes) (v : View) (j : Nat) : Option TxOut :=
  if j ≥ v.numOut then none else
  match v.tx with
  | some g => GTx.vout buf g j
  | none =>
    match v.scopeOffset buf (v.numIn + j) with
    | none => none
    | some pos =>
      match View.getValue buf [0x03] pos, View.getValue buf [0x04] pos with
      | some (some a), some (some s) => some { value := ofLe a, spk := s }
      | _, _ => none

/-- `PSBTView.locktime` / `tx_version` (global scope lookups for v2; defaults 0 / 2, the same as `PSBT.tx`) -/
def View.getLocktime (buf : Bytes) (v : View) : Option Nat :=
  match v.locktime with
  | some l => some l
  | none => match View.getValue buf [0x03] (v.offset + 5) with
    | some (some x) => some (ofLe x)
    | some none => some 0
    | none => none

def View.getTxVersion (buf : Bytes) (v : View) : Option Nat :=
  match v.txVersion with
  | some l => some l
  | none => match View.getValue buf [0x02] (v.offset + 5) with
    | some (some x) => some (ofLe x)
    | some none => some 2      -- the fallback of `PSBT.tx` (after the C01X `fix:` commit; it was 0)
    | none => none

/-- `PSBTView.input(i, compress)` -/
def View.input (ko : KeyOps) (sha : Bytes → Bytes) (buf : Bytes) (v : View) (i : Nat) (compress : Nat) :
    Option InScope :=
  if i ≥ v.numIn then none else
  let seed : Option InScope := match v.tx with
    | some g => (GTx.vin buf g i).map fun vi =>
        { txid := some vi.txid, vout := some vi.vout, sequence := some vi.sequence }
    | none => some {}
  match seed, v.scopeOffset buf i with
  | some s0, some pos =>
    match readKVs (buf.drop pos) with
    | some (kvs, _) => InScope.addPairs ko sha compress s0 kvs
    | none => none
  | _, _ => none

/-- `PSBTView.output(i, compress)` -/
def View.output (ko : KeyOps) (buf : Bytes) (v : View) (j : Nat) : Option OutScope :=
  if j ≥ v.numOut then none else
  let seed : Option OutScope := match v.tx with
    | some g => (GTx.vout buf g j).map fun vo => { value := some vo.value, spk := some vo.spk }
    | none => some {}
  match seed, v.scopeOffset buf (v.numIn + j) with
  | some s0, some pos =>
    match readKVs (buf.drop pos) with
    | some (kvs, _) => OutScope.addPairs ko s0 kvs
    | none => none
  | _, _ => none

end Embit.Model

namespace Embit.Model

/-! ### merging (`update`), `clear_metadata`, `write_to` -/

/-- Python `a or b` on optional values with a truthiness test -/
def orOpt {α : Type} (truthy : α → Bool) (a b : Option α) : Option α :=
  match a with
  | some x => if truthy x then some x else b
  | none => b

/-- `a if a is not None else b` -/
def notNoneOr {α : Type} (a b : Option α) : Option α :=
  match a with
  | some x => some x
  | none => b

def setKey {β : Type} (k : Bytes) (v : β) : List (Bytes × β) → List (Bytes × β)
  | [] => [(k, v)]
  | (k', v') :: r => if k = k' then (k', v) :: r else (k', v') :: setKey k v r

/-- `dict.update(other)`: existing keys keep their position and take the new value, new keys are appended -/
def dictUpdate {β : Type} (a b : List (Bytes × β)) : List (Bytes × β) :=
  b.foldl (fun acc kv => setKey kv.1 kv.2 acc) a

def nonEmpty (b : Bytes) : Bool := !b.isEmpty

/-- `InputScope.update(other)` -/
def InScope.update (s o : InScope) : InScope :=
  { s with
    txid := orOpt nonEmpty o.txid s.txid
    vout := notNoneOr o.vout s.vout
    sequence := notNoneOr o.sequence s.sequence
    unknown := dictUpdate s.unknown o.unknown
    nonWitnessUtxo := notNoneOr o.nonWitnessUtxo s.nonWitnessUtxo
    witnessUtxo := notNoneOr o.witnessUtxo s.witnessUtxo
    utxoS := notNoneOr o.utxoS s.utxoS
    partialSigs := dictUpdate s.partialSigs o.partialSigs
    sighashType := notNoneOr o.sighashType s.sighashType
    redeemScript := orOpt nonEmpty o.redeemScript s.redeemScript
    witnessScript := orOpt nonEmpty o.witnessScript s.witnessScript
    bip32 := dictUpdate s.bip32 o.bip32
    tapBip32 := dictUpdate s.tapBip32 o.tapBip32
    tapInternalKey := notNoneOr o.tapInternalKey s.tapInternalKey
    tapMerkleRoot := orOpt nonEmpty o.tapMerkleRoot s.tapMerkleRoot
    tapSigs := dictUpdate s.tapSigs o.tapSigs
    tapScripts := dictUpdate s.tapScripts o.tapScripts
    finalScriptSig := orOpt nonEmpty o.finalScriptSig s.finalScriptSig
    finalWitness := orOpt (fun w => !w.isEmpty) o.finalWitness s.finalWitness }

/-- `OutputScope.update(other)` -/
def OutScope.update (s o : OutScope) : OutScope :=
  { s with
    value := notNoneOr o.value s.value
    spk := orOpt nonEmpty o.spk s.spk
    unknown := dictUpdate s.unknown o.unknown
    redeemScript := orOpt nonEmpty o.redeemScript s.redeemScript
    witnessScript := orOpt nonEmpty o.witnessScript s.witnessScript
    bip32 := dictUpdate s.bip32 o.bip32
    tapBip32 := dictUpdate s.tapBip32 o.tapBip32
    tapInternalKey := notNoneOr o.tapInternalKey s.tapInternalKey }

/-- `InputScope.clear_metadata(compress)` -/
def InScope.clearMetadata (s : InScope) (compress : Nat) : InScope :=
  if compress = 0 then s else
  let s1 : InScope :=
    if compress = 1 then
      { s with unknown := [], nonWitnessUtxo := none, witnessUtxo := none, sighashType := none,
               redeemScript := none, witnessScript := none }
    else
      { s with unknown := [], nonWitnessUtxo := if s.witnessUtxo.isSome then none else s.nonWitnessUtxo }
  { s1 with bip32 := [], tapBip32 := [], tapInternalKey := none, tapMerkleRoot := none, tapScripts := [] }

/-- `OutputScope.clear_metadata(compress)` -/
def OutScope.clearMetadata (s : OutScope) (compress : Nat) : OutScope :=
  if compress = 0 then s else
  { s with unknown := [], redeemScript := none, witnessScript := none, bip32 := [], tapBip32 := [],
           tapInternalKey := none }

/-- one extra scope read from an extra stream (`InputScope.read_from(s)`: KEEP_ALL, no vin) -/
def extraIn (ko : KeyOps) (sha : Bytes → Bytes) (extra : Option Bytes) : Option (Option InScope × Option Bytes) :=
  match extra with
  | none => some (none, none)
  | some e =>
    match readKVs e with
    | none => none
    | some (kvs, r) =>
      match InScope.addPairs ko sha 0 {} kvs with
      | none => none
      | some s => some (some s, some r)

def extraOut (ko : KeyOps) (extra : Option Bytes) : Option (Option OutScope × Option Bytes) :=
  match extra with
  | none => some (none, none)
  | some e =>
    match readKVs e with
    | none => none
    | some (kvs, r) =>
      match OutScope.addPairs ko {} kvs with
      | none => none
      | some s => some (some s, some r)

/-- `PSBTView.write_to(stream, compress, [extra_in], [extra_out])` (the view's own mode `vc` is used to read) -/
def View.writeTo (ko : KeyOps) (sha : Bytes → Bytes) (buf : Bytes) (v : View) (vc compress : Nat)
    (extraI extraO : Option Bytes) : Option Bytes :=
  let globalBytes := readAt buf v.offset (v.firstScope - v.offset)
  let rec ins : Nat → Nat → Option Bytes → Option (Bytes × Option Bytes)
    | 0, _, e => some ([], e)
    | n+1, i, e =>
      match View.input ko sha buf v i vc, extraIn ko sha e with
      | some s, some (x, e') =>
        let s1 := match x with | some o => s.update o | none => s
        let s2 := if compress ≠ 0 then s1.clearMetadata compress else s1
        match ins n (i+1) e' with
        | some (rest, e'') => some (writeKVs (s2.pairs v.version) ++ rest, e'')
        | none => none
      | _, _ => none
  let rec outs : Nat → Nat → Option Bytes → Option Bytes
    | 0, _, _ => some []
    | n+1, j, e =>
      match View.output ko buf v j, extraOut ko e with
      | some s, some (x, e') =>
        let s1 := match x with | some o => s.update o | none => s
        let s2 := if compress ≠ 0 then s1.clearMetadata compress else s1
        match outs n (j+1) e' with
        | some rest => some (writeKVs (s2.pairs v.version) ++ rest)
        | none => none
      | _, _ => none
  match ins v.numIn 0 extraI with
  | none => none
  | some (ib, _) =>
    match outs v.numOut 0 extraO with
    | none => none
    | some ob => some (globalBytes ++ ib ++ ob)

end Embit.Model
