import EmbitModel.Basic.Bytes
/-
  Text layer for the descriptor model (C12): Python `str` / `bytes` / `BytesIO` operations the descriptor code
  uses, on `List Char`. Domain: ASCII text (the harness generates ASCII only; Python's `int()` also accepts
  non-ASCII digits and spaces, which are outside the model).

  * `Stream` — a `BytesIO` as a zipper (consumed characters, most recent first; remaining characters), so that
    `s.seek(-1, 1)` after a read at end-of-stream steps back over the previous character exactly as CPython does.
  * `readUntil` — `misc.read_until`.
  * `splitOn`, `rstripC`, `joinWith` — `str.split(sep)`, `str.rstrip(c)`, `sep.join`.
  * `pyInt` — `int(str)` for ASCII input (surrounding white space, sign, `_` between digits).
  * `showNat`, `showInt` — `"%d" % n`.
-/
namespace Embit.Model.Descriptor

abbrev Str := List Char

/-! ### BytesIO -/

structure Stream where
  back : Str
  rest : Str
deriving Repr, DecidableEq

def Stream.ofStr (s : Str) : Stream := ⟨[], s⟩

/-- `s.read(1)`: `none` is `b""` (end of stream) -/
def Stream.read1 : Stream → Option Char × Stream
  | ⟨b, []⟩ => (none, ⟨b, []⟩)
  | ⟨b, c :: r⟩ => (some c, ⟨c :: b, r⟩)

/-- `s.seek(-1, 1)`: raises (negative seek position) at position 0 -/
def Stream.unread : Stream → Option Stream
  | ⟨[], _⟩ => none
  | ⟨c :: b, r⟩ => some ⟨b, c :: r⟩

/-- `s.seek(-n, 1)` -/
def Stream.seekBack : Nat → Stream → Option Stream
  | 0, s => some s
  | n+1, s => match s.unread with
    | some s' => Stream.seekBack n s'
    | none => none

/-- `s.read(n)`: up to `n` characters -/
def Stream.readN : Nat → Stream → Str × Stream
  | 0, s => ([], s)
  | n+1, s => match s with
    | ⟨b, []⟩ => ([], ⟨b, []⟩)
    | ⟨b, c :: r⟩ =>
      let (x, s') := Stream.readN n ⟨c :: b, r⟩
      (c :: x, s')

/-- `misc.read_until(s, chars)`: `(result, char | None)` and the stream after it -/
def readUntilAux (stops : List Char) : Str → Str → Str × Option Char × Stream
  | b, [] => ([], none, ⟨b, []⟩)
  | b, c :: r =>
    if stops.contains c then ([], some c, ⟨c :: b, r⟩)
    else
      let (res, ch, s') := readUntilAux stops (c :: b) r
      (c :: res, ch, s')

def readUntil (stops : List Char) (s : Stream) : Str × Option Char × Stream :=
  readUntilAux stops s.back s.rest

/-! ### str -/

/-- `s.split(sep)` for a one-character separator: never empty -/
def splitOn (sep : Char) : Str → List Str
  | [] => [[]]
  | c :: r =>
    if c = sep then [] :: splitOn sep r
    else match splitOn sep r with
      | [] => [[c]]
      | h :: t => (c :: h) :: t

/-- `sep.join(parts)` -/
def joinWith (sep : Char) : List Str → Str
  | [] => []
  | [x] => x
  | x :: y :: r => x ++ sep :: joinWith sep (y :: r)

/-- `s.rstrip(c)` -/
def rstripC (c : Char) : Str → Str
  | [] => []
  | x :: xs =>
    let r := rstripC c xs
    if r.isEmpty && x = c then [] else x :: r

/-- the ASCII white space that `int()` strips (CPython `Py_ISSPACE` / `_PyUnicode_IsWhitespace` as reached from
    `int(str)`): exactly 9–13 and 32.  NOT `str.strip()`'s set: `str.strip()` also strips 0x1c–0x1f, `int()` does not
    (`int("0\x1f")` raises ValueError on CPython 3.12). -/
def isPySpace (c : Char) : Bool :=
  c.toNat = 32 || (9 ≤ c.toNat && c.toNat ≤ 13)

def lstripWs : Str → Str
  | [] => []
  | c :: r => if isPySpace c then lstripWs r else c :: r

def rstripWs : Str → Str
  | [] => []
  | x :: xs =>
    let r := rstripWs xs
    if r.isEmpty && isPySpace x then [] else x :: r

def digitVal (c : Char) : Option Nat :=
  if '0' ≤ c ∧ c ≤ '9' then some (c.toNat - 48) else none

def isDigit (c : Char) : Bool := (digitVal c).isSome

/-- the digits part of `int()`: digits with single underscores between them; `prevDigit` = the previous
    character was a digit (an underscore is legal only then, and must be followed by a digit) -/
def pyDigits : Nat → Bool → Str → Option Nat
  | acc, prev, [] => if prev then some acc else none
  | acc, prev, c :: r =>
    match digitVal c with
    | some d => pyDigits (10 * acc + d) true r
    | none => if c = '_' && prev then
        (match r with
          | [] => none
          | c2 :: _ => if isDigit c2 then pyDigits acc false r else none)
      else none

/-- `int(s)` (base 10) for ASCII text; `none` = ValueError -/
def pyInt (s : Str) : Option Int :=
  let t := rstripWs (lstripWs s)
  match t with
  | '-' :: r => (pyDigits 0 false r).map (fun n => - (Int.ofNat n))
  | '+' :: r => (pyDigits 0 false r).map Int.ofNat
  | r => (pyDigits 0 false r).map Int.ofNat

def digitChar (d : Nat) : Char := Char.ofNat (48 + d)

/-- `"%d" % n` for `n ≥ 0` (fuel = n + 1 is enough) -/
def showNatAux : Nat → Nat → Str → Str
  | 0, _, acc => acc
  | fuel+1, n, acc =>
    if n < 10 then digitChar n :: acc
    else showNatAux fuel (n / 10) (digitChar (n % 10) :: acc)

def showNat (n : Nat) : Str := showNatAux (n + 1) n []

def showInt : Int → Str
  | .ofNat n => showNat n
  | .negSucc n => '-' :: showNat (n + 1)

/-! ### hex -/

/-- `binascii.unhexlify(str)`: both cases accepted, odd length / other characters raise -/
def unhexlify (s : Str) : Option Bytes := ofHexChars s

/-- `binascii.hexlify(b).decode()` -/
def hexlify (b : Bytes) : Str :=
  b.flatMap fun x => [hexDigit (x.toNat / 16), hexDigit (x.toNat % 16)]

end Embit.Model.Descriptor
