import EmbitModel.Model.Sighash
import EmbitModel.Model.ReadVout
/-
  Model of embit `psbt.py`: key-value layer, DerivationPath, InputScope / OutputScope / PSBT
  (`read_value`, `write_to`, `read_from`, `parse_unknowns`, `vin` / `vout` / `tx` reconstruction, `verify`,
  `utxo`, `fee`). Follows the code after the C04/C06 `fix:` commits and `fixes/fix-compress-dup-utxo.diff`. Dict-valued fields are association
  lists in insertion order (CPython dict order). Public-key validity is abstract (`KeyOps`).
-/
namespace Embit.Model

/-- abstract validators for key material embedded in PSBT keys -/
structure KeyOps where
  validSec : Bytes → Bool     -- `ec.PublicKey.parse` succeeds (33 / 65-byte SEC, on curve)
  validX : Bytes → Bool       -- `ec.PublicKey.from_xonly` succeeds (32 bytes, liftable)
  validXpub : Bytes → Bool    -- `bip32.HDKey.parse` succeeds (78 bytes …)

abbrev KV := Bytes × Bytes

/-- `read_string` -/
def readString : Parser Bytes := scriptRead

/-- key-value pairs up to and including the separator; fuel = input length bounds the loop
    because every pair consumes at least two bytes -/
def readKVsFuel : Nat → Parser (List KV)
  | 0 => fun _ => none
  | fuel+1 => fun b =>
    match readString b with
    | none => none
    | some (k, r1) =>
      if k.isEmpty then some ([], r1) else
      match readString r1 with
      | none => none
      | some (v, r2) =>
        match readKVsFuel fuel r2 with
        | none => none
        | some (kvs, r3) => some ((k, v) :: kvs, r3)

def readKVs : Parser (List KV) := fun b => readKVsFuel (b.length + 1) b

def serString (s : Bytes) : Bytes := Compact.enc s.length ++ s
def writeKVs (kvs : List KV) : Bytes := kvs.flatMap (fun kv => serString kv.1 ++ serString kv.2) ++ [0]

structure Deriv where
  fingerprint : Bytes
  path : List Nat
deriving DecidableEq, Repr, Inhabited

def chunks4 : Nat → Bytes → Option (List Nat)
  | 0, _ => none
  | fuel+1, b =>
    if b.isEmpty then some [] else
    if b.length < 4 then none else
    match chunks4 fuel (b.drop 4) with
    | none => none
    | some r => some (ofLe (b.take 4) :: r)

/-- `DerivationPath.parse` -/
def Deriv.parse (v : Bytes) : Option Deriv :=
  match chunks4 (v.length + 1) (v.drop 4) with
  | none => none
  | some p => some { fingerprint := v.take 4, path := p }

def Deriv.ser (d : Deriv) : Bytes := d.fingerprint ++ d.path.flatMap (leN 4)

/-- taproot derivation value: leaf-hash count, hashes, derivation -/
def tapDerivParse (v : Bytes) : Option (List Bytes × Deriv) :=
  match Compact.read v with
  | none => none
  | some (n, r) =>
    match readMany (takeN 32) n r with
    | none => none
    | some (hashes, r2) =>
      match Deriv.parse r2 with
      | none => none
      | some d => some (hashes, d)

def tapDerivSer (x : List Bytes × Deriv) : Bytes :=
  Compact.enc x.1.length ++ x.1.flatten ++ Deriv.ser x.2

def lookup {β : Type} (k : Bytes) : List (Bytes × β) → Option β
  | [] => none
  | (k', v) :: r => if k = k' then some v else lookup k r

/-! ### input scope -/

structure InScope where
  txid : Option Bytes := none
  vout : Option Nat := none
  sequence : Option Nat := none
  nonWitnessUtxo : Option Tx := none
  witnessUtxo : Option TxOut := none
  utxoS : Option TxOut := none          -- `_utxo` (streamed parse)
  txhash : Option Bytes := none         -- `_txhash`
  verified : Bool := false
  partialSigs : List (Bytes × Bytes) := []
  sighashType : Option Nat := none
  redeemScript : Option Bytes := none
  witnessScript : Option Bytes := none
  bip32 : List (Bytes × Deriv) := []
  tapBip32 : List (Bytes × (List Bytes × Deriv)) := []
  tapInternalKey : Option Bytes := none
  tapMerkleRoot : Option Bytes := none
  tapSigs : List (Bytes × Bytes) := []     -- key = xonly ‖ leaf hash
  tapScripts : List (Bytes × Bytes) := []
  finalScriptSig : Option Bytes := none
  finalWitness : Option (List Bytes) := none
  unknown : List KV := []
deriving Repr, Inhabited

/-- `Transaction.read_vout` on a value that must be consumed completely: (output, double-SHA of the stripped
    encoding) -/
def readVoutAll (sha : Bytes → Bytes) (v : Bytes) (idx : Nat) : Option (TxOut × Bytes) :=
  match Tx.readVout sha idx v with
  | some (x, []) => some x
  | _ => none

/-- `InputScope.read_value` for a non-separator key `k` with raw value `v` -/
def InScope.addPair (ko : KeyOps) (sha : Bytes → Bytes) (compress : Nat) (s : InScope) (k v : Bytes) :
    Option InScope :=
  match k with
  | [] => some s
  | k0 :: krest =>
    let single := krest.isEmpty
    if k0 = 0x00 then
      if !single then none
      else if s.nonWitnessUtxo.isSome then none
      else if s.txhash.isSome then none      -- memory-saving modes keep only `_txhash` / `_utxo` of the first one
      else if compress ≠ 0 && s.txid.isSome && s.vout.isSome then
        match readVoutAll sha v (s.vout.getD 0) with
        | none => none
        | some (o, h) => some { s with txhash := some h, utxoS := some o }
      else
        match Tx.parse v with
        | none => none
        | some t => some { s with nonWitnessUtxo := some t }
    else if k0 = 0x01 then
      if !single then none
      else if s.witnessUtxo.isSome then none
      else match parseAll TxOut.read v with
        | none => none
        | some o => some { s with witnessUtxo := some o }
    else if k0 = 0x02 then
      if compress ≠ 0 then some s
      else if !ko.validSec krest then none
      else if (lookup krest s.partialSigs).isSome then none
      else some { s with partialSigs := s.partialSigs ++ [(krest, v)] }
    else if k0 = 0x03 then
      if !single then none
      else if s.sighashType.isSome then none
      else if v.length ≠ 4 then none
      else some { s with sighashType := some (ofLe v) }
    else if k0 = 0x04 then
      if !single then none
      else if s.redeemScript.isSome then none
      else some { s with redeemScript := some v }
    else if k0 = 0x05 then
      if !single then none
      else if s.witnessScript.isSome then none
      else some { s with witnessScript := some v }
    else if k0 = 0x06 then
      if !ko.validSec krest then none
      else if (lookup krest s.bip32).isSome then none
      else match Deriv.parse v with
        | none => none
        | some d => some { s with bip32 := s.bip32 ++ [(krest, d)] }
    else if k0 = 0x07 then
      if compress ≠ 0 then some s
      else if !single then none
      else if s.finalScriptSig.isSome then none
      else some { s with finalScriptSig := some v }
    else if k0 = 0x08 then
      if compress ≠ 0 then some s
      else if !single then none
      else if s.finalWitness.isSome then none
      else match parseAll witnessRead v with
        | none => none
        | some w => some { s with finalWitness := some w }
    else if k = [0x0e] then
      if s.txid.isSome then none
      else if v.length ≠ 32 then none
      else some { s with txid := some v.reverse }
    else if k = [0x0f] then
      if s.vout.isSome then none
      else if v.length ≠ 4 then none
      else some { s with vout := some (ofLe v) }
    else if k = [0x10] then
      if s.sequence.isSome then none
      else if v.length ≠ 4 then none
      else some { s with sequence := some (ofLe v) }
    else if k0 = 0x14 then
      if k.length ≠ 65 then none
      else if !ko.validX (krest.take 32) then none
      else if (lookup krest s.tapSigs).isSome then none
      else some { s with tapSigs := s.tapSigs ++ [(krest, v)] }
    else if k0 = 0x15 then
      if (lookup krest s.tapScripts).isSome then none
      else some { s with tapScripts := s.tapScripts ++ [(krest, v)] }
    else if k0 = 0x16 then
      if krest.length ≠ 32 then none
      else if !ko.validX krest then none
      else if (lookup krest s.tapBip32).isSome then none
      else match tapDerivParse v with
        | none => none
        | some x => some { s with tapBip32 := s.tapBip32 ++ [(krest, x)] }
    else if k0 = 0x17 then
      if !single then none
      else if s.tapInternalKey.isSome then none
      else if v.length ≠ 32 then none
      else if !ko.validX v then none
      else some { s with tapInternalKey := some v }
    else if k0 = 0x18 then
      if !single then none
      else if s.tapMerkleRoot.isSome then none
      else some { s with tapMerkleRoot := some v }
    else
      if (lookup k s.unknown).isSome then none
      else some { s with unknown := s.unknown ++ [(k, v)] }

def InScope.addPairs (ko : KeyOps) (sha : Bytes → Bytes) (compress : Nat) :
    InScope → List KV → Option InScope
  | s, [] => some s
  | s, (k, v) :: r =>
    match InScope.addPair ko sha compress s k v with
    | none => none
    | some s' => InScope.addPairs ko sha compress s' r

def optKV (k : Bytes) : Option Bytes → List KV
  | none => []
  | some v => [(k, v)]

/-- `InputScope.write_to` as a list of pairs (the separator is added by `writeKVs`) -/
def InScope.pairs (s : InScope) (version : Option Nat) : List KV :=
  optKV [0x00] (s.nonWitnessUtxo.map Tx.ser)
  ++ optKV [0x01] (s.witnessUtxo.map TxOut.ser)
  ++ s.partialSigs.map (fun (p, v) => (0x02 :: p, v))
  ++ optKV [0x03] (s.sighashType.map (leN 4))
  ++ optKV [0x04] s.redeemScript
  ++ optKV [0x05] s.witnessScript
  ++ s.bip32.map (fun (p, d) => (0x06 :: p, Deriv.ser d))
  ++ optKV [0x07] s.finalScriptSig
  ++ optKV [0x08] (s.finalWitness.map witnessSer)
  ++ (if version = some 2 then
        optKV [0x0e] (s.txid.map List.reverse) ++ optKV [0x0f] (s.vout.map (leN 4))
        ++ optKV [0x10] (s.sequence.map (leN 4))
      else [])
  ++ s.tapSigs.map (fun (p, v) => (0x14 :: p, v))
  ++ s.tapScripts.map (fun (p, v) => (0x15 :: p, v))
  ++ s.tapBip32.map (fun (p, x) => (0x16 :: p, tapDerivSer x))
  ++ optKV [0x17] s.tapInternalKey
  ++ optKV [0x18] s.tapMerkleRoot
  ++ s.unknown

/-- `InputScope.vin` -/
def InScope.vin (s : InScope) : Option TxIn :=
  match s.txid, s.vout with
  | some t, some n => some { txid := t, vout := n, scriptSig := [], sequence := s.sequence.getD 0xFFFFFFFF, witness := [] }
  | _, _ => none

/-- `InputScope.utxo` -/
def InScope.utxo (s : InScope) : Option TxOut :=
  match s.utxoS with
  | some o => some o
  | none =>
    match s.witnessUtxo with
    | some o => some o
    | none =>
      match s.nonWitnessUtxo, s.vout with
      | some t, some n => t.vout[n]?
      | _, _ => none

/-- the txid the supplied previous-transaction data hashes to (`_txhash` reversed, or `non_witness_utxo.txid()`) -/
def InScope.expectedTxid (sha : Bytes → Bytes) (s : InScope) : Option Bytes :=
  match s.txhash with
  | some h => some h.reverse
  | none => s.nonWitnessUtxo.map (Tx.txid sha)

/-- the previous output according to the hashed previous transaction (`_utxo`, or `non_witness_utxo.vout[vout]`) -/
def InScope.prevOut (s : InScope) : Option TxOut :=
  match s.utxoS with
  | some o => some o
  | none =>
    match s.nonWitnessUtxo, s.vout with
    | some t, some n => t.vout[n]?
    | _, _ => none

/-- `InputScope.verify(ignore_missing)`: `some (ok?, scope)` or raise -/
def InScope.verify (sha : Bytes → Bytes) (s : InScope) (ignoreMissing : Bool) : Option (Bool × InScope) :=
  if s.nonWitnessUtxo.isSome || s.txhash.isSome then
    if s.txid.isSome && s.txid == s.expectedTxid sha then
      -- an accompanying witness_utxo must not contradict the verified output
      match s.witnessUtxo with
      | none => some (true, { s with verified := true })
      | some w => if s.prevOut = some w then some (true, { s with verified := true }) else none
    else none
  else if ignoreMissing then some (false, s) else none

/-! ### output scope -/

structure OutScope where
  value : Option Nat := none
  spk : Option Bytes := none
  redeemScript : Option Bytes := none
  witnessScript : Option Bytes := none
  bip32 : List (Bytes × Deriv) := []
  tapBip32 : List (Bytes × (List Bytes × Deriv)) := []
  tapInternalKey : Option Bytes := none
  unknown : List KV := []
deriving Repr, Inhabited

def OutScope.addPair (ko : KeyOps) (s : OutScope) (k v : Bytes) : Option OutScope :=
  match k with
  | [] => some s
  | k0 :: krest =>
    let single := krest.isEmpty
    if k0 = 0x00 then
      if !single then none
      else if s.redeemScript.isSome then none
      else some { s with redeemScript := some v }
    else if k0 = 0x01 then
      if !single then none
      else if s.witnessScript.isSome then none
      else some { s with witnessScript := some v }
    else if k0 = 0x02 then
      if !ko.validSec krest then none
      else if (lookup krest s.bip32).isSome then none
      else match Deriv.parse v with
        | none => none
        | some d => some { s with bip32 := s.bip32 ++ [(krest, d)] }
    else if k = [0x03] then
      if s.value.isSome then none
      else if v.length ≠ 8 then none
      else some { s with value := some (ofLe v) }
    else if k = [0x04] then
      if s.spk.isSome then none
      else some { s with spk := some v }
    else if k0 = 0x05 then
      if !single then none
      else if s.tapInternalKey.isSome then none
      else if v.length ≠ 32 then none
      else if !ko.validX v then none
      else some { s with tapInternalKey := some v }
    else if k0 = 0x07 then
      if krest.length ≠ 32 then none
      else if !ko.validX krest then none
      else if (lookup krest s.tapBip32).isSome then none
      else match tapDerivParse v with
        | none => none
        | some x => some { s with tapBip32 := s.tapBip32 ++ [(krest, x)] }
    else
      if (lookup k s.unknown).isSome then none
      else some { s with unknown := s.unknown ++ [(k, v)] }

def OutScope.addPairs (ko : KeyOps) : OutScope → List KV → Option OutScope
  | s, [] => some s
  | s, (k, v) :: r =>
    match OutScope.addPair ko s k v with
    | none => none
    | some s' => OutScope.addPairs ko s' r

def OutScope.pairs (s : OutScope) (version : Option Nat) : List KV :=
  optKV [0x00] s.redeemScript
  ++ optKV [0x01] s.witnessScript
  ++ s.bip32.map (fun (p, d) => (0x02 :: p, Deriv.ser d))
  ++ (if version = some 2 then optKV [0x03] (s.value.map (leN 8)) ++ optKV [0x04] s.spk else [])
  ++ optKV [0x05] s.tapInternalKey
  ++ s.tapBip32.map (fun (p, x) => (0x07 :: p, tapDerivSer x))
  ++ s.unknown

def OutScope.vout (s : OutScope) : Option TxOut :=
  match s.value, s.spk with
  | some v, some sc => some { value := v, spk := sc }
  | _, _ => none

/-! ### PSBT -/

structure Psbt where
  version : Option Nat := none
  txVersion : Option Nat := none
  locktime : Option Nat := none
  xpubs : List (Bytes × Deriv) := []
  unknown : List KV := []
  inputs : List InScope := []
  outputs : List OutScope := []
deriving Repr, Inhabited

def optAll {α : Type} : List (Option α) → Option (List α)
  | [] => some []
  | none :: _ => none
  | some x :: r => match optAll r with
    | none => none
    | some xs => some (x :: xs)

/-- `PSBT.tx` -/
def Psbt.tx (p : Psbt) : Option Tx :=
  match optAll (p.inputs.map InScope.vin), optAll (p.outputs.map OutScope.vout) with
  | some vin, some vout =>
    some { version := p.txVersion.getD 2, vin := vin, vout := vout, locktime := p.locktime.getD 0 }
  | _, _ => none

/-- global scope of `PSBT.read_from`: (tx?, version?, unknown) -/
def globalFold : Option Tx → Option Nat → List KV → List KV → Option (Option Tx × Option Nat × List KV)
  | tx, ver, unk, [] => some (tx, ver, unk)
  | tx, ver, unk, (k, v) :: r =>
    if k = [0x00] then
      if tx.isSome then none else
      match Tx.parse v with
      | none => none
      | some t =>
        -- the global transaction must be unsigned
        if t.vin.any (fun i => !i.scriptSig.isEmpty || !i.witness.isEmpty) then none
        else globalFold (some t) ver unk r
    else if k = [0xfb] then
      if ver.isSome then none else
      if v.length ≠ 4 then none else globalFold tx (some (ofLe v)) unk r
    else
      if (lookup k unk).isSome then none else globalFold tx ver (unk ++ [(k, v)]) r

/-- state threaded through `PSBT.parse_unknowns` -/
structure GState where
  txVersion : Option Nat
  locktime : Option Nat
  nin : Option Nat          -- number of input scopes (from tx or from key 0x04)
  nout : Option Nat
  xpubs : List (Bytes × Deriv)
  unknown : List KV

/-- `PSBT.parse_unknowns` over the global unknown map (in order) -/
def parseUnknowns (ko : KeyOps) (isV2 : Bool) : GState → List KV → Option GState
  | g, [] => some g
  | g, (k, v) :: r =>
    match k with
    | [] => parseUnknowns ko isV2 { g with unknown := g.unknown ++ [(k, v)] } r
    | k0 :: krest =>
      if k0 = 0x01 then
        if !ko.validXpub krest then none else
        match Deriv.parse v with
        | none => none
        | some d => parseUnknowns ko isV2 { g with xpubs := g.xpubs ++ [(krest, d)] } r
      else if isV2 && k = [0x02] then
        if v.length ≠ 4 then none else parseUnknowns ko isV2 { g with txVersion := some (ofLe v) } r
      else if isV2 && k = [0x03] then
        if v.length ≠ 4 then none else parseUnknowns ko isV2 { g with locktime := some (ofLe v) } r
      else if isV2 && k = [0x04] then
        match parseAll Compact.read v with
        | none => none
        | some n => parseUnknowns ko isV2 { g with nin := some n } r
      else if isV2 && k = [0x05] then
        match parseAll Compact.read v with
        | none => none
        | some n => parseUnknowns ko isV2 { g with nout := some n } r
      else parseUnknowns ko isV2 { g with unknown := g.unknown ++ [(k, v)] } r

/-- scopes are seeded with the unsigned transaction's inputs / outputs (v0 only) -/
def seedIn (tx : Option Tx) (i : Nat) : InScope :=
  match tx with
  | some t => match t.vin[i]? with
    | some vi => { txid := some vi.txid, vout := some vi.vout, sequence := some vi.sequence }
    | none => {}
  | none => {}

def seedOut (tx : Option Tx) (i : Nat) : OutScope :=
  match tx with
  | some t => match t.vout[i]? with
    | some vo => { value := some vo.value, spk := some vo.spk }
    | none => {}
  | none => {}

/-- `n` input scopes starting with scope number `i` -/
def readIns (ko : KeyOps) (sha : Bytes → Bytes) (compress : Nat) (tx : Option Tx) : Nat → Nat → Parser (List InScope)
  | 0, _ => fun b => some ([], b)
  | n+1, i => fun b =>
    match readKVs b with
    | none => none
    | some (kvs, r) =>
      match InScope.addPairs ko sha compress (seedIn tx i) kvs with
      | none => none
      | some s => match readIns ko sha compress tx n (i+1) r with
        | none => none
        | some (ss, r') => some (s :: ss, r')

def readOuts (ko : KeyOps) (tx : Option Tx) : Nat → Nat → Parser (List OutScope)
  | 0, _ => fun b => some ([], b)
  | n+1, i => fun b =>
    match readKVs b with
    | none => none
    | some (kvs, r) =>
      match OutScope.addPairs ko (seedOut tx i) kvs with
      | none => none
      | some s => match readOuts ko tx n (i+1) r with
        | none => none
        | some (ss, r') => some (s :: ss, r')

def psbtMagic : Bytes := [0x70, 0x73, 0x62, 0x74, 0xff]

/-- `PSBT.parse(b, compress)` -/
def Psbt.parse (ko : KeyOps) (sha : Bytes → Bytes) (compress : Nat) (b : Bytes) : Option Psbt :=
  match takeN 5 b with
  | none => none
  | some (m, r0) =>
    if m ≠ psbtMagic then none else
    match readKVs r0 with
    | none => none
    | some (gkvs, r1) =>
      match globalFold none none [] gkvs with
      | none => none
      | some (tx, ver, unk) =>
        let isV2 := ver == some 2
        if tx.isSome && isV2 then none else
        if tx.isNone && !isV2 then none else
        let g0 : GState := { txVersion := tx.map (·.version), locktime := tx.map (·.locktime),
                             nin := tx.map (·.vin.length), nout := tx.map (·.vout.length),
                             xpubs := [], unknown := [] }
        match parseUnknowns ko isV2 g0 unk with
        | none => none
        | some g =>
          -- a version-2 PSBT without a count field has no scopes of that kind (`self.inputs = []`)
          let nin := g.nin.getD 0
          let nout := g.nout.getD 0
          match readIns ko sha compress tx nin 0 r1 with
          | none => none
          | some (ins, r2) =>
            match readOuts ko tx nout 0 r2 with
            | none => none
            | some (outs, r3) =>
              if !r3.isEmpty then none else
              some { version := ver, txVersion := g.txVersion, locktime := g.locktime, xpubs := g.xpubs,
                     unknown := g.unknown, inputs := ins, outputs := outs }

/-- the global scope `PSBT.write_to` emits -/
def Psbt.globalPairs (p : Psbt) : Option (List KV) :=
  let isV2 := p.version == some 2
  (if !isV2 then (p.tx.map fun t => [(([0x00] : Bytes), Tx.ser t)]) else some [])
  |>.map fun txp =>
    txp
    ++ p.xpubs.map (fun (x, d) => (0x01 :: x, Deriv.ser d))
    ++ (if isV2 then
          optKV [0x02] (p.txVersion.map (leN 4)) ++ optKV [0x03] (p.locktime.map (leN 4))
          ++ [([0x04], Compact.enc p.inputs.length), ([0x05], Compact.enc p.outputs.length)]
        else [])
    ++ optKV [0xfb] (p.version.map (leN 4))
    ++ p.unknown

/-- `PSBT.write_to` -/
def Psbt.ser (p : Psbt) : Option Bytes :=
  match p.globalPairs with
  | none => none
  | some gp =>
    some (psbtMagic ++ writeKVs gp
      ++ p.inputs.flatMap (fun s => writeKVs (s.pairs p.version))
      ++ p.outputs.flatMap (fun s => writeKVs (s.pairs p.version)))

/-- `PSBT.utxo(i)` -/
def Psbt.utxo (p : Psbt) (i : Nat) : Option TxOut :=
  match p.inputs[i]? with
  | none => none
  | some s =>
    if s.verified then s.utxo
    else match s.witnessUtxo with
      | some o => some o
      | none => match s.nonWitnessUtxo, s.vout with
        | some t, some n => t.vout[n]?
        | _, _ => none

/-- `PSBT.fee()` (an `Int`: Python's result may be negative) -/
def Psbt.fee (p : Psbt) : Option Int :=
  match optAll ((List.range p.inputs.length).map p.utxo), p.tx with
  | some us, some t => some ((us.map (fun o => (o.value : Int))).sum - (t.vout.map (fun o => (o.value : Int))).sum)
  | _, _ => none

end Embit.Model
