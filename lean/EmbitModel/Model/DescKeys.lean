import EmbitModel.Model.Descriptor
import EmbitModel.Crypto.Hmac
import EmbitModel.Crypto.Ripemd160
import EmbitModel.Crypto.Secp256k1
import EmbitModel.Generated.Networks
/-
  The concrete instance of `KeyOps` / `Hashes` used by the DRIVER (never by a theorem): executable Base58Check,
  BIP32 extended keys (parse, serialise, CKDpriv / CKDpub, neutering), WIF, SEC public keys and the BIP341
  output-key tweak, over the reference hashes in `Crypto/` and secp256k1 in Jacobian coordinates.
  It exists so that the correspondence compares real scripts byte for byte; BIP32 / key encodings / Base58 are the
  subjects of C09 / C10 / C11. Validated on every run against embit (ops `dk.*`).
-/
namespace Embit.Model.Descriptor.Concrete
open Embit Embit.Crypto Embit.Model.Descriptor

/-! ### secp256k1, Jacobian coordinates (z = 0: infinity) -/

def P : Nat := Secp.p
def N : Nat := Secp.n

@[inline] def subP (a b : Nat) : Nat := (a + P - b % P) % P

structure JPt where
  x : Nat
  y : Nat
  z : Nat

def jInf : JPt := ⟨1, 1, 0⟩

def jDouble (a : JPt) : JPt :=
  if a.z = 0 || a.y = 0 then jInf else
  let A := a.x * a.x % P
  let B := a.y * a.y % P
  let C := B * B % P
  let t := (a.x + B) % P
  let D := 2 * subP (subP (t * t % P) A) C % P
  let E := 3 * A % P
  let F := E * E % P
  let x3 := subP F (2 * D % P)
  let y3 := subP (E * subP D x3 % P) (8 * C % P)
  let z3 := 2 * a.y % P * a.z % P
  ⟨x3, y3, z3⟩

/-- mixed addition with an affine point -/
def jAddAffine (a : JPt) (qx qy : Nat) : JPt :=
  if a.z = 0 then ⟨qx, qy, 1⟩ else
  let z2 := a.z * a.z % P
  let u2 := qx * z2 % P
  let s2 := qy * z2 % P * a.z % P
  if u2 = a.x then
    if s2 = a.y then jDouble a else jInf
  else
    let H := subP u2 a.x
    let HH := H * H % P
    let HHH := H * HH % P
    let r := subP s2 a.y
    let V := a.x * HH % P
    let x3 := subP (subP (r * r % P) HHH) (2 * V % P)
    let y3 := subP (r * subP V x3 % P) (a.y * HHH % P)
    let z3 := a.z * H % P
    ⟨x3, y3, z3⟩

def jToAffine (a : JPt) : Secp.Pt :=
  if a.z = 0 then none else
  let zi := Secp.invP a.z
  let zi2 := zi * zi % P
  some (a.x * zi2 % P, a.y * zi2 % P * zi % P)

/-- `k·Q` for an affine `Q`, most significant bit first -/
def mulAffine (k : Nat) (q : Nat × Nat) : Secp.Pt :=
  let rec go : Nat → JPt → JPt
    | 0, acc => acc
    | i+1, acc =>
      let acc2 := jDouble acc
      go i (if k.testBit i then jAddAffine acc2 q.1 q.2 else acc2)
  jToAffine (go (k.log2 + 1) jInf)

def mulG (k : Nat) : Secp.Pt := if k = 0 then none else mulAffine k (Secp.gx, Secp.gy)

/-- `Q + k·G` -/
def addMulG (q : Nat × Nat) (k : Nat) : Secp.Pt :=
  match mulG k with
  | none => some q
  | some g => Secp.add (some q) (some g)

/-! ### hashes -/

def dsha256 (b : Bytes) : Bytes := sha256 (sha256 b)
def hash160 (b : Bytes) : Bytes := ripemd160 (sha256 b)
def taggedHash (tag : String) (data : Bytes) : Bytes :=
  let t := sha256 tag.toUTF8.toList
  sha256 (t ++ t ++ data)

def hashes : Hashes := ⟨sha256, hash160, taggedHash⟩

/-! ### Base58Check (embit `base58.py`) -/

def B58 : Str := ['1', '2', '3', '4', '5', '6', '7', '8', '9', 'A', 'B', 'C', 'D', 'E', 'F', 'G', 'H', 'J', 'K', 'L', 'M', 'N', 'P', 'Q', 'R', 'S', 'T', 'U', 'V', 'W', 'X', 'Y', 'Z', 'a', 'b', 'c', 'd', 'e', 'f', 'g', 'h', 'i', 'j', 'k', 'm', 'n', 'o', 'p', 'q', 'r', 's', 't', 'u', 'v', 'w', 'x', 'y', 'z']

def b58Digits : Nat → Nat → Str → Str
  | 0, _, acc => acc
  | fuel+1, n, acc => if n = 0 then acc else b58Digits fuel (n / 58) (B58.getD (n % 58) '1' :: acc)

def leadingZeros : Bytes → Nat
  | 0 :: r => leadingZeros r + 1
  | _ => 0

def b58encode (b : Bytes) : Str :=
  let n := ofBe b
  List.replicate (leadingZeros b) '1' ++ b58Digits (2 * b.length + 2) n []

def b58value : Str → Nat → Option Nat
  | [], n => some n
  | c :: r, n => match findIdx B58 c with
    | some d => b58value r (58 * n + d)
    | none => none

def leadingOnes : Str → Nat
  | '1' :: r => leadingOnes r + 1
  | _ => 0

/-- minimal big-endian bytes of `n` as `"%x" % n` padded to even length gives them (`0` ↦ one zero byte) -/
def minimalBe (n : Nat) : Bytes :=
  if n = 0 then [0] else beN ((n.log2 / 8) + 1) n

def b58decode (s : Str) : Option Bytes :=
  if s.isEmpty then some [] else
  match b58value s 0 with
  | none => none
  | some n => some (List.replicate (leadingOnes s.dropLast) 0 ++ minimalBe n)

def b58encodeCheck (b : Bytes) : Str := b58encode (b ++ (dsha256 b).take 4)

def b58decodeCheck (s : Str) : Option Bytes :=
  match b58decode s with
  | none => none
  | some b =>
    if b.length < 4 then none else
    let body := b.take (b.length - 4)
    if b.drop (b.length - 4) = (dsha256 body).take 4 then some body else none

/-! ### key objects -/

inductive XBody
  | priv (secret : Nat)
  | pub (pt : Nat × Nat)
deriving Repr

inductive CKey
  /-- `ec.PublicKey(point, compressed)` -/
  | pub (pt : Nat × Nat) (compressed : Bool)
  /-- `ec.PrivateKey(secret, compressed, network)`; the network is kept as its WIF prefix byte string -/
  | priv (secret : Nat) (compressed : Bool) (wifPrefix : Bytes)
  /-- `bip32.HDKey` -/
  | xkey (version : Bytes) (depth : Nat) (fingerprint : Bytes) (child : Nat) (chain : Bytes) (body : XBody)
deriving Repr

def pointOfSecret (d : Nat) : Nat × Nat := (mulG d).getD (0, 0)

def CKey.point : CKey → Nat × Nat
  | .pub pt _ => pt
  | .priv d _ _ => pointOfSecret d
  | .xkey _ _ _ _ _ (.priv d) => pointOfSecret d
  | .xkey _ _ _ _ _ (.pub pt) => pt

def secOf (pt : Nat × Nat) (compressed : Bool) : Bytes :=
  if compressed then Secp.secCompressed (some pt) else Secp.secUncompressed (some pt)

def CKey.sec : CKey → Bytes
  | .pub pt c => secOf pt c
  | .priv d c _ => secOf (pointOfSecret d) c
  | k => secOf k.point true

def CKey.kind : CKey → KeyKind
  | .pub _ _ => .pub
  | .priv _ _ _ => .priv
  | .xkey .. => .xkey

def CKey.isPrivate : CKey → Bool
  | .pub _ _ => false
  | .priv _ _ _ => true
  | .xkey _ _ _ _ _ (.priv _) => true
  | .xkey _ _ _ _ _ (.pub _) => false

def parseSec (b : Bytes) : Option CKey :=
  match Secp.secParse b with
  | some pt => some (.pub pt (b.head? != some 0x04))
  | none => none

def xkeySerialize (version : Bytes) (depth : Nat) (fp : Bytes) (child : Nat) (chain : Bytes) (body : XBody) : Bytes :=
  version ++ [UInt8.ofNat depth] ++ fp ++ beN 4 child ++ chain ++
    (match body with
      | .priv d => 0 :: beN 32 d
      | .pub pt => secOf pt true)

/-- `HDKey.to_base58()`; `none` when the constructor's / `to_base58`'s "prv"/"pub" check fails or depth > 255 -/
def xkeyText (version : Bytes) (depth : Nat) (fp : Bytes) (child : Nat) (chain : Bytes) (body : XBody) :
    Option Str :=
  if depth > 255 then none else
  let s := b58encodeCheck (xkeySerialize version depth fp child chain body)
  let mid := (s.drop 1).take 3
  let want := match body with | .priv _ => ['p', 'r', 'v'] | .pub _ => ['p', 'u', 'b']
  if mid = want then some s else none

/-- `HDKey.from_base58` = `decode_check` + `HDKey.parse` (78 bytes exactly; constructor checks) -/
def parseXkey (s : Str) : Option CKey :=
  match b58decodeCheck s with
  | none => none
  | some b =>
    if b.length ≠ 78 then none else
    let version := b.take 4
    let depth := (b.getD 4 0).toNat
    let fp := (b.drop 5).take 4
    let child := ofBe ((b.drop 9).take 4)
    let chain := (b.drop 13).take 32
    let k := b.drop 45
    let body : Option XBody :=
      if k.head? = some 0 then
        let d := ofBe (k.drop 1)
        if d = 0 || d ≥ N then none else some (.priv d)
      else (Secp.secParse k).bind fun pt => if k.length = 33 then some (.pub pt) else none
    match body with
    | none => none
    | some body =>
      match xkeyText version depth fp child chain body with
      | none => none
      | some _ =>
        if depth = 0 && child ≠ 0 then none
        else if depth = 0 && fp ≠ [0, 0, 0, 0] then none
        else some (.xkey version depth fp child chain body)

def knownWifPrefix (p : Bytes) : Bool := Generated.networks.any fun n => n.wif = p

/-- `PrivateKey.from_wif` (a version byte that belongs to no network is refused: "Unknown WIF version byte") -/
def parseWif (s : Str) : Option CKey :=
  match b58decodeCheck s with
  | none => none
  | some b =>
    if !knownWifPrefix (b.take 1) then none else
    if b.length ≠ 33 && b.length ≠ 34 then none else
    if b.length = 34 && b.getLast? ≠ some 1 then none else
    let d := ofBe ((b.drop 1).take 32)
    if d = 0 || d ≥ N then none else some (.priv d (b.length = 34) (b.take 1))

def CKey.text : CKey → Option Str
  | .pub _ _ => none
  | .priv d c p =>
    if knownWifPrefix p then some (b58encodeCheck (p ++ beN 32 d ++ (if c then [1] else []))) else none
  | .xkey v dep fp ch cc body => xkeyText v dep fp ch cc body

/-- `HDKey.child(index)` -/
def ckd (k : CKey) (index : Nat) : Option CKey :=
  match k with
  | .xkey v depth _ _ chain body =>
    if index > 0xFFFFFFFF then none else
    let hardened := index ≥ HARDENED
    let sec := secOf k.point true
    let fp := (hash160 sec).take 4
    match body with
    | .priv d =>
      let data := if hardened then 0 :: beN 32 d ++ beN 4 index else sec ++ beN 4 index
      let raw := hmacSha512 chain data
      let il := ofBe (raw.take 32)
      if il ≥ N then none else
      let d' := (il + d) % N
      if d' = 0 then none else some (.xkey v (depth + 1) fp index (raw.drop 32) (.priv d'))
    | .pub pt =>
      if hardened then none else
      let raw := hmacSha512 chain (sec ++ beN 4 index)
      let il := ofBe (raw.take 32)
      if il ≥ N then none else
      match addMulG pt il with
      | none => none
      | some q => some (.xkey v (depth + 1) fp index (raw.drop 32) (.pub q))
  | _ => none

def ckdPath (k : CKey) : List (Option Nat) → Option CKey
  | [] => some k
  | none :: _ => none
  | some i :: r => (ckd k i).bind fun c => ckdPath c r

/-- the version `HDKey.to_public()` picks: the `*pub` twin of the LAST network entry whose `*prv` version matches -/
def pubVersionOf (v : Bytes) : Option Bytes :=
  let cands := Generated.networks.filterMap fun n =>
    (n.versions.find? fun kv => kv.2 = v && kv.1.toList.drop 1 = ['p', 'r', 'v']).bind fun kv =>
      (n.versions.find? fun kv2 => kv2.1.toList = kv.1.toList.take 1 ++ ['p', 'u', 'b']).map (·.2)
  cands.getLast?

def CKey.toPublic : CKey → Option CKey
  | .pub pt c => some (.pub pt c)
  | .priv d c _ => some (.pub (pointOfSecret d) c)
  | .xkey v dep fp ch cc (.priv d) =>
    match pubVersionOf v with
    | none => none
    | some v' =>
      let body := XBody.pub (pointOfSecret d)
      (xkeyText v' dep fp ch cc body).map fun _ => .xkey v' dep fp ch cc body
  | .xkey _ _ _ _ _ (.pub _) => none      -- "Already public"

/-- `key.taproot_tweak(h).xonly()`: x of `lift_x(x(P)) + int(TapTweak(x(P) ‖ h))·G` -/
def CKey.tweak (k : CKey) (h : Bytes) : Option Bytes :=
  let x := k.point.1
  let t := ofBe (taggedHash "TapTweak" (beN 32 x ++ h))
  if t = 0 || t ≥ N then none else
  match Secp.liftX x false with
  | none => none
  | some pt =>
    match addMulG pt t with
    | none => none
    | some q => some (beN 32 q.1)

def ops : KeyOps CKey where
  kind := CKey.kind
  parseSec := parseSec
  parseXkey := parseXkey
  parseWif := parseWif
  text := CKey.text
  sec := CKey.sec
  isPrivate := CKey.isPrivate
  derive := ckdPath
  toPublic := CKey.toPublic
  tweak := CKey.tweak

end Embit.Model.Descriptor.Concrete
