import EmbitModel.Model.Tx
/-
  Model of embit `liquid/transaction.py`: Elements transaction codecs (LTransaction, LTransactionInput with the
  issuance / pegin flags folded into bits 31 / 30 of the output index, AssetIssuance, LTransactionOutput with
  explicit or committed asset / value and the ECDH nonce, TxInWitness / TxOutWitness / Proof).
  Follows the code AFTER the C18 `fix:` patch `liquid-strict-reads` (exact reads everywhere, flag byte must be
  0 or 1, a witness flag with all-empty witnesses is refused). Prefix bytes of commitments are NOT validated by
  embit (any byte other than 0x01 introduces a 33-byte value, any non-zero byte a 33-byte nonce, the asset is
  always 33 bytes) and the model follows that.
-/
namespace Embit

/-- `read_commitment` / `write_commitment` (issuance amounts): `None`, an explicit integer, or 33 raw bytes -/
inductive Commit where
  | null
  | explicit (v : Nat)
  | conf (b : Bytes)
deriving DecidableEq, Repr, Inhabited

structure Issuance where
  nonce : Bytes
  entropy : Bytes
  amount : Commit
  token : Commit
deriving DecidableEq, Repr, Inhabited

structure LInWitness where
  amountProof : Bytes := []
  tokenProof : Bytes := []
  scriptWitness : List Bytes := []
  peginWitness : List Bytes := []
deriving DecidableEq, Repr, Inhabited

structure LOutWitness where
  surjProof : Bytes := []
  rangeProof : Bytes := []
deriving DecidableEq, Repr, Inhabited

/-- `LTransactionOutput.value`: a Python `int` or the 33 raw bytes of a commitment -/
inductive LValue where
  | explicit (v : Nat)
  | conf (b : Bytes)
deriving DecidableEq, Repr, Inhabited

structure LTxIn where
  txid : Bytes            -- display order (reversed wire order)
  vout : Nat              -- flags removed
  scriptSig : Bytes
  sequence : Nat
  isPegin : Bool := false
  issuance : Option Issuance := none
  witness : LInWitness := {}
deriving DecidableEq, Repr, Inhabited

structure LTxOut where
  asset : Bytes           -- as stored by the constructor: 32 bytes (explicit, prefix 0x01 removed) or the 33 raw bytes
  value : LValue
  nonce : Option Bytes    -- `ecdh_pubkey`
  spk : Bytes
  witness : LOutWitness := {}
deriving DecidableEq, Repr, Inhabited

structure LTx where
  version : Nat
  vin : List LTxIn
  vout : List LTxOut
  locktime : Nat
deriving DecidableEq, Repr, Inhabited

namespace Model

/-! ### commitments, issuance -/

def Commit.ser : Commit → Bytes
  | .null => [0]
  | .explicit v => 1 :: beN 8 v
  | .conf b => b

def readBe (k : Nat) : Parser Nat := fun b =>
  match takeN k b with
  | some (x, r) => some (ofBe x, r)
  | none => none

def Commit.read : Parser Commit := fun b =>
  match takeN 1 b with
  | none => none
  | some (c, r) =>
    if c = [0] then some (.null, r)
    else if c = [1] then
      match readBe 8 r with
      | none => none
      | some (v, r') => some (.explicit v, r')
    else
      match takeN 32 r with
      | none => none
      | some (x, r') => some (.conf (c ++ x), r')

def Issuance.ser (a : Issuance) : Bytes :=
  a.nonce ++ a.entropy ++ Commit.ser a.amount ++ Commit.ser a.token

def Issuance.read : Parser Issuance := fun b =>
  match takeN 32 b with
  | none => none
  | some (n, r1) =>
    match takeN 32 r1 with
    | none => none
    | some (e, r2) =>
      match Commit.read r2 with
      | none => none
      | some (a, r3) =>
        match Commit.read r3 with
        | none => none
        | some (t, r4) => some ({ nonce := n, entropy := e, amount := a, token := t }, r4)

/-! ### witnesses -/

/-- `Proof.write_to` / `Proof.read_from`: a length-prefixed byte string -/
def proofSer (d : Bytes) : Bytes := scriptSer d
def proofRead : Parser Bytes := scriptRead

def LInWitness.ser (w : LInWitness) : Bytes :=
  proofSer w.amountProof ++ proofSer w.tokenProof ++ witnessSer w.scriptWitness ++ witnessSer w.peginWitness

def LInWitness.isEmpty (w : LInWitness) : Bool :=
  w.amountProof.isEmpty && w.tokenProof.isEmpty && w.scriptWitness.isEmpty && w.peginWitness.isEmpty

def LInWitness.read : Parser LInWitness := fun b =>
  match proofRead b with
  | none => none
  | some (a, r1) =>
    match proofRead r1 with
    | none => none
    | some (t, r2) =>
      match witnessRead r2 with
      | none => none
      | some (s, r3) =>
        match witnessRead r3 with
        | none => none
        | some (p, r4) => some ({ amountProof := a, tokenProof := t, scriptWitness := s, peginWitness := p }, r4)

def LOutWitness.ser (w : LOutWitness) : Bytes := proofSer w.surjProof ++ proofSer w.rangeProof

def LOutWitness.isEmpty (w : LOutWitness) : Bool := w.surjProof.isEmpty && w.rangeProof.isEmpty

def LOutWitness.read : Parser LOutWitness := fun b =>
  match proofRead b with
  | none => none
  | some (s, r1) =>
    match proofRead r1 with
    | none => none
    | some (p, r2) => some ({ surjProof := s, rangeProof := p }, r2)

/-! ### inputs -/

/-- the output index as written: `vout += 1 << 31` with an issuance, `vout += 1 << 30` for a peg-in -/
def LTxIn.wireVout (i : LTxIn) : Nat :=
  i.vout + (if i.issuance.isSome then 2^31 else 0) + (if i.isPegin then 2^30 else 0)

/-- `LTransactionInput.write_to` (default arguments; the witness is written elsewhere) -/
def LTxIn.ser (i : LTxIn) : Bytes :=
  i.txid.reverse ++ leN 4 (LTxIn.wireVout i) ++ scriptSer i.scriptSig ++ leN 4 i.sequence
  ++ (match i.issuance with | some a => Issuance.ser a | none => [])

/-- `LTransactionInput.read_from` -/
def LTxIn.read : Parser LTxIn := fun b =>
  match takeN 32 b with
  | none => none
  | some (t, r1) =>
    match readLe 4 r1 with
    | none => none
    | some (vout, r2) =>
      match scriptRead r2 with
      | none => none
      | some (ss, r3) =>
        match readLe 4 r3 with
        | none => none
        | some (sq, r4) =>
          if vout = 0xFFFFFFFF then
            some ({ txid := t.reverse, vout := vout, scriptSig := ss, sequence := sq }, r4)
          else if vout / 2^31 % 2 = 1 then
            match Issuance.read r4 with
            | none => none
            | some (a, r5) =>
              some ({ txid := t.reverse, vout := vout % 2^30, scriptSig := ss, sequence := sq,
                      isPegin := vout / 2^30 % 2 = 1, issuance := some a }, r5)
          else
            some ({ txid := t.reverse, vout := vout % 2^30, scriptSig := ss, sequence := sq,
                    isPegin := vout / 2^30 % 2 = 1 }, r4)

/-! ### outputs -/

def LValue.ser : LValue → Bytes
  | .explicit v => 1 :: beN 8 v
  | .conf b => b

/-- `if self.ecdh_pubkey: write it else write 0x00` — `None` and `b""` both give a single zero byte -/
def nonceSer : Option Bytes → Bytes
  | some n => if n.isEmpty then [0] else n
  | none => [0]

/-- `LTransactionOutput.write_to` -/
def LTxOut.ser (o : LTxOut) : Bytes :=
  (if o.asset.length = 32 then [1] else []) ++ o.asset ++ LValue.ser o.value ++ nonceSer o.nonce ++ scriptSer o.spk

/-- the constructor's normalisation: a 33-byte asset with prefix 0x01 loses the prefix -/
def normAsset (a : Bytes) : Bytes :=
  match a with
  | [] => a
  | c :: rest => if c = 1 ∧ rest.length = 32 then rest else a

/-- value after its prefix byte `c`: explicit 8 bytes big-endian when `c = 1`, otherwise 32 more raw bytes -/
def readValueAfter (c : UInt8) : Parser LValue := fun b =>
  if c = 1 then
    match readBe 8 b with
    | none => none
    | some (v, r) => some (.explicit v, r)
  else
    match takeN 32 b with
    | none => none
    | some (x, r) => some (.conf (c :: x), r)

/-- nonce after its prefix byte `c`: absent when `c = 0`, otherwise 32 more raw bytes -/
def readNonceAfter (c : UInt8) : Parser (Option Bytes) := fun b =>
  if c = 0 then some (none, b)
  else match takeN 32 b with
    | none => none
    | some (x, r) => some (some (c :: x), r)

/-- `LTransactionOutput.read_from` -/
def LTxOut.read : Parser LTxOut := fun b =>
  match takeN 33 b with
  | none => none
  | some (a, r1) =>
    match r1 with
    | [] => none
    | c :: r2 =>
      match readValueAfter c r2 with
      | none => none
      | some (v, r3) =>
        match r3 with
        | [] => none
        | c2 :: r4 =>
          match readNonceAfter c2 r4 with
          | none => none
          | some (n, r5) =>
            match scriptRead r5 with
            | none => none
            | some (s, r6) => some ({ asset := normAsset a, value := v, nonce := n, spk := s }, r6)

/-! ### transactions -/

/-- `LTransaction.has_witness` -/
def LTx.hasWitness (t : LTx) : Bool :=
  t.vin.any (fun i => !LInWitness.isEmpty i.witness) || t.vout.any (fun o => !LOutWitness.isEmpty o.witness)

/-- `LTransaction.write_to` -/
def LTx.ser (t : LTx) : Bytes :=
  leN 4 t.version
  ++ [if LTx.hasWitness t then 1 else 0]
  ++ Compact.enc t.vin.length ++ t.vin.flatMap LTxIn.ser
  ++ Compact.enc t.vout.length ++ t.vout.flatMap LTxOut.ser
  ++ leN 4 t.locktime
  ++ (if LTx.hasWitness t then
        t.vin.flatMap (fun i => LInWitness.ser i.witness) ++ t.vout.flatMap (fun o => LOutWitness.ser o.witness)
      else [])

/-- the pre-image `LTransaction.hash` feeds to SHA-256d (flag byte forced to 0, no witnesses) -/
def LTx.hashPreimage (t : LTx) : Bytes :=
  leN 4 t.version ++ [0]
  ++ Compact.enc t.vin.length ++ t.vin.flatMap LTxIn.ser
  ++ Compact.enc t.vout.length ++ t.vout.flatMap LTxOut.ser
  ++ leN 4 t.locktime

def LTx.txid (sha : Bytes → Bytes) (t : LTx) : Bytes := (sha (sha (LTx.hashPreimage t))).reverse

def setInWitnesses : List LTxIn → List LInWitness → List LTxIn
  | i :: is, w :: ws => { i with witness := w } :: setInWitnesses is ws
  | is, _ => is

def setOutWitnesses : List LTxOut → List LOutWitness → List LTxOut
  | o :: os, w :: ws => { o with witness := w } :: setOutWitnesses os ws
  | os, _ => os

/-- `LTransaction.read_from` -/
def LTx.read : Parser LTx := fun b =>
  match readLe 4 b with
  | none => none
  | some (ver, r1) =>
    match takeN 1 r1 with
    | none => none
    | some (flag, r2) =>
      if flag ≠ [0] ∧ flag ≠ [1] then none else
      match Compact.read r2 with
      | none => none
      | some (n, r3) =>
        match readMany LTxIn.read n r3 with
        | none => none
        | some (vin, r4) =>
          match Compact.read r4 with
          | none => none
          | some (m, r5) =>
            match readMany LTxOut.read m r5 with
            | none => none
            | some (vout, r6) =>
              match readLe 4 r6 with
              | none => none
              | some (lt, r7) =>
                if flag = [1] then
                  match readMany LInWitness.read vin.length r7 with
                  | none => none
                  | some (iw, r8) =>
                    match readMany LOutWitness.read vout.length r8 with
                    | none => none
                    | some (ow, r9) =>
                      let t : LTx := { version := ver, vin := setInWitnesses vin iw,
                                       vout := setOutWitnesses vout ow, locktime := lt }
                      if !(LTx.hasWitness t) then none else some (t, r9)
                else
                  some ({ version := ver, vin := vin, vout := vout, locktime := lt }, r7)

/-- no `int.to_bytes` overflows while writing (Python raises `OverflowError` otherwise; `LTx.ser` itself truncates) -/
def Commit.fits : Commit → Bool
  | .explicit v => v < 2^64
  | _ => true

def LTx.fits (t : LTx) : Bool :=
  t.version < 2^32 && t.locktime < 2^32
  && t.vin.all (fun i => LTxIn.wireVout i < 2^32 && i.sequence < 2^32
      && (match i.issuance with | some a => Commit.fits a.amount && Commit.fits a.token | none => true))
  && t.vout.all (fun o => match o.value with | .explicit v => v < 2^64 | .conf _ => true)

/-- `LTransaction.serialize()` as Python executes it: `none` when a field does not fit its width -/
def LTx.serOpt (t : LTx) : Option Bytes := if LTx.fits t then some (LTx.ser t) else none

def LTx.parse (b : Bytes) : Option LTx := parseAll LTx.read b
def LTxOut.parse (b : Bytes) : Option LTxOut := parseAll LTxOut.read b
def LTxIn.parse (b : Bytes) : Option LTxIn := parseAll LTxIn.read b

end Model
end Embit
