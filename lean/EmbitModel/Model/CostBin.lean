import EmbitModel.Model.Tx
import EmbitModel.Model.Psbt
import EmbitModel.Model.ReadVout
/-
  C17 — INSTRUMENTED byte parsers: the parsers of `Model/Tx.lean`, `Model/Psbt.lean` (`readKVs`) and
  `Model/ReadVout.lean` written once more with the same control flow, returning the value TOGETHER WITH a step count.
  `Props/C17Y.lean` proves the erasure theorems (first component = the model parser, for every input — the
  instrumented parser IS the model parser with a counter attached) and the step bounds.

  What one step is
    * 1 per call of `stream.read(n)` with a fixed `n` (version, flag, txid, vout, sequence, value, locktime);
    * 2 per `compact.read_from` (`read(1)`, then `read(2|4|8)`);
    * `takeSteps l b = 2 + min l |b| / 4096` per length-prefixed byte string of claimed length `l` (`compact.read_bytes`
      reads in pieces of 4096 bytes: at most one call per piece the stream can deliver, one short or empty read);
    * 1 per iteration of a counted loop (`for i in range(n)`), including the iteration that fails;
    * 1 per round of the `while True` loop of a PSBT scope.
  Failing runs are counted as well (the steps done up to the failure). Mathlib-free, executable.
-/
namespace Embit.Model.CostBin
open Embit Embit.Model

/-- a parser that also says how many steps it took (whether it succeeded or not) -/
abbrev CP (α : Type) := Bytes → Option (α × Bytes) × Nat

/-- the value part of an instrumented parser -/
def erase {α : Type} (p : CP α) : Parser α := fun b => (p b).1

/-- `stream.read` calls of `compact.read_bytes(stream, l)` on the remaining bytes `b` (upper bound) -/
def takeSteps (l : Nat) (b : Bytes) : Nat := 2 + min l b.length / 4096

/-- `for i in range(n): xs.append(p(stream))`: one step per iteration + the steps of the element reader -/
def readManyC {α : Type} (p : CP α) : Nat → CP (List α)
  | 0 => fun b => (some ([], b), 0)
  | n+1 => fun b =>
    let q := p b
    match q.1 with
    | some (x, r) =>
      let q' := readManyC p n r
      match q'.1 with
      | some (xs, r') => (some (x :: xs, r'), 1 + q.2 + q'.2)
      | none => (none, 1 + q.2 + q'.2)
    | none => (none, 1 + q.2)

/-- `Script.read_from` -/
def scriptReadC : CP Bytes := fun b =>
  match Compact.read b with
  | some (l, r) => (takeN l r, 2 + takeSteps l r)
  | none => (none, 2)

/-- `Witness.read_from` -/
def witnessReadC : CP (List Bytes) := fun b =>
  match Compact.read b with
  | some (n, r) => let q := readManyC scriptReadC n r; (q.1, 2 + q.2)
  | none => (none, 2)

/-- `TransactionInput.read_from` -/
def txInReadC : CP TxIn := fun b =>
  match takeN 32 b with
  | none => (none, 1)
  | some (t, r1) =>
    match readLe 4 r1 with
    | none => (none, 2)
    | some (vout, r2) =>
      let q := scriptReadC r2
      match q.1 with
      | none => (none, 2 + q.2)
      | some (ss, r3) =>
        match readLe 4 r3 with
        | none => (none, 3 + q.2)
        | some (sq, r4) =>
          (some ({ txid := t.reverse, vout := vout, scriptSig := ss, sequence := sq, witness := [] }, r4), 3 + q.2)

/-- `TransactionOutput.read_from` -/
def txOutReadC : CP TxOut := fun b =>
  match readLe 8 b with
  | none => (none, 1)
  | some (v, r1) =>
    let q := scriptReadC r1
    match q.1 with
    | none => (none, 1 + q.2)
    | some (s, r2) => (some ({ value := v, spk := s }, r2), 1 + q.2)

/-- `Transaction.read_from` -/
def txReadC : CP Tx := fun b =>
  match readLe 4 b with
  | none => (none, 1)
  | some (ver, r1) =>
    match Compact.read r1 with
    | none => (none, 3)
    | some (n0, r2) =>
      if n0 = 0 then
        match takeN 1 r2 with
        | none => (none, 4)
        | some (flag, r3) =>
          if flag ≠ [1] then (none, 4) else
          match Compact.read r3 with
          | none => (none, 6)
          | some (n, r4) =>
            let qi := readManyC txInReadC n r4
            match qi.1 with
            | none => (none, 6 + qi.2)
            | some (vin, r5) =>
              match Compact.read r5 with
              | none => (none, 8 + qi.2)
              | some (m, r6) =>
                let qo := readManyC txOutReadC m r6
                match qo.1 with
                | none => (none, 8 + qi.2 + qo.2)
                | some (vout, r7) =>
                  let qw := readManyC witnessReadC vin.length r7
                  match qw.1 with
                  | none => (none, 8 + qi.2 + qo.2 + qw.2)
                  | some (wits, r8) =>
                    let vin' := setWitnesses vin wits
                    if !(vin'.any TxIn.isSegwit) then (none, 8 + qi.2 + qo.2 + qw.2) else
                    match readLe 4 r8 with
                    | none => (none, 9 + qi.2 + qo.2 + qw.2)
                    | some (lt, r9) =>
                      (some ({ version := ver, vin := vin', vout := vout, locktime := lt }, r9),
                        9 + qi.2 + qo.2 + qw.2)
      else
        let qi := readManyC txInReadC n0 r2
        match qi.1 with
        | none => (none, 3 + qi.2)
        | some (vin, r5) =>
          match Compact.read r5 with
          | none => (none, 5 + qi.2)
          | some (m, r6) =>
            let qo := readManyC txOutReadC m r6
            match qo.1 with
            | none => (none, 5 + qi.2 + qo.2)
            | some (vout, r7) =>
              match readLe 4 r7 with
              | none => (none, 6 + qi.2 + qo.2)
              | some (lt, r9) =>
                (some ({ version := ver, vin := vin, vout := vout, locktime := lt }, r9), 6 + qi.2 + qo.2)

/-- `Transaction.parse`: `read_from`, then "Unexpected extra bytes" (one more `read`) -/
def txParseC (b : Bytes) : Option Tx × Nat :=
  let q := txReadC b
  (match q.1 with
    | some (x, []) => some x
    | _ => none, q.2 + 1)

/-! ### PSBT key-value scopes: the `while True` loop, three-valued -/

/-- what a fuelled loop can answer: a value, a rejection (Python raises), or "the fuel ran out" -/
inductive Res (α : Type) where
  | ok (x : α)
  | reject
  | outOfFuel
deriving DecidableEq, Repr

def Res.toOption {α : Type} : Res α → Option α
  | .ok x => some x
  | _ => none

def Res.isOutOfFuel {α : Type} : Res α → Bool
  | .outOfFuel => true
  | _ => false

/-- `readKVsFuel` with a step count (one per round + the two `read_string`s) and with "out of fuel" kept apart
    from "rejected" -/
def readKVsFuelC : Nat → Bytes → Res (List KV × Bytes) × Nat
  | 0 => fun _ => (.outOfFuel, 0)
  | fuel+1 => fun b =>
    let qk := scriptReadC b
    match qk.1 with
    | none => (.reject, 1 + qk.2)
    | some (k, r1) =>
      if k.isEmpty then (.ok ([], r1), 1 + qk.2) else
      let qv := scriptReadC r1
      match qv.1 with
      | none => (.reject, 1 + qk.2 + qv.2)
      | some (v, r2) =>
        let q := readKVsFuelC fuel r2
        match q.1 with
        | .ok (kvs, r3) => (.ok ((k, v) :: kvs, r3), 1 + qk.2 + qv.2 + q.2)
        | .reject => (.reject, 1 + qk.2 + qv.2 + q.2)
        | .outOfFuel => (.outOfFuel, 1 + qk.2 + qv.2 + q.2)

/-- one scope of a PSBT / PSET: the fuel the model uses -/
def readKVsC (b : Bytes) : Res (List KV × Bytes) × Nat := readKVsFuelC (b.length + 1) b

/-! ### PSBT: `PSBT.read_from` (version 0 and 2, every `compress` mode)

  Counted: the magic (1), the rounds and reads of every scope's `while True` loop (`readKVsC`), one step per pair
  handed to `read_value` / `parse_unknowns` (the folds `globalFold`, `parseUnknowns`, `InScope.addPairs`,
  `OutScope.addPairs` are structural recursions over the pairs just read), one step per scope of the two counted
  loops. NOT counted: what a field decoder does with a value that has already been read (for the transaction-valued
  fields that is `txParseC` on the value, bounded by `txReadC_bound`). -/

/-- `n` input scopes starting with scope number `i` -/
def readInsC (ko : KeyOps) (sha : Bytes → Bytes) (compress : Nat) (tx : Option Tx) :
    Nat → Nat → CP (List InScope)
  | 0, _ => fun b => (some ([], b), 0)
  | n+1, i => fun b =>
    let q := readKVsC b
    match q.1.toOption with
    | none => (none, 1 + q.2)
    | some (kvs, r) =>
      match InScope.addPairs ko sha compress (seedIn tx i) kvs with
      | none => (none, 1 + q.2 + kvs.length)
      | some s =>
        let q' := readInsC ko sha compress tx n (i+1) r
        match q'.1 with
        | none => (none, 1 + q.2 + kvs.length + q'.2)
        | some (ss, r') => (some (s :: ss, r'), 1 + q.2 + kvs.length + q'.2)

def readOutsC (ko : KeyOps) (tx : Option Tx) : Nat → Nat → CP (List OutScope)
  | 0, _ => fun b => (some ([], b), 0)
  | n+1, i => fun b =>
    let q := readKVsC b
    match q.1.toOption with
    | none => (none, 1 + q.2)
    | some (kvs, r) =>
      match OutScope.addPairs ko (seedOut tx i) kvs with
      | none => (none, 1 + q.2 + kvs.length)
      | some s =>
        let q' := readOutsC ko tx n (i+1) r
        match q'.1 with
        | none => (none, 1 + q.2 + kvs.length + q'.2)
        | some (ss, r') => (some (s :: ss, r'), 1 + q.2 + kvs.length + q'.2)

/-- `PSBT.parse(b, compress)` -/
def psbtParseC (ko : KeyOps) (sha : Bytes → Bytes) (compress : Nat) (b : Bytes) : Option Psbt × Nat :=
  match takeN 5 b with
  | none => (none, 1)
  | some (m, r0) =>
    if m ≠ psbtMagic then (none, 1) else
    let qg := readKVsC r0
    match qg.1.toOption with
    | none => (none, 1 + qg.2)
    | some (gkvs, r1) =>
      match globalFold none none [] gkvs with
      | none => (none, 1 + qg.2 + gkvs.length)
      | some (tx, ver, unk) =>
        let isV2 := ver == some 2
        if tx.isSome && isV2 then (none, 1 + qg.2 + gkvs.length) else
        if tx.isNone && !isV2 then (none, 1 + qg.2 + gkvs.length) else
        let g0 : GState := { txVersion := tx.map (·.version), locktime := tx.map (·.locktime),
                             nin := tx.map (·.vin.length), nout := tx.map (·.vout.length),
                             xpubs := [], unknown := [] }
        match parseUnknowns ko isV2 g0 unk with
        | none => (none, 1 + qg.2 + 2 * gkvs.length)
        | some g =>
          let nin := g.nin.getD 0
          let nout := g.nout.getD 0
          let qi := readInsC ko sha compress tx nin 0 r1
          match qi.1 with
          | none => (none, 1 + qg.2 + 2 * gkvs.length + qi.2)
          | some (ins, r2) =>
            let qo := readOutsC ko tx nout 0 r2
            match qo.1 with
            | none => (none, 1 + qg.2 + 2 * gkvs.length + qi.2 + qo.2)
            | some (outs, r3) =>
              if !r3.isEmpty then (none, 2 + qg.2 + 2 * gkvs.length + qi.2 + qo.2) else
              (some { version := ver, txVersion := g.txVersion, locktime := g.locktime, xpubs := g.xpubs,
                      unknown := g.unknown, inputs := ins, outputs := outs },
                2 + qg.2 + 2 * gkvs.length + qi.2 + qo.2)

/-! ### `Transaction.read_vout` (the streamed previous-transaction reader of the PSBT memory-saving modes) -/

/-- `Transaction.read_vout(stream, idx)` -/
def readVoutC (sha : Bytes → Bytes) (idx : Nat) : CP (TxOut × Bytes) := fun b =>
  match takeN 4 b with
  | none => (none, 1)
  | some (verBytes, r1) =>
    match Compact.read r1 with
    | none => (none, 3)
    | some (n0, r2) =>
      let afterMarker : Option (Bool × Nat × Bytes) :=
        if n0 = 0 then
          match takeN 1 r2 with
          | none => none
          | some (flag, r3) =>
            if flag ≠ [1] then none else
            match Compact.read r3 with
            | none => none
            | some (n, r4) => some (true, n, r4)
        else some (false, n0, r2)
      match afterMarker with
      | none => (none, 6)
      | some (isSegwit, n, r4) =>
        let qi := readManyC txInReadC n r4
        match qi.1 with
        | none => (none, 6 + qi.2)
        | some (vin, r5) =>
          match Compact.read r5 with
          | none => (none, 8 + qi.2)
          | some (m, r6) =>
            if idx ≥ m then (none, 8 + qi.2) else
            let qo := readManyC txOutReadC m r6
            match qo.1 with
            | none => (none, 8 + qi.2 + qo.2)
            | some (vout, r7) =>
              let cw : Nat := if isSegwit then (readManyC witnessReadC n r7).2 else 0
              let witPart : Option Bytes :=
                if isSegwit then
                  match (readManyC witnessReadC n r7).1 with
                  | none => none
                  | some (wits, r8) => if wits.all (fun w => w.isEmpty) then none else some r8
                else some r7
              match witPart with
              | none => (none, 8 + qi.2 + qo.2 + cw)
              | some r8 =>
                match takeN 4 r8 with
                | none => (none, 9 + qi.2 + qo.2 + cw)
                | some (ltBytes, r9) =>
                  match vout[idx]? with
                  | none => (none, 9 + qi.2 + qo.2 + cw)
                  | some o =>
                    let pre := verBytes ++ Compact.enc n ++ vin.flatMap TxIn.ser
                      ++ Compact.enc m ++ vout.flatMap TxOut.ser ++ ltBytes
                    (some ((o, sha (sha pre)), r9), 9 + qi.2 + qo.2 + cw)


end Embit.Model.CostBin
