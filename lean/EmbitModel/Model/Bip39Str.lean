import EmbitModel.Model.Bip39
/-
  `mnemonic_to_seed` of embit/bip39.py as a function of the STRING it is given.

  `Model.Bip39.toSeed` takes the word sequence and the UTF-8 bytes as two separate arguments (the harness computes
  both from the same Python string).  Here they are both computed from one string, as the code does:

      mnemonic_to_bytes(mnemonic, wordlist=wordlist)      # validates  mnemonic.strip().split()
      hashlib.pbkdf2_hmac("sha512", mnemonic.encode("utf-8"), ("mnemonic" + password).encode("utf-8"), 2048, 64)

  A string is a list of characters of an arbitrary type `C`; `isSpace` is `str.isspace`, `utf8 c` the UTF-8 encoding
  of one character (so `s.encode("utf-8")` is the concatenation), `word` turns the characters of one token into the
  type of word-list entries (`id` when the word list is a list of strings; the dictionary lookup in the driver).
-/
namespace Embit.Model.Bip39

/-- `s.encode("utf-8")`: the concatenation of the encodings of the characters -/
def encodeStr {C : Type} (utf8 : C → Bytes) (s : List C) : Bytes := s.flatMap utf8

/-- `mnemonic_to_seed(mnemonic, password, wordlist)` on strings: the words that are validated are
    `mnemonic.strip().split()`, the bytes that are hashed are `mnemonic.encode("utf-8")` of the string AS GIVEN -/
def mnemonicToSeed {C W : Type} [DecidableEq W] (isSpace : C → Bool) (utf8 : C → Bytes) (word : List C → W)
    (sha256 : Bytes → Bytes) (pbkdf2 : Bytes → Bytes → Nat → Nat → Bytes)
    (wl : Option (List W)) (mnemonic password : List C) : Option Bytes :=
  toSeed sha256 pbkdf2 wl ((splitWs isSpace [] mnemonic).map word) (encodeStr utf8 mnemonic) (encodeStr utf8 password)

end Embit.Model.Bip39
