import EmbitModel.Model.LiquidTx
import EmbitModel.Model.Psbt
/-
  Model of embit `liquid/pset.py` (KEEP_ALL mode): LInputScope / LOutputScope `read_value` / `write_to` for the
  proprietary keys (`fc 08 "elements" xx`, `fc 04 "pset" xx`) on top of the bitcoin InScope / OutScope model,
  PSET `read_from` / `write_to` / `tx`, `LOutputScope.verify()` as decision logic over an abstract commitment
  interface `Zkp`, `LInputScope.unblind` consistency checks, and the data flow of `PSET.blind(seed)`.
  Follows the code AFTER the C18 `fix:` patches `liquid-verify-zero-value` (stated value 0 / asset b"" are
  checked like any other) and `pset-lossless-fields` (liquid fields: duplicates and wrong-length integers are
  refused, every field that is not None is written, sequence 0 / tx version 0 kept).

  Representation: the liquid-specific fields of a scope are an association list `field ↦ raw value bytes` in the
  order they were read; integer fields (8 / 4 bytes little-endian, length checked on reading) are decoded by the
  accessors. `write_to` emits them in the fixed order of the Python code.
-/
namespace Embit.Model

/-! ### which keys go to the liquid branch -/

def elementsTag : Bytes := [0xfc, 0x08, 0x65, 0x6c, 0x65, 0x6d, 0x65, 0x6e, 0x74, 0x73]
def psetTag : Bytes := [0xfc, 0x04, 0x70, 0x73, 0x65, 0x74]

def isPrefixB : Bytes → Bytes → Bool
  | [], _ => true
  | _ :: _, [] => false
  | a :: as, b :: bs => a == b && isPrefixB as bs

/-- Python `p in l` for bytes: `p` occurs as a contiguous substring -/
def containsSub (p : Bytes) : Bytes → Bool
  | [] => p.isEmpty
  | l@(_ :: t) => isPrefixB p l || containsSub p t

/-- `not ((b"\xfc\x08elements" not in k) and (b"\xfc\x04pset" not in k))` -/
def isLiquidKey (k : Bytes) : Bool := containsSub elementsTag k || containsSub psetTag k

def ek (x : UInt8) : Bytes := elementsTag ++ [x]
def pk (x : UInt8) : Bytes := psetTag ++ [x]

/-! ### input scope -/

inductive LInField where
  | value | vbf | asset | abf | rangeProof
  | issueValue | tokenValue | issueCommitment | issueProof | issueRangeproof
  | tokenCommitment | issueNonce | issueEntropy | tokenProof | tokenRangeproof
deriving DecidableEq, Repr, Inhabited

/-- the order in which `LInputScope.write_to` emits the liquid fields -/
def LInField.order : List LInField :=
  [.value, .vbf, .asset, .abf, .rangeProof, .issueValue, .tokenValue, .issueCommitment, .issueProof,
   .issueRangeproof, .tokenCommitment, .issueNonce, .issueEntropy, .tokenProof, .tokenRangeproof]

def LInField.key : LInField → Bytes
  | .value => ek 0x00 | .vbf => ek 0x01 | .asset => ek 0x02 | .abf => ek 0x03
  | .rangeProof => pk 0x0e
  | .issueValue => pk 0x00 | .issueCommitment => pk 0x01 | .issueRangeproof => pk 0x02
  | .tokenRangeproof => pk 0x03 | .issueProof => pk 0x0f | .tokenValue => pk 0x0a
  | .tokenCommitment => pk 0x0b | .issueNonce => pk 0x0c | .issueEntropy => pk 0x0d | .tokenProof => pk 0x10

/-- required value length of the integer fields (`_set_once(..., length)`) and, since fix `c18-kf1`, of the issuance
    fields a transaction holds verbatim (`_set_commitment`: 33 bytes; `_set_once(..., 32, raw=True)`: nonce, entropy) -/
def LInField.len : LInField → Option Nat
  | .value => some 8 | .issueValue => some 8 | .tokenValue => some 8
  | .issueCommitment => some 33 | .tokenCommitment => some 33
  | .issueNonce => some 32 | .issueEntropy => some 32
  | _ => none

/-- `_set_commitment` (fix `c18-kf1`): a commitment field starts with 08 or 09 (a confidential value commitment) -/
def LInField.pfxOK : LInField → Bytes → Bool
  | .issueCommitment, v => v.head? == some 8 || v.head? == some 9
  | .tokenCommitment, v => v.head? == some 8 || v.head? == some 9
  | _, _ => true

def LInField.ofKey (k : Bytes) : Option LInField := LInField.order.find? (fun f => f.key == k)

def lget {φ : Type} [DecidableEq φ] (l : List (φ × Bytes)) (f : φ) : Option Bytes :=
  match l with
  | [] => none
  | (g, v) :: r => if g = f then some v else lget r f

structure LInScope where
  base : InScope := {}                    -- every bitcoin field except the two utxo fields
  nonWitnessUtxo : Option LTx := none     -- TX_CLS = LTransaction
  witnessUtxo : Option LTxOut := none     -- TXOUT_CLS = LTransactionOutput
  lf : List (LInField × Bytes) := []
  isPegin : Bool := false                 -- `self.is_pegin` (peg-in flag of the global transaction's input, version 0)
  txIssuance : Option Issuance := none    -- `self._tx_issuance` (issuance of the global transaction's input, version 0)
deriving Repr, Inhabited

def lenOK (n : Option Nat) (v : Bytes) : Bool :=
  match n with
  | none => true
  | some k => v.length == k

/-- `LInputScope.read_value` (KEEP_ALL) for a non-separator key -/
def LInScope.addPair (ko : KeyOps) (s : LInScope) (k v : Bytes) : Option LInScope :=
  if !isLiquidKey k then
    match k with
    | [] => some s
    | k0 :: krest =>
      if k0 = 0x00 then
        if !krest.isEmpty then none
        else if s.nonWitnessUtxo.isSome then none
        else match LTx.parse v with
          | none => none
          | some t => some { s with nonWitnessUtxo := some t }
      else if k0 = 0x01 then
        if !krest.isEmpty then none
        else if s.witnessUtxo.isSome then none
        else match LTxOut.parse v with
          | none => none
          | some o => some { s with witnessUtxo := some o }
      else
        match InScope.addPair ko (fun _ => []) 0 s.base k v with
        | none => none
        | some b => some { s with base := b }
  else
    match LInField.ofKey k with
    | some f =>
      if (lget s.lf f).isSome then none
      else if !(lenOK f.len v && f.pfxOK v) then none
      else some { s with lf := s.lf ++ [(f, v)] }
    | none =>
      if (lookup k s.base.unknown).isSome then none
      else some { s with base := { s.base with unknown := s.base.unknown ++ [(k, v)] } }

def LInScope.addPairs (ko : KeyOps) : LInScope → List KV → Option LInScope
  | s, [] => some s
  | s, (k, v) :: r =>
    match LInScope.addPair ko s k v with
    | none => none
    | some s' => LInScope.addPairs ko s' r

def LInScope.lpairs (s : LInScope) : List KV :=
  LInField.order.filterMap (fun f => (lget s.lf f).map (fun v => (f.key, v)))

/-- `LInputScope.write_to` as a list of pairs: utxos, the bitcoin pairs (unknown keys last), then the liquid pairs -/
def LInScope.pairs (s : LInScope) (version : Option Nat) : List KV :=
  optKV [0x00] (s.nonWitnessUtxo.map LTx.ser) ++ optKV [0x01] (s.witnessUtxo.map LTxOut.ser)
  ++ s.base.pairs version ++ s.lpairs

def LInScope.geti (s : LInScope) (f : LInField) : Option Nat := (lget s.lf f).map ofLe
def truthyB (o : Option Bytes) : Bool := match o with | some b => !b.isEmpty | none => false
def truthyN (o : Option Nat) : Bool := match o with | some n => n != 0 | none => false

/-- `LInputScope.asset_issuance` -/
def LInScope.assetIssuance (s : LInScope) : Option Issuance :=
  let iv := s.geti .issueValue
  let ic := lget s.lf .issueCommitment
  if truthyN iv || truthyB ic then
    let zeros : Bytes := List.replicate 32 0
    let orZ (o : Option Bytes) : Bytes := if truthyB o then o.getD [] else zeros
    let amount : Commit := if truthyB ic then .conf (ic.getD []) else
      match iv with | some v => .explicit v | none => .null
    let tc := lget s.lf .tokenCommitment
    let token : Commit := if truthyB tc then .conf (tc.getD []) else
      match s.geti .tokenValue with | some v => .explicit v | none => .null
    some { nonce := orZ (lget s.lf .issueNonce), entropy := orZ (lget s.lf .issueEntropy),
           amount := amount, token := token }
  else none

/-- `LInputScope.asset_issuance` after the fix `d53`: the scope's own issuance fields first, otherwise the issuance of
    the global transaction's input the scope was created from (`self._tx_issuance`, version 0) -/
def LInScope.issuance (s : LInScope) : Option Issuance :=
  match s.assetIssuance with
  | some a => some a
  | none => s.txIssuance

/-- `LInputScope.vin` -/
def LInScope.vin (s : LInScope) : Option LTxIn :=
  match s.base.txid, s.base.vout with
  | some t, some n =>
    some { txid := t, vout := n, scriptSig := [], sequence := s.base.sequence.getD 0xFFFFFFFF,
           isPegin := s.isPegin, issuance := s.issuance }
  | _, _ => none

/-- `InputScope.utxo` (KEEP_ALL: no streamed `_utxo`) -/
def LInScope.utxo (s : LInScope) : Option LTxOut :=
  match s.witnessUtxo with
  | some o => some o
  | none =>
    match s.nonWitnessUtxo, s.base.vout with
    | some t, some n => t.vout[n]?
    | _, _ => none

/-! ### output scope -/

inductive LOutField where
  | asset | valueCommitment | vbf | assetCommitment | abf | blindingPubkey | ecdhPubkey
  | rangeProof | surjProof | blinderIndex | valueProof | assetProof
deriving DecidableEq, Repr, Inhabited

/-- the order in which `LOutputScope.write_to` emits the liquid fields -/
def LOutField.order : List LOutField :=
  [.asset, .valueCommitment, .vbf, .assetCommitment, .abf, .blindingPubkey, .ecdhPubkey, .rangeProof,
   .surjProof, .blinderIndex, .valueProof, .assetProof]

/-- key a field is written under (`version == 2` selects the `pset` key, otherwise the legacy `elements` key) -/
def LOutField.key (v2 : Bool) : LOutField → Bytes
  | .asset => pk 0x02
  | .valueCommitment => if v2 then pk 0x01 else ek 0x00
  | .vbf => ek 0x01
  | .assetCommitment => if v2 then pk 0x03 else ek 0x02
  | .abf => ek 0x03
  | .blindingPubkey => if v2 then pk 0x06 else ek 0x06
  | .ecdhPubkey => if v2 then pk 0x07 else ek 0x07
  | .rangeProof => if v2 then pk 0x04 else ek 0x04
  | .surjProof => if v2 then pk 0x05 else ek 0x05
  | .blinderIndex => pk 0x08
  | .valueProof => pk 0x09
  | .assetProof => pk 0x0a

def LOutField.len : LOutField → Option Nat
  | .blinderIndex => some 4
  | _ => none

/-- both spellings are accepted when reading, whatever the version -/
def LOutField.ofKey (k : Bytes) : Option LOutField :=
  LOutField.order.find? (fun f => f.key true == k || f.key false == k)

structure LOutScope where
  base : OutScope := {}
  valueConf : Option Bytes := none      -- `self.value` holding the raw commitment of a version-0 global transaction
  lf : List (LOutField × Bytes) := []
  txNonce : Option Bytes := none        -- `self._tx_ecdh_pubkey` (nonce of the global transaction's output, version 0)
deriving Repr, Inhabited

/-- `LOutputScope.read_value` (KEEP_ALL) -/
def LOutScope.addPair (ko : KeyOps) (s : LOutScope) (k v : Bytes) : Option LOutScope :=
  if !isLiquidKey k then
    if k = [0x03] && s.valueConf.isSome then none else
    match OutScope.addPair ko s.base k v with
    | none => none
    | some b => some { s with base := b }
  else
    match LOutField.ofKey k with
    | some f =>
      if (lget s.lf f).isSome then none
      else if !lenOK f.len v then none
      else some { s with lf := s.lf ++ [(f, v)] }
    | none =>
      if (lookup k s.base.unknown).isSome then none
      else some { s with base := { s.base with unknown := s.base.unknown ++ [(k, v)] } }

def LOutScope.addPairs (ko : KeyOps) : LOutScope → List KV → Option LOutScope
  | s, [] => some s
  | s, (k, v) :: r =>
    match LOutScope.addPair ko s k v with
    | none => none
    | some s' => LOutScope.addPairs ko s' r

def LOutScope.lpairs (s : LOutScope) (version : Option Nat) : List KV :=
  let v2 := version == some 2
  LOutField.order.filterMap (fun f =>
    if f = .asset && !v2 then none else (lget s.lf f).map (fun v => (f.key v2, v)))

/-- `LOutputScope.write_to`; a version-0 scope whose value is a raw commitment cannot be written in version 2
    (`bytes.to_bytes` raises) — `none` -/
def LOutScope.pairs (s : LOutScope) (version : Option Nat) : Option (List KV) :=
  if version = some 2 && s.valueConf.isSome then none
  else some (s.base.pairs version ++ s.lpairs version)

def LOutScope.get (s : LOutScope) (f : LOutField) : Option Bytes := lget s.lf f

/-- `LOutputScope.vout` -/
def LOutScope.vout (s : LOutScope) : Option LTxOut :=
  let a := s.get .asset
  let assetSel : Option Bytes := if truthyB a then a else s.get .assetCommitment
  let valueSel : Option LValue :=
    match s.base.value with
    | some v => some (.explicit v)
    | none => match s.valueConf with
      | some b => some (.conf b)
      | none => (s.get .valueCommitment).map .conf
  match assetSel, valueSel, s.base.spk with
  | some a', some v, some spk =>
    some { asset := normAsset a', value := v,
           nonce := match (if truthyB a then none else s.get .ecdhPubkey) with
                    | some n => some n
                    | none => s.txNonce,
           spk := spk }
  | _, _, _ => none

/-! ### PSET -/

structure LPset where
  version : Option Nat := none
  txVersion : Option Nat := none
  locktime : Option Nat := none
  xpubs : List (Bytes × Deriv) := []
  unknown : List KV := []
  inputs : List LInScope := []
  outputs : List LOutScope := []
deriving Repr, Inhabited

/-- `PSET.tx` (an `LTransaction` without witnesses) -/
def LPset.tx (p : LPset) : Option LTx :=
  match optAll (p.inputs.map LInScope.vin), optAll (p.outputs.map LOutScope.vout) with
  | some vin, some vout =>
    some { version := p.txVersion.getD 2, vin := vin, vout := vout, locktime := p.locktime.getD 0 }
  | _, _ => none

/-- global scope of `PSBT.read_from` with `TX_CLS = LTransaction`: scriptSigs must be empty, and (fix `b4`) the
    transaction must not carry any witness (`tx.has_witness`: proofs, script / peg-in witness of an input, proofs of
    an output) -/
def lglobalFold : Option LTx → Option Nat → List KV → List KV → Option (Option LTx × Option Nat × List KV)
  | tx, ver, unk, [] => some (tx, ver, unk)
  | tx, ver, unk, (k, v) :: r =>
    if k = [0x00] then
      if tx.isSome then none else
      match LTx.parse v with
      | none => none
      | some t =>
        if t.vin.any (fun i => !i.scriptSig.isEmpty) then none
        else if LTx.hasWitness t then none
        else lglobalFold (some t) ver unk r
    else if k = [0xfb] then
      if ver.isSome then none else
      if v.length ≠ 4 then none else lglobalFold tx (some (ofLe v)) unk r
    else
      if (lookup k unk).isSome then none else lglobalFold tx ver (unk ++ [(k, v)]) r

/-- `LInputScope(vin=vin)`: outpoint and sequence, and (fix `d53`, finding D53) the peg-in flag and the issuance of
    the global transaction's input, kept beside the fields of the scope -/
def lseedIn (tx : Option LTx) (i : Nat) : LInScope :=
  match tx with
  | some t => match t.vin[i]? with
    | some vi => { base := { txid := some vi.txid, vout := some vi.vout, sequence := some vi.sequence },
                   isPegin := vi.isPegin, txIssuance := vi.issuance }
    | none => {}
  | none => {}

/-- `LOutputScope(vout=vout)`: asset, value (integer or raw commitment), script, and (fix `d53`) the nonce -/
def lseedOut (tx : Option LTx) (i : Nat) : LOutScope :=
  match tx with
  | some t => match t.vout[i]? with
    | some vo =>
      match vo.value with
      | .explicit v => { base := { value := some v, spk := some vo.spk }, lf := [(.asset, vo.asset)], txNonce := vo.nonce }
      | .conf b => { base := { spk := some vo.spk }, valueConf := some b, lf := [(.asset, vo.asset)], txNonce := vo.nonce }
    | none => {}
  | none => {}

def readLIns (ko : KeyOps) (tx : Option LTx) : Nat → Nat → Parser (List LInScope)
  | 0, _ => fun b => some ([], b)
  | n+1, i => fun b =>
    match readKVs b with
    | none => none
    | some (kvs, r) =>
      match LInScope.addPairs ko (lseedIn tx i) kvs with
      | none => none
      | some s => match readLIns ko tx n (i+1) r with
        | none => none
        | some (ss, r') => some (s :: ss, r')

def readLOuts (ko : KeyOps) (tx : Option LTx) : Nat → Nat → Parser (List LOutScope)
  | 0, _ => fun b => some ([], b)
  | n+1, i => fun b =>
    match readKVs b with
    | none => none
    | some (kvs, r) =>
      match LOutScope.addPairs ko (lseedOut tx i) kvs with
      | none => none
      | some s => match readLOuts ko tx n (i+1) r with
        | none => none
        | some (ss, r') => some (s :: ss, r')

def psetMagic : Bytes := [0x70, 0x73, 0x65, 0x74, 0xff]

/-- `PSET.parse(b)` (KEEP_ALL) -/
def LPset.parse (ko : KeyOps) (b : Bytes) : Option LPset :=
  match takeN 5 b with
  | none => none
  | some (m, r0) =>
    if m ≠ psetMagic then none else
    match readKVs r0 with
    | none => none
    | some (gkvs, r1) =>
      match lglobalFold none none [] gkvs with
      | none => none
      | some (tx, ver, unk) =>
        let isV2 := ver == some 2
        if tx.isSome && isV2 then none else
        if tx.isNone && !isV2 then none else
        let g0 : GState := { txVersion := tx.map (·.version), locktime := tx.map (·.locktime),
                             nin := tx.map (·.vin.length), nout := tx.map (·.vout.length),
                             xpubs := [], unknown := [] }
        match parseUnknowns ko isV2 g0 unk with
        | none => none
        | some g =>
          -- a version-2 PSET without the count keys simply has no scopes (`self.inputs` stays `[]`)
          match readLIns ko tx (g.nin.getD 0) 0 r1 with
          | none => none
          | some (ins, r2) =>
            match readLOuts ko tx (g.nout.getD 0) 0 r2 with
            | none => none
            | some (outs, r3) =>
              if !r3.isEmpty then none else
              some { version := ver, txVersion := g.txVersion, locktime := g.locktime, xpubs := g.xpubs,
                     unknown := g.unknown, inputs := ins, outputs := outs }

def LPset.globalPairs (p : LPset) : Option (List KV) :=
  let isV2 := p.version == some 2
  (if !isV2 then (p.tx.bind fun t => (LTx.serOpt t).map fun b => [(([0x00] : Bytes), b)]) else some [])
  |>.map fun txp =>
    txp
    ++ p.xpubs.map (fun (x, d) => (0x01 :: x, Deriv.ser d))
    ++ (if isV2 then
          optKV [0x02] (p.txVersion.map (leN 4)) ++ optKV [0x03] (p.locktime.map (leN 4))
          ++ [([0x04], Compact.enc p.inputs.length), ([0x05], Compact.enc p.outputs.length)]
        else [])
    ++ optKV [0xfb] (p.version.map (leN 4))
    ++ p.unknown

/-- `PSET.write_to` -/
def LPset.ser (p : LPset) : Option Bytes :=
  match p.globalPairs, optAll (p.outputs.map (fun s => s.pairs p.version)) with
  | some gp, some ops =>
    some (psetMagic ++ writeKVs gp
      ++ p.inputs.flatMap (fun s => writeKVs (s.pairs p.version))
      ++ ops.flatMap writeKVs)
  | _, _ => none

/-! ### the commitment library, abstractly -/

/-- libsecp256k1-zkp as seen through embit's wrappers: every function is an arbitrary (deterministic) function of
    its arguments; `none` = the wrapper raises. Internal 64-byte representations are just `Bytes`. No laws are
    assumed here; `Props/C18.lean` states `ZkpLaws` separately for the balance theorem. -/
structure Zkp where
  generatorParse : Bytes → Option Bytes
  generatorSerialize : Bytes → Option Bytes
  generatorGenerate : Bytes → Option Bytes
  generatorGenerateBlinded : Bytes → Bytes → Option Bytes          -- asset, abf
  pedersenCommit : Bytes → Nat → Bytes → Option Bytes              -- vbf, value, generator
  pedersenCommitmentParse : Bytes → Option Bytes
  pedersenCommitmentSerialize : Bytes → Option Bytes
  blindSum : List Nat → List Bytes → List Bytes → Nat → Option Bytes -- values, abfs, vbfs, number of inputs
  surjectionproofParse : Bytes → Option Bytes
  surjectionproofSerialize : Bytes → Option Bytes
  surjectionproofVerify : Bytes → List Bytes → Bytes → Bool        -- proof, input generators, output generator
  surjectionproofInitialize : List Bytes → Bytes → Bytes → Option Nat → Nat → Option (Bytes × Nat)
  surjectionproofGenerate : Bytes → Nat → List Bytes → Bytes → Bytes → Bytes → Option Bytes
  rangeproofVerify : Bytes → Bytes → Bytes → Bytes → Option (Nat × Nat)  -- proof, commitment, extra, generator
  /-- nonce, value, commitment, vbf, message, extra, generator, min_value (`none` = the wrapper's default 1), exp, min_bits -/
  rangeproofSign : Bytes → Nat → Bytes → Bytes → Bytes → Bytes → Bytes → Option Nat → Int → Nat → Option Bytes
  /-- `ec.PrivateKey(nonce).sec()` -/
  pubkeyOfSecret : Bytes → Option Bytes
  /-- `sha256(sha256(sec(blinding_pubkey · nonce)))` as computed in `reblind` -/
  ecdhNonce : Bytes → Bytes → Option Bytes

/-! ### `LOutputScope.verify()` — decision logic -/

/-- the fields `verify()` looks at -/
structure VerifyView where
  asset : Option Bytes
  assetCommitment : Option Bytes
  abf : Option Bytes
  assetProof : Option Bytes
  value : Option Nat
  valueIsRaw : Bool := false       -- `self.value` is a raw commitment (version-0 seed): every comparison fails
  valueCommitment : Option Bytes
  vbf : Option Bytes
  valueProof : Option Bytes
deriving Repr, Inhabited

def LOutScope.view (s : LOutScope) : VerifyView :=
  { asset := s.get .asset, assetCommitment := s.get .assetCommitment, abf := s.get .abf,
    assetProof := s.get .assetProof, value := s.base.value, valueIsRaw := s.valueConf.isSome,
    valueCommitment := s.get .valueCommitment, vbf := s.get .vbf, valueProof := s.get .valueProof }

/-- first stage: the asset. `none` = raise; `some gen` = the generator to use for the value stage (`none` inside
    when the asset stage was skipped). -/
def verifyAsset (Z : Zkp) (o : VerifyView) : Option (Option Bytes) :=
  match o.asset with
  | none => some none
  | some asset =>
    if !truthyB o.assetCommitment then some none else
    if !truthyB o.abf && !truthyB o.assetProof then none else
    match Z.generatorParse (o.assetCommitment.getD []) with
    | none => none
    | some gen =>
      if truthyB o.abf then
        match Z.generatorGenerateBlinded asset (o.abf.getD []) with
        | none => none
        | some g => if gen = g then some (some gen) else none
      else
        match Z.surjectionproofParse (o.assetProof.getD []) with
        | none => none
        | some proof =>
          match Z.generatorGenerate asset with
          | none => none
          | some ga => if Z.surjectionproofVerify proof [ga] gen then some (some gen) else none

/-- second stage: the value, given the generator of the first stage -/
def verifyValue (Z : Zkp) (o : VerifyView) (gen : Option Bytes) : Bool :=
  if o.value.isNone && !o.valueIsRaw then true else
  if !truthyB o.valueCommitment then true else
  match gen with
  | none => false
  | some g =>
    if !(truthyB o.vbf || truthyB o.valueProof) then false else
    match o.value with
    | none => false            -- raw commitment as the stated value: `pedersen_commit` / the comparison fail
    | some value =>
      if truthyB o.vbf then
        match Z.pedersenCommit (o.vbf.getD []) value g with
        | none => false
        | some c =>
          match Z.pedersenCommitmentSerialize c with
          | none => false
          | some ser => o.valueCommitment.getD [] == ser
      else
        match Z.pedersenCommitmentParse (o.valueCommitment.getD []) with
        | none => false
        | some c =>
          match Z.rangeproofVerify (o.valueProof.getD []) c [] g with
          | none => false
          | some (mn, mx) => mn == mx && value == mn

/-- `LOutputScope.verify()`: `true` = returns True, `false` = raises -/
def verifyView (Z : Zkp) (o : VerifyView) : Bool :=
  match verifyAsset Z o with
  | none => false
  | some gen => verifyValue Z o gen

def LOutScope.verify (Z : Zkp) (s : LOutScope) : Bool := verifyView Z s.view

/-- the pre-fix decision (D26): `if self.value and …` / `if self.asset and …` — kept to state the defect -/
def verifyViewOld (Z : Zkp) (o : VerifyView) : Bool :=
  let o1 := if truthyB o.asset then o else { o with asset := none }
  match verifyAsset Z o1 with
  | none => false
  | some gen => if o.value == some 0 then true else verifyValue Z o gen

/-! ### `LInputScope.unblind` — what is accepted after the range proof was rewound -/

/-- result of `rangeproof_rewind`: value, asset (message[:32]), vbf, abf (message[32:64]) -/
structure Rewound where
  value : Nat
  asset : Bytes
  vbf : Bytes
  abf : Bytes
deriving Repr, Inhabited

/-- the two equality checks after rewinding (`assert gen == …`, `assert cmt == …`); `true` = fields are set -/
def unblindAccept (Z : Zkp) (utxoAsset utxoValue : Bytes) (rw : Rewound) : Bool :=
  match Z.generatorGenerateBlinded rw.asset rw.abf, Z.generatorParse utxoAsset with
  | some gen, some g0 =>
    if gen ≠ g0 then false else
    match Z.pedersenCommit rw.vbf rw.value gen, Z.pedersenCommitmentParse utxoValue with
    | some cmt, some c0 => cmt = c0
    | _, _ => false
  | _, _ => false

/-! ### `PSET.blind(seed)` — data flow -/

-- `hashes.tagged_hash` is `taggedHash` of Model/Sighash.lean

/-- what `blind` reads from an input scope -/
structure BlindIn where
  txid : Bytes
  vout : Nat
  value : Option Nat
  asset : Option Bytes
  abf : Option Bytes
  vbf : Option Bytes
  utxoValue : Option LValue
  utxoAsset : Option Bytes
deriving Repr, Inhabited

/-- what `blind` reads from / writes to an output scope -/
structure BlindOut where
  spk : Bytes
  value : Option Nat
  asset : Option Bytes
  blindingPubkey : Option Bytes
  abf : Option Bytes := none
  vbf : Option Bytes := none
  assetCommitment : Option Bytes := none
  valueCommitment : Option Bytes := none
  ecdhPubkey : Option Bytes := none
  rangeProof : Option Bytes := none
  surjProof : Option Bytes := none
  assetProof : Option Bytes := none
  valueProof : Option Bytes := none
deriving Repr, Inhabited, DecidableEq

/-- `PSET.txseed` -/
def txseed (sha : Bytes → Bytes) (seed : Bytes) (ins : List BlindIn) (outs : List BlindOut) : Bytes :=
  taggedHash sha "liquid/txseed"
    (seed ++ ins.flatMap (fun i => i.txid.reverse ++ leN 4 i.vout) ++ outs.flatMap (fun o => scriptSer o.spk))

def idx4 (i : Nat) : Bytes := leN 4 i

/-- is output `o` blinded by `blind`? (`out.blinding_pubkey is None or out.value is None` → skipped) -/
def BlindOut.selected (o : BlindOut) : Bool := o.blindingPubkey.isSome && o.value.isSome

/-- step 1: hash-derived factors for the selected outputs -/
def assignFactors (sha : Bytes → Bytes) (ts : Bytes) : Nat → List BlindOut → List BlindOut
  | _, [] => []
  | i, o :: r =>
    (if o.selected then
      { o with abf := some (taggedHash sha "liquid/abf" (ts ++ idx4 i)),
               vbf := some (taggedHash sha "liquid/vbf" (ts ++ idx4 i)) }
     else o) :: assignFactors sha ts (i+1) r

def zeros32 : Bytes := List.replicate 32 0
def orZeros (o : Option Bytes) : Bytes := if truthyB o then o.getD [] else zeros32

/-- one entry of the `vals / abfs / vbfs` lists; `none` = the scope is skipped, `none` outside = Python raises -/
def sumEntryIn (i : BlindIn) : Option (Option (Nat × Bytes × Bytes)) :=
  let value : Option LValue := match i.value with | some v => some (.explicit v) | none => i.utxoValue
  let asset : Option Bytes := if truthyB i.asset then i.asset else i.utxoAsset
  match value, asset with
  | some (.explicit v), some a => if a.length = 32 then some (some (v, orZeros i.abf, orZeros i.vbf)) else some none
  | some (.conf _), some _ => some none
  | _, _ => none        -- `sc.utxo` is None / `len(None)`

def sumEntryOut (o : BlindOut) : Option (Option (Nat × Bytes × Bytes)) :=
  match o.value with
  | none => none
  | some v =>
    if truthyB o.asset then
      if (o.asset.getD []).length = 32 then some (some (v, orZeros o.abf, orZeros o.vbf)) else some none
    else none           -- `sc.utxo` does not exist on an output scope

/-- replace the vbf of the LAST selected output -/
def setLastVbf (vbf : Bytes) : List BlindOut → List BlindOut
  | [] => []
  | o :: r =>
    if o.selected && !(r.any BlindOut.selected) then { o with vbf := some vbf } :: r
    else o :: setLastVbf vbf r

/-- surjection-proof inputs: `(in_tags, in_gens)` -/
def surjInputs (Z : Zkp) : List BlindIn → Option (List Bytes × List Bytes)
  | [] => some ([], [])
  | i :: r =>
    match surjInputs Z r with
    | none => none
    | some (tags, gens) =>
      if truthyB i.asset then
        match i.utxoAsset with
        | none => none
        | some ua => match Z.generatorParse ua with
          | none => none
          | some g => some (i.asset.getD [] :: tags, g :: gens)
      else
        match i.utxoAsset with
        | none => none
        | some ua =>
          if ua.length = 32 then
            match Z.generatorGenerate ua with
            | none => none
            | some g => some (ua :: tags, g :: gens)
          else some (tags, gens)

/-- step 3 for one selected output with index `i` -/
def blindOne (Z : Zkp) (sha : Bytes → Bytes) (ts : Bytes) (inTags inGens abfs : List Bytes) (i : Nat)
    (o : BlindOut) : Option BlindOut :=
  match o.blindingPubkey, o.value, o.abf with
  | some bpk, some value, some abf =>
    let asset := o.asset.getD []
    match o.asset, o.vbf with
    | some _, some vbf =>
      match Z.generatorGenerateBlinded asset abf with
      | none => none
      | some gen =>
      match Z.generatorSerialize gen with
      | none => none
      | some assetCommitment =>
      match Z.pedersenCommit vbf value gen with
      | none => none
      | some vc =>
      match Z.pedersenCommitmentSerialize vc with
      | none => none
      | some valueCommitment =>
      let proofSeed := taggedHash sha "liquid/surjection_proof" (ts ++ idx4 i)
      match Z.surjectionproofInitialize inTags asset proofSeed none 100 with
      | none => none
      | some (proof, inIdx) =>
      match abfs[inIdx]? with
      | none => none
      | some inAbf =>
      match Z.surjectionproofGenerate proof inIdx inGens gen inAbf abf with
      | none => none
      | some proof' =>
      match Z.surjectionproofSerialize proof' with
      | none => none
      | some surj =>
      -- reblind(nonce): `if not blinding_pubkey: raise PSBTError("Blinding pubkey required")`
      if bpk.isEmpty then none else
      let rpNonce := taggedHash sha "liquid/range_proof" (ts ++ idx4 i)
      match Z.pubkeyOfSecret rpNonce, Z.ecdhNonce bpk rpNonce with
      | some ecdhPub, some ecdhNonce =>
        -- `self.asset[-32:] + self.asset_blinding_factor`
        let msg := asset.drop (asset.length - 32) ++ abf
        match Z.pedersenCommitmentParse valueCommitment, Z.generatorParse assetCommitment with
        | some vcp, some acp =>
          match Z.rangeproofSign ecdhNonce value vcp vbf msg o.spk acp none 0 52 with
          | none => none
          | some rangeProof =>
          -- asset proof
          match Z.generatorGenerate asset with
          | none => none
          | some genAsset =>
          match Z.surjectionproofInitialize [asset] asset zeros32 (some 1) 1 with
          | none => none
          | some (ap, aidx) =>
          match Z.surjectionproofGenerate ap aidx [genAsset] gen zeros32 abf with
          | none => none
          | some ap' =>
          match Z.surjectionproofSerialize ap' with
          | none => none
          | some assetProof =>
          let vpNonce := taggedHash sha "liquid/value_proof" (ts ++ idx4 i)
          match Z.rangeproofSign vpNonce value vc vbf [] [] gen (some value) (-1) 0 with
          | none => none
          | some valueProof =>
            some { o with assetCommitment := some assetCommitment, valueCommitment := some valueCommitment,
                          ecdhPubkey := some ecdhPub, rangeProof := some rangeProof, surjProof := some surj,
                          assetProof := some assetProof, valueProof := some valueProof }
        | _, _ => none
      | _, _ => none
    | _, _ => none
  | _, _, _ => some o      -- `if None in [out.blinding_pubkey, out.value, out.asset_blinding_factor]: continue`

def blindEach (Z : Zkp) (sha : Bytes → Bytes) (ts : Bytes) (inTags inGens abfs : List Bytes) :
    Nat → List BlindOut → Option (List BlindOut)
  | _, [] => some []
  | i, o :: r =>
    match blindOne Z sha ts inTags inGens abfs i o with
    | none => none
    | some o' => match blindEach Z sha ts inTags inGens abfs (i+1) r with
      | none => none
      | some r' => some (o' :: r')

/-- the arguments of `pedersen_blind_generator_blind_sum` -/
structure SumArgs where
  vals : List Nat
  abfs : List Bytes
  vbfs : List Bytes
  nIn : Nat
deriving Repr, DecidableEq

def sumArgs (ins : List BlindIn) (outs1 : List BlindOut) : Option SumArgs :=
  let sel := outs1.filter BlindOut.selected
  match optAll (ins.map sumEntryIn), optAll (sel.map sumEntryOut) with
  | some ei, some eo =>
    let es := (ei ++ eo).filterMap id
    -- `len(vals) - len(blinding_outs)` negative (a selected output was skipped): not a valid call of the library
    if es.length < sel.length then none else
    some { vals := es.map (·.1), abfs := es.map (·.2.1), vbfs := es.map (·.2.2), nIn := es.length - sel.length }
  | _, _ => none

/-- `PSET.blind(seed)`: the outputs after blinding (`none` = raises) -/
def blind (Z : Zkp) (sha : Bytes → Bytes) (seed : Bytes) (ins : List BlindIn) (outs : List BlindOut) :
    Option (List BlindOut) :=
  let ts := txseed sha seed ins outs
  let outs1 := assignFactors sha ts 0 outs
  if !(outs1.any BlindOut.selected) then none else
  match sumArgs ins outs1 with
  | none => none
  | some a =>
    match Z.blindSum a.vals a.abfs a.vbfs a.nIn with
    | none => none
    | some lastVbf =>
      let outs2 := setLastVbf lastVbf outs1
      match surjInputs Z ins with
      | none => none
      | some (inTags, inGens) => blindEach Z sha ts inTags inGens a.abfs 0 outs2

end Embit.Model
