import EmbitModel.Model.PyCurve
import EmbitModel.Model.EcOps
/-
  `lawfulOps C n g`: the abstract curve record `EcOps` instantiated with the modelled arithmetic of
  `embit/util/key.py` (Model/PyCurve.lean) over a carrier WITHOUT junk: a point is a canonical affine value —
  `none` (infinity) or a pair of reduced coordinates that `EllipticCurve.on_curve` accepts — together with the
  (decidable, erased at run time) evidence `okPt C q = true`. Executable and Mathlib-free: this is the record the
  native driver evaluates (`Crypto.secpLawful`, Crypto/SecpLawful.lean).

  Every operation embeds its operands as `(x, y, 1)` / `(0, 1, 0)` (`toJ`), runs the modelled key.py function
  (`add`, `negate`, `mul`, `ECPubKey.set`'s two branches, `modinv`) and normalises the result with `affine`
  (`norm`) — the pipeline of `py_secp256k1.py`. `norm` RE-CHECKS that the normalised value is canonical and
  answers infinity otherwise; that branch is dead code: Proofs/PyCurveLawful.lean proves (prime modulus, smooth
  curve) that the check never fails, that this record is isomorphic to `pyEcOps C n g` of Proofs/PyCurveOps.lean
  (same values, the carrier there is cut out by the Mathlib predicate `Valid`), hence `EcLaws (lawfulOps C n g)`
  and `InfUnique` by transport.
-/
namespace Embit.Model.PyCurve

/-- the tuple `ECPubKey` stores for an affine value -/
def toJ : Option (Nat × Nat) → JPt
  | none => inf
  | some (x, y) => ((x : Int), (y : Int), 1)

/-- `modinv(a, n)` as a function on naturals (`None` — never reached for `0 < a < n`, `n` prime — reads as 0) -/
def eInvN (n a : Nat) : Nat := ((modinv (a : Int) (n : Int)).getD 0).toNat

variable (C : Curve)

/-- canonical affine value: infinity, or reduced coordinates that `on_curve((x, y, 1))` accepts -/
def okPt : Option (Nat × Nat) → Bool
  | none => true
  | some (x, y) => decide (x < C.p) && decide (y < C.p) && onCurve C ((x : Int), (y : Int), 1)

/-- the points of the lawful record: canonical affine values only -/
abbrev CPt : Type := { q : Option (Nat × Nat) // okPt C q = true }

/-- the point at infinity -/
def CPt.inf : CPt C := ⟨none, rfl⟩

/-- a protocol value as a point, when it is canonical -/
def CPt.ofOption (q : Option (Nat × Nat)) : Option (CPt C) :=
  if h : okPt C q = true then some ⟨q, h⟩ else none

/-- `affine` of a tuple as a canonical point. The check always succeeds on the tuples the operations below
    produce (`norm_val`, Proofs/PyCurveLawful.lean); the `else` branch only makes the function total. -/
def norm (J : JPt) : CPt C :=
  let q := (affineXY C J).getD none
  if h : okPt C q = true then ⟨q, h⟩ else CPt.inf C

def cAdd (P Q : CPt C) : CPt C := norm C (add C (toJ P.1) (toJ Q.1))
def cNeg (P : CPt C) : CPt C := norm C (negate C (toJ P.1))
/-- `mul([(P, k)])`; key.py's loop reads 256 bits of the scalar: every caller passes a value below `2^256`, larger
    `k` (never passed) are reduced modulo `n` first so that the record is total (as in `pyEcOps`) -/
def cMul (n k : Nat) (P : CPt C) : CPt C := norm C (mul C [(toJ P.1, if k < 2 ^ 256 then k else k % n)])
/-- the coordinates `get_bytes` serialises: the canonical value itself (`affine((x, y, 1)) = (x, y, 1)`) -/
def cXY (P : CPt C) : Option (Nat × Nat) := P.1
/-- the uncompressed branch of `ECPubKey.set` -/
def cOfXY (x y : Nat) : Option (CPt C) := (setUncompressed C x y).map (norm C)
/-- the compressed branch of `ECPubKey.set` before the parity flip (`is_x_coord` + `lift_x`) -/
def cLiftX (x : Nat) : Option (CPt C) :=
  match setCompressed C false x with
  | some (some J) => some (norm C J)
  | _ => none

/-- key.py's arithmetic as an `EcOps` over canonical points (`n` the claimed order, `g` the generator) -/
def lawfulOps (n : Nat) (g : CPt C) : EcOps where
  Pt := CPt C
  add := cAdd C
  neg := cNeg C
  mul := cMul C n
  g := g
  n := n
  p := C.p
  xy := cXY C
  ofXY := cOfXY C
  liftX := cLiftX C
  invN := eInvN n

end Embit.Model.PyCurve
