import EmbitModel.Basic.Ms
import EmbitModel.Model.Miniscript
import EmbitModel.Model.DescText
import EmbitModel.Model.DescChecksum
/-
  Model of embit `descriptor/descriptor.py`, `descriptor/arguments.py` (`KeyOrigin`, `AllowedDerivation`, `Key`,
  `KeyHash`, `Number.read_from`, `Raw.read_from`), the text parser of `descriptor/miniscript.py`
  (`Miniscript.read_from`, `read_arguments`, `__str__`), `descriptor/taptree.py` and the script builders of
  `script.py` (`p2pkh p2sh p2wpkh p2wsh p2tr`).

  What is NOT modelled here but taken as parameters (subjects of other properties):
    * key objects (`ec.PublicKey`, `ec.PrivateKey`, `bip32.HDKey`): an arbitrary type `K` with the operations the
      descriptor code calls on it (`KeyOps`: text codecs, `sec()`, `derive(path)`, `to_public()`, `taproot_tweak`) —
      C09 / C10 / C11; the driver instantiates it with executable BIP32 / secp256k1 / Base58 (Model/DescKeys.lean);
    * hash functions (`Hashes`): arbitrary functions;
    * typing / compilation of miniscript expressions: `Model.Miniscript` (C13), called on the expression with every
      key replaced by the bytes it contributes to the script.

  The descriptor object is kept as embit stores it: `miniscript, sh, wsh, key, wpkh, taproot, taptree`.
  Exceptions of any class = `none`.
-/
namespace Embit.Model.Descriptor
open Embit Embit.Miniscript

def HARDENED : Nat := 0x80000000

/-! ### parameters -/

/-- which Python class a key object is: `ec.PublicKey`, `bip32.HDKey`, `ec.PrivateKey` -/
inductive KeyKind | pub | xkey | priv
deriving DecidableEq, Repr

/-- the operations of key objects used by the descriptor code -/
structure KeyOps (K : Type) where
  kind : K → KeyKind
  /-- `ec.PublicKey.parse(bytes)` -/
  parseSec : Bytes → Option K
  /-- `bip32.HDKey.from_base58(str)` -/
  parseXkey : Str → Option K
  /-- `ec.PrivateKey.from_wif(str)` -/
  parseWif : Str → Option K
  /-- `HDKey.to_base58()` / `PrivateKey.wif()` (`none`: raises, e.g. WIF prefix of no known network) -/
  text : K → Option Str
  /-- `.sec()`: SEC encoding of the public key (33 bytes, or 65 for an uncompressed `PublicKey` / `PrivateKey`) -/
  sec : K → Bytes
  /-- `PrivateKey`, or `HDKey` holding one -/
  isPrivate : K → Bool
  /-- `HDKey.derive(path)`, child by child; a `None` element (a `*` written inside a set) makes `child` raise -/
  derive : K → List (Option Nat) → Option K
  /-- `PrivateKey.get_public_key()` / `HDKey.to_public()` -/
  toPublic : K → Option K
  /-- `key.taproot_tweak(h).xonly()` -/
  tweak : K → Bytes → Option Bytes

structure Hashes where
  sha256 : Bytes → Bytes
  hash160 : Bytes → Bytes
  tagged : String → Bytes → Bytes

/-! ### the objects -/

/-- an element of `AllowedDerivation.indexes`: `int`, `list` (a `None` inside = `*` written inside a set), `None` -/
inductive Step
  | idx (n : Nat)
  | set (l : List (Option Nat))
  | wild
deriving DecidableEq, Repr

/-- `KeyOrigin` (`int()` puts no bound on the path elements) -/
structure Origin where
  fingerprint : Bytes
  path : List Int
deriving DecidableEq, Repr

/-- `Key.key`: a key object, or (class `KeyHash` only) the 40 characters of a raw hash -/
inductive KeyVal (K : Type)
  | obj (k : K)
  | raw (s : Str)
deriving Repr

/-- `Key` / `KeyHash`; `taproot` is the context flag of the enclosing descriptor and is passed to the functions -/
structure KeyExpr (K : Type) where
  origin : Option Origin
  key : KeyVal K
  deriv : Option (List Step)
  xonlyRepr : Bool
deriving Repr

/-- `Miniscript` objects with their `Key` / `KeyHash` / `Number` / `Raw32` / `Raw20` arguments -/
inductive DMs (K : Type) where
  | key (f : KeyFrag) (k : KeyExpr K)
  | time (f : TimeFrag) (n : Nat)
  | hash (f : HashFrag) (h : Bytes)
  | andor (x y z : DMs K)
  | bin (f : BinFrag) (x y : DMs K)
  | thresh (k : Nat) (xs : List (DMs K))
  | multi (f : MultiFrag) (k : Nat) (keys : List (KeyExpr K))
  | wrap (w : Wrap) (x : DMs K)

/-- `TapTree.tree`: `None`, a `TapLeaf`, or a pair of `TapTree`s -/
inductive TapTree (K : Type) where
  | empty
  | leaf (ms : DMs K)
  | node (l r : TapTree K)

/-- `Descriptor` -/
structure Desc (K : Type) where
  miniscript : Option (DMs K)
  sh : Bool
  wsh : Bool
  key : Option (KeyExpr K)
  wpkh : Bool
  taproot : Bool
  taptree : TapTree K

variable {K : Type}

/-! ### AllowedDerivation -/

def Step.isWildLike : Step → Bool
  | .wild => true
  | .set l => l.contains none
  | .idx _ => false

def Step.isSet : Step → Bool
  | .set _ => true
  | _ => false

/-- `AllowedDerivation.__init__`: at most one wildcard, at most one set -/
def mkAllowed (ix : List Step) : Option (List Step) :=
  if (ix.filter Step.isWildLike).length > 1 then none
  else if (ix.filter Step.isSet).length > 1 then none
  else some ix

/-- `AllowedDerivation.fill(idx, branch_index)`; the result is a list of `int | None` -/
def fillSteps (idx : Option Nat) (branch : Option Nat) : List Step → Option (List (Option Nat))
  | [] => some []
  | .idx n :: r => (fillSteps idx branch r).map (some n :: ·)
  | .wild :: r => (fillSteps idx branch r).map (idx :: ·)
  | .set l :: r =>
    match branch with
    | none =>
      (match l with
        | [] => none            -- `el[0]` on an empty list
        | x :: _ => (fillSteps idx branch r).map (x :: ·))
    | some b =>
      if b ≥ l.length then none
      else (fillSteps idx branch r).map (l.getD b none :: ·)

def fill (ix : List Step) (idx : Option Nat) (branch : Option Nat) : Option (List (Option Nat)) :=
  match idx with
  | some i => if i ≥ HARDENED then none else fillSteps idx branch ix
  | none => fillSteps idx branch ix

def stepOfFilled : Option Nat → Step
  | some n => .idx n
  | none => .wild

/-- `AllowedDerivation.branch(branch_index)` -/
def allowedBranch (ix : List Step) (branch : Option Nat) : Option (List Step) :=
  match fill ix none branch with
  | none => none
  | some arr => mkAllowed (arr.map stepOfFilled)

/-- `AllowedDerivation.branches`: the first set -/
def branchesOf : List Step → Option (List (Option Nat))
  | [] => none
  | .set l :: _ => some l
  | _ :: r => branchesOf r

def isWildcardSteps (ix : List Step) : Bool := ix.contains .wild

/-! ### printing -/

/-- one derivation index as `AllowedDerivation.__str__` / `bip32.path_to_str` writes it -/
def showIndex (n : Nat) : Str :=
  if n ≥ HARDENED then showNat (n - HARDENED) ++ ['h'] else showNat n

/-- elements of a set; a `None` element (a `*` written inside a set) is printed `*` — after the fix
    `descriptor-print-wildcard-in-set`; before it `i < HARDENED_INDEX` raised TypeError on `None` -/
def showSetElems : List (Option Nat) → Option (List Str)
  | [] => some []
  | none :: r => (showSetElems r).map (['*'] :: ·)
  | some n :: r => (showSetElems r).map (showIndex n :: ·)

/-- `AllowedDerivation.__str__` -/
def showSteps : List Step → Option Str
  | [] => some []
  | .wild :: r => (showSteps r).map (['/', '*'] ++ ·)
  | .idx n :: r => (showSteps r).map (('/' :: showIndex n) ++ ·)
  | .set l :: r =>
    match showSetElems l, showSteps r with
    | some es, some t => some (['/', '<'] ++ joinWith ';' es ++ ['>'] ++ t)
    | _, _ => none

def showOriginElem (e : Int) : Str :=
  if e ≥ (HARDENED : Int) then showInt (e - HARDENED) ++ ['h'] else showInt e

/-- `KeyOrigin.__str__` = `bip32.path_to_str(derivation, fingerprint)` -/
def showOrigin (o : Origin) : Str :=
  hexlify o.fingerprint ++ (o.path.flatMap fun e => '/' :: showOriginElem e)

/-- `Key.to_string()`; `tap` = `self.taproot` -/
def showKey (ops : KeyOps K) (k : KeyExpr K) : Option Str :=
  let pre : Str := match k.origin with
    | some o => ['['] ++ showOrigin o ++ [']']
    | none => []
  match k.key with
  | .raw s => some (pre ++ s)
  | .obj key =>
    match ops.kind key with
    | .pub =>
      let b := if k.xonlyRepr then ((ops.sec key).drop 1).take 32 else ops.sec key
      some (pre ++ hexlify b)
    | .xkey =>
      match ops.text key, (match k.deriv with | none => some [] | some ix => showSteps ix) with
      | some t, some suf => some (pre ++ t ++ suf)
      | _, _ => none
    | .priv =>
      match ops.text key with
      | some t => some (pre ++ t)
      | none => none

def keyFragName : KeyFrag → Str
  | .pk_k => ['p', 'k', '_', 'k'] | .pk_h => ['p', 'k', '_', 'h'] | .pk => ['p', 'k'] | .pkh => ['p', 'k', 'h']
def timeFragName : TimeFrag → Str
  | .older => ['o', 'l', 'd', 'e', 'r'] | .after => ['a', 'f', 't', 'e', 'r']
def hashFragName : HashFrag → Str
  | .sha256 => ['s', 'h', 'a', '2', '5', '6'] | .hash256 => ['h', 'a', 's', 'h', '2', '5', '6'] | .ripemd160 => ['r', 'i', 'p', 'e', 'm', 'd', '1', '6', '0']
  | .hash160 => ['h', 'a', 's', 'h', '1', '6', '0']
def binFragName : BinFrag → Str
  | .and_v => ['a', 'n', 'd', '_', 'v'] | .and_b => ['a', 'n', 'd', '_', 'b'] | .and_n => ['a', 'n', 'd', '_', 'n'] | .or_b => ['o', 'r', '_', 'b']
  | .or_c => ['o', 'r', '_', 'c'] | .or_d => ['o', 'r', '_', 'd'] | .or_i => ['o', 'r', '_', 'i']
def multiFragName : MultiFrag → Str
  | .multi => ['m', 'u', 'l', 't', 'i'] | .sortedmulti => ['s', 'o', 'r', 't', 'e', 'd', 'm', 'u', 'l', 't', 'i'] | .multi_a => ['m', 'u', 'l', 't', 'i', '_', 'a']
  | .sortedmulti_a => ['s', 'o', 'r', 't', 'e', 'd', 'm', 'u', 'l', 't', 'i', '_', 'a']
def wrapChar : Wrap → Char
  | .a => 'a' | .s => 's' | .c => 'c' | .t => 't' | .d => 'd' | .v => 'v' | .j => 'j' | .n => 'n' | .l => 'l'
  | .u => 'u'

def showKeys (ops : KeyOps K) : List (KeyExpr K) → Option (List Str)
  | [] => some []
  | k :: r =>
    match showKey ops k, showKeys ops r with
    | some a, some b => some (a :: b)
    | _, _ => none

def call (name : Str) (args : List Str) : Str := name ++ ['('] ++ joinWith ',' args ++ [')']

mutual
/-- `Miniscript.__str__` / `Wrapper.__str__` -/
def showMs (ops : KeyOps K) : DMs K → Option Str
  | .key f k => (showKey ops k).map fun a => call (keyFragName f) [a]
  | .time f n => some (call (timeFragName f) [showNat n])
  | .hash f h => some (call (hashFragName f) [hexlify h])
  | .andor x y z =>
    match showMs ops x, showMs ops y, showMs ops z with
    | some a, some b, some c => some (call ['a', 'n', 'd', 'o', 'r'] [a, b, c])
    | _, _, _ => none
  | .bin f x y =>
    match showMs ops x, showMs ops y with
    | some a, some b => some (call (binFragName f) [a, b])
    | _, _ => none
  | .thresh k xs => (showMsL ops xs).map fun l => call ['t', 'h', 'r', 'e', 's', 'h'] (showNat k :: l)
  | .multi f k keys => (showKeys ops keys).map fun l => call (multiFragName f) (showNat k :: l)
  | .wrap w x =>
    match x with
    | .wrap _ _ => (showMs ops x).map fun a => wrapChar w :: a
    | _ => (showMs ops x).map fun a => wrapChar w :: ':' :: a
def showMsL (ops : KeyOps K) : List (DMs K) → Option (List Str)
  | [] => some []
  | x :: r =>
    match showMs ops x, showMsL ops r with
    | some a, some b => some (a :: b)
    | _, _ => none
end

/-- `TapTree.__str__` -/
def showTapTree (ops : KeyOps K) : TapTree K → Option Str
  | .empty => some []
  | .leaf ms => showMs ops ms
  | .node l r =>
    match showTapTree ops l, showTapTree ops r with
    | some a, some b => some (['{'] ++ a ++ [','] ++ b ++ ['}'])
    | _, _ => none

/-- `TapTree.__bool__` -/
def TapTree.truthy : TapTree K → Bool
  | .empty => false
  | _ => true

def showOptKey (ops : KeyOps K) : Option (KeyExpr K) → Option Str
  | some k => showKey ops k
  | none => some ['N', 'o', 'n', 'e']

/-- `Descriptor.to_string()` -/
def Desc.print (ops : KeyOps K) (d : Desc K) : Option Str :=
  if d.taproot then
    if d.taptree.truthy then
      match showOptKey ops d.key, showTapTree ops d.taptree with
      | some k, some t => some (['t', 'r', '('] ++ k ++ [','] ++ t ++ [')'])
      | _, _ => none
    else (showOptKey ops d.key).map fun k => ['t', 'r', '('] ++ k ++ [')']
  else
    let inner : Option Str :=
      match d.miniscript with
      | some ms =>
        (showMs ops ms).map fun r => if d.wsh then ['w', 's', 'h', '('] ++ r ++ [')'] else r
      | none =>
        (showOptKey ops d.key).map fun k =>
          if d.wpkh then ['w', 'p', 'k', 'h', '('] ++ k ++ [')'] else ['p', 'k', 'h', '('] ++ k ++ [')']
    inner.map fun r => if d.sh then ['s', 'h', '('] ++ r ++ [')'] else r

/-! ### parsing: arguments.py -/

def requireSome {α : Type} (b : Bool) (x : α) : Option α := if b then some x else none

/-- `bip32._parse_der_item` -/
def parseDerItem (e : Str) : Option Int :=
  match e.getLast? with
  | none => none      -- `e[-1]` raises IndexError
  | some l =>
    if l = 'h' || l = 'H' || l = '\'' then (pyInt e.dropLast).map (· + (HARDENED : Int))
    else pyInt e

def mapOpt {α β : Type} (f : α → Option β) : List α → Option (List β)
  | [] => some []
  | x :: r =>
    match f x, mapOpt f r with
    | some a, some b => some (a :: b)
    | _, _ => none

/-- `bip32.parse_path(path)` for a path whose first component has been replaced by `"m"` -/
def parsePathM (rest : List Str) : Option (List Int) :=
  -- path = "m" + "".join("/" + x for x in rest); arr = path.rstrip("/").split("/")
  let path : Str := joinWith '/' (['m'] :: rest)
  let arr := splitOn '/' (rstripC '/' path)
  match arr with
  | [] => some []
  | a0 :: tl =>
    let arr := if a0 = ['m'] then tl else a0 :: tl
    mapOpt parseDerItem arr

/-- `KeyOrigin.from_string(s)` -/
def parseOrigin (s : Str) : Option Origin :=
  match splitOn '/' s with
  | [] => none
  | a0 :: rest =>
    match unhexlify a0 with
    | none => none
    | some mfp =>
      if mfp.length ≠ 4 then none
      else (parsePathM rest).map fun p => ⟨mfp, p⟩

/-- `AllowedDerivation.parse_element(d, allow_hardened, allow_set=False)`: an element inside a set -/
def parseSetElem (allowHardened : Bool) (d : Str) : Option (Option Nat) :=
  if d = ['*'] then some none
  else
    match d.head?, d.getLast? with
    | some f, some l =>
      if (f = '{' && l = '}') || (f = '<' && l = '>') then none     -- "Set is not allowed in derivation"
      else
        let hard := l = 'h' || l = 'H' || l = '\''
        if hard && !allowHardened then none
        else
          let body := if hard then d.dropLast else d
          match pyInt body with
          | some (.ofNat i) => if i ≥ HARDENED then none else some (some ((if hard then HARDENED else 0) + i))
          | _ => none
    | _, _ => none     -- `d[0]` on the empty string raises IndexError

/-- `AllowedDerivation.parse_element(d, allow_hardened, allow_set=True)` -/
def parseElement (allowHardened : Bool) (d : Str) : Option Step :=
  if d = ['*'] then some .wild
  else
    match d.head?, d.getLast? with
    | some f, some l =>
      if f = '{' && l = '}' then
        (mapOpt (parseSetElem allowHardened) (splitOn ',' (d.drop 1).dropLast)).map Step.set
      else if f = '<' && l = '>' then
        (mapOpt (parseSetElem allowHardened) (splitOn ';' (d.drop 1).dropLast)).map Step.set
      else
        match parseSetElem allowHardened d with
        | some (some n) => some (.idx n)
        | _ => none
    | _, _ => none

/-- `AllowedDerivation.from_string(der, allow_hardened)`; the outer `Option` is the exception -/
def parseAllowed (allowHardened : Bool) (der : Str) : Option (Option (List Step)) :=
  if der.isEmpty then some none
  else
    match mapOpt (parseElement allowHardened) (splitOn '/' der) with
    | none => none
    | some ix => (mkAllowed ix).map some

/-- `Key.parse_key(k, taproot)` → (key, xonly_repr) -/
def parseKeyText (ops : KeyOps K) (tap : Bool) (k : Str) : Option (KeyVal K × Bool) :=
  let p2 := k.take 2
  if (k.length = 66 || k.length = 130) && (p2 = ['0', '2'] || p2 = ['0', '3'] || p2 = ['0', '4']) then
    match unhexlify k with
    | none => none
    | some b => (ops.parseSec b).map fun key => (.obj key, false)
  else if tap && k.length = 64 then
    match unhexlify k with
    | none => none
    | some b => (ops.parseSec (0x02 :: b)).map fun key => (.obj key, true)
  else
    let mid := (k.drop 1).take 3
    if mid = ['p', 'u', 'b'] || mid = ['p', 'r', 'v'] then (ops.parseXkey k).map fun key => (.obj key, false)
    else (ops.parseWif k).map fun key => (.obj key, false)

/-- `KeyHash.parse_key` (after fix keyhash-raw-hex: a 40-character argument is a raw hash only if `unhexlify`
    takes it — both cases of hex digits; anything else raises ArgumentError instead of being stored and failing
    later in `serialize()`) -/
def parseKeyHashText (ops : KeyOps K) (tap : Bool) (k : Str) : Option (KeyVal K × Bool) :=
  if k.length = 40 then
    (match unhexlify k with
      | some _ => some (.raw k, false)
      | none => none)
  else parseKeyText ops tap k

/-- `hasattr(key, "derive")` -/
def KeyVal.hasDerive (ops : KeyOps K) : KeyVal K → Bool
  | .obj k => ops.kind k == .xkey
  | .raw _ => false

/-- `isinstance(k, bip32.HDKey) and isinstance(k.key, ec.PrivateKey)` -/
def KeyVal.allowHardened (ops : KeyOps K) : KeyVal K → Bool
  | .obj k => ops.kind k == .xkey && ops.isPrivate k
  | .raw _ => false

/-- the part of `Key.read_from` after the optional origin: key text, derivation text -/
def readKeyBody (s : Stream) : Option (Str × Str × Stream) :=
  let (k, ch, s) := readUntil [',', ')', '/'] s
  if ch = some '/' then
    let (der, ch, s) := readUntil ['<', '{', ',', ')'] s
    if ch = some '{' then
      let (branch, ch, s) := readUntil ['}'] s
      if ch = none then none
      else
        let (rest, ch, s) := readUntil [',', ')'] s
        let der := der ++ ['{'] ++ branch ++ ['}'] ++ rest
        match ch with
        | none => some (k, der, s)
        | some _ => s.unread.map fun s => (k, der, s)
    else if ch = some '<' then
      let (branch, ch, s) := readUntil ['>'] s
      if ch = none then none
      else
        let (rest, ch, s) := readUntil [',', ')'] s
        let der := der ++ ['<'] ++ branch ++ ['>'] ++ rest
        match ch with
        | none => some (k, der, s)
        | some _ => s.unread.map fun s => (k, der, s)
    else
      match ch with
      | none => some (k, der, s)
      | some _ => s.unread.map fun s => (k, der, s)
  else
    match ch with
    | none => some (k, [], s)
    | some _ => s.unread.map fun s => (k, [], s)

/-- `Key.read_from(s, taproot)` (`hash = true`: class `KeyHash`) -/
def readKey (ops : KeyOps K) (tap : Bool) (hash : Bool) (s : Stream) : Option (KeyExpr K × Stream) :=
  let (first, s1) := s.read1
  let originAndStream : Option (Option Origin × Stream) :=
    if first = some '[' then
      let (prefix_, ch, s2) := readUntil [']'] s1
      if ch ≠ some ']' then none
      else (parseOrigin prefix_).map fun o => (some o, s2)
    else s1.unread.map fun s2 => (none, s2)
  match originAndStream with
  | none => none
  | some (origin, s2) =>
    match readKeyBody s2 with
    | none => none
    | some (k, der, s3) =>
      match (if hash then parseKeyHashText ops tap k else parseKeyText ops tap k) with
      | none => none
      | some (key, xonly) =>
        match parseAllowed (key.allowHardened ops) der with
        | none => none
        | some derivation =>
          -- `Key.__init__`: a key without `derive` cannot carry a derivation
          if !key.hasDerive ops && derivation.isSome then none
          else some (⟨origin, key, derivation, xonly && tap⟩, s3)

/-- `Number.read_from`: at end of stream `b"" in b"0123456789"` holds and `int("")` raises -/
def readNumberAux : Nat → Str → Str → Option (Nat × Stream)
  | _, _, [] => none
  | acc, b, c :: r =>
    match digitVal c with
    | some d => readNumberAux (10 * acc + d) (c :: b) r
    | none => some (acc, ⟨b, c :: r⟩)       -- read one character, `s.seek(-1, 1)`

def readNumber (s : Stream) : Option (Nat × Stream) := readNumberAux 0 s.back s.rest

/-- `Raw32.read_from` / `Raw20.read_from` -/
def readRaw (len : Nat) (s : Stream) : Option (Bytes × Stream) :=
  let (t, s) := s.readN (2 * len)
  if t.length ≠ 2 * len then none
  else (unhexlify t).map fun b => (b, s)

/-! ### parsing: miniscript.py -/

def keyFragOf (s : Str) : Option KeyFrag :=
  if s = ['p', 'k', '_', 'k'] then some .pk_k else if s = ['p', 'k', '_', 'h'] then some .pk_h
  else if s = ['p', 'k'] then some .pk else if s = ['p', 'k', 'h'] then some .pkh else none
def timeFragOf (s : Str) : Option TimeFrag :=
  if s = ['o', 'l', 'd', 'e', 'r'] then some .older else if s = ['a', 'f', 't', 'e', 'r'] then some .after else none
def hashFragOf (s : Str) : Option HashFrag :=
  if s = ['s', 'h', 'a', '2', '5', '6'] then some .sha256 else if s = ['h', 'a', 's', 'h', '2', '5', '6'] then some .hash256
  else if s = ['r', 'i', 'p', 'e', 'm', 'd', '1', '6', '0'] then some .ripemd160 else if s = ['h', 'a', 's', 'h', '1', '6', '0'] then some .hash160 else none
def binFragOf (s : Str) : Option BinFrag :=
  if s = ['a', 'n', 'd', '_', 'v'] then some .and_v else if s = ['a', 'n', 'd', '_', 'b'] then some .and_b
  else if s = ['a', 'n', 'd', '_', 'n'] then some .and_n else if s = ['o', 'r', '_', 'b'] then some .or_b
  else if s = ['o', 'r', '_', 'c'] then some .or_c else if s = ['o', 'r', '_', 'd'] then some .or_d
  else if s = ['o', 'r', '_', 'i'] then some .or_i else none
def multiFragOf (s : Str) : Option MultiFrag :=
  if s = ['m', 'u', 'l', 't', 'i'] then some .multi else if s = ['s', 'o', 'r', 't', 'e', 'd', 'm', 'u', 'l', 't', 'i'] then some .sortedmulti
  else if s = ['m', 'u', 'l', 't', 'i', '_', 'a'] then some .multi_a else if s = ['s', 'o', 'r', 't', 'e', 'd', 'm', 'u', 'l', 't', 'i', '_', 'a'] then some .sortedmulti_a
  else none
def wrapOf (c : Char) : Option Wrap :=
  if c = 'a' then some .a else if c = 's' then some .s else if c = 'c' then some .c else if c = 't' then some .t
  else if c = 'd' then some .d else if c = 'v' then some .v else if c = 'j' then some .j
  else if c = 'n' then some .n else if c = 'l' then some .l else if c = 'u' then some .u else none

def hashFragLen : HashFrag → Nat
  | .sha256 => 32 | .hash256 => 32 | .ripemd160 => 20 | .hash160 => 20

/-- `for w in reversed(wrappers): miniscript = WrapperCls(miniscript)` -/
def applyWrappers : Str → DMs K → Option (DMs K)
  | [], e => some e
  | c :: r, e =>
    match applyWrappers r e, wrapOf c with
    | some inner, some w => some (.wrap w inner)
    | _, _ => none

/-- expect one character -/
def expectChar (c : Char) (s : Stream) : Option Stream :=
  match s.read1 with
  | (some x, s') => if x = c then some s' else none
  | (none, _) => none

/-- the `while True` loop of `read_arguments` for `NARGS = None`, after the first argument -/
def readMore {α : Type} (p : Stream → Option (α × Stream)) : Nat → Stream → Option (List α × Stream)
  | 0, _ => none
  | n+1, s =>
    match s.read1 with
    | (some ',', s1) =>
      (match p s1 with
        | none => none
        | some (x, s2) =>
          match readMore p n s2 with
          | none => none
          | some (xs, s3) => some (x :: xs, s3))
    | (some ')', s1) => some ([], s1)
    | _ => none

/-- `MiniscriptCls.read_arguments(s, taproot)` + `MiniscriptCls(*args, taproot=taproot)` for the operator named
    `op`, after its opening bracket; `sub` reads one sub-expression (`Miniscript.read_from`), `fuel` bounds the
    number of list arguments -/
def readMsBody (ops : KeyOps K) (tap : Bool) (sub : Stream → Option (DMs K × Stream)) (fuel : Nat) (op : Str)
    (s : Stream) : Option (DMs K × Stream) :=
  if let some f := keyFragOf op then
    let isHash := f == .pk_h || f == .pkh
    match readKey ops tap isHash s with
    | none => none
    | some (k, s) => (expectChar ')' s).map fun s => (.key f k, s)
  else if let some f := timeFragOf op then
    match readNumber s with
    | none => none
    | some (n, s) => (expectChar ')' s).map fun s => (.time f n, s)
  else if let some f := hashFragOf op then
    match readRaw (hashFragLen f) s with
    | none => none
    | some (h, s) => (expectChar ')' s).map fun s => (.hash f h, s)
  else if op = ['a', 'n', 'd', 'o', 'r'] then
    match sub s with
    | none => none
    | some (x, s) =>
      match expectChar ',' s with
      | none => none
      | some s =>
        match sub s with
        | none => none
        | some (y, s) =>
          match expectChar ',' s with
          | none => none
          | some s =>
            match sub s with
            | none => none
            | some (z, s) => (expectChar ')' s).map fun s => (.andor x y z, s)
  else if let some f := binFragOf op then
    match sub s with
    | none => none
    | some (x, s) =>
      match expectChar ',' s with
      | none => none
      | some s =>
        match sub s with
        | none => none
        | some (y, s) => (expectChar ')' s).map fun s => (.bin f x y, s)
  else if op = ['t', 'h', 'r', 'e', 's', 'h'] then
    match readNumber s with
    | none => none
    | some (k, s) =>
      match readMore sub fuel s with
      | none => none
      | some (xs, s) => some (.thresh k xs, s)
  else if let some f := multiFragOf op then
    -- `Multi.__init__`: raises unless `taproot is _expected_taproot`
    match readNumber s with
    | none => none
    | some (k, s) =>
      match readMore (readKey ops tap false) fuel s with
      | none => none
      | some (keys, s) =>
        if Gen.Ms.multiTaproot f == tap then some (.multi f k keys, s) else none
  else none

/-- `Miniscript.read_from(s, taproot)`; `fuel` bounds the nesting depth / the number of list arguments
    (the length of the input is always enough) -/
def readMs (ops : KeyOps K) (tap : Bool) : Nat → Stream → Option (DMs K × Stream)
  | 0, _ => none
  | fuel+1, s =>
    let (opw, ch, s) := readUntil ['('] s
    let split : Option (Str × Str) :=
      if opw.contains ':' then
        match splitOn ':' opw with
        | [w, o] => some (w, o)
        | _ => none        -- `wrappers, op = op.split(":")` with more than one colon
      else some ([], opw)
    match split with
    | none => none
    | some (wrappers, op) =>
      if ch ≠ some '(' then none
      else
        match readMsBody ops tap (readMs ops tap fuel) fuel op s with
        | none => none
        | some (e, s) => (applyWrappers wrappers e).map fun e => (e, s)

/-! ### what the keys contribute to a script -/

/-- `Key.serialize()`: x-only in taproot context, else SEC -/
def keyBytes (ops : KeyOps K) (tap : Bool) : KeyVal K → Option Bytes
  | .obj k => some (if tap then ((ops.sec k).drop 1).take 32 else ops.sec k)
  | .raw _ => none      -- a `str` has no `sec()`

/-- `KeyHash.serialize()` -/
def keyHashBytes (ops : KeyOps K) (h : Hashes) (tap : Bool) : KeyVal K → Option Bytes
  | .obj k => some (h.hash160 (if tap then ((ops.sec k).drop 1).take 32 else ops.sec k))
  | .raw s => unhexlify s

def fragPayload (ops : KeyOps K) (h : Hashes) (tap : Bool) (f : KeyFrag) (k : KeyExpr K) : Option Bytes :=
  match f with
  | .pk_k => keyBytes ops tap k.key
  | .pk => keyBytes ops tap k.key
  | .pk_h => keyHashBytes ops h tap k.key
  | .pkh => keyHashBytes ops h tap k.key

mutual
/-- the expression with every key argument replaced by `payload` of it (`none` if some `payload` fails) -/
def DMs.toMs (payload : KeyFrag → KeyExpr K → Option Bytes) : DMs K → Option Ms
  | .key f k => (payload f k).map fun b => .key f b
  | .time f n => some (.time f n)
  | .hash f h => some (.hash f h)
  | .andor x y z =>
    match x.toMs payload, y.toMs payload, z.toMs payload with
    | some a, some b, some c => some (.andor a b c)
    | _, _, _ => none
  | .bin f x y =>
    match x.toMs payload, y.toMs payload with
    | some a, some b => some (.bin f a b)
    | _, _ => none
  | .thresh k xs => (DMs.toMsL payload xs).map fun l => .thresh k l
  | .multi f k keys => (mapOpt (payload .pk_k) keys).map fun l => .multi f k l
  | .wrap w x => (x.toMs payload).map fun a => .wrap w a
def DMs.toMsL (payload : KeyFrag → KeyExpr K → Option Bytes) : List (DMs K) → Option (List Ms)
  | [] => some []
  | x :: r =>
    match x.toMs payload, DMs.toMsL payload r with
    | some a, some b => some (a :: b)
    | _, _ => none
end

/-- the shape of the expression (keys blanked): all that `verify()` / `type` depend on -/
def DMs.shape (e : DMs K) : Ms := (e.toMs fun _ _ => some []).getD (.time .older 0)

mutual
/-- `Miniscript.keys`: the direct key arguments first, then the keys of the sub-expressions in order -/
def DMs.keys : DMs K → List (KeyExpr K)
  | .key _ k => [k]
  | .time _ _ => []
  | .hash _ _ => []
  | .andor x y z => x.keys ++ y.keys ++ z.keys
  | .bin _ x y => x.keys ++ y.keys
  | .thresh _ xs => DMs.keysL xs
  | .multi _ _ keys => keys
  | .wrap _ x => x.keys
def DMs.keysL : List (DMs K) → List (KeyExpr K)
  | [] => []
  | x :: r => x.keys ++ DMs.keysL r
end

def TapTree.keys : TapTree K → List (KeyExpr K)
  | .empty => []
  | .leaf ms => ms.keys
  | .node l r => l.keys ++ r.keys

def KeyExpr.branches (k : KeyExpr K) : Option (List (Option Nat)) :=
  match k.deriv with
  | some ix => branchesOf ix
  | none => none

def KeyExpr.numBranches (k : KeyExpr K) : Nat :=
  match k.branches with
  | some l => l.length
  | none => 1

def eraseDupsNat : List Nat → List Nat
  | [] => []
  | x :: r => x :: (eraseDupsNat r).filter (· ≠ x)

/-- `Descriptor.__init__` with a miniscript: verify, top-level B, one branch-set length -/
def msAccepted (ctx : Ctx) (e : DMs K) : Bool :=
  Model.Miniscript.accepts ctx e.shape &&
  (eraseDupsNat (e.keys.filterMap fun k => k.branches.map List.length)).length ≤ 1

/-- `TapLeaf.__init__`: verify, top-level B -/
def leafAccepted (e : DMs K) : Bool := Model.Miniscript.accepts .tap e.shape

/-! ### parsing: taptree.py, descriptor.py -/

/-- `TapTree.read_from` -/
def readTapTree (ops : KeyOps K) : Nat → Stream → Option (TapTree K × Stream)
  | 0, _ => none
  | fuel+1, s =>
    match s.read1 with
    | (none, s1) => some (.empty, s1)
    | (some c, s1) =>
      if c = '{' then
        match readTapTree ops fuel s1 with
        | none => none
        | some (left, s2) =>
          match s2.read1 with
          | (some '}', s3) => some (left, s3)
          | (some ',', s3) =>
            (match readTapTree ops fuel s3 with
              | none => none
              | some (right, s4) => (expectChar '}' s4).map fun s5 => (.node left right, s5))
          | _ => none
      else
        match s1.unread with
        | none => none
        | some s2 =>
          match readMs ops true (fuel + 1) s2 with
          | none => none
          | some (ms, s3) => if leafAccepted ms then some (.leaf ms, s3) else none

inductive Head | tr | shwsh | wsh | shwpkh | wpkh | pkh | sh
deriving DecidableEq, Repr

def isPrefix (p s : Str) : Bool := s.take p.length = p

/-- the `start = s.read(7)` dispatch with its `seek`s -/
def readHead (s : Stream) : Option (Head × Stream) :=
  let (start, s) := s.readN 7
  if isPrefix ['t', 'r', '('] start then (s.seekBack 4).map fun s => (.tr, s)
  else if isPrefix ['s', 'h', '(', 'w', 's', 'h', '('] start then some (.shwsh, s)
  else if isPrefix ['w', 's', 'h', '('] start then (s.seekBack 3).map fun s => (.wsh, s)
  else if isPrefix ['s', 'h', '(', 'w', 'p', 'k', 'h'] start then (expectChar '(' s).map fun s => (.shwpkh, s)
  else if isPrefix ['w', 'p', 'k', 'h', '('] start then (s.seekBack 2).map fun s => (.wpkh, s)
  else if isPrefix ['p', 'k', 'h', '('] start then (s.seekBack 3).map fun s => (.pkh, s)
  else if isPrefix ['s', 'h', '('] start then (s.seekBack 4).map fun s => (.sh, s)
  else none

/-- `s.read(n) == b")" * n` -/
def expectClose : Nat → Stream → Option Stream
  | 0, s => some s
  | n+1, s => match expectChar ')' s with
    | some s => expectClose n s
    | none => none

/-- `Descriptor.read_from` -/
def Desc.readFrom (ops : KeyOps K) (fuel : Nat) (s : Stream) : Option (Desc K × Stream) :=
  match readHead s with
  | none => none
  | some (.tr, s) =>
    (match readKey ops true false s with
      | none => none
      | some (key, s) =>
        let (c, s1) := s.read1
        let tt : Option (TapTree K × Stream) :=
          if c = some ',' then readTapTree ops fuel s1
          else s1.unread.map fun s2 => (.empty, s2)
        match tt with
        | none => none
        | some (tree, s) =>
          (expectClose 1 s).map fun s => (⟨none, false, false, some key, false, true, tree⟩, s))
  | some (.shwsh, s) =>
    (match readMs ops false fuel s with
      | none => none
      | some (ms, s) =>
        match expectClose 2 s with
        | none => none
        | some s => if msAccepted .wsh ms then some (⟨some ms, true, true, none, false, false, .empty⟩, s) else none)
  | some (.wsh, s) =>
    (match readMs ops false fuel s with
      | none => none
      | some (ms, s) =>
        match expectClose 1 s with
        | none => none
        | some s => if msAccepted .wsh ms then some (⟨some ms, false, true, none, false, false, .empty⟩, s) else none)
  | some (.sh, s) =>
    (match readMs ops false fuel s with
      | none => none
      | some (ms, s) =>
        match expectClose 1 s with
        | none => none
        | some s => if msAccepted .wsh ms then some (⟨some ms, true, false, none, false, false, .empty⟩, s) else none)
  | some (.shwpkh, s) =>
    (match readKey ops false false s with
      | none => none
      | some (key, s) => (expectClose 2 s).map fun s => (⟨none, true, false, some key, true, false, .empty⟩, s))
  | some (.wpkh, s) =>
    (match readKey ops false false s with
      | none => none
      | some (key, s) => (expectClose 1 s).map fun s => (⟨none, false, false, some key, true, false, .empty⟩, s))
  | some (.pkh, s) =>
    (match readKey ops false false s with
      | none => none
      | some (key, s) => (expectClose 1 s).map fun s => (⟨none, false, false, some key, false, false, .empty⟩, s))

/-- `Descriptor.from_string(desc)`: whatever follows the descriptor must start with `#` (the checksum itself is
    NOT verified — known finding C12-KF1) -/
def Desc.parse (ops : KeyOps K) (text : Str) : Option (Desc K) :=
  match Desc.readFrom ops (text.length + 1) (Stream.ofStr text) with
  | none => none
  | some (d, s) =>
    match s.rest with
    | [] => some d
    | c :: _ => if c = '#' then some d else none

/-! ### derive, branch, to_public -/

def KeyVal.isPrivate (ops : KeyOps K) : KeyVal K → Bool
  | .obj k => ops.isPrivate k
  | .raw _ => false

/-- `my_fingerprint` of an extended key: `hash160(sec)[:4]` -/
def myFingerprint (ops : KeyOps K) (h : Hashes) (k : K) : Bytes := (h.hash160 (ops.sec k)).take 4

def optNatToInt : Option Nat → Int
  | some n => Int.ofNat n
  | none => 0

/-- `Key.derive(idx, branch_index)` -/
def KeyExpr.derive (ops : KeyOps K) (h : Hashes) (k : KeyExpr K) (idx : Option Nat) (branch : Option Nat) :
    Option (KeyExpr K) :=
  match k.deriv with
  | none => some k
  | some ix =>
    match fill ix idx branch with
    | none => none
    | some der =>
      match k.key with
      | .raw _ => none
      | .obj key =>
        match ops.derive key der with
        | none => none
        | some child =>
          let origin : Origin := match k.origin with
            | some o => ⟨o.fingerprint, o.path ++ der.map optNatToInt⟩
            | none => ⟨myFingerprint ops h key, der.map optNatToInt⟩
          some ⟨some origin, .obj child, none, false⟩

/-- `Key.branch(branch_index)` (does not pass `xonly_repr` on) -/
def KeyExpr.branch (k : KeyExpr K) (branch : Option Nat) : Option (KeyExpr K) :=
  match k.deriv with
  | none => some ⟨k.origin, k.key, none, false⟩
  | some ix => (allowedBranch ix branch).map fun ix' => ⟨k.origin, k.key, some ix', false⟩

/-- `Key.to_public()` -/
def KeyExpr.toPublic (ops : KeyOps K) (k : KeyExpr K) : Option (KeyExpr K) :=
  match k.key with
  | .raw _ => some k
  | .obj key =>
    if !ops.isPrivate key then some k
    else (ops.toPublic key).map fun p => ⟨k.origin, .obj p, k.deriv, false⟩

mutual
/-- `Miniscript.derive / branch / to_public`: the same expression over transformed key arguments -/
def DMs.mapKeys (f : KeyExpr K → Option (KeyExpr K)) : DMs K → Option (DMs K)
  | .key fr k => (f k).map fun k' => .key fr k'
  | .time fr n => some (.time fr n)
  | .hash fr h => some (.hash fr h)
  | .andor x y z =>
    match x.mapKeys f, y.mapKeys f, z.mapKeys f with
    | some a, some b, some c => some (.andor a b c)
    | _, _, _ => none
  | .bin fr x y =>
    match x.mapKeys f, y.mapKeys f with
    | some a, some b => some (.bin fr a b)
    | _, _ => none
  | .thresh k xs => (DMs.mapKeysL f xs).map fun l => .thresh k l
  | .multi fr k keys => (mapOpt f keys).map fun l => .multi fr k l
  | .wrap w x => (x.mapKeys f).map fun a => .wrap w a
def DMs.mapKeysL (f : KeyExpr K → Option (KeyExpr K)) : List (DMs K) → Option (List (DMs K))
  | [] => some []
  | x :: r =>
    match x.mapKeys f, DMs.mapKeysL f r with
    | some a, some b => some (a :: b)
    | _, _ => none
end

/-- `TapTree.derive / branch / to_public`; `check`: `TapLeaf.__init__` verifies the new leaf again -/
def TapTree.mapKeys (f : KeyExpr K → Option (KeyExpr K)) : TapTree K → Option (TapTree K)
  | .empty => some .empty
  | .leaf ms => match ms.mapKeys f with
    | some ms' => if leafAccepted ms' then some (.leaf ms') else none
    | none => none
  | .node l r =>
    match l.mapKeys f, r.mapKeys f with
    | some a, some b => some (.node a b)
    | _, _ => none

def Desc.ctx (d : Desc K) : Ctx := if d.taproot then .tap else .wsh

/-- the common body of `Descriptor.derive / branch / to_public`: a new `Descriptor` over transformed keys
    (`Descriptor.__init__` runs its checks again) -/
def Desc.mapKeys (f : KeyExpr K → Option (KeyExpr K)) (d : Desc K) : Option (Desc K) :=
  match d.miniscript with
  | some ms =>
    (match ms.mapKeys f with
      | none => none
      | some ms' =>
        -- `type(self)(miniscript', sh, wsh, None, wpkh, taproot)`: taptree argument omitted
        if msAccepted d.ctx ms' then some ⟨some ms', d.sh, d.wsh, none, d.wpkh, d.taproot, .empty⟩ else none)
  | none =>
    match d.key with
    | none => none                        -- `self.key.derive` on None
    | some k =>
      match f k, d.taptree.mapKeys f with
      | some k', some t' => some ⟨none, d.sh, d.wsh, some k', d.wpkh, d.taproot, t'⟩
      | _, _ => none

def Desc.derive (ops : KeyOps K) (h : Hashes) (d : Desc K) (idx : Nat) (branch : Option Nat) : Option (Desc K) :=
  d.mapKeys fun k => k.derive ops h (some idx) branch

def Desc.branch (d : Desc K) (branch : Option Nat) : Option (Desc K) :=
  d.mapKeys fun k => k.branch branch

def Desc.toPublic (ops : KeyOps K) (d : Desc K) : Option (Desc K) :=
  d.mapKeys fun k => k.toPublic ops

/-- `Descriptor.keys` -/
def Desc.keys (d : Desc K) : List (KeyExpr K) :=
  match d.key with
  | some k => if d.taptree.truthy then k :: d.taptree.keys else [k]
  | none =>
    if d.taptree.truthy then d.taptree.keys
    else match d.miniscript with
      | some ms => ms.keys
      | none => []

/-- `Descriptor.num_branches` (`max([])` raises) -/
def Desc.numBranches (d : Desc K) : Option Nat :=
  match d.keys.map KeyExpr.numBranches with
  | [] => none
  | x :: r => some (r.foldl max x)

/-! ### scripts -/

/-- `miniscript.compile()` -/
def compileMs (ops : KeyOps K) (h : Hashes) (tap : Bool) (e : DMs K) : Option Bytes :=
  (e.toMs (fragPayload ops h tap)).map Model.Miniscript.compile

/-- `_tweak_helper(tree)`: the list of (leaf script, control path after the internal key) and the node hash;
    a leaf is `version ‖ compact_size(len) ‖ script` under the tag `TapLeaf`, a branch the two child hashes in
    ascending order under `TapBranch` -/
def tweakHelper (ops : KeyOps K) (h : Hashes) : TapTree K → Option (List (Bytes × Bytes) × Bytes)
  | .empty => none          -- `tree[0]` on None raises
  | .leaf ms =>
    match compileMs ops h true ms with
    | none => none
    | some sc =>
      let hh := h.tagged "TapLeaf" (0xC0 :: (Compact.enc sc.length ++ sc))
      some ([(sc, [])], hh)
  | .node l r =>
    match tweakHelper ops h l, tweakHelper ops h r with
    | some (left, lh), some (right, rh) =>
      let ret := left.map (fun p => (p.1, p.2 ++ rh)) ++ right.map (fun p => (p.1, p.2 ++ lh))
      let (a, b) := if !(bytesLe lh rh) then (rh, lh) else (lh, rh)      -- `if right_h < left_h: swap`
      some (ret, h.tagged "TapBranch" (a ++ b))
    | _, _ => none

/-- `TapTree.tweak()` -/
def TapTree.tweak (ops : KeyOps K) (h : Hashes) : TapTree K → Option Bytes
  | .empty => some []
  | t => (tweakHelper ops h t).map (·.2)

def KeyExpr.obj? (k : KeyExpr K) : Option K :=
  match k.key with
  | .obj key => some key
  | .raw _ => none

def p2pkhOf (h : Hashes) (sec : Bytes) : Bytes := [0x76, 0xa9, 0x14] ++ h.hash160 sec ++ [0x88, 0xac]
def p2shOf (h : Hashes) (script : Bytes) : Bytes := [0xa9, 0x14] ++ h.hash160 script ++ [0x87]
def p2wpkhOf (h : Hashes) (sec : Bytes) : Bytes := [0x00, 0x14] ++ h.hash160 sec
def p2wshOf (h : Hashes) (script : Bytes) : Bytes := [0x00, 0x20] ++ h.sha256 script

/-- `Descriptor.witness_script()` (outer `Option`: exception; inner: Python `None`) -/
def Desc.witnessScript (ops : KeyOps K) (h : Hashes) (d : Desc K) : Option (Option Bytes) :=
  match d.wsh, d.miniscript with
  | true, some ms => (compileMs ops h (d.taproot) ms).map some
  | _, _ => some none

/-- `Descriptor.redeem_script()` -/
def Desc.redeemScript (ops : KeyOps K) (h : Hashes) (d : Desc K) : Option (Option Bytes) :=
  if !d.sh then some none
  else
    match d.miniscript with
    | some ms =>
      (match compileMs ops h d.taproot ms with
        | none => none
        | some sc => if !d.wsh then some (some sc) else some (some (p2wshOf h sc)))
    | none =>
      match d.key.bind KeyExpr.obj? with
      | some key => some (some (p2wpkhOf h (ops.sec key)))
      | none => none

/-- `Descriptor.script_pubkey()` -/
def Desc.scriptPubkey (ops : KeyOps K) (h : Hashes) (d : Desc K) : Option Bytes :=
  if d.taproot then
    match d.key.bind KeyExpr.obj?, d.taptree.tweak ops h with
    | some key, some t => (ops.tweak key t).map fun x => [0x51, 0x20] ++ x
    | _, _ => none
  else if d.sh then
    match d.redeemScript ops h with
    | some (some r) => some (p2shOf h r)
    | _ => none
  else if d.wsh then
    match d.witnessScript ops h with
    | some (some w) => some (p2wshOf h w)
    | _ => none            -- `p2wsh(None)` raises
  else
    match d.miniscript with
    | some ms => compileMs ops h false ms
    | none =>
      match d.key.bind KeyExpr.obj? with
      | some key => if d.wpkh then some (p2wpkhOf h (ops.sec key)) else some (p2pkhOf h (ops.sec key))
      | none => none

/-- `Descriptor.scriptpubkey_type()`: 0 p2pkh, 1 p2sh, 2 p2wpkh, 3 p2wsh, 4 p2tr; `none` = Python `None` -/
inductive SpkType | p2pkh | p2sh | p2wpkh | p2wsh | p2tr
deriving DecidableEq, Repr

/-- `(wsh and miniscript) or (wpkh and key) or taproot` as truth values -/
def Desc.isSegwit (d : Desc K) : Bool :=
  (d.wsh && d.miniscript.isSome) || (d.wpkh && d.key.isSome) || d.taproot

def Desc.spkType (d : Desc K) : Option SpkType :=
  if d.taproot then some .p2tr
  else if d.sh then some .p2sh
  else if d.key.isSome && !d.taproot then
    -- is_legacy = not (is_segwit or is_taproot)
    if !(d.isSegwit || d.taproot) then some .p2pkh
    else if d.isSegwit then some .p2wpkh
    else none
  else some .p2wsh

/-- `Script.script_type()` -/
def scriptType (data : Bytes) : Option SpkType :=
  if data.length = 25 && data.take 3 = [0x76, 0xa9, 0x14] && data.drop 23 = [0x88, 0xac] then some .p2pkh
  else if data.length = 23 && data.take 2 = [0xa9, 0x14] && data.getLast? = some 0x87 then some .p2sh
  else if data.length = 22 && data.take 2 = [0x00, 0x14] then some .p2wpkh
  else if data.length = 34 && data.take 2 = [0x00, 0x20] then some .p2wsh
  else if data.length = 34 && data.take 2 = [0x51, 0x20] then some .p2tr
  else none

end Embit.Model.Descriptor
