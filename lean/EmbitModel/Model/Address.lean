import EmbitModel.Model.Base58
import EmbitModel.Model.Bech32
/-
  Model of embit `script.py`: `Script.script_type`, `Script.address`, `address_to_scriptpubkey`
  (= `Script.from_address`), following the code after `fixes/c11-address-decoding-strict.diff`
  (payload length and HRP checks); the code before the fix is kept as `toScriptOld`.
  Results: `none` = Python raises; `some none` = Python returns `None`; `some (some x)` = value.
-/
namespace Embit.Model

/-- an entry of `networks.NETWORKS` (the three fields the address code reads) -/
structure Network where
  p2pkh : Bytes
  p2sh : Bytes
  bech32 : List Char
deriving DecidableEq, Repr, Inhabited

inductive ScriptType | p2pkh | p2sh | p2wpkh | p2wsh | p2tr
deriving DecidableEq, Repr, Inhabited

namespace Address

/-- `Script.script_type()` -/
def scriptType (data : Bytes) : Option ScriptType :=
  if data.length = 25 && data.take 3 == [0x76, 0xa9, 0x14] && data.drop (data.length - 2) == [0x88, 0xac] then some .p2pkh
  else if data.length = 23 && data.take 2 == [0xa9, 0x14] && data.getLast? == some 0x87 then some .p2sh
  else if data.length = 22 && data.take 2 == [0x00, 0x14] then some .p2wpkh
  else if data.length = 34 && data.take 2 == [0x00, 0x20] then some .p2wsh
  else if data.length = 34 && data.take 2 == [0x51, 0x20] then some .p2tr
  else none

/-- `Script.address(network)` -/
def address (dsha : Bytes → Bytes) (net : Network) (data : Bytes) : Option (Option (List Char)) :=
  match scriptType data with
  | none => none                                               -- ValueError
  | some .p2pkh => some (some (Base58.encodeCheck dsha (net.p2pkh ++ (data.drop 3).take 20)))
  | some .p2sh => some (some (Base58.encodeCheck dsha (net.p2sh ++ (data.drop 2).take 20)))
  | some _ =>
    match data with
    | [] => none
    | v :: _ =>
      let ver := if v.toNat > 0 then v.toNat % 0x50 else v.toNat
      some (Bech32.encode net.bech32 ver ((data.drop 2).map UInt8.toNat))

/-- the `for net in NETWORKS.values()` loop; `none` = fell through (function returns `None`) -/
def matchPrefix (data : Bytes) : List Network → Option Bytes
  | [] => none
  | net :: rest =>
    if data.take 1 == net.p2pkh then some ([0x76, 0xa9, 0x14] ++ data.drop 1 ++ [0x88, 0xac])
    else if data.take 1 == net.p2sh then some ([0xa9, 0x14] ++ data.drop 1 ++ [0x87])
    else matchPrefix data rest

/-- `addr.split("1")[0]` -/
def splitOne (addr : List Char) : List Char := addr.takeWhile (· ≠ '1')

/-- the `except:` branch of `address_to_scriptpubkey`; `checkHrp = false` is the code before the fix -/
def bech32Branch (checkHrp : Bool) (nets : List Network) (addr : List Char) : Option Bytes :=
  let hrp := splitOne addr
  if checkHrp && !(nets.map (·.bech32)).contains hrp then none else
  match Bech32.decode hrp addr with
  | none => none                          -- `None not in [0, 1]` → EmbitError
  | some (ver, data) =>
    if !(ver == 0 || ver == 1) || !(data.length == 20 || data.length == 32) then none
    else if ver == 1 && data.length != 32 then none
    else
      let ver := if ver > 0 then ver + 0x50 else ver
      some ((UInt8.ofNat ver :: UInt8.ofNat data.length :: data.map UInt8.ofNat))

/-- `address_to_scriptpubkey(addr)` after the fix -/
def toScript (dsha : Bytes → Bytes) (nets : List Network) (addr : List Char) : Option (Option Bytes) :=
  match Base58.decodeCheck dsha addr with
  | some data =>
    if data.length ≠ 21 then
      -- `raise EmbitError` inside `try:` is caught by the bare `except:`
      (bech32Branch true nets addr).map some
    else some (matchPrefix data nets)
  | none => (bech32Branch true nets addr).map some

/-- `address_to_scriptpubkey(addr)` before the fix (D15, D16) -/
def toScriptOld (dsha : Bytes → Bytes) (nets : List Network) (addr : List Char) : Option (Option Bytes) :=
  match Base58.decodeCheck dsha addr with
  | some data => some (matchPrefix data nets)
  | none => (bech32Branch false nets addr).map some

end Address
end Embit.Model
