import EmbitModel.Model.KeyCurve
import EmbitModel.Generated.KeyVersions
/-
  Model of the key encodings of embit (`ec.py`: PublicKey / PrivateKey; `bip32.py`: HDKey.__init__ /
  read_from / write_to / to_base58; `base.py`: EmbitBase.parse), following the code as it is after the fixes
  fixes/k01, k03, k04 (Mathlib-free, executable).

  * The binding layer `embit.util.secp256k1` is modelled by libsecp256k1's contract over an abstract curve `E`
    (what the ctypes backend does; the pure-Python backend is C08's business).
  * A 32-byte secret / tweak is modelled by its big-endian value; the 64-byte opaque point structure by a point.
  * Python exceptions of any class are `none`. A stream is the list of its remaining bytes (`read(k)` returns
    up to `k` bytes).
  * NETWORKS is read through `Generated/KeyVersions.lean` (re-extracted from the loaded module on every run);
    a network object is modelled by its position in NETWORKS.
-/
namespace Embit.Keys
open Embit

/-! ### binding layer (libsecp256k1 contract) -/

/-- `ec_seckey_verify` on the value of a 32-byte string -/
def seckeyValid (E : EcOps) (d : Nat) : Bool := decide (0 < d) && decide (d < E.n)

/-- `ec_pubkey_create` -/
def pubkeyCreate (E : EcOps) (d : Nat) : Option E.Pt :=
  if seckeyValid E d then some (E.mulG d) else none

/-- `ec_pubkey_parse`: 33 bytes starting 02/03 or 65 bytes starting 04 (the wrapper refuses hybrid 06/07);
    coordinates must be reduced and on the curve -/
def pubkeyParse (E : EcOps) (sec : Bytes) : Option E.Pt :=
  match sec with
  | [] => none
  | f :: r =>
    if r.length = 32 then
      if f = 0x02 then E.liftX (ofBe r)
      else if f = 0x03 then (E.liftX (ofBe r)).map E.neg
      else none
    else if r.length = 64 then
      if f = 0x04 then E.ofXY (ofBe (r.take 32)) (ofBe (r.drop 32)) else none
    else none

/-- `ec_pubkey_serialize(point, EC_COMPRESSED | EC_UNCOMPRESSED)` -/
def pubkeySerialize (E : EcOps) (P : E.Pt) (compressed : Bool) : Bytes :=
  if compressed then (if E.yOdd P then 0x03 else 0x02) :: beN 32 (E.x P)
  else 0x04 :: (beN 32 (E.x P) ++ beN 32 (E.y P))

/-- `ec_privkey_add(secret, tweak)` = `secp256k1_ec_seckey_tweak_add`: the secret must be valid, the tweak
    below the order, the sum non-zero -/
def privkeyAdd (E : EcOps) (d t : Nat) : Option Nat :=
  if seckeyValid E d && decide (t < E.n) then
    (if (d + t) % E.n = 0 then none else some ((d + t) % E.n))
  else none

/-- `ec_pubkey_add(point, tweak)` = `secp256k1_ec_pubkey_tweak_add`: tweak below the order, sum finite -/
def pubkeyAdd (E : EcOps) (P : E.Pt) (t : Nat) : Option E.Pt :=
  if t < E.n then
    (if E.isInf (E.add P (E.mulG t)) then none else some (E.add P (E.mulG t)))
  else none

/-- `ec_privkey_negate` -/
def privkeyNegate (E : EcOps) (d : Nat) : Nat := (E.n - d) % E.n

/-! ### PublicKey -/

structure PublicKey (E : EcOps) where
  point : E.Pt
  compressed : Bool

/-- `PublicKey.read_from(stream)`: the key and the rest of the stream -/
def PublicKey.readFrom (E : EcOps) (s : Bytes) : Option (PublicKey E × Bytes) :=
  match s with
  | [] => none
  | f :: r =>
    if f = 0x02 ∨ f = 0x03 ∨ f = 0x04 then
      match pubkeyParse E (f :: r.take (if f = 0x04 then 64 else 32)) with
      | none => none
      | some P => some (⟨P, f != 0x04⟩, r.drop (if f = 0x04 then 64 else 32))
    else none

/-- `PublicKey.parse(b)` (`EmbitBase.parse`: read, then no byte may be left) -/
def PublicKey.parse (E : EcOps) (b : Bytes) : Option (PublicKey E) :=
  match PublicKey.readFrom E b with
  | some (k, []) => some k
  | _ => none

def PublicKey.sec {E : EcOps} (k : PublicKey E) : Bytes := pubkeySerialize E k.point k.compressed

/-- `sec()[1:33]` -/
def PublicKey.xonly {E : EcOps} (k : PublicKey E) : Bytes := (k.sec.drop 1).take 32

/-- `PublicKey.from_xonly(data)` -/
def PublicKey.fromXonly (E : EcOps) (data : Bytes) : Option (PublicKey E) :=
  if data.length = 32 then PublicKey.parse E (0x02 :: data) else none

/-! ### PrivateKey -/

structure PrivateKey where
  /-- big-endian value of the 32-byte `_secret` -/
  secret : Nat
  compressed : Bool
  /-- position in NETWORKS of the object held in `self.network` -/
  network : Nat
deriving DecidableEq, Repr

/-- `PrivateKey(secret, compressed, network)` -/
def PrivateKey.init (E : EcOps) (secret : Bytes) (compressed : Bool := true)
    (network : Nat := Generated.privDefaultNet) : Option PrivateKey :=
  if secret.length ≠ 32 then none
  else if seckeyValid E (ofBe secret) then some ⟨ofBe secret, compressed, network⟩
  else none

/-- `write_to` / `serialize`: the 32 secret bytes -/
def PrivateKey.serialize (k : PrivateKey) : Bytes := beN 32 k.secret

/-- `PrivateKey.parse(b)`: `cls(stream.read(32))`, then no byte may be left -/
def PrivateKey.parse (E : EcOps) (b : Bytes) : Option PrivateKey :=
  match PrivateKey.init E (b.take 32) with
  | none => none
  | some k => if b.drop 32 = [] then some k else none

def PrivateKey.getPublicKey (E : EcOps) (k : PrivateKey) : Option (PublicKey E) :=
  (pubkeyCreate E k.secret).map (fun P => ⟨P, k.compressed⟩)

def PrivateKey.sec (E : EcOps) (k : PrivateKey) : Option Bytes :=
  (k.getPublicKey E).map PublicKey.sec

/-- `sec()[1:33]` (after fix k01; the old code returned `sec()[1:]`) -/
def PrivateKey.xonly (E : EcOps) (k : PrivateKey) : Option Bytes :=
  (k.sec E).map (fun s => (s.drop 1).take 32)

/-- the code before fix k01 -/
def PrivateKey.xonlyOld (E : EcOps) (k : PrivateKey) : Option Bytes :=
  (k.sec E).map (fun s => s.drop 1)

/-- `network["wif"]` -/
def netWif (net : Nat) : Option Bytes := (Generated.keyNets[net]?).map (·.wif)

/-- `wif(network=None)` -/
def PrivateKey.wif (env : Env) (k : PrivateKey) (network : Option Nat := none) : Option Text :=
  match netWif (network.getD k.network) with
  | none => none
  | some pre => some (env.b58enc (pre ++ beN 32 k.secret ++ (if k.compressed then [0x01] else [])))

/-- the network loop of `from_wif`: the LAST network whose WIF prefix matches -/
def wifNetLoop (pre : Bytes) : List Generated.KeyNet → Nat → Option Nat → Option Nat
  | [], _, acc => acc
  | n :: ns, i, acc => wifNetLoop pre ns (i + 1) (if n.wif = pre then some i else acc)

def wifNetwork (pre : Bytes) : Option Nat := wifNetLoop pre Generated.keyNets 0 none

/-- `PrivateKey.from_wif(s)` (after fix k03: an unknown version byte is refused) -/
def PrivateKey.fromWif (E : EcOps) (env : Env) (s : Text) : Option PrivateKey :=
  match env.b58dec s with
  | none => none
  | some b =>
    match wifNetwork (b.take 1) with
    | none => none
    | some net =>
      if b.length = 33 then PrivateKey.init E ((b.drop 1).take 32) false net
      else if b.length = 34 then
        (if b.getLast? = some 0x01 then PrivateKey.init E ((b.drop 1).take 32) true net else none)
      else none

/-! ### HDKey: construction and the 78-byte encoding -/

inductive KeyObj (E : EcOps) where
  | priv (k : PrivateKey)
  | pub (k : PublicKey E)

def KeyObj.isPrivate {E : EcOps} : KeyObj E → Bool
  | .priv _ => true
  | .pub _ => false

/-- `key.serialize()` -/
def KeyObj.serialize {E : EcOps} : KeyObj E → Bytes
  | .priv k => k.serialize
  | .pub k => k.sec

/-- `key.sec()` -/
def KeyObj.sec {E : EcOps} : KeyObj E → Option Bytes
  | .priv k => k.sec E
  | .pub k => some k.sec

/-- a private key flagged as uncompressed (what fix k04 makes `HDKey.__init__` refuse) -/
def KeyObj.privUncompressed {E : EcOps} : KeyObj E → Bool
  | .priv k => !k.compressed
  | .pub _ => false

structure HDKey (E : EcOps) where
  key : KeyObj E
  chainCode : Bytes
  version : Bytes
  depth : Nat
  fingerprint : Bytes
  childNumber : Nat

def tPrv : Text := [0x70, 0x72, 0x76]
def tPub : Text := [0x70, 0x75, 0x62]
/-- `s[1:4]` -/
def sub14 (t : Text) : Text := (t.drop 1).take 3

/-- `serialize(version)` = `write_to`: `bytes([depth])` and `child_number.to_bytes(4, "big")` raise when
    out of range -/
def HDKey.serialize {E : EcOps} (k : HDKey E) (version : Option Bytes := none) : Option Bytes :=
  if k.depth < 256 ∧ k.childNumber < 2 ^ 32 then
    some (version.getD k.version ++ [UInt8.ofNat k.depth] ++ k.fingerprint ++ beN 4 k.childNumber
      ++ k.chainCode ++ (if k.key.isPrivate then [0x00] else []) ++ k.key.serialize)
  else none

/-- `to_base58(version)`: refuses a text that says `prv` for a public key or `pub` for a private one -/
def HDKey.toBase58 {E : EcOps} (env : Env) (k : HDKey E) (version : Option Bytes := none) : Option Text :=
  match k.serialize version with
  | none => none
  | some b =>
    if sub14 (env.b58enc b) = tPrv ∧ k.key.isPrivate = false then none
    else if sub14 (env.b58enc b) = tPub ∧ k.key.isPrivate = true then none
    else some (env.b58enc b)

/-- `HDKey(key, chain_code, version, depth, fingerprint, child_number)` (after fix k04: a private key
    flagged uncompressed is refused) -/
def HDKey.init {E : EcOps} (env : Env) (key : KeyObj E) (chainCode : Bytes) (version : Option Bytes)
    (depth : Nat) (fingerprint : Bytes) (childNumber : Nat) : Option (HDKey E) :=
  if key.serialize.length ≠ 32 ∧ key.serialize.length ≠ 33 then none
  else if key.privUncompressed then none
  else
    let self : HDKey E :=
      { key := key, chainCode := chainCode,
        version := version.getD (if key.serialize.length = 32 then Generated.hdDefaultPrv else Generated.hdDefaultPub),
        depth := depth, fingerprint := fingerprint, childNumber := childNumber }
    match self.toBase58 env with
    | none => none
    | some t =>
      if key.isPrivate then (if sub14 t = tPrv then some self else none)
      else (if sub14 t = tPub then some self else none)

/-- the key field of `read_from`: `PrivateKey.parse(k[1:])` when `k[0] == 0`, else `PublicKey.parse(k)` -/
def readKeyField (E : EcOps) (k0 : UInt8) (kr : Bytes) : Option (KeyObj E) :=
  if k0 = 0x00 then (PrivateKey.parse E kr).map KeyObj.priv
  else (PublicKey.parse E (k0 :: kr)).map KeyObj.pub

/-- `HDKey.read_from(stream)` -/
def HDKey.readFrom (E : EcOps) (env : Env) (s : Bytes) : Option (HDKey E × Bytes) :=
  match s.drop 4 with
  | [] => none                                     -- stream.read(1)[0] : IndexError
  | d :: s2 =>
    match ((s2.drop 40).take 33) with
    | [] => none                                   -- k[0] : IndexError
    | k0 :: kr =>
      match readKeyField E k0 kr with
      | none => none
      | some key =>
        if (s.take 4).length < 4 ∨ (s2.take 4).length < 4 ∨ ((s2.drop 8).take 32).length < 32 then none
        else
          match HDKey.init env key ((s2.drop 8).take 32) (some (s.take 4)) d.toNat (s2.take 4)
                  (ofBe ((s2.drop 4).take 4)) with
          | none => none
          | some hd =>
            match hd.toBase58 env with
            | none => none
            | some t =>
              if sub14 t ≠ tPrv ∧ sub14 t ≠ tPub then none
              else if d.toNat = 0 ∧ ofBe ((s2.drop 4).take 4) ≠ 0 then none
              else if d.toNat = 0 ∧ s2.take 4 ≠ [0, 0, 0, 0] then none
              else some (hd, (s2.drop 40).drop 33)

/-- `HDKey.parse(b)` -/
def HDKey.parse (E : EcOps) (env : Env) (b : Bytes) : Option (HDKey E) :=
  match HDKey.readFrom E env b with
  | some (k, []) => some k
  | _ => none

/-- `HDKey.from_base58(s)` -/
def HDKey.fromBase58 (E : EcOps) (env : Env) (s : Text) : Option (HDKey E) :=
  match env.b58dec s with
  | none => none
  | some b => HDKey.parse E env b

/-- `HDKey.sec()` -/
def HDKey.sec {E : EcOps} (k : HDKey E) : Option Bytes := k.key.sec

/-- `my_fingerprint` -/
def HDKey.myFingerprint {E : EcOps} (env : Env) (k : HDKey E) : Option Bytes :=
  k.sec.map (fun s => (env.hash160 s).take 4)

end Embit.Keys
