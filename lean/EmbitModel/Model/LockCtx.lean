import EmbitModel.Model.Lock
/-
  C20, finer machine — the library context as a piece of shared state.

  `Model/Lock.lean` treats the context coarsely: ANY two native calls that overlap disturb each other. Here the context
  `_secp.ctx` has contents: two words `(a, b)` — the blinding scalar and the blinding point of libsecp256k1's
  `ecmult_gen` context — which are CONSISTENT when `a = b`. Every native call READS the context: word `a` when it starts
  (tick 1), word `b` when it finishes (tick 2); what it writes into its out-buffers is correct iff the two words it saw
  belong together, garbage otherwise. A context WRITER (`secp256k1_context_randomize`, `secp256k1_context_create` —
  the API functions that take a non-const `secp256k1_context*`) moreover stores a new seed: word `a` in tick 1, word
  `b` in tick 2. So
    * two overlapping READERS do not disturb each other (libsecp256k1's contract for const contexts),
    * a writer that overlaps a reader makes the reader's result garbage (torn read),
    * two overlapping writers can leave the context torn FOR EVER (`a ≠ b`): every later call returns garbage.
  Lock, buffers, programs, schedules, `solo`, `safe` are those of `Model/Lock.lean` (a `CStep` is erased to a `Step` by
  forgetting the seed). Mathlib-free, executable.
-/
namespace Embit.Model.LockCtx
open Embit.Model.Lock

inductive CStep
  | acquire
  | release
  | native (f : String) (writes : Option Val) (outs : List (Buf × Val))  -- `writes = some seed`: a context writer
  | copyOut (b : Buf)
  | «local»
  deriving Repr

def erase : CStep → Step
  | .acquire => .acquire
  | .release => .release
  | .native f _ outs => .nativeCall f outs
  | .copyOut b => .copyOut b
  | .local => .local

structure CState where
  lock : Option Tid
  ctxA : Val                   -- first word of the context (blinding scalar)
  ctxB : Val                   -- second word (blinding point); consistent iff `ctxA = ctxB`
  seen : Tid → Val             -- the first word a thread's running native call has read
  mid  : Tid → Bool
  bufs : Buf → Val
  rest : Tid → List CStep
  res  : Tid → List Val

/-- one scheduler tick of thread `t` -/
def cstep (t : Tid) (s : CState) : CState :=
  match s.rest t with
  | [] => s
  | .acquire :: r =>
    match s.lock with
    | none => { s with lock := some t, rest := upd s.rest t r }
    | some _ => s
  | .release :: r => { s with lock := none, rest := upd s.rest t r }
  | .native _ w outs :: r =>
    if s.mid t then
      { s with mid := upd s.mid t false, bufs := writeAll (s.seen t == s.ctxB) outs s.bufs,
               ctxB := w.getD s.ctxB, rest := upd s.rest t r }
    else
      { s with mid := upd s.mid t true, seen := upd s.seen t s.ctxA, ctxA := w.getD s.ctxA }
  | .copyOut b :: r => { s with res := upd s.res t (s.res t ++ [s.bufs b]), rest := upd s.rest t r }
  | .local :: r => { s with rest := upd s.rest t r }

def crun (sched : List Tid) (s : CState) : CState := sched.foldl (fun s t => cstep t s) s

/-- the state after import: context consistent -/
def cinit (progs : Tid → List CStep) : CState :=
  { lock := none, ctxA := 0, ctxB := 0, seen := fun _ => 0, mid := fun _ => false, bufs := fun _ => 0,
    rest := progs, res := fun _ => [] }

def ccomplete (s : CState) : Prop := ∀ t, s.rest t = []

/-- the programs with the seeds forgotten: programs of the coarse machine -/
def eraseProgs (progs : Tid → List CStep) : Tid → List Step := fun t => (progs t).map erase

/-- the discipline and the results of a program run alone are those of the erased program -/
def csafe (t : Tid) (p : List CStep) : Bool := safe t none (p.map erase)
def csolo (p : List CStep) : List Val := solo (p.map erase)

/-- thread 0 to completion, then thread 1, … -/
def cserialSched (progs : Tid → List CStep) (n : Nat) : List Tid := serialSched (eraseProgs progs) n

/-! ### programs compiled from the probed facts -/

/-- native symbols that WRITE the context: the functions of `secp256k1.h` / `secp256k1_preallocated.h` whose context
    parameter is not `const` (destroy, randomize, the two callback setters) and the functions that make the context
    (create, clone into a new object). Every other API function takes `const secp256k1_context*`. -/
def ctxWriterSyms : List String := [
  "secp256k1_context_create", "secp256k1_context_clone", "secp256k1_context_destroy", "secp256k1_context_randomize",
  "secp256k1_context_set_illegal_callback", "secp256k1_context_set_error_callback",
  "secp256k1_context_preallocated_create", "secp256k1_context_preallocated_clone",
  "secp256k1_context_preallocated_destroy"]

def compileStepC (t op : Nat) : AStep → CStep
  | .acq => .acquire
  | .rel => .release
  | .native sym _ outs =>
    .native sym (if ctxWriterSyms.contains sym then some (token t op) else none)
      (outs.map (fun b => (bufOf t op b, token t op)))
  | .read b => .copyOut (bufOf t op b)

def compileOpsC (t : Nat) : Nat → List (List AStep) → List CStep
  | _, [] => []
  | op, f :: r => f.map (compileStepC t op) ++ compileOpsC t (op + 1) r

def progsOfC (threads : List (List (List AStep))) : Tid → List CStep :=
  fun t => match threads[t]? with
    | some ops => compileOpsC t 0 ops
    | none => []

/-- does a probed function write the library context? -/
def stepsWriteCtx : List AStep → Bool
  | [] => false
  | .native sym _ _ :: r => ctxWriterSyms.contains sym || stepsWriteCtx r
  | _ :: r => stepsWriteCtx r

/-- every context-writing native call of the steps is made under the lock -/
def stepsCtxWritesLocked : List AStep → Bool
  | [] => true
  | .native sym u _ :: r => (!ctxWriterSyms.contains sym || u) && stepsCtxWritesLocked r
  | _ :: r => stepsCtxWritesLocked r

end Embit.Model.LockCtx
