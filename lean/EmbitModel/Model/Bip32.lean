import EmbitModel.Model.Keys
/-
  Model of HD derivation and the taproot tweak of embit, following the code as it is after the fixes
  fixes/k02, k04, k05 (`bip32.py`: HDKey.child / derive / to_public / taproot_tweak, parse_path, path_to_str;
  `ec.py`: PublicKey.taproot_tweak, PrivateKey.taproot_tweak). Mathlib-free, executable.
  Hash functions, the curve and the Base58Check text layer are parameters (`Env`, `EcOps`).
-/
namespace Embit.Keys
open Embit

def hardenedIndex : Nat := 0x80000000

/-! ### to_public -/

/-- one round of `for net in NETWORKS: for k in NETWORKS[net]: if "prv" in k and NETWORKS[net][k] == self.version:
    version = NETWORKS[net][k.replace("prv", "pub")]; break`.
    State: `none` = KeyError raised, `some v` = current value of `version`. -/
def detectStep (ver : Bytes) (acc : Option (Option Bytes)) (net : Generated.KeyNet) : Option (Option Bytes) :=
  match acc with
  | none => none
  | some cur =>
    match net.prvPub.find? (fun e => e.1 = ver) with
    | none => some cur
    | some (_, none) => none
    | some (_, some pv) => some (some pv)

/-- the version detection of `to_public(version=None)` -/
def detectPubVersion (ver : Bytes) : Option Bytes :=
  match Generated.keyNets.foldl (detectStep ver) (some none) with
  | some (some v) => some v
  | _ => none

/-- `version` after `if version is None: <detect>` -/
def pubVersion (version : Option Bytes) (cur : Bytes) : Option Bytes :=
  match version with
  | some v => some v
  | none => detectPubVersion cur

/-- `HDKey.to_public(version)` -/
def HDKey.toPublic {E : EcOps} (env : Env) (k : HDKey E) (version : Option Bytes := none) : Option (HDKey E) :=
  match k.key with
  | .pub _ => none                                   -- "Already public"
  | .priv pk =>
    match pubVersion version k.version with
    | none => none
    | some v =>
      match pk.getPublicKey E with
      | none => none
      | some P => HDKey.init env (.pub P) k.chainCode (some v) k.depth k.fingerprint k.childNumber

/-! ### child / derive -/

/-- the index actually used: `if hardened and index < HARDENED_INDEX: index += HARDENED_INDEX` -/
def normIndex (index : Nat) (hardened : Bool) : Nat :=
  if hardened ∧ index < hardenedIndex then index + hardenedIndex else index

/-- private branch of `child`: `ec_privkey_add(parent secret, IL)` then `ec.PrivateKey(secret)`
    (after fix k05; the old code called `ec_privkey_add(IL, parent secret)`) -/
def childPriv (E : EcOps) (pk : PrivateKey) (il : Nat) : Option PrivateKey :=
  match privkeyAdd E pk.secret il with
  | none => none
  | some s => PrivateKey.init E (beN 32 s)

/-- public branch of `child`: `ec_pubkey_add(copy(point), IL)` then `ec.PublicKey(point)` -/
def childPub (E : EcOps) (pb : PublicKey E) (il : Nat) : Option (PublicKey E) :=
  match pubkeyAdd E pb.point il with
  | none => none
  | some P => some ⟨P, true⟩

def childKey {E : EcOps} : KeyObj E → Nat → Option (KeyObj E)
  | .priv pk, il => (childPriv E pk il).map KeyObj.priv
  | .pub pb, il => (childPub E pb il).map KeyObj.pub

/-- the HMAC message: `b"\x00" + key.serialize() + index` (hardened) or `sec + index` -/
def childData {E : EcOps} (k : HDKey E) (hard : Bool) (idx : Nat) (sec : Bytes) : Bytes :=
  if hard then 0x00 :: (k.key.serialize ++ beN 4 idx) else sec ++ beN 4 idx

/-- `HDKey.child(index, hardened)` -/
def HDKey.child {E : EcOps} (env : Env) (k : HDKey E) (index : Nat) (hardened : Bool := false) :
    Option (HDKey E) :=
  if index > 0xFFFFFFFF then none
  else if (hardened || decide (normIndex index hardened ≥ hardenedIndex)) = true ∧ k.key.isPrivate = false then
    none                                               -- "Can't do hardened with public key"
  else
    match k.sec with
    | none => none
    | some sec =>
      -- raw = hmac(chain_code, data); secret = raw[:32]; chain_code = raw[32:]
      if ((env.hmac512 k.chainCode (childData k (hardened || decide (normIndex index hardened ≥ hardenedIndex))
            (normIndex index hardened) sec)).take 32).length ≠ 32 then none   -- the bindings insist on 32 bytes
      else
        match childKey k.key (ofBe ((env.hmac512 k.chainCode (childData k
                (hardened || decide (normIndex index hardened ≥ hardenedIndex)) (normIndex index hardened) sec)).take 32)) with
        | none => none
        | some key =>
          HDKey.init env key
            ((env.hmac512 k.chainCode (childData k (hardened || decide (normIndex index hardened ≥ hardenedIndex))
              (normIndex index hardened) sec)).drop 32)
            (some k.version) (k.depth + 1) ((env.hash160 sec).take 4) (normIndex index hardened)

/-- the code before fix k05: `ec_privkey_add(IL, parent secret)` refuses IL = 0 -/
def HDKey.childOldAdd (E : EcOps) (parent il : Nat) : Option Nat := privkeyAdd E il parent

/-- `for idx in path: child = child.child(idx)` — a negative element makes `index.to_bytes(4, "big")` raise -/
def HDKey.derive {E : EcOps} (env : Env) (k : HDKey E) : List Int → Option (HDKey E)
  | [] => some k
  | i :: rest =>
    if i < 0 then none
    else
      match k.child env i.toNat with
      | none => none
      | some c => HDKey.derive env c rest

/-! ### derivation paths as text -/

/-- the ASCII white space `int()` strips: 9–13 and 32 (NOT 0x1c–0x1f, which only `str.strip()` strips:
    `int("0\x1f")` raises ValueError on CPython 3.12, so `parse_path("m/0\x1f")` raises) -/
def isSpace (c : UInt8) : Bool := (0x09 ≤ c && c ≤ 0x0d) || c = 0x20
def isDigit (c : UInt8) : Bool := 0x30 ≤ c && c ≤ 0x39

/-- the stripping of surrounding white space done by `int()` -/
def stripSpace (t : Text) : Text := ((t.dropWhile isSpace).reverse.dropWhile isSpace).reverse

/-- digits with single underscores between them (the part of an `int()` literal after the sign), value
    accumulated most significant digit first; `prevDigit` = the previous character was a digit -/
def digitsVal : Text → Nat → Bool → Option Nat
  | [], acc, prevDigit => if prevDigit then some acc else none
  | c :: r, acc, prevDigit =>
    if isDigit c then digitsVal r (acc * 10 + (c.toNat - 0x30)) true
    else if c = 0x5f ∧ prevDigit then
      (match r with
       | [] => none
       | c' :: _ => if isDigit c' then digitsVal r acc false else none)
    else none

/-- Python `int(s)` for an ASCII string in base 10: surrounding white space, optional sign, digits with
    single underscores (CPython's 4300-digit limit is not modelled) -/
def pyInt (t : Text) : Option Int :=
  match stripSpace t with
  | [] => none
  | c :: r =>
    if c = 0x2d then (digitsVal r 0 false).map (fun v => - (v : Int))
    else if c = 0x2b then (digitsVal r 0 false).map (fun v => (v : Int))
    else (digitsVal (c :: r) 0 false).map (fun v => (v : Int))

/-- `_parse_der_item(e)` -/
def parseDerItem (e : Text) : Option Int :=
  match e.getLast? with
  | none => none                                     -- e[-1] : IndexError
  | some l =>
    if l = 0x68 ∨ l = 0x48 ∨ l = 0x27 then (pyInt e.dropLast).map (· + (hardenedIndex : Int))
    else pyInt e

/-- `str.split(sep)` for a one-character separator -/
def splitOn (sep : UInt8) : Text → List Text
  | [] => [[]]
  | c :: r =>
    if c = sep then [] :: splitOn sep r
    else
      match splitOn sep r with
      | [] => [[c]]          -- unreachable: the result is never empty
      | w :: ws => (c :: w) :: ws

/-- `str.rstrip("/")` -/
def rstripSlash (t : Text) : Text := (t.reverse.dropWhile (· = 0x2f)).reverse

def allSome {α : Type} : List (Option α) → Option (List α)
  | [] => some []
  | none :: _ => none
  | some x :: r => (allSome r).map (x :: ·)

/-- `parse_path(path)` -/
def parsePath (path : Text) : Option (List Int) :=
  let arr := splitOn 0x2f (rstripSlash path)
  let arr := (match arr with
    | [] => []
    | a :: r => if a = [0x6d] then r else a :: r)
  if arr.length = 0 then some [] else allSome (arr.map parseDerItem)

/-- decimal digits of a natural number, `"%d" % n` -/
def decDigits (n : Nat) : Text :=
  if h : n < 10 then [UInt8.ofNat (0x30 + n)]
  else decDigits (n / 10) ++ [UInt8.ofNat (0x30 + n % 10)]
termination_by n
decreasing_by omega

/-- `"%d" % z` -/
def showInt (z : Int) : Text :=
  if z < 0 then 0x2d :: decDigits z.natAbs else decDigits z.toNat

def hexDigits (b : Bytes) : Text := (toHex b).toList.map (fun c => UInt8.ofNat c.toNat)

/-- `path_to_str(path, fingerprint)` -/
def pathToStr (path : List Int) (fingerprint : Option Bytes := none) : Text :=
  (match fingerprint with | none => [0x6d] | some f => hexDigits f) ++
  path.flatMap (fun el =>
    if el ≥ (hardenedIndex : Int) then 0x2f :: (showInt (el - hardenedIndex) ++ [0x68])
    else 0x2f :: showInt el)

/-- `derive(path)` for a string path -/
def HDKey.deriveStr {E : EcOps} (env : Env) (k : HDKey E) (path : Text) : Option (HDKey E) :=
  match parsePath path with
  | none => none
  | some p => k.derive env p

/-! ### taproot tweak -/

def tapTweakTag : Text := [0x54, 0x61, 0x70, 0x54, 0x77, 0x65, 0x61, 0x6b]   -- "TapTweak"

/-- `PublicKey.taproot_tweak(h)` -/
def PublicKey.taprootTweak {E : EcOps} (env : Env) (k : PublicKey E) (h : Bytes := []) : Option (PublicKey E) :=
  let x := k.xonly
  let tweak := env.tagged tapTweakTag (x ++ h)
  if tweak.length ≠ 32 then none
  else if seckeyValid E (ofBe tweak) = false then none       -- "Tweak is too large"
  else
    match pubkeyParse E (0x02 :: x) with
    | none => none
    | some point =>
      match pubkeyAdd E point (ofBe tweak) with
      | none => none
      | some pub => PublicKey.fromXonly E (((pubkeySerialize E pub true).drop 1).take 32)

/-- `PrivateKey.taproot_tweak(h)` (after fix k02: the parity is read from the COMPRESSED encoding) -/
def PrivateKey.taprootTweak (E : EcOps) (env : Env) (k : PrivateKey) (h : Bytes := []) : Option PrivateKey :=
  match pubkeyCreate E k.secret with
  | none => none
  | some P =>
    let sec := pubkeySerialize E P true
    let negate := sec.head? ≠ some 0x02
    let x := (sec.drop 1).take 32
    let tweak := env.tagged tapTweakTag (x ++ h)
    if tweak.length ≠ 32 then none
    else if seckeyValid E (ofBe tweak) = false then none
    else
      let secret := if negate then privkeyNegate E k.secret else k.secret
      match privkeyAdd E secret (ofBe tweak) with
      | none => none
      | some res =>
        match PrivateKey.init E (beN 32 res) with
        | none => none
        | some pk =>
          match pk.sec E with
          | none => none
          | some s =>
            if s.head? = some 0x03 then PrivateKey.init E (beN 32 (privkeyNegate E res)) else some pk

/-- the code before fix k02: parity test on `self.sec()`, which starts with 0x04 for an uncompressed key -/
def PrivateKey.taprootNegateOld (E : EcOps) (k : PrivateKey) : Option Bool :=
  (k.sec E).map (fun s => s.head? ≠ some 0x02)

/-- `self.key.taproot_tweak(h)` -/
def KeyObj.taprootTweak {E : EcOps} (env : Env) (h : Bytes) : KeyObj E → Option (KeyObj E)
  | .priv pk => (pk.taprootTweak E env h).map KeyObj.priv
  | .pub pb => (pb.taprootTweak env h).map KeyObj.pub

/-- `HDKey.taproot_tweak(h)` -/
def HDKey.taprootTweak {E : EcOps} (env : Env) (k : HDKey E) (h : Bytes := []) : Option (HDKey E) :=
  match k.key.taprootTweak env h with
  | none => none
  | some key => HDKey.init env key k.chainCode (some k.version) k.depth k.fingerprint k.childNumber

end Embit.Keys
