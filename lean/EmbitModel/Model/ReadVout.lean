import EmbitModel.Model.Tx
/-
  Model of `Transaction.read_vout(stream, idx)` (transaction.py): one pass over the previous transaction that
  feeds SHA-256 with the re-serialised stripped form while extracting output `idx`, without keeping the
  transaction. Follows the code after the C03 `fix:` commits. Returns `((output, hash), rest)`.
-/
namespace Embit.Model

def Tx.readVout (sha : Bytes → Bytes) (idx : Nat) : Parser (TxOut × Bytes) := fun b =>
  match takeN 4 b with
  | none => none
  | some (verBytes, r1) =>
    match Compact.read r1 with
    | none => none
    | some (n0, r2) =>
      -- `is_segwit = num_vin == 0`; then marker and the real count
      let afterMarker : Option (Bool × Nat × Bytes) :=
        if n0 = 0 then
          match takeN 1 r2 with
          | none => none
          | some (flag, r3) =>
            if flag ≠ [1] then none else
            match Compact.read r3 with
            | none => none
            | some (n, r4) => some (true, n, r4)
        else some (false, n0, r2)
      match afterMarker with
      | none => none
      | some (isSegwit, n, r4) =>
        match readMany TxIn.read n r4 with
        | none => none
        | some (vin, r5) =>
          match Compact.read r5 with
          | none => none
          | some (m, r6) =>
            if idx ≥ m then none else
            match readMany TxOut.read m r6 with
            | none => none
            | some (vout, r7) =>
              let witPart : Option Bytes :=
                if isSegwit then
                  match readMany witnessRead n r7 with
                  | none => none
                  | some (wits, r8) => if wits.all (fun w => w.isEmpty) then none else some r8
                else some r7
              match witPart with
              | none => none
              | some r8 =>
                match takeN 4 r8 with
                | none => none
                | some (ltBytes, r9) =>
                  match vout[idx]? with
                  | none => none
                  | some o =>
                    let pre := verBytes ++ Compact.enc n ++ vin.flatMap TxIn.ser
                      ++ Compact.enc m ++ vout.flatMap TxOut.ser ++ ltBytes
                    some ((o, sha (sha pre)), r9)

end Embit.Model
