import EmbitModel.Model.Descriptor
import EmbitModel.Model.Base58
/-
  Cost companions of the descriptor / miniscript / taptree text parser (C17): for every reading function of
  `Model/Descriptor.lean` a companion with the same control flow that returns, instead of the value, what the run
  costs. The value functions themselves are used for every branch decision, so a companion cannot drift from the
  model that the correspondence check ties to embit.

  What is counted
    * one unit per call of a stream method (`s.read(1)`, `s.read(n)`, `s.read()`, `s.seek(-k, 1)`), including the
      `s.read()` that only feeds an error message;
    * one unit per call of `Miniscript.read_from` / `TapTree.read_from` (the recursive functions);
  combined by an algebra `Alg` so that the same companion yields the total number of steps (`stepsAlg`: sum) and the
  recursion depth (`depthAlg`: maximum over what runs one after the other, +1 per nested call).
  Not counted: the work on a token after it has been read (`split`, `int()`, `unhexlify`: single passes over the
  token), the key decoders behind `KeyOps` (Base58: see `Base58` below) and Python's big-integer arithmetic.
  Mathlib-free.
-/
namespace Embit.Model.Cost
open Embit Embit.Miniscript Embit.Model.Descriptor

/-- how costs combine -/
structure Alg where
  /-- one thing after the other -/
  seq : Nat → Nat → Nat
  /-- a call of a recursive `read_from` around what it does -/
  nest : Nat → Nat
  /-- `n` calls of stream methods -/
  ops : Nat → Nat

/-- total number of steps: stream calls + calls of the recursive functions -/
def stepsAlg : Alg := ⟨fun a b => a + b, fun a => a + 1, fun n => n⟩
/-- recursion depth -/
def depthAlg : Alg := ⟨fun a b => max a b, fun a => a + 1, fun _ => 0⟩
/-- stream calls only (what a counting `BytesIO` observes) -/
def streamAlg : Alg := ⟨fun a b => a + b, fun a => a, fun n => n⟩

variable {K : Type}

/-- `read_until`: one `read(1)` per character of the result and one for the stop character / the end -/
def untilOps (res : Str) : Nat := res.length + 1

/-- the `if char is not None: s.seek(-1, 1)` that ends the key text -/
def seekIf (ch : Option Char) : Nat := if ch = none then 0 else 1

/-- stream calls of the part of `Key.read_from` after the origin -/
def readKeyBodyOps (s : Stream) : Nat :=
  let (k, ch, s) := readUntil [',', ')', '/'] s
  untilOps k +
    (if ch = some '/' then
      let (der, ch, s) := readUntil ['<', '{', ',', ')'] s
      untilOps der +
        (if ch = some '{' then
          let (branch, ch, s) := readUntil ['}'] s
          untilOps branch +
            (if ch = none then 0
             else
              let (rest, ch, _) := readUntil [',', ')'] s
              untilOps rest + seekIf ch)
        else if ch = some '<' then
          let (branch, ch, s) := readUntil ['>'] s
          untilOps branch +
            (if ch = none then 0
             else
              let (rest, ch, _) := readUntil [',', ')'] s
              untilOps rest + seekIf ch)
        else seekIf ch)
    else seekIf ch)

/-- stream calls of `Key.read_from` (they do not depend on what the key decoders answer) -/
def readKeyOps (s : Stream) : Nat :=
  let (first, s1) := s.read1
  1 +
    (if first = some '[' then
      let (prefix_, ch, s2) := readUntil [']'] s1
      untilOps prefix_ +
        (if ch ≠ some ']' then 0
         else match parseOrigin prefix_ with
          | none => 0
          | some _ => readKeyBodyOps s2)
    else
      1 + (match s1.unread with
        | none => 0
        | some s2 => readKeyBodyOps s2))

/-- stream calls of `Number.read_from` on the remaining text: one `read(1)` per digit, one for the character after
    them and the `seek`; at the end of the text the last `read(1)` returns `b""` and `int("")` raises -/
def numberOps : Str → Nat
  | [] => 1
  | c :: r =>
    match digitVal c with
    | some _ => 1 + numberOps r
    | none => 2

def readNumberOps (s : Stream) : Nat := numberOps s.rest

/-- `char = s.read(1); if char != b")": raise …(char + s.read())` -/
def closeOps (s : Stream) : Nat := if (expectChar ')' s).isSome then 1 else 2

/-- the `while True` loop of `read_arguments` (the error message of the last branch reads the rest of the stream) -/
def readMoreCost (A : Alg) {α : Type} (p : Stream → Option (α × Stream)) (pc : Stream → Nat) : Nat → Stream → Nat
  | 0, _ => 0
  | n+1, s =>
    match s.read1 with
    | (some ',', s1) =>
      A.seq (A.ops 1) (A.seq (pc s1)
        (match p s1 with
          | none => 0
          | some (_, s2) => readMoreCost A p pc n s2))
    | (some ')', _) => A.ops 1
    | _ => A.ops 2

/-- `read_arguments` of the operator `op`; `sub` / `subc`: `Miniscript.read_from` and its cost -/
def readMsBodyCost (A : Alg) (ops : KeyOps K) (tap : Bool) (sub : Stream → Option (DMs K × Stream))
    (subc : Stream → Nat) (fuel : Nat) (op : Str) (s : Stream) : Nat :=
  if let some f := keyFragOf op then
    let isHash := f == .pk_h || f == .pkh
    A.seq (A.ops (readKeyOps s))
      (match readKey ops tap isHash s with
        | none => 0
        | some (_, s) => A.ops (closeOps s))
  else if let some _ := timeFragOf op then
    A.seq (A.ops (readNumberOps s))
      (match readNumber s with
        | none => 0
        | some (_, s) => A.ops (closeOps s))
  else if let some f := hashFragOf op then
    A.seq (A.ops 1)
      (match readRaw (hashFragLen f) s with
        | none => 0
        | some (_, s) => A.ops (closeOps s))
  else if op = ['a', 'n', 'd', 'o', 'r'] then
    A.seq (subc s)
      (match sub s with
        | none => 0
        | some (_, s) =>
          A.seq (A.ops 1)
            (match expectChar ',' s with
              | none => 0
              | some s =>
                A.seq (subc s)
                  (match sub s with
                    | none => 0
                    | some (_, s) =>
                      A.seq (A.ops 1)
                        (match expectChar ',' s with
                          | none => 0
                          | some s =>
                            A.seq (subc s)
                              (match sub s with
                                | none => 0
                                | some (_, s) => A.ops (closeOps s))))))
  else if let some _ := binFragOf op then
    A.seq (subc s)
      (match sub s with
        | none => 0
        | some (_, s) =>
          A.seq (A.ops 1)
            (match expectChar ',' s with
              | none => 0
              | some s =>
                A.seq (subc s)
                  (match sub s with
                    | none => 0
                    | some (_, s) => A.ops (closeOps s))))
  else if op = ['t', 'h', 'r', 'e', 's', 'h'] then
    A.seq (A.ops (readNumberOps s))
      (match readNumber s with
        | none => 0
        | some (_, s) => readMoreCost A sub subc fuel s)
  else if let some _ := multiFragOf op then
    A.seq (A.ops (readNumberOps s))
      (match readNumber s with
        | none => 0
        | some (_, s) => readMoreCost A (readKey ops tap false) (fun s => A.ops (readKeyOps s)) fuel s)
  else 0

/-- `Miniscript.read_from` -/
def readMsCost (A : Alg) (ops : KeyOps K) (tap : Bool) : Nat → Stream → Nat
  | 0, _ => 0
  | fuel+1, s =>
    let (opw, ch, s) := readUntil ['('] s
    let split : Option (Str × Str) :=
      if opw.contains ':' then
        match splitOn ':' opw with
        | [w, o] => some (w, o)
        | _ => none
      else some ([], opw)
    A.nest (A.seq (A.ops (untilOps opw))
      (match split with
        | none => 0
        | some (_, op) =>
          if ch ≠ some '(' then 0
          else readMsBodyCost A ops tap (readMs ops tap fuel) (readMsCost A ops tap fuel) fuel op s))

/-- `TapTree.read_from` -/
def readTapTreeCost (A : Alg) (ops : KeyOps K) : Nat → Stream → Nat
  | 0, _ => 0
  | fuel+1, s =>
    A.nest (A.seq (A.ops 1)
      (match s.read1 with
        | (none, _) => 0
        | (some c, s1) =>
          if c = '{' then
            A.seq (readTapTreeCost A ops fuel s1)
              (match readTapTree ops fuel s1 with
                | none => 0
                | some (_, s2) =>
                  A.seq (A.ops 1)
                    (match s2.read1 with
                      | (some '}', _) => 0
                      | (some ',', s3) =>
                        A.seq (readTapTreeCost A ops fuel s3)
                          (match readTapTree ops fuel s3 with
                            | none => 0
                            | some _ => A.ops 1)
                      | _ => 0))
          else
            A.seq (A.ops 1)
              (match s1.unread with
                | none => 0
                | some s2 => readMsCost A ops true (fuel + 1) s2)))

/-- `start = s.read(7)` and the `seek` / `read(1)` of the branch taken -/
def readHeadOps (s : Stream) : Nat :=
  let (start, _) := s.readN 7
  if isPrefix ['t', 'r', '('] start then 2
  else if isPrefix ['s', 'h', '(', 'w', 's', 'h', '('] start then 1
  else if isPrefix ['w', 's', 'h', '('] start then 2
  else if isPrefix ['s', 'h', '(', 'w', 'p', 'k', 'h'] start then 2
  else if isPrefix ['w', 'p', 'k', 'h', '('] start then 2
  else if isPrefix ['p', 'k', 'h', '('] start then 2
  else if isPrefix ['s', 'h', '('] start then 2
  else 1

/-- `Descriptor.read_from` (`end = s.read(nbrackets)` is one call) -/
def readFromCost (A : Alg) (ops : KeyOps K) (fuel : Nat) (s : Stream) : Nat :=
  A.seq (A.ops (readHeadOps s))
    (match readHead s with
      | none => 0
      | some (.tr, s) =>
        A.seq (A.ops (readKeyOps s))
          (match readKey ops true false s with
            | none => 0
            | some (_, s) =>
              let (c, s1) := s.read1
              A.seq (A.ops 1)
                (if c = some ',' then
                  A.seq (readTapTreeCost A ops fuel s1)
                    (match readTapTree ops fuel s1 with
                      | none => 0
                      | some _ => A.ops 1)
                else
                  A.seq (A.ops 1)
                    (match s1.unread with
                      | none => 0
                      | some _ => A.ops 1)))
      | some (.shwsh, s) =>
        A.seq (readMsCost A ops false fuel s) (match readMs ops false fuel s with | none => 0 | some _ => A.ops 1)
      | some (.wsh, s) =>
        A.seq (readMsCost A ops false fuel s) (match readMs ops false fuel s with | none => 0 | some _ => A.ops 1)
      | some (.sh, s) =>
        A.seq (readMsCost A ops false fuel s) (match readMs ops false fuel s with | none => 0 | some _ => A.ops 1)
      | some (.shwpkh, s) =>
        A.seq (A.ops (readKeyOps s)) (match readKey ops false false s with | none => 0 | some _ => A.ops 1)
      | some (.wpkh, s) =>
        A.seq (A.ops (readKeyOps s)) (match readKey ops false false s with | none => 0 | some _ => A.ops 1)
      | some (.pkh, s) =>
        A.seq (A.ops (readKeyOps s)) (match readKey ops false false s with | none => 0 | some _ => A.ops 1))

/-- `Descriptor.from_string`: `read_from`, then `left = s.read()` -/
def parseCost (A : Alg) (ops : KeyOps K) (text : Str) : Nat :=
  A.seq (readFromCost A ops (text.length + 1) (Stream.ofStr text))
    (match Desc.readFrom ops (text.length + 1) (Stream.ofStr text) with
      | none => 0
      | some _ => A.ops 1)

/-! ### Base58 (`base58.py`): the big-integer loops

  Python's `int` is an array of limbs; `n *= 58`, `n += digit` and `divmod(n, 58)` walk over every limb of `n`.
  One step is charged per byte of `n` (an upper bound of the limb count) plus one for the loop iteration. -/

/-- number of bytes of a Python `int` -/
def byteLen (n : Nat) : Nat := (Base58.minBytesLE n).length

/-- `for c in s: n *= 58; if c not in B58_DIGITS: raise; n += B58_DIGITS.index(c)` -/
def accumulateSteps : Nat → List Char → Nat
  | _, [] => 0
  | n, c :: cs =>
    match Base58.digitVal c with
    | none => 1 + byteLen n
    | some d => 1 + byteLen n + accumulateSteps (n * 58 + d) cs

/-- `base58.decode(s)`: the accumulation loop, `"%x" % n` + `unhexlify` (one pass over the bytes of `n`), the
    padding loop over `s[:-1]` -/
def b58DecodeSteps (s : List Char) : Nat :=
  if s.isEmpty then 1
  else
    accumulateSteps 0 s +
      (match Base58.accumulate 0 s with
        | none => 0
        | some n => (byteLen n + 1) + s.length)

/-- `while n > 0: n, r = divmod(n, 58); chars.append(B58_DIGITS[r])` -/
def loopSteps (n : Nat) : Nat :=
  if h : n = 0 then 0 else 1 + byteLen n + loopSteps (n / 58)
termination_by n
decreasing_by omega

/-- `base58.encode(b)`: `int(hexlify(b), 16)` (one pass), the division loop, the `join`, the padding loop -/
def b58EncodeSteps (b : Bytes) : Nat :=
  (b.length + 1) + loopSteps (ofBe b) + (Base58.loopChars (ofBe b)).length + (b.length + 1)

end Embit.Model.Cost
