import EmbitModel.Basic.Bytes
/-
  Abstract curve and hash operations. Model and spec files are written over these records; theorems quantify
  over every instance (satisfying the explicit law structure `EcLaws` where group structure is needed); the
  driver instantiates them with the executable secp256k1 / SHA-256 / HMAC of `Crypto/`.
-/
namespace Embit

structure EcOps where
  /-- curve points including the point at infinity -/
  Pt : Type
  add : Pt → Pt → Pt
  neg : Pt → Pt
  /-- scalar multiple -/
  mul : Nat → Pt → Pt
  /-- generator -/
  g : Pt
  /-- group order -/
  n : Nat
  /-- field size -/
  p : Nat
  /-- affine coordinates, `none` for the point at infinity -/
  xy : Pt → Option (Nat × Nat)
  /-- the point with these affine coordinates when they satisfy the curve equation modulo `p`
      (`EllipticCurve.on_curve`; coordinate *range* checks are made by the callers) -/
  ofXY : Nat → Nat → Option Pt
  /-- the point with this x coordinate and an even y (`is_x_coord` + `lift_x`) -/
  liftX : Nat → Option Pt
  /-- inverse modulo `n` (`modinv(·, SECP256K1_ORDER)`) -/
  invN : Nat → Nat

structure HashOps where
  sha256 : Bytes → Bytes
  /-- HMAC-SHA256 `key msg` -/
  hmac256 : Bytes → Bytes → Bytes

/-- ASCII bytes of a tag -/
def asciiBytes (s : String) : Bytes := s.toList.map (fun c => UInt8.ofNat c.toNat)

/-- BIP340 tagged hash: `SHA256(SHA256(tag) ‖ SHA256(tag) ‖ data)` -/
def HashOps.tagged (H : HashOps) (tag : String) (data : Bytes) : Bytes :=
  let t := H.sha256 (asciiBytes tag)
  H.sha256 (t ++ t ++ data)

end Embit
