/-
  C19 — keyed memos and IN-PLACE EDITS OF THE CALLER'S ARGUMENT OBJECTS (the pattern `Model/Heap.lean` does not
  cover: there an argument object never changes after `newArg` unless a library method writes it).

  A method with a keyed memo (`if self._m is None or self._m[0] != key: self._m = (key, f(arg))`) builds its key from
  the argument either as a COPY of the contents (`key = tuple(amounts)`, `tuple(sc.data for sc in spks)`) or as the
  ARGUMENT OBJECT ITSELF (`key = amounts`). The caller owns the argument list and may edit it in place between two
  calls and hand the same object in again. With an aliasing key the stored key IS that object: the comparison
  `self._m[0] != key` compares the list with itself (or, for another argument object, the two lists' PRESENT contents)
  and the memo answers from the past.

  Objects: library objects with contents (`recv`), caller-owned argument cells (`args`, addressed by reference), one
  memo slot per (object, method) holding the stored key and the value. Operations: the caller builds an argument,
  edits one in place, builds a library object, mutates one (followed by `clear_cache()`), queries.
  The key kinds of the real code are extracted by `harness/aliasfacts.py` (`Gen.Alias.memoKeys`).
  Mathlib-free, executable.
-/
namespace Embit.HeapAlias

abbrev Val := Nat

/-- how a keyed memo builds its key from the argument -/
inductive KeyKind
  | copies     -- `key = tuple(arg)`: the contents at the time of the call
  | aliases    -- `key = arg`: a reference to the caller's object
  deriving DecidableEq, Repr

inductive StoredKey
  | content (c : List Val)
  | ref (r : Nat)
  deriving DecidableEq, Repr

structure Env where
  methods : List KeyKind
  /-- what method `m` computes from the receiver's contents and the argument's contents: an arbitrary function -/
  f : Nat → List Val → List Val → Val

structure State where
  args : Nat → List Val                        -- caller-owned argument objects
  nargs : Nat
  recv : Nat → List Val                        -- library objects
  nobjs : Nat
  memo : Nat → Nat → Option (StoredKey × Val)  -- object, method ↦ (stored key, value)

inductive Op
  | newArg (c : List Val)          -- the caller builds a list
  | editArg (k : Nat) (c : List Val)   -- the caller edits ITS OWN list `k` in place (`vals[1] = 45000`): same object, new contents
  | newObj (c : List Val)
  | mutate (i : Nat) (v : Val)     -- `obj.attr.append(v); obj.clear_cache()`
  | query (i m k : Nat)            -- `obj.method(arg_k)`
  deriving Repr

def keyKind (env : Env) (m : Nat) : KeyKind := (env.methods[m]?).getD .copies

/-- the contents a stored key compares as NOW -/
def keyContent (st : State) : StoredKey → List Val
  | .content c => c
  | .ref r => st.args r

/-- the value `obj_i.method_m(arg_k)` returns -/
def answer (env : Env) (st : State) (i m k : Nat) : Val :=
  match st.memo i m with
  | some (key, v) => if keyContent st key = st.args k then v else env.f m (st.recv i) (st.args k)
  | none => env.f m (st.recv i) (st.args k)

def mkKey (env : Env) (st : State) (m k : Nat) : StoredKey :=
  match keyKind env m with
  | .copies => .content (st.args k)
  | .aliases => .ref k

def setMemo (st : State) (i m : Nat) (e : StoredKey × Val) : State :=
  { st with memo := fun i' m' => if i' = i ∧ m' = m then some e else st.memo i' m' }

def step (env : Env) (st : State) : Op → State
  | .newArg c => { st with args := fun x => if x = st.nargs then c else st.args x, nargs := st.nargs + 1 }
  | .editArg k c => if k < st.nargs then { st with args := fun x => if x = k then c else st.args x } else st
  | .newObj c =>
    { st with recv := fun x => if x = st.nobjs then c else st.recv x, nobjs := st.nobjs + 1,
              memo := fun i m => if i = st.nobjs then none else st.memo i m }
  | .mutate i v =>
    if i < st.nobjs then
      { st with recv := fun x => if x = i then st.recv i ++ [v] else st.recv x,
                memo := fun i' m => if i' = i then none else st.memo i' m }
    else st
  | .query i m k =>
    if i < st.nobjs ∧ k < st.nargs then
      match st.memo i m with
      | some (key, _) =>
        if keyContent st key = st.args k then st
        else setMemo st i m (mkKey env st m k, env.f m (st.recv i) (st.args k))
      | none => setMemo st i m (mkKey env st m k, env.f m (st.recv i) (st.args k))
    else st

def run (env : Env) (st : State) : List Op → State
  | [] => st
  | op :: ops => run env (step env st op) ops

def init : State :=
  { args := fun _ => [], nargs := 0, recv := fun _ => [], nobjs := 0, memo := fun _ _ => none }

def Op.isEdit : Op → Bool
  | .editArg _ _ => true
  | _ => false

def Env.keysCopy (env : Env) : Bool := env.methods.all (· == .copies)

end Embit.HeapAlias
