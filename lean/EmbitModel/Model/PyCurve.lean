/-
  Model of the field and curve arithmetic of `embit/util/key.py` (lines 17–245): `modinv`, `jacobi_symbol`,
  `modsqrt`, and class `EllipticCurve` (`affine`, `has_even_y`, `negate`, `on_curve`, `is_x_coord`, `lift_x`,
  `double`, `add_mixed`, `add`, `mul`) — branch for branch, over Python integers (`Int`), for an ARBITRARY curve
  `EllipticCurve(p, a, b)`; secp256k1 is the instance `(2^256 - 2^32 - 977, 0, 7)`.

  Conventions
  * a Jacobian tuple `(x, y, z)` is `JPt = Int × Int × Int`; nothing is assumed about the entries (the code does
    not reduce its inputs either);
  * Python `%` with a positive modulus is `Int.emod` (`%`), `//` is `Int.fdiv`; `x & 1` on any int is `x % 2`;
  * `pow(b, e, m)` (built-in, e ≥ 0) is `powMod` — square and multiply, proved equal to `b ^ e % m` in
    `Proofs/PyCurveField.lean`;
  * a function that can raise returns `Option`: `none` = the Python raises; a function that can return Python
    `None` returns an inner `Option` (`some none` = `None`);
  * the two `while` loops run on fuel; the fuel given is proved sufficient (`Proofs/PyCurveField.lean`,
    `Proofs/PyCurveJacobi.lean`), running out of fuel is reported as `none`.
  Mathlib-free; executable (the driver runs these definitions on secp256k1's parameters).
-/
namespace Embit.Model.PyCurve

/-- `EllipticCurve(p, a, b)` as stored by `__init__` (`self.a = a % p`, `self.b = b % p`); `p > 0`. -/
structure Curve where
  p : Nat
  a : Int
  b : Int
deriving DecidableEq, Repr

/-- `EllipticCurve.__init__` -/
def Curve.init (p : Nat) (a b : Int) : Curve := ⟨p, a % (p : Int), b % (p : Int)⟩

/-- a Jacobian tuple `(x, y, z)`; `z == 0` is the point at infinity -/
abbrev JPt := Int × Int × Int

/-- the tuple the code returns for the point at infinity -/
def inf : JPt := (0, 1, 0)

/-! ### built-in `pow(b, e, m)` -/

def powModAux (m : Int) : Nat → Int → Nat → Int → Int
  | 0, _, _, acc => acc
  | fuel + 1, b, e, acc =>
    if e = 0 then acc else
    powModAux m fuel (b * b % m) (e / 2) (if e % 2 = 1 then acc * b % m else acc)

/-- `pow(b, e, m)` for `e ≥ 0`, `m > 0` -/
def powMod (b : Int) (e : Nat) (m : Int) : Int := powModAux m (e.log2 + 1) (b % m) e (1 % m)

/-! ### `modinv(a, n)` — extended Euclid -/

/-- the `while r2 != 0` loop; returns `(t1, r1)` at exit -/
def modinvLoop : Nat → Int → Int → Int → Int → Option (Int × Int)
  | 0, _, _, _, _ => none
  | fuel + 1, t1, t2, r1, r2 =>
    if r2 = 0 then some (t1, r1) else
    let q := Int.fdiv r1 r2
    modinvLoop fuel t2 (t1 - q * t2) r2 (r1 - q * r2)

/-- `modinv(a, n)`: `none` = Python `None` (no inverse). Fuel `|a| + 2` always suffices for `a ≥ 0`
    (`modinvLoop_fuel`). -/
def modinv (a n : Int) : Option Int :=
  match modinvLoop (a.natAbs + 2) 0 1 n a with
  | none => none
  | some (t1, r1) => if r1 > 1 then none else some (if t1 < 0 then t1 + n else t1)

/-! ### `jacobi_symbol(n, k)` -/

/-- `while n & 1 == 0: n >>= 1; r = k & 7; t ^= r == 3 or r == 5` -/
def jacobiStrip : Nat → Nat → Nat → Bool → Nat × Bool
  | 0, n, _, t => (n, t)
  | fuel + 1, n, k, t =>
    if n &&& 1 = 0 then
      let r := k &&& 7
      jacobiStrip fuel (n >>> 1) k (t ^^ (r == 3 || r == 5))
    else (n, t)

/-- the outer `while n != 0` loop and the final `if k == 1` -/
def jacobiLoop : Nat → Nat → Nat → Bool → Option Int
  | 0, _, _, _ => none
  | fuel + 1, n, k, t =>
    if n = 0 then some (if k = 1 then (if t then -1 else 1) else 0) else
    let nt := jacobiStrip n n k t
    -- n, k = k, n
    let n' := k
    let k' := nt.1
    let t' := nt.2 ^^ (n' &&& k' &&& 3 == 3)
    jacobiLoop fuel (n' % k') k' t'

/-- `jacobi_symbol(n, k)`; `none` = the assertion `k > 0 and k & 1` fails -/
def jacobiSymbol (n : Int) (k : Nat) : Option Int :=
  if k > 0 ∧ k &&& 1 = 1 then
    let n0 := (n % (k : Int)).toNat
    jacobiLoop (n0 + 1) n0 k false
  else none

/-! ### `modsqrt(a, p)` -/

/-- `none` = NotImplementedError (`p % 4 != 3`); `some none` = `None` (not a square) -/
def modsqrt (a : Int) (p : Nat) : Option (Option Int) :=
  if p % 4 ≠ 3 then none else
  let sqrt := powMod a ((p + 1) / 4) p
  if powMod sqrt 2 p = a % (p : Int) then some (some sqrt) else some none

/-! ### class `EllipticCurve` -/

variable (C : Curve)

/-- `affine(p1)`: `some none` = `None` (infinity); `none` = `inv**2` on `None` (z not invertible) raises -/
def affine : JPt → Option (Option JPt)
  | (x1, y1, z1) =>
    if z1 = 0 then some none else
    match modinv z1 C.p with
    | none => none
    | some inv =>
      let inv_2 := (inv ^ 2) % (C.p : Int)
      let inv_3 := (inv_2 * inv) % (C.p : Int)
      some (some ((inv_2 * x1) % (C.p : Int), (inv_3 * y1) % (C.p : Int), 1))

/-- `has_even_y(p1)`: `not (p1[2] == 0 or affine(p1)[1] & 1)` -/
def hasEvenY (P : JPt) : Option Bool :=
  if P.2.2 = 0 then some false else
  match affine C P with
  | none => none
  | some none => none                      -- unreachable: z ≠ 0
  | some (some (_, y, _)) => some (!(y % 2 = 1))

def negate : JPt → JPt
  | (x1, y1, z1) => (x1, ((C.p : Int) - y1) % (C.p : Int), z1)

def onCurve : JPt → Bool
  | (x1, y1, z1) =>
    let z2 := powMod z1 2 C.p
    let z4 := powMod z2 2 C.p
    z1 != 0 && (powMod x1 3 C.p + C.a * x1 * z4 + C.b * z2 * z4 - powMod y1 2 C.p) % (C.p : Int) == 0

/-- `is_x_coord(x)`; `none` = the assertion inside `jacobi_symbol` fails (p even or 0) -/
def isXCoord (x : Int) : Option Bool :=
  let x_3 := powMod x 3 C.p
  match jacobiSymbol (x_3 + C.a * x + C.b) C.p with
  | none => none
  | some j => some (j != -1)

def liftX (x : Int) : Option (Option JPt) :=
  let x_3 := powMod x 3 C.p
  let v := x_3 + C.a * x + C.b
  match modsqrt v C.p with
  | none => none
  | some none => some none
  | some (some y) => some (some (x, if y % 2 = 1 then (C.p : Int) - y else y, 1))

def double : JPt → JPt
  | (x1, y1, z1) =>
    if z1 = 0 then (0, 1, 0) else
    let y1_2 := (y1 ^ 2) % (C.p : Int)
    let y1_4 := (y1_2 ^ 2) % (C.p : Int)
    let x1_2 := (x1 ^ 2) % (C.p : Int)
    let s := (4 * x1 * y1_2) % (C.p : Int)
    let m := 3 * x1_2
    let m := if C.a ≠ 0 then m + C.a * powMod z1 4 C.p else m
    let m := m % (C.p : Int)
    let x2 := (m ^ 2 - 2 * s) % (C.p : Int)
    let y2 := (m * (s - x2) - 8 * y1_4) % (C.p : Int)
    let z2 := (2 * y1 * z1) % (C.p : Int)
    (x2, y2, z2)

/-- `add_mixed(p1, p2)` after its `assert z2 == 1` -/
def addMixed : JPt → JPt → JPt
  | (x1, y1, z1), (x2, y2, z2) =>
    if z1 = 0 then (x2, y2, z2) else
    let z1_2 := (z1 ^ 2) % (C.p : Int)
    let z1_3 := (z1_2 * z1) % (C.p : Int)
    let u2 := (x2 * z1_2) % (C.p : Int)
    let s2 := (y2 * z1_3) % (C.p : Int)
    if x1 = u2 then
      if y1 ≠ s2 then (0, 1, 0) else double C (x1, y1, z1)
    else
    let h := u2 - x1
    let r := s2 - y1
    let h_2 := (h ^ 2) % (C.p : Int)
    let h_3 := (h_2 * h) % (C.p : Int)
    let u1_h_2 := (x1 * h_2) % (C.p : Int)
    let x3 := (r ^ 2 - h_3 - 2 * u1_h_2) % (C.p : Int)
    let y3 := (r * (u1_h_2 - x3) - y1 * h_3) % (C.p : Int)
    let z3 := (h * z1) % (C.p : Int)
    (x3, y3, z3)

/-- `add_mixed(p1, p2)` as a function on its own: `none` = AssertionError -/
def addMixedChecked (P Q : JPt) : Option JPt := if Q.2.2 = 1 then some (addMixed C P Q) else none

/-- `add(p1, p2)`; the two calls of `add_mixed` are made under `z == 1`, so its assertion holds -/
def add : JPt → JPt → JPt
  | (x1, y1, z1), (x2, y2, z2) =>
    if z1 = 0 then (x2, y2, z2) else
    if z2 = 0 then (x1, y1, z1) else
    if z1 = 1 then addMixed C (x2, y2, z2) (x1, y1, z1) else
    if z2 = 1 then addMixed C (x1, y1, z1) (x2, y2, z2) else
    let z1_2 := (z1 ^ 2) % (C.p : Int)
    let z1_3 := (z1_2 * z1) % (C.p : Int)
    let z2_2 := (z2 ^ 2) % (C.p : Int)
    let z2_3 := (z2_2 * z2) % (C.p : Int)
    let u1 := (x1 * z2_2) % (C.p : Int)
    let u2 := (x2 * z1_2) % (C.p : Int)
    let s1 := (y1 * z2_3) % (C.p : Int)
    let s2 := (y2 * z1_3) % (C.p : Int)
    if u1 = u2 then
      if s1 ≠ s2 then (0, 1, 0) else double C (x1, y1, z1)
    else
    let h := u2 - u1
    let r := s2 - s1
    let h_2 := (h ^ 2) % (C.p : Int)
    let h_3 := (h_2 * h) % (C.p : Int)
    let u1_h_2 := (u1 * h_2) % (C.p : Int)
    let x3 := (r ^ 2 - h_3 - 2 * u1_h_2) % (C.p : Int)
    let y3 := (r * (u1_h_2 - x3) - s1 * h_3) % (C.p : Int)
    let z3 := (h * z1 * z2) % (C.p : Int)
    (x3, y3, z3)

/-- the inner `for p, n in ps: if (n >> i) & 1: r = self.add(r, p)` -/
def mulInner (i : Nat) : List (JPt × Nat) → JPt → JPt
  | [], r => r
  | (P, n) :: ps, r => mulInner i ps (if n.testBit i then add C r P else r)

/-- `for i in range(k-1, -1, -1): r = self.double(r); <inner loop>` -/
def mulLoop (ps : List (JPt × Nat)) : Nat → JPt → JPt
  | 0, r => r
  | i + 1, r => mulLoop ps i (mulInner C i ps (double C r))

/-- `mul(ps)`: 256 iterations from `(0, 1, 0)` — only the low 256 bits of each scalar are read -/
def mul (ps : List (JPt × Nat)) : JPt := mulLoop C ps 256 inf

/-! ### the uses `ECPubKey` / `ECKey` make of the above (key.py 258–418) -/

/-- `ECPubKey.set` on `04 ‖ x ‖ y`: `valid = x < p and y < p and on_curve((x, y, 1))` -/
def setUncompressed (x y : Nat) : Option JPt :=
  if x < C.p ∧ y < C.p ∧ onCurve C (x, y, 1) then some (x, y, 1) else none

/-- `ECPubKey.set` on `02/03 ‖ x`: `if x < p and is_x_coord(x): p = lift_x(x); if odd: p = negate(p)`.
    Outer `none` = raises (a failing assertion, `negate(None)`, or any later use of a key object whose point is
    `None`); `some none` = invalid key. -/
def setCompressed (odd : Bool) (x : Nat) : Option (Option JPt) :=
  if x < C.p then
    match isXCoord C x with
    | none => none
    | some false => some none
    | some true =>
      match liftX C x with
      | none => none
      | some none => none     -- unreachable for prime p: `negate(None)` raises / a "valid" key whose point is None
      | some (some P) => some (some (if odd then negate C P else P))
  else some none

/-- the coordinates `ECPubKey.get_bytes` serialises: `affine(self.p)`, `None` for infinity -/
def affineXY (P : JPt) : Option (Option (Nat × Nat)) :=
  match affine C P with
  | none => none
  | some none => some none
  | some (some (x, y, _)) => some (some (x.toNat, y.toNat))

/-- the number of points of the curve including the point at infinity, by running `on_curve` on every pair of
    reduced coordinates (`#E(𝔽_p)`; executable for toy moduli only — the statement `pointCount C = n` is the
    decidable-in-principle form of "the group has n elements") -/
def pointCount : Nat :=
  ((List.range C.p).map fun (x : Nat) =>
    ((List.range C.p).filter fun (y : Nat) => onCurve C (Int.ofNat x, Int.ofNat y, 1)).length).sum + 1

/-! ### parameters -/

def secp256k1 : Curve :=
  ⟨0xFFFFFFFFFFFFFFFFFFFFFFFFFFFFFFFFFFFFFFFFFFFFFFFFFFFFFFFEFFFFFC2F, 0, 7⟩

def secp256k1G : JPt :=
  (0x79BE667EF9DCBBAC55A06295CE870B07029BFCDB2DCE28D959F2815B16F81798,
   0x483ADA7726A3C4655DA4FBFC0E1108A8FD17B448A68554199C47D08FFB10D4B8, 1)

def secp256k1N : Nat := 0xFFFFFFFFFFFFFFFFFFFFFFFFFFFFFFFEBAAEDCE6AF48A03BBFD25E8CD0364141

/-- `y² = x³ + 7` over 𝔽₄₃ (31 points) — the toy instance of the same code -/
def toy43 : Curve := ⟨43, 0, 7⟩
def toy43G : JPt := (2, 12, 1)
def toy43N : Nat := 31

end Embit.Model.PyCurve
