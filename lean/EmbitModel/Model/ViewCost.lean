import EmbitModel.Model.View
/-
  C17 — INSTRUMENTED streaming views: the seeking loops of `psbtview.py` (`GlobalTransactionView`, `PSBTView._skip_scope`)
  and `liquid/psetview.py` (`GlobalLTransactionView._skip_input / num_vout_offset / _skip_output`, `PSETView._hash_to`),
  branch for branch, with a counter of loop iterations and a counter of stream calls.

  The stream is Python's `BytesIO`: the whole buffer `buf` and an absolute position `pos`.
    * `seek(n, 1)` / `seek(p)` NEVER fails: the position may lie beyond the end (`pos > |buf|`);
    * `read(n)` returns `readAt buf pos n` = up to `n` bytes (nothing beyond the end) and advances by what it returned;
    * `compact.read_from` = `compactAt` (raises when a byte is missing), `skip_string` = `skipStringAt`.
  What one step is: 1 per `seek`, 1 per `read(n)`, 2 per `compact.read_from` (`read(1)`, then perhaps `read(2|4|8)`),
  1 per loop iteration (the failing iteration included). Failing runs are counted up to the failure.

  Every loop is an instance of ONE combinator `loop` (a counted `for` / `while n:` loop, or a `while True` loop with
  fuel); `Proofs/ViewCost.lean` proves the iteration and step bounds once, for the combinator. Mathlib-free, executable.
-/
namespace Embit.Model.ViewCost
open Embit Embit.Model

/-- outcome of one loop body (`cont`: next iteration) and of a whole loop (`cont`: the counter / the fuel ran out) -/
inductive Out (σ α : Type) where
  | cont (s : σ) (pos : Nat)
  | done (a : α) (pos : Nat)
  | fail
deriving Repr

structure Run (σ α : Type) where
  out : Out σ α
  iters : Nat
  steps : Nat

/-- `for _ in range(n): body` / `while n: body; n -= 1` / `while True: body` (then `n` is fuel). The body gets the loop
    state and the stream position and says how many stream calls it made. -/
def loop {σ α : Type} (body : σ → Nat → Out σ α × Nat) : Nat → σ → Nat → Run σ α
  | 0, s, pos => ⟨.cont s pos, 0, 0⟩
  | n+1, s, pos =>
    match body s pos with
    | (.cont s' p', c) => let r := loop body n s' p'; ⟨r.out, 1 + r.iters, 1 + c + r.steps⟩
    | (.done a p', c) => ⟨.done a p', 1, 1 + c⟩
    | (.fail, c) => ⟨.fail, 1, 1 + c⟩

/-! ### `GlobalTransactionView` (psbtview.py) -/

/-- `_skip_output`: `seek(8, 1)`, `compact.read_from`, `seek(l, 1)` -/
def skipOutputBody (buf : Bytes) (_ : Unit) (pos : Nat) : Out Unit Unit × Nat :=
  match skipOutputAt buf pos with
  | some p => (.cont () p, 4)
  | none => (.fail, 3)

/-- `while n: self._skip_output(); n -= 1` of `vout(i)` (n = i) and `locktime` (n = num_vout) -/
def skipOutputsC (buf : Bytes) (n pos : Nat) : Run Unit Unit := loop (skipOutputBody buf) n () pos

/-! ### `GlobalLTransactionView` (liquid/psetview.py) -/

/-- `skip_commitment(stream)`: ((bytes skipped, new position) or the assert fails, stream calls) -/
def skipCommitment (buf : Bytes) (pos : Nat) : Option (Nat × Nat) × Nat :=
  let c := readAt buf pos 1
  if c.length ≠ 1 then (none, 1)
  else if c = [0x00] then (some (1, pos + 1), 1)
  else if c = [0x01] then (some (9, pos + 1 + 8), 2)
  else (some (33, pos + 1 + 32), 2)

/-- `_skip_input`. `checkEnd = true`: the code as it is (after `fix: PSETView stops at the end of the stream …`);
    `checkEnd = false`: the code before that commit (`int.from_bytes` of a short read is taken as the vout). -/
def skipInputL (checkEnd : Bool) (buf : Bytes) (pos : Nat) : Option (Nat × Nat) × Nat :=
  let p1 := pos + 32                      -- seek(32, 1)
  let v := readAt buf p1 4                -- read(4)
  if checkEnd && v.length < 4 then (none, 2) else
  let p2 := p1 + v.length + 5             -- seek(5, 1)
  let vout := ofLe v
  if vout ≠ 0xFFFFFFFF && (vout / 2^31) % 2 = 1 then
    let p3 := p2 + 64                     -- seek(64, 1)
    match skipCommitment buf p3 with
    | (none, c1) => (none, 4 + c1)
    | (some (o1, p4), c1) =>
      match skipCommitment buf p4 with
      | (none, c2) => (none, 4 + c1 + c2)
      | (some (o2, p5), c2) => (some (41 + 64 + o1 + o2, p5), 4 + c1 + c2)
  else (some (41, p2), 3)

/-- body of `for i in range(self.num_vin): off += self._skip_input()`; the loop state is `off` -/
def skipInputBody (checkEnd : Bool) (buf : Bytes) (off : Nat) (pos : Nat) : Out Nat Unit × Nat :=
  match skipInputL checkEnd buf pos with
  | (some (o, p), c) => (.cont (off + o) p, c)
  | (none, c) => (.fail, c)

/-- the loop of `num_vout_offset` started at `vin0_offset` with the claimed input count -/
def numVoutOffsetLoop (checkEnd : Bool) (buf : Bytes) (numVin vin0 : Nat) : Run Nat Unit :=
  loop (skipInputBody checkEnd buf) numVin vin0 vin0

/-- `GlobalLTransactionView(stream, off).num_vout_offset`: `num_vin` (seek, compact), `vin0_offset`, seek, the loop -/
def numVoutOffsetC (checkEnd : Bool) (buf : Bytes) (off : Nat) : Option Nat × Nat × Nat :=   -- (value, iterations, steps)
  match compactAt buf (off + 5) with
  | none => (none, 0, 3)
  | some (n, vin0) =>
    let r := numVoutOffsetLoop checkEnd buf n vin0
    match r.out with
    | .cont o _ => (some o, r.iters, 4 + r.steps)
    | _ => (none, r.iters, 4 + r.steps)

/-- L `_skip_output`: asset, value commitment, nonce, script -/
def skipOutputL (buf : Bytes) (pos : Nat) : Option Nat × Nat :=
  let p1 := pos + 33                                         -- seek(33, 1)
  let c := readAt buf p1 1                                   -- read(1)
  let p2 := p1 + c.length + (if c ≠ [0x01] then 32 else 8)   -- seek(32|8, 1)
  let d := readAt buf p2 1                                   -- read(1)
  let p3 := p2 + d.length + (if d ≠ [0x00] then 32 else 0)   -- seek(32, 1)
  match compactAt buf p3 with
  | some (l, p4) => (some (p4 + l), 8)
  | none => (none, 7)

def skipOutputLBody (buf : Bytes) (_ : Unit) (pos : Nat) : Out Unit Unit × Nat :=
  match skipOutputL buf pos with
  | (some p, c) => (.cont () p, c)
  | (none, c) => (.fail, c)

/-- `while n: self._skip_output(); n -= 1` of the Liquid `vout(i)` / `locktime` -/
def skipOutputsLC (buf : Bytes) (n pos : Nat) : Run Unit Unit := loop (skipOutputLBody buf) n () pos

/-! ### `PSETView._hash_to(h, l)` (as fixed): the loop state is the remaining length -/

def hashToBody (buf : Bytes) (l : Nat) (pos : Nat) : Out Nat Bytes × Nat :=
  if l > 32 then
    let chunk := readAt buf pos 32
    if chunk.length < 32 then (.fail, 1) else (.cont (l - 32) (pos + 32), 1)
  else
    let last := readAt buf pos l
    (.done last (pos + last.length), 1)

/-- `_hash_to(h, l)` at position `pos`; fuel `l + 1` is never used up (`Props.C17V.hash_to_never_out_of_fuel`) -/
def hashToC (buf : Bytes) (l pos : Nat) : Run Nat Bytes := loop (hashToBody buf) (l + 1) l pos

/-! ### `PSBTView._skip_scope` (a `while True` loop: fuel) -/

def skipScopeBody (buf : Bytes) (_ : Unit) (pos : Nat) : Out Unit Unit × Nat :=
  match skipStringAt buf pos with
  | none => (.fail, 2)
  | some (klen, p1) =>
    if klen = 1 then (.done () p1, 3) else
    match skipStringAt buf p1 with
    | none => (.fail, 5)
    | some (_, p2) => (.cont () p2, 6)

def skipScopeC (buf : Bytes) (fuel pos : Nat) : Run Unit Unit := loop (skipScopeBody buf) fuel () pos

end Embit.Model.ViewCost
