import EmbitModel.Model.SignWith
import EmbitModel.Model.PySecp
import EmbitModel.Model.Bip32
import EmbitModel.Spec.KeyEncodings
import EmbitModel.Spec.Ecdsa
import EmbitModel.Spec.Bip340
/-
  The cryptographic environment `SignWith.Ops` of `PSBT.sign_with` built from the executable models of the other
  properties, over an ABSTRACT curve `E : Embit.EcOps` (the record of C07 / C08) and abstract hash functions:

  * `toKeys E`   — the bridge from the curve record of the signature models (`Embit.EcOps`: `mul`, `g`, `xy`, `p`, `invN`)
                   to the curve record of the key models (`Embit.Keys.EcOps`: `mulG`, `isInf`, `x`, `y`);
  * `Hashes`     — SHA-256 / HMAC-SHA256 (`HashOps`, C07) and HMAC-SHA512 / HASH160 / tagged hash / Base58Check (`Keys.Env`,
                   C09 / C10);
  * `opsOf E hs fuel` — ECDSA signing = `ec.PrivateKey.sign` of the C07 model (RFC 6979 nonce, low-S, grinding, DER),
                   Schnorr signing = the BIP340 binding of the C07 model, public keys / BIP32 derivation / fingerprint /
                   taproot tweak = the C09 / C10 models over `toKeys E`;
  * `ecdsaVerifySec`, `schnorrVerifyX`, `validSecKey` — the verification path of embit over the same models
                   (`PublicKey.parse(pub).verify(Signature.parse(sig), msg)`, key.py's `verify_schnorr`).

  The driver instantiates `opsOf` with the executable secp256k1 / SHA-256 / RIPEMD-160 / HMAC (Driver/SignWith.lean);
  Props/C02Y.lean proves `SigLaws (opsOf E hs fuel)` from `EcLaws E`. Mathlib-free.
-/
namespace Embit.Model.SignWith
open Embit Embit.Model

/-- the curve record of the key models (C09 / C10) read off the curve record of the signature models (C07 / C08):
    `mulG k = k·G`, infinity = no coordinates, `x` / `y` from `xy` (0 for infinity, never used there), `liftX` as it is
    (`lift_x`), `ofXY` with the range check the callers of `Embit.EcOps.ofXY` make -/
def toKeys (E : Embit.EcOps) : Embit.Keys.EcOps where
  Pt := E.Pt
  n := E.n
  add := E.add
  neg := E.neg
  mulG := fun k => E.mul k E.g
  isInf := fun P => (E.xy P).isNone
  x := fun P => match E.xy P with | some (x, _) => x | none => 0
  y := fun P => match E.xy P with | some (_, y) => y | none => 0
  liftX := E.liftX
  ofXY := fun a b => if a < E.p ∧ b < E.p then E.ofXY a b else none

/-- the hash functions `sign_with` and the functions it calls use -/
structure Hashes where
  /-- SHA-256 and HMAC-SHA256 (signature hashes, RFC 6979, BIP340 tagged hashes) -/
  H : HashOps
  /-- HMAC-SHA512, HASH160, tagged hash over ASCII tags, Base58Check (BIP32, fingerprints, TapTweak) -/
  env : Embit.Keys.Env

/-- the environment of `sign_with` over the models of C07 (signers) and C09 / C10 (keys); `fuel` bounds the
    candidate loop of RFC 6979 (`deterministic_k`). A secret is the 32-byte string an `ec.PrivateKey` holds: the
    constructor refuses any other length, `schnorrSign` models that check (the ECDSA binding makes it itself). -/
def opsOf (E : Embit.EcOps) (hs : Hashes) (fuel : Nat) : Ops (Embit.Keys.HDKey (toKeys E)) where
  sha := hs.H.sha256
  hash160 := hs.env.hash160
  secOf := fun sk c => (Embit.Keys.PrivateKey.sec (toKeys E) ⟨ofBe sk, c, 0⟩).getD []
  derive := fun k path => k.derive hs.env (path.map Int.ofNat)
  hdSecret := fun k => match k.key with
    | .priv pk => beN 32 pk.secret
    | .pub _ => []
  hdFingerprint := fun k => (k.myFingerprint hs.env).getD []
  tapTweak := fun sk h =>
    (Embit.Keys.PrivateKey.taprootTweak (toKeys E) hs.env ⟨ofBe sk, true, 0⟩ h).map (fun k => beN 32 k.secret)
  ecdsaSign := fun sk h =>
    match PySecp.privateKeySign (fun ex => PySecp.ecdsaSign E hs.H fuel h sk ex) true with
    | some (sig, _) => PySecp.ecdsaSignatureSerializeDer sig
    | none => none
  schnorrSign := fun sk h => if sk.length = 32 then PySecp.schnorrsigSign E hs.H h sk none else none
  orderD := id
  orderK := id

/-- `ec.PublicKey.parse(pub)` succeeds -/
def validSecKey (E : Embit.EcOps) (pub : Bytes) : Bool := (Embit.Keys.PublicKey.parse (toKeys E) pub).isSome

/-- `ec.PublicKey.parse(pub).verify(ec.Signature.parse(sig), msg)` as key.py evaluates it: the SEC key is parsed
    strictly, then `ECPubKey.verify_ecdsa` (strict DER, range, low-S, the SEC 1 equation) -/
def ecdsaVerifySec (E : Embit.EcOps) (pub msg sig : Bytes) : Bool :=
  match Embit.Keys.PublicKey.parse (toKeys E) pub with
  | none => false
  | some k => PySecp.verifyEcdsaKey E k.point sig msg true

/-- key.py's `verify_schnorr(xonly, sig, msg)` says yes -/
def schnorrVerifyX (E : Embit.EcOps) (H : HashOps) (xonly msg sig : Bytes) : Bool :=
  PySecp.verifySchnorr E H xonly sig msg == some true

/-- the key predicates of `PSBT.parse` over the key model of `opsOf` (`validXpub` plays no role in the theorems) -/
def keyOpsOf (E : Embit.EcOps) (validXpub : Bytes → Bool) : KeyOps where
  validSec := validSecKey E
  validX := fun x => (Embit.Keys.PublicKey.fromXonly (toKeys E) x).isSome
  validXpub := validXpub

/-- ECDSA verification as the standards describe it: strict SEC decoding of the key (`Spec.KeyEnc.secDecode`), strict
    (BIP66, in range, low-S) decoding of the signature, the SEC 1 §4.1.4 equation on the message value
    (= `ecdsaVerifySec`: Props/C02Y `ecdsa_verifier_is_sec1`) -/
def ecdsaVerifySpec (E : Embit.EcOps) (pub msg sig : Bytes) : Bool :=
  match Spec.KeyEnc.secDecode (toKeys E) pub, Der.parse E.n true sig with
  | some (Q, _), some (r, s) => Spec.Ecdsa.verify E Q (ofBe msg) r s
  | _, _ => false

/-- a Schnorr signature field split into signature and flag: 64 bytes = DEFAULT, 65 bytes = signature ‖ non-zero flag -/
def splitFlag (v : Bytes) : Option (Bytes × Nat) :=
  if v.length = 64 then some (v, 0)
  else if v.length = 65 then
    match v.getLast? with
    | some fb => if fb.toNat ≠ 0 then some (v.dropLast, fb.toNat) else none
    | none => none
  else none

/-- the conclusion of `C02Y.added_sigs_valid_standards` DECIDED for one write of a trace: the value is a signature
    (+ flag) that the standards' verifier accepts under the key the slot names against `PSBT.sighash` of the PSBT `p`
    (`C02Y.write_valid_sound`: `true` implies `ValidWrite`). Used by the driver (`sign.verify`) to exercise the
    assumption `EcLaws secp256k1` on every run. -/
def writeValid (E : Embit.EcOps) (H : HashOps) (p : Psbt) (w : Write) : Bool :=
  match p.inputs[w.1]? with
  | none => false
  | some s =>
    match s.utxo with
    | none => false
    | some u =>
      match w.2.1 with
      | .partialSig pub =>
        !isTaprootSpk u.spk &&
        (match w.2.2.getLast? with
         | none => false
         | some fb =>
           match psbtSighash H.sha256 p w.1 fb.toNat none with
           | none => false
           | some h => ecdsaVerifySec E pub h w.2.2.dropLast && ecdsaVerifySpec E pub h w.2.2.dropLast)
      | .tapKeySig =>
        isTaprootSpk u.spk && isInfix ((u.spk.drop 2).take 32) u.spk &&
        (match splitFlag w.2.2 with
         | none => false
         | some (sig, f) =>
           match psbtSighash H.sha256 p w.1 f none with
           | none => false
           | some h => schnorrVerifyX E H ((u.spk.drop 2).take 32) h sig &&
                       Spec.Bip340.verify E H ((u.spk.drop 2).take 32) h sig)
      | .tapScriptSig key =>
        isTaprootSpk u.spk &&
        (match splitFlag w.2.2 with
         | none => false
         | some (sig, f) =>
           s.tapScripts.any (fun e =>
             match e.2.getLast? with
             | none => false
             | some lv =>
               isInfix (key.take 32) e.2 &&
               decide (key = key.take 32 ++ taggedHash H.sha256 "TapLeaf" ([lv] ++ scriptSer e.2.dropLast)) &&
               (match psbtSighash H.sha256 p w.1 f (some (e.2.dropLast, lv.toNat)) with
                | none => false
                | some h => schnorrVerifyX E H (key.take 32) h sig && Spec.Bip340.verify E H (key.take 32) h sig)))

end Embit.Model.SignWith
