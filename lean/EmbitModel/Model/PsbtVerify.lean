import EmbitModel.Model.Psbt
/-
  `PSBT.verify(ignore_missing)` / `PSBT.is_verified` (src/embit/psbt.py), on top of the per-input
  `InScope.verify` of Model/Psbt.lean:

      @property
      def is_verified(self):
          return all([inp.is_verified for inp in self.inputs])

      def verify(self, ignore_missing=False):
          for i, inp in enumerate(self.inputs):
              inp.verify(ignore_missing)
          return self.is_verified

  The Python objects are edited in place, so when `inp.verify` raises half-way the inputs already visited keep what
  their own `verify` did to them (`_verified = True`), the raising input and every later one are untouched
  (`InputScope.verify` raises before it assigns). The model therefore returns the PSBT that is left behind in every
  case, together with `some result` (returned) or `none` (raised).
-/
namespace Embit.Model

/-- `PSBT.is_verified`: `all([...])` over the inputs (true for no inputs) -/
def Psbt.isVerified (p : Psbt) : Bool := p.inputs.all (fun s => s.verified)

/-- the `for` loop of `PSBT.verify`: the scopes as they are left behind, and whether the loop ran to its end
    (`false`: some `inp.verify` raised; that scope and the ones after it are as before) -/
def verifyLoop (sha : Bytes → Bytes) (ign : Bool) : List InScope → List InScope × Bool
  | [] => ([], true)
  | s :: r =>
    match InScope.verify sha s ign with
    | none => (s :: r, false)
    | some (_, s') =>
      let (r', done) := verifyLoop sha ign r
      (s' :: r', done)

/-- `PSBT.verify(ignore_missing)`: (the PSBT afterwards, `some is_verified` or `none` when it raised) -/
def Psbt.verify (sha : Bytes → Bytes) (p : Psbt) (ign : Bool) : Psbt × Option Bool :=
  let (ins, done) := verifyLoop sha ign p.inputs
  let p' : Psbt := { p with inputs := ins }
  (p', if done then some p'.isVerified else none)

end Embit.Model
