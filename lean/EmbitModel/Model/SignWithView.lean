import EmbitModel.Model.SignWith
/-
  Model of `PSBTView.sign_with(root, sig_stream, sighash)` / `sign_input` / `_sign_scope` (psbtview.py), following the
  code after fix `fixes/c02x-03` (all private keys of a descriptor sign ONE parsed scope of the input, the signatures of
  the input are written once and every slot a signature is filed under is counted once per `sign_input` call; before,
  every key signed a fresh copy and wrote all signatures again).

  The view is read-only: for every input it parses the scope from the stream (`self.input(i)` — the scope of the parsed
  PSBT by C05X `view_refines_parse`), lets the keys sign that copy exactly as `PSBT.sign_with` does
  (`_sign_scope` is the loop body of `PSBT.sign_with`: `SignWith.signInput`; digests come from `PSBTView.sighash`, tied
  to `Model.sighash*` by C01's correspondence, over the unmodified stream), and writes the signature fields of the copy
  to `sig_stream`, followed by a separator. The model returns the bytes written, the counter and — as ghost results —
  the PSBT the signed copies would form and the trace of writes.
-/
namespace Embit.Model.SignWith
open Embit Embit.Model

variable {HD : Type}

/-- `hasattr(k, "is_private") and k.is_private` -/
def Single.isPrivate : Single HD → Bool
  | .keyPub => false
  | _ => true

/-- `for k in keys: res = self._sign_scope(i, inp, k, sighash, signed)` over the private keys -/
def signInputKeys (O : Ops HD) (auth : Option Nat) (dg : Digest) : List Slot → List (Single HD) → InScope → Option Res
  | _, [], s => some (s, 0, [])
  | seen, k :: ks, s =>
    match signInput O k auth dg seen s with
    | none => none
    | some (s1, n1, w1) =>
      match signInputKeys O auth dg (seen ++ w1.map Prod.fst) ks s1 with
      | none => none
      | some (s2, n2, w2) => some (s2, n1 + n2, w1 ++ w2)

/-- what `sign_input` writes for a signed scope: final witness (if it has items) and `taproot_sigs`, or `partial_sigs` -/
def sigPairs (s : InScope) (tap : Bool) : List KV :=
  if tap then
    (match s.finalWitness with
      | some w => if w.isEmpty then [] else [([0x08], witnessSer w)]
      | none => [])
    ++ s.tapSigs.map (fun e => (0x14 :: e.1, e.2))
  else s.partialSigs.map (fun e => (0x02 :: e.1, e.2))

/-- `ser_string(key); ser_string(value)` for every pair -/
def kvBytes (kvs : List KV) : Bytes := kvs.flatMap (fun kv => serString kv.1 ++ serString kv.2)

/-- `sign_input(i, root, sig_stream, sighash)` on the parsed scope `s`: bytes written, the signed copy, counter, writes -/
def viewSignInput (O : Ops HD) (keys : List (Single HD)) (auth : Option Nat) (dg : Digest) (s : InScope) :
    Option (Bytes × Res) :=
  let privs := keys.filter Single.isPrivate
  match signInputKeys O auth dg [] privs s with
  | none => none
  | some (s', n, ws) =>
    -- `counter is None`: no private key, or the flag of the input is not authorised
    if privs.isEmpty then some ([], s', n, ws) else
    match s.utxo with
    | none => none
    | some u =>
      match signPolicy auth s.sighashType (isTaprootSpk u.spk) with
      | none => some ([], s', n, ws)
      | some _ => some (kvBytes (sigPairs s' (isTaprootSpk u.spk)), s', n, ws)

/-- the loop `for i in range(self.num_inputs)` over the parsed scopes, starting with input number `i` -/
def viewSignFrom (O : Ops HD) (keys : List (Single HD)) (auth : Option Nat) (p : Psbt) :
    Nat → List InScope → Option (Bytes × List InScope × Nat × List Write)
  | _, [] => some ([], [], 0, [])
  | i, s :: r =>
    match viewSignInput O keys auth (fun s' f leaf => psbtSighash O.sha (Psbt.setInput p i s') i f leaf) s with
    | none => none
    | some (b, s', n, ws) =>
      match viewSignFrom O keys auth p (i + 1) r with
      | none => none
      | some (b', ss, n', ws') => some (b ++ [0x00] ++ b', s' :: ss, n + n', ws.map (fun w => (i, w)) ++ ws')

/-- `PSBTView.sign_with(root, sig_stream, sighash)` over the PSBT `p` the stream holds: the bytes written to
    `sig_stream`, the returned counter; ghost: the PSBT formed by the signed copies, the trace -/
def viewSignWith (O : Ops HD) (signer : Signer HD) (auth : Option Nat) (p : Psbt) :
    Option (Bytes × Nat × Psbt × List Write) :=
  match viewSignFrom O signer.keys auth p 0 p.inputs with
  | none => none
  | some (b, ss, n, ws) => some (b, n, { p with inputs := ss }, ws)

end Embit.Model.SignWith
