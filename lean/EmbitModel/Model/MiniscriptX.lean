import EmbitModel.Model.Miniscript
/-
  C13 deepened — predicates used in the statements of Props/C13X.lean (definitions only, Mathlib-free, executable; the
  driver evaluates `Ms.parserArgs` on every accepted case of the check).
    pushOrderOk / Ms.argsOkW : the exact condition under which sorting the pushes (embit) = sorting the keys (BIP383)
    secKey / keyShape / Ms.parserArgs ctx : the shape of the arguments the descriptor parser produces in a context
    mentions f : a fragment of the multi family occurs anywhere in an expression
-/
namespace Embit.Miniscript
open Embit.Model.Miniscript

/-- ordering the pushes and ordering the keys agree on every pair of keys of the list -/
def pushOrderOk (keys : List Bytes) : Bool :=
  keys.all fun a => keys.all fun b => bytesLe (pushCompact a) (pushCompact b) == bytesLe a b


mutual
/-- `Ms.argsOk` with the one-length condition on `sortedmulti*` keys replaced by the exact one -/
def Ms.argsOkW : Ms → Bool
  | .key _ a => a.length < 76
  | .time _ _ => true
  | .hash _ h => h.length < 76
  | .andor x y z => x.argsOkW && y.argsOkW && z.argsOkW
  | .bin _ x y => x.argsOkW && y.argsOkW
  | .thresh k xs => decide (k < 2 ^ 256) && Ms.argsOkWL xs
  | .multi f _ keys =>
    keys.all (fun a => a.length < 76) &&
    (match f with
      | .sortedmulti => pushOrderOk keys
      | .sortedmulti_a => pushOrderOk keys
      | _ => true)
  | .wrap _ x => x.argsOkW
def Ms.argsOkWL : List Ms → Bool
  | [] => true
  | x :: xs => x.argsOkW && Ms.argsOkWL xs
end


/-- a serialised public key as `Key.compile` pushes it in P2WSH: compressed (33 bytes, first byte 02 or 03) or
    uncompressed (65 bytes, first byte 04) -/
def secKey (a : Bytes) : Bool :=
  (a.length == 33 && (a.head? == some 2 || a.head? == some 3)) || (a.length == 65 && a.head? == some 4)

/-- key bytes by context: SEC in P2WSH, 32-byte x-only in tapscript -/
def keyShape (ctx : Ctx) (a : Bytes) : Bool :=
  match ctx with
  | .wsh => secKey a
  | .tap => a.length == 32

mutual
def Ms.parserArgs (ctx : Ctx) : Ms → Bool
  | .key f a =>
    (match f with
      | .pk_k => keyShape ctx a
      | .pk => keyShape ctx a
      | .pk_h => a.length == 20
      | .pkh => a.length == 20)
  | .time _ _ => true
  | .hash f h =>
    (match f with
      | .sha256 => h.length == 32
      | .hash256 => h.length == 32
      | .ripemd160 => h.length == 20
      | .hash160 => h.length == 20)
  | .andor x y z => x.parserArgs ctx && y.parserArgs ctx && z.parserArgs ctx
  | .bin _ x y => x.parserArgs ctx && y.parserArgs ctx
  | .thresh k xs => decide (k < 2 ^ 256) && Ms.parserArgsL ctx xs
  | .multi _ _ keys => keys.all (keyShape ctx)
  | .wrap _ x => x.parserArgs ctx
def Ms.parserArgsL (ctx : Ctx) : List Ms → Bool
  | [] => true
  | x :: xs => x.parserArgs ctx && Ms.parserArgsL ctx xs
end


mutual
/-- fragment `f` of the multi family occurs somewhere in the expression -/
def mentions (f : MultiFrag) : Ms → Bool
  | .key _ _ => false
  | .time _ _ => false
  | .hash _ _ => false
  | .andor x y z => mentions f x || mentions f y || mentions f z
  | .bin _ x y => mentions f x || mentions f y
  | .thresh _ xs => mentionsL f xs
  | .multi g _ _ => g == f
  | .wrap _ x => mentions f x
def mentionsL (f : MultiFrag) : List Ms → Bool
  | [] => false
  | x :: xs => mentions f x || mentionsL f xs
end


end Embit.Miniscript
