/-
  C19 — a small object store and the operational semantics of histories of public operations.

  Python objects are modelled at the granularity the property speaks about: every object owns some MUTABLE
  CONTAINERS (`Transaction.vin / vout`, `PSBT.unknown`, `scope.unknown`, `Witness.items`, `AllowedDerivation.indexes`),
  each container is a heap cell addressed by a reference, and an object is the list of the references stored in its
  attributes. What a constructor does with a container parameter, whether a method writes through its argument and
  how a method memoises are DESCRIPTORS (`ParamKind`, `MethodDesc`, `MemoKind`); the semantics below is parametric
  in them, and the descriptors of the real code are extracted by `harness/aliasfacts.py` into
  `Generated/AliasFacts.lean` (`Site`, `SiteKind` below are the record types of that file).

  Cells referenced by default objects exist before the history starts (`Env.defaultRef c p`: the object created when
  the `def` statement was executed — one per class and parameter, shared by every call that leaves the parameter
  out). Mathlib-free and executable.
-/
namespace Embit.Heap

-- references are natural numbers (cell addresses)
abbrev Val := Nat

/-- what a constructor does with a parameter that receives a mutable container -/
inductive ParamKind
  | storesDefault   -- `def __init__(self, vin=[]): self.vin = vin`
  | copies          -- `def __init__(self, items=[]): self.items = items[:]`
  | noneGuard       -- `def __init__(self, vin=None): if vin is None: vin = []; self.vin = vin`
  deriving DecidableEq, Repr

def ParamKind.safe : ParamKind → Bool
  | .storesDefault => false
  | _ => true

/-- how a method caches its answer in a slot of the receiver -/
inductive MemoKind
  | uncached
  | keyedOnArgs      -- `if self._m is None or self._m[0] != key: self._m = (key, f(args))`
  | keyedOnNothing   -- `if self._m is None: self._m = f(args)`
  deriving DecidableEq, Repr

structure ClassDesc where
  params : List ParamKind        -- one per container attribute
  copiesSource : Bool            -- `C(src)`: containers of `src` are copied (true) or stored by reference (false)
  deriving Repr

structure MethodDesc where
  memo : MemoKind
  mutatesArg : Bool              -- `entropy += checksum` on the caller's object
  deriving Repr

structure Env where
  classes : List ClassDesc
  methods : List MethodDesc
  defaultRef : Nat → Nat → Nat   -- the cell of the default object of (class, parameter)
  /-- what method `m` computes from the receiver's containers and the argument: an arbitrary function -/
  f : Nat → List (List Val) → List Val → Val

structure Obj where
  fields : List Nat
  deriving Repr

structure State where
  heap : Nat → List Val
  next : Nat                                   -- allocation pointer: cells `< next` exist
  objs : List Obj                              -- the pool of library objects, in creation order
  pool : List Nat                              -- caller-owned argument objects (bytearrays, lists)
  memo : Nat → Nat → Option (List Val × Val)   -- object index, method index ↦ (arguments it was filled for, value)

/-- operations of a history -/
inductive Op
  | newArg (content : List Val)                          -- the caller builds an argument object
  | construct (c : Nat) (args : List (Option (List Val)))  -- `C()`, `C(vin=[...])` with fresh literals
  | constructFrom (c : Nat) (src : Nat)                  -- `PSBT(tx)`: an object built from another one
  | mutate (i f : Nat) (v : Val)                         -- `obj.attr.append(v); obj.clear_cache()`
  | mutateRaw (i f : Nat) (v : Val)                      -- `obj.attr.append(v)` without invalidating the memos
  | query (i m k : Nat)                                  -- `obj.method(arg)`
  deriving Repr

def State.write (st : State) (r : Nat) (c : List Val) : State :=
  { st with heap := fun x => if x = r then c else st.heap x }

def State.alloc (st : State) (c : List Val) : State × Nat :=
  ({ st with heap := fun x => if x = st.next then c else st.heap x, next := st.next + 1 }, st.next)

/-- the reference a constructor stores for one container parameter -/
def fieldRef (env : Env) (c p : Nat) (k : ParamKind) (arg : Option (List Val)) (st : State) : State × Nat :=
  match k, arg with
  | .storesDefault, none => (st, env.defaultRef c p)
  | .storesDefault, some l => st.alloc l
  | .copies, none => st.alloc (st.heap (env.defaultRef c p))
  | .copies, some l => st.alloc l
  | .noneGuard, none => st.alloc []
  | .noneGuard, some l => st.alloc l

def buildFields (env : Env) (c : Nat) : Nat → List ParamKind → List (Option (List Val)) → State → State × List Nat
  | _, [], _, st => (st, [])
  | p, k :: ks, args, st =>
    let r1 := fieldRef env c p k (args.head?.getD none) st
    let r2 := buildFields env c (p + 1) ks args.tail r1.1
    (r2.1, r1.2 :: r2.2)

def copyFields : List Nat → State → State × List Nat
  | [], st => (st, [])
  | r :: rs, st =>
    let r1 := st.alloc (st.heap r)
    let r2 := copyFields rs r1.1
    (r2.1, r1.2 :: r2.2)

/-- what can be seen of object `i`: the contents of its containers -/
def obs (st : State) (i : Nat) : List (List Val) :=
  match st.objs[i]? with
  | some o => o.fields.map st.heap
  | none => []

def argObs (st : State) (k : Nat) : List Val :=
  match st.pool[k]? with
  | some r => st.heap r
  | none => []

def memoKind (env : Env) (m : Nat) : MemoKind :=
  match env.methods[m]? with
  | some d => d.memo
  | none => .uncached

def mutatesArg (env : Env) (m : Nat) : Bool :=
  match env.methods[m]? with
  | some d => d.mutatesArg
  | none => false

/-- the value `obj_i.method_m(arg_k)` returns in state `st` -/
def answer (env : Env) (st : State) (i m k : Nat) : Val :=
  match memoKind env m with
  | .uncached => env.f m (obs st i) (argObs st k)
  | .keyedOnArgs =>
    match st.memo i m with
    | some (key, v) => if key = argObs st k then v else env.f m (obs st i) (argObs st k)
    | none => env.f m (obs st i) (argObs st k)
  | .keyedOnNothing =>
    match st.memo i m with
    | some (_, v) => v
    | none => env.f m (obs st i) (argObs st k)

def setMemo (st : State) (i m : Nat) (e : Option (List Val × Val)) : State :=
  { st with memo := fun i' m' => if i' = i ∧ m' = m then e else st.memo i' m' }

def clearMemo (st : State) (i : Nat) : State :=
  { st with memo := fun i' m' => if i' = i then none else st.memo i' m' }

def step (env : Env) (st : State) : Op → State
  | .newArg content =>
    let r := st.alloc content
    { r.1 with pool := st.pool ++ [r.2] }
  | .construct c args =>
    match env.classes[c]? with
    | none => st
    | some d =>
      let r := buildFields env c 0 d.params args st
      { r.1 with objs := st.objs ++ [⟨r.2⟩] }
  | .constructFrom c src =>
    match env.classes[c]?, st.objs[src]? with
    | some d, some o =>
      if d.copiesSource then
        let r := copyFields o.fields st
        { r.1 with objs := st.objs ++ [⟨r.2⟩] }
      else { st with objs := st.objs ++ [⟨o.fields⟩] }
    | _, _ => st
  | .mutate i f v =>
    match st.objs[i]? with
    | none => st
    | some o =>
      match o.fields[f]? with
      | none => st
      | some r => clearMemo (st.write r (st.heap r ++ [v])) i
  | .mutateRaw i f v =>
    match st.objs[i]? with
    | none => st
    | some o =>
      match o.fields[f]? with
      | none => st
      | some r => st.write r (st.heap r ++ [v])
  | .query i m k =>
    if i < st.objs.length ∧ m < env.methods.length then
      match st.pool[k]? with
      | none => st
      | some r =>
        let a := st.heap r
        let v := answer env st i m k
        let st1 :=
          match memoKind env m with
          | .uncached => st
          | .keyedOnArgs => setMemo st i m (some (a, v))
          | .keyedOnNothing =>
            match st.memo i m with
            | some _ => st
            | none => setMemo st i m (some (a, v))
        if mutatesArg env m then st1.write r (a ++ [0]) else st1
    else st

def run (env : Env) (st : State) : List Op → State
  | [] => st
  | op :: ops => run env (step env st op) ops

/-- the state right after import: `d` cells hold the default objects (with contents `dflt`), nothing else exists -/
def init (d : Nat) (dflt : Nat → List Val) : State :=
  { heap := dflt, next := d, objs := [], pool := [], memo := fun _ _ => none }

def Op.isRaw : Op → Bool
  | .mutateRaw _ _ _ => true
  | _ => false

def Op.isQuery : Op → Bool
  | .query _ _ _ => true
  | _ => false

def Env.classesSafe (env : Env) : Bool :=
  env.classes.all fun d => d.params.all ParamKind.safe && d.copiesSource

def Env.memosKeyed (env : Env) : Bool :=
  env.methods.all fun d => d.memo != .keyedOnNothing

def Env.noArgMutation (env : Env) : Bool :=
  env.methods.all fun d => !d.mutatesArg

/-! ### record types of the generated facts (`Generated/AliasFacts.lean`) -/

inductive BufKind
  | fresh | sharedConstant | aliasOfArg | unknownBuf
  deriving DecidableEq, Repr

inductive Probe
  | confirmedSafe | confirmedUnsafe | notProbed
  deriving DecidableEq, Repr

inductive SiteKind
  | ctorParam (k : ParamKind)        -- constructor parameter with a mutable literal default (or its repaired form)
  | mutableDefault (readOnly : Bool) -- other function with a mutable literal default; `true`: only read / copied
  | sharedConstantDefault            -- the default is a module constant table (NETWORKS[..], WORDLIST): shared by design
  | memo (dependsOnArgs : Bool) (invalidated : Bool)
  | memoKeyed                        -- memo whose guard compares a key built from the arguments
  | argMutation (mutates : Bool)     -- a write through a parameter; `false`: refuted by the before/after probe
  | ctorWritesArgObjects             -- constructor assigning attributes of objects reached from its arguments
  | outBuffer (b : BufKind)          -- byte buffer handed to native code
  | inPlaceNative (mutates : Bool)   -- binding function passing its parameters to native code, returning nothing / the parameter
  | probe                            -- always-on run-time probe
  | unclassified                     -- a hazard the translator could neither classify nor probe
  deriving DecidableEq, Repr

structure Site where
  name : String
  kind : SiteKind
  probe : Probe
  evidence : String
  deriving Repr

def SiteKind.safe : SiteKind → Probe → Bool
  | .ctorParam k, p => k.safe && p != .confirmedUnsafe
  | .mutableDefault ro, p => ro && p != .confirmedUnsafe
  | .sharedConstantDefault, _ => true
  | .memo dep inv, p => !dep && inv && p != .confirmedUnsafe
  | .memoKeyed, p => p == .confirmedSafe
  | .argMutation mu, p => !mu && p != .confirmedUnsafe
  | .ctorWritesArgObjects, _ => false
  | .outBuffer b, p => b == .fresh && p != .confirmedUnsafe
  | .inPlaceNative mu, p => !mu && p != .confirmedUnsafe
  | .probe, p => p == .confirmedSafe
  | .unclassified, _ => false

def Site.safe (s : Site) : Bool := s.kind.safe s.probe

end Embit.Heap
