/-
  C19 — keyed memos and in-place edits ONE LEVEL DOWN (audit2 B-7 / X5; `Model/HeapAlias.lean` has flat arguments: an
  argument object there is a list of values, so a key that "copies the contents" is automatically a deep copy).

  The real argument of `hash_script_pubkeys(script_pubkeys)` is a list of `Script` objects, each holding a `data`
  object the caller may own as a `bytearray` (`Script.__init__` keeps the object it is given). Three ways to build the key:
    deep      `tuple([bytes(sc.data) for sc in spks])`  the bytes themselves, at the time of the call
    shallow   `tuple([sc.data for sc in spks])`         a new tuple of REFERENCES to the caller's buffers (the code before
                                                          fixes/memo-key.diff)
    aliases   `spks`                                     the caller's list itself
  The caller owns byte buffers (`cells`) and lists of references to them (`args`); it may build either, replace a
  list's contents in place (`a[:] = …`), and edit a buffer in place (`sc.data[5] = 0x77`). A stored key is compared with
  the key of the present call by `!=` on tuples: element by element, by PRESENT contents.
  Mathlib-free, executable.
-/
namespace Embit.HeapDeep

abbrev Val := Nat

inductive KeyKind
  | deep
  | shallow
  | aliases
  deriving DecidableEq, Repr

inductive StoredKey
  | deep (c : List (List Val))     -- the contents of every element
  | shallow (rs : List Nat)        -- references to the caller's buffers
  | ref (r : Nat)                  -- reference to the caller's list
  deriving DecidableEq, Repr

structure Env where
  methods : List KeyKind
  /-- what method `m` computes from the receiver's contents and the argument's (deep) contents: an arbitrary function -/
  f : Nat → List Val → List (List Val) → Val

structure State where
  cells : Nat → List Val                       -- caller-owned byte buffers (bytearray)
  ncells : Nat
  args : Nat → List Nat                        -- caller-owned lists of references to buffers
  nargs : Nat
  recv : Nat → List Val                        -- library objects
  nobjs : Nat
  memo : Nat → Nat → Option (StoredKey × Val)  -- object, method ↦ (stored key, value)

inductive Op
  | newCell (c : List Val)              -- the caller builds a buffer
  | editCell (r : Nat) (c : List Val)   -- the caller edits ITS buffer `r` in place: same object, new bytes
  | newArg (rs : List Nat)              -- the caller builds a list of (scripts holding) buffers
  | editArg (k : Nat) (rs : List Nat)   -- the caller replaces the elements of ITS list `k` in place
  | newObj (c : List Val)
  | mutate (i : Nat) (v : Val)          -- `obj.attr.append(v); obj.clear_cache()`
  | query (i m k : Nat)                 -- `obj.method(arg_k)`
  deriving Repr

def keyKind (env : Env) (m : Nat) : KeyKind := (env.methods[m]?).getD .deep

/-- the bytes argument `k` denotes NOW -/
def deref (st : State) (k : Nat) : List (List Val) := (st.args k).map st.cells

/-- the contents a stored key compares as NOW -/
def keyContent (st : State) : StoredKey → List (List Val)
  | .deep c => c
  | .shallow rs => rs.map st.cells
  | .ref r => deref st r

/-- the value `obj_i.method_m(arg_k)` returns -/
def answer (env : Env) (st : State) (i m k : Nat) : Val :=
  match st.memo i m with
  | some (key, v) => if keyContent st key = deref st k then v else env.f m (st.recv i) (deref st k)
  | none => env.f m (st.recv i) (deref st k)

def mkKey (env : Env) (st : State) (m k : Nat) : StoredKey :=
  match keyKind env m with
  | .deep => .deep (deref st k)
  | .shallow => .shallow (st.args k)
  | .aliases => .ref k

def setMemo (st : State) (i m : Nat) (e : StoredKey × Val) : State :=
  { st with memo := fun i' m' => if i' = i ∧ m' = m then some e else st.memo i' m' }

def step (env : Env) (st : State) : Op → State
  | .newCell c => { st with cells := fun x => if x = st.ncells then c else st.cells x, ncells := st.ncells + 1 }
  | .editCell r c => if r < st.ncells then { st with cells := fun x => if x = r then c else st.cells x } else st
  | .newArg rs =>      -- only existing buffers can be put into a list
    if rs.all (· < st.ncells) then { st with args := fun x => if x = st.nargs then rs else st.args x, nargs := st.nargs + 1 }
    else st
  | .editArg k rs =>
    if k < st.nargs ∧ rs.all (· < st.ncells) then { st with args := fun x => if x = k then rs else st.args x } else st
  | .newObj c =>
    { st with recv := fun x => if x = st.nobjs then c else st.recv x, nobjs := st.nobjs + 1,
              memo := fun i m => if i = st.nobjs then none else st.memo i m }
  | .mutate i v =>
    if i < st.nobjs then
      { st with recv := fun x => if x = i then st.recv i ++ [v] else st.recv x,
                memo := fun i' m => if i' = i then none else st.memo i' m }
    else st
  | .query i m k =>
    if i < st.nobjs ∧ k < st.nargs then
      match st.memo i m with
      | some (key, _) =>
        if keyContent st key = deref st k then st
        else setMemo st i m (mkKey env st m k, env.f m (st.recv i) (deref st k))
      | none => setMemo st i m (mkKey env st m k, env.f m (st.recv i) (deref st k))
    else st

def run (env : Env) (st : State) : List Op → State
  | [] => st
  | op :: ops => run env (step env st op) ops

def init : State :=
  { cells := fun _ => [], ncells := 0, args := fun _ => [], nargs := 0, recv := fun _ => [], nobjs := 0,
    memo := fun _ _ => none }

/-- an in-place edit of a buffer -/
def Op.isCellEdit : Op → Bool
  | .editCell _ _ => true
  | _ => false

/-- any in-place edit of something the caller owns -/
def Op.isEdit : Op → Bool
  | .editCell _ _ => true
  | .editArg _ _ => true
  | _ => false

def Env.keysDeep (env : Env) : Bool := env.methods.all (· == .deep)
def Env.noListAlias (env : Env) : Bool := env.methods.all (· != .aliases)

end Embit.HeapDeep
