import EmbitModel.Model.DescText
/-
  Model of embit `descriptor/checksum.py`: `polymod`, `checksum`, `add_checksum` — the streaming loop as written
  (one `polymod` per character, one more per completed group of three, the left-over group, eight zero symbols,
  `^ 1`, eight characters of the checksum alphabet).
-/
namespace Embit.Model.Descriptor

def INPUT_CHARSET : Str :=
  ['0', '1', '2', '3', '4', '5', '6', '7', '8', '9', '(', ')', '[', ']', ',', '\'', '/', '*', 'a', 'b', 'c', 'd', 'e', 'f', 'g', 'h', '@', ':', '$', '%', '{', '}', 'I', 'J', 'K', 'L', 'M', 'N', 'O', 'P', 'Q', 'R', 'S', 'T', 'U', 'V', 'W', 'X', 'Y', 'Z', '&', '+', '-', '.', ';', '<', '=', '>', '?', '!', '^', '_', '|', '~', 'i', 'j', 'k', 'l', 'm', 'n', 'o', 'p', 'q', 'r', 's', 't', 'u', 'v', 'w', 'x', 'y', 'z', 'A', 'B', 'C', 'D', 'E', 'F', 'G', 'H', '`', '#', '"', '\\', ' ']

def CHECKSUM_CHARSET : Str := ['q', 'p', 'z', 'r', 'y', '9', 'x', '8', 'g', 'f', '2', 't', 'v', 'd', 'w', '0', 's', '3', 'j', 'n', '5', '4', 'k', 'h', 'c', 'e', '6', 'm', 'u', 'a', '7', 'l']

/-- `polymod(c, val)` -/
def polymod (c val : Nat) : Nat :=
  let c0 := c >>> 35
  let c := ((c &&& 0x7FFFFFFFF) <<< 5) ^^^ val
  let c := if c0 &&& 1 ≠ 0 then c ^^^ 0xF5DEE51989 else c
  let c := if c0 &&& 2 ≠ 0 then c ^^^ 0xA9FDCA3312 else c
  let c := if c0 &&& 4 ≠ 0 then c ^^^ 0x1BAB10E32D else c
  let c := if c0 &&& 8 ≠ 0 then c ^^^ 0x3706B1677A else c
  let c := if c0 &&& 16 ≠ 0 then c ^^^ 0x644D626FFD else c
  c

/-- `str.find(ch)` for a single character: `none` is −1 -/
def findIdx : Str → Char → Option Nat
  | [], _ => none
  | x :: xs, ch => if x = ch then some 0 else (findIdx xs ch).map (· + 1)

/-- the `for ch in desc` loop: state `(c, cls, clscount)`; `none` = DescriptorError (character not in the charset) -/
def checksumLoop : Str → Nat → Nat → Nat → Option (Nat × Nat × Nat)
  | [], c, cls, cnt => some (c, cls, cnt)
  | ch :: r, c, cls, cnt =>
    match findIdx INPUT_CHARSET ch with
    | none => none
    | some pos =>
      let c := polymod c (pos &&& 31)
      let cls := cls * 3 + (pos >>> 5)
      let cnt := cnt + 1
      if cnt = 3 then checksumLoop r (polymod c cls) 0 0
      else checksumLoop r c cls cnt

def polymodZeros : Nat → Nat → Nat
  | 0, c => c
  | n+1, c => polymodZeros n (polymod c 0)

/-- `CHECKSUM_CHARSET[(c >> (5 * (7 - j))) & 31] for j in range(8)` -/
def checksumChars (c : Nat) : Str :=
  (List.range 8).map fun j => CHECKSUM_CHARSET.getD ((c >>> (5 * (7 - j))) &&& 31) 'q'

/-- `checksum(desc)` -/
def checksum (desc : Str) : Option Str :=
  match checksumLoop desc 1 0 0 with
  | none => none
  | some (c, cls, cnt) =>
    let c := if cnt > 0 then polymod c cls else c
    let c := polymodZeros 8 c
    let c := c ^^^ 1
    some (checksumChars c)

/-- `desc.split("#")[0]` -/
def beforeHash : Str → Str
  | [] => []
  | c :: r => if c = '#' then [] else c :: beforeHash r

/-- `add_checksum(desc)` -/
def addChecksum (desc : Str) : Option Str :=
  let d := if desc.contains '#' then beforeHash desc else desc
  match checksum d with
  | some cs => some (d ++ '#' :: cs)
  | none => none

end Embit.Model.Descriptor
