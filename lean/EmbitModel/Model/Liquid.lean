import EmbitModel.Model.LiquidTx
import EmbitModel.Model.Pset
import EmbitModel.Model.Blech32
/-
  Model of embit's Liquid support — umbrella file: transaction codecs (Model/LiquidTx.lean), PSET scopes,
  verify / unblind decision logic and the blinding data flow (Model/Pset.lean), blech32 (Model/Blech32.lean),
  plus, here, confidential segwit addresses (`liquid/addresses.py`, blech32 branch) and SLIP-77 blinding keys
  (`liquid/slip77.py`, HMAC functions abstract).
-/
namespace Embit.Model

/-! ### confidential addresses (blech32 branch of `address` / `addr_decode`) -/

/-- `script.script_type() == "p2sh"` -/
def isP2sh (spk : Bytes) : Bool :=
  spk.length == 23 && spk.take 2 == [0xa9, 0x14] && spk.getLast? == some 0x87

/-- `address(script, blinding_key, network)` for a non-empty, non-p2sh script and a blinding public key `pub`
    (its SEC serialisation): `ver = data[0]; if ver > 0: ver = ver % 0x50`, program = `pub ‖ data[2:]`.
    `none` = Python raises or returns `None`. -/
def confAddress (hrp : List Nat) (spk pub : Bytes) : Option (List Nat) :=
  match spk with
  | [] => none                      -- "Fee" (not an address)
  | v0 :: _ =>
    if isP2sh spk then none else    -- base58 branch, not modelled
    let ver := if v0.toNat > 0 then v0.toNat % 0x50 else v0.toNat
    Blech32.encode hrp ver ((pub ++ spk.drop 2).map UInt8.toNat)

def toByte? (n : Nat) : Option UInt8 := if n < 256 then some (UInt8.ofNat n) else none

/-- `addr_decode(addr)` for a blech32 address whose prefix `hrp` belongs to a Liquid network: returns
    (scriptpubkey, blinding public key). The witness version returned by `blech32.decode` is IGNORED by embit:
    the script always starts with `0x00`. `validSec` = `ec.PublicKey.parse` succeeds. -/
def confAddrDecode (validSec : Bytes → Bool) (hrp addr : List Nat) : Option (Bytes × Bytes) :=
  let a := addr.map Blech32.lowerC
  match Blech32.decode hrp a with
  | some (_, some data) =>
    match optAll (data.map toByte?) with
    | none => none
    | some bytes =>
      let pub := bytes.take 33
      let pubhash := bytes.drop 33
      if !validSec pub then none
      else if pubhash.length ≥ 256 then none
      else some (0x00 :: UInt8.ofNat pubhash.length :: pubhash, pub)
  | _ => none

/-! ### SLIP-77 -/

/-- `slip77.master_blinding_from_seed` (the 32-byte secret) -/
def slip77Master (hmac512 : Bytes → Bytes → Bytes) (seed : Bytes) : Bytes :=
  let root := hmac512 "Symmetric key seed".toUTF8.toList seed
  let node := hmac512 (root.take 32) (0x00 :: "SLIP-0077".toUTF8.toList)
  node.drop 32

/-- `slip77.blinding_key(mbk, script_pubkey)` (the 32-byte secret) -/
def slip77BlindingKey (hmac256 : Bytes → Bytes → Bytes) (mbk spk : Bytes) : Bytes := hmac256 mbk spk

end Embit.Model
