import EmbitModel.Basic.Bytes
/-
  Model of embit `bech32.py`, branch for branch. Python `str` = `List Char`, Python `int` values = `Nat`
  (the functions are only ever called with non-negative values). `None` results = `none`.
  Mathlib-free and executable.
-/
namespace Embit.Model.Bech32

/-- `CHARSET` -/
def charset : List Char := "qpzry9x8gf2tvdw0s3jn54khce6mua7l".toList

def bech32Const : Nat := 1
def bech32mConst : Nat := 0x2BC830A3

/-- `class Encoding` -/
inductive Encoding | bech32 | bech32m
deriving DecidableEq, Repr, Inhabited

def Encoding.const : Encoding → Nat
  | .bech32 => bech32Const
  | .bech32m => bech32mConst

/-- `generator` -/
def generator : List Nat := [0x3B6A57B2, 0x26508E6D, 0x1EA119FA, 0x3D4233DD, 0x2A1462B3]

/-- `for i in range(5): chk ^= generator[i] if ((top >> i) & 1) else 0` -/
def genXor (top : Nat) : Nat → List Nat → Nat → Nat
  | _, [], chk => chk
  | i, g :: gs, chk => genXor top (i + 1) gs (chk ^^^ (if (top >>> i) &&& 1 = 1 then g else 0))

/-- one iteration of the `for value in values` loop of `bech32_polymod` -/
def polymodStep (chk value : Nat) : Nat :=
  let top := chk >>> 25
  let chk := ((chk &&& 0x1FFFFFF) <<< 5) ^^^ value
  genXor top 0 generator chk

/-- the loop of `bech32_polymod`, started from an arbitrary checksum state -/
def polymodFrom (chk : Nat) (values : List Nat) : Nat := values.foldl polymodStep chk

/-- `bech32_polymod(values)` -/
def polymod (values : List Nat) : Nat := polymodFrom 1 values

/-- `bech32_hrp_expand(hrp)` -/
def hrpExpand (hrp : List Char) : List Nat :=
  hrp.map (fun x => x.toNat >>> 5) ++ [0] ++ hrp.map (fun x => x.toNat &&& 31)

/-- `bech32_verify_checksum(hrp, data)` -/
def verifyChecksum (hrp : List Char) (data : List Nat) : Option Encoding :=
  let check := polymod (hrpExpand hrp ++ data)
  if check = bech32Const then some .bech32
  else if check = bech32mConst then some .bech32m
  else none

/-- `bech32_create_checksum(encoding, hrp, data)` -/
def createChecksum (encoding : Encoding) (hrp : List Char) (data : List Nat) : List Nat :=
  let values := hrpExpand hrp ++ data
  let pm := polymod (values ++ [0, 0, 0, 0, 0, 0]) ^^^ encoding.const
  (List.range 6).map (fun i => (pm >>> (5 * (5 - i))) &&& 31)

/-- `CHARSET[d]` (callers only use `d < 32`; Python raises IndexError otherwise → `none`) -/
def charOf (d : Nat) : Option Char := charset[d]?

/-- `bech32_encode(encoding, hrp, data)`; `none` = IndexError for a value ≥ 32 -/
def bech32Encode (encoding : Encoding) (hrp : List Char) (data : List Nat) : Option (List Char) :=
  let combined := data ++ createChecksum encoding hrp data
  match combined.mapM charOf with
  | none => none
  | some cs => some (hrp ++ ['1'] ++ cs)

/-- `str.lower()` / `str.upper()` on a string already known to be ASCII -/
def lower (s : List Char) : List Char := s.map Char.toLower
def upper (s : List Char) : List Char := s.map Char.toUpper

/-- `bech.rfind("1")` as an `Option` (Python: −1 when absent) -/
def rfind1 (s : List Char) : Option Nat :=
  match s.reverse.idxOf? '1' with
  | none => none
  | some j => some (s.length - 1 - j)

/-- `CHARSET.find(x)` for `x in CHARSET` -/
def charVal (c : Char) : Option Nat := charset.idxOf? c

/-- `bech32_decode(bech)`; `none` = `(None, None, None)` -/
def bech32Decode (bech : List Char) : Option (Encoding × List Char × List Nat) :=
  if bech.any (fun x => x.toNat < 33 || x.toNat > 126) || (lower bech != bech && upper bech != bech) then none
  else
    let bech := lower bech
    match rfind1 bech with
    | none => none                       -- pos = -1 < 1
    | some pos =>
      if pos < 1 || pos + 7 > bech.length || bech.length > 90 then none
      else
        match (bech.drop (pos + 1)).mapM charVal with
        | none => none                   -- not all(x in CHARSET …)
        | some data =>
          let hrp := bech.take pos
          match verifyChecksum hrp data with
          | none => none
          | some encoding => some (encoding, hrp, data.take (data.length - 6))

/-- the `while bits >= tobits` loop of `convertbits` -/
def cbEmit (acc tobits maxv : Nat) (bits : Nat) (ret : List Nat) : Nat × List Nat :=
  if _h : bits ≥ tobits ∧ tobits > 0 then
    cbEmit acc tobits maxv (bits - tobits) (ret ++ [(acc >>> (bits - tobits)) &&& maxv])
  else (bits, ret)
termination_by bits
decreasing_by omega

/-- the `for value in data` loop of `convertbits`; state `(acc, bits, ret)` -/
def cbLoop (frombits tobits maxv maxAcc : Nat) : List Nat → Nat → Nat → List Nat → Option (Nat × Nat × List Nat)
  | [], acc, bits, ret => some (acc, bits, ret)
  | value :: rest, acc, bits, ret =>
    if value >>> frombits ≠ 0 then none
    else
      let acc := ((acc <<< frombits) ||| value) &&& maxAcc
      let (bits, ret) := cbEmit acc tobits maxv (bits + frombits) ret
      cbLoop frombits tobits maxv maxAcc rest acc bits ret

/-- `convertbits(data, frombits, tobits, pad)` (called with `tobits > 0` only) -/
def convertbits (data : List Nat) (frombits tobits : Nat) (pad : Bool := true) : Option (List Nat) :=
  let maxv := (1 <<< tobits) - 1
  let maxAcc := (1 <<< (frombits + tobits - 1)) - 1
  match cbLoop frombits tobits maxv maxAcc data 0 0 [] with
  | none => none
  | some (acc, bits, ret) =>
    if pad then
      if bits ≠ 0 then some (ret ++ [(acc <<< (tobits - bits)) &&& maxv]) else some ret
    else if bits ≥ frombits || ((acc <<< (tobits - bits)) &&& maxv) ≠ 0 then none
    else some ret

/-- `bech32.decode(hrp, addr)`; `none` = `(None, None)`.
    Python evaluates `data[1:]` on `None` when `bech32_decode` failed *and* `hrp is None`; callers pass a `str`,
    so `hrpgot != hrp` returns first. `data[0]` on an empty list cannot be reached (`len(decoded) < 2` first). -/
def decode (hrp : List Char) (addr : List Char) : Option (Nat × List Nat) :=
  match bech32Decode addr with
  | none => none
  | some (encoding, hrpgot, data) =>
    if hrpgot ≠ hrp then none else
    match convertbits (data.drop 1) 5 8 false with
    | none => none
    | some decoded =>
      if decoded.length < 2 || decoded.length > 40 then none else
      match data with
      | [] => none
      | d0 :: _ =>
        if d0 > 16 then none
        else if d0 = 0 && decoded.length ≠ 20 && decoded.length ≠ 32 then none
        else if (d0 = 0 && encoding ≠ .bech32) || (d0 ≠ 0 && encoding ≠ .bech32m) then none
        else some (d0, decoded)

/-- `bech32.encode(hrp, witver, witprog)`; `none` = returns `None` or raises (value ≥ 32 → IndexError).
    `witprog` is a `bytes` object in every caller, so its values are < 256 and `convertbits` cannot fail. -/
def encode (hrp : List Char) (witver : Nat) (witprog : List Nat) : Option (List Char) :=
  let encoding := if witver = 0 then Encoding.bech32 else Encoding.bech32m
  match convertbits witprog 8 5 with
  | none => none          -- Python: `[witver] + None` raises TypeError
  | some conv =>
    match bech32Encode encoding hrp ([witver] ++ conv) with
    | none => none
    | some ret => if decode hrp ret = none then none else some ret

end Embit.Model.Bech32
