import EmbitModel.Model.ViewCost
/-
  C17 — INSTRUMENTED streaming views, second part (conventions of `Model/ViewCost.lean`: Python stream semantics, 1 step per
  `seek` / `read`, 2 per `compact.read_from`, 1 per loop iteration):

    * `GlobalLTransactionView.vin(i)` (liquid/psetview.py): `num_vin` (seek, `compact.read_from`), index check,
      `seek(vin0_offset)`, `for j in range(i): self._skip_input()`. The final `LTransactionInput.read_from(stream)` is NOT
      part of this function (it is the parser of C17Y / C05); the value is the position that parser starts from.
    * `PSBTView.seek_to_scope(n)` (psbtview.py), the part after the `n is None` / `n > num_inputs + num_outputs` tests:
      `seek(first_scope)`, `while n: off += self._skip_scope(); n -= 1`. A NESTED loop: the inner `while True` loop of
      `_skip_scope` is `skipScopeC` with fuel; a `_skip_scope` that raises (`compact.read_from` at the end of the stream —
      in particular every `_skip_scope` started AT or PAST the end) ends the outer loop with the exception.
  Mathlib-free, executable.
-/
namespace Embit.Model.ViewCost
open Embit Embit.Model

/-- the `for j in range(i): self._skip_input()` loop of `vin(i)` from `vin0_offset` (the loop state is not used by `vin`) -/
def vinSkipLoop (checkEnd : Bool) (buf : Bytes) (i vin0 : Nat) : Run Nat Unit :=
  loop (skipInputBody checkEnd buf) i 0 vin0

/-- `GlobalLTransactionView(stream, off).vin(i)` up to the call of `LTransactionInput.read_from`:
    (position handed to the input parser | raises, iterations, steps) -/
def vinSeekC (checkEnd : Bool) (buf : Bytes) (off i : Nat) : Option Nat × Nat × Nat :=
  match compactAt buf (off + 5) with          -- num_vin: seek(offset + NUM_VIN_OFFSET), compact.read_from
  | none => (none, 0, 3)
  | some (n, vin0) =>
    if i ≥ n then (none, 0, 3) else           -- raise PSBTError("Invalid input index")
    let r := vinSkipLoop checkEnd buf i vin0  -- seek(vin0_offset), the loop
    match r.out with
    | .cont _ p => (some p, r.iters, 4 + r.steps)
    | _ => (none, r.iters, 4 + r.steps)

/-- result of the outer loop of `seek_to_scope`: `scopes` = calls of `_skip_scope` (the raising one included),
    `rounds` = iterations of the inner `while True` loops in total, `steps` = 1 per outer iteration + the inner steps -/
structure ScopeRun where
  pos : Option Nat
  scopes : Nat
  rounds : Nat
  steps : Nat
deriving Repr

/-- `while n: off += self._skip_scope(); n -= 1` from position `pos`; `fuel` bounds every inner loop (an inner loop out of
    fuel is reported as `none` like a raising one: `Props.C17V.skip_scope_linear` — never with fuel > (|buf| - pos)/2 + 1) -/
def seekScopesC (buf : Bytes) (fuel : Nat) : Nat → Nat → ScopeRun
  | 0, pos => ⟨some pos, 0, 0, 0⟩
  | n+1, pos =>
    let r := skipScopeC buf fuel pos
    match r.out with
    | .done _ p =>
      let q := seekScopesC buf fuel n p
      ⟨q.pos, 1 + q.scopes, r.iters + q.rounds, 1 + r.steps + q.steps⟩
    | _ => ⟨none, 1, r.iters, 1 + r.steps⟩

/-- `seek_to_scope(n)` for an integer `n` that passed the range test: `seek(first_scope)` + the loop -/
def seekToScopeC (buf : Bytes) (firstScope n : Nat) : ScopeRun :=
  let q := seekScopesC buf (buf.length + 2) n firstScope
  { q with steps := 1 + q.steps }

end Embit.Model.ViewCost
