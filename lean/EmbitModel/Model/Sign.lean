import EmbitModel.Basic.Bytes
/-
  Model of the decision logic of `PSBT.sign_with` / `PSBTView.sign_input` (which flag to sign with, or skip) and of
  `PSBT.sighash` / `PSBTView.sighash` (which digest algorithm and script code an input gets).
-/
namespace Embit.Model

/-- lines "required_sighash … continue" of `sign_with`: `some flag` = sign with this flag, `none` = skip the input.
    `authorised` is the caller's `sighash` argument (None = whatever the PSBT requests), `inpSighash` the input's
    PSBT_IN_SIGHASH_TYPE. -/
def signPolicy (authorised : Option Nat) (inpSighash : Option Nat) (taproot : Bool) : Option Nat :=
  -- SIGHASH.DEFAULT is only for taproot, fallback to SIGHASH.ALL for other inputs
  let required : Option Nat := match authorised with
    | some r => if !taproot && r = 0 then some 1 else some r
    | none => none
  -- inp_sighash = inp.sighash_type; if None: required_sighash or DEFAULT
  let inp0 : Nat := match inpSighash with
    | some f => f
    | none => match required with
      | some r => r      -- (`r or 0` = r)
      | none => 0
  let inp : Nat := if !taproot && inp0 = 0 then 1 else inp0
  match required with
  | some r =>
    if inp ≠ r && (!(inp = 0 || inp = 1) || !(r = 0 || r = 1)) then none else some inp
  | none => some inp

inductive Algo | legacy | segwit | taproot
deriving DecidableEq, Repr

/-- `Script.script_type` -/
def scriptType (d : Bytes) : Option String :=
  if d.length = 25 && d.take 3 = [0x76, 0xa9, 0x14] && d.drop 23 = [0x88, 0xac] then some "p2pkh"
  else if d.length = 23 && d.take 2 = [0xa9, 0x14] && d.drop 22 = [0x87] then some "p2sh"
  else if d.length = 22 && d.take 2 = [0x00, 0x14] then some "p2wpkh"
  else if d.length = 34 && d.take 2 = [0x00, 0x20] then some "p2wsh"
  else if d.length = 34 && d.take 2 = [0x51, 0x20] then some "p2tr"
  else none

/-- Python truthiness of an optional `Script` (`__len__`) -/
def truthy (s : Option Bytes) : Bool := match s with | some b => !b.isEmpty | none => false

/-- `PSBT.sighash` dispatch: algorithm and script code -/
def sighashDispatch (spk : Bytes) (witnessScript redeemScript : Option Bytes) (hasWitnessUtxo : Bool) :
    Algo × Bytes :=
  if scriptType spk = some "p2tr" then (Algo.taproot, spk) else
  let sc : Bytes := if truthy witnessScript then witnessScript.getD [] else
                    if truthy redeemScript then redeemScript.getD [] else spk
  let segTy (t : Option String) : Bool := t = some "p2wpkh" || t = some "p2wsh"
  let isSegwit : Bool := truthy witnessScript || hasWitnessUtxo || segTy (scriptType spk)
    || (truthy redeemScript && segTy (scriptType (redeemScript.getD [])))
  -- convert to p2pkh according to bip143: b"\x76\xa9" + sc.serialize()[2:] + b"\x88\xac"
  let sc' : Bytes := if scriptType sc = some "p2wpkh" then [0x76, 0xa9] ++ sc.drop 1 ++ [0x88, 0xac] else sc
  (if isSegwit then Algo.segwit else Algo.legacy, sc')

end Embit.Model
