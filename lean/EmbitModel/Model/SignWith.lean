import EmbitModel.Model.Psbt
import EmbitModel.Model.Sign
/-
  Model of `PSBT.sign_with(root, sighash)` (psbt.py) over the model `Psbt`, following the code after the fixes
  `c02x-01` (commit 0b9895a: a derivation entry of a non-taproot input must name the derived public key itself, not only a
  key with the same x coordinate) and `fixes/c02x-02` (the counter counts every slot `(input, key[, leaf])` a signature
  is filed under ONCE per call: the set `signed` of slots written so far is threaded through the call; whether the slot
  held a signature before the call does not matter — the repo's tests pin that).

  * `PSBT.sighash(i, sighash, **kwargs)`                         → `psbtSighash`
  * `PSBT.sign_input_with_tapkey(key, i, inp, sighash)`            → `signTapKey` / `signLeaves`
  * the body of the `for i, inp in enumerate(self.inputs)` loop    → `signInput` (`matchingDerivs`, `derivedPairs`,
                                                                      `signEcdsaRoot`, `signEcdsaDerived`, `signTapAll`)
  * `sign_with` for one key / for a descriptor (`root.keys`)      → `signSingle` / `signWith`

  BIP32 derivation, public-key computation, hashes, the taproot tweak and both signing algorithms are PARAMETERS
  (`Ops`). Python iterates over two `set`s (`bip32_derivations`, `derived_keypairs`); the iteration order of a set is
  unspecified, so the model takes the order as a parameter too (`orderD`, `orderK` — any permutation of the
  de-duplicated list). Dict-valued fields are association lists in insertion order; `d[k] = v` keeps the position of an
  existing key (`setKV`).

  Besides the new PSBT and the counter the model returns a ghost trace of the writes it performed (`Write`): the
  property theorems are stated about the resulting PSBT and the counter; the trace is what links them. The set `signed`
  is modelled by the list of slots written so far (`seen`).

  Preconditions (type level, not modelled): the signer is an `ec.PrivateKey`, a private `bip32.HDKey`, a descriptor
  `Key` or a `Descriptor`; x-only keys returned by `secOf` have 32 bytes (the flat key `xonly ‖ leaf_hash` of
  `taproot_sigs` is the tuple `(pub, leaf)` of the code).
-/
namespace Embit.Model.SignWith
open Embit Embit.Model

/-- the cryptographic environment: everything `sign_with` calls and does not compute itself -/
structure Ops (HD : Type) where
  /-- SHA-256 (signature hashes, tagged hashes) -/
  sha : Bytes → Bytes
  /-- `hashes.hash160` -/
  hash160 : Bytes → Bytes
  /-- `ec.PrivateKey(secret, compressed).sec()` -/
  secOf : Bytes → Bool → Bytes
  /-- `HDKey.derive(path)`; `none` = raises -/
  derive : HD → List Nat → Option HD
  /-- `hdkey.key` of a private HDKey, as its 32-byte secret -/
  hdSecret : HD → Bytes
  /-- `HDKey.my_fingerprint` -/
  hdFingerprint : HD → Bytes
  /-- `PrivateKey.taproot_tweak(h)` (secret ↦ tweaked secret); `none` = raises -/
  tapTweak : Bytes → Bytes → Option Bytes
  /-- `PrivateKey.sign(h).serialize()` (DER, grinding included); `none` = raises -/
  ecdsaSign : Bytes → Bytes → Option Bytes
  /-- `PrivateKey.schnorr_sign(h).serialize()`; `none` = raises -/
  schnorrSign : Bytes → Bytes → Option Bytes
  /-- iteration order of the set `bip32_derivations` -/
  orderD : List (Bytes × Deriv) → List (Bytes × Deriv)
  /-- iteration order of the set `derived_keypairs` -/
  orderK : List (Bytes × Bytes) → List (Bytes × Bytes)

/-- what `root` can be (one key) -/
inductive Single (HD : Type) where
  /-- `ec.PrivateKey`, or a descriptor `Key` wrapping one (`root = root.key`) -/
  | wif (secret : Bytes) (compressed : Bool)
  /-- a private `bip32.HDKey` -/
  | hd (root : HD)
  /-- a descriptor `Key` wrapping a private HDKey, with its origin `[fingerprint/path]` if any -/
  | keyHd (root : HD) (origin : Option (Bytes × List Nat))
  /-- a descriptor `Key` that is not private -/
  | keyPub

inductive Signer (HD : Type) where
  | single (s : Single HD)
  /-- a `Descriptor`: `root.keys` -/
  | descriptor (keys : List (Single HD))

/-- the three places a signature can be written to -/
inductive Slot where
  /-- `partial_sigs[pub]`, `pub` as SEC bytes -/
  | partialSig (pub : Bytes)
  /-- `taproot_sigs[(pub, leaf)]`, as `xonly ‖ leaf_hash` -/
  | tapScriptSig (key : Bytes)
  /-- `final_scriptwitness = Witness([sig])` -/
  | tapKeySig
deriving DecidableEq, Repr

/-- a write: input number, slot, value -/
abbrev Write := Nat × Slot × Bytes

variable {HD : Type}

/-! ### small helpers -/

/-- Python `pat in s` on bytes -/
def isInfix (pat : Bytes) : Bytes → Bool
  | [] => pat.isEmpty
  | c :: r => pat.isPrefixOf (c :: r) || isInfix pat r

/-- `set(...)`: one representative per value -/
def dedup {α : Type} [DecidableEq α] : List α → List α
  | [] => []
  | x :: r => if x ∈ r then dedup r else x :: dedup r

/-- `d[k] = v` on an insertion-ordered dict -/
def setKV (k v : Bytes) : List (Bytes × Bytes) → List (Bytes × Bytes)
  | [] => [(k, v)]
  | (k', v') :: r => if k = k' then (k', v) :: r else (k', v') :: setKV k v r

/-- `count_slot(signed, slot)`: 1 unless this call filed a signature under the slot already (`seen`) -/
def countSlot {α : Type} [DecidableEq α] (seen : List α) (sl : α) : Nat := if sl ∈ seen then 0 else 1

/-- `sec()[1:33]` -/
def xonlyOfSec (sec : Bytes) : Bytes := (sec.drop 1).take 32

/-- the compressed encoding of the point a (valid) SEC encoding denotes: `ec.PublicKey(pub._point).sec()` -/
def compressSec (sec : Bytes) : Bytes :=
  if sec.length = 65 then (if (sec.getLast?.getD 0).toNat % 2 = 0 then 0x02 else 0x03) :: (sec.drop 1).take 32
  else sec

/-- the sighash flag as appended to an ECDSA signature: `bytes([inp_sighash])` -/
def flagByte (f : Nat) : Bytes := [UInt8.ofNat f]

/-- the sighash flag as appended to a Schnorr signature: omitted for DEFAULT -/
def flagSuffix (f : Nat) : Bytes := if f ≠ 0 then [UInt8.ofNat f] else []

/-- `inp.is_taproot` (given `inp.utxo`) -/
def isTaprootSpk (spk : Bytes) : Bool := scriptType spk = some "p2tr"

/-- `inp.witness_script or inp.redeem_script or inp.utxo.script_pubkey` -/
def scriptOf (s : InScope) (spk : Bytes) : Bytes :=
  if truthy s.witnessScript then s.witnessScript.getD [] else
  if truthy s.redeemScript then s.redeemScript.getD [] else spk

def Psbt.setInput (p : Psbt) (i : Nat) (s : InScope) : Psbt := { p with inputs := p.inputs.set i s }

/-! ### `PSBT.sighash` -/

/-- `PSBT.sighash(i, sighash)` / `PSBT.sighash(i, sighash, ext_flag=1, script=…, leaf_version=…)`:
    `leaf = some (script, leaf_version)` for a script-path signature -/
def psbtSighash (sha : Bytes → Bytes) (p : Psbt) (i f : Nat) (leaf : Option (Bytes × Nat)) : Option Bytes :=
  match p.inputs[i]? with
  | none => none
  | some inp =>
    match inp.utxo with
    | none => none
    | some u =>
      match p.tx with
      | none => none
      | some t =>
        if isTaprootSpk u.spk then
          match optAll (p.inputs.map InScope.utxo) with
          | none => none
          | some us =>
            match leaf with
            | none => sighashTaproot sha t i (us.map (·.spk)) (us.map (·.value)) f 0 none none 0xC0 none
            | some (script, lv) =>
              sighashTaproot sha t i (us.map (·.spk)) (us.map (·.value)) f 1 none (some script) lv none
        else
          match leaf with
          | some _ => none          -- unexpected keyword arguments for sighash_segwit / sighash_legacy
          | none =>
            match sighashDispatch u.spk inp.witnessScript inp.redeemScript inp.witnessUtxo.isSome with
            | (Algo.segwit, sc) => sighashSegwit sha t i sc u.value f
            | (_, sc) => sighashLegacy sha t i sc f

/-! ### the signer -/

/-- the secret `root` itself signs with (`root.key if hasattr(root, "origin") else root`) -/
def Single.secret (O : Ops HD) : Single HD → Bytes
  | .wif s _ => s
  | .hd r => O.hdSecret r
  | .keyHd r _ => O.hdSecret r
  | .keyPub => []

/-- the `compressed` attribute of that key (HD keys are always compressed) -/
def Single.compressed : Single HD → Bool
  | .wif _ c => c
  | _ => true

/-- `fingerprint` after the prelude of `sign_with` -/
def Single.fingerprint (O : Ops HD) : Single HD → Option Bytes
  | .wif _ _ => none
  | .hd r => some (O.hdFingerprint r)
  | .keyHd r origin =>
    -- `root.fingerprint`: the origin's, else the key's own; `if not fingerprint and hasattr(root, "my_fingerprint")`
    let fp0 := match origin with | some (f, _) => f | none => O.hdFingerprint r
    some (if fp0.isEmpty then O.hdFingerprint r else fp0)
  | .keyPub => none

/-- the derivation step for one matching entry: `none` = raises, `some none` = `continue` (the origin path is not a
    prefix), `some (some k)` = the derived key -/
def Single.deriveFor (O : Ops HD) : Single HD → List Nat → Option (Option HD)
  | .hd r, der => (O.derive r der).map some
  | .keyHd r (some (_, opath)), der =>
    if opath ≠ der.take opath.length then some none
    else (O.derive r (der.drop opath.length)).map some
  | .keyHd r none, der => (O.derive r der).map some
  | _, _ => some none

/-- `bip32_derivations` before it becomes a set: taproot derivations first (`pub` = `from_xonly` = `02 ‖ x`), then the
    segwit / legacy ones, each filtered by the fingerprint -/
def matchingDerivs (s : InScope) (fp : Bytes) : List (Bytes × Deriv) :=
  (s.tapBip32.filter (fun e => e.2.2.fingerprint = fp)).map (fun e => (0x02 :: e.1, e.2.2))
  ++ s.bip32.filter (fun e => e.2.fingerprint = fp)

/-- the check on a derived key (after fix c02x-01): taproot inputs compare x-only keys, other inputs the point -/
def keyMatches (O : Ops HD) (taproot : Bool) (secret pub : Bytes) : Bool :=
  if taproot then xonlyOfSec (O.secOf secret true) = xonlyOfSec pub
  else O.secOf secret true = compressSec pub

/-- `derived_keypairs` before it becomes a set: `(secret, pub)`; `none` = raises -/
def derivedPairs (O : Ops HD) (sg : Single HD) (taproot : Bool) : List (Bytes × Deriv) → Option (List (Bytes × Bytes))
  | [] => some []
  | (pub, d) :: r =>
    match sg.deriveFor O d.path with
    | none => none
    | some none => derivedPairs O sg taproot r
    | some (some k) =>
      if !keyMatches O taproot (O.hdSecret k) pub then none      -- "Derivation path doesn't look right"
      else match derivedPairs O sg taproot r with
        | none => none
        | some l => some ((O.hdSecret k, pub) :: l)

/-- per-scope result: new scope, counter increment, writes (slot, value) -/
abbrev Res := InScope × Nat × List (Slot × Bytes)

/-- the digest as a function of the current state of the scope being signed -/
abbrev Digest := InScope → Nat → Option (Bytes × Nat) → Option Bytes

/-! ### taproot -/

/-- the loop `for ctrl, sc in inp.taproot_scripts.items()` of `sign_input_with_tapkey`; `seen` = slots of this input the
    call has filed a signature under so far -/
def signLeaves (O : Ops HD) (dg : Digest) (sk : Bytes) (f : Nat) (xo : Bytes) :
    List Slot → List (Bytes × Bytes) → InScope → Option Res
  | _, [], s => some (s, 0, [])
  | seen, (_, sc) :: r, s =>
    if !isInfix xo sc then signLeaves O dg sk f xo seen r s else
    match sc.getLast? with
    | none => none                                  -- sc[-1]
    | some lv =>
      let script := sc.dropLast
      match dg s f (some (script, lv.toNat)) with
      | none => none
      | some h =>
        match O.schnorrSign sk h with
        | none => none
        | some sig =>
          let leaf := taggedHash O.sha "TapLeaf" ([lv] ++ scriptSer script)
          let v := sig ++ flagSuffix f
          let sl := Slot.tapScriptSig (xo ++ leaf)
          match signLeaves O dg sk f xo (seen ++ [sl]) r { s with tapSigs := setKV (xo ++ leaf) v s.tapSigs } with
          | none => none
          | some (s', k, ws) => some (s', countSlot seen sl + k, (sl, v) :: ws)

/-- `sign_input_with_tapkey(key, i, inp, sighash, signed)`; `key` = (secret, compressed) -/
def signTapKey (O : Ops HD) (dg : Digest) (sk : Bytes) (c : Bool) (f : Nat) (seen : List Slot) (s : InScope) :
    Option Res :=
  match s.utxo with
  | none => none
  | some u =>
    if !isTaprootSpk u.spk then some (s, 0, []) else
    match O.tapTweak sk (s.tapMerkleRoot.getD []) with
    | none => none
    | some tsk =>
      if isInfix (xonlyOfSec (O.secOf tsk true)) u.spk then
        match dg s f none with
        | none => none
        | some h =>
          match O.schnorrSign tsk h with
          | none => none
          | some sig =>
            let wit := sig ++ flagSuffix f
            some ({ s with finalWitness := some [wit] }, countSlot seen Slot.tapKeySig, [(Slot.tapKeySig, wit)])
      else signLeaves O dg sk f (xonlyOfSec (O.secOf sk c)) seen s.tapScripts s

/-- `for prv, pub in derived_keypairs: counter += self.sign_input_with_tapkey(prv, …)` -/
def signTapDerived (O : Ops HD) (dg : Digest) (f : Nat) : List Slot → List (Bytes × Bytes) → InScope → Option Res
  | _, [], s => some (s, 0, [])
  | seen, (prv, _) :: r, s =>
    match signTapKey O dg prv true f seen s with
    | none => none
    | some (s1, k1, w1) =>
      match signTapDerived O dg f (seen ++ w1.map Prod.fst) r s1 with
      | none => none
      | some (s2, k2, w2) => some (s2, k1 + k2, w1 ++ w2)

/-! ### legacy and segwit -/

/-- `if sec in sc.data or pkh in sc.data: …` -/
def signEcdsaRoot (O : Ops HD) (sk : Bytes) (c : Bool) (f : Nat) (h sc : Bytes) (seen : List Slot) (s : InScope) :
    Option Res :=
  let rootpub := O.secOf sk c
  if isInfix rootpub sc || isInfix (O.hash160 rootpub) sc then
    match O.ecdsaSign sk h with
    | none => none
    | some sig =>
      let v := sig ++ flagByte f
      some ({ s with partialSigs := setKV rootpub v s.partialSigs }, countSlot seen (Slot.partialSig rootpub),
        [(Slot.partialSig rootpub, v)])
  else some (s, 0, [])

/-- `for prv, pub in derived_keypairs: …` of the non-taproot branch -/
def signEcdsaDerived (O : Ops HD) (rootpub : Bytes) (f : Nat) (h : Bytes) :
    List Slot → List (Bytes × Bytes) → InScope → Option Res
  | _, [], s => some (s, 0, [])
  | seen, (prv, pub) :: r, s =>
    -- already signed above with the same key
    if pub = rootpub && (lookup pub s.partialSigs).isSome then signEcdsaDerived O rootpub f h seen r s else
    match O.ecdsaSign prv h with
    | none => none
    | some sig =>
      let v := sig ++ flagByte f
      let sl := Slot.partialSig pub
      match signEcdsaDerived O rootpub f h (seen ++ [sl]) r { s with partialSigs := setKV pub v s.partialSigs } with
      | none => none
      | some (s', k, ws) => some (s', countSlot seen sl + k, (sl, v) :: ws)

/-! ### one input, one key -/

/-- the body of `for i, inp in enumerate(self.inputs)` of `_sign_with_key` -/
def signInput (O : Ops HD) (sg : Single HD) (auth : Option Nat) (dg : Digest) (seen : List Slot) (s : InScope) :
    Option Res :=
  match s.utxo with
  | none => none                                       -- `inp.is_taproot` on a scope without utxo
  | some u =>
    let tap := isTaprootSpk u.spk
    match signPolicy auth s.sighashType tap with
    | none => some (s, 0, [])
    | some f =>
      let derivs : List (Bytes × Deriv) := match sg.fingerprint O with
        | some fp => if fp.isEmpty then [] else matchingDerivs s fp
        | none => []
      match derivedPairs O sg tap (O.orderD (dedup derivs)) with
      | none => none
      | some kps0 =>
        let kps := O.orderK (dedup kps0)
        if tap then
          match signTapKey O dg (sg.secret O) sg.compressed f seen s with
          | none => none
          | some (s1, k1, w1) =>
            match signTapDerived O dg f (seen ++ w1.map Prod.fst) kps s1 with
            | none => none
            | some (s2, k2, w2) => some (s2, k1 + k2, w1 ++ w2)
        else
          match dg s f none with
          | none => none
          | some h =>
            let sc := scriptOf s u.spk
            match signEcdsaRoot O (sg.secret O) sg.compressed f h sc seen s with
            | none => none
            | some (s1, k1, w1) =>
              match signEcdsaDerived O (O.secOf (sg.secret O) sg.compressed) f h (seen ++ w1.map Prod.fst) kps s1 with
              | none => none
              | some (s2, k2, w2) => some (s2, k1 + k2, w1 ++ w2)

/-- the slots of input `i` in the set `signed` of the call -/
def slotsOf (G : List (Nat × Slot)) (i : Nat) : List Slot :=
  G.filterMap (fun e => if e.1 = i then some e.2 else none)

/-- the slot a write goes to -/
def Write.slot (w : Write) : Nat × Slot := (w.1, w.2.1)

/-- the loop over the inputs `idxs` (= `range(len(self.inputs))`), threading the set `signed` (`G`), the PSBT, the counter
    and the trace -/
def signInputs (O : Ops HD) (sg : Single HD) (auth : Option Nat) :
    List Nat → List (Nat × Slot) → Psbt → Option (Psbt × Nat × List Write)
  | [], _, p => some (p, 0, [])
  | i :: is, G, p =>
    match p.inputs[i]? with
    | none => none
    | some s =>
      match signInput O sg auth (fun s' f leaf => psbtSighash O.sha (Psbt.setInput p i s') i f leaf) (slotsOf G i) s with
      | none => none
      | some (s', k, ws) =>
        match signInputs O sg auth is (G ++ ws.map (fun w => (i, w.1))) (Psbt.setInput p i s') with
        | none => none
        | some (p', k', ws') => some (p', k + k', ws.map (fun w => (i, w)) ++ ws')

/-- `_sign_with_key(root, sighash, signed)` -/
def signSingle (O : Ops HD) (sg : Single HD) (auth : Option Nat) (G : List (Nat × Slot)) (p : Psbt) :
    Option (Psbt × Nat × List Write) :=
  match sg with
  | .keyPub => some (p, 0, [])                        -- "pubkey can't sign"
  | _ => signInputs O sg auth (List.range p.inputs.length) G p

/-- `for k in root.keys: if k.is_private: counter += self._sign_with_key(k, sighash, signed)` -/
def signKeys (O : Ops HD) (auth : Option Nat) : List (Single HD) → List (Nat × Slot) → Psbt → Option (Psbt × Nat × List Write)
  | [], _, p => some (p, 0, [])
  | k :: ks, G, p =>
    match signSingle O k auth G p with
    | none => none
    | some (p1, n1, w1) =>
      match signKeys O auth ks (G ++ w1.map Write.slot) p1 with
      | none => none
      | some (p2, n2, w2) => some (p2, n1 + n2, w1 ++ w2)

/-- the keys a signer signs with -/
def Signer.keys : Signer HD → List (Single HD)
  | .single sg => [sg]
  | .descriptor ks => ks

/-- `PSBT.sign_with(root, sighash)` (`signed = set()`): the new PSBT, the returned counter, the ghost trace -/
def signWith (O : Ops HD) (signer : Signer HD) (auth : Option Nat) (p : Psbt) : Option (Psbt × Nat × List Write) :=
  match signer with
  | .single sg => signSingle O sg auth [] p
  | .descriptor keys => signKeys O auth keys [] p

end Embit.Model.SignWith
