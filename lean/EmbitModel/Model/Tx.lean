import EmbitModel.Basic.Parse
/-
  Model of embit `transaction.py` (Transaction / TransactionInput / TransactionOutput codecs),
  `script.py` (Script / Witness codecs). Follows the code after the C03 `fix:` commit
  (exact reads, canonical CompactSize, superfluous-witness rejection).
-/
namespace Embit

structure TxIn where
  txid : Bytes          -- as stored by embit: reversed wire order
  vout : Nat
  scriptSig : Bytes
  sequence : Nat
  witness : List Bytes
deriving DecidableEq, Repr, Inhabited

structure TxOut where
  value : Nat
  spk : Bytes
deriving DecidableEq, Repr, Inhabited

structure Tx where
  version : Nat
  vin : List TxIn
  vout : List TxOut
  locktime : Nat
deriving DecidableEq, Repr, Inhabited

namespace Model

/-- `Script.write_to` -/
def scriptSer (d : Bytes) : Bytes := Compact.enc d.length ++ d

/-- `Script.read_from` -/
def scriptRead : Parser Bytes := fun b =>
  match Compact.read b with
  | some (l, r) => takeN l r
  | none => none

/-- `Witness.write_to` -/
def witnessSer (items : List Bytes) : Bytes :=
  Compact.enc items.length ++ items.flatMap scriptSer

/-- `Witness.read_from` -/
def witnessRead : Parser (List Bytes) := fun b =>
  match Compact.read b with
  | some (n, r) => readMany scriptRead n r
  | none => none

/-- `TransactionInput.is_segwit`: `not (self.witness.serialize() == b"\x00")` -/
def TxIn.isSegwit (i : TxIn) : Bool := witnessSer i.witness != [0]

/-- `TransactionInput.write_to` with default arguments -/
def TxIn.ser (i : TxIn) : Bytes :=
  i.txid.reverse ++ leN 4 i.vout ++ scriptSer i.scriptSig ++ leN 4 i.sequence

/-- `TransactionInput.read_from` -/
def TxIn.read : Parser TxIn := fun b =>
  match takeN 32 b with
  | none => none
  | some (t, r1) =>
    match readLe 4 r1 with
    | none => none
    | some (vout, r2) =>
      match scriptRead r2 with
      | none => none
      | some (ss, r3) =>
        match readLe 4 r3 with
        | none => none
        | some (sq, r4) =>
          some ({ txid := t.reverse, vout := vout, scriptSig := ss, sequence := sq, witness := [] }, r4)

def TxOut.ser (o : TxOut) : Bytes := leN 8 o.value ++ scriptSer o.spk

def TxOut.read : Parser TxOut := fun b =>
  match readLe 8 b with
  | none => none
  | some (v, r1) =>
    match scriptRead r1 with
    | none => none
    | some (s, r2) => some ({ value := v, spk := s }, r2)

/-- `Transaction.is_segwit` -/
def Tx.isSegwit (t : Tx) : Bool := t.vin.any TxIn.isSegwit

/-- `Transaction.write_to` -/
def Tx.ser (t : Tx) : Bytes :=
  leN 4 t.version
  ++ (if Tx.isSegwit t then [0, 1] else [])
  ++ Compact.enc t.vin.length ++ t.vin.flatMap TxIn.ser
  ++ Compact.enc t.vout.length ++ t.vout.flatMap TxOut.ser
  ++ (if Tx.isSegwit t then t.vin.flatMap (fun i => witnessSer i.witness) else [])
  ++ leN 4 t.locktime

/-- the pre-image `Transaction.hash` feeds to SHA-256d -/
def Tx.hashPreimage (t : Tx) : Bytes :=
  leN 4 t.version
  ++ Compact.enc t.vin.length ++ t.vin.flatMap TxIn.ser
  ++ Compact.enc t.vout.length ++ t.vout.flatMap TxOut.ser
  ++ leN 4 t.locktime

def Tx.hash (sha : Bytes → Bytes) (t : Tx) : Bytes := sha (sha (Tx.hashPreimage t))
def Tx.txid (sha : Bytes → Bytes) (t : Tx) : Bytes := (Tx.hash sha t).reverse

/-- `inp.witness = Witness.read_from(stream)` for every input, in order -/
def setWitnesses : List TxIn → List (List Bytes) → List TxIn
  | i :: is, w :: ws => { i with witness := w } :: setWitnesses is ws
  | is, _ => is

/-- `Transaction.read_from` -/
def Tx.read : Parser Tx := fun b =>
  match readLe 4 b with
  | none => none
  | some (ver, r1) =>
    match Compact.read r1 with
    | none => none
    | some (n0, r2) =>
      if n0 = 0 then
        -- segwit marker was read as a zero input count; next byte is the flag
        match takeN 1 r2 with
        | none => none
        | some (flag, r3) =>
          if flag ≠ [1] then none else
          match Compact.read r3 with
          | none => none
          | some (n, r4) =>
            match readMany TxIn.read n r4 with
            | none => none
            | some (vin, r5) =>
              match Compact.read r5 with
              | none => none
              | some (m, r6) =>
                match readMany TxOut.read m r6 with
                | none => none
                | some (vout, r7) =>
                  match readMany witnessRead vin.length r7 with
                  | none => none
                  | some (wits, r8) =>
                    let vin' := setWitnesses vin wits
                    if !(vin'.any TxIn.isSegwit) then none else
                    match readLe 4 r8 with
                    | none => none
                    | some (lt, r9) =>
                      some ({ version := ver, vin := vin', vout := vout, locktime := lt }, r9)
      else
        match readMany TxIn.read n0 r2 with
        | none => none
        | some (vin, r5) =>
          match Compact.read r5 with
          | none => none
          | some (m, r6) =>
            match readMany TxOut.read m r6 with
            | none => none
            | some (vout, r7) =>
              match readLe 4 r7 with
              | none => none
              | some (lt, r9) =>
                some ({ version := ver, vin := vin, vout := vout, locktime := lt }, r9)

/-- `EmbitBase.parse`: `read_from` then "Unexpected extra bytes" -/
def parseAll {α : Type} (p : Parser α) (b : Bytes) : Option α :=
  match p b with
  | some (x, []) => some x
  | _ => none

def Tx.parse (b : Bytes) : Option Tx := parseAll Tx.read b

end Model
end Embit
