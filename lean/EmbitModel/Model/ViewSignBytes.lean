import EmbitModel.Model.ViewSighash
import EmbitModel.Model.SignWithView
/-
  BYTE-LEVEL model of `PSBTView.sign_with(root, sig_stream, sighash)` (psbtview.py, after fix `c02x-03`): unlike
  `SignWith.viewSignWith` (Model/SignWithView.lean), which takes the PARSED `Psbt` and the in-memory digest, this model
  works on the byte stream `buf` and the opened view `v` (Model/View.lean) in the view's own compress mode `vc`:

  * `sign_with`:   `for i in range(self.num_inputs): counter += self.sign_input(i, …); sig_stream.write(b"\x00")`
                                                                                        → `View.signFrom` / `View.signWith`
  * `sign_input`:  index check, `inp = self.input(i)` (scope READ FROM THE STREAM at its offset, mode `self.compress`),
                   the private keys sign that one scope object (`_sign_scope` = the loop body `SignWith.signInput`, same
                   text as psbt.py), signature fields written with `ser_string`          → `View.signInput`
  * digests:       `_sign_scope` (non-taproot) calls `self.sighash(i, sighash=inp_sighash, input_scope=inp)` — the view's
                   STREAMING `sighash_segwit` / `sighash_legacy` over offsets, dispatch on the scope object being signed
                   (`View.sighashWith`);
                   `sign_input_with_tapkey` calls `self.sighash(input_index, sighash=…[, ext_flag=1, script=…,
                   leaf_version=…])` WITHOUT `input_scope`: the scope is read from the stream again and all scopes are
                   read for amounts / scriptPubKeys (`View.sighash`)                      → `SignWith.viewDigest`
  Which of the two call sites is reached is decided by `inp.is_taproot` of the scope read from the stream (`signInput`
  branches on it before any digest is asked for; signing writes signature fields only).
  `extra_scope_data` is `None` in `sign_with` and not modelled. `none` = the Python call raises.
-/
namespace Embit.Model.SignWith
open Embit Embit.Model

variable {HD : Type}

/-- the keyword arguments the signing code passes to `sighash`: none for key-path / ECDSA digests,
    `ext_flag=1, script=script, leaf_version=leaf_version` for a leaf -/
def extraOf : Option (Bytes × Nat) → TapExtra
  | none => {}
  | some (script, lv) => { extFlag := 1, script := some script, leafVer := lv }

/-- the digest calls made while the scope `s` (as read from the stream) of input `i` is signed -/
def viewDigest (ko : KeyOps) (O : Ops HD) (buf : Bytes) (v : View) (vc : Nat) (i : Nat) (s : InScope) : Digest :=
  match s.utxo with
  | none => fun _ _ _ => none                    -- `inp.is_taproot` raises before any digest is asked for
  | some u =>
    if isTaprootSpk u.spk then
      -- sign_input_with_tapkey: `self.sighash(input_index, sighash=sighash, **leaf kwargs)` — scope re-read from the stream
      fun _ f leaf => View.sighash ko O.sha buf v vc i f (extraOf leaf)
    else
      -- _sign_scope: `self.sighash(i, sighash=inp_sighash, input_scope=inp)` on the scope object being signed
      fun s' f _ => View.sighashWith ko O.sha buf v vc i f {} s'

end Embit.Model.SignWith

namespace Embit.Model
open Embit.Model.SignWith

variable {HD : Type}

/-- `PSBTView.sign_input(i, root, sig_stream, sighash)`: bytes written to `sig_stream`, returned counter -/
def View.signInput (ko : KeyOps) (O : Ops HD) (keys : List (Single HD)) (auth : Option Nat) (buf : Bytes) (v : View)
    (vc : Nat) (i : Nat) : Option (Bytes × Nat) :=
  if i ≥ v.numIn then none else                  -- "Invalid input number"
  match View.input ko O.sha buf v i vc with      -- inp = self.input(i)
  | none => none
  | some s =>
    match viewSignInput O keys auth (viewDigest ko O buf v vc i s) s with
    | none => none
    | some (b, _, n, _) => some (b, n)

/-- `for i in range(self.num_inputs)`, starting at input `i` with `n` inputs to go: each input's signature fields followed
    by the separator `00` -/
def View.signFrom (ko : KeyOps) (O : Ops HD) (keys : List (Single HD)) (auth : Option Nat) (buf : Bytes) (v : View)
    (vc : Nat) : Nat → Nat → Option (Bytes × Nat)
  | _, 0 => some ([], 0)
  | i, n + 1 =>
    match View.signInput ko O keys auth buf v vc i with
    | none => none
    | some (b, k) =>
      match View.signFrom ko O keys auth buf v vc (i + 1) n with
      | none => none
      | some (b', k') => some (b ++ [0x00] ++ b', k + k')

/-- `PSBTView.sign_with(root, sig_stream, sighash)`: everything written to `sig_stream`, the returned counter -/
def View.signWith (ko : KeyOps) (O : Ops HD) (signer : Signer HD) (auth : Option Nat) (buf : Bytes) (v : View)
    (vc : Nat) : Option (Bytes × Nat) :=
  View.signFrom ko O signer.keys auth buf v vc 0 v.numIn

end Embit.Model
