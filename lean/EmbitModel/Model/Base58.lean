import EmbitModel.Basic.Bytes
/-
  Model of embit `base58.py` (encode / decode / encode_check / decode_check), branch for branch.
  Python `str` is modelled as `List Char`. The double SHA-256 is a parameter (`dsha`).
  Mathlib-free and executable.
-/
namespace Embit.Model.Base58

/-- `B58_DIGITS` -/
def digits : List Char := "123456789ABCDEFGHJKLMNPQRSTUVWXYZabcdefghijkmnopqrstuvwxyz".toList

/-- `B58_DIGITS[r]` for `r < 58` -/
def digitChar (r : Nat) : Char := digits.getD r '1'

/-- `B58_DIGITS.index(c)` guarded by `c not in B58_DIGITS` (→ `none`, Python raises ValueError) -/
def digitVal (c : Char) : Option Nat :=
  match digits.idxOf? c with
  | some i => some i
  | none => none

/-- the `while n > 0: n, r = divmod(n, 58); chars.append(B58_DIGITS[r])` loop: least significant first -/
def loopChars (n : Nat) : List Char :=
  if h : n = 0 then [] else digitChar (n % 58) :: loopChars (n / 58)
termination_by n
decreasing_by omega

/-- `pad`: number of leading zero bytes -/
def leadingZeros : Bytes → Nat
  | [] => 0
  | c :: rest => if c = 0 then leadingZeros rest + 1 else 0

/-- `base58.encode(b)`; `int("0x0" + hexlify(b), 16)` is the big-endian value of `b` -/
def encode (b : Bytes) : List Char :=
  let n := ofBe b
  let result := (loopChars n).reverse
  List.replicate (leadingZeros b) '1' ++ result

/-- `for c in s: n *= 58; …; n += digit` -/
def accumulate : Nat → List Char → Option Nat
  | n, [] => some n
  | n, c :: cs =>
    match digitVal c with
    | none => none
    | some d => accumulate (n * 58 + d) cs

/-- big-endian bytes of `n` without leading zero bytes (`[]` for 0), least significant byte first -/
def minBytesLE (n : Nat) : Bytes :=
  if h : n = 0 then [] else UInt8.ofNat (n % 256) :: minBytesLE (n / 256)
termination_by n
decreasing_by omega

/-- `unhexlify(("%x" % n) padded to even length)`: minimal big-endian bytes, but one zero byte for 0 -/
def hexBytes (n : Nat) : Bytes := if n = 0 then [0] else (minBytesLE n).reverse

/-- number of leading `'1'` characters -/
def leadingOnes : List Char → Nat
  | [] => 0
  | c :: rest => if c = '1' then leadingOnes rest + 1 else 0

/-- `base58.decode(s)`; `none` = ValueError. The padding loop runs over `s[:-1]`. -/
def decode (s : List Char) : Option Bytes :=
  if s.isEmpty then some [] else
  match accumulate 0 s with
  | none => none
  | some n =>
    let res := hexBytes n
    let pad := leadingOnes s.dropLast
    some (List.replicate pad 0 ++ res)

/-- `encode_check(b)`: `encode(b + double_sha256(b)[0:4])` -/
def encodeCheck (dsha : Bytes → Bytes) (b : Bytes) : List Char :=
  encode (b ++ (dsha b).take 4)

/-- `decode_check(s)`: Python slices `b[:-4]`, `b[-4:]` (shorter inputs give `b""` / all of `b`) -/
def decodeCheck (dsha : Bytes → Bytes) (s : List Char) : Option Bytes :=
  match decode s with
  | none => none
  | some b =>
    let body := b.take (b.length - 4)
    let tail := b.drop (b.length - 4)
    let checksum := (dsha body).take 4
    if tail ≠ checksum then none else some body

end Embit.Model.Base58
