import EmbitModel.Basic.Ms
import EmbitModel.Basic.Compact
import EmbitModel.Generated.MiniscriptTable
/-
  Model of embit `descriptor/miniscript.py` (+ `Number`, `Key`, `KeyHash`, `Raw32`, `Raw20` of
  `descriptor/arguments.py`, the top-level checks of `Descriptor.__init__` and `TapLeaf.__init__`).

  Follows the code AFTER the C13 `fix:` patches (fixes/*.diff):
    andor/and_n demand d AND u of X · `t:` checks its argument is V · multi ≤ MAX_KEYS keys ·
    multi_a PROPS = "du" · tap-leaf miniscripts are verified · `Multi.__len__`, `Key.__len__` exact.
  Static class attributes (TYPE, PROPS, `_expected_taproot`, MAX_KEYS) are NOT written here: they come from
  `Generated/MiniscriptTable.lean`, re-extracted from the loaded module on every run.

  Every rule function below is the body of one Python method; the recursion (`super().verify()` over the
  arguments, `arg.compile()`, `len(arg)`) lives in the `mutual` blocks. Exceptions = `false` / rejection.
-/
namespace Embit.Model.Miniscript
open Embit.Miniscript

/-! ### arguments.py -/

/-- `bytes.rstrip(b"\x00")` -/
def rstrip0 : Bytes → Bytes
  | [] => []
  | x :: xs =>
    let r := rstrip0 xs
    if r.isEmpty && x == 0 then [] else x :: r

/-- `Number.compile` (`int.to_bytes(32, "little")` raises for n ≥ 2^256: outside the modelled domain) -/
def numCompile (n : Nat) : Bytes :=
  if n = 0 then [0x00]
  else if n ≤ 16 then [UInt8.ofNat (80 + n)]
  else
    let b := rstrip0 (leN 32 n)
    let b := match b.getLast? with
      | some l => if l.toNat ≥ 128 then b ++ [0x00] else b
      | none => b   -- `b[-1]` on empty bytes raises; unreachable for 16 < n < 2^256
    UInt8.ofNat b.length :: b

/-- `Key.compile` / `KeyHash.compile` / `Raw.compile`: `compact.to_bytes(len(d)) + d` -/
def pushCompact (d : Bytes) : Bytes := Compact.enc d.length ++ d

/-! ### per-class rule bodies (no recursion) -/

def isBKV (t : Ty) : Bool := t == .B || t == .K || t == .V

/-- `AndOr.verify` after `super().verify()` -/
def andorVerify (tx : Ty) (px : Props) (ty tz : Ty) : Bool :=
  tx == .B && (px.d && px.u) && ty == tz && isBKV ty

/-- `AndOr.properties` -/
def andorProps (px py pz : Props) : Props :=
  { z := px.z && py.z && pz.z
    o := (px.z && py.o && pz.o) || (px.o && py.z && pz.z)
    u := py.u && pz.u
    d := pz.d
    n := false }

/-- `X.verify` of the two-argument classes after `super().verify()` -/
def binVerify (f : BinFrag) (tx : Ty) (px : Props) (ty : Ty) (py : Props) : Bool :=
  match f with
  | .and_v => tx == .V && isBKV ty
  | .and_b => tx == .B && ty == .W
  | .and_n => tx == .B && (px.d && px.u) && ty == .B
  | .or_b => tx == .B && px.d && ty == .W && py.d
  | .or_c => tx == .B && ty == .V && (px.d && px.u)
  | .or_d => tx == .B && ty == .B && (px.d && px.u)
  | .or_i => tx == ty && isBKV tx

/-- `.type`: the class attribute where `type` is inherited from `Miniscript`, else the override
    (`AndV`, `AndN`: `args[1].type`; `OrI`: `args[0].type`) -/
def binType (f : BinFrag) (tx ty : Ty) : Ty :=
  match Gen.Ms.binStaticType f with
  | some t => t
  | none => match f with
    | .or_i => tx
    | _ => ty

/-- `.properties` of the two-argument classes -/
def binProps (f : BinFrag) (px py : Props) : Props :=
  match f with
  | .and_v =>
    { z := px.z && py.z, o := (px.z && py.o) || (py.z && px.o), n := px.n || (px.z && py.n), u := py.u, d := false }
  | .and_b =>
    { z := px.z && py.z, o := (px.z && py.o) || (py.z && px.o), n := px.n || (px.z && py.n),
      d := px.d && py.d, u := true }
  | .and_n =>
    -- pz = "zud"
    { z := px.z && py.z && true, o := (px.z && py.o && false) || (px.o && py.z && true),
      u := py.u && true, d := true, n := false }
  | .or_b =>
    { z := px.z && py.z, o := (px.z && py.o) || (py.z && px.o), d := true, u := true, n := false }
  | .or_c => { z := px.z && py.z, o := px.o && py.z, n := false, d := false, u := false }
  | .or_d => { z := px.z && py.z, o := px.o && py.z, d := py.d, u := py.u, n := false }
  | .or_i => { o := px.z && py.z, u := px.u && py.u, d := px.d || py.d, z := false, n := false }

/-- `Thresh.verify`, the part after `super().verify()`; `tps` = (type, properties) of `args[1:]` -/
def threshVerify (k : Nat) (tps : List (Ty × Props)) : Bool :=
  !(k < 1 || k ≥ tps.length + 1) &&
  match tps with
  | [] => false        -- `self.args[1]` raises IndexError
  | (t1, p1) :: rest =>
    t1 == .B && (p1.d && p1.u) && rest.all (fun tp => tp.1 == .W && (tp.2.d && tp.2.u))

/-- `Thresh.properties` -/
def threshProps (ps : List Props) : Props :=
  { z := (ps.filter (·.z)).length == ps.length
    o := match ps.filter (fun p => !p.z) with
      | [p] => p.o
      | _ => false
    d := true, u := true, n := false }

/-- `Multi.verify` (inherited by the other three) -/
def multiVerify (f : MultiFrag) (k n : Nat) : Bool :=
  !(k < 1 || k > n) &&
  match Gen.Ms.multiMaxKeys f with
  | some m => !(n > m)
  | none => true      -- class without MAX_KEYS: no such check

/-- `W.verify` of the wrappers after `super().verify()` -/
def wrapVerify (w : Wrap) (tx : Ty) (px : Props) : Bool :=
  match w with
  | .a => tx == .B
  | .s => tx == .B && px.o
  | .c => tx == .K
  | .t => tx == .V
  | .d => tx == .V && px.z
  | .v => tx == .B
  | .j => tx == .B && px.n
  | .n => tx == .B
  | .l => tx == .B
  | .u => tx == .B

/-- `W.properties`; `taproot` is `self.taproot` of the `D` wrapper -/
def wrapProps (taproot : Bool) (w : Wrap) (px : Props) : Props :=
  match w with
  | .a => { d := px.d, u := px.u, z := false, o := false, n := false }
  | .s => { d := px.d, u := px.u, z := false, o := false, n := false }
  | .c => { o := px.o, n := px.n, d := px.d, u := true, z := false }
  | .t =>
    -- py = "zu"
    { z := px.z && true, o := (px.z && false) || (true && px.o), n := px.n || (px.z && false), u := true, d := false }
  | .d => { n := true, d := true, u := taproot, o := px.z, z := false }
  | .v => { z := px.z, o := px.o, n := px.n, d := false, u := false }
  | .j => { n := true, d := true, o := px.o, u := px.u, z := false }
  | .n => { u := true, z := px.z, o := px.o, n := px.n, d := px.d }
  | .l => { d := true, o := px.z, u := px.u, z := false, n := false }
  | .u => { d := true, o := px.z, u := px.u, z := false, n := false }

/-! ### type, properties, verify -/

/-- `.type` -/
def type : Ms → Ty
  | .key f _ => Gen.Ms.keyType f
  | .time f _ => Gen.Ms.timeType f
  | .hash f _ => Gen.Ms.hashType f
  | .andor _ y _ => type y
  | .bin f x y => binType f (type x) (type y)
  | .thresh _ _ => Gen.Ms.threshType
  | .multi f _ _ => Gen.Ms.multiType f
  | .wrap w _ => Gen.Ms.wrapType w

mutual
/-- `.properties` -/
def props (ctx : Ctx) : Ms → Props
  | .key f _ => Gen.Ms.keyProps f
  | .time f _ => Gen.Ms.timeProps f
  | .hash f _ => Gen.Ms.hashProps f
  | .andor x y z => andorProps (props ctx x) (props ctx y) (props ctx z)
  | .bin f x y => binProps f (props ctx x) (props ctx y)
  | .thresh _ xs => threshProps (propsL ctx xs)
  | .multi f _ _ => Gen.Ms.multiProps f
  | .wrap w x => wrapProps (ctx == .tap) w (props ctx x)
def propsL (ctx : Ctx) : List Ms → List Props
  | [] => []
  | x :: xs => props ctx x :: propsL ctx xs
end

/-- (type, properties) of a list of sub-expressions -/
def tpL (ctx : Ctx) : List Ms → List (Ty × Props)
  | [] => []
  | x :: xs => (type x, props ctx x) :: tpL ctx xs

mutual
/-- object construction succeeds: `Multi.__init__` raises unless `taproot is _expected_taproot` -/
def constructible (ctx : Ctx) : Ms → Bool
  | .key _ _ => true
  | .time _ _ => true
  | .hash _ _ => true
  | .andor x y z => constructible ctx x && constructible ctx y && constructible ctx z
  | .bin _ x y => constructible ctx x && constructible ctx y
  | .thresh _ xs => constructibleL ctx xs
  | .multi f _ _ => Gen.Ms.multiTaproot f == (ctx == .tap)
  | .wrap _ x => constructible ctx x
def constructibleL (ctx : Ctx) : List Ms → Bool
  | [] => true
  | x :: xs => constructible ctx x && constructibleL ctx xs
end

mutual
/-- `.verify()` does not raise -/
def verify (ctx : Ctx) : Ms → Bool
  | .key _ _ => true
  | .time _ n => !(n < 1 || n ≥ 0x80000000)
  | .hash _ _ => true
  | .andor x y z =>
    verify ctx x && verify ctx y && verify ctx z && andorVerify (type x) (props ctx x) (type y) (type z)
  | .bin f x y =>
    verify ctx x && verify ctx y && binVerify f (type x) (props ctx x) (type y) (props ctx y)
  | .thresh k xs => verifyL ctx xs && threshVerify k (tpL ctx xs)
  | .multi f k keys => multiVerify f k keys.length
  | .wrap w x => verify ctx x && wrapVerify w (type x) (props ctx x)
def verifyL (ctx : Ctx) : List Ms → Bool
  | [] => true
  | x :: xs => verify ctx x && verifyL ctx xs
end

/-- `Descriptor.from_string("wsh(e)")` / `("tr(KEY,e)")` does not raise on account of `e`:
    the objects can be built, `verify()` passes, and the top-level type is B
    (`Descriptor.__init__`, `TapLeaf.__init__`) -/
def accepts (ctx : Ctx) (e : Ms) : Bool :=
  constructible ctx e && verify ctx e && type e == .B

/-! ### compile -/

def timeOp : TimeFrag → UInt8
  | .older => 0xb2
  | .after => 0xb1

def hashOp : HashFrag → UInt8
  | .sha256 => 0xa8
  | .hash256 => 0xaa
  | .ripemd160 => 0xa6
  | .hash160 => 0xa9

/-- `inner_compile` of `PkK PkH Pk Pkh`; `a` = the key bytes / the 20-byte hash -/
def keyCompile (f : KeyFrag) (a : Bytes) : Bytes :=
  match f with
  | .pk_k => pushCompact a
  | .pk_h => [0x76, 0xa9] ++ pushCompact a ++ [0x88]
  | .pk => pushCompact a ++ [0xac]
  | .pkh => [0x76, 0xa9] ++ pushCompact a ++ [0x88, 0xac]

def binCompile (f : BinFrag) (cx cy : Bytes) : Bytes :=
  match f with
  | .and_v => cx ++ cy
  | .and_b => cx ++ cy ++ [0x9a]
  | .and_n => cx ++ [0x64] ++ numCompile 0 ++ [0x67] ++ cy ++ [0x68]
  | .or_b => cx ++ cy ++ [0x9b]
  | .or_c => cx ++ [0x64] ++ cy ++ [0x68]
  | .or_d => cx ++ [0x73, 0x64] ++ cy ++ [0x68]
  | .or_i => [0x63] ++ cx ++ [0x67] ++ cy ++ [0x68]

/-- `Thresh.inner_compile`; `cs` = compiled `args[1:]` -/
def threshCompile (k : Nat) (cs : List Bytes) : Bytes :=
  match cs with
  | [] => []     -- IndexError
  | c1 :: rest => c1 ++ rest.flatMap (fun c => c ++ [0x93]) ++ numCompile k ++ [0x87]

/-- `inner_compile` of `Multi Sortedmulti MultiA SortedmultiA` -/
def multiCompile (f : MultiFrag) (k : Nat) (keys : List Bytes) : Bytes :=
  match f with
  | .multi => numCompile k ++ (keys.map pushCompact).flatten ++ numCompile keys.length ++ [0xae]
  | .sortedmulti => numCompile k ++ (sortBytes (keys.map pushCompact)).flatten ++ numCompile keys.length ++ [0xae]
  | .multi_a =>
    match keys.map pushCompact with
    | [] => []   -- IndexError
    | c1 :: rest => c1 ++ [0xac] ++ rest.flatMap (fun c => c ++ [0xba]) ++ numCompile k ++ [0x9c]
  | .sortedmulti_a =>
    match sortBytes (keys.map pushCompact) with
    | [] => []   -- IndexError
    | c1 :: rest => c1 ++ [0xac] ++ rest.flatMap (fun c => c ++ [0xba]) ++ numCompile k ++ [0x9c]

/-- `V.inner_compile`: looks at the last BYTE of the compiled argument -/
def vCompile (carg : Bytes) : Bytes :=
  match carg.getLast? with
  | some l =>
    if l == 0xac || l == 0xae || l == 0x9c || l == 0x87 then carg.dropLast ++ [l + 1]
    else carg ++ [0x69]
  | none => carg ++ [0x69]   -- `carg[-1]` raises on empty bytes; compiled scripts are never empty

def wrapCompile (w : Wrap) (carg : Bytes) : Bytes :=
  match w with
  | .a => [0x6b] ++ carg ++ [0x6c]
  | .s => [0x7c] ++ carg
  | .c => carg ++ [0xac]
  | .t => carg ++ numCompile 1
  | .d => [0x76, 0x63] ++ carg ++ [0x68]
  | .v => vCompile carg
  | .j => [0x82, 0x92, 0x63] ++ carg ++ [0x68]
  | .n => carg ++ [0x92]
  | .l => [0x63] ++ numCompile 0 ++ [0x67] ++ carg ++ [0x68]
  | .u => [0x63] ++ carg ++ [0x67] ++ numCompile 0 ++ [0x68]

mutual
/-- `.compile()` -/
def compile : Ms → Bytes
  | .key f a => keyCompile f a
  | .time f n => numCompile n ++ [timeOp f]
  | .hash f h => [0x82] ++ numCompile 32 ++ [0x88, hashOp f] ++ pushCompact h ++ [0x87]
  | .andor x y z => compile x ++ [0x64] ++ compile z ++ [0x67] ++ compile y ++ [0x68]
  | .bin f x y => binCompile f (compile x) (compile y)
  | .thresh k xs => threshCompile k (compileL xs)
  | .multi f k keys => multiCompile f k keys
  | .wrap w x => wrapCompile w (compile x)
def compileL : List Ms → List Bytes
  | [] => []
  | x :: xs => compile x :: compileL xs
end

/-! ### `__len__` -/

/-- `len(arg)` of the single argument: `Key.__len__` = `len(self.compile())`, `KeyHash.__len__` = 21 -/
def keyArgLen (f : KeyFrag) (a : Bytes) : Nat :=
  match f with
  | .pk_k => (pushCompact a).length
  | .pk => (pushCompact a).length
  | .pk_h => 21
  | .pkh => 21

def keyExtra : KeyFrag → Nat
  | .pk_k => 0
  | .pk_h => 3
  | .pk => 1
  | .pkh => 4

/-- `Raw32.__len__` = 33, `Raw20.__len__` = 21 -/
def hashArgLen : HashFrag → Nat
  | .sha256 => 33
  | .hash256 => 33
  | .ripemd160 => 21
  | .hash160 => 21

def binExtra : BinFrag → Nat
  | .and_v => 0
  | .and_b => 1
  | .and_n => 4
  | .or_b => 1
  | .or_c => 2
  | .or_d => 3
  | .or_i => 3

def keysLen : List Bytes → Nat
  | [] => 0
  | k :: ks => (pushCompact k).length + keysLen ks

mutual
/-- `len(miniscript)` -/
def len : Ms → Nat
  | .key f a => keyArgLen f a + keyExtra f
  | .time _ n => (numCompile n).length + 1
  | .hash f _ => hashArgLen f + 6
  | .andor x y z => (len x + len y + len z) + 3
  | .bin f x y => (len x + len y) + binExtra f
  | .thresh k xs => ((numCompile k).length + lenL xs) + (xs.length + 1) - 1
  | .multi f k keys =>
    match f with
    | .multi => ((numCompile k).length + keysLen keys) + (numCompile keys.length).length + 1
    | .sortedmulti => ((numCompile k).length + keysLen keys) + (numCompile keys.length).length + 1
    | .multi_a => ((numCompile k).length + keysLen keys) + (keys.length + 1)
    | .sortedmulti_a => ((numCompile k).length + keysLen keys) + (keys.length + 1)
  | .wrap w x =>
    match w with
    | .a => len x + 2
    | .s => len x + 1
    | .c => len x + 1
    | .t => len x + 1
    | .d => len x + 3
    | .v => (compile (.wrap .v x)).length     -- `Miniscript.__len__`: `len(self.compile())`
    | .j => (compile (.wrap .j x)).length
    | .n => len x + 1
    | .l => len x + 4
    | .u => len x + 4
def lenL : List Ms → Nat
  | [] => 0
  | x :: xs => len x + lenL xs
end

/-! ### the rules as they were before the C13 `fix:` patches (kept only for the witness theorems in Props/C13) -/

/-- `AndOr.verify` / `AndN.verify` before the fix: `if "d" not in px and "u" not in px: raise` -/
def andorVerifyOld (tx : Ty) (px : Props) (ty tz : Ty) : Bool :=
  tx == .B && !(!px.d && !px.u) && ty == tz && isBKV ty

/-- `T` had no `verify` of its own: only `Miniscript.verify` (the recursion) ran -/
def wrapVerifyTOld (_tx : Ty) (_px : Props) : Bool := true

/-- `Multi.verify` before the fix: no bound on the number of keys -/
def multiVerifyOld (k n : Nat) : Bool := !(k < 1 || k > n)

/-- `MultiA` inherited `PROPS = "ndu"` from `Multi` -/
def multiAPropsOld : Props := { n := true, d := true, u := true }

/-- `Multi.__len__` before the fix: `len_args() + 2` -/
def multiLenOld (k : Nat) (keys : List Bytes) : Nat := ((numCompile k).length + keysLen keys) + 2

/-- `Key.__len__` before the fix: `34 - int(self.taproot)` -/
def keyLenOld (taproot : Bool) : Nat := 34 - (if taproot then 1 else 0)

/-! ### the structure the hand-written model assumes (pinned against `Gen.Ms.classTable`) -/

/-- class, NAME, NARGS, ARGCLS, owner class of
    `__init__ verify type properties inner_compile compile __len__ len_args read_arguments` -/
def modelledClassTable : List (List String) := [
  ["PkK", "pk_k", "1", "Key", "Miniscript", "Miniscript", "Miniscript", "Miniscript", "PkK", "Miniscript", "PkK", "Miniscript", "Miniscript"],
  ["PkH", "pk_h", "1", "KeyHash", "Miniscript", "Miniscript", "Miniscript", "Miniscript", "PkH", "Miniscript", "PkH", "Miniscript", "Miniscript"],
  ["Older", "older", "1", "Number", "Miniscript", "Older", "Miniscript", "Miniscript", "Older", "Miniscript", "Older", "Miniscript", "Miniscript"],
  ["After", "after", "1", "Number", "Miniscript", "Older", "Miniscript", "Miniscript", "After", "Miniscript", "Older", "Miniscript", "Miniscript"],
  ["Sha256", "sha256", "1", "Raw32", "Miniscript", "Miniscript", "Miniscript", "Miniscript", "Sha256", "Miniscript", "Sha256", "Miniscript", "Miniscript"],
  ["Hash256", "hash256", "1", "Raw32", "Miniscript", "Miniscript", "Miniscript", "Miniscript", "Hash256", "Miniscript", "Sha256", "Miniscript", "Miniscript"],
  ["Ripemd160", "ripemd160", "1", "Raw20", "Miniscript", "Miniscript", "Miniscript", "Miniscript", "Ripemd160", "Miniscript", "Sha256", "Miniscript", "Miniscript"],
  ["Hash160", "hash160", "1", "Raw20", "Miniscript", "Miniscript", "Miniscript", "Miniscript", "Hash160", "Miniscript", "Sha256", "Miniscript", "Miniscript"],
  ["AndOr", "andor", "3", "Miniscript", "Miniscript", "AndOr", "AndOr", "AndOr", "AndOr", "Miniscript", "AndOr", "Miniscript", "Miniscript"],
  ["AndV", "and_v", "2", "Miniscript", "Miniscript", "AndV", "AndV", "AndV", "AndV", "Miniscript", "AndV", "Miniscript", "Miniscript"],
  ["AndB", "and_b", "2", "Miniscript", "Miniscript", "AndB", "Miniscript", "AndB", "AndB", "Miniscript", "AndB", "Miniscript", "Miniscript"],
  ["AndN", "and_n", "2", "Miniscript", "Miniscript", "AndN", "AndN", "AndN", "AndN", "Miniscript", "AndN", "Miniscript", "Miniscript"],
  ["OrB", "or_b", "2", "Miniscript", "Miniscript", "OrB", "Miniscript", "OrB", "OrB", "Miniscript", "OrB", "Miniscript", "Miniscript"],
  ["OrC", "or_c", "2", "Miniscript", "Miniscript", "OrC", "Miniscript", "OrC", "OrC", "Miniscript", "OrC", "Miniscript", "Miniscript"],
  ["OrD", "or_d", "2", "Miniscript", "Miniscript", "OrD", "Miniscript", "OrD", "OrD", "Miniscript", "OrD", "Miniscript", "Miniscript"],
  ["OrI", "or_i", "2", "Miniscript", "Miniscript", "OrI", "OrI", "OrI", "OrI", "Miniscript", "OrI", "Miniscript", "Miniscript"],
  ["Thresh", "thresh", "None", "Number+Miniscript", "Miniscript", "Thresh", "Miniscript", "Thresh", "Thresh", "Miniscript", "Thresh", "Miniscript", "Miniscript"],
  ["Multi", "multi", "None", "Number+Key", "Multi", "Multi", "Miniscript", "Miniscript", "Multi", "Miniscript", "Multi", "Miniscript", "Miniscript"],
  ["Sortedmulti", "sortedmulti", "None", "Number+Key", "Multi", "Multi", "Miniscript", "Miniscript", "Sortedmulti", "Miniscript", "Multi", "Miniscript", "Miniscript"],
  ["MultiA", "multi_a", "None", "Number+Key", "Multi", "Multi", "Miniscript", "Miniscript", "MultiA", "Miniscript", "MultiA", "Miniscript", "Miniscript"],
  ["SortedmultiA", "sortedmulti_a", "None", "Number+Key", "Multi", "Multi", "Miniscript", "Miniscript", "SortedmultiA", "Miniscript", "MultiA", "Miniscript", "Miniscript"],
  ["Pk", "pk", "1", "Key", "Miniscript", "Miniscript", "Miniscript", "Miniscript", "Pk", "Miniscript", "Pk", "Miniscript", "Miniscript"],
  ["Pkh", "pkh", "1", "KeyHash", "Miniscript", "Miniscript", "Miniscript", "Miniscript", "Pkh", "Miniscript", "Pkh", "Miniscript", "Miniscript"],
  ["A", "a", "1", "Miniscript", "Miniscript", "A", "Miniscript", "A", "A", "Miniscript", "A", "Miniscript", "Miniscript"],
  ["S", "s", "1", "Miniscript", "Miniscript", "S", "Miniscript", "S", "S", "Miniscript", "S", "Miniscript", "Miniscript"],
  ["C", "c", "1", "Miniscript", "Miniscript", "C", "Miniscript", "C", "C", "Miniscript", "C", "Miniscript", "Miniscript"],
  ["T", "t", "1", "Miniscript", "Miniscript", "T", "Miniscript", "T", "T", "Miniscript", "T", "Miniscript", "Miniscript"],
  ["D", "d", "1", "Miniscript", "Miniscript", "D", "Miniscript", "D", "D", "Miniscript", "D", "Miniscript", "Miniscript"],
  ["V", "v", "1", "Miniscript", "Miniscript", "V", "Miniscript", "V", "V", "Miniscript", "Miniscript", "Miniscript", "Miniscript"],
  ["J", "j", "1", "Miniscript", "Miniscript", "J", "Miniscript", "J", "J", "Miniscript", "Miniscript", "Miniscript", "Miniscript"],
  ["N", "n", "1", "Miniscript", "Miniscript", "N", "Miniscript", "N", "N", "Miniscript", "N", "Miniscript", "Miniscript"],
  ["L", "l", "1", "Miniscript", "Miniscript", "L", "Miniscript", "L", "L", "Miniscript", "L", "Miniscript", "Miniscript"],
  ["U", "u", "1", "Miniscript", "Miniscript", "L", "Miniscript", "L", "U", "Miniscript", "U", "Miniscript", "Miniscript"]
]

end Embit.Model.Miniscript
