import EmbitModel.Model.Tx
/-
  Model of embit's signature-hash code: `SIGHASH.check`, `TransactionInput.write_to(script_sig, sighash)`,
  `Transaction.sighash_legacy / sighash_segwit / sighash_taproot` (transaction.py) — the same text is duplicated in
  `PSBTView.sighash_*` (psbtview.py) over `vin(i)` / `vout(i)` accessors; both copies are tied to this model by
  the correspondence. Follows the code after the C01 `fix:` commits and `fixes/fix-taproot-hashtype.diff`
  (taproot: hash type 0x80 and a `script_pubkeys` list of the wrong length are refused). `sha` is SHA-256 (a parameter).
  The digest memo fields (`_hash_prevouts` …) are modelled in `Model/Heap.lean` (C19); here a fresh object.
-/
namespace Embit.Model

def SIGHASH_ALL : Nat := 1
def SIGHASH_NONE : Nat := 2
def SIGHASH_SINGLE : Nat := 3

/-- `SIGHASH.check`: `(base, anyonecanpay)` or raise -/
def sighashCheck (f : Nat) : Option (Nat × Bool) :=
  let acp := f &&& 0x80 != 0
  let sh := if acp then f ^^^ 0x80 else f
  if sh == 0 || sh == 1 || sh == 2 || sh == 3 then some (sh, acp) else none

/-- `TransactionInput.write_to(stream, script_sig, sighash)` -/
def TxIn.serWith (i : TxIn) (script : Option Bytes) (f : Nat) : Option Bytes :=
  match sighashCheck f with
  | none => none
  | some (sh, acp) =>
    let sequence := if acp || sh == SIGHASH_SINGLE || sh == SIGHASH_NONE then 0 else i.sequence
    some (i.txid.reverse ++ leN 4 i.vout
      ++ scriptSer (match script with | none => i.scriptSig | some s => s)
      ++ leN 4 sequence)

def optConcat : List (Option Bytes) → Option Bytes
  | [] => some []
  | none :: _ => none
  | some b :: r => match optConcat r with
    | none => none
    | some bs => some (b ++ bs)

def hashPrevoutsPre (t : Tx) : Bytes := t.vin.flatMap fun i => i.txid.reverse ++ leN 4 i.vout
def hashSequencePre (t : Tx) : Bytes := t.vin.flatMap fun i => leN 4 i.sequence
def hashOutputsPre (t : Tx) : Bytes := t.vout.flatMap TxOut.ser
/-- module-level `hash_amounts` / `hash_script_pubkeys` -/
def hashAmountsPre (amounts : List Nat) : Bytes := amounts.flatMap (leN 8)
def hashSpksPre (spks : List Bytes) : Bytes := spks.flatMap scriptSer

/-- `Transaction.sighash_legacy(input_index, script_pubkey, sighash)` -/
def sighashLegacy (sha : Bytes → Bytes) (t : Tx) (idx : Nat) (sc : Bytes) (f : Nat) : Option Bytes :=
  if idx ≥ t.vin.length then none else
  match sighashCheck f with
  | none => none
  | some (sh0, acp) =>
    let sh := if sh0 == 0 then SIGHASH_ALL else sh0
    if sh == SIGHASH_SINGLE && idx ≥ t.vout.length then
      some (1 :: List.replicate 31 0)
    else
      let ins : Option Bytes :=
        if acp then
          match t.vin[idx]? with
          | none => none
          | some inp => (TxIn.serWith inp (some sc) SIGHASH_ALL).map (Compact.enc 1 ++ ·)
        else
          (optConcat (t.vin.zipIdx.map fun (inp, i) =>
            if idx = i then TxIn.serWith inp (some sc) SIGHASH_ALL
            else TxIn.serWith inp (some []) f)).map (Compact.enc t.vin.length ++ ·)
      let outs : Option Bytes :=
        if sh == SIGHASH_NONE then some (Compact.enc 0)
        else if sh == SIGHASH_SINGLE then
          match t.vout[idx]? with
          | none => none
          | some o =>
            let empty := TxOut.ser { value := 0xFFFFFFFFFFFFFFFF, spk := [] }
            some (Compact.enc (idx + 1) ++ (List.replicate idx empty).flatten ++ TxOut.ser o)
        else some (Compact.enc t.vout.length ++ t.vout.flatMap TxOut.ser)
      match ins, outs with
      | some i, some o => some (sha (sha (leN 4 t.version ++ i ++ o ++ leN 4 t.locktime ++ leN 4 f)))
      | _, _ => none

/-- `Transaction.sighash_segwit(input_index, script_pubkey, value, sighash)` -/
def sighashSegwit (sha : Bytes → Bytes) (t : Tx) (idx : Nat) (sc : Bytes) (value : Nat) (f : Nat) :
    Option Bytes :=
  if idx ≥ t.vin.length then none else
  match sighashCheck f with
  | none => none
  | some (sh0, acp) =>
    let sh := if sh0 == 0 then SIGHASH_ALL else sh0
    match t.vin[idx]? with
    | none => none
    | some inp =>
      let zero : Bytes := List.replicate 32 0
      let noneOrSingle := sh == SIGHASH_NONE || sh == SIGHASH_SINGLE
      let hp := if acp then zero else sha (sha (hashPrevoutsPre t))
      let hs := if acp || noneOrSingle then zero else sha (sha (hashSequencePre t))
      let ho :=
        if !noneOrSingle then sha (sha (hashOutputsPre t))
        else if sh == SIGHASH_SINGLE && idx < t.vout.length then
          match t.vout[idx]? with
          | some o => sha (sha (TxOut.ser o))
          | none => zero
        else zero
      some (sha (sha (leN 4 t.version ++ hp ++ hs ++ inp.txid.reverse ++ leN 4 inp.vout ++ scriptSer sc
        ++ leN 8 value ++ leN 4 inp.sequence ++ ho ++ leN 4 t.locktime ++ leN 4 f)))

def taggedHash (sha : Bytes → Bytes) (tag : String) (data : Bytes) : Bytes :=
  let ht := sha tag.toUTF8.toList
  sha (ht ++ ht ++ data)

/-- `Transaction.sighash_taproot(input_index, script_pubkeys, values, sighash, ext_flag, annex, script,
     leaf_version, codeseparator_pos)` -/
def sighashTaproot (sha : Bytes → Bytes) (t : Tx) (idx : Nat) (spks : List Bytes) (values : List Nat)
    (f : Nat) (extFlag : Nat) (annex : Option Bytes) (script : Option Bytes) (leafVer : Nat)
    (codesep : Option Nat) : Option Bytes :=
  if idx ≥ t.vin.length then none else
  if values.length ≠ t.vin.length then none else
  if spks.length ≠ t.vin.length then none else     -- "All spent scripts are required"
  match sighashCheck f with
  | none => none
  | some (sh, acp) =>
    if acp && sh == 0 then none else   -- 0x80 is not a hash type of BIP-341
    if f ≥ 256 then none else   -- bytes([sighash])
    let spendType := 2 * extFlag + (if annex.isSome then 1 else 0)
    if spendType ≥ 256 then none else
    let common : Bytes :=
      [UInt8.ofNat f] ++ leN 4 t.version ++ leN 4 t.locktime
      ++ (if !acp then
            sha (hashPrevoutsPre t) ++ sha (hashAmountsPre values) ++ sha (hashSpksPre spks)
              ++ sha (hashSequencePre t)
          else [])
      ++ (if !(sh == SIGHASH_SINGLE || sh == SIGHASH_NONE) then sha (hashOutputsPre t) else [])
      ++ [UInt8.ofNat spendType]
    let thisIn : Option Bytes :=
      if acp then
        match t.vin[idx]?, values[idx]?, spks[idx]? with
        | some inp, some v, some spk =>
          some (inp.txid.reverse ++ leN 4 inp.vout ++ leN 8 v ++ scriptSer spk ++ leN 4 inp.sequence)
        | _, _, _ => none
      else some (leN 4 idx)
    let annexPart : Bytes := match annex with
      | none => []
      | some a => sha (Compact.enc a.length ++ a)
    let single : Option Bytes :=
      if sh == SIGHASH_SINGLE then
        match t.vout[idx]? with
        | some o => some (sha (TxOut.ser o))
        | none => none
      else some []
    let ext : Option Bytes := match script with
      | none => some []
      | some s =>
        if leafVer ≥ 256 then none else
        some (taggedHash sha "TapLeaf" ([UInt8.ofNat leafVer] ++ scriptSer s) ++ [0]
          ++ (match codesep with | none => [0xff, 0xff, 0xff, 0xff] | some c => leN 4 c))
    match thisIn, single, ext with
    | some ti, some sg, some ex =>
      some (taggedHash sha "TapSighash" ([0] ++ common ++ ti ++ annexPart ++ sg ++ ex))
    | _, _, _ => none

end Embit.Model
