import EmbitModel.Model.Descriptor
/-
  Model of `Descriptor.owns(psbt_scope)` (descriptor.py) with `Key.check_derivation` and
  `AllowedDerivation.check_derivation` (arguments.py) — C14.

  A PSBT scope is seen through the three things `owns` reads: `script_pubkey` (may be `None`), the VALUES of
  `bip32_derivations` in iteration order and the derivation parts of `taproot_bip32_derivations` in iteration order
  (the recorded public keys and leaf hashes are never looked at by `owns`).
  The decision procedure (`ownsCore`) is stated over what it needs from the descriptor: per key a `KeyView`
  (fingerprints, origin path, allowed derivation, is it an extended key), the descriptor's script type and the
  function `deriveScript i b` = `self.derive(i, branch_index=b).script_pubkey()` (`none`: raises), so that the
  theorems hold for every such function; `Desc.owns` instantiates it with the C12 model.
-/
namespace Embit.Model.Descriptor

/-- `DerivationPath` -/
structure DerivRec where
  fingerprint : Bytes
  path : List Nat
deriving DecidableEq, Repr

structure Scope where
  spk : Option Bytes
  derivs : List DerivRec
  tapDerivs : List DerivRec
deriving Repr

/-- `list.index(x)` for a membership-checked element -/
def indexOfOpt (x : Nat) : List (Option Nat) → Option Nat
  | [] => none
  | y :: r => if y = some x then some 0 else (indexOfOpt x r).map (· + 1)

/-- the loop of `AllowedDerivation.check_derivation`: state `(idx, branch_idx)` -/
def checkStepsAux : List Step → List Nat → Option Nat → Nat → Option (Option Nat × Nat)
  | [], _, idx, b => some (idx, b)
  | _ :: _, [], idx, b => some (idx, b)          -- unreachable: lengths are equal
  | .idx n :: r, d :: ds, idx, b => if n ≠ d then none else checkStepsAux r ds idx b
  | .set l :: r, d :: ds, idx, _ =>
    (match indexOfOpt d l with
      | none => none
      | some j => checkStepsAux r ds idx j)
  | .wild :: r, d :: ds, _, b => checkStepsAux r ds (some d) b

/-- `AllowedDerivation.check_derivation(derivation)` → `(idx, branch_idx)` or `None` -/
def checkSteps (ix : List Step) (der : List Nat) : Option (Nat × Nat) :=
  if der.length ≠ ix.length then none
  else
    match checkStepsAux ix der none 0 with
    | some (some i, b) => some (i, b)
    | _ => none

/-- what `Key.check_derivation` reads of a key -/
structure KeyView where
  /-- `is_extended` -/
  extended : Bool
  /-- `Key.fingerprint`: the origin's, else `my_fingerprint` of an extended key, else `None` -/
  fingerprint : Option Bytes
  /-- `Key.derivation`: the origin path or `[]` -/
  originPath : List Int
  /-- `Key.my_fingerprint` (`None` unless extended) -/
  myFingerprint : Option Bytes
  allowed : Option (List Step)
deriving Repr

/-- `Key.check_derivation(derivation_path)` -/
def KeyView.check (k : KeyView) (r : DerivRec) : Option (Nat × Nat) :=
  let rest1 : Option (List Nat) :=
    if k.fingerprint = some r.fingerprint then
      if k.originPath = (r.path.take k.originPath.length).map Int.ofNat then some (r.path.drop k.originPath.length)
      else none
    else none
  let rest : Option (List Nat) := if k.myFingerprint = some r.fingerprint then some r.path else rest1
  match k.allowed, rest with
  | some ix, some p => checkSteps ix p
  | _, _ => none

/-- the inner `for k in self.keys` loop for one recorded derivation: `some true` = a matching extended key derives
    the scope's script (`return True`), `some false` = no key does (next record), `none` = `derive` raised -/
def scanKeys (deriveScript : Nat → Nat → Option Bytes) (spk : Bytes) (r : DerivRec) : List KeyView → Option Bool
  | [] => some false
  | k :: ks =>
    if !k.extended then scanKeys deriveScript spk r ks
    else match k.check r with
      | none => scanKeys deriveScript spk r ks
      | some (i, b) =>
        match deriveScript i b with
        | none => none
        | some s => if s == spk then some true else scanKeys deriveScript spk r ks

/-- the outer loop over the recorded derivations, in the scope's order -/
def scanRecords (keys : List KeyView) (deriveScript : Nat → Nat → Option Bytes) (spk : Bytes) :
    List DerivRec → Option Bool
  | [] => some false
  | r :: rs =>
    match scanKeys deriveScript spk r keys with
    | none => none
    | some true => some true
    | some false => scanRecords keys deriveScript spk rs

/-- `Descriptor.owns(scope)` (after fixes/owns-keeps-looking.diff): `none` = raises -/
def ownsCore (keys : List KeyView) (ty : Option SpkType) (deriveScript : Nat → Nat → Option Bytes) (sc : Scope) :
    Option Bool :=
  match sc.spk with
  | none => some false
  | some spk =>
    if scriptType spk ≠ ty then some false
    else
      match scanRecords keys deriveScript spk sc.derivs with
      | none => none
      | some true => some true
      | some false => scanRecords keys deriveScript spk sc.tapDerivs

/-! #### the rule before the fix (kept for the witness theorem in Props/C14): the FIRST matching (record, key)
    pair decided -/

def firstKeyMatch (keys : List KeyView) (r : DerivRec) : Option (Nat × Nat) :=
  match keys with
  | [] => none
  | k :: ks =>
    if !k.extended then firstKeyMatch ks r
    else match k.check r with
      | some res => some res
      | none => firstKeyMatch ks r

def firstMatch (keys : List KeyView) : List DerivRec → Option (Nat × Nat)
  | [] => none
  | r :: rs =>
    match firstKeyMatch keys r with
    | some res => some res
    | none => firstMatch keys rs

def ownsCoreOld (keys : List KeyView) (ty : Option SpkType) (deriveScript : Nat → Nat → Option Bytes) (sc : Scope) :
    Option Bool :=
  match sc.spk with
  | none => some false
  | some spk =>
    if scriptType spk ≠ ty then some false
    else
      match firstMatch keys sc.derivs with
      | some (i, b) => (deriveScript i b).map fun s => s == spk
      | none =>
        match firstMatch keys sc.tapDerivs with
        | some (i, b) => (deriveScript i b).map fun s => s == spk
        | none => some false

variable {K : Type}

def KeyExpr.view (ops : KeyOps K) (h : Hashes) (k : KeyExpr K) : KeyView :=
  let ext : Option K := match k.key with
    | .obj key => if ops.kind key == .xkey then some key else none
    | .raw _ => none
  let my := ext.map (myFingerprint ops h)
  { extended := ext.isSome
    fingerprint := match k.origin with
      | some o => some o.fingerprint
      | none => my
    originPath := match k.origin with
      | some o => o.path
      | none => []
    myFingerprint := my
    allowed := k.deriv }

/-- `self.derive(idx, branch_index=b).script_pubkey()` -/
def Desc.deriveScript (ops : KeyOps K) (h : Hashes) (d : Desc K) (i b : Nat) : Option Bytes :=
  (d.derive ops h i (some b)).bind fun d' => d'.scriptPubkey ops h

def Desc.owns (ops : KeyOps K) (h : Hashes) (d : Desc K) (sc : Scope) : Option Bool :=
  ownsCore (d.keys.map (KeyExpr.view ops h)) d.spkType (d.deriveScript ops h) sc

/-- `Descriptor.check_derivation(derivation_path)`: the first key (extended or not) that matches -/
def Desc.checkDerivation (ops : KeyOps K) (h : Hashes) (d : Desc K) (r : DerivRec) : Option (Nat × Nat) :=
  (d.keys.map (KeyExpr.view ops h)).findSome? fun k => k.check r

end Embit.Model.Descriptor
