import EmbitModel.Basic.Bytes
/-
  Model of embit/bip39.py, following the code as it is (Mathlib-free, executable).

  * A word is a value of an arbitrary type `W` with decidable equality; the word list is any `List W`
    (`word in wordlist` / `wordlist.index(word)` = first position, `wordlist[idx]` = bounds-checked lookup).
    The phrase is modelled after `mnemonic.strip().split()`, i.e. as the list of its words; `" ".join` is the
    inverse on word lists whose words are non-empty and contain no white space (checked on the real list by the
    harness; see `splitWs`/`joinSp` below for the string layer).
  * SHA-256 and PBKDF2-HMAC-SHA512 are parameters.
  * Python exceptions (ValueError, IndexError) are `none`.
-/
namespace Embit.Model.Bip39

/-! ### word list access -/

/-- `wordlist.index(word)` guarded by `word in wordlist`: first position or failure -/
def indexOf? {W : Type} [DecidableEq W] (wl : List W) (w : W) : Option Nat :=
  match wl with
  | [] => none
  | x :: xs => if x = w then some 0 else (indexOf? xs w).map (· + 1)

/-! ### `bytearray` operations used by the packing loop (a stored value must be in `range(256)`) -/

/-- `binary_seed.append(v)` -/
def baAppend (seed : Bytes) (v : Nat) : Option Bytes :=
  if v < 256 then some (seed ++ [UInt8.ofNat v]) else none

/-- `binary_seed[-1] |= v` -/
def baOrLast (seed : Bytes) (v : Nat) : Option Bytes :=
  match seed.getLast? with
  | none => none                                   -- IndexError on an empty bytearray
  | some l =>
    let r := l.toNat ||| v
    if r < 256 then some (seed.dropLast ++ [UInt8.ofNat r]) else none

/-- `computed_checksum[-1] &= m` (the result of `&` with a byte always fits) -/
def baAndLast (b : Bytes) (m : Nat) : Option Bytes :=
  match b.getLast? with
  | none => none
  | some l => some (b.dropLast ++ [UInt8.ofNat (l.toNat &&& m)])

/-- state of the packing loop: `binary_seed`, `offset` -/
structure Pack where
  seed : Bytes
  offset : Nat
deriving DecidableEq, Repr

/-- `while remaining > 0: …` for one word. Every iteration consumes at least one of the `remaining` bits
    (as long as `offset < 8`, which the loop maintains), so 11 iterations of fuel are never used up;
    running out of fuel is reported as `none` so that a successful result is a genuine run of the loop. -/
def packLoop : Nat → Pack → Nat → Nat → Option Pack
  | 0, st, _, remaining => if remaining > 0 then none else some st
  | fuel+1, st, index, remaining =>
    if remaining > 0 then
      let bitsNeeded := 8 - st.offset
      if remaining == bitsNeeded then
        if bitsNeeded == 8 then do
          let s ← baAppend st.seed index
          packLoop fuel ⟨s, 0⟩ index 0
        else do
          let s ← baOrLast st.seed index
          packLoop fuel ⟨s, 0⟩ index 0
      else if remaining > bitsNeeded then
        if bitsNeeded == 8 then do
          let s ← baAppend st.seed (index >>> (remaining - 8))
          let remaining' := remaining - bitsNeeded
          -- lop off the top 8 bits
          packLoop fuel ⟨s, 0⟩ (index &&& ((1 <<< remaining') - 1)) remaining'
        else do
          let s ← baOrLast st.seed (index >>> (remaining - bitsNeeded))
          let remaining' := remaining - bitsNeeded
          packLoop fuel ⟨s, 0⟩ (index &&& ((1 <<< remaining') - 1)) remaining'
      else do
        let s ← baAppend st.seed (index <<< (8 - remaining))
        packLoop fuel ⟨s, remaining⟩ index 0
    else some st

/-- the body of `for word in words:` for one word index -/
def packIndex (st : Pack) (index : Nat) : Option Pack := packLoop 11 st index 11

/-- `for word in words: if word not in wordlist: raise …; index = wordlist.index(word); …` -/
def packWords {W : Type} [DecidableEq W] (wl : List W) : Pack → List W → Option Pack
  | st, [] => some st
  | st, w :: ws => do
    let index ← indexOf? wl w
    let st' ← packIndex st index
    packWords wl st' ws

/-- Python `raw[:-k]` and `raw[-k:]` for `k ≥ 0` (`-0` is `0`) -/
def sliceToNeg (raw : Bytes) (k : Nat) : Bytes := if k = 0 then [] else raw.take (raw.length - k)
def sliceFromNeg (raw : Bytes) (k : Nat) : Bytes := if k = 0 then raw else raw.drop (raw.length - k)

/-- `mnemonic_to_bytes(mnemonic, ignore_checksum, wordlist)` on `words = mnemonic.strip().split()` -/
def toBytes {W : Type} [DecidableEq W] (sha256 : Bytes → Bytes) (wl : List W) (ignoreChecksum : Bool)
    (words : List W) : Option Bytes :=
  if words.length % 3 != 0 || words.length < 12 then none else do
  let st ← packWords wl ⟨[], 0⟩ words
  let checksumLengthBits := words.length * 11 / 33
  let numRemainder := checksumLengthBits % 8
  let (checksumLength, bitsToIgnore) :=
    if numRemainder != 0 then (checksumLengthBits / 8 + 1, 8 - numRemainder) else (checksumLengthBits / 8, 0)
  let raw := st.seed
  let data := sliceToNeg raw checksumLength
  let checksum := sliceFromNeg raw checksumLength
  let computed := (sha256 data).take checksumLength
  -- `computed_checksum[-1] &= 256 - (1 << (bits_to_ignore + 1) - 1)`; `-`/`+` bind tighter than `<<`
  let computed' ← baAndLast computed (256 - (1 <<< ((bitsToIgnore + 1) - 1)))
  if !ignoreChecksum && checksum != computed' then none else some data

/-- `mnemonic_is_valid` -/
def isValid {W : Type} [DecidableEq W] (sha256 : Bytes → Bytes) (wl : List W) (words : List W) : Bool :=
  (toBytes sha256 wl false words).isSome

/-- body of the loop in `_extract_index`: `value = value << 1; if b[pos // 8] & (1 << (7 - pos % 8)): value += 1`;
    `b[pos // 8]` raises IndexError beyond the buffer -/
def extractStep (b : Bytes) (value pos : Nat) : Option Nat := do
  let value := value <<< 1
  let byte ← b[pos / 8]?
  pure (if byte.toNat &&& (1 <<< (7 - pos % 8)) != 0 then value + 1 else value)

/-- `_extract_index(bits, b, n)`: `for pos in range(n * bits, (n + 1) * bits)` -/
def extractIndex (bits : Nat) (b : Bytes) (n : Nat) : Option Nat :=
  (List.range' (n * bits) bits).foldlM (extractStep b) 0

/-- `mnemonic_from_bytes(entropy, wordlist)`; the result is the word list that Python joins with `" "` -/
def fromBytes {W : Type} (sha256 : Bytes → Bytes) (wl : List W) (entropy : Bytes) : Option (List W) :=
  if entropy.length % 4 != 0 then none else
  let totalBits := entropy.length * 8
  let checksumBits := totalBits / 32
  let totalMnemonics := (totalBits + checksumBits) / 11
  let entropy' := entropy ++ sha256 entropy
  (List.range totalMnemonics).mapM fun i => do
    let idx ← extractIndex 11 entropy' i
    wl[idx]?

def mnemonicLabel : Bytes := [0x6d, 0x6e, 0x65, 0x6d, 0x6f, 0x6e, 0x69, 0x63]   -- "mnemonic".encode()
def pbkdf2Rounds : Nat := 2048

/-- `mnemonic_to_seed(mnemonic, password, wordlist)`: `wl = none` is `wordlist=None` (no validation);
    `mnemonicUtf8` is `mnemonic.encode("utf-8")` of the string as given (no normalisation of any kind),
    `words` its `.strip().split()`, `passwordUtf8` is `password.encode("utf-8")`
    (`("mnemonic" + password).encode("utf-8")` = `b"mnemonic" + password.encode("utf-8")`). -/
def toSeed {W : Type} [DecidableEq W] (sha256 : Bytes → Bytes) (pbkdf2 : Bytes → Bytes → Nat → Nat → Bytes)
    (wl : Option (List W)) (words : List W) (mnemonicUtf8 passwordUtf8 : Bytes) : Option Bytes :=
  match wl with
  | some l =>
    match toBytes sha256 l false words with
    | none => none
    | some _ => some (pbkdf2 mnemonicUtf8 (mnemonicLabel ++ passwordUtf8) pbkdf2Rounds 64)
  | none => some (pbkdf2 mnemonicUtf8 (mnemonicLabel ++ passwordUtf8) pbkdf2Rounds 64)

/-- `find_candidates(word_part, nmax, wordlist)` with `startsWith w = w.startswith(word_part)`:
    the loop appends a match and then breaks as soon as `len(candidates) >= nmax` (so `nmax = 0` still
    lets a match of the first word through). -/
def findCandidates {W : Type} (startsWith : W → Bool) (nmax : Nat) : List W → List W → List W
  | cands, [] => cands
  | cands, w :: ws =>
    let cands := if startsWith w then cands ++ [w] else cands
    if cands.length >= nmax then cands else findCandidates startsWith nmax cands ws

/-! ### string layer: `mnemonic.strip().split()` and `" ".join(words)` over an abstract alphabet -/

/-- `s.strip().split()`: maximal runs of non-white-space characters -/
def splitWs {C : Type} (isSpace : C → Bool) : List C → List C → List (List C)
  | cur, [] => if cur.isEmpty then [] else [cur]
  | cur, c :: cs =>
    if isSpace c then (if cur.isEmpty then splitWs isSpace [] cs else cur :: splitWs isSpace [] cs)
    else splitWs isSpace (cur ++ [c]) cs

/-- `sp.join(words)` -/
def joinSp {C : Type} (sp : C) : List (List C) → List C
  | [] => []
  | [w] => w
  | w :: ws => w ++ sp :: joinSp sp ws

end Embit.Model.Bip39
