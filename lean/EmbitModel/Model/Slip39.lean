import EmbitModel.Basic.Bytes
/-
  Model of embit `slip39.py` (after the `fix:` patches fixes/slip39-threshold-one.diff and
  fixes/slip39-share-length.diff). Follows the Python function by function.

  * byte strings are `Bytes = List UInt8`; Python ints are `Nat` (`Int` where a difference may go negative)
  * HMAC-SHA256 and PBKDF2-HMAC-SHA256 are parameters (`Prims`): theorems hold for every instantiation,
    the driver plugs in the executable reference implementations
  * randomness is an explicit tape: the k-th call of `randint` returns the k-th element of the tape
  * a Python exception is `none` (exception classes are not modelled)
  * word <-> index conversion (`SLIP39_WORDS.index`, a bijection on 1024 distinct words, checked by the
    harness) is outside the model: mnemonics are lists of word indices
-/
namespace Embit.Model.Slip39
open Embit

/-! ### RS1024 checksum -/

def rs1024Gen : List Nat :=
  [0xE0E040, 0x1C1C080, 0x3838100, 0x7070200, 0xE0E0009, 0x1C0C2412, 0x38086C24, 0x3090FC48, 0x21B1F890, 0x3F3F120]

/-- `for i in range(10): chk ^= GEN[i] if ((b >> i) & 1) else 0`, started at index `i` with the remaining
    generator constants -/
def genFold (b : Nat) : List Nat → Nat → Nat → Nat
  | [], _, chk => chk
  | g :: gs, i, chk => genFold b gs (i + 1) (chk ^^^ (if (b >>> i) &&& 1 = 1 then g else 0))

/-- one iteration of the loop body of `rs1024_polymod` -/
def rs1024Step (chk v : Nat) : Nat :=
  genFold (chk >>> 20) rs1024Gen 0 (((chk &&& 0xFFFFF) <<< 10) ^^^ v)

def rs1024Polymod (values : List Nat) : Nat := values.foldl rs1024Step 1

/-- customisation string `b"shamir"` as the list of its byte values -/
def csShamir : List Nat := [115, 104, 97, 109, 105, 114]

def rs1024Verify (cs data : List Nat) : Bool := rs1024Polymod (cs ++ data) == 1

def rs1024Create (cs data : List Nat) : List Nat :=
  let polymod := rs1024Polymod (cs ++ data ++ [0, 0, 0]) ^^^ 1
  [(polymod >>> 20) &&& 1023, (polymod >>> 10) &&& 1023, polymod &&& 1023]

/-! ### exp / log tables (`ShareSet._load`) -/

/-- `cur = (cur << 1) ^ cur; if cur > 255: cur ^= 0x11B` -/
def loadNext (cur : Nat) : Nat :=
  let c := (cur <<< 1) ^^^ cur
  if c > 255 then c ^^^ 0x11B else c

/-- the loop of `_load`: state = (exp, log2, cur); `exp[i] = cur; log2[cur] = i` -/
def loadLoop : Nat → Nat → (List Nat × List Nat × Nat) → (List Nat × List Nat × Nat)
  | 0, _, st => st
  | n + 1, i, (e, l, cur) => loadLoop n (i + 1) (e.set i cur, l.set cur i, loadNext cur)

def loadTables : List Nat × List Nat × Nat :=
  loadLoop 255 0 (List.replicate 255 0, List.replicate 256 0, 1)

def expTable : List Nat := loadTables.1
def logTable : List Nat := loadTables.2.1

/-- `cls.exp[i]` (index always < 255 at the call sites) -/
def exp (i : Nat) : Nat := expTable.getD i 0
/-- `cls.log2[a]` (index always < 256 at the call sites) -/
def log (a : Nat) : Nat := logTable.getD a 0

/-! ### interpolation -/

def sumNat (l : List Nat) : Nat := l.foldr (· + ·) 0

/-- the byte update `c ^ (exp[(log2[y] + log) % 255] if y > 0 else 0)` -/
def mixByte (lg : Nat) (y c : UInt8) : UInt8 :=
  c ^^^ (if y.toNat > 0 then UInt8.ofNat (exp ((log y.toNat + lg) % 255)) else 0)

/-- `(log_numerator - log_denominator) % 255` for one share -/
def lagrangeLog (x : Nat) (xs : List Nat) (shareX : Nat) : Nat :=
  let logProduct := sumNat (xs.map fun sx => log (sx ^^^ x))
  let logNumerator : Int := (logProduct : Int) - (log (shareX ^^^ x) : Int)
  let logDenominator : Int := (sumNat (xs.map fun ox => log (shareX ^^^ ox)) : Int)
  ((logNumerator - logDenominator) % 255).toNat

/-- `ShareSet.interpolate(x, share_data)`; `share_data` non-empty at every call site (Python raises
    `IndexError` on `share_data[0]` otherwise; the model then returns the empty string) -/
def interpolate (x : Nat) (shareData : List (Nat × Bytes)) : Bytes :=
  let xs := shareData.map (·.1)
  let init : Bytes := match shareData with
    | [] => []
    | s :: _ => List.replicate s.2.length 0
  shareData.foldl (fun result s => List.zipWith (mixByte (lagrangeLog x xs s.1)) s.2 result) init

/-! ### primitives -/

structure Prims where
  /-- `hmac.new(key, msg, "sha256").digest()` -/
  hmac : Bytes → Bytes → Bytes
  /-- `hashlib.pbkdf2_hmac("sha256", password, salt, iterations, dklen)` -/
  pbkdf2 : Bytes → Bytes → Nat → Nat → Bytes

/-- `ShareSet.digest(r, shared_secret)` -/
def digest (P : Prims) (r sharedSecret : Bytes) : Bytes := (P.hmac r sharedSecret).take 4

/-! ### splitting / recovering one level -/

/-- `bytes(randint(0, 255) for _ in range(n))`: consumes `n` draws; `bytes()` raises on a value > 255 -/
def drawBytes : Nat → List Nat → Option (Bytes × List Nat)
  | 0, tape => some ([], tape)
  | _ + 1, [] => none
  | n + 1, t :: tape =>
    if t < 256 then
      match drawBytes n tape with
      | some (bs, rest) => some (UInt8.ofNat t :: bs, rest)
      | none => none
    else none

/-- `[(i, bytes(randint(0,255) for _ in range(num_bytes))) for i in range(k - 2)]`, indices from `i` -/
def drawShares (numBytes : Nat) : Nat → Nat → List Nat → Option (List (Nat × Bytes) × List Nat)
  | 0, _, tape => some ([], tape)
  | c + 1, i, tape =>
    match drawBytes numBytes tape with
    | none => none
    | some (bs, rest) =>
      match drawShares numBytes c (i + 1) rest with
      | none => none
      | some (l, rest') => some ((i, bs) :: l, rest')

/-- `ShareSet.split_secret(secret, k, n, randint)` (fixed: `k == 1` yields n shares) -/
def splitSecret (P : Prims) (secret : Bytes) (k n : Nat) (tape : List Nat) : Option (List (Nat × Bytes)) :=
  if n < 1 then none else
  if n > 16 then none else
  if k < 1 then none else
  if k > n then none else
  let numBytes := secret.length
  if numBytes ≠ 16 ∧ numBytes ≠ 32 then none else
  if k = 1 then some ((List.range n).map fun i => (i, secret)) else
  match drawBytes (numBytes - 4) tape with
  | none => none
  | some (r, tape1) =>
    let digestShare := digest P r secret ++ r
    match drawShares numBytes (k - 2) 0 tape1 with
    | none => none
    | some (base, _) =>
      let shareData := base ++ [(254, digestShare), (255, secret)]
      some (base ++ (List.range' (k - 2) (n - (k - 2))).map fun i => (i, interpolate i shareData))

/-- `ShareSet.recover_secret(share_data)` -/
def recoverSecret (P : Prims) (shareData : List (Nat × Bytes)) : Option Bytes :=
  let sharedSecret := interpolate 255 shareData
  let digestShare := interpolate 254 shareData
  let dg := digestShare.take 4
  let random := digestShare.drop 4
  if dg ≠ digest P random sharedSecret then none else some sharedSecret

/-! ### Feistel encryption -/

def xorBytes (a b : Bytes) : Bytes := List.zipWith (· ^^^ ·) a b

/-- `b"shamir"` -/
def shamirBytes : Bytes := [115, 104, 97, 109, 105, 114]

/-- one Feistel round: `left, right = right, bytes(x ^ y for x, y in zip(left, f))` -/
def feistelRound (P : Prims) (salt passphrase : Bytes) (iters half : Nat) (st : Bytes × Bytes) (i : UInt8) :
    Bytes × Bytes :=
  (st.2, xorBytes st.1 (P.pbkdf2 (i :: passphrase) (salt ++ st.2) iters half))

/-- `_crypt(payload, id, exponent, passphrase, indices)`; `id.to_bytes(2, "big")` raises for id ≥ 65536,
    `pbkdf2_hmac` raises for `dklen = 0` -/
def crypt (P : Prims) (payload : Bytes) (id exponent : Nat) (passphrase : Bytes) (indices : List UInt8) :
    Option Bytes :=
  if payload.length % 2 ≠ 0 then none else
  let half := payload.length / 2
  if id ≥ 65536 then none else
  if half = 0 ∧ indices ≠ [] then none else
  let left := payload.take half
  let right := payload.drop half
  let salt := shamirBytes ++ beN 2 id
  let st := indices.foldl (feistelRound P salt passphrase (2500 <<< exponent) half) (left, right)
  some (st.2 ++ st.1)

def encrypt (P : Prims) (payload : Bytes) (id exponent : Nat) (passphrase : Bytes) : Option Bytes :=
  crypt P payload id exponent passphrase [0, 1, 2, 3]

def decrypt (P : Prims) (payload : Bytes) (id exponent : Nat) (passphrase : Bytes) : Option Bytes :=
  crypt P payload id exponent passphrase [3, 2, 1, 0]

/-! ### shares -/

structure Share where
  shareBitLength : Nat
  id : Nat
  exponent : Nat
  groupIndex : Nat
  groupThreshold : Nat
  groupCount : Nat
  memberIndex : Nat
  memberThreshold : Nat
  value : Nat
deriving DecidableEq, Repr, Inhabited

/-- the checks of `Share.__init__` (including `value.to_bytes(share_bit_length // 8, "big")`) -/
def Share.initOk (s : Share) : Bool :=
  !(s.groupIndex > 15) &&
  !(s.groupThreshold < 1 || s.groupThreshold > s.groupCount) &&
  !(s.groupCount < 1 || s.groupCount > 16) &&
  !(s.memberIndex > 15) &&
  !(s.memberThreshold < 1 || s.memberThreshold > 16) &&
  decide (s.value < 256 ^ (s.shareBitLength / 8))

def Share.new? (s : Share) : Option Share := if s.initOk then some s else none

/-- `self.bytes` -/
def Share.bytes (s : Share) : Bytes := beN (s.shareBitLength / 8) s.value

/-- `for index in indices[4:-3]: value = (value << 10) | index` -/
def valueOfWords (ws : List Nat) : Nat := ws.foldl (fun v w => (v <<< 10) ||| w) 0

/-- the header fields `Share.parse` reads from the first four words -/
def headerOf (i0 i1 i2 i3 shareBitLength value : Nat) : Share :=
  { shareBitLength, value,
    id := (i0 <<< 5) ||| (i1 >>> 5),
    exponent := i1 &&& 31,
    groupIndex := i2 >>> 6,
    groupThreshold := ((i2 >>> 2) &&& 15) + 1,
    groupCount := (((i2 &&& 3) <<< 2) ||| (i3 >>> 8)) + 1,
    memberIndex := (i3 >>> 4) &&& 15,
    memberThreshold := (i3 &&& 15) + 1 }

/-- `Share.parse` on the list of word indices (every index < 1024) -/
def Share.parse (indices : List Nat) : Option Share :=
  if !rs1024Verify csShamir indices then none else
  match indices with
  | i0 :: i1 :: i2 :: i3 :: rest =>
    -- fewer than 7 words: Python raises (negative shift count, or "not enough bits")
    if indices.length < 7 then none else
    let value := valueOfWords (rest.take (rest.length - 3))
    let shareBitLength := (indices.length - 7) * 10 / 16 * 16
    if value >>> shareBitLength ≠ 0 then none else
    if shareBitLength < 128 then none else
    if (indices.length - 7) * 10 - shareBitLength > 8 then none else
    Share.new? (headerOf i0 i1 i2 i3 shareBitLength value)
  | _ => none     -- IndexError on indices[0..3]

/-- `[(all_bits >> 10 * (num_words - i - 1)) & 1023 for i in range(num_words)]` -/
def wordsOfBits (allBits numWords : Nat) : List Nat :=
  (List.range numWords).map fun i => (allBits >>> (10 * (numWords - i - 1))) &&& 1023

/-- the `all_bits` accumulator of `Share.mnemonic` -/
def Share.allBits (s : Share) : Nat :=
  let a := (s.id <<< 5) ||| s.exponent
  let a := (a <<< 4) ||| s.groupIndex
  let a := (a <<< 4) ||| (s.groupThreshold - 1)
  let a := (a <<< 4) ||| (s.groupCount - 1)
  let a := (a <<< 4) ||| s.memberIndex
  let a := (a <<< 4) ||| (s.memberThreshold - 1)
  let padding := (10 - s.shareBitLength % 10) % 10      -- Python: `-share_bit_length % 10`
  (a <<< (padding + s.shareBitLength)) ||| s.value

/-- `Share.mnemonic` as a list of word indices -/
def Share.mnemonic (s : Share) : List Nat :=
  let padding := (10 - s.shareBitLength % 10) % 10
  let numWords := 4 + (padding + s.shareBitLength) / 10
  let indices := wordsOfBits s.allBits numWords
  indices ++ rs1024Create csShamir indices

/-! ### share sets -/

structure ShareSet where
  shares : List Share
  id : Nat
  exponent : Nat
  groupThreshold : Nat
  groupCount : Nat
  shareBitLength : Nat
deriving Repr

def nodupB : List (Nat × Nat) → Bool
  | [] => true
  | a :: l => !(l.contains a) && nodupB l

/-- the consistency checks of `ShareSet.__init__` for more than one share (`len({…}) != 1` on sets) -/
def consistent (s0 : Share) (shares : List Share) : Bool :=
  shares.all (fun s => s.id == s0.id) &&
  shares.all (fun s => s.exponent == s0.exponent) &&
  shares.all (fun s => s.groupThreshold == s0.groupThreshold) &&
  shares.all (fun s => s.groupCount == s0.groupCount) &&
  !(s0.groupThreshold > s0.groupCount) &&
  shares.all (fun s => s.shareBitLength == s0.shareBitLength) &&
  nodupB (shares.map fun s => (s.groupIndex, s.memberIndex))

/-- `ShareSet(shares)` -/
def ShareSet.new? (shares : List Share) : Option ShareSet :=
  match shares with
  | [] => none      -- IndexError on shares[0]
  | s0 :: _ =>
    if shares.length > 1 && !consistent s0 shares then none else
    some { shares, id := s0.id, exponent := s0.exponent, groupThreshold := s0.groupThreshold,
           groupCount := s0.groupCount, shareBitLength := s0.shareBitLength }

/-- one iteration of the group loop of `recover`: `none` = exception, `some none` = empty group skipped -/
def recoverGroup (P : Prims) (i : Nat) (group : List Share) : Option (Option (Nat × Bytes)) :=
  match group with
  | [] => some none
  | g0 :: _ =>
    if !group.all (fun s => s.memberThreshold == g0.memberThreshold) then none else
    let mt := g0.memberThreshold
    if mt = 1 then some (some (i, g0.bytes)) else
    if mt > group.length then none else
    match recoverSecret P (group.map fun s => (s.memberIndex, s.bytes)) with
    | none => none
    | some sec => some (some (i, sec))

def gatherGroups (P : Prims) : List (Nat × List Share) → Option (List (Nat × Bytes))
  | [] => some []
  | (i, g) :: rest =>
    match recoverGroup P i g with
    | none => none
    | some r =>
      match gatherGroups P rest with
      | none => none
      | some l => some (match r with | none => l | some d => d :: l)

/-- `ShareSet.recover(passphrase)` -/
def ShareSet.recover (P : Prims) (ss : ShareSet) (passphrase : Bytes) : Option Bytes :=
  -- `groups[share.group_index].append(share)`: IndexError when the index is not below group_count
  if ss.shares.any (fun s => s.groupIndex ≥ ss.groupCount) then none else
  let groups := (List.range ss.groupCount).map fun i => (i, ss.shares.filter fun s => s.groupIndex == i)
  match gatherGroups P groups with
  | none => none
  | some shareData =>
    if ss.groupThreshold = 1 then
      match shareData with
      | [] => none
      | d :: _ => decrypt P d.2 ss.id ss.exponent passphrase
    else if ss.groupThreshold > shareData.length then none
    else
      match recoverSecret P shareData with
      | none => none
      | some sec => decrypt P sec ss.id ss.exponent passphrase

/-- `ShareSet.generate_shares` from the secret bytes (the BIP39 conversion is C15's): the first draw is
    `id = randint(0, 32767)` -/
def generateShares (P : Prims) (secret : Bytes) (k n : Nat) (passphrase : Bytes) (exponent : Nat)
    (tape : List Nat) : Option (List (List Nat)) :=
  let numBits := secret.length * 8
  if numBits ≠ 128 ∧ numBits ≠ 256 then none else
  match tape with
  | [] => none
  | id :: tape1 =>
    match encrypt P secret id exponent passphrase with
    | none => none
    | some encrypted =>
      match splitSecret P encrypted k n tape1 with
      | none => none
      | some data =>
        data.mapM fun d =>
          (Share.new? { shareBitLength := numBits, id, exponent, groupIndex := d.1, groupThreshold := k,
                        groupCount := n, memberIndex := 0, memberThreshold := 1, value := ofBe d.2 }).map
            Share.mnemonic

/-- `ShareSet.recover_mnemonic` up to the BIP39 conversion: word-index lists in, secret bytes out -/
def recoverShares (P : Prims) (mnemonics : List (List Nat)) (passphrase : Bytes) : Option Bytes :=
  match mnemonics.mapM Share.parse with
  | none => none
  | some shares =>
    match ShareSet.new? shares with
    | none => none
    | some ss => ss.recover P passphrase

end Embit.Model.Slip39
