/-
  C20 — the locking protocol of embit's native binding layer (`embit/util/ctypes_secp256k1.py`).

  What is modelled: threads are sequences of atomic steps; the store has ONE lock (`_lock`), ONE shared library
  context (`_secp.ctx`), and buffers that are either private to a thread (allocated by the call, or an argument the
  calling thread owns) or shared by everybody (a code-object constant such as `b"\x00" * 32`, a module global, a
  default value). A native call is NOT atomic (ctypes releases the GIL while C code runs): it takes two scheduler
  ticks, `enter` (the call starts to use the context) and `exit` (it writes its out-buffers); when another call
  used the context in between, the output is garbage. A schedule is a list of thread ids (one tick each).

  What is NOT modelled: the GIL, ctypes, the C library (its results are the abstract values carried by the steps;
  that they do not depend on the context's randomisation is libsecp256k1's contract).

  The per-function step lists are not written here: they are probed from the loaded module on every run
  (harness/bindprobe.py) and arrive as `Embit.Gen.Binding.bindingFns` (Generated/BindingFacts.lean).
-/
namespace Embit.Model.Lock

abbrev Tid := Nat
abbrev Val := Nat

inductive Buf
  | priv (owner : Tid) (k : Nat)   -- fresh per call / owned by the calling thread
  | shared (k : Nat)               -- one object for every call and thread
  deriving DecidableEq, Repr

inductive Step
  | acquire
  | release
  | nativeCall (f : String) (outs : List (Buf × Val))   -- C writes `v` into each out-buffer
  | copyOut (b : Buf)                                   -- the thread reads the buffer into its result
  | «local»
  deriving Repr

structure State where
  lock : Option Tid            -- holder of `_lock`
  ctx  : Option Tid            -- whose native call used the shared context last
  mid  : Tid → Bool            -- thread is inside a native call (between enter and exit)
  bufs : Buf → Val
  rest : Tid → List Step       -- remaining program of every thread
  res  : Tid → List Val        -- values read so far = the thread's results

def upd {α β : Type} [DecidableEq α] (f : α → β) (a : α) (b : β) : α → β :=
  fun x => if x = a then b else f x

/-- what a disturbed native call leaves in its out-buffer -/
def garble (v : Val) : Val := v + 1

def writeAll (ok : Bool) (outs : List (Buf × Val)) (m : Buf → Val) : Buf → Val :=
  outs.foldl (fun m bv => upd m bv.1 (if ok then bv.2 else garble bv.2)) m

/-- one scheduler tick of thread `t` -/
def step (t : Tid) (s : State) : State :=
  match s.rest t with
  | [] => s
  | .acquire :: r =>
    match s.lock with
    | none => { s with lock := some t, rest := upd s.rest t r }
    | some _ => s                                           -- blocked
  | .release :: r => { s with lock := none, rest := upd s.rest t r }   -- threading.Lock: any thread may release
  | .nativeCall _ outs :: r =>
    if s.mid t then
      { s with mid := upd s.mid t false, bufs := writeAll (s.ctx == some t) outs s.bufs, rest := upd s.rest t r }
    else
      { s with mid := upd s.mid t true, ctx := some t }
  | .copyOut b :: r => { s with res := upd s.res t (s.res t ++ [s.bufs b]), rest := upd s.rest t r }
  | .local :: r => { s with rest := upd s.rest t r }

def run (sched : List Tid) (s : State) : State := sched.foldl (fun s t => step t s) s

def init (progs : Tid → List Step) : State :=
  { lock := none, ctx := none, mid := fun _ => false, bufs := fun _ => 0, rest := progs, res := fun _ => [] }

/-- scheduler ticks a program needs when it is never blocked -/
def ticks : List Step → Nat
  | [] => 0
  | .nativeCall _ _ :: r => 2 + ticks r
  | _ :: r => 1 + ticks r

/-- thread 0 to completion, then thread 1, … thread n-1 -/
def serialSched (progs : Tid → List Step) : Nat → List Tid
  | 0 => []
  | n + 1 => serialSched progs n ++ List.replicate (ticks (progs n)) n

def complete (s : State) : Prop := ∀ t, s.rest t = []

/-! ### a thread on its own ("what the call returns if run alone") -/

structure Local where
  view : Buf → Val
  res  : List Val
  hold : Option (List Buf)     -- `some ws`: holds the lock and has written `ws` since acquiring it

def lstep (l : Local) : Step → Local
  | .acquire => { l with hold := some [] }
  | .release => { l with hold := none }
  | .nativeCall _ outs => { l with view := writeAll true outs l.view, hold := l.hold.map (· ++ outs.map (·.1)) }
  | .copyOut b => { l with res := l.res ++ [l.view b] }
  | .local => l

def lrun (l : Local) (p : List Step) : Local := p.foldl lstep l

def local0 : Local := { view := fun _ => 0, res := [], hold := none }

/-- the results of a program executed alone -/
def solo (p : List Step) : List Val := (lrun local0 p).res

/-! ### the discipline (decidable per program) -/

def okWrite (t : Tid) : Buf → Bool
  | .priv o _ => o == t
  | .shared _ => true

def okRead (t : Tid) (h : Option (List Buf)) : Buf → Bool
  | .priv o _ => o == t
  | .shared k => match h with
    | some ws => ws.contains (.shared k)
    | none => false

/-- `safe t h p`: thread `t`, currently in hold state `h`, runs `p` such that every native call happens while it holds
    the lock, it never re-acquires, ends with the lock released, writes only its own or shared buffers, and reads a
    shared buffer only inside the same lock hold in which its own native call wrote it. -/
def safe (t : Tid) : Option (List Buf) → List Step → Bool
  | h, [] => h.isNone
  | h, .acquire :: r => h.isNone && safe t (some []) r
  | h, .release :: r => h.isSome && safe t none r
  | h, .nativeCall _ outs :: r =>
    match h with
    | none => false
    | some ws => outs.all (fun bv => okWrite t bv.1) && safe t (some (ws ++ outs.map (·.1))) r
  | h, .copyOut b :: r => okRead t h b && safe t h r
  | h, .local :: r => safe t h r

/-! ### facts about one binding function, as probed from the loaded module -/

inductive Origin
  | fresh       -- allocated by the call
  | callerArg   -- an argument of the caller (documented in-place variants)
  | shared      -- constant of a code object / module global / default value / recurs between calls
  deriving DecidableEq, Repr

structure ABuf where
  origin : Origin
  idx : Nat
  deriving DecidableEq, Repr

inductive AStep
  | acq
  | rel
  | native (sym : String) (underLock : Bool) (outs : List ABuf)
  | read (b : ABuf)
  deriving Repr

structure BindingFn where
  name : String
  probed : Bool
  callsNative : Bool
  nativeUnderLock : Bool
  outBuffersFresh : Bool
  copiesBeforeRelease : Bool
  lockReentered : Bool
  steps : List AStep
  deriving Repr

/-- buffer of operation number `op` of thread `t` -/
def bufOf (t op : Nat) (b : ABuf) : Buf :=
  match b.origin with
  | .fresh => .priv t (op * 64 + b.idx)
  | .callerArg => .priv t (op * 64 + 32 + b.idx)
  | .shared => .shared b.idx

/-- the value operation `op` of thread `t` computes (any injective tagging would do) -/
def token (t op : Nat) : Val := (t + 1) * 1000 + op + 1

def compileStep (t op : Nat) : AStep → Step
  | .acq => .acquire
  | .rel => .release
  | .native sym _ outs => .nativeCall sym (outs.map (fun b => (bufOf t op b, token t op)))
  | .read b => .copyOut (bufOf t op b)

def compile (t op : Nat) (steps : List AStep) : List Step := steps.map (compileStep t op)

/-- the discipline on abstract steps (mirrors `safe`; no thread or operation number needed) -/
def okSteps : Option (List ABuf) → List AStep → Bool
  | h, [] => h.isNone
  | h, .acq :: r => h.isNone && okSteps (some []) r
  | h, .rel :: r => h.isSome && okSteps none r
  | h, .native _ _ outs :: r =>
    match h with
    | none => false
    | some ws => okSteps (some (ws ++ outs)) r
  | h, .read b :: r =>
    (match b.origin with
     | .shared => (match h with | some ws => ws.contains b | none => false)
     | _ => true) && okSteps h r

/-- summaries recomputed from the steps (the probe emits them too; `Props.C20.facts_consistent` compares) -/
def stepsLocked : Bool → List AStep → Bool
  | h, [] => !h
  | h, .acq :: r => !h && stepsLocked true r
  | h, .rel :: r => h && stepsLocked false r
  | h, .native _ u _ :: r => h && u && stepsLocked h r
  | h, .read _ :: r => stepsLocked h r

def stepsFresh : List AStep → Bool
  | [] => true
  | .native _ _ outs :: r => outs.all (fun b => b.origin != .shared) && stepsFresh r
  | .read b :: r => b.origin != .shared && stepsFresh r
  | _ :: r => stepsFresh r

def stepsCallNative : List AStep → Bool
  | [] => false
  | .native _ _ _ :: _ => true
  | _ :: r => stepsCallNative r

/-- programs of several threads, each a list of operations (indices into a table of binding functions) -/
def compileOps (t : Nat) : Nat → List (List AStep) → List Step
  | _, [] => []
  | op, f :: r => compile t op f ++ compileOps t (op + 1) r

def progsOf (threads : List (List (List AStep))) : Tid → List Step :=
  fun t => match threads[t]? with
    | some ops => compileOps t 0 ops
    | none => []

end Embit.Model.Lock
