import EmbitModel.Model.Liquid
import EmbitModel.Model.Base58
/-
  Model of the base58 branch of embit `liquid/addresses.py`: `address(script, blinding_key, network)` for a P2SH
  script (`bp2sh` confidential / `p2sh` unconfidential Base58Check addresses) and `addr_decode(addr)` with its
  dispatch (`"Fee"`, blech32 prefix, bech32 prefix, otherwise base58). Python `str` = `List Char` (as in
  Model/Base58.lean); `str.lower()` is modelled on ASCII letters (the check feeds ASCII only). The double SHA-256
  and `ec.PublicKey.parse` are parameters.
-/
namespace Embit.Model.LAddr

/-- the address prefixes of one entry of `liquid.networks.NETWORKS` (`bp2sh` / `blech32` absent for the bitcoin
    networks the table also contains) -/
structure Net where
  name : String
  p2sh : Bytes
  bp2sh : Option Bytes
  bech32 : List Char
  blech32 : Option (List Char)
deriving Repr, Inhabited

/-- `liquid.networks.NETWORKS` (the three Liquid networks followed by `embit.networks.NETWORKS`), compared with the
    loaded module on every run of the check (op `laddr.nets`) -/
def nets : List Net :=
  [ { name := "liquidv1", p2sh := [0x27], bp2sh := some [0x0c, 0x27], bech32 := ['e', 'x'], blech32 := some ['l', 'q'] },
    { name := "elementsregtest", p2sh := [0x4b], bp2sh := some [0x04, 0x4b], bech32 := ['e', 'r', 't'],
      blech32 := some ['e', 'l'] },
    { name := "liquidtestnet", p2sh := [0x13], bp2sh := some [0x17, 0x13], bech32 := ['t', 'e', 'x'],
      blech32 := some ['t', 'l', 'q'] },
    { name := "main", p2sh := [0x05], bp2sh := none, bech32 := ['b', 'c'], blech32 := none },
    { name := "test", p2sh := [0xc4], bp2sh := none, bech32 := ['t', 'b'], blech32 := none },
    { name := "regtest", p2sh := [0xc4], bp2sh := none, bech32 := ['b', 'c', 'r', 't'], blech32 := none },
    { name := "signet", p2sh := [0xc4], bp2sh := none, bech32 := ['t', 'b'], blech32 := none } ]

/-- ASCII `str.lower()` of one character -/
def lowerChar (c : Char) : Char := if 'A' ≤ c ∧ c ≤ 'Z' then Char.ofNat (c.toNat + 32) else c

/-- `addr.split("1")[0].lower()` -/
def hrpPart (addr : List Char) : List Char := (addr.takeWhile (· ≠ '1')).map lowerChar

def blech32Hrps : List (List Char) := nets.filterMap (·.blech32)
def bech32Hrps : List (List Char) := nets.map (·.bech32)
def bp2shPrefixes : List Bytes := nets.filterMap (·.bp2sh)
def p2shPrefixes : List Bytes := nets.map (·.p2sh)

/-- `address(script, blinding_key, network)` when `script.script_type() == "p2sh"`: `data = script.data[2:-1]`,
    Base58Check of `bp2sh ‖ sec(blinding key) ‖ data` or of `p2sh ‖ data`. `none`: another branch ("Fee", segwit) or
    the network has no `bp2sh` entry (KeyError). -/
def addressP2sh (dsha : Bytes → Bytes) (net : Net) (spk : Bytes) (pub : Option Bytes) : Option (List Char) :=
  if spk.isEmpty then none else
  if !isP2sh spk then none else
  let data := (spk.drop 2).dropLast
  match pub with
  | none => some (Base58.encodeCheck dsha (net.p2sh ++ data))
  | some k =>
    match net.bp2sh with
    | none => none
    | some pre => some (Base58.encodeCheck dsha (pre ++ k ++ data))

/-- which branch of `addr_decode` an address takes, and the result of the base58 branch
    (`none` inside = Python raises) -/
inductive Route where
  | fee
  | blech32
  | bech32
  | base58 (r : Option (Bytes × Option Bytes))
deriving Repr, DecidableEq

/-- `addr_decode(addr)`: dispatch, and the base58 branch in full (the other two branches are `confAddrDecode` of
    Model/Liquid.lean and C11's bech32 decoder) -/
def addrDecode (validSec : Bytes → Bool) (dsha : Bytes → Bytes) (addr : List Char) : Route :=
  if addr = ['F', 'e', 'e'] then .fee
  else if blech32Hrps.contains (hrpPart addr) then .blech32
  else if bech32Hrps.contains (hrpPart addr) then .bech32
  else
    match Base58.decodeCheck dsha addr with
    | none => .base58 none
    | some data =>
      if bp2shPrefixes.contains (data.take 2) then
        let pub := (data.drop 2).take 33
        if validSec pub then .base58 (some ([0xa9, 0x14] ++ data.drop 35 ++ [0x87], some pub))
        else .base58 none
      else if p2shPrefixes.contains (data.take 1) then
        .base58 (some ([0xa9, 0x14] ++ data.drop 1 ++ [0x87], none))
      else .base58 none

end Embit.Model.LAddr
