import EmbitModel.Model.EcOps
import EmbitModel.Model.Der
/-
  Model of `embit/util/py_secp256k1.py` (every binding function it shares with `ctypes_secp256k1.py`) and of the
  parts of `embit/util/key.py` they call (ECKey / ECPubKey / deterministic_k / sign_schnorr / verify_schnorr),
  plus `ec.py: PrivateKey.sign` (grinding), `Signature.parse`.

  Byte level: length checks, endianness of the 64-byte internal pubkey / signature structures (little-endian
  halves), range checks, what raises. `none` = the Python raises (any ordinary exception). The model follows the
  code after the C08 `fix:` patches (fixes/01 … 13); the pre-fix behaviour is kept in `Legacy` at the end for the
  witness theorems. Curve and hash operations are the abstract `EcOps` / `HashOps`.
-/
namespace Embit.Model.PySecp
open Embit Embit.Model

def EC_COMPRESSED : Nat := 0b0100000010
def EC_UNCOMPRESSED : Nat := 0b0000000010

variable (E : EcOps) (H : HashOps)

/-- `extra_data is not None and len(extra_data) != 32` -/
def badExtra : Option Bytes → Bool
  | some e => e.length != 32
  | none => false

/-! ### the 64-byte internal structures -/

/-- `_pubkey_parse(b)`: `ECPubKey().set(b"\x04" + _reverse64(b))` — two little-endian halves; valid when both
    coordinates are reduced (fix 03) and the point is on the curve. `none` = `pub.is_valid` is False. -/
def pubLoad (b : Bytes) : Option E.Pt :=
  let x := ofLe (b.take 32)
  let y := ofLe (b.drop 32)
  if x < E.p ∧ y < E.p then E.ofXY x y else none

/-- `_pubkey_serialize(pub)`: uncompressed `get_bytes()[1:]`, halves reversed. Infinity: `get_bytes()` is None and
    slicing it raises. -/
def pubStore (P : E.Pt) : Option Bytes :=
  match E.xy P with
  | none => none
  | some (x, y) => some (leN 32 x ++ leN 32 y)

/-- `ECKey.set`: `valid = 0 < secret < n` -/
def seckeyValid (d : Nat) : Bool := 0 < d && d < E.n

/-! ### keys -/

def ecPubkeyCreate (secret : Bytes) : Option Bytes :=
  if secret.length ≠ 32 then none else
  let d := ofBe secret
  if seckeyValid E d then pubStore E (E.mul d E.g) else none

/-- `ECPubKey.set` on a compressed encoding `pre ‖ x` (33 bytes, `pre ∈ {2,3}` checked by the callers) -/
def setCompressed (pre : UInt8) (body : Bytes) : Option E.Pt :=
  let x := ofBe body
  if x < E.p then
    match E.liftX x with
    | none => none
    | some P => some (if pre.toNat % 2 = 1 then E.neg P else P)
  else none

def ecPubkeyParse (sec : Bytes) : Option Bytes :=
  if sec.length ≠ 33 ∧ sec.length ≠ 65 then none else
  match sec with
  | [] => none
  | pre :: body =>
    if sec.length = 33 then
      if pre ≠ 0x02 ∧ pre ≠ 0x03 then none else
      match setCompressed E pre body with
      | none => none
      | some P => pubStore E P
    else
      if pre ≠ 0x04 then none else
      let x := ofBe (body.take 32)
      let y := ofBe (body.drop 32)
      if x < E.p ∧ y < E.p then
        match E.ofXY x y with
        | none => none
        | some P => pubStore E P
      else none

def ecPubkeySerialize (pub : Bytes) (flag : Nat) : Option Bytes :=
  if pub.length ≠ 64 then none else
  if flag ≠ EC_COMPRESSED ∧ flag ≠ EC_UNCOMPRESSED then none else
  match pubLoad E pub with
  | none => none
  | some P =>
    match E.xy P with
    | none => none
    | some (x, y) =>
      if flag = EC_COMPRESSED then some (UInt8.ofNat (2 + y % 2) :: beN 32 x)
      else some (0x04 :: (beN 32 x ++ beN 32 y))

def ecSeckeyVerify (secret : Bytes) : Option Bool :=
  if secret.length ≠ 32 then none else some (seckeyValid E (ofBe secret))

/-- after fix 05: an invalid secret raises -/
def ecPrivkeyNegate (secret : Bytes) : Option Bytes :=
  if secret.length ≠ 32 then none else
  let s := ofBe secret
  if s = 0 ∨ s ≥ E.n then none else some (beN 32 (E.n - s))

/-- `ec_pubkey_parse(bytes([0x05 - sec[0]]) + sec[1:])` of the compressed serialisation -/
def ecPubkeyNegate (pub : Bytes) : Option Bytes :=
  if pub.length ≠ 64 then none else
  match ecPubkeySerialize E pub EC_COMPRESSED with
  | none => none
  | some [] => none
  | some (pre :: x) => ecPubkeyParse E (UInt8.ofNat (5 - pre.toNat) :: x)

/-- after fix 01 -/
def ecPrivkeyAdd (secret tweak : Bytes) : Option Bytes :=
  if secret.length ≠ 32 ∨ tweak.length ≠ 32 then none else
  let s := ofBe secret
  let t := ofBe tweak
  if s = 0 ∨ s ≥ E.n ∨ t ≥ E.n then none else
  let r := (s + t) % E.n
  if r = 0 then none else some (beN 32 r)

/-- after fix 02 -/
def ecPubkeyAdd (pub tweak : Bytes) : Option Bytes :=
  if pub.length ≠ 64 then none else
  if tweak.length ≠ 32 then none else
  match pubLoad E pub with
  | none => none
  | some P =>
    let t := ofBe tweak
    if t ≥ E.n then none else
    pubStore E (E.add (E.mul t E.g) P)

/-- in-place variants: `res = ec_privkey_add(secret, tweak); secret[i] = res[i]` — the content of the caller's
    (mutable) buffer afterwards -/
def ecPrivkeyTweakAdd (secret tweak : Bytes) : Option Bytes := ecPrivkeyAdd E secret tweak
def ecPubkeyTweakAdd (pub tweak : Bytes) : Option Bytes := ecPubkeyAdd E pub tweak

/-! ### ECDSA signature codecs -/

/-- after fix 04 -/
def ecdsaSignatureParseCompact (c : Bytes) : Option Bytes :=
  if c.length ≠ 64 then none else
  let r := ofBe (c.take 32)
  let s := ofBe (c.drop 32)
  if r ≥ E.n ∨ s ≥ E.n then none else
  some ((c.take 32).reverse ++ (c.drop 32).reverse)

def ecdsaSignatureParseDer (der : Bytes) : Option Bytes :=
  match Der.parse E.n true der with
  | none => none
  | some (r, s) => some (leN 32 r ++ leN 32 s)

def ecdsaSignatureSerializeDer (sig : Bytes) : Option Bytes :=
  if sig.length ≠ 64 then none else
  some (Der.serRS (ofLe (sig.take 32)) (ofLe (sig.drop 32)))

def ecdsaSignatureSerializeCompact (sig : Bytes) : Option Bytes :=
  if sig.length ≠ 64 then none else some ((sig.take 32).reverse ++ (sig.drop 32).reverse)

/-- after fixes 06 and 11 -/
def ecdsaSignatureNormalize (sig : Bytes) : Option Bytes :=
  if sig.length ≠ 64 then none else
  let r := ofLe (sig.take 32)
  let s := ofLe (sig.drop 32)
  if r ≥ E.n ∨ s ≥ E.n then none else
  let s' := if s > E.n / 2 then E.n - s else s
  some (leN 32 r ++ leN 32 s')

/-! ### ECDSA -/

/-- `ECPubKey.verify_ecdsa(sig, msg, low_s)` for a valid key -/
def verifyEcdsaKey (P : E.Pt) (der msg : Bytes) (lowS : Bool) : Bool :=
  match Der.parse E.n lowS der with
  | none => false
  | some (r, s) =>
    let z := ofBe msg
    let w := E.invN s
    let u1 := z * w % E.n
    let u2 := r * w % E.n
    match E.xy (E.add (E.mul u1 E.g) (E.mul u2 P)) with
    | none => false
    | some (x, _) => x % E.n == r

def ecdsaVerify (sig msg pub : Bytes) : Option Bool :=
  if sig.length ≠ 64 then none else
  if msg.length ≠ 32 then none else
  if pub.length ≠ 64 then none else
  match pubLoad E pub with
  | none => none                                   -- `assert self.valid`
  | some P =>
    match ecdsaSignatureSerializeDer sig with
    | none => none
    | some der => some (verifyEcdsaKey E P der msg true)

/-- the `while True` loop of `deterministic_k` (fuel-bounded; running out of fuel = non-termination) -/
def detKLoop (n : Nat) : Nat → Bytes → Bytes → Option Nat
  | 0, _, _ => none
  | fuel + 1, k, v =>
    let v1 := H.hmac256 k v
    let c := ofBe v1
    if c ≥ 1 ∧ c < n then some c else
    let k1 := H.hmac256 k (v1 ++ [0x00])
    let v2 := H.hmac256 k1 v1
    detKLoop n fuel k1 v2

/-- `deterministic_k(secret, z, extra_data)` after fix 07 (`z` is not reduced) -/
def deterministicK (fuel : Nat) (n d z : Nat) (extra : Option Bytes) : Option Nat :=
  let k0 : Bytes := List.replicate 32 0x00
  let v0 : Bytes := List.replicate 32 0x01
  let zb := beN 32 z ++ (match extra with | some e => e | none => [])
  let sb := beN 32 d
  let k1 := H.hmac256 k0 (v0 ++ [0x00] ++ sb ++ zb)
  let v1 := H.hmac256 k1 v0
  let k2 := H.hmac256 k1 (v1 ++ [0x01] ++ sb ++ zb)
  let v2 := H.hmac256 k2 v1
  detKLoop H n fuel k2 v2

/-- `(r, s)` computed by `ECKey.sign_ecdsa` (low_s = True) from the nonce `k` -/
def signRS (d z k : Nat) : Option (Nat × Nat) :=
  match E.xy (E.mul k E.g) with
  | none => none                                   -- `R[0]` on None
  | some (rx, _) =>
    let r := rx % E.n
    let s := (E.invN k * (z + d * r)) % E.n
    some (r, if s > E.n / 2 then E.n - s else s)

/-- `ecdsa_sign(msg, secret, None, extra_data)` after fix 10: sign, DER-encode, `ecdsa_signature_parse_der` -/
def ecdsaSign (fuel : Nat) (msg secret : Bytes) (extra : Option Bytes) : Option Bytes :=
  if msg.length ≠ 32 then none else
  if secret.length ≠ 32 then none else
  if badExtra extra then none else
  let d := ofBe secret
  if !seckeyValid E d then none else               -- `assert self.valid`
  let z := ofBe msg
  match deterministicK H fuel E.n d z extra with
  | none => none
  | some k =>
    match signRS E d z k with
    | none => none
    | some (r, s) => ecdsaSignatureParseDer E (Der.serRS r s)

/-! ### BIP340 (key.py) -/

/-- `a` when the point `aG` has even Y (`y` is its Y coordinate), else `n - a`:
    `if has_even_y(P) == flip: sec = n - sec`, `k = kp if has_even_y(R) != flip_r else n - kp` -/
def evenScalar (n a y : Nat) : Nat := if y % 2 = 0 then a else n - a

/-- `t` of `sign_schnorr`: the secret masked with the tagged hash of `aux`, or the bare secret when `aux is None` -/
def schnorrT (sec : Nat) : Option Bytes → Bytes
  | some a => beN 32 (sec ^^^ ofBe (H.tagged "BIP0340/aux" a))
  | none => beN 32 sec

/-- `sign_schnorr(key, msg, aux)` (flip_p = flip_r = False). Returning None and failing asserts are both `none`. -/
def signSchnorr (key msg : Bytes) (aux : Option Bytes) : Option Bytes :=
  if key.length ≠ 32 then none else
  if msg.length ≠ 32 then none else
  if badExtra aux then none else
  let sec0 := ofBe key
  if sec0 = 0 ∨ sec0 ≥ E.n then none else
  match E.xy (E.mul sec0 E.g) with
  | none => none
  | some (px, py) =>
    let sec := evenScalar E.n sec0 py
    let t := schnorrT H sec aux
    let kp := ofBe (H.tagged "BIP0340/nonce" (t ++ beN 32 px ++ msg)) % E.n
    if kp = 0 then none else
    match E.xy (E.mul kp E.g) with
    | none => none
    | some (rx, ry) =>
      let k := evenScalar E.n kp ry
      let e := ofBe (H.tagged "BIP0340/challenge" (beN 32 rx ++ beN 32 px ++ msg)) % E.n
      some (beN 32 rx ++ beN 32 ((k + e * sec) % E.n))

/-- `verify_schnorr(key, sig, msg)` -/
def verifySchnorr (key sig msg : Bytes) : Option Bool :=
  if key.length ≠ 32 then none else
  if msg.length ≠ 32 then none else
  if sig.length ≠ 64 then none else
  let x := ofBe key
  if x = 0 ∨ x ≥ E.p then some false else
  match E.liftX x with
  | none => some false
  | some P =>
    let r := ofBe (sig.take 32)
    if r ≥ E.p then some false else
    let s := ofBe (sig.drop 32)
    if s ≥ E.n then some false else
    let e := ofBe (H.tagged "BIP0340/challenge" (sig.take 32 ++ key ++ msg)) % E.n
    match E.xy (E.add (E.mul s E.g) (E.mul (E.n - e) P)) with
    | none => some false
    | some (rx, ry) => some (ry % 2 = 0 && rx = r)

/-! ### x-only keys, keypairs, Schnorr bindings -/

def xonlyPubkeyFromPubkey (pub : Bytes) : Option (Bytes × Bool) :=
  if pub.length ≠ 64 then none else
  match ecPubkeySerialize E pub EC_COMPRESSED with
  | none => none
  | some [] => none
  | some (pre :: x) =>
    match ecPubkeyParse E (0x02 :: x.take 32) with
    | none => none
    | some p => some (p, pre = 0x03)

def keypairCreate (secret : Bytes) : Option Bytes :=
  match ecPubkeyCreate E secret with
  | none => none
  | some pub =>
    match xonlyPubkeyFromPubkey E pub with
    | none => none
    | some _ => some (secret ++ pub)

def schnorrsigVerify (sig msg pub : Bytes) : Option Bool :=
  if sig.length ≠ 64 then none else
  if msg.length ≠ 32 then none else
  if pub.length ≠ 64 then none else
  match ecPubkeySerialize E pub EC_COMPRESSED with
  | none => none
  | some [] => none
  | some (pre :: x) =>
    if pre ≠ 0x02 then none else                   -- fix 14: not an x-only key structure
    verifySchnorr E H (x.take 32) sig msg

/-- after fix 12 (the keypair must be the one `keypair_create` makes from its secret) -/
def schnorrsigSign (msg keypair : Bytes) (extra : Option Bytes) : Option Bytes :=
  if msg.length ≠ 32 then none else
  match (if keypair.length = 32 then keypairCreate E keypair else some keypair) with
  | none => none
  | some kp =>
    if kp.length ≠ 96 then none else
    match keypairCreate E (kp.take 32) with
    | none => none
    | some kp' => if kp ≠ kp' then none else signSchnorr E H (kp.take 32) msg extra

/-! ### recoverable signatures -/

def ecdsaRecoverableSignatureSerializeCompact (sig : Bytes) : Option (Bytes × Nat) :=
  if sig.length ≠ 65 then none else
  match ecdsaSignatureSerializeCompact (sig.take 64), sig[64]? with
  | some c, some i => some (c, i.toNat)
  | _, _ => none

/-- after fix 08; `recid` is a Python int -/
def ecdsaRecoverableSignatureParseCompact (c : Bytes) (recid : Int) : Option Bytes :=
  if c.length ≠ 64 then none else
  if recid < 0 ∨ recid > 3 then none else
  match ecdsaSignatureParseCompact E c with
  | none => none
  | some s => some (s ++ [UInt8.ofNat recid.toNat])

def ecdsaRecoverableSignatureConvert (sig : Bytes) : Option Bytes :=
  if sig.length ≠ 65 then none else some (sig.take 64)

/-- after fixes 09 and 11 -/
def ecdsaRecover (sig msg : Bytes) : Option Bytes :=
  if sig.length ≠ 65 then none else
  if msg.length ≠ 32 then none else
  match sig[64]? with
  | none => none
  | some ib =>
  let idx := ib.toNat
  let r := ofLe (sig.take 32)
  let s := ofLe ((sig.drop 32).take 32)
  let z := ofBe msg
  if r ≥ E.n ∨ s ≥ E.n then none else
  -- candidates: 02‖r, 03‖r and, when r + n < p, 02‖(r+n), 03‖(r+n)
  let ncand := if r + E.n < E.p then 4 else 2
  if idx ≥ ncand then none else
  let x := if idx < 2 then r else r + E.n
  let pre : UInt8 := if idx % 2 = 0 then 0x02 else 0x03
  match setCompressed E pre (beN 32 x) with
  | none => none                                   -- `R.p` of an invalid key
  | some R =>
    if r = 0 then none else                        -- `modinv(0, n)` is None
    let rinv := E.invN r
    let u1 := s * rinv % E.n
    let u2 := z * rinv % E.n
    let P := E.add (E.mul u1 R) (E.neg (E.mul u2 E.g))
    match pubStore E P with
    | none => none
    | some result =>
      match pubLoad E result with
      | none => none
      | some Q =>
        match ecdsaSignatureSerializeDer (sig.take 64) with
        | none => none
        | some der => if verifyEcdsaKey E Q der msg false then some result else none

/-- the search loop of `ecdsa_sign_recoverable` (before fix `c08-signrec`) -/
def recidSearch (sig msg pub : Bytes) : List Nat → Option Bytes
  | [] => none                                     -- `raise ValueError("Failed to sign")`
  | i :: rest =>
    match ecdsaRecover E (sig ++ [UInt8.ofNat i]) msg with
    | none => none                                 -- an exception inside the loop propagates
    | some q => if q = pub then some (sig ++ [UInt8.ofNat i]) else recidSearch sig msg pub rest

/-- `ecdsa_sign_recoverable` BEFORE fix `c08-signrec` (the id is searched by trial recovery). Kept under its name
    because the theorems of Props/C08X (`…_partial`, the witnesses of the excluded region) are stated about it; the
    code as it is now is `ecdsaSignRecoverableDirect` below — that is what the driver evaluates. -/
def ecdsaSignRecoverable (fuel : Nat) (msg secret : Bytes) : Option Bytes :=
  match ecdsaSign E H fuel msg secret none with
  | none => none
  | some sig =>
    match ecPubkeyCreate E secret with
    | none => none
    | some pub => recidSearch E sig msg pub [0, 1, 2, 3]

/-- `ecdsa_sign_recoverable(msg, secret)` after fix `c08-signrec`: `sig = ecdsa_sign(msg, secret)`, then the
    recovery id from the nonce point `R = kG`, `k = deterministic_k(d, z)`:
    `recid = (R[1] & 1) | (2 if R[0] >= n else 0)`; `r = R[0] % n`; `s = (modinv(k, n) * (z + d * r)) % n`;
    `if s > n // 2: recid ^= 1`. (`R` infinite: `R[1]` on None raises.) -/
def ecdsaSignRecoverableDirect (fuel : Nat) (msg secret : Bytes) : Option Bytes :=
  match ecdsaSign E H fuel msg secret none with
  | none => none
  | some sig =>
    let d := ofBe secret
    let z := ofBe msg
    match deterministicK H fuel E.n d z none with
    | none => none
    | some k =>
      match E.xy (E.mul k E.g) with
      | none => none
      | some (rx, ry) =>
        let recid := (ry % 2) ||| (if rx ≥ E.n then 2 else 0)
        let r := rx % E.n
        let s := (E.invN k * (z + d * r)) % E.n
        some (sig ++ [UInt8.ofNat (if s > E.n / 2 then recid ^^^ 1 else recid)])

/-! ### ec.py -/

/-- `PrivateKey.sign(msg_hash, grind)`: the grinding loop. Returns the signature structure and the number of
    additional signing attempts made. `sign extra` is `secp256k1.ecdsa_sign(msg, secret, None, extra)`. -/
def grindLoop (sign : Option Bytes → Option Bytes) : Nat → Nat → Bytes → Option (Bytes × Nat)
  | 0, counter, sig => some (sig, counter - 1)
  | fuel + 1, counter, sig =>
    match ecdsaSignatureSerializeDer sig with
    | none => none
    | some der =>
      if der.length > 70 then
        match sign (some (leN 32 counter)) with
        | none => none
        | some sig' =>
          if counter + 1 > 200 then some (sig', counter) else grindLoop sign fuel (counter + 1) sig'
      else some (sig, counter - 1)

def privateKeySign (sign : Option Bytes → Option Bytes) (grind : Bool) : Option (Bytes × Nat) :=
  match sign none with
  | none => none
  | some sig => if grind then grindLoop sign 200 1 sig else some (sig, 0)

/-- `Signature.parse(b)`: `der = stream.read(2); der += stream.read(der[1])`, then no byte may remain -/
def signatureParse (parseDer : Bytes → Option Bytes) (b : Bytes) : Option Bytes :=
  match b[1]? with
  | none => none
  | some l =>
    let der := b.take (2 + l.toNat)
    match parseDer der with
    | none => none
    | some sig => if b.length > 2 + l.toNat then none else some sig

/-! ### behaviour before the fixes (for the witness theorems and for replaying the findings) -/
namespace Legacy

def ecPrivkeyAdd (secret tweak : Bytes) : Option Bytes :=
  if secret.length ≠ 32 ∨ tweak.length ≠ 32 then none else
  some (beN 32 ((ofBe secret + ofBe tweak) % E.n))

/-- `s2 = n - s; s2.to_bytes(32, "big")` (OverflowError when negative) -/
def ecPrivkeyNegate (secret : Bytes) : Option Bytes :=
  if secret.length ≠ 32 then none else
  let s := ofBe secret
  if s > E.n then none else some (beN 32 (E.n - s))

def ecdsaSignatureParseCompact (c : Bytes) : Option Bytes :=
  if c.length ≠ 64 then none else some ((c.take 32).reverse ++ (c.drop 32).reverse)

/-- `>=` in the low-S test -/
def rangeOk (n : Nat) (lowS : Bool) (r s : Nat) : Bool :=
  !(r < 1 || s < 1 || r ≥ n || s ≥ n) && !(lowS && s ≥ n / 2)

/-- `if z > n: z -= n` -/
def reduceZ (n z : Nat) : Nat := if z > n then z - n else z

end Legacy

end Embit.Model.PySecp
