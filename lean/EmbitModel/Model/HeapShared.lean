/-
  C19 — hidden shared state at MODULE and CLASS level.

  `Model/Heap.lean` has cells for default-argument objects only: what a method computes is `Env.f m (receiver) (argument)`,
  so "nothing else enters the result" is built into the type of `f`. Here the process-wide objects get cells of their own:

  * a GLOBAL CELL is a module-level or class-level object (`_EMPTY = []`, `class Witness: items = []`, the table behind
    `functools.lru_cache`, a module-level memo dictionary, a name rebound under `global`);
  * a MAKER (constructor, or a factory function whose result callers keep) says for every container attribute of the object
    it hands out whether that container is new (`fresh`), IS a global cell (`global g`: `self.vin = vin or _EMPTY`, the
    class-level `items`, a cached result handed to every caller), or is a constant table shared by design (`constTable g`:
    `self.network = NETWORKS["main"]`, read-only by contract — histories do not write tables);
  * a METHOD says which global cells its result reads and which it writes (`TABLE.append`, `cls.cache[k] = v`,
    `global _LAST; _LAST = x`); what it computes is an arbitrary function of receiver, argument and the cells it reads.

  The descriptors of the real code are extracted by `harness/sharedstate.py` (inventory of the loaded modules + ast + probes
  run in children of a pristine process) into `Gen.Alias.sharedSites`; `SharedSite`, `SharedKind` below are the record types.
  Mathlib-free and executable.
-/
import EmbitModel.Model.Heap
namespace Embit.HeapShared
open Embit.Heap (Probe)

abbrev Val := Nat

inductive FieldSrc
  | fresh                 -- a new container per object (`self.vin = []`, `list(p)`); takes the argument's contents
  | global (g : Nat)      -- the global cell when the argument is left out (`if vin is None: vin = _EMPTY`, a default `vin=_EMPTY`)
  | globalOr (g : Nat)    -- the global cell when the argument is left out OR empty (`self.vout = vout or _EMPTY`, a class-level
                          --   `items = []` shadowed only `if items:`)
  | globalAlways (g : Nat) -- the global cell whatever the arguments (`self.items = self.shared`, a cached result)
  | constTable (g : Nat)
  deriving DecidableEq, Repr

def FieldSrc.safe : FieldSrc → Bool
  | .global _ => false
  | .globalOr _ => false
  | .globalAlways _ => false
  | _ => true

structure Maker where
  fields : List FieldSrc
  deriving Repr

structure Method where
  reads : List Nat
  writes : List Nat
  deriving Repr

structure Env where
  makers : List Maker
  methods : List Method
  /-- method, contents of the receiver's containers, argument, contents of the global cells the method reads -/
  f : Nat → List (List Val) → List Val → List (List Val) → Val

/-- a container attribute of a live object -/
inductive Field
  | own (c : List Val)     -- the object's own container, with its contents
  | shared (g : Nat)       -- the global cell `g` itself
  | table (g : Nat)        -- a constant table
  deriving DecidableEq, Repr

structure State where
  glob : Nat → List Val
  objs : List (List Field)

inductive Op
  | make (c : Nat) (args : List (Option (List Val)))   -- `C(...)` / `f(...)`: `none` = argument left out
  | mutate (i fld : Nat) (v : Val)            -- the caller: `obj.attr.append(v)`
  | call (i m : Nat) (a : List Val)           -- `obj.method(a)`
  deriving Repr

def mkField : FieldSrc → Option (List Val) → Field
  | .fresh, a => .own (a.getD [])
  | .global g, none => .shared g
  | .global _, some l => .own l
  | .globalOr g, none => .shared g
  | .globalOr g, some [] => .shared g
  | .globalOr _, some (x :: l) => .own (x :: l)
  | .globalAlways g, _ => .shared g
  | .constTable g, _ => .table g

def mkFields : List FieldSrc → List (Option (List Val)) → List Field
  | [], _ => []
  | k :: ks, args => mkField k (args.head?.getD none) :: mkFields ks args.tail

def fieldObs (st : State) : Field → List Val
  | .own c => c
  | .shared g => st.glob g
  | .table g => st.glob g

/-- what can be seen of object `i` -/
def obs (st : State) (i : Nat) : List (List Val) :=
  match st.objs[i]? with
  | some o => o.map (fieldObs st)
  | none => []

def readsOf (env : Env) (m : Nat) : List Nat :=
  match env.methods[m]? with
  | some d => d.reads
  | none => []

def writesOf (env : Env) (m : Nat) : List Nat :=
  match env.methods[m]? with
  | some d => d.writes
  | none => []

/-- the value `obj_i.method_m(a)` returns in state `st` -/
def answer (env : Env) (st : State) (i m : Nat) (a : List Val) : Val :=
  env.f m (obs st i) a ((readsOf env m).map st.glob)

def setGlob (st : State) (g : Nat) (c : List Val) : State :=
  { st with glob := fun x => if x = g then c else st.glob x }

def writeAll (st : State) : List Nat → State
  | [] => st
  | g :: gs => writeAll (setGlob st g (st.glob g ++ [1])) gs

def step (env : Env) (st : State) : Op → State
  | .make c args =>
    match env.makers[c]? with
    | none => st
    | some d => { st with objs := st.objs ++ [mkFields d.fields args] }
  | .mutate i fld v =>
    match st.objs[i]? with
    | none => st
    | some o =>
      match o[fld]? with
      | none => st
      | some (.own c) => { st with objs := st.objs.set i (o.set fld (.own (c ++ [v]))) }
      | some (.shared g) => setGlob st g (st.glob g ++ [v])
      | some (.table _) => st          -- constant tables are not written (contract; the fork server checks it on the code)
  | .call _ m _ => writeAll st (writesOf env m)

def run (env : Env) (st : State) : List Op → State
  | [] => st
  | op :: ops => run env (step env st op) ops

/-- the state right after import: the global cells hold `g0`, no object exists -/
def init (g0 : Nat → List Val) : State := { glob := g0, objs := [] }

def FieldSrc.tableCell : FieldSrc → Option Nat
  | .constTable g => some g
  | _ => none

/-- the global cells whose contents can enter a result: read by a method, or seen as a constant table through an object -/
def Env.readCells (env : Env) : List Nat :=
  env.methods.flatMap (·.reads) ++ env.makers.flatMap fun d => d.fields.filterMap FieldSrc.tableCell

/-- no maker hands out a global cell, and no method writes a cell whose contents can enter a result (a memo table that
    only its own bookkeeping looks at — `lru_cache` around a function returning immutable values — is written, but no
    answer reads it) -/
def Env.safe (env : Env) : Bool :=
  (env.makers.all fun d => d.fields.all FieldSrc.safe)
    && (env.methods.all fun d => d.writes.all fun g => !env.readCells.contains g)

/-! ### record types of the generated facts (`Gen.Alias.sharedSites`) -/

inductive SharedKind
  | sharedObject (constTable : Bool)    -- a module- / class-level mutable object (inventory); `true`: non-empty at import
  | sharedIntoAttr (constTable : Bool)  -- such an object stored in an instance attribute / handed back by a function
  | sharedWrite                         -- a function writes such an object in place (`TABLE.append`, `cls.cache[k] = v`)
  | globalRebind                        -- `global X` + assignment inside a function
  | memoOther (dependsOnArgs : Bool)    -- memo field in another shape (inverted guard, try/except AttributeError, hasattr)
  | cacheDecorator (returnsMutable : Bool) -- functools.lru_cache / cache; `true`: one mutable object handed to every caller
  | moduleMemo (valuesMutable : Bool)   -- memo dictionary at module / class level
  | nativeAlias (resolved : Bool)       -- native library reached through an alias / getattr; `false`: cannot be followed
  | moduleHandle                        -- CDLL / lock: identity only
  | probe                               -- always-on run-time probe
  | unclassified
  deriving DecidableEq, Repr

structure SharedSite where
  name : String
  kind : SharedKind
  probe : Probe
  evidence : String
  deriving Repr

/-- every kind needs an EXECUTED probe that came out safe; kinds that say "mutable object handed to every caller",
    "memo keyed on nothing although it depends on the arguments" or "cannot be followed" are unsafe whatever the probe -/
def SharedKind.safe : SharedKind → Probe → Bool
  | .sharedObject _, p => p == .confirmedSafe
  | .sharedIntoAttr _, p => p == .confirmedSafe
  | .sharedWrite, p => p == .confirmedSafe
  | .globalRebind, p => p == .confirmedSafe
  | .memoOther dep, p => !dep && p == .confirmedSafe
  | .cacheDecorator mu, p => !mu && p == .confirmedSafe
  | .moduleMemo mu, p => !mu && p == .confirmedSafe
  | .nativeAlias r, p => r && p == .confirmedSafe
  | .moduleHandle, p => p == .confirmedSafe
  | .probe, p => p == .confirmedSafe
  | .unclassified, _ => false

def SharedSite.safe (s : SharedSite) : Bool := s.kind.safe s.probe

end Embit.HeapShared
