import EmbitModel.Basic.Bytes
/-
  Model of embit/liquid/blech32.py, following the code as it is (Mathlib-free, executable).

  * Python `int`s are `Nat` (no negative value is ever produced by the code; a caller-supplied negative
    `witver`/`value` is outside the model). 5-bit symbols, bytes and code points are all `Nat`.
  * A Python `str` is the list of its code points (`List Nat`); `ofString`/`toString'` convert.
  * Python exceptions (IndexError, TypeError) and the `(None, None)` answer of `bech32_decode`/`decode`
    are both `none` (the places where an exception is folded into `none` are marked).
-/
namespace Embit.Model.Blech32

/-! ### checksum -/

/-- `generator` (the ELEMENTS constants) -/
def generator : List Nat :=
  [0x7D52FBA40BD886, 0x5E8DBF1A03950C, 0x1C3A3C74072A18, 0x385D72FA0E5139, 0x7093E5A608865B]

/-- body of `for value in values:` in `bech32_polymod`:
    `top = chk >> 55; chk = (chk & 0x7FFFFFFFFFFFFF) << 5 ^ value;`
    `for i in range(5): chk ^= generator[i] if ((top >> i) & 1) else 0` -/
def polymodStep (chk v : Nat) : Nat :=
  let top := chk >>> 55
  let chk := ((chk &&& 0x7FFFFFFFFFFFFF) <<< 5) ^^^ v
  (List.range 5).foldl
    (fun c i => c ^^^ (if (top >>> i) &&& 1 ≠ 0 then generator.getD i 0 else 0)) chk

/-- `bech32_polymod` -/
def polymod (values : List Nat) : Nat := values.foldl polymodStep 1

/-- `bech32_hrp_expand` on code points -/
def hrpExpand (hrp : List Nat) : List Nat :=
  hrp.map (· >>> 5) ++ [0] ++ hrp.map (· &&& 31)

/-- `bech32_verify_checksum` -/
def verifyChecksum (hrp data : List Nat) : Bool :=
  polymod (hrpExpand hrp ++ data) == 1

/-- `bech32_create_checksum` -/
def createChecksum (hrp data : List Nat) : List Nat :=
  let values := hrpExpand hrp ++ data
  let pm := polymod (values ++ List.replicate 12 0) ^^^ 1
  (List.range 12).map fun i => (pm >>> (5 * (11 - i))) &&& 0x1F

/-! ### strings -/

/-- code points of `CHARSET = "qpzry9x8gf2tvdw0s3jn54khce6mua7l"` -/
def charset : List Nat :=
  [113, 112, 122, 114, 121, 57, 120, 56, 103, 102, 50, 116, 118, 100, 119, 48,
   115, 51, 106, 110, 53, 52, 107, 104, 99, 101, 54, 109, 117, 97, 55, 108]

/-- `CHARSET[d]`. Python raises IndexError for `d ≥ 32`; the callers in this file only pass symbols
    `< 32` (`encode` checks it explicitly), out of range the model yields `0`. -/
def charAt (d : Nat) : Nat := charset.getD d 0

/-- `CHARSET.find(x)` for a single character known to be in `CHARSET` -/
def charIdx (x : Nat) : Nat := charset.idxOf x

/-- `bech32_encode` (symbols must be `< 32`, see `charAt`) -/
def bech32Encode (hrp data : List Nat) : List Nat :=
  let combined := data ++ createChecksum hrp data
  hrp ++ [49] ++ combined.map charAt

/-- `str.lower()` on one character in the ASCII range (the only range that reaches it) -/
def lowerC (x : Nat) : Nat := if 65 ≤ x ∧ x ≤ 90 then x + 32 else x
/-- `str.upper()` on one character in the ASCII range -/
def upperC (x : Nat) : Nat := if 97 ≤ x ∧ x ≤ 122 then x - 32 else x

/-- `s.rfind(chr(c))`: `none` is Python's `-1` -/
def rfind (c : Nat) : List Nat → Option Nat
  | [] => none
  | x :: xs =>
    match rfind c xs with
    | some i => some (i + 1)
    | none => if x = c then some 0 else none

/-- `bech32_decode`; `none` is `(None, None)` -/
def bech32Decode (bech : List Nat) : Option (List Nat × List Nat) :=
  if bech.any (fun x => x < 33 || x > 126)
      || (bech.map lowerC != bech && bech.map upperC != bech) then none
  else
    let bech := bech.map lowerC
    match rfind 49 bech with
    | none => none                                  -- pos = -1 < 1
    | some pos =>
      if pos < 1 || pos + 7 > bech.length then none
      else if !((bech.drop (pos + 1)).all fun x => charset.contains x) then none
      else
        let hrp := bech.take pos
        let data := (bech.drop (pos + 1)).map charIdx
        if !verifyChecksum hrp data then none
        else some (hrp, data.take (data.length - 12))   -- `data[:-12]` (empty when `len(data) < 12`)

/-! ### regrouping -/

/-- `while bits >= tobits: bits -= tobits; ret.append((acc >> bits) & maxv)`; returns `(bits, ret)`.
    The fuel is only there for structural recursion: `bits + 1` iterations suffice when `tobits ≥ 1`
    (for `tobits = 0` the Python loop does not terminate; the model stops when the fuel runs out). -/
def cbWhile (tobits maxv acc : Nat) : Nat → Nat → List Nat → Nat × List Nat
  | 0, bits, ret => (bits, ret)
  | fuel + 1, bits, ret =>
    if bits ≥ tobits then
      let bits := bits - tobits
      cbWhile tobits maxv acc fuel bits (ret ++ [(acc >>> bits) &&& maxv])
    else (bits, ret)

/-- `for value in data:` of `convertbits`; state `(acc, bits, ret)`, `none` = `return None` -/
def cbLoop (frombits tobits maxv maxAcc : Nat) : List Nat → Nat → Nat → List Nat → Option (Nat × Nat × List Nat)
  | [], acc, bits, ret => some (acc, bits, ret)
  | value :: rest, acc, bits, ret =>
    if value >>> frombits ≠ 0 then none            -- `value < 0` cannot happen for a `Nat`
    else
      let acc := ((acc <<< frombits) ||| value) &&& maxAcc
      let bits := bits + frombits
      let (bits, ret) := cbWhile tobits maxv acc (bits + 1) bits ret
      cbLoop frombits tobits maxv maxAcc rest acc bits ret

/-- `convertbits(data, frombits, tobits, pad)` -/
def convertBits (data : List Nat) (frombits tobits : Nat) (pad : Bool) : Option (List Nat) :=
  let maxv := (1 <<< tobits) - 1
  let maxAcc := (1 <<< (frombits + tobits - 1)) - 1
  match cbLoop frombits tobits maxv maxAcc data 0 0 [] with
  | none => none
  | some (acc, bits, ret) =>
    if pad then
      if bits ≠ 0 then some (ret ++ [(acc <<< (tobits - bits)) &&& maxv]) else some ret
    else if bits ≥ frombits || ((acc <<< (tobits - bits)) &&& maxv) ≠ 0 then none
    else some ret

/-! ### addresses -/

/-- `decode(hrp, addr)`: `none` is `(None, None)`; `some (data[0], decoded)` where `decoded` may be
    `None`. When `data` is empty Python raises IndexError at `data[0]` — also `none` here. -/
def decode (hrp addr : List Nat) : Option (Nat × Option (List Nat)) :=
  match bech32Decode addr with
  | none => none                                    -- `hrpgot = None != hrp`
  | some (hrpgot, data) =>
    if hrpgot != hrp then none
    else
      let decoded := convertBits (data.drop 1) 5 8 false
      match data with
      | [] => none                                  -- IndexError
      | d0 :: _ => some (d0, decoded)

/-- `encode(hrp, witver, witprog)`; `none` is the `None` answer, and also: TypeError when
    `convertbits(witprog, 8, 5)` is `None`, IndexError at `CHARSET[witver]` when `witver ≥ 32`,
    IndexError inside the `decode` call-back. -/
def encode (hrp : List Nat) (witver : Nat) (witprog : List Nat) : Option (List Nat) :=
  match convertBits witprog 8 5 true with
  | none => none                                    -- TypeError: `[witver] + None`
  | some conv =>
    if witver ≥ 32 then none                        -- IndexError: `CHARSET[witver]`
    else
      let ret := bech32Encode hrp ([witver] ++ conv)
      match decode hrp ret with
      | none => none
      | some _ => some ret

/-! ### string helpers for the driver -/

def ofString (s : String) : List Nat := s.toList.map Char.toNat
def toString' (l : List Nat) : String := String.ofList (l.map Char.ofNat)

end Embit.Model.Blech32
