import EmbitModel.Model.Descriptor
/-
  Three-valued variants of the fuel-based text parsers of `Model/Descriptor.lean`.

  The parsers there return `Option`, and fuel 0 gives `none`: "the fuel ran out" and "the text was rejected" are the
  same answer. Here the two are kept apart: `Res.outOfFuel` is returned exactly where the fuel is 0 (and handed up
  unchanged by every caller), every other `none` of the original is `Res.reject`. The functions follow the originals
  branch for branch (same matches, same order); `Proofs/Desc3.lean` proves that forgetting the distinction
  (`Res.toOption`) gives back the original functions, and that `outOfFuel` never comes out when the fuel exceeds the
  length of the text left (for a key decoder that refuses the empty text).
-/
namespace Embit.Model.Descriptor
open Embit Embit.Miniscript

variable {K : Type}

/-- result of a fuel-bounded reader: a value, a rejection (the real code raises), or "the fuel was used up" (says
    nothing about the real code) -/
inductive Res (α : Type) where
  | ok (x : α)
  | reject
  | outOfFuel
deriving DecidableEq

/-- forget why there is no value -/
def Res.toOption {α : Type} : Res α → Option α
  | .ok x => some x
  | .reject => none
  | .outOfFuel => none

def Res.isOutOfFuel {α : Type} : Res α → Bool
  | .outOfFuel => true
  | _ => false

/-- a reader without fuel: `none` is a rejection -/
def Res.ofOption {α : Type} : Option α → Res α
  | some x => .ok x
  | none => .reject

/-- `readMore`, three-valued -/
def readMore3 {α : Type} (p : Stream → Res (α × Stream)) : Nat → Stream → Res (List α × Stream)
  | 0, _ => .outOfFuel
  | n+1, s =>
    match s.read1 with
    | (some ',', s1) =>
      (match p s1 with
        | .outOfFuel => .outOfFuel
        | .reject => .reject
        | .ok (x, s2) =>
          match readMore3 p n s2 with
          | .outOfFuel => .outOfFuel
          | .reject => .reject
          | .ok (xs, s3) => .ok (x :: xs, s3))
    | (some ')', s1) => .ok ([], s1)
    | _ => .reject

/-- `readMsBody`, three-valued; `sub` is three-valued, the readers without fuel are used as they are -/
def readMsBody3 (ops : KeyOps K) (tap : Bool) (sub : Stream → Res (DMs K × Stream)) (fuel : Nat) (op : Str)
    (s : Stream) : Res (DMs K × Stream) :=
  if let some f := keyFragOf op then
    let isHash := f == .pk_h || f == .pkh
    match readKey ops tap isHash s with
    | none => .reject
    | some (k, s) => Res.ofOption ((expectChar ')' s).map fun s => (.key f k, s))
  else if let some f := timeFragOf op then
    match readNumber s with
    | none => .reject
    | some (n, s) => Res.ofOption ((expectChar ')' s).map fun s => (.time f n, s))
  else if let some f := hashFragOf op then
    match readRaw (hashFragLen f) s with
    | none => .reject
    | some (h, s) => Res.ofOption ((expectChar ')' s).map fun s => (.hash f h, s))
  else if op = ['a', 'n', 'd', 'o', 'r'] then
    match sub s with
    | .outOfFuel => .outOfFuel
    | .reject => .reject
    | .ok (x, s) =>
      match expectChar ',' s with
      | none => .reject
      | some s =>
        match sub s with
        | .outOfFuel => .outOfFuel
        | .reject => .reject
        | .ok (y, s) =>
          match expectChar ',' s with
          | none => .reject
          | some s =>
            match sub s with
            | .outOfFuel => .outOfFuel
            | .reject => .reject
            | .ok (z, s) => Res.ofOption ((expectChar ')' s).map fun s => (.andor x y z, s))
  else if let some f := binFragOf op then
    match sub s with
    | .outOfFuel => .outOfFuel
    | .reject => .reject
    | .ok (x, s) =>
      match expectChar ',' s with
      | none => .reject
      | some s =>
        match sub s with
        | .outOfFuel => .outOfFuel
        | .reject => .reject
        | .ok (y, s) => Res.ofOption ((expectChar ')' s).map fun s => (.bin f x y, s))
  else if op = ['t', 'h', 'r', 'e', 's', 'h'] then
    match readNumber s with
    | none => .reject
    | some (k, s) =>
      match readMore3 sub fuel s with
      | .outOfFuel => .outOfFuel
      | .reject => .reject
      | .ok (xs, s) => .ok (.thresh k xs, s)
  else if let some f := multiFragOf op then
    match readNumber s with
    | none => .reject
    | some (k, s) =>
      match readMore3 (fun t => Res.ofOption (readKey ops tap false t)) fuel s with
      | .outOfFuel => .outOfFuel
      | .reject => .reject
      | .ok (keys, s) =>
        if Gen.Ms.multiTaproot f == tap then .ok (.multi f k keys, s) else .reject
  else .reject

/-- `readMs`, three-valued -/
def readMs3 (ops : KeyOps K) (tap : Bool) : Nat → Stream → Res (DMs K × Stream)
  | 0, _ => .outOfFuel
  | fuel+1, s =>
    let (opw, ch, s) := readUntil ['('] s
    let split : Option (Str × Str) :=
      if opw.contains ':' then
        match splitOn ':' opw with
        | [w, o] => some (w, o)
        | _ => none
      else some ([], opw)
    match split with
    | none => .reject
    | some (wrappers, op) =>
      if ch ≠ some '(' then .reject
      else
        match readMsBody3 ops tap (readMs3 ops tap fuel) fuel op s with
        | .outOfFuel => .outOfFuel
        | .reject => .reject
        | .ok (e, s) => Res.ofOption ((applyWrappers wrappers e).map fun e => (e, s))

/-- `readTapTree`, three-valued -/
def readTapTree3 (ops : KeyOps K) : Nat → Stream → Res (TapTree K × Stream)
  | 0, _ => .outOfFuel
  | fuel+1, s =>
    match s.read1 with
    | (none, s1) => .ok (.empty, s1)
    | (some c, s1) =>
      if c = '{' then
        match readTapTree3 ops fuel s1 with
        | .outOfFuel => .outOfFuel
        | .reject => .reject
        | .ok (left, s2) =>
          match s2.read1 with
          | (some '}', s3) => .ok (left, s3)
          | (some ',', s3) =>
            (match readTapTree3 ops fuel s3 with
              | .outOfFuel => .outOfFuel
              | .reject => .reject
              | .ok (right, s4) => Res.ofOption ((expectChar '}' s4).map fun s5 => (.node left right, s5)))
          | _ => .reject
      else
        match s1.unread with
        | none => .reject
        | some s2 =>
          match readMs3 ops true (fuel + 1) s2 with
          | .outOfFuel => .outOfFuel
          | .reject => .reject
          | .ok (ms, s3) => if leafAccepted ms then .ok (.leaf ms, s3) else .reject

/-- `Desc.readFrom`, three-valued -/
def Desc.readFrom3 (ops : KeyOps K) (fuel : Nat) (s : Stream) : Res (Desc K × Stream) :=
  match readHead s with
  | none => .reject
  | some (.tr, s) =>
    (match readKey ops true false s with
      | none => .reject
      | some (key, s) =>
        let (c, s1) := s.read1
        let tt : Res (TapTree K × Stream) :=
          if c = some ',' then readTapTree3 ops fuel s1
          else Res.ofOption (s1.unread.map fun s2 => (.empty, s2))
        match tt with
        | .outOfFuel => .outOfFuel
        | .reject => .reject
        | .ok (tree, s) =>
          Res.ofOption ((expectClose 1 s).map fun s => (⟨none, false, false, some key, false, true, tree⟩, s)))
  | some (.shwsh, s) =>
    (match readMs3 ops false fuel s with
      | .outOfFuel => .outOfFuel
      | .reject => .reject
      | .ok (ms, s) =>
        match expectClose 2 s with
        | none => .reject
        | some s =>
          if msAccepted .wsh ms then .ok (⟨some ms, true, true, none, false, false, .empty⟩, s) else .reject)
  | some (.wsh, s) =>
    (match readMs3 ops false fuel s with
      | .outOfFuel => .outOfFuel
      | .reject => .reject
      | .ok (ms, s) =>
        match expectClose 1 s with
        | none => .reject
        | some s =>
          if msAccepted .wsh ms then .ok (⟨some ms, false, true, none, false, false, .empty⟩, s) else .reject)
  | some (.sh, s) =>
    (match readMs3 ops false fuel s with
      | .outOfFuel => .outOfFuel
      | .reject => .reject
      | .ok (ms, s) =>
        match expectClose 1 s with
        | none => .reject
        | some s =>
          if msAccepted .wsh ms then .ok (⟨some ms, true, false, none, false, false, .empty⟩, s) else .reject)
  | some (.shwpkh, s) =>
    (match readKey ops false false s with
      | none => .reject
      | some (key, s) =>
        Res.ofOption ((expectClose 2 s).map fun s => (⟨none, true, false, some key, true, false, .empty⟩, s)))
  | some (.wpkh, s) =>
    (match readKey ops false false s with
      | none => .reject
      | some (key, s) =>
        Res.ofOption ((expectClose 1 s).map fun s => (⟨none, false, false, some key, true, false, .empty⟩, s)))
  | some (.pkh, s) =>
    (match readKey ops false false s with
      | none => .reject
      | some (key, s) =>
        Res.ofOption ((expectClose 1 s).map fun s => (⟨none, false, false, some key, false, false, .empty⟩, s)))

/-- `Desc.parse`, three-valued (same fuel `|text| + 1`) -/
def Desc.parse3 (ops : KeyOps K) (text : Str) : Res (Desc K) :=
  match Desc.readFrom3 ops (text.length + 1) (Stream.ofStr text) with
  | .outOfFuel => .outOfFuel
  | .reject => .reject
  | .ok (d, s) =>
    match s.rest with
    | [] => .ok d
    | c :: _ => if c = '#' then .ok d else .reject

end Embit.Model.Descriptor
