import EmbitModel.Proofs.ViewWrite
import EmbitModel.Proofs.ScopeRoundtrip
/-
  C05Y helpers: parsing what the view wrote. The scopes of a parsed PSBT are canonical (`Canon`), merging extra
  scopes and compressing keeps them canonical, canonical scopes survive write-then-read, hence
  `PSBT.parse(original global scope ++ merged scopes)` is the merged PSBT itself.
-/
set_option linter.unusedSimpArgs false
set_option linter.unusedVariables false
namespace Embit
open Model Spec.Wire Props.C05X

/-- the merge left the fields that describe the unsigned transaction alone (they are not written in version 0) -/
def Model.Psbt.sameTxFields (p p' : Psbt) : Bool :=
  (p.inputs.zip p'.inputs).all (fun x => x.1.txid == x.2.txid && x.1.vout == x.2.vout && x.1.sequence == x.2.sequence)
  && (p.outputs.zip p'.outputs).all (fun x => x.1.value == x.2.value && x.1.spk == x.2.spk)

theorem zip_all_getElem {α β : Type} (f : α × β → Bool) : ∀ (l1 : List α) (l2 : List β),
    (l1.zip l2).all f = true → ∀ (i : Nat) (a : α) (b : β), l1[i]? = some a → l2[i]? = some b → f (a, b) = true := by
  intro l1
  induction l1 with
  | nil => intro l2 _ i a b h; simp at h
  | cons x xs ih =>
    intro l2 h i a b ha hb
    cases l2 with
    | nil => simp at hb
    | cons y ys =>
      simp only [List.zip_cons_cons, List.all_cons, Bool.and_eq_true] at h
      cases i with
      | zero => simp at ha hb; subst ha; subst hb; exact h.1
      | succ i => exact ih ys h.2 i a b (by simpa using ha) (by simpa using hb)

/-! ### canonical seeds and canonical parsed scopes -/

theorem seedIn_canon (ko : KeyOps) (tx : Option Tx) (hwf : ∀ t, tx = some t → WF t) (i : Nat) :
    InScope.Canon ko (seedIn tx i) := by
  unfold seedIn
  cases tx with
  | none => exact InScope.canon_empty ko
  | some t =>
    simp only []
    cases hi : t.vin[i]? with
    | none => exact InScope.canon_empty ko
    | some vi =>
      have hw := (hwf t rfl).ins vi (List.mem_of_getElem? hi)
      simp only []
      exact { InScope.canon_empty ko with
        txid := fun x hx => by simp at hx; subst hx; exact hw.txid
        vout := fun x hx => by simp at hx; subst hx; exact hw.vout
        seq := fun x hx => by simp at hx; subst hx; exact hw.sequence }

theorem seedOut_canon (ko : KeyOps) (tx : Option Tx) (hwf : ∀ t, tx = some t → WF t) (i : Nat) :
    OutScope.Canon ko (seedOut tx i) := by
  unfold seedOut
  cases tx with
  | none => exact OutScope.canon_empty ko
  | some t =>
    simp only []
    cases hi : t.vout[i]? with
    | none => exact OutScope.canon_empty ko
    | some vo =>
      have hw := (hwf t rfl).outs vo (List.mem_of_getElem? hi)
      simp only []
      exact { OutScope.canon_empty ko with
        value := fun x hx => by simp at hx; subst hx; exact hw.value
        spk := fun x hx => by simp at hx; subst hx; exact hw.script }

/-! ### merging extra streams keeps scopes canonical (and says what happens to the transaction fields) -/

theorem updateInFrom_canon (ko : KeyOps) (sha : Bytes → Bytes) : ∀ (es : List Bytes) (s s1 : InScope) (es' : List Bytes),
    InScope.Canon ko s → updateInFrom ko sha s es = some (s1, es') → InScope.Canon ko s1 := by
  intro es
  induction es with
  | nil => intro s s1 es' hc h; simp [updateInFrom] at h; rw [← h.1]; exact hc
  | cons e es ih =>
    intro s s1 es' hc h
    simp only [updateInFrom] at h
    split at h
    · simp at h
    · rename_i kvs r hk
      obtain ⟨_, wk⟩ := readKVs_sound hk
      split at h
      · simp at h
      · rename_i o ho
        split at h
        · simp at h
        · rename_i s' rs hrec
          simp at h
          rw [← h.1]
          exact ih _ _ _ (InScope.update_canon ko s o hc
            (InScope.addPairs_canon ko sha kvs {} o (InScope.canon_empty ko) wk ho)) hrec

theorem updateOutFrom_canon (ko : KeyOps) : ∀ (es : List Bytes) (s s1 : OutScope) (es' : List Bytes),
    OutScope.Canon ko s → updateOutFrom ko s es = some (s1, es') → OutScope.Canon ko s1 := by
  intro es
  induction es with
  | nil => intro s s1 es' hc h; simp [updateOutFrom] at h; rw [← h.1]; exact hc
  | cons e es ih =>
    intro s s1 es' hc h
    simp only [updateOutFrom] at h
    split at h
    · simp at h
    · rename_i kvs r hk
      obtain ⟨_, wk⟩ := readKVs_sound hk
      split at h
      · simp at h
      · rename_i o ho
        split at h
        · simp at h
        · rename_i s' rs hrec
          simp at h
          rw [← h.1]
          exact ih _ _ _ (OutScope.update_canon ko s o hc
            (OutScope.addPairs_canon ko kvs {} o (OutScope.canon_empty ko) wk ho)) hrec

theorem InScope.compressed_canon (ko : KeyOps) (s : InScope) (c : Nat) (h : InScope.Canon ko s) :
    InScope.Canon ko (s.compressed c) := by
  unfold InScope.compressed
  split
  · exact InScope.clearMetadata_canon ko s c h
  · exact h

theorem OutScope.compressed_canon (ko : KeyOps) (s : OutScope) (c : Nat) (h : OutScope.Canon ko s) :
    OutScope.Canon ko (s.compressed c) := by
  unfold OutScope.compressed
  split
  · exact OutScope.clearMetadata_canon ko s c h
  · exact h

theorem mergeIns_canon (ko : KeyOps) (sha : Bytes → Bytes) (cm : Nat) :
    ∀ (l : List InScope) (es : List Bytes) (r : List InScope), (∀ s ∈ l, InScope.Canon ko s) →
      mergeIns ko sha cm l es = some r → r.length = l.length ∧ ∀ s ∈ r, InScope.Canon ko s := by
  intro l
  induction l with
  | nil => intro es r _ h; simp [mergeIns] at h; subst h; simp
  | cons s ss ih =>
    intro es r hc h
    simp only [mergeIns] at h
    split at h
    · simp at h
    · rename_i s1 es' h1
      split at h
      · simp at h
      · rename_i r' hr
        simp at h; subst h
        obtain ⟨l1, c1⟩ := ih es' r' (fun x hx => hc x (by simp [hx])) hr
        refine ⟨by simp [l1], ?_⟩
        intro x hx
        simp at hx
        rcases hx with rfl | hx
        · exact InScope.compressed_canon ko s1 cm (updateInFrom_canon ko sha es s s1 es' (hc s (by simp)) h1)
        · exact c1 x hx

theorem mergeOuts_canon (ko : KeyOps) (cm : Nat) :
    ∀ (l : List OutScope) (es : List Bytes) (r : List OutScope), (∀ s ∈ l, OutScope.Canon ko s) →
      mergeOuts ko cm l es = some r → r.length = l.length ∧ ∀ s ∈ r, OutScope.Canon ko s := by
  intro l
  induction l with
  | nil => intro es r _ h; simp [mergeOuts] at h; subst h; simp
  | cons s ss ih =>
    intro es r hc h
    simp only [mergeOuts] at h
    split at h
    · simp at h
    · rename_i s1 es' h1
      split at h
      · simp at h
      · rename_i r' hr
        simp at h; subst h
        obtain ⟨l1, c1⟩ := ih es' r' (fun x hx => hc x (by simp [hx])) hr
        refine ⟨by simp [l1], ?_⟩
        intro x hx
        simp at hx
        rcases hx with rfl | hx
        · exact OutScope.compressed_canon ko s1 cm (updateOutFrom_canon ko es s s1 es' (hc s (by simp)) h1)
        · exact c1 x hx

/-! ### reading back a sequence of written scopes -/

theorem readIns_write_canon (ko : KeyOps) (sha : Bytes → Bytes) (tx : Option Tx) (ver : Option Nat) :
    ∀ (r : List InScope) (k : Nat) (rest : Bytes),
      (∀ (i : Nat) (s : InScope), r[i]? = some s → (∀ kv ∈ s.pairs ver, KVWF kv)
          ∧ InScope.addPairs ko sha 0 (seedIn tx (k + i)) (s.pairs ver) = some s) →
      readIns ko sha 0 tx r.length k (r.flatMap (fun s => writeKVs (s.pairs ver)) ++ rest) = some (r, rest) := by
  intro r
  induction r with
  | nil => intro k rest _; simp [readIns]
  | cons s ss ih =>
    intro k rest h
    obtain ⟨w0, a0⟩ := h 0 s (by simp)
    simp only [List.length_cons, List.flatMap_cons, List.append_assoc, readIns]
    rw [readKVs_write (s.pairs ver) _ w0]
    simp only []
    rw [show k = k + 0 by rfl, a0]
    simp only []
    have := ih (k + 1) rest (fun i x hx => by
      have := h (i + 1) x (by simpa using hx)
      rw [show k + (i + 1) = k + 1 + i by omega] at this
      exact this)
    simp only [Nat.add_zero]
    rw [this]

theorem readOuts_write_canon (ko : KeyOps) (tx : Option Tx) (ver : Option Nat) :
    ∀ (r : List OutScope) (k : Nat) (rest : Bytes),
      (∀ (i : Nat) (s : OutScope), r[i]? = some s → (∀ kv ∈ s.pairs ver, KVWF kv)
          ∧ OutScope.addPairs ko (seedOut tx (k + i)) (s.pairs ver) = some s) →
      readOuts ko tx r.length k (r.flatMap (fun s => writeKVs (s.pairs ver)) ++ rest) = some (r, rest) := by
  intro r
  induction r with
  | nil => intro k rest _; simp [readOuts]
  | cons s ss ih =>
    intro k rest h
    obtain ⟨w0, a0⟩ := h 0 s (by simp)
    simp only [List.length_cons, List.flatMap_cons, List.append_assoc, readOuts]
    rw [readKVs_write (s.pairs ver) _ w0]
    simp only []
    rw [show k = k + 0 by rfl, a0]
    simp only []
    have := ih (k + 1) rest (fun i x hx => by
      have := h (i + 1) x (by simpa using hx)
      rw [show k + (i + 1) = k + 1 + i by omega] at this
      exact this)
    simp only [Nat.add_zero]
    rw [this]

/-- the parser run over "global scope `g` ++ written scopes", given what the global scope folds to and that every
    written scope reads back from its seed -/
theorem parse_run_canon (ko : KeyOps) (sha : Bytes → Bytes) (p : Psbt) (g : List KV) (tx : Option Tx) (unk : List KV)
    (gs : GState) (wg : ∀ kv ∈ g, KVWF kv)
    (hgf : globalFold none none [] g = some (tx, p.version, unk))
    (hpu : parseUnknowns ko (p.version == some 2) (gstate0 tx) unk = some gs)
    (hver : (p.version = some 2 ∧ tx = none) ∨ (p.version ≠ some 2 ∧ ∃ t, tx = some t))
    (etv : p.txVersion = gs.txVersion) (elt : p.locktime = gs.locktime) (exp : p.xpubs = gs.xpubs)
    (eun : p.unknown = gs.unknown) (lni : p.inputs.length = gs.nin.getD 0) (lno : p.outputs.length = gs.nout.getD 0)
    (ins : List InScope) (outs : List OutScope) (li : ins.length = p.inputs.length) (lo : outs.length = p.outputs.length)
    (rin : ∀ (i : Nat) (s : InScope), ins[i]? = some s → (∀ kv ∈ s.pairs p.version, KVWF kv)
          ∧ InScope.addPairs ko sha 0 (seedIn tx (0 + i)) (s.pairs p.version) = some s)
    (rout : ∀ (i : Nat) (s : OutScope), outs[i]? = some s → (∀ kv ∈ s.pairs p.version, KVWF kv)
          ∧ OutScope.addPairs ko (seedOut tx (0 + i)) (s.pairs p.version) = some s) :
    Psbt.parse ko sha 0 (psbtMagic ++ (writeKVs g ++ (ins.flatMap (fun s => writeKVs (s.pairs p.version))
              ++ (outs.flatMap (fun s => writeKVs (s.pairs p.version)) ++ []))))
      = some { p with inputs := ins, outputs := outs } := by
  have hri := readIns_write_canon ko sha tx p.version ins 0
    (outs.flatMap (fun s => writeKVs (s.pairs p.version)) ++ []) rin
  have hro := readOuts_write_canon ko tx p.version outs 0 [] rout
  unfold Psbt.parse
  have e1 := takeN_append psbtMagic (writeKVs g ++ (ins.flatMap (fun s => writeKVs (s.pairs p.version))
          ++ (outs.flatMap (fun s => writeKVs (s.pairs p.version)) ++ [])))
  rw [show psbtMagic.length = 5 from rfl] at e1
  rw [e1]
  simp only [ne_eq, not_true_eq_false, if_false]
  rw [readKVs_write g _ wg]
  simp only []
  rw [hgf]
  simp only []
  have hcond1 : ((tx.isSome && (p.version == some 2)) = true) = False := by
    rcases hver with ⟨hv, rfl⟩ | ⟨hv, t, rfl⟩
    · simp
    · simp [hv]
  have hcond2 : ((tx.isNone && !(p.version == some 2)) = true) = False := by
    rcases hver with ⟨hv, rfl⟩ | ⟨hv, t, rfl⟩
    · simp [hv]
    · simp
  simp only [hcond1, hcond2, if_false]
  have hpu' : parseUnknowns ko (p.version == some 2)
      { txVersion := tx.map (·.version), locktime := tx.map (·.locktime), nin := tx.map (·.vin.length),
        nout := tx.map (·.vout.length), xpubs := [], unknown := [] } unk = some gs := hpu
  rw [hpu']
  simp only []
  rw [← lni, ← li, ← lno, ← lo, hri]
  simp only []
  rw [hro]
  simp [etv, elt, exp, eun]

/-! ### the never-written attributes (`_utxo`, `_txhash`) under KEEP_ALL -/

theorem updateInFrom_noHidden (ko : KeyOps) (sha : Bytes → Bytes) : ∀ (es : List Bytes) (s s1 : InScope) (es' : List Bytes),
    InScope.NoHidden s → updateInFrom ko sha s es = some (s1, es') → InScope.NoHidden s1 := by
  intro es
  induction es with
  | nil => intro s s1 es' hc h; simp [updateInFrom] at h; rw [← h.1]; exact hc
  | cons e es ih =>
    intro s s1 es' hc h
    simp only [updateInFrom] at h
    split at h
    · simp at h
    · rename_i kvs r hk
      obtain ⟨_, wk⟩ := readKVs_sound hk
      split at h
      · simp at h
      · rename_i o ho
        split at h
        · simp at h
        · rename_i s' rs hrec
          simp at h
          rw [← h.1]
          refine ih _ _ _ ?_ hrec
          obtain ⟨o1, _⟩ := InScope.addPairs_hidden0 ko sha kvs {} o (fun kv hkv => (wk kv hkv).1) ho
          exact ⟨by simp [InScope.update, notNoneOr, o1, hc.1], hc.2⟩

theorem InScope.compressed_noHidden (s : InScope) (c : Nat) (h : InScope.NoHidden s) :
    InScope.NoHidden (s.compressed c) := by
  unfold InScope.compressed InScope.clearMetadata
  obtain ⟨h1, h2⟩ := h
  by_cases h0 : c = 0
  · simp [h0, InScope.NoHidden, h1, h2]
  · by_cases hc1 : c = 1 <;> simp [h0, hc1, InScope.NoHidden, h1, h2]

theorem mergeIns_noHidden (ko : KeyOps) (sha : Bytes → Bytes) (cm : Nat) :
    ∀ (l : List InScope) (es : List Bytes) (r : List InScope), (∀ s ∈ l, InScope.NoHidden s) →
      mergeIns ko sha cm l es = some r → ∀ s ∈ r, InScope.NoHidden s := by
  intro l
  induction l with
  | nil => intro es r _ h; simp [mergeIns] at h; subst h; simp
  | cons s ss ih =>
    intro es r hc h
    simp only [mergeIns] at h
    split at h
    · simp at h
    · rename_i s1 es' h1
      split at h
      · simp at h
      · rename_i r' hr
        simp at h; subst h
        intro x hx
        simp at hx
        rcases hx with rfl | hx
        · exact InScope.compressed_noHidden s1 cm (updateInFrom_noHidden ko sha es s s1 es' (hc s (by simp)) h1)
        · exact ih es' r' (fun y hy => hc y (by simp [hy])) hr x hx

theorem map_erase_of_noHidden : ∀ (l : List InScope), (∀ s ∈ l, InScope.NoHidden s) → l.map InScope.erase = l := by
  intro l
  induction l with
  | nil => intro _; rfl
  | cons s ss ih =>
    intro h
    simp [InScope.erase_of_noHidden s (h s (by simp)), ih (fun x hx => h x (by simp [hx]))]

/-! ### parsing the written bytes -/

theorem InScope.pairs_withTxOf (ver : Option Nat) (hv : ver ≠ some 2) (s o : InScope) :
    (s.withTxOf o).pairs ver = s.pairs ver := by
  simp [InScope.pairs, InScope.withTxOf, hv]

theorem OutScope.pairs_withTxOf (ver : Option Nat) (hv : ver ≠ some 2) (s o : OutScope) :
    (s.withTxOf o).pairs ver = s.pairs ver := by
  simp [OutScope.pairs, OutScope.withTxOf, hv]

theorem flatMap_zipWith_left {α β : Type} (f : α → β → α) (g : α → Bytes) (hg : ∀ a b, g (f a b) = g a) :
    ∀ (l1 : List α) (l2 : List β), l1.length = l2.length → (List.zipWith f l1 l2).flatMap g = l1.flatMap g := by
  intro l1
  induction l1 with
  | nil => intro l2 _; simp
  | cons a as ih =>
    intro l2 hl
    cases l2 with
    | nil => simp at hl
    | cons b bs => simp [List.flatMap_cons, hg, ih bs (by simpa using hl)]

theorem getElem?_zipWith_some {α β γ : Type} (f : α → β → γ) : ∀ (l1 : List α) (l2 : List β) (i : Nat) (c : γ),
    (List.zipWith f l1 l2)[i]? = some c → ∃ a b, l1[i]? = some a ∧ l2[i]? = some b ∧ c = f a b := by
  intro l1
  induction l1 with
  | nil => intro l2 i c h; simp at h
  | cons a as ih =>
    intro l2 i c h
    cases l2 with
    | nil => simp at h
    | cons b bs =>
      cases i with
      | zero => simp at h; exact ⟨a, b, by simp, by simp, h.symm⟩
      | succ i =>
        obtain ⟨a', b', h1, h2, h3⟩ := ih bs i c (by simpa using h)
        exact ⟨a', b', by simpa using h1, by simpa using h2, h3⟩

theorem getElem?_map_some {α β : Type} (f : α → β) (l : List α) (i : Nat) (b : β) (h : (l.map f)[i]? = some b) :
    ∃ a, l[i]? = some a ∧ b = f a := by
  rw [List.getElem?_map] at h
  cases ha : l[i]? with
  | none => rw [ha] at h; simp at h
  | some a => rw [ha] at h; simp at h; exact ⟨a, rfl, h.symm⟩

/-- `PSBT.parse` (KEEP_ALL) of what the view wrote — for EVERY reader mode `c` of the view — is the merged PSBT as a
    reader sees it: without the never-written `_utxo` / `_txhash` attributes (`eraseHidden`) and, for version 0,
    with the transaction fields of the original (`restoreTx`) -/
theorem parse_written_modes (ko : KeyOps) (sha : Bytes → Bytes) (c : Nat) (b : Bytes) (p p' : Psbt) (cm : Nat)
    (ei eo : List Bytes) (h : Psbt.parse ko sha c b = some p) (hm : Psbt.mergeExtra ko sha cm ei eo p = some p') :
    Psbt.parse ko sha 0 (psbtMagic ++ writeKVs (globalKVs b) ++ p'.scopeBytes)
      = some (p.restoreTx p'.eraseHidden) := by
  obtain ⟨g, kin, kout, tx, unk, gs, eb, wg, ws, hgf, hpu, hver, etv, elt, exp, eun, lki, lko, lni, lno, fi, fo, ftx⟩ :=
    parse_frame ko sha c b p h
  have hgk : globalKVs b = g := by rw [eb]; exact globalKVs_eq g _ wg
  have hwf : ∀ t, tx = some t → WF t := by
    intro t ht
    subst ht
    obtain ⟨g1, w, g2, eg, n1, n2, hparse, hu⟩ := globalFold_split g _ _ _ _ _ hgf
    exact (Props.C03.parse_sound w t hparse).1
  unfold Psbt.mergeExtra at hm
  cases hmi : mergeIns ko sha cm p.inputs ei with
  | none => rw [hmi] at hm; simp at hm
  | some ins =>
    cases hmo : mergeOuts ko cm p.outputs eo with
    | none => rw [hmi, hmo] at hm; simp at hm
    | some outs =>
      rw [hmi, hmo] at hm
      simp only [Option.some.injEq] at hm
      subst hm
      have cin : ∀ s ∈ p.inputs, InScope.Canon ko s := by
        intro s hs
        obtain ⟨j, hj, e⟩ := List.getElem_of_mem hs
        obtain ⟨kvs, s', a1, a2, a3⟩ := fi j hj
        rw [List.getElem?_eq_getElem hj, e] at a2
        simp at a2; subst a2
        exact InScope.addPairs_canon_mode ko sha c kvs _ s (seedIn_canon ko tx hwf j)
          (ws kvs (List.mem_append_left _ (List.mem_of_getElem? a1))) a3
      have cout : ∀ s ∈ p.outputs, OutScope.Canon ko s := by
        intro s hs
        obtain ⟨j, hj, e⟩ := List.getElem_of_mem hs
        obtain ⟨kvs, s', a1, a2, a3⟩ := fo j hj
        rw [List.getElem?_eq_getElem hj, e] at a2
        simp at a2; subst a2
        exact OutScope.addPairs_canon ko kvs _ s (seedOut_canon ko tx hwf j)
          (ws kvs (List.mem_append_right _ (List.mem_of_getElem? a1))) a3
      obtain ⟨li, ci⟩ := mergeIns_canon ko sha cm p.inputs ei ins cin hmi
      obtain ⟨lo, co⟩ := mergeOuts_canon ko cm p.outputs eo outs cout hmo
      have hfe : (ins.map InScope.erase).flatMap (fun s => writeKVs (s.pairs p.version))
          = ins.flatMap (fun s => writeKVs (s.pairs p.version)) := by
        rw [List.flatMap_map]; rfl
      by_cases hv2 : p.version = some 2
      · -- version 2: unseeded scopes
        unfold Psbt.restoreTx
        rw [if_pos hv2]
        simp only [Psbt.eraseHidden]
        have htx : tx = none := by
          rcases hver with ⟨_, e⟩ | ⟨e, _⟩
          · exact e
          · exact absurd hv2 e
        subst htx
        have rin : ∀ (i : Nat) (s : InScope), (ins.map InScope.erase)[i]? = some s →
            (∀ kv ∈ s.pairs p.version, KVWF kv)
            ∧ InScope.addPairs ko sha 0 (seedIn none (0 + i)) (s.pairs p.version) = some s := by
          intro i s hs
          obtain ⟨s1, h1, rfl⟩ := getElem?_map_some _ _ _ _ hs
          have hc := InScope.erase_canon ko s1 (ci s1 (List.mem_of_getElem? h1))
          exact ⟨InScope.canon_pairs_wf ko p.version _ hc,
            InScope.canon_roundtrip ko sha p.version _ none none none hc ⟨rfl, rfl⟩ (by simp [hv2])⟩
        have rout : ∀ (i : Nat) (s : OutScope), outs[i]? = some s → (∀ kv ∈ s.pairs p.version, KVWF kv)
            ∧ OutScope.addPairs ko (seedOut none (0 + i)) (s.pairs p.version) = some s := by
          intro i s hs
          have hc := co s (List.mem_of_getElem? hs)
          exact ⟨OutScope.canon_pairs_wf ko p.version s hc,
            OutScope.canon_roundtrip ko p.version s none none hc (by simp [hv2])⟩
        have hbytes : psbtMagic ++ writeKVs (globalKVs b)
              ++ Psbt.scopeBytes { p with inputs := ins, outputs := outs }
            = psbtMagic ++ (writeKVs g
                ++ ((ins.map InScope.erase).flatMap (fun s => writeKVs (s.pairs p.version))
                ++ (outs.flatMap (fun s => writeKVs (s.pairs p.version)) ++ []))) := by
          rw [hfe]; simp [hgk, Psbt.scopeBytes, List.append_assoc]
        rw [hbytes]
        exact parse_run_canon ko sha p g none unk gs wg hgf hpu hver etv elt exp eun lni lno _ _
          (by simp [li]) lo rin rout
      · -- version 0: scopes seeded from the (unchanged) global transaction
        unfold Psbt.restoreTx
        rw [if_neg hv2]
        simp only [Psbt.eraseHidden]
        obtain ⟨t, rfl⟩ : ∃ t, tx = some t := by
          rcases hver with ⟨e, _⟩ | ⟨_, e⟩
          · exact absurd e hv2
          · exact e
        obtain ⟨_, lt1, lt2⟩ := ftx t rfl
        have rin : ∀ (i : Nat) (s : InScope),
            (List.zipWith InScope.withTxOf (ins.map InScope.erase) p.inputs)[i]? = some s →
            (∀ kv ∈ s.pairs p.version, KVWF kv)
            ∧ InScope.addPairs ko sha 0 (seedIn (some t) (0 + i)) (s.pairs p.version) = some s := by
          intro i s hs
          obtain ⟨s1e, s0, h1e, h0, rfl⟩ := getElem?_zipWith_some _ _ _ _ _ hs
          obtain ⟨s1, h1, rfl⟩ := getElem?_map_some _ _ _ _ h1e
          have hc1 := InScope.erase_canon ko s1 (ci s1 (List.mem_of_getElem? h1))
          have hc0 := cin s0 (List.mem_of_getElem? h0)
          have hc : InScope.Canon ko (s1.erase.withTxOf s0) :=
            { hc1 with txid := hc0.txid, vout := hc0.vout, seq := hc0.seq }
          refine ⟨InScope.canon_pairs_wf ko p.version _ hc, ?_⟩
          rw [Nat.zero_add]
          have hi : i < p.inputs.length := (List.getElem?_eq_some_iff.mp h0).1
          have hit : i < t.vin.length := by omega
          obtain ⟨kvs, s0', a1, a2, a3⟩ := fi i hi
          rw [h0] at a2; simp at a2; subst a2
          obtain ⟨e1, e2, e3⟩ := InScope.addPairs_keeps_seed ko sha c kvs _ s0 a3 t.vin[i].txid t.vin[i].vout
            t.vin[i].sequence (by simp [seedIn, List.getElem?_eq_getElem hit])
            (by simp [seedIn, List.getElem?_eq_getElem hit]) (by simp [seedIn, List.getElem?_eq_getElem hit])
          have hseed : seedIn (some t) i
              = { txid := some t.vin[i].txid, vout := some t.vin[i].vout, sequence := some t.vin[i].sequence } := by
            simp [seedIn, List.getElem?_eq_getElem hit]
          rw [hseed]
          exact InScope.canon_roundtrip ko sha p.version _ _ _ _ hc ⟨rfl, rfl⟩
            (by simp only [hv2, if_false]; exact ⟨e1, e2, e3⟩)
        have rout : ∀ (i : Nat) (s : OutScope), (List.zipWith OutScope.withTxOf outs p.outputs)[i]? = some s →
            (∀ kv ∈ s.pairs p.version, KVWF kv)
            ∧ OutScope.addPairs ko (seedOut (some t) (0 + i)) (s.pairs p.version) = some s := by
          intro i s hs
          obtain ⟨s1, s0, h1, h0, rfl⟩ := getElem?_zipWith_some _ _ _ _ _ hs
          have hc1 := co s1 (List.mem_of_getElem? h1)
          have hc0 := cout s0 (List.mem_of_getElem? h0)
          have hc : OutScope.Canon ko (s1.withTxOf s0) := { hc1 with value := hc0.value, spk := hc0.spk }
          refine ⟨OutScope.canon_pairs_wf ko p.version _ hc, ?_⟩
          rw [Nat.zero_add]
          have hi : i < p.outputs.length := (List.getElem?_eq_some_iff.mp h0).1
          have hit : i < t.vout.length := by omega
          obtain ⟨kvs, s0', a1, a2, a3⟩ := fo i hi
          rw [h0] at a2; simp at a2; subst a2
          obtain ⟨e1, e2⟩ := OutScope.addPairs_keeps_seed ko kvs _ s0 a3 t.vout[i].value t.vout[i].spk
            (by simp [seedOut, List.getElem?_eq_getElem hit]) (by simp [seedOut, List.getElem?_eq_getElem hit])
          have hseed : seedOut (some t) i = { value := some t.vout[i].value, spk := some t.vout[i].spk } := by
            simp [seedOut, List.getElem?_eq_getElem hit]
          rw [hseed]
          exact OutScope.canon_roundtrip ko p.version _ _ _ hc (by simp only [hv2, if_false]; exact ⟨e1, e2⟩)
        have hbytes : psbtMagic ++ writeKVs (globalKVs b)
              ++ Psbt.scopeBytes { p with inputs := ins, outputs := outs }
            = psbtMagic ++ (writeKVs g
                ++ ((List.zipWith InScope.withTxOf (ins.map InScope.erase) p.inputs).flatMap
                      (fun s => writeKVs (s.pairs p.version))
                ++ ((List.zipWith OutScope.withTxOf outs p.outputs).flatMap (fun s => writeKVs (s.pairs p.version))
                      ++ []))) := by
          rw [flatMap_zipWith_left InScope.withTxOf (fun s => writeKVs (s.pairs p.version))
                (fun a o => by simp only [InScope.pairs_withTxOf p.version hv2]) (ins.map InScope.erase) p.inputs
                (by simp [li]),
              flatMap_zipWith_left OutScope.withTxOf (fun s => writeKVs (s.pairs p.version))
                (fun a o => by simp only [OutScope.pairs_withTxOf p.version hv2]) outs p.outputs lo, hfe]
          simp [hgk, Psbt.scopeBytes, List.append_assoc]
        rw [hbytes]
        exact parse_run_canon ko sha p g (some t) unk gs wg hgf hpu hver etv elt exp eun lni lno _ _
          (by simp [li]) (by simp [lo]) rin rout

/-- under KEEP_ALL nothing is hidden: the merged PSBT has no `_utxo` / `_txhash` attributes -/
theorem mergeExtra_noHidden (ko : KeyOps) (sha : Bytes → Bytes) (b : Bytes) (p p' : Psbt) (cm : Nat) (ei eo : List Bytes)
    (h : Psbt.parse ko sha 0 b = some p) (hm : Psbt.mergeExtra ko sha cm ei eo p = some p') :
    p'.eraseHidden = p' := by
  obtain ⟨g, kin, kout, tx, unk, gs, eb, wg, ws, hgf, hpu, hver, etv, elt, exp, eun, lki, lko, lni, lno, fi, fo, ftx⟩ :=
    parse_frame ko sha 0 b p h
  have hin : ∀ s ∈ p.inputs, InScope.NoHidden s := by
    intro s hs
    obtain ⟨j, hj, e⟩ := List.getElem_of_mem hs
    obtain ⟨kvs, s', a1, a2, a3⟩ := fi j hj
    rw [List.getElem?_eq_getElem hj, e] at a2
    simp at a2; subst a2
    obtain ⟨q1, q2⟩ := InScope.addPairs_hidden0 ko sha kvs _ s
      (fun kv hkv => (ws kvs (List.mem_append_left _ (List.mem_of_getElem? a1)) kv hkv).1) a3
    have hs0 : InScope.NoHidden (seedIn tx j) := by
      unfold seedIn
      cases tx with
      | none => exact ⟨rfl, rfl⟩
      | some t => simp only []; cases t.vin[j]? <;> exact ⟨rfl, rfl⟩
    exact ⟨q1.trans hs0.1, q2.trans hs0.2⟩
  unfold Psbt.mergeExtra at hm
  cases hmi : mergeIns ko sha cm p.inputs ei with
  | none => rw [hmi] at hm; simp at hm
  | some ins =>
    cases hmo : mergeOuts ko cm p.outputs eo with
    | none => rw [hmi, hmo] at hm; simp at hm
    | some outs =>
      rw [hmi, hmo] at hm
      simp only [Option.some.injEq] at hm
      subst hm
      simp [Psbt.eraseHidden, map_erase_of_noHidden ins (mergeIns_noHidden ko sha cm p.inputs ei ins hin hmi)]

/-- KEEP_ALL reader: the parsed result is the merged PSBT with (version 0) the transaction fields of the original -/
theorem parse_written_total (ko : KeyOps) (sha : Bytes → Bytes) (b : Bytes) (p p' : Psbt) (cm : Nat)
    (ei eo : List Bytes) (h : Psbt.parse ko sha 0 b = some p) (hm : Psbt.mergeExtra ko sha cm ei eo p = some p') :
    Psbt.parse ko sha 0 (psbtMagic ++ writeKVs (globalKVs b) ++ p'.scopeBytes) = some (p.restoreTx p') := by
  have := parse_written_modes ko sha 0 b p p' cm ei eo h hm
  rwa [mergeExtra_noHidden ko sha b p p' cm ei eo h hm] at this

theorem zipWith_withTxOf_same : ∀ (l1 l2 : List InScope), l1.length = l2.length →
    (l2.zip l1).all (fun x => x.1.txid == x.2.txid && x.1.vout == x.2.vout && x.1.sequence == x.2.sequence) = true →
    List.zipWith InScope.withTxOf l1 l2 = l1 := by
  intro l1
  induction l1 with
  | nil => intro l2 _ _; simp
  | cons a as ih =>
    intro l2 hl h
    cases l2 with
    | nil => simp at hl
    | cons b bs =>
      simp only [List.zip_cons_cons, List.all_cons, Bool.and_eq_true, beq_iff_eq] at h
      obtain ⟨⟨⟨q1, q2⟩, q3⟩, hr⟩ := h
      simp only [List.zipWith_cons_cons, ih bs (by simpa using hl) hr]
      congr 1
      cases a; simp_all [InScope.withTxOf]

theorem zipWith_withTxOf_same_out : ∀ (l1 l2 : List OutScope), l1.length = l2.length →
    (l2.zip l1).all (fun x => x.1.value == x.2.value && x.1.spk == x.2.spk) = true →
    List.zipWith OutScope.withTxOf l1 l2 = l1 := by
  intro l1
  induction l1 with
  | nil => intro l2 _ _; simp
  | cons a as ih =>
    intro l2 hl h
    cases l2 with
    | nil => simp at hl
    | cons b bs =>
      simp only [List.zip_cons_cons, List.all_cons, Bool.and_eq_true, beq_iff_eq] at h
      obtain ⟨⟨q1, q2⟩, hr⟩ := h
      simp only [List.zipWith_cons_cons, ih bs (by simpa using hl) hr]
      congr 1
      cases a; simp_all [OutScope.withTxOf]

/-- `PSBT.parse` (KEEP_ALL) of "original global scope ++ scopes of the merged PSBT" is the merged PSBT itself when
    (version 0) the merge left the transaction fields of the scopes alone (`sameTxFields`) -/
theorem parse_written (ko : KeyOps) (sha : Bytes → Bytes) (b : Bytes) (p p' : Psbt) (cm : Nat) (ei eo : List Bytes)
    (h : Psbt.parse ko sha 0 b = some p) (hm : Psbt.mergeExtra ko sha cm ei eo p = some p')
    (hk : p.version ≠ some 2 → p.sameTxFields p' = true) :
    Psbt.parse ko sha 0 (psbtMagic ++ writeKVs (globalKVs b) ++ p'.scopeBytes) = some p' := by
  rw [parse_written_total ko sha b p p' cm ei eo h hm]
  by_cases hv2 : p.version = some 2
  · simp [Psbt.restoreTx, hv2]
  · have hs := hk hv2
    simp only [Psbt.sameTxFields, Bool.and_eq_true] at hs
    have hl : p'.inputs.length = p.inputs.length ∧ p'.outputs.length = p.outputs.length := by
      unfold Psbt.mergeExtra at hm
      cases hmi : mergeIns ko sha cm p.inputs ei with
      | none => rw [hmi] at hm; simp at hm
      | some ins =>
        cases hmo : mergeOuts ko cm p.outputs eo with
        | none => rw [hmi, hmo] at hm; simp at hm
        | some outs =>
          rw [hmi, hmo] at hm
          simp only [Option.some.injEq] at hm
          subst hm
          exact ⟨mergeIns_length ko sha cm _ _ _ hmi, mergeOuts_length ko cm _ _ _ hmo⟩
    simp only [Psbt.restoreTx, hv2, if_false, zipWith_withTxOf_same p'.inputs p.inputs hl.1 hs.1,
      zipWith_withTxOf_same_out p'.outputs p.outputs hl.2 hs.2]

end Embit
