import EmbitModel.Proofs.PsbtScope
/-
  C04: lifting the one-step lemmas to whole scopes and to `PSBT.parse` (KEEP_ALL mode).
-/
set_option linter.unusedSimpArgs false
set_option linter.unusedVariables false
namespace Embit
open Model

def InSeeded (s : InScope) : Prop := s.txid.isSome ∧ s.vout.isSome ∧ s.sequence.isSome
def OutSeeded (s : OutScope) : Prop := s.value.isSome ∧ s.spk.isSome

/-- a whole input scope: every pair read is written back, for v2 or for a scope seeded from the global tx -/
theorem InScope.addPairs_lossless (ko : KeyOps) (sha : Bytes → Bytes) (ver : Option Nat) :
    ∀ (kvs : List KV) (s s' : InScope), (ver = some 2 ∨ InSeeded s) → (∀ kv ∈ kvs, kv.1 ≠ []) →
      InScope.addPairs ko sha 0 s kvs = some s' →
      (∀ kv ∈ kvs, kv ∈ s'.pairs ver) ∧ (∀ kv ∈ s.pairs ver, kv ∈ s'.pairs ver)
      ∧ (InSeeded s → s'.txid = s.txid ∧ s'.vout = s.vout ∧ s'.sequence = s.sequence) := by
  intro kvs
  induction kvs with
  | nil => intro s s' _ _ h; simp [InScope.addPairs] at h; subst h; simp
  | cons kv kvs ih =>
    intro s s' hv hne h
    obtain ⟨k, v⟩ := kv
    simp only [InScope.addPairs] at h
    split at h
    · simp at h
    · rename_i s1 h1
      have hk : k ≠ [] := hne (k, v) (by simp)
      have hv1 : ver = some 2 ∨ txFieldKey k = false := by
        rcases hv with hv | hv
        · exact Or.inl hv
        · exact Or.inr (InScope.addPair_seeded ko sha 0 s s1 k v hv h1).1
      obtain ⟨m1, m2⟩ := InScope.addPair_lossless ko sha s s1 k v ver hv1 hk h1
      have hv' : ver = some 2 ∨ InSeeded s1 := by
        rcases hv with hv | hv
        · exact Or.inl hv
        · obtain ⟨_, e1, e2, e3⟩ := InScope.addPair_seeded ko sha 0 s s1 k v hv h1
          exact Or.inr ⟨by rw [e1]; exact hv.1, by rw [e2]; exact hv.2.1, by rw [e3]; exact hv.2.2⟩
      obtain ⟨r1, r2, r3⟩ := ih s1 s' hv' (fun x hx => hne x (by simp [hx])) h
      refine ⟨?_, fun x hx => r2 x (m2 x hx), ?_⟩
      · intro x hx
        simp at hx
        rcases hx with rfl | hx
        · exact r2 _ m1
        · exact r1 x hx
      · intro hs
        obtain ⟨_, e1, e2, e3⟩ := InScope.addPair_seeded ko sha 0 s s1 k v hs h1
        have hs1 : InSeeded s1 := ⟨by rw [e1]; exact hs.1, by rw [e2]; exact hs.2.1, by rw [e3]; exact hs.2.2⟩
        obtain ⟨f1, f2, f3⟩ := r3 hs1
        exact ⟨f1.trans e1, f2.trans e2, f3.trans e3⟩

theorem OutScope.addPairs_lossless (ko : KeyOps) (ver : Option Nat) :
    ∀ (kvs : List KV) (s s' : OutScope), (ver = some 2 ∨ OutSeeded s) → (∀ kv ∈ kvs, kv.1 ≠ []) →
      OutScope.addPairs ko s kvs = some s' →
      (∀ kv ∈ kvs, kv ∈ s'.pairs ver) ∧ (∀ kv ∈ s.pairs ver, kv ∈ s'.pairs ver)
      ∧ (OutSeeded s → s'.value = s.value ∧ s'.spk = s.spk) := by
  intro kvs
  induction kvs with
  | nil => intro s s' _ _ h; simp [OutScope.addPairs] at h; subst h; simp
  | cons kv kvs ih =>
    intro s s' hv hne h
    obtain ⟨k, v⟩ := kv
    simp only [OutScope.addPairs] at h
    split at h
    · simp at h
    · rename_i s1 h1
      have hk : k ≠ [] := hne (k, v) (by simp)
      have hv1 : ver = some 2 ∨ txFieldKeyOut k = false := by
        rcases hv with hv | hv
        · exact Or.inl hv
        · exact Or.inr (OutScope.addPair_seeded ko s s1 k v hv h1).1
      obtain ⟨m1, m2⟩ := OutScope.addPair_lossless ko s s1 k v ver hv1 hk h1
      have hv' : ver = some 2 ∨ OutSeeded s1 := by
        rcases hv with hv | hv
        · exact Or.inl hv
        · obtain ⟨_, e1, e2⟩ := OutScope.addPair_seeded ko s s1 k v hv h1
          exact Or.inr ⟨by rw [e1]; exact hv.1, by rw [e2]; exact hv.2⟩
      obtain ⟨r1, r2, r3⟩ := ih s1 s' hv' (fun x hx => hne x (by simp [hx])) h
      refine ⟨?_, fun x hx => r2 x (m2 x hx), ?_⟩
      · intro x hx
        simp at hx
        rcases hx with rfl | hx
        · exact r2 _ m1
        · exact r1 x hx
      · intro hs
        obtain ⟨_, e1, e2⟩ := OutScope.addPair_seeded ko s s1 k v hs h1
        have hs1 : OutSeeded s1 := ⟨by rw [e1]; exact hs.1, by rw [e2]; exact hs.2⟩
        obtain ⟨f1, f2⟩ := r3 hs1
        exact ⟨f1.trans e1, f2.trans e2⟩

theorem InScope.le_refl (s : InScope) : InScope.le s s := by constructor <;> simp
theorem InScope.le_trans {a b c : InScope} (h1 : InScope.le a b) (h2 : InScope.le b c) : InScope.le a c := by
  constructor
  · exact fun x => h2.f0 (h1.f0 x)
  · exact fun x => h2.f1 (h1.f1 x)
  · exact fun p x => h2.f2 p (h1.f2 p x)
  · exact fun x => h2.f3 (h1.f3 x)
  · exact fun x => h2.f4 (h1.f4 x)
  · exact fun x => h2.f5 (h1.f5 x)
  · exact fun p x => h2.f6 p (h1.f6 p x)
  · exact fun x => h2.f7 (h1.f7 x)
  · exact fun x => h2.f8 (h1.f8 x)
  · exact fun x => h2.fe (h1.fe x)
  · exact fun x => h2.ff (h1.ff x)
  · exact fun x => h2.fg (h1.fg x)
  · exact fun p x => h2.f14 p (h1.f14 p x)
  · exact fun p x => h2.f15 p (h1.f15 p x)
  · exact fun p x => h2.f16 p (h1.f16 p x)
  · exact fun x => h2.f17 (h1.f17 x)
  · exact fun x => h2.f18 (h1.f18 x)
  · exact fun p x => h2.fu p (h1.fu p x)

theorem OutScope.le_refl (s : OutScope) : OutScope.le s s := by constructor <;> simp
theorem OutScope.le_trans {a b c : OutScope} (h1 : OutScope.le a b) (h2 : OutScope.le b c) : OutScope.le a c := by
  constructor
  · exact fun x => h2.f0 (h1.f0 x)
  · exact fun x => h2.f1 (h1.f1 x)
  · exact fun p x => h2.f2 p (h1.f2 p x)
  · exact fun x => h2.f3 (h1.f3 x)
  · exact fun x => h2.f4 (h1.f4 x)
  · exact fun x => h2.f5 (h1.f5 x)
  · exact fun p x => h2.f7 p (h1.f7 p x)
  · exact fun p x => h2.fu p (h1.fu p x)

/-- a scope in which the same key occurs twice is refused (KEEP_ALL mode) -/
theorem InScope.addPairs_nodup (ko : KeyOps) (sha : Bytes → Bytes) :
    ∀ (kvs : List KV) (s s' : InScope), (∀ kv ∈ kvs, kv.1 ≠ []) →
      InScope.addPairs ko sha 0 s kvs = some s' →
      (kvs.map Prod.fst).Nodup ∧ (∀ kv ∈ kvs, s.hasKey kv.1 = false) ∧ InScope.le s s' := by
  intro kvs
  induction kvs with
  | nil => intro s s' _ h; simp [InScope.addPairs] at h; subst h; simp [InScope.le_refl]
  | cons kv kvs ih =>
    intro s s' hne h
    obtain ⟨k, v⟩ := kv
    simp only [InScope.addPairs] at h
    split at h
    · simp at h
    · rename_i s1 h1
      have hk : k ≠ [] := hne (k, v) (by simp)
      obtain ⟨a1, a2, a3⟩ := InScope.addPair_key ko sha s s1 k v hk h1
      obtain ⟨b1, b2, b3⟩ := ih s1 s' (fun x hx => hne x (by simp [hx])) h
      refine ⟨?_, ?_, InScope.le_trans a3 b3⟩
      · simp only [List.map_cons, List.nodup_cons]
        refine ⟨?_, b1⟩
        intro hmem
        simp at hmem
        obtain ⟨v', hv'⟩ := hmem
        have := b2 (k, v') hv'
        simp [a2] at this
      · intro x hx
        simp at hx
        rcases hx with rfl | hx
        · exact a1
        · cases hxk : s.hasKey x.1 with
          | false => rfl
          | true =>
            have := InScope.hasKey_mono a3 x.1 hxk
            rw [b2 x hx] at this; simp at this

theorem OutScope.addPairs_nodup (ko : KeyOps) :
    ∀ (kvs : List KV) (s s' : OutScope), (∀ kv ∈ kvs, kv.1 ≠ []) →
      OutScope.addPairs ko s kvs = some s' →
      (kvs.map Prod.fst).Nodup ∧ (∀ kv ∈ kvs, s.hasKey kv.1 = false) ∧ OutScope.le s s' := by
  intro kvs
  induction kvs with
  | nil => intro s s' _ h; simp [OutScope.addPairs] at h; subst h; simp [OutScope.le_refl]
  | cons kv kvs ih =>
    intro s s' hne h
    obtain ⟨k, v⟩ := kv
    simp only [OutScope.addPairs] at h
    split at h
    · simp at h
    · rename_i s1 h1
      have hk : k ≠ [] := hne (k, v) (by simp)
      obtain ⟨a1, a2, a3⟩ := OutScope.addPair_key ko s s1 k v hk h1
      obtain ⟨b1, b2, b3⟩ := ih s1 s' (fun x hx => hne x (by simp [hx])) h
      refine ⟨?_, ?_, OutScope.le_trans a3 b3⟩
      · simp only [List.map_cons, List.nodup_cons]
        refine ⟨?_, b1⟩
        intro hmem
        simp at hmem
        obtain ⟨v', hv'⟩ := hmem
        have := b2 (k, v') hv'
        simp [a2] at this
      · intro x hx
        simp at hx
        rcases hx with rfl | hx
        · exact a1
        · cases hxk : s.hasKey x.1 with
          | false => rfl
          | true =>
            have := OutScope.hasKey_mono a3 x.1 hxk
            rw [b2 x hx] at this; simp at this

end Embit
