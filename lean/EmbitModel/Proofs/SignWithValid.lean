import EmbitModel.Proofs.SignWithJust
import EmbitModel.Proofs.SignWithFrame
/-
  Validity of the signatures `SignWith.signWith` adds, relative to the laws of the abstract signing functions
  (`SigLaws` — what Props/C07 proves of the concrete ECDSA / BIP340 signers relative to `EcLaws`), and the final-state
  form of soundness: every slot content that is new is a justified write (Mathlib-free).
-/
namespace Embit.Model.SignWith
open Embit Embit.Model

variable {HD : Type}

/-- laws of the signing functions (`ecdsaVerify pub msg sig`, `schnorrVerify xonly msg sig`); `validSec` = the byte
    string is the SEC encoding of a curve point (what `ec.PublicKey.parse` checks when a PSBT is parsed) -/
structure SigLaws (O : Ops HD) (validSec : Bytes → Bool) (ecdsaVerify schnorrVerify : Bytes → Bytes → Bytes → Bool) :
    Prop where
  /-- a signature by `sk` verifies under both SEC encodings of the public key of `sk` -/
  ecdsa_own : ∀ sk c m sig, O.ecdsaSign sk m = some sig → ecdsaVerify (O.secOf sk c) m sig = true
  /-- … and under every valid SEC encoding that denotes the same point -/
  ecdsa_entry : ∀ sk m sig pub, validSec pub = true → O.ecdsaSign sk m = some sig →
    compressSec pub = O.secOf sk true → ecdsaVerify pub m sig = true
  /-- a BIP340 signature by `sk` verifies under the x-only public key of `sk` -/
  schnorr_ok : ∀ sk c m sig, O.schnorrSign sk m = some sig →
    schnorrVerify (xonlyOfSec (O.secOf sk c)) m sig = true

/-- the keys of the derivation maps of a scope are encodings of curve points (enforced by `PSBT.parse`: keys of type
    `06` go through `ec.PublicKey.parse`, keys of type `16` through `from_xonly` = parse of `02 ‖ x`) -/
def KeysValid (validSec : Bytes → Bool) (s : InScope) : Prop :=
  (∀ e ∈ s.bip32, validSec e.1 = true) ∧ (∀ e ∈ s.tapBip32, validSec (0x02 :: e.1) = true)

theorem matchingDerivs_valid {validSec : Bytes → Bool} {s : InScope} (hk : KeysValid validSec s) (fp pub : Bytes)
    (d : Deriv) (h : (pub, d) ∈ matchingDerivs s fp) : validSec pub = true := by
  simp only [matchingDerivs, List.mem_append, List.mem_map, List.mem_filter] at h
  rcases h with ⟨e, ⟨he, _⟩, heq⟩ | ⟨he, _⟩
  · cases heq; exact hk.2 e he
  · exact hk.1 _ he

/-- the write is a valid signature over the digest `D` assigns, carrying the flag as the standards say -/
def ValidWrite (ecdsaVerify schnorrVerify : Bytes → Bytes → Bytes → Bool) (O : Ops HD) (s : InScope) (u : TxOut)
    (f : Nat) (D : Nat → Option (Bytes × Nat) → Option Bytes) : Slot × Bytes → Prop
  | (.partialSig pub, v) =>
    isTaprootSpk u.spk = false ∧
    ∃ h sig, D f none = some h ∧ v = sig ++ [UInt8.ofNat f] ∧ ecdsaVerify pub h sig = true
  | (.tapKeySig, v) =>
    isTaprootSpk u.spk = true ∧
    ∃ xo h sig, isInfix xo u.spk = true ∧ D f none = some h ∧
      v = sig ++ (if f ≠ 0 then [UInt8.ofNat f] else []) ∧ schnorrVerify xo h sig = true
  | (.tapScriptSig key, v) =>
    isTaprootSpk u.spk = true ∧
    ∃ xo ctrl sc lv h sig, (ctrl, sc) ∈ s.tapScripts ∧ isInfix xo sc = true ∧ sc.getLast? = some lv ∧
      key = xo ++ taggedHash O.sha "TapLeaf" ([lv] ++ scriptSer sc.dropLast) ∧
      D f (some (sc.dropLast, lv.toNat)) = some h ∧
      v = sig ++ (if f ≠ 0 then [UInt8.ofNat f] else []) ∧ schnorrVerify xo h sig = true

theorem Justified.valid {O : Ops HD} {vs : Bytes → Bool} {ev sv : Bytes → Bytes → Bytes → Bool}
    (SL : SigLaws O vs ev sv)
    {sg : Single HD} {s : InScope} {u : TxOut} {f : Nat} {D : Nat → Option (Bytes × Nat) → Option Bytes}
    {w : Slot × Bytes} (hk : KeysValid vs s) (hj : Justified O sg s u f D w) : ValidWrite ev sv O s u f D w := by
  cases hj with
  | ecdsaRoot hh sig h1 h2 h3 h4 =>
    exact ⟨h1, hh, sig, h3, rfl, SL.ecdsa_own _ _ _ _ h4⟩
  | ecdsaDerived sk pub hh sig h1 h2 h3 h4 =>
    obtain ⟨fp, d, k, _, _, hmem, _, _, hm⟩ := h2
    have : compressSec pub = O.secOf sk true := by
      simp only [keyMatches, Bool.false_eq_true, if_false, decide_eq_true_eq] at hm
      exact hm.symm
    exact ⟨h1, hh, sig, h3, rfl, SL.ecdsa_entry _ _ _ _ (matchingDerivs_valid hk fp pub d hmem) h4 this⟩
  | tapKey sk c tsk hh sig h1 h2 h3 h4 h5 h6 =>
    exact ⟨h1, _, hh, sig, h4, h5, rfl, SL.schnorr_ok tsk true _ _ h6⟩
  | tapLeaf sk c ctrl sc lv hh sig h1 h2 h3 h4 h5 h6 h7 =>
    exact ⟨h1, _, ctrl, sc, lv, hh, sig, h3, h4, h5, rfl, h6, rfl, SL.schnorr_ok sk c _ _ h7⟩

/-- final-state soundness: a slot of the result whose content is not the original content holds a write of the trace -/
theorem new_content_written {G : List (Nat × Slot)} (p p' : Psbt) (n : Nat) (ws : List Write) (t : PTr G p p' n ws) (i : Nat) (s s' : InScope)
    (hs : p.inputs[i]? = some s) (hs' : p'.inputs[i]? = some s') (sl : Slot) (v : Bytes)
    (hv : slotValue s' sl = some v) (hnew : slotValue s sl ≠ some v) : (i, sl, v) ∈ ws := by
  have hget : s' = applySlots s (writesOf ws i) := by
    have := applyWrites_get p ws i
    rw [← t.app, hs', hs] at this
    exact Option.some.inj this
  rw [hget] at hv
  rcases slotValue_applySlots s _ sl v hv with h | h
  · exact absurd h hnew
  · exact (mem_writesOf ws i _).mp h

end Embit.Model.SignWith
