import EmbitModel.Proofs.LiquidBlind
import Mathlib.Algebra.Module.Basic
import Mathlib.Tactic.Abel
import Mathlib.Tactic.Ring
/-
  C18: balance of the commitments, RELATIVE to an explicit algebraic reading of the library (`ZkpAlg`, `ZkpLaws`).
  Nothing here is an axiom: the laws are hypotheses of the theorems. That libsecp256k1-zkp satisfies them (the curve
  points form a module over the scalars mod n, `pedersen_commit(r, v, A) = v·A + r·G`,
  `generator_generate_blinded(t, r) = H(t) + r·G`, and `pedersen_blind_generator_blind_sum` returns the last factor
  that makes the blinding terms cancel) is its documented contract — observed in the differential runs through
  `pedersen_verify_tally`, not proved.
-/
set_option linter.unusedSimpArgs false
set_option linter.unusedVariables false
namespace Embit
open Model

/-- algebraic reading: scalars `R` (ℤ/n), points `M` (a module over `R`), the blinding generator `G`, the hash-to-
    curve map `H` from asset tags to generators, and decoders for scalars / internal point representations -/
structure ZkpAlg (R M : Type) [CommRing R] [AddCommGroup M] [Module R M] where
  G : M
  H : Bytes → M
  scalar : Bytes → R
  point : Bytes → M

variable {R M : Type} [CommRing R] [AddCommGroup M] [Module R M]

/-- one amount: value, asset tag, decoded asset / value blinding factors -/
structure Entry (R : Type) where
  v : Nat
  asset : Bytes
  abf : R
  vbf : R

/-- the blinding term `v·abf + vbf` the blind-sum works with -/
def Entry.term (e : Entry R) : R := (e.v : R) * e.abf + e.vbf
/-- the Pedersen commitment `v·(H(asset) + abf·G) + vbf·G` -/
def Entry.commit (A : ZkpAlg R M) (e : Entry R) : M := (e.v : R) • (A.H e.asset + e.abf • A.G) + e.vbf • A.G
/-- the unblinded amount `v·H(asset)` (how an explicit output or the fee enters the balance) -/
def Entry.plain (A : ZkpAlg R M) (e : Entry R) : M := (e.v : R) • A.H e.asset

theorem Entry.commit_eq (A : ZkpAlg R M) (e : Entry R) : e.commit A = e.plain A + e.term • A.G := by
  simp only [Entry.commit, Entry.plain, Entry.term, smul_add, add_smul, mul_smul]
  abel

theorem sum_commit (A : ZkpAlg R M) (l : List (Entry R)) :
    (l.map (Entry.commit A)).sum = (l.map (Entry.plain A)).sum + (l.map Entry.term).sum • A.G := by
  induction l with
  | nil => simp
  | cons e r ih =>
    simp only [List.map_cons, List.sum_cons, ih, Entry.commit_eq, add_smul]
    abel

/-- balance, the algebra: when the blinding terms of inputs and blinded outputs cancel, the difference of the
    commitment sums is the difference of the plain amounts -/
theorem balance_algebra (A : ZkpAlg R M) (ins outs : List (Entry R))
    (h : (ins.map Entry.term).sum = (outs.map Entry.term).sum) :
    (ins.map (Entry.commit A)).sum - (outs.map (Entry.commit A)).sum
      = (ins.map (Entry.plain A)).sum - (outs.map (Entry.plain A)).sum := by
  rw [sum_commit, sum_commit, h]
  abel

/-- … hence with value conservation (inputs = blinded outputs + explicit outputs + fee, per asset generator):
    Σ commit(inputs) = Σ commit(blinded outputs) + Σ v·H(asset) over the explicit outputs and the fee -/
theorem balance_with_fee (A : ZkpAlg R M) (ins outs explicit : List (Entry R))
    (h : (ins.map Entry.term).sum = (outs.map Entry.term).sum)
    (hv : (ins.map (Entry.plain A)).sum = (outs.map (Entry.plain A)).sum + (explicit.map (Entry.plain A)).sum) :
    (ins.map (Entry.commit A)).sum = (outs.map (Entry.commit A)).sum + (explicit.map (Entry.plain A)).sum := by
  have := balance_algebra A ins outs h
  rw [hv] at this
  have e : (ins.map (Entry.commit A)).sum
      = (outs.map (Entry.commit A)).sum + ((ins.map (Entry.commit A)).sum - (outs.map (Entry.commit A)).sum) := by abel
  rw [e, this]; abel

/-! ### the lists handed to the blind-sum, as entries -/

def mkEntries (A : ZkpAlg R M) : List Nat → List Bytes → List Bytes → List Bytes → List (Entry R)
  | v :: vs, t :: ts, a :: as, b :: bs => { v := v, asset := t, abf := A.scalar a, vbf := A.scalar b } :: mkEntries A vs ts as bs
  | _, _, _, _ => []

def termsOf (A : ZkpAlg R M) : List Nat → List Bytes → List Bytes → List R
  | v :: vs, a :: as, b :: bs => ((v : R) * A.scalar a + A.scalar b) :: termsOf A vs as bs
  | _, _, _ => []

theorem mkEntries_terms (A : ZkpAlg R M) (vals : List Nat) (assets abfs vbfs : List Bytes)
    (hl : assets.length = vals.length) :
    (mkEntries A vals assets abfs vbfs).map Entry.term = termsOf A vals abfs vbfs := by
  induction vals generalizing assets abfs vbfs with
  | nil => cases assets <;> simp [mkEntries, termsOf]
  | cons v vs ih =>
    cases assets with
    | nil => simp at hl
    | cons t ts =>
      cases abfs with
      | nil => simp [mkEntries, termsOf]
      | cons a as =>
        cases vbfs with
        | nil => simp [mkEntries, termsOf]
        | cons b bs =>
          simp only [mkEntries, termsOf, List.map_cons, Entry.term]
          rw [ih ts as bs (by simpa using hl)]

/-- replace the last element (the library overwrites the last blinding factor) -/
def setLast (l : List Bytes) (r : Bytes) : List Bytes := l.dropLast ++ [r]

/-- the SPECIFIED behaviour of the library, as laws over an algebraic reading `A` -/
structure ZkpLaws (Z : Zkp) (A : ZkpAlg R M) : Prop where
  /-- `generator_generate_blinded(asset, abf)` is `H(asset) + abf·G` -/
  generator : ∀ asset abf g, Z.generatorGenerateBlinded asset abf = some g → A.point g = A.H asset + A.scalar abf • A.G
  /-- `pedersen_commit(vbf, v, gen)` is `v·gen + vbf·G` -/
  commit : ∀ vbf v gen c, Z.pedersenCommit vbf v gen = some c → A.point c = (v : R) • A.point gen + A.scalar vbf • A.G
  /-- `pedersen_blind_generator_blind_sum(values, abfs, vbfs, n_inputs)` returns the LAST value blinding factor for
      which Σ_{inputs} (v·abf + vbf) = Σ_{outputs} (v·abf + vbf) -/
  blindSum : ∀ vals abfs vbfs nIn r, Z.blindSum vals abfs vbfs nIn = some r →
    ((termsOf A vals abfs (setLast vbfs r)).take nIn).sum = ((termsOf A vals abfs (setLast vbfs r)).drop nIn).sum

/-- what a commitment made by `blind` decodes to -/
theorem commit_decodes {Z : Zkp} {A : ZkpAlg R M} (L : ZkpLaws Z A) (asset abf vbf gen c : Bytes) (v : Nat)
    (hg : Z.generatorGenerateBlinded asset abf = some gen) (hc : Z.pedersenCommit vbf v gen = some c) :
    A.point c = Entry.commit A { v := v, asset := asset, abf := A.scalar abf, vbf := A.scalar vbf } := by
  rw [L.commit vbf v gen c hc, L.generator asset abf gen hg]
  rfl

/-- MAIN (balance of a blinded PSET, relative to `ZkpLaws`): for the values / factors `a` that `blind` hands to the
    library and the factor `lastVbf` it gets back, the commitments of the first `a.nIn` entries (the unblinded
    inputs) minus the commitments of the remaining entries (the blinded outputs, the last one under `lastVbf`) equal
    the plain amounts: all blinding cancels. `assets` are the asset tags of the entries. -/
theorem balance_of_blind {Z : Zkp} {A : ZkpAlg R M} (L : ZkpLaws Z A) (sha : Bytes → Bytes) (seed : Bytes)
    (ins : List BlindIn) (outs res : List BlindOut) (h : blind Z sha seed ins outs = some res) (assets : List Bytes) :
    ∃ a lastVbf, sumArgs ins (assignFactors sha (txseed sha seed ins outs) 0 outs) = some a
      ∧ Z.blindSum a.vals a.abfs a.vbfs a.nIn = some lastVbf
      ∧ (assets.length = a.vals.length →
          let es : List (Entry R) := mkEntries A a.vals assets a.abfs (setLast a.vbfs lastVbf)
          ((es.take a.nIn).map (Entry.commit A)).sum - ((es.drop a.nIn).map (Entry.commit A)).sum
            = ((es.take a.nIn).map (Entry.plain A)).sum - ((es.drop a.nIn).map (Entry.plain A)).sum) := by
  obtain ⟨a, lv, tags, gens, ha, hlv, _, _⟩ := blind_unfold Z sha seed ins outs res h
  refine ⟨a, lv, ha, hlv, ?_⟩
  intro hl
  apply balance_algebra
  have hs := L.blindSum a.vals a.abfs a.vbfs a.nIn lv hlv
  rw [← mkEntries_terms A a.vals assets a.abfs (setLast a.vbfs lv) hl] at hs
  rw [List.map_take, List.map_drop]
  exact hs

end Embit
