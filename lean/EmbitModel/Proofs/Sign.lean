import EmbitModel.Proofs.Ecdsa
import EmbitModel.Proofs.Schnorr
import EmbitModel.Spec.Rfc6979
/-
  Grinding loop of `PrivateKey.sign`, RFC 6979 nonce of the model vs the RFC, structure-level (64-byte) lemmas.
-/
namespace Embit
open Embit.Model Embit.Model.Der Embit.Model.PySecp

/-! ### grinding -/

/-- invariant of the loop: at most 200 extra attempts; the result is either short or the 200th attempt; and it is
    the initial signature (count = counter-1) or the output of the attempt numbered by the count -/
theorem grindLoop_spec (sign : Option Bytes → Option Bytes) :
    ∀ (fuel counter : Nat) (sig res : Bytes) (c : Nat), 1 ≤ counter → counter + fuel = 201 →
      grindLoop sign fuel counter sig = some (res, c) →
      c ≤ 200 ∧ counter ≤ c + 1 ∧
      (c = 200 ∨ ∃ der, ecdsaSignatureSerializeDer res = some der ∧ der.length ≤ 70) ∧
      (c + 1 = counter → res = sig) ∧ (counter ≤ c → sign (some (leN 32 c)) = some res) := by
  intro fuel
  induction fuel with
  | zero =>
    intro counter sig res c h1 h2 h
    simp only [grindLoop, Option.some.injEq, Prod.mk.injEq] at h
    obtain ⟨rfl, rfl⟩ := h
    have : counter = 201 := by omega
    subst this
    refine ⟨by omega, by omega, Or.inl rfl, fun _ => rfl, fun h => by omega⟩
  | succ fuel ih =>
    intro counter sig res c h1 h2 h
    simp only [grindLoop] at h
    split at h
    · cases h
    · rename_i der hder
      split at h
      · rename_i hlong
        split at h
        · cases h
        · rename_i sig' hsig'
          split at h
          · rename_i hlast
            simp only [Option.some.injEq, Prod.mk.injEq] at h
            obtain ⟨rfl, rfl⟩ := h
            have : counter = 200 := by omega
            subst this
            exact ⟨by omega, by omega, Or.inl rfl, fun h => by omega, fun _ => hsig'⟩
          · rename_i hnot
            obtain ⟨a, b, cc, d, e⟩ := ih (counter + 1) sig' res c (by omega) (by omega) h
            refine ⟨a, by omega, cc, fun h => by omega, ?_⟩
            intro hle
            by_cases hcase : c + 1 = counter + 1
            · have : c = counter := by omega
              subst this
              rw [d hcase]; exact hsig'
            · exact e (by omega)
      · rename_i hshort
        simp only [Option.some.injEq, Prod.mk.injEq] at h
        obtain ⟨rfl, rfl⟩ := h
        refine ⟨by omega, by omega, Or.inr ⟨der, hder, by omega⟩, fun _ => rfl, fun h => by omega⟩

/-! ### RFC 6979 -/

open Spec.Rfc6979 in
theorem candidate_succ (hmac : Bytes → Bytes → Bytes) (k v : Bytes) (i : Nat) :
    candidate hmac (k, v) (i + 1) =
      candidate hmac (hmac k (hmac k v ++ [0x00]), hmac (hmac k (hmac k v ++ [0x00])) (hmac k v)) i := by
  induction i with
  | zero => simp [candidate]
  | succ i ih =>
    rw [candidate, ih]
    rfl

open Spec.Rfc6979 in
/-- the `while True` loop of `deterministic_k` is step h of RFC 6979 §3.2 -/
theorem detKLoop_eq (H : HashOps) (n : Nat) :
    ∀ (fuel : Nat) (k v : Bytes), detKLoop H n fuel k v = firstValid H.hmac256 n (k, v) fuel := by
  intro fuel
  induction fuel with
  | zero => intro k v; simp [detKLoop, firstValid]
  | succ fuel ih =>
    intro k v
    unfold detKLoop firstValid
    rw [List.range_succ_eq_map, List.map_cons, List.find?_cons]
    simp only [candidate]
    by_cases hc : 1 ≤ ofBe (H.hmac256 k v) ∧ ofBe (H.hmac256 k v) < n
    · simp [hc]
    · have hc' : ¬ (ofBe (H.hmac256 k v) ≥ 1 ∧ ofBe (H.hmac256 k v) < n) := hc
      simp only [hc', if_false, decide_false]
      rw [ih]
      unfold firstValid
      rw [List.map_map]
      congr 1
      apply List.map_congr_left
      intro i _
      simp only [Function.comp]
      rw [candidate_succ]

/-- `deterministic_k` (after fix 07) is libsecp256k1's variant: the generator seeded with the raw message octets -/
theorem deterministicK_eq_raw (H : HashOps) (fuel n d z : Nat) (extra : Option Bytes) :
    deterministicK H fuel n d z extra = Spec.Rfc6979.nonceRaw H.hmac256 fuel n d (beN 32 z) extra := by
  unfold deterministicK Spec.Rfc6979.nonceRaw Spec.Rfc6979.init Spec.Rfc6979.int2octets
  rw [detKLoop_eq]
  cases extra <;> simp [List.append_assoc]

/-- … and RFC 6979 proper for message values below the group order -/
theorem deterministicK_eq_rfc (H : HashOps) (fuel n d z : Nat) (extra : Option Bytes) (hz : z < n) (hn : n ≤ 2 ^ 256) :
    deterministicK H fuel n d z extra = Spec.Rfc6979.nonce H.hmac256 fuel n d (beN 32 z) extra := by
  rw [deterministicK_eq_raw]
  unfold Spec.Rfc6979.nonceRaw Spec.Rfc6979.nonce Spec.Rfc6979.bits2octets Spec.Rfc6979.int2octets
  rw [ofBe_beN32 z (by omega), Nat.mod_eq_of_lt hz]

/-! ### 64-byte structures -/

theorem take32_leN (a b : Nat) : (leN 32 a ++ leN 32 b).take 32 = leN 32 a := take32_append _ _ (by simp)
theorem drop32_leN (a b : Nat) : (leN 32 a ++ leN 32 b).drop 32 = leN 32 b := drop32_append _ _ (by simp)

theorem ofLe_leN32 (v : Nat) (h : v < 2 ^ 256) : ofLe (leN 32 v) = v := by
  apply ofLe_leN; rw [pow256]; exact h

theorem serializeDer_struct (r s : Nat) (hr : r < 2 ^ 256) (hs : s < 2 ^ 256) :
    ecdsaSignatureSerializeDer (leN 32 r ++ leN 32 s) = some (serRS r s) := by
  unfold ecdsaSignatureSerializeDer
  simp only [List.length_append, leN_length, ne_eq, not_true_eq_false, if_false, Nat.reduceAdd]
  rw [take32_leN, drop32_leN, ofLe_leN32 r hr, ofLe_leN32 s hs]

theorem struct_eta (sig : Bytes) (h : sig.length = 64) :
    leN 32 (ofLe (sig.take 32)) ++ leN 32 (ofLe (sig.drop 32)) = sig := by
  have h1 : (sig.take 32).length = 32 := by simp; omega
  have h2 : (sig.drop 32).length = 32 := by simp; omega
  have e1 := leN_ofLe (sig.take 32)
  have e2 := leN_ofLe (sig.drop 32)
  rw [h1] at e1; rw [h2] at e2
  rw [e1, e2, List.take_append_drop]

theorem pubLoad_store (E : EcOps) (x y : Nat) (hx : x < E.p) (hy : y < E.p) (hp : E.p ≤ 2 ^ 256) :
    pubLoad E (leN 32 x ++ leN 32 y) = E.ofXY x y := by
  unfold pubLoad
  rw [take32_leN, drop32_leN, ofLe_leN32 x (by omega), ofLe_leN32 y (by omega)]
  simp [hx, hy]

/-! ### binding level: `ecdsa_sign` then `ecdsa_verify` -/

theorem detKLoop_range (H : HashOps) (n : Nat) :
    ∀ (fuel : Nat) (k v : Bytes) (c : Nat), detKLoop H n fuel k v = some c → 1 ≤ c ∧ c < n := by
  intro fuel
  induction fuel with
  | zero => intro k v c h; simp [detKLoop] at h
  | succ fuel ih =>
    intro k v c h
    simp only [detKLoop] at h
    split at h
    · rename_i hc; cases h; exact hc
    · exact ih _ _ _ h

theorem deterministicK_range (H : HashOps) (fuel n d z : Nat) (extra : Option Bytes) (k : Nat)
    (h : deterministicK H fuel n d z extra = some k) : 1 ≤ k ∧ k < n :=
  detKLoop_range H n fuel _ _ k h

/-- what `ecdsa_sign` returns: the structure of an in-range, low-S pair `(r, s)` computed by `sign_ecdsa` from the
    RFC 6979 nonce -/
theorem ecdsaSign_inv (E : EcOps) (H : HashOps) (hn : E.n ≤ 2 ^ 256) (fuel : Nat) (msg secret : Bytes)
    (extra : Option Bytes) (sig : Bytes) (h : ecdsaSign E H fuel msg secret extra = some sig) :
    msg.length = 32 ∧ secret.length = 32 ∧ seckeyValid E (ofBe secret) = true ∧
    ∃ k r s, deterministicK H fuel E.n (ofBe secret) (ofBe msg) extra = some k ∧
      signRS E (ofBe secret) (ofBe msg) k = some (r, s) ∧ rangeOk E.n true r s = true ∧
      sig = leN 32 r ++ leN 32 s := by
  unfold ecdsaSign at h
  split at h; · cases h
  rename_i h1
  split at h; · cases h
  rename_i h2
  split at h; · cases h
  simp only [] at h
  split at h; · cases h
  rename_i h4
  split at h; · cases h
  rename_i k hk
  split at h; · cases h
  rename_i r s hrs
  unfold ecdsaSignatureParseDer at h
  split at h; · cases h
  rename_i r' s' hp
  have hsplit := parse_strict _ _ _ _ _ hp
  have hlt := parseRS_lt _ _ _ (by
    unfold Der.parse at hp
    split at hp
    · cases hp
    · rename_i a b hab
      split at hp
      · cases hp; exact hab
      · cases hp)
  -- (r', s') = (r, s): the encoding is injective on pairs the parser accepts
  have hrr : parseRS (serRS r s) = some (r', s') := by
    unfold Der.parse at hp
    split at hp
    · cases hp
    · rename_i a b hab
      split at hp
      · cases hp; exact hab
      · cases hp
  have hself : serRS r s = serRS r' s' := hsplit.1
  have hrr2 : parseRS (serRS r' s') = some (r', s') := by rw [← hself]; exact hrr
  have hok := hsplit.2
  have hr's' : r' < E.n ∧ s' < E.n := by
    have := (rangeOk_iff E.n true r' s').mp hok; omega
  -- r, s < n as well: from signRS
  have hrs_lt : r < 2 ^ 256 ∧ s < 2 ^ 256 := by
    unfold signRS at hrs
    split at hrs
    · cases hrs
    · rename_i rx ry hR
      simp only [Option.some.injEq, Prod.mk.injEq] at hrs
      obtain ⟨rfl, rfl⟩ := hrs
      have hnpos : 0 < E.n := by omega
      have m1 := Nat.mod_lt rx hnpos
      have m2 := Nat.mod_lt (E.invN k * (ofBe msg + ofBe secret * (rx % E.n))) hnpos
      constructor
      · omega
      · split <;> omega
  have := parseRS_serRS r s hrs_lt.1 hrs_lt.2
  rw [this] at hrr
  simp only [Option.some.injEq, Prod.mk.injEq] at hrr
  obtain ⟨rfl, rfl⟩ := hrr
  simp only [Option.some.injEq] at h
  refine ⟨by simpa using h1, by simpa using h2, by simpa using h4, k, r, s, hk, hrs, hok, h.symm⟩

theorem ecdsa_sign_verify (E : EcOps) (L : EcLaws E) (H : HashOps) (hn : E.n ≤ 2 ^ 256) (hp : E.p ≤ 2 ^ 256)
    (fuel : Nat) (msg secret : Bytes) (extra : Option Bytes) (sig pub : Bytes)
    (hs : ecdsaSign E H fuel msg secret extra = some sig) (hpub : ecPubkeyCreate E secret = some pub) :
    ecdsaVerify E sig msg pub = some true := by
  obtain ⟨hml, hsl, hvalid, k, r, s, hk, hrs, hok, rfl⟩ := ecdsaSign_inv E H hn fuel msg secret extra sig hs
  have hrange := (rangeOk_iff E.n true r s).mp hok
  have hkr := deterministicK_range H fuel E.n _ _ extra k hk
  unfold ecPubkeyCreate at hpub
  simp only [hsl, ne_eq, not_true_eq_false, if_false, hvalid, if_true] at hpub
  unfold pubStore at hpub
  split at hpub
  · cases hpub
  · rename_i x y hxy
    simp only [Option.some.injEq] at hpub
    subst hpub
    obtain ⟨_, hxp, _, hyp⟩ := L.xy_range _ _ _ hxy
    unfold ecdsaVerify
    simp only [List.length_append, leN_length, hml, ne_eq, not_true_eq_false, if_false, Nat.reduceAdd]
    rw [pubLoad_store E x y hxp hyp hp, L.ofXY_xy _ _ _ hxy]
    simp only []
    rw [serializeDer_struct r s (by omega) (by omega)]
    simp only [Option.some.injEq]
    exact verify_signRS L hn _ _ k r s ⟨by omega, hkr.2⟩ hrs (by omega) (by omega) msg rfl

end Embit
