/-
  GF(2) linear algebra on `Nat`-encoded bit vectors, kernel-evaluable:
  a rank check by Gaussian elimination with shared work (`check`) and its soundness:
  `check n G = true` implies that no non-zero choice of at most `n` five-bit symbols, one per group of `G`
  (in order), combines the group vectors to zero.
-/
namespace Embit.Gf2

/-- XOR of the vectors selected by the coefficients -/
def comb : List Bool → List Nat → Nat
  | b :: c, v :: g => (if b then v else 0) ^^^ comb c g
  | _, _ => 0

def bits5 (x : Nat) : List Bool := [x.testBit 0, x.testBit 1, x.testBit 2, x.testBit 3, x.testBit 4]

/-- syndrome of the symbol list `r` against the groups `G` (group `i` = the five vectors of position `i`) -/
def synG : List Nat → List (List Nat) → Nat
  | x :: r, g :: G => comb (bits5 x) g ^^^ synG r G
  | _, _ => 0

/-- clear bit `p` of `u` using `v` (bit test written with kernel-accelerated operations) -/
def elim (v p u : Nat) : Nat := Nat.xor u (Nat.mul (Nat.mod (Nat.shiftRight u p) 2) v)

theorem elim_def (v p u : Nat) : elim v p u = if (u >>> p) % 2 = 1 then u ^^^ v else u := by
  show u ^^^ (((u >>> p) % 2) * v) = _
  have : (u >>> p) % 2 = 0 ∨ (u >>> p) % 2 = 1 := by omega
  rcases this with h | h <;> simp [h]

/-- index of the lowest set bit (searching at most `fuel` positions) -/
def ctz : Nat → Nat → Nat
  | .zero, _ => .zero
  | .succ fuel, v => cond (Nat.beq (Nat.mod v 2) 1) Nat.zero (Nat.succ (ctz fuel (Nat.div v 2)))

theorem bit_iff (u p : Nat) : (u >>> p) % 2 = 1 ↔ u.testBit p = true := by
  unfold Nat.testBit
  rw [Nat.and_comm, Nat.and_one_is_mod]
  simp only [bne_iff_ne, ne_eq]
  omega

/-- evaluate `x` before continuing (keeps kernel terms small: the result is a literal) -/
def forceNat {α : Type} (x : Nat) (k : Nat → α) : α :=
  match x with
  | .zero => k .zero
  | .succ n => k (.succ n)

theorem forceNat_eq {α : Type} (x : Nat) (k : Nat → α) : forceNat x k = k x := by
  cases x <;> rfl

/-- `map` in continuation-passing style: every element is evaluated before the continuation sees the list -/
def mapK {α : Type} (f : Nat → Nat) : List Nat → (List Nat → α) → α
  | [], k => k []
  | x :: xs, k => forceNat (f x) fun y => mapK f xs fun ys => k (y :: ys)

theorem mapK_eq {α : Type} (f : Nat → Nat) (l : List Nat) (k : List Nat → α) : mapK f l k = k (l.map f) := by
  induction l generalizing k with
  | nil => rfl
  | cons x xs ih => simp [mapK, forceNat_eq, ih]

def mapKK {α : Type} (f : Nat → Nat) : List (List Nat) → (List (List Nat) → α) → α
  | [], k => k []
  | g :: G, k => mapK f g fun g' => mapKK f G fun G' => k (g' :: G')

theorem mapKK_eq {α : Type} (f : Nat → Nat) (G : List (List Nat)) (k : List (List Nat) → α) :
    mapKK f G k = k (G.map (List.map f)) := by
  induction G generalizing k with
  | nil => rfl
  | cons g G ih => simp [mapKK, mapK_eq, ih]

/-- eliminate the vectors of `g` one after another (pivot = top bit) from the rest of `g` and from all of `G`;
    `none` when a vector has become zero (dependence) -/
def reduceByN : Nat → List Nat → List (List Nat) → Option (List (List Nat))
  | _, [], G => some G
  | 0, _ :: _, _ => none
  | k + 1, v :: g, G =>
    forceNat (ctz 30 v) fun p =>
      cond (Nat.beq (Nat.mod (Nat.shiftRight v p) 2) 1)
        (mapK (elim v p) g fun g' => mapKK (elim v p) G fun G' => reduceByN k g' G')
        none

/-- groups have five vectors -/
def reduceBy (g : List Nat) (G : List (List Nat)) : Option (List (List Nat)) := reduceByN 5 g G

/-- one level of the search: every group may be skipped or used as the next non-zero symbol -/
def checkWith (next : List (List Nat) → Bool) (last : Bool) : List (List Nat) → Bool
  | [] => true
  | g :: G =>
    checkWith next last G && g.length == 5 &&
      (if last then (reduceBy g []).isSome
       else match reduceBy g G with
         | none => false
         | some G' => next G')

/-- all choices of at most `n` groups (in order) are jointly independent -/
def check : Nat → List (List Nat) → Bool
  | 0 => fun _ => true
  | 1 => checkWith (fun _ => true) true
  | n + 2 => checkWith (check (n + 1)) false

def weight : List Nat → Nat
  | [] => 0
  | x :: r => (if x = 0 then 0 else 1) + weight r

/-! ### linearity -/

theorem elim_xor (v p a b : Nat) : elim v p (a ^^^ b) = elim v p a ^^^ elim v p b := by
  simp only [elim_def]
  have e : ∀ u, ((u >>> p) % 2 = 1) = (u.testBit p = true) := fun u => propext (bit_iff u p)
  simp only [e]
  rw [Nat.testBit_xor]
  cases ha : a.testBit p <;> cases hb : b.testBit p <;> simp
  · rw [Nat.xor_assoc]
  · rw [Nat.xor_assoc, Nat.xor_assoc, Nat.xor_comm b v]
  · rw [Nat.xor_assoc, ← Nat.xor_assoc v b v, Nat.xor_comm v b, Nat.xor_assoc b v v, Nat.xor_self, Nat.xor_zero]

theorem elim_zero (v p : Nat) : elim v p 0 = 0 := by simp [elim_def]

theorem elim_self (v p : Nat) (h : (v >>> p) % 2 = 1) : elim v p v = 0 := by simp [elim_def, h]

theorem comb_map (v p : Nat) (c : List Bool) (g : List Nat) :
    comb c (g.map (elim v p)) = elim v p (comb c g) := by
  induction c generalizing g with
  | nil => simp [comb, elim_zero]
  | cons b c ih =>
    cases g with
    | nil => simp [comb, elim_zero]
    | cons u g =>
      simp only [List.map_cons, comb, elim_xor, ih]
      cases b <;> simp [elim_zero]

theorem synG_map (v p : Nat) (r : List Nat) (G : List (List Nat)) :
    synG r (G.map (List.map (elim v p))) = elim v p (synG r G) := by
  induction r generalizing G with
  | nil => simp [synG, elim_zero]
  | cons x r ih =>
    cases G with
    | nil => simp [synG, elim_zero]
    | cons g G => simp only [List.map_cons, synG, elim_xor, ih, comb_map]

/-- any XOR-linear map commutes with `comb` / `synG` -/
theorem comb_mapLin (f : Nat → Nat) (hf : ∀ a b, f (a ^^^ b) = f a ^^^ f b) (h0 : f 0 = 0)
    (c : List Bool) (g : List Nat) : comb c (g.map f) = f (comb c g) := by
  induction c generalizing g with
  | nil => simp [comb, h0]
  | cons b c ih =>
    cases g with
    | nil => simp [comb, h0]
    | cons u g =>
      simp only [List.map_cons, comb, hf, ih]
      cases b <;> simp [h0]

theorem synG_mapLin (f : Nat → Nat) (hf : ∀ a b, f (a ^^^ b) = f a ^^^ f b) (h0 : f 0 = 0)
    (r : List Nat) (G : List (List Nat)) : synG r (G.map (List.map f)) = f (synG r G) := by
  induction r generalizing G with
  | nil => simp [synG, h0]
  | cons x r ih =>
    cases G with
    | nil => simp [synG, h0]
    | cons g G => simp only [List.map_cons, synG, hf, ih, comb_mapLin f hf h0]

theorem comb_all_false (c : List Bool) (g : List Nat) (h : ∀ b ∈ c, b = false) : comb c g = 0 := by
  induction c generalizing g with
  | nil => simp [comb]
  | cons b c ih =>
    cases g with
    | nil => simp [comb]
    | cons u g =>
      have hb : b = false := h b (by simp)
      simp [comb, hb, ih g (fun x hx => h x (by simp [hx]))]

theorem bits5_zero : bits5 0 = [false, false, false, false, false] := by simp [bits5]

theorem synG_all_zero (r : List Nat) (G : List (List Nat)) (h : ∀ x ∈ r, x = 0) : synG r G = 0 := by
  induction r generalizing G with
  | nil => simp [synG]
  | cons x r ih =>
    cases G with
    | nil => simp [synG]
    | cons g G =>
      have hx : x = 0 := h x (by simp)
      subst hx
      simp only [synG, ih G (fun y hy => h y (by simp [hy]))]
      rw [comb_all_false _ _ (by simp [bits5_zero])]
      rfl

/-! ### soundness of `reduceBy` -/

theorem reduceByN_sound (k : Nat) : ∀ (g : List Nat) (G G' : List (List Nat)), reduceByN k g G = some G' →
    ∀ (c : List Bool), c.length ≤ g.length → ∀ (r : List Nat), comb c g ^^^ synG r G = 0 →
    synG r G' = 0 ∧ (synG r G = 0 → ∀ b ∈ c, b = false) := by
  have base : ∀ (G G' : List (List Nat)), some G = some G' → ∀ (c : List Bool), c.length ≤ 0 → ∀ (r : List Nat),
      comb c [] ^^^ synG r G = 0 → synG r G' = 0 ∧ (synG r G = 0 → ∀ b ∈ c, b = false) := by
    intro G G' h c hc r h0
    simp at h; subst h
    have : c = [] := by cases c with
      | nil => rfl
      | cons _ _ => simp at hc
    subst this
    simp [comb] at h0
    exact ⟨h0, fun _ => by simp⟩
  induction k with
  | zero =>
    intro g G G' h c hc r h0
    cases g with
    | nil => exact base G G' (by simpa [reduceByN] using h) c (by simpa using hc) r h0
    | cons v g => simp [reduceByN] at h
  | succ k ih =>
    intro g G G' h c hc r h0
    cases g with
    | nil => exact base G G' (by simpa [reduceByN] using h) c (by simpa using hc) r h0
    | cons v g =>
      simp only [reduceByN, forceNat_eq] at h
      generalize ctz 30 v = p at h
      rw [Bool.cond_eq_ite] at h
      split at h
      case isFalse => simp at h
      case isTrue hb =>
        have hp : (v >>> p) % 2 = 1 := Nat.eq_of_beq_eq_true hb
        rw [mapK_eq, mapKK_eq] at h
        cases c with
        | nil =>
          simp [comb] at h0
          have h0' : comb [] (g.map (elim v p)) ^^^ synG r (G.map (List.map (elim v p))) = 0 := by
            simp [comb, synG_map, h0, elim_zero]
          exact ⟨(ih _ _ _ h [] (by simp) r h0').1, fun _ => by simp⟩
        | cons b c =>
          simp only [comb] at h0
          have hE : elim v p ((if b then v else 0) ^^^ comb c g ^^^ synG r G) = 0 := by rw [h0, elim_zero]
          rw [elim_xor, elim_xor] at hE
          have hbv : elim v p (if b then v else 0) = 0 := by
            cases b <;> simp [elim_zero, elim_self v _ hp]
          rw [hbv, Nat.zero_xor, ← comb_map, ← synG_map] at hE
          have hc' : c.length ≤ (g.map (elim v p)).length := by simp at hc ⊢; omega
          obtain ⟨r1, r2⟩ := ih _ _ _ h c hc' r hE
          refine ⟨r1, ?_⟩
          intro hs
          have hs' : synG r (G.map (List.map (elim v p))) = 0 := by rw [synG_map, hs, elim_zero]
          have hcf := r2 hs'
          have hcg : comb c g = 0 := comb_all_false c g hcf
          rw [hcg, hs, Nat.xor_zero, Nat.xor_zero] at h0
          intro x hx
          simp at hx
          rcases hx with rfl | hx
          · cases hb : x with
            | false => rfl
            | true =>
              rw [hb] at h0; simp at h0
              rw [h0] at hp; simp at hp
          · exact hcf x hx

theorem reduceBy_sound (g : List Nat) (G G' : List (List Nat)) (h : reduceBy g G = some G')
    (c : List Bool) (hc : c.length ≤ g.length) (r : List Nat) (h0 : comb c g ^^^ synG r G = 0) :
    synG r G' = 0 ∧ (synG r G = 0 → ∀ b ∈ c, b = false) :=
  reduceByN_sound 5 g G G' h c hc r h0

/-! ### soundness of `check` -/

theorem bits5_length (x : Nat) : (bits5 x).length = 5 := rfl

theorem bits5_false (x : Nat) (hx : x < 32) (h : ∀ b ∈ bits5 x, b = false) : x = 0 := by
  apply Nat.eq_of_testBit_eq
  intro i
  simp only [Nat.zero_testBit]
  by_cases hi : i < 5
  · have : i = 0 ∨ i = 1 ∨ i = 2 ∨ i = 3 ∨ i = 4 := by omega
    rcases this with rfl | rfl | rfl | rfl | rfl <;> exact h _ (by simp [bits5])
  · apply Nat.testBit_lt_two_pow
    calc x < 2 ^ 5 := hx
      _ ≤ 2 ^ i := Nat.pow_le_pow_right (by decide) (by omega)

/-- the property established by `check n G` -/
def Good (n : Nat) (G : List (List Nat)) : Prop :=
  ∀ r : List Nat, r.length ≤ G.length → (∀ x ∈ r, x < 32) → weight r ≤ n → synG r G = 0 → ∀ x ∈ r, x = 0

theorem weight_zero (r : List Nat) (h : weight r = 0) : ∀ x ∈ r, x = 0 := by
  induction r with
  | nil => simp
  | cons y r ih =>
    simp only [weight] at h
    by_cases hy : y = 0
    · intro x hx; simp at hx; rcases hx with rfl | hx
      · exact hy
      · exact ih (by simp [hy] at h; exact h) x hx
    · simp [hy] at h

theorem reduceByN_length (k : Nat) : ∀ (g : List Nat) (G G' : List (List Nat)), reduceByN k g G = some G' →
    G'.length = G.length := by
  induction k with
  | zero =>
    intro g G G' h
    cases g with
    | nil => simp [reduceByN] at h; subst h; rfl
    | cons v g => simp [reduceByN] at h
  | succ k ih =>
    intro g G G' h
    cases g with
    | nil => simp [reduceByN] at h; subst h; rfl
    | cons v g =>
      simp only [reduceByN, forceNat_eq] at h
      rw [Bool.cond_eq_ite] at h
      split at h
      case isFalse => simp at h
      case isTrue hb =>
        rw [mapK_eq, mapKK_eq] at h
        have := ih _ _ _ h
        rw [this]; simp

theorem reduceBy_length (g : List Nat) (G G' : List (List Nat)) (h : reduceBy g G = some G') :
    G'.length = G.length := reduceByN_length 5 g G G' h

/-- one level: if `next` establishes `Good n`, `checkWith next last` establishes `Good (n+1)`
    (`last = true` is used for `n = 0`) -/
theorem checkWith_sound (n : Nat) (next : List (List Nat) → Bool) (last : Bool)
    (hnext : ∀ G, next G = true → Good n G) (hlast : last = true → n = 0) :
    ∀ G, checkWith next last G = true → Good (n + 1) G := by
  intro G
  induction G with
  | nil =>
    intro _ r hl _ _ _
    have : r = [] := by cases r with
      | nil => rfl
      | cons _ _ => simp at hl
    subst this; simp
  | cons g G ih =>
    intro h r hl hlt hw hs
    cases r with
    | nil => simp
    | cons x r =>
      simp only [checkWith, Bool.and_eq_true, beq_iff_eq] at h
      obtain ⟨⟨hG, hg5⟩, hrest⟩ := h
      have hxlt : x < 32 := hlt x (by simp)
      have hrlt : ∀ y ∈ r, y < 32 := fun y hy => hlt y (by simp [hy])
      have hrl : r.length ≤ G.length := by simpa using hl
      simp only [synG] at hs
      by_cases hx : x = 0
      · subst hx
        have h0 : comb (bits5 0) g = 0 := comb_all_false _ _ (by simp [bits5_zero])
        rw [h0, Nat.zero_xor] at hs
        have hw' : weight r ≤ n + 1 := by simpa [weight] using hw
        have := ih hG r hrl hrlt hw' hs
        intro y hy; simp at hy; rcases hy with rfl | hy
        · rfl
        · exact this y hy
      · have hw' : weight r ≤ n := by simp [weight, hx] at hw; omega
        exfalso
        apply hx
        cases last with
        | true =>
          have hn : n = 0 := hlast rfl
          simp only [if_true] at hrest
          cases hred : reduceBy g [] with
          | none => simp [hred] at hrest
          | some G' =>
            have hr0 := weight_zero r (by omega)
            have hs0 : synG r G = 0 := synG_all_zero r G hr0
            rw [hs0, Nat.xor_zero] at hs
            have := (reduceBy_sound g [] G' hred (bits5 x) (by simp [bits5_length, hg5]) [] (by
              simpa [synG] using hs)).2 (by simp [synG])
            exact bits5_false x hxlt this
        | false =>
          simp only [Bool.false_eq_true, if_false] at hrest
          cases hred : reduceBy g G with
          | none => simp [hred] at hrest
          | some G' =>
            simp only [hred] at hrest
            have hlen : G'.length = G.length := reduceBy_length g G G' hred
            obtain ⟨s1, s2⟩ := reduceBy_sound g G G' hred (bits5 x) (by simp [bits5_length, hg5]) r hs
            have hr0 := hnext G' hrest r (by omega) hrlt hw' s1
            have hs0 : synG r G = 0 := synG_all_zero r G hr0
            exact bits5_false x hxlt (s2 hs0)

theorem check_sound (n : Nat) : ∀ G, check n G = true → Good n G := by
  induction n with
  | zero => intro G _ r _ _ hw _; exact weight_zero r (by omega)
  | succ n ih =>
    cases n with
    | zero =>
      intro G h
      exact checkWith_sound 0 (fun _ => true) true
        (fun G _ r _ _ hw _ => weight_zero r (by omega)) (fun _ => rfl) G h
    | succ m =>
      intro G h
      exact checkWith_sound (m + 1) (check (m + 1)) false ih (fun e => by simp at e) G h

/-- the head test of `checkWith`, so that a long list can be checked in independent pieces -/
def headOk (next : List (List Nat) → Bool) (last : Bool) : List (List Nat) → Bool
  | [] => true
  | g :: G =>
    g.length == 5 &&
      (if last then (reduceBy g []).isSome
       else match reduceBy g G with
         | none => false
         | some G' => next G')

theorem checkWith_of_heads (next : List (List Nat) → Bool) (last : Bool) (G : List (List Nat))
    (h : ∀ k, k < G.length → headOk next last (G.drop k) = true) : checkWith next last G = true := by
  induction G with
  | nil => rfl
  | cons g G ih =>
    have h0 := h 0 (by simp)
    simp only [List.drop_zero, headOk, Bool.and_eq_true, beq_iff_eq] at h0
    simp only [checkWith, Bool.and_eq_true, beq_iff_eq]
    refine ⟨⟨ih (fun k hk => ?_), h0.1⟩, h0.2⟩
    have := h (k + 1) (by simpa using hk)
    simpa using this

/-- the head test at level 2 for start position `k`, restricted to second positions `lo … lo+n-1`
    (so that the search can be checked in many small independent kernel evaluations) -/
def pairOk (L1 : List (List Nat)) (k lo n : Nat) : Bool :=
  match L1.drop k with
  | [] => true
  | g :: G =>
    g.length == 5 &&
      match reduceBy g G with
      | none => false
      | some G2 => (List.range' lo n).all fun j => headOk (check 1) false (G2.drop j)

theorem headOk_of_pairs (L1 : List (List Nat)) (k : Nat)
    (h0 : ∃ lo n, pairOk L1 k lo n = true)
    (h : ∀ j, j + k + 1 < L1.length → ∃ lo n, pairOk L1 k lo n = true ∧ lo ≤ j ∧ j < lo + n) :
    headOk (check 2) false (L1.drop k) = true := by
  cases hd : L1.drop k with
  | nil => rfl
  | cons g G =>
    have hlen : (g :: G).length = L1.length - k := by rw [← hd]; simp
    obtain ⟨lo0, n0, hp0⟩ := h0
    unfold pairOk at hp0
    rw [hd] at hp0
    simp only [Bool.and_eq_true, beq_iff_eq] at hp0
    obtain ⟨hg5, hr0⟩ := hp0
    cases hred : reduceBy g G with
    | none => simp [hred] at hr0
    | some G2 =>
      have hl2 : G2.length = G.length := reduceBy_length g G G2 hred
      simp only [headOk, hg5, hred, Bool.false_eq_true, if_false, beq_self_eq_true, Bool.true_and]
      show checkWith (check 1) false G2 = true
      apply checkWith_of_heads
      intro j hj
      have hj' : j + k + 1 < L1.length := by
        simp only [List.length_cons] at hlen; omega
      obtain ⟨lo, n, hp, h1, h2⟩ := h j hj'
      unfold pairOk at hp
      rw [hd] at hp
      simp only [hg5, hred, beq_self_eq_true, Bool.true_and, List.all_eq_true] at hp
      exact hp j (by rw [List.mem_range']; exact ⟨j - lo, by omega, by omega⟩)

end Embit.Gf2
