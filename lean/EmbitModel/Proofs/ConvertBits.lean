import EmbitModel.Model.Bech32
import EmbitModel.Proofs.Digits
/-
  `convertbits` characterised arithmetically: reading the input as one big-endian number `N` of
  `T = frombits·len` bits, the accumulator loop emits the base-`2^tobits` digits of `N >> (T mod tobits)`.
-/
namespace Embit.Model.Bech32
open Embit Digits

theorem mod_div_mod (N m b t : Nat) (h : b + t ≤ m) : (N % 2 ^ m) / 2 ^ b % 2 ^ t = N / 2 ^ b % 2 ^ t := by
  have e : 2 ^ m = 2 ^ b * 2 ^ (m - b) := by rw [← Nat.pow_add]; congr 1; omega
  rw [e, Nat.mod_mul_right_div_self]
  exact Nat.mod_mod_of_dvd _ (Nat.pow_dvd_pow 2 (by omega))

theorem mod_mul_add_mod (N M c v : Nat) : (N % M * c + v) % M = (N * c + v) % M := by
  rw [Nat.add_mod, Nat.mul_mod, Nat.mod_mod, ← Nat.mul_mod, ← Nat.add_mod]

theorem mask_eq (n : Nat) : (1 <<< n) - 1 = 2 ^ n - 1 := by rw [Nat.one_shiftLeft]

/-- the inner `while` loop: emits the digits between bit positions `bits` and `bits % tobits` -/
theorem cbEmit_spec (N m to : Nat) (hto : 0 < to) (acc : Nat) (hacc : acc = N % 2 ^ m) :
    ∀ (bits q : Nat) (ret : List Nat), bits ≤ m →
      ret = fixedBE (2 ^ to) q (N / 2 ^ bits) →
      cbEmit acc to (2 ^ to - 1) bits ret
        = (bits % to, fixedBE (2 ^ to) (q + bits / to) (N / 2 ^ (bits % to))) := by
  intro bits
  induction bits using Nat.strongRecOn with
  | _ bits ih =>
    intro q ret hm hret
    rw [cbEmit]
    by_cases hb : bits ≥ to
    · have hcond : bits ≥ to ∧ to > 0 := ⟨hb, hto⟩
      simp only [hcond, and_self, dite_true]
      have hstep : ret ++ [(acc >>> (bits - to)) &&& (2 ^ to - 1)]
          = fixedBE (2 ^ to) (q + 1) (N / 2 ^ (bits - to)) := by
        rw [fixedBE_succ, Nat.div_div_eq_div_mul, ← Nat.pow_add,
          show bits - to + to = bits by omega, ← hret, Nat.and_two_pow_sub_one_eq_mod,
          Nat.shiftRight_eq_div_pow, hacc, mod_div_mod N m (bits - to) to (by omega)]
      rw [ih (bits - to) (by omega) (q + 1) _ (by omega) hstep]
      have h1 : (bits - to) % to = bits % to := by
        conv => rhs; rw [show bits = (bits - to) + to by omega]
        rw [Nat.add_mod_right]
      have h2 : q + 1 + (bits - to) / to = q + bits / to := by
        have : bits / to = (bits - to) / to + 1 := by
          conv => lhs; rw [show bits = (bits - to) + to by omega]
          rw [Nat.add_div_right _ hto]
        omega
      rw [h1, h2]
    · have hcond : ¬ (bits ≥ to ∧ to > 0) := by omega
      simp only [hcond, dite_false]
      have h1 : bits % to = bits := Nat.mod_eq_of_lt (by omega)
      have h2 : bits / to = 0 := Nat.div_eq_of_lt (by omega)
      rw [h1, h2, Nat.add_zero, hret]

/-- the outer loop, started in a state that represents the number `N` of `T` bits -/
theorem cbLoop_spec (from_ to : Nat) (hf : 0 < from_) (hto : 0 < to) (data : List Nat)
    (hd : ∀ v ∈ data, v < 2 ^ from_) (N T : Nat) :
    cbLoop from_ to (2 ^ to - 1) (2 ^ (from_ + to - 1) - 1) data (N % 2 ^ (from_ + to - 1)) (T % to)
        (fixedBE (2 ^ to) (T / to) (N / 2 ^ (T % to)))
      = some ((data.foldl (fun a d => a * 2 ^ from_ + d) N) % 2 ^ (from_ + to - 1),
              (T + from_ * data.length) % to,
              fixedBE (2 ^ to) ((T + from_ * data.length) / to)
                ((data.foldl (fun a d => a * 2 ^ from_ + d) N) / 2 ^ ((T + from_ * data.length) % to))) := by
  induction data generalizing N T with
  | nil => simp [cbLoop]
  | cons v rest ih =>
    have hv : v < 2 ^ from_ := hd v (by simp)
    rw [cbLoop]
    have h0 : v >>> from_ = 0 := by rw [Nat.shiftRight_eq_div_pow]; exact Nat.div_eq_of_lt hv
    simp only [h0, ne_eq, not_true_eq_false, if_false]
    -- the new accumulator
    have hacc : ((N % 2 ^ (from_ + to - 1)) <<< from_ ||| v) &&& (2 ^ (from_ + to - 1) - 1)
        = (N * 2 ^ from_ + v) % 2 ^ (from_ + to - 1) := by
      rw [← Nat.shiftLeft_add_eq_or_of_lt hv, Nat.and_two_pow_sub_one_eq_mod, Nat.shiftLeft_eq,
        mod_mul_add_mod]
    rw [hacc]
    -- the emit loop
    have hT : T % to < to := Nat.mod_lt _ hto
    have hret : fixedBE (2 ^ to) (T / to) (N / 2 ^ (T % to))
        = fixedBE (2 ^ to) (T / to) ((N * 2 ^ from_ + v) / 2 ^ (T % to + from_)) := by
      congr 1
      rw [Nat.pow_add, Nat.mul_comm (2 ^ (T % to)), ← Nat.div_div_eq_div_mul]
      congr 1
      rw [Nat.mul_comm, Nat.mul_add_div (Nat.two_pow_pos _), Nat.div_eq_of_lt hv, Nat.add_zero]
    have hemit := cbEmit_spec (N * 2 ^ from_ + v) (from_ + to - 1) to hto _ rfl (T % to + from_) (T / to) _
      (by omega) hret
    rw [hemit]
    have e1 : (T % to + from_) % to = (T + from_) % to := by rw [Nat.add_mod, Nat.mod_mod, ← Nat.add_mod]
    have e2 : T / to + (T % to + from_) / to = (T + from_) / to := by
      have h := Nat.mod_add_div T to
      have : T + from_ = (T % to + from_) + to * (T / to) := by omega
      rw [this, Nat.add_mul_div_left _ _ hto]; omega
    rw [e1, e2]
    have := ih (fun x hx => hd x (by simp [hx])) (N * 2 ^ from_ + v) (T + from_)
    simp only [List.foldl_cons, List.length_cons]
    rw [this]
    have e3 : T + from_ + from_ * rest.length = T + from_ * (rest.length + 1) := by
      rw [Nat.mul_add]; omega
    rw [e3]

/-- an out-of-range value makes the loop fail -/
theorem cbLoop_none (from_ to maxv maxAcc : Nat) (data : List Nat) (h : ∃ v ∈ data, ¬ v < 2 ^ from_)
    (acc bits : Nat) (ret : List Nat) : cbLoop from_ to maxv maxAcc data acc bits ret = none := by
  induction data generalizing acc bits ret with
  | nil => simp at h
  | cons v rest ih =>
    rw [cbLoop]
    by_cases hv : v < 2 ^ from_
    · have h0 : v >>> from_ = 0 := by rw [Nat.shiftRight_eq_div_pow]; exact Nat.div_eq_of_lt hv
      simp only [h0, ne_eq, not_true_eq_false, if_false]
      apply ih
      obtain ⟨x, hx, hx2⟩ := h
      simp at hx
      rcases hx with rfl | hx
      · exact absurd hv hx2
      · exact ⟨x, hx, hx2⟩
    · have h0 : v >>> from_ ≠ 0 := by
        rw [Nat.shiftRight_eq_div_pow]
        intro e
        rcases Nat.div_eq_zero_iff.mp e with e | e
        · exact absurd e (Nat.ne_of_gt (Nat.two_pow_pos _))
        · exact hv e
      simp [h0]

/-- value / bit count of a digit list -/
abbrev valOf (from_ : Nat) (data : List Nat) : Nat := ofBE (2 ^ from_) data

/-- `convertbits` in closed form (valid input values) -/
theorem convertbits_spec (from_ to : Nat) (hf : 0 < from_) (hto : 0 < to) (data : List Nat)
    (hd : ∀ v ∈ data, v < 2 ^ from_) (pad : Bool) :
    convertbits data from_ to pad =
      let N := valOf from_ data
      let T := from_ * data.length
      let bits := T % to
      if pad then
        some (if bits ≠ 0 then fixedBE (2 ^ to) (T / to + 1) (N * 2 ^ (to - bits))
              else fixedBE (2 ^ to) (T / to) N)
      else if bits ≥ from_ ∨ N % 2 ^ bits ≠ 0 then none
      else some (fixedBE (2 ^ to) (T / to) (N / 2 ^ bits)) := by
  have hloop := cbLoop_spec from_ to hf hto data hd 0 0
  simp only [Nat.zero_mod, Nat.zero_div, fixedBE, Nat.zero_add, Nat.pow_zero, Nat.div_one] at hloop
  unfold convertbits
  simp only [mask_eq, hloop]
  have hfold : data.foldl (fun a d => a * 2 ^ from_ + d) 0 = valOf from_ data := rfl
  rw [hfold]
  generalize valOf from_ data = N
  generalize hT : from_ * data.length = T
  have hb : T % to < to := Nat.mod_lt _ hto
  -- the padding symbol
  have hpadv : ((N % 2 ^ (from_ + to - 1)) <<< (to - T % to)) &&& (2 ^ to - 1)
      = (N * 2 ^ (to - T % to)) % 2 ^ to := by
    rw [Nat.and_two_pow_sub_one_eq_mod, Nat.shiftLeft_eq]
    have hdvd : 2 ^ to ∣ 2 ^ (from_ + to - 1) := Nat.pow_dvd_pow 2 (by omega)
    rw [← Nat.mod_mod_of_dvd (N % 2 ^ (from_ + to - 1) * 2 ^ (to - T % to)) hdvd]
    rw [← Nat.mod_mod_of_dvd (N * 2 ^ (to - T % to)) hdvd]
    congr 1
    rw [Nat.mul_mod, Nat.mod_mod, ← Nat.mul_mod]
  have hdivpad : N * 2 ^ (to - T % to) / 2 ^ to = N / 2 ^ (T % to) := by
    have e : 2 ^ to = 2 ^ (T % to) * 2 ^ (to - T % to) := by rw [← Nat.pow_add]; congr 1; omega
    rw [e, Nat.mul_div_mul_right _ _ (Nat.two_pow_pos _)]
  have hzero : (N * 2 ^ (to - T % to)) % 2 ^ to = 0 ↔ N % 2 ^ (T % to) = 0 := by
    have e : 2 ^ to = 2 ^ (T % to) * 2 ^ (to - T % to) := by rw [← Nat.pow_add]; congr 1; omega
    rw [e, Nat.mul_mod_mul_right]
    constructor
    · intro h
      rcases Nat.mul_eq_zero.mp h with h | h
      · exact h
      · exact absurd h (Nat.ne_of_gt (Nat.two_pow_pos _))
    · intro h; rw [h, Nat.zero_mul]
  cases pad
  · -- no padding
    simp only [Bool.false_eq_true, if_false, hpadv]
    by_cases hc : T % to ≥ from_ ∨ N % 2 ^ (T % to) ≠ 0
    · simp [hc]
      intro hlt
      rcases hc with hc | hc
      · omega
      · exact mt hzero.mp hc
    · have hc' : ¬ (T % to ≥ from_) ∧ N % 2 ^ (T % to) = 0 := by
        constructor
        · intro h; exact hc (Or.inl h)
        · exact Decidable.byContradiction (fun h => hc (Or.inr h))
      simp [hc]
      exact ⟨by omega, hzero.mpr hc'.2⟩
  · -- padding
    simp only [if_true, hpadv]
    by_cases hz : T % to = 0
    · simp [hz]
    · simp only [hz, ne_eq, not_false_eq_true, if_true]
      rw [fixedBE_succ, hdivpad]

end Embit.Model.Bech32
