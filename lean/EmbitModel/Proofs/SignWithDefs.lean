import EmbitModel.Model.SignWith
/-
  Vocabulary for the C02X theorems about `SignWith.signWith` and basic lemmas (Mathlib-free):
  the frame (`core`), applying a trace of writes, the laws assumed of the abstract signing functions and of the set
  iteration orders, the involvement rule (`Controls`, `OwnKey`) and the justification of a single write (`Justified`).
-/
namespace Embit.Model.SignWith
open Embit Embit.Model

variable {HD : Type}

/-! ### frame: everything except the three signature fields -/

/-- a scope with its signature fields blanked: two scopes with the same `core` differ at most in `partial_sigs`,
    `taproot_sigs` and `final_scriptwitness` -/
def core (s : InScope) : InScope := { s with partialSigs := [], tapSigs := [], finalWitness := none }

/-- a PSBT with the signature fields of all inputs blanked -/
def pcore (p : Psbt) : Psbt := { p with inputs := p.inputs.map core }

/-! ### applying writes -/

def applySlot (s : InScope) : Slot × Bytes → InScope
  | (.partialSig k, v) => { s with partialSigs := setKV k v s.partialSigs }
  | (.tapScriptSig k, v) => { s with tapSigs := setKV k v s.tapSigs }
  | (.tapKeySig, v) => { s with finalWitness := some [v] }

def applySlots (s : InScope) (ws : List (Slot × Bytes)) : InScope := ws.foldl applySlot s

def applyWrite (p : Psbt) (w : Write) : Psbt :=
  match p.inputs[w.1]? with
  | some s => Psbt.setInput p w.1 (applySlot s w.2)
  | none => p

def applyWrites (p : Psbt) (ws : List Write) : Psbt := ws.foldl applyWrite p

/-- current content of a slot -/
def slotValue (s : InScope) : Slot → Option Bytes
  | .partialSig k => lookup k s.partialSigs
  | .tapScriptSig k => lookup k s.tapSigs
  | .tapKeySig => match s.finalWitness with
    | some [v] => some v
    | _ => none

/-! ### laws -/

/-- the set iteration orders are permutations -/
structure OrderLaws (O : Ops HD) : Prop where
  permD : ∀ l, (O.orderD l).Perm l
  permK : ∀ l, (O.orderK l).Perm l

/-! ### involvement -/

/-- the signer holds the secret `sk` of the derivation entry `pub` of scope `s`: the entry's fingerprint is the
    signer's, the entry's path (minus the signer's origin path) derives a key from the signer's HD key, and that key is
    `pub` (same point; for taproot inputs same x-only key) -/
def Controls (O : Ops HD) (sg : Single HD) (tap : Bool) (s : InScope) (sk pub : Bytes) : Prop :=
  ∃ fp d k, sg.fingerprint O = some fp ∧ fp ≠ [] ∧ (pub, d) ∈ matchingDerivs s fp ∧
    sg.deriveFor O d.path = some (some k) ∧ O.hdSecret k = sk ∧ keyMatches O tap sk pub = true

/-- a key the signer signs taproot inputs with: its own key, or a controlled derived key (always compressed) -/
def OwnKey (O : Ops HD) (sg : Single HD) (s : InScope) (sk : Bytes) (c : Bool) : Prop :=
  (sk = sg.secret O ∧ c = sg.compressed) ∨ (c = true ∧ ∃ pub, Controls O sg true s sk pub)

/-- one write is justified on scope `s` (previous output `u`, flag `f`, digest function `D` of that input): what was
    written where, by which key the signer controls, over which digest -/
inductive Justified (O : Ops HD) (sg : Single HD) (s : InScope) (u : TxOut) (f : Nat)
    (D : Nat → Option (Bytes × Nat) → Option Bytes) : Slot × Bytes → Prop
  /-- the signer's own key occurs in the script (as SEC key or as HASH160): ECDSA, filed under that key -/
  | ecdsaRoot (h sig : Bytes) :
      isTaprootSpk u.spk = false →
      (isInfix (O.secOf (sg.secret O) sg.compressed) (scriptOf s u.spk) = true
        ∨ isInfix (O.hash160 (O.secOf (sg.secret O) sg.compressed)) (scriptOf s u.spk) = true) →
      D f none = some h → O.ecdsaSign (sg.secret O) h = some sig →
      Justified O sg s u f D (.partialSig (O.secOf (sg.secret O) sg.compressed), sig ++ flagByte f)
  /-- a derivation entry the signer controls: ECDSA, filed under the entry's key -/
  | ecdsaDerived (sk pub h sig : Bytes) :
      isTaprootSpk u.spk = false → Controls O sg false s sk pub →
      D f none = some h → O.ecdsaSign sk h = some sig →
      Justified O sg s u f D (.partialSig pub, sig ++ flagByte f)
  /-- taproot key path: the tweaked key's x-only encoding occurs in the scriptPubKey -/
  | tapKey (sk : Bytes) (c : Bool) (tsk h sig : Bytes) :
      isTaprootSpk u.spk = true → OwnKey O sg s sk c →
      O.tapTweak sk (s.tapMerkleRoot.getD []) = some tsk →
      isInfix (xonlyOfSec (O.secOf tsk true)) u.spk = true →
      D f none = some h → O.schnorrSign tsk h = some sig →
      Justified O sg s u f D (.tapKeySig, sig ++ flagSuffix f)
  /-- taproot script path: the key's x-only encoding occurs in a leaf script of the scope -/
  | tapLeaf (sk : Bytes) (c : Bool) (ctrl sc : Bytes) (lv : UInt8) (h sig : Bytes) :
      isTaprootSpk u.spk = true → OwnKey O sg s sk c →
      (ctrl, sc) ∈ s.tapScripts → isInfix (xonlyOfSec (O.secOf sk c)) sc = true → sc.getLast? = some lv →
      D f (some (sc.dropLast, lv.toNat)) = some h → O.schnorrSign sk h = some sig →
      Justified O sg s u f D
        (.tapScriptSig (xonlyOfSec (O.secOf sk c) ++ taggedHash O.sha "TapLeaf" ([lv] ++ scriptSer sc.dropLast)),
         sig ++ flagSuffix f)

/-! ### basic lemmas -/

theorem mem_dedup {α : Type} [DecidableEq α] (x : α) (l : List α) : x ∈ dedup l ↔ x ∈ l := by
  induction l with
  | nil => simp [dedup]
  | cons a r ih =>
    unfold dedup
    by_cases h : a ∈ r
    · simp only [h, if_true, ih, List.mem_cons]
      constructor
      · intro hx; exact Or.inr hx
      · rintro (rfl | hx)
        · exact h
        · exact hx
    · simp only [h, if_false, List.mem_cons, ih]

theorem nodup_dedup {α : Type} [DecidableEq α] (l : List α) : (dedup l).Nodup := by
  induction l with
  | nil => simp [dedup]
  | cons a r ih =>
    unfold dedup
    by_cases h : a ∈ r
    · simp only [h, if_true]; exact ih
    · simp only [h, if_false, List.nodup_cons]
      exact ⟨fun hx => h ((mem_dedup a r).mp hx), ih⟩

theorem lookup_setKV_self (k v : Bytes) (l : List (Bytes × Bytes)) : lookup k (setKV k v l) = some v := by
  induction l with
  | nil => simp [setKV, lookup]
  | cons a r ih =>
    obtain ⟨k', v'⟩ := a
    unfold setKV
    by_cases h : k = k'
    · simp [h, lookup]
    · simp [h, lookup, ih]

theorem lookup_setKV_ne (k k' v : Bytes) (l : List (Bytes × Bytes)) (h : k' ≠ k) :
    lookup k' (setKV k v l) = lookup k' l := by
  induction l with
  | nil => simp [setKV, lookup, h]
  | cons a r ih =>
    obtain ⟨k2, v2⟩ := a
    unfold setKV
    by_cases h2 : k = k2
    · subst h2
      simp [lookup, h]
    · simp only [h2, if_false, lookup]
      by_cases h3 : k' = k2
      · simp [h3]
      · simp [h3, ih]

theorem lookup_setKV (k k' v : Bytes) (l : List (Bytes × Bytes)) :
    lookup k' (setKV k v l) = if k' = k then some v else lookup k' l := by
  by_cases h : k' = k
  · subst h; simp [lookup_setKV_self]
  · simp [h, lookup_setKV_ne k k' v l h]

/-- keys of the map after `d[k] = v`: unchanged if `k` was there, else `k` appended -/
theorem keys_setKV (k v : Bytes) (l : List (Bytes × Bytes)) :
    (setKV k v l).map Prod.fst = if (lookup k l).isSome then l.map Prod.fst else l.map Prod.fst ++ [k] := by
  induction l with
  | nil => simp [setKV, lookup]
  | cons a r ih =>
    obtain ⟨k2, v2⟩ := a
    unfold setKV
    by_cases h2 : k = k2
    · subst h2; simp [lookup]
    · simp only [h2, if_false, lookup, List.map_cons, ih]
      split <;> simp

/-! ### counting slots once -/

/-- the counter contribution of filing signatures under the slots `l` in order, given the slots `seen` before -/
def newCount {α : Type} [DecidableEq α] (seen : List α) : List α → Nat
  | [] => 0
  | x :: r => countSlot seen x + newCount (seen ++ [x]) r

/-- the slots of `l` that are not in `seen`, each once (first occurrence) -/
def firsts {α : Type} [DecidableEq α] (seen : List α) : List α → List α
  | [] => []
  | x :: r => (if x ∈ seen then [] else [x]) ++ firsts (seen ++ [x]) r

theorem newCount_append {α : Type} [DecidableEq α] (seen a b : List α) :
    newCount seen (a ++ b) = newCount seen a + newCount (seen ++ a) b := by
  induction a generalizing seen with
  | nil => simp [newCount]
  | cons x r ih =>
    have e : seen ++ x :: r = (seen ++ [x]) ++ r := by simp
    simp only [List.cons_append, newCount, ih, e, Nat.add_assoc]

theorem newCount_eq_firsts {α : Type} [DecidableEq α] (seen l : List α) :
    newCount seen l = (firsts seen l).length := by
  induction l generalizing seen with
  | nil => rfl
  | cons x r ih =>
    simp only [newCount, firsts, List.length_append, ih, countSlot]
    split <;> simp

theorem mem_firsts {α : Type} [DecidableEq α] (seen l : List α) (x : α) :
    x ∈ firsts seen l ↔ x ∈ l ∧ x ∉ seen := by
  induction l generalizing seen with
  | nil => simp [firsts]
  | cons y r ih =>
    simp only [firsts, List.mem_append, ih, List.mem_cons, not_or]
    by_cases hy : y ∈ seen <;> by_cases e : x = y
    · subst e; simp [hy]
    · simp [hy, e]
    · subst e; simp [hy]
    · simp [hy, e]

theorem nodup_firsts {α : Type} [DecidableEq α] (seen l : List α) : (firsts seen l).Nodup := by
  induction l generalizing seen with
  | nil => simp [firsts]
  | cons y r ih =>
    simp only [firsts]
    by_cases hy : y ∈ seen
    · simp only [hy, if_true, List.nil_append]; exact ih _
    · simp only [hy, if_false, List.singleton_append, List.nodup_cons]
      refine ⟨?_, ih _⟩
      intro hm
      have := ((mem_firsts _ _ _).mp hm).2
      exact this (by simp)

/-! ### core is preserved by writes -/

@[simp] theorem core_applySlot (s : InScope) (w : Slot × Bytes) : core (applySlot s w) = core s := by
  obtain ⟨sl, v⟩ := w
  cases sl <;> rfl

@[simp] theorem core_applySlots (s : InScope) (ws : List (Slot × Bytes)) : core (applySlots s ws) = core s := by
  induction ws generalizing s with
  | nil => rfl
  | cons w r ih => simp [applySlots, List.foldl_cons] at ih ⊢; rw [ih, core_applySlot]

theorem applySlots_append (s : InScope) (a b : List (Slot × Bytes)) :
    applySlots s (a ++ b) = applySlots (applySlots s a) b := by
  simp [applySlots, List.foldl_append]

theorem applyWrites_append (p : Psbt) (a b : List Write) :
    applyWrites p (a ++ b) = applyWrites (applyWrites p a) b := by
  simp [applyWrites, List.foldl_append]

theorem setInput_self (p : Psbt) (i : Nat) (s : InScope) (h : p.inputs[i]? = some s) : Psbt.setInput p i s = p := by
  unfold Psbt.setInput
  have hi : i < p.inputs.length := by
    rcases Nat.lt_or_ge i p.inputs.length with h' | h'
    · exact h'
    · rw [List.getElem?_eq_none h'] at h; cases h
  have : p.inputs[i] = s := by
    rw [List.getElem?_eq_getElem hi] at h; exact Option.some.inj h
  rw [← this, List.set_getElem_self]

theorem setInput_get (p : Psbt) (i : Nat) (s t : InScope) (h : p.inputs[i]? = some s) :
    (Psbt.setInput p i t).inputs[i]? = some t := by
  have hi : i < p.inputs.length := by
    rcases Nat.lt_or_ge i p.inputs.length with h' | h'
    · exact h'
    · rw [List.getElem?_eq_none h'] at h; cases h
  simp [Psbt.setInput, List.getElem?_set_self hi]

theorem setInput_setInput (p : Psbt) (i : Nat) (s t : InScope) :
    Psbt.setInput (Psbt.setInput p i s) i t = Psbt.setInput p i t := by
  simp [Psbt.setInput, List.set_set]

/-- the writes of one input, applied to the PSBT, are the writes applied to that scope -/
theorem applyWrites_input (p : Psbt) (i : Nat) (s : InScope) (ws : List (Slot × Bytes))
    (h : p.inputs[i]? = some s) :
    applyWrites p (ws.map (fun w => (i, w))) = Psbt.setInput p i (applySlots s ws) := by
  induction ws generalizing p s with
  | nil => simp [applyWrites, applySlots, setInput_self p i s h]
  | cons w r ih =>
    simp only [List.map_cons, applyWrites, List.foldl_cons, applySlots]
    have h1 : applyWrite p (i, w) = Psbt.setInput p i (applySlot s w) := by simp [applyWrite, h]
    rw [h1]
    have h2 := ih (Psbt.setInput p i (applySlot s w)) (applySlot s w) (setInput_get p i s _ h)
    simp only [applyWrites, applySlots] at h2
    rw [h2, setInput_setInput]

theorem pcore_setInput (p : Psbt) (i : Nat) (s t : InScope) (h : p.inputs[i]? = some s) (hc : core t = core s) :
    pcore (Psbt.setInput p i t) = pcore p := by
  have hi : i < p.inputs.length := by
    rcases Nat.lt_or_ge i p.inputs.length with h' | h'
    · exact h'
    · rw [List.getElem?_eq_none h'] at h; cases h
  have hs : p.inputs[i] = s := by
    rw [List.getElem?_eq_getElem hi] at h; exact Option.some.inj h
  simp only [pcore, Psbt.setInput, List.map_set, hc]
  have : (p.inputs.map core).set i (core s) = p.inputs.map core := by
    have hi' : i < (p.inputs.map core).length := by simpa using hi
    have : (p.inputs.map core)[i] = core s := by simp [hs]
    rw [← this, List.set_getElem_self]
  rw [this]

theorem pcore_applyWrite (p : Psbt) (w : Write) : pcore (applyWrite p w) = pcore p := by
  unfold applyWrite
  split
  · rename_i s hs
    exact pcore_setInput p w.1 s _ hs (core_applySlot s w.2)
  · rfl

theorem pcore_applyWrites (p : Psbt) (ws : List Write) : pcore (applyWrites p ws) = pcore p := by
  induction ws generalizing p with
  | nil => rfl
  | cons w r ih =>
    simp only [applyWrites, List.foldl_cons] at ih ⊢
    rw [ih, pcore_applyWrite]

end Embit.Model.SignWith
