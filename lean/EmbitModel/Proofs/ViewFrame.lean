import EmbitModel.Proofs.ViewSighash
import EmbitModel.Props.C05X
/-
  C05Y / C01X helpers: the refinement of `Props/C05X.lean` with the view record exposed (offset, first scope) and
  for every compression mode `c` of the reader: if `PSBT.parse(b, compress=c)` accepts, the view opened at any
  offset of a stream embedding `b` has `offset`, `first_scope`, counts and version as the parser sees them, its
  `input(i, compress=c)` / `output(j)` are the parsed scopes, and its `vin` / `vout` / `locktime` / `tx_version`
  describe the PSBT's transaction (`ViewObs`).
-/
set_option linter.unusedSimpArgs false
set_option linter.unusedVariables false
namespace Embit
open Model Spec.Wire Props.C05X

/-- `readIns_spec` for every compression mode -/
theorem readIns_spec_mode (ko : KeyOps) (sha : Bytes → Bytes) (c : Nat) (tx : Option Tx) :
    ∀ (n i : Nat) (b : Bytes) (ss : List InScope) (r : Bytes),
      readIns ko sha c tx n i b = some (ss, r) →
      ∃ kvss : List (List KV), b = kvss.flatMap writeKVs ++ r ∧ kvss.length = n ∧ ss.length = n
        ∧ (∀ kvs ∈ kvss, ∀ kv ∈ kvs, KVWF kv)
        ∧ ∀ j (hj : j < n), ∃ kvs s, kvss[j]? = some kvs ∧ ss[j]? = some s
            ∧ InScope.addPairs ko sha c (seedIn tx (i + j)) kvs = some s := by
  intro n
  induction n with
  | zero =>
    intro i b ss r h
    simp [readIns] at h
    obtain ⟨h1, h2⟩ := h; subst h1; subst h2
    exact ⟨[], by simp, rfl, rfl, by simp, fun j hj => by omega⟩
  | succ n ih =>
    intro i b ss r h
    simp only [readIns] at h
    split at h
    · simp at h
    · rename_i kvs r1 hk
      obtain ⟨e1, w1⟩ := readKVs_sound hk
      split at h
      · simp at h
      · rename_i s hs
        split at h
        · simp at h
        · rename_i ss' r' hrec
          simp at h; obtain ⟨h1, h2⟩ := h; subst h1; subst h2
          obtain ⟨kvss, e2, l1, l2, w2, f⟩ := ih (i+1) _ _ _ hrec
          refine ⟨kvs :: kvss, by simp [e1, e2, List.append_assoc], by simp [l1], by simp [l2], ?_, ?_⟩
          · intro x hx; simp at hx; rcases hx with rfl | hx
            · exact w1
            · exact w2 x hx
          · intro j hj
            cases j with
            | zero => exact ⟨kvs, s, by simp, by simp, by simpa using hs⟩
            | succ j =>
              obtain ⟨kvs', s', a1, a2, a3⟩ := f j (by omega)
              refine ⟨kvs', s', by simpa using a1, by simpa using a2, ?_⟩
              have : i + (j + 1) = i + 1 + j := by omega
              rw [this]; exact a3

/-- a seeded input scope keeps the transaction fields of its seed, whatever pairs follow (any mode) -/
theorem InScope.addPairs_keeps_seed (ko : KeyOps) (sha : Bytes → Bytes) (c : Nat) (kvs : List KV) (s s' : InScope)
    (h : InScope.addPairs ko sha c s kvs = some s') (x : Bytes) (y z : Nat)
    (h1 : s.txid = some x) (h2 : s.vout = some y) (h3 : s.sequence = some z) :
    s'.txid = some x ∧ s'.vout = some y ∧ s'.sequence = some z := by
  refine ⟨?_, ?_, ?_⟩
  · exact (InScope.addPairs_field ko sha c (·.txid) [0x0e] List.reverse (fun s s' k v hh => by
      obtain ⟨a1, a2, a3, a4, a5, a6⟩ := InScope.addPair_txfields ko sha c s s' k v hh
      exact ⟨a1, a4⟩) kvs s s' h).2 x h1
  · exact (InScope.addPairs_field ko sha c (·.vout) [0x0f] ofLe (fun s s' k v hh => by
      obtain ⟨a1, a2, a3, a4, a5, a6⟩ := InScope.addPair_txfields ko sha c s s' k v hh
      exact ⟨a2, fun e => (a5 e).1⟩) kvs s s' h).2 y h2
  · exact (InScope.addPairs_field ko sha c (·.sequence) [0x10] ofLe (fun s s' k v hh => by
      obtain ⟨a1, a2, a3, a4, a5, a6⟩ := InScope.addPair_txfields ko sha c s s' k v hh
      exact ⟨a3, fun e => (a6 e).1⟩) kvs s s' h).2 z h3

theorem OutScope.addPairs_keeps_seed (ko : KeyOps) (kvs : List KV) (s s' : OutScope)
    (h : OutScope.addPairs ko s kvs = some s') (x : Nat) (y : Bytes)
    (h1 : s.value = some x) (h2 : s.spk = some y) : s'.value = some x ∧ s'.spk = some y := by
  refine ⟨?_, ?_⟩
  · exact (OutScope.addPairs_field ko (·.value) [0x03] ofLe (fun s s' k v hh => by
      obtain ⟨a1, a2, a3, a4⟩ := OutScope.addPair_txfields ko s s' k v hh
      exact ⟨a1, fun e => (a3 e).1⟩) kvs s s' h).2 x h1
  · exact (OutScope.addPairs_field ko (·.spk) [0x04] id (fun s s' k v hh => by
      obtain ⟨a1, a2, a3, a4⟩ := OutScope.addPair_txfields ko s s' k v hh
      exact ⟨by simpa using a2, a4⟩) kvs s s' h).2 y h2

/-- `PSBT.parse(b, compress=c)` accepted `b`: the framing, the global fold, the `parse_unknowns` pass and the
    per-scope folds, with every equation (`parse_decomp` of Proofs/ViewCompose.lean for every mode `c`) -/
theorem parse_frame (ko : KeyOps) (sha : Bytes → Bytes) (c : Nat) (b : Bytes) (p : Psbt)
    (h : Psbt.parse ko sha c b = some p) :
    ∃ (g : List KV) (kin kout : List (List KV)) (tx : Option Tx) (unk : List KV) (gs : GState),
      b = psbtMagic ++ (writeKVs g ++ ((kin ++ kout).flatMap writeKVs))
      ∧ (∀ kv ∈ g, KVWF kv) ∧ (∀ kvs ∈ kin ++ kout, ∀ kv ∈ kvs, KVWF kv)
      ∧ globalFold none none [] g = some (tx, p.version, unk)
      ∧ parseUnknowns ko (p.version == some 2) (gstate0 tx) unk = some gs
      ∧ ((p.version = some 2 ∧ tx = none) ∨ (p.version ≠ some 2 ∧ ∃ t, tx = some t))
      ∧ p.txVersion = gs.txVersion ∧ p.locktime = gs.locktime ∧ p.xpubs = gs.xpubs ∧ p.unknown = gs.unknown
      ∧ kin.length = p.inputs.length ∧ kout.length = p.outputs.length
      ∧ p.inputs.length = gs.nin.getD 0 ∧ p.outputs.length = gs.nout.getD 0
      ∧ (∀ j, j < p.inputs.length → ∃ kvs s, kin[j]? = some kvs ∧ p.inputs[j]? = some s
            ∧ InScope.addPairs ko sha c (seedIn tx j) kvs = some s)
      ∧ (∀ j, j < p.outputs.length → ∃ kvs s, kout[j]? = some kvs ∧ p.outputs[j]? = some s
            ∧ OutScope.addPairs ko (seedOut tx j) kvs = some s)
      ∧ (∀ t, tx = some t → p.tx = some t ∧ p.inputs.length = t.vin.length ∧ p.outputs.length = t.vout.length) := by
  unfold Psbt.parse at h
  split at h
  · simp at h
  · rename_i m r0 hm
    obtain ⟨em, lm⟩ := takeN_sound hm
    split at h
    · simp at h
    · rename_i hmagic
      simp only [ne_eq, Decidable.not_not] at hmagic
      split at h
      · simp at h
      · rename_i g r1 hg
        obtain ⟨eg, wg⟩ := readKVs_sound hg
        split at h
        · simp at h
        · rename_i tx ver unk hgf
          simp only [] at h
          split at h
          · simp at h
          · rename_i hc1
            split at h
            · simp at h
            · rename_i hc2
              split at h
              · simp at h
              · rename_i gs hpu
                generalize hnin : gs.nin.getD 0 = nin at h
                generalize hnout : gs.nout.getD 0 = nout at h
                · split at h
                  · simp at h
                  · rename_i ins' r2 hins
                    split at h
                    · simp at h
                    · rename_i outs' r3 houts
                      split at h
                      · simp at h
                      · rename_i hr3
                        simp at h
                        have hr3' : r3 = [] := by simpa using hr3
                        obtain ⟨f1, f2, f3, f5, f4⟩ := globalFold_spec g none none [] tx ver unk hgf
                        have hnd := globalFold_nodup g none none [] tx ver unk hgf (by simp)
                        obtain ⟨u1, u2, u3, u4, u5, u6, u7, u8⟩ :=
                          parseUnknowns_spec ko (ver == some 2) unk _ gs hnd hpu
                        obtain ⟨kin, ei, li1, li2, wi, fi⟩ := readIns_spec_mode ko sha c tx nin 0 r1 ins' r2 hins
                        obtain ⟨kout, eo, lo1, lo2, wo, fo⟩ := readOuts_spec ko tx nout 0 r2 outs' r3 houts
                        subst h
                        have hver : (ver = some 2 ∧ tx = none) ∨ (ver ≠ some 2 ∧ ∃ t, tx = some t) := by
                          by_cases hv : ver = some 2
                          · left; refine ⟨hv, ?_⟩
                            cases tx with
                            | none => rfl
                            | some t => simp [hv] at hc1
                          · right; refine ⟨hv, ?_⟩
                            cases tx with
                            | none => simp [hv] at hc2
                            | some t => exact ⟨t, rfl⟩
                        have hrec : ∀ t, tx = some t →
                            Psbt.tx { version := ver, txVersion := gs.txVersion, locktime := gs.locktime,
                                      xpubs := gs.xpubs, unknown := gs.unknown, inputs := ins', outputs := outs' }
                              = some t ∧ nin = t.vin.length ∧ nout = t.vout.length := by
                          intro t ht
                          subst ht
                          have hv : ver ≠ some 2 := by
                            rcases hver with ⟨_, hn⟩ | ⟨hv, _⟩
                            · simp at hn
                            · exact hv
                          have huns : Unsigned t := by
                            rcases f5 t rfl with hh | hh
                            · simp at hh
                            · exact hh
                          obtain ⟨c1, c2, c3, c4⟩ := u7 (by simp [hv])
                          rw [c3] at hnin; simp at hnin
                          rw [c4] at hnout; simp at hnout
                          have hvin : optAll (ins'.map InScope.vin) = some t.vin := by
                            apply Props.C04.optAll_map_eq
                            · omega
                            · intro j a ha
                              have hj : j < nin := by
                                have := (List.getElem?_eq_some_iff.mp ha).1; omega
                              have hjt : j < t.vin.length := by omega
                              obtain ⟨kvs', s', a1, a2, a3⟩ := fi j hj
                              rw [ha] at a2; simp at a2; subst a2
                              obtain ⟨e1, e2, e3⟩ := InScope.addPairs_keeps_seed ko sha c kvs' _ a a3
                                t.vin[j].txid t.vin[j].vout t.vin[j].sequence
                                (by simp [seedIn, List.getElem?_eq_getElem hjt])
                                (by simp [seedIn, List.getElem?_eq_getElem hjt])
                                (by simp [seedIn, List.getElem?_eq_getElem hjt])
                              refine ⟨t.vin[j], List.getElem?_eq_getElem hjt, ?_⟩
                              have hu := huns t.vin[j] (List.getElem_mem hjt)
                              simp only [InScope.vin, e1, e2, e3, Option.getD_some]
                              cases hh : t.vin[j] with
                              | mk a1 a2 a3 a4 a5 => simp [hh] at hu ⊢; exact ⟨hu.1, hu.2⟩
                          have hvout : optAll (outs'.map OutScope.vout) = some t.vout := by
                            apply Props.C04.optAll_map_eq
                            · omega
                            · intro j a ha
                              have hj : j < nout := by
                                have := (List.getElem?_eq_some_iff.mp ha).1; omega
                              have hjt : j < t.vout.length := by omega
                              obtain ⟨kvs', s', a1, a2, a3⟩ := fo j hj
                              rw [ha] at a2; simp at a2; subst a2
                              obtain ⟨e1, e2⟩ := OutScope.addPairs_keeps_seed ko kvs' _ a a3
                                t.vout[j].value t.vout[j].spk
                                (by simp [seedOut, List.getElem?_eq_getElem hjt])
                                (by simp [seedOut, List.getElem?_eq_getElem hjt])
                              refine ⟨t.vout[j], List.getElem?_eq_getElem hjt, ?_⟩
                              simp only [OutScope.vout, e1, e2]
                          refine ⟨?_, hnin.symm, hnout.symm⟩
                          simp only [Psbt.tx, hvin, hvout, c1, c2]
                          simp
                        refine ⟨g, kin, kout, tx, unk, gs, ?_, wg, ?_, hgf, hpu, hver, rfl, rfl, rfl, rfl,
                          by simp [li1, li2], by simp [lo1, lo2], by simp [li2, hnin], by simp [lo2, hnout], ?_, ?_, ?_⟩
                        · simp [em, hmagic, eg, ei, eo, hr3', List.append_assoc]
                        · intro kvs hk
                          rcases List.mem_append.mp hk with hk | hk
                          · exact wi kvs hk
                          · exact wo kvs hk
                        · intro j hj
                          obtain ⟨kvs, s, a1, a2, a3⟩ := fi j (by simpa [li2] using hj)
                          exact ⟨kvs, s, a1, a2, by simpa using a3⟩
                        · intro j hj
                          obtain ⟨kvs, s, a1, a2, a3⟩ := fo j (by simpa [lo2] using hj)
                          exact ⟨kvs, s, a1, a2, by simpa using a3⟩
                        · intro t ht
                          obtain ⟨r1, r2, r3⟩ := hrec t ht
                          exact ⟨r1, by simp [li2, r2], by simp [lo2, r3]⟩

/-- the view `v` over `pre ++ (b ++ post)` presents the PSBT `p` that `PSBT.parse(b, compress=c)` returns -/
structure ViewOf (ko : KeyOps) (sha : Bytes → Bytes) (c : Nat) (pre post b : Bytes) (p : Psbt) (v : View) : Prop where
  opened : View.open (pre ++ (b ++ post)) pre.length = some v
  offset : v.offset = pre.length
  firstScope : v.firstScope = pre.length + (5 + (writeKVs (globalKVs b)).length)
  global : b.take (5 + (writeKVs (globalKVs b)).length) = psbtMagic ++ writeKVs (globalKVs b)
  numIn : v.numIn = p.inputs.length
  numOut : v.numOut = p.outputs.length
  version : v.version = p.version
  input : ∀ i, View.input ko sha (pre ++ (b ++ post)) v i c = p.inputs[i]?
  output : ∀ j, View.output ko (pre ++ (b ++ post)) v j = p.outputs[j]?

theorem take_global (g : List KV) (rest : Bytes) :
    (psbtMagic ++ (writeKVs g ++ rest)).take (5 + (writeKVs g).length) = psbtMagic ++ writeKVs g := by
  have : psbtMagic ++ (writeKVs g ++ rest) = (psbtMagic ++ writeKVs g) ++ rest := by simp
  rw [this, List.take_left' (by simp [psbtMagic]; omega)]

/-- version 0, every reader mode: the view over an accepted PSBT (global scope with the unsigned transaction and
    without the PSBTv2 count keys) presents the parsed PSBT and describes its transaction -/
theorem view_of_parse_v0 (ko : KeyOps) (sha : Bytes → Bytes) (c : Nat) (pre post b : Bytes) (p : Psbt)
    (h : Psbt.parse ko sha c b = some p)
    (htx : ∃ x, ([0x00], x) ∈ globalKVs b)
    (hcnt : ∀ kv ∈ globalKVs b, kv.1 ≠ [0x04] ∧ kv.1 ≠ [0x05]) :
    ∃ (t : Tx) (v : View), p.tx = some t ∧ ViewOf ko sha c pre post b p v
      ∧ ViewObs (pre ++ (b ++ post)) v t := by
  obtain ⟨g, kin, kout, tx, unk, gs, eb, wg, ws, hgf, hpu, hver, etv, elt, _, _, lki, lko, lni, lno, fi, fo, ftx⟩ :=
    parse_frame ko sha c b p h
  have hgk : globalKVs b = g := by rw [eb]; exact globalKVs_eq g _ wg
  have hglob : b.take (5 + (writeKVs (globalKVs b)).length) = psbtMagic ++ writeKVs (globalKVs b) := by
    rw [hgk, eb]; exact take_global g _
  rw [hgk] at htx hcnt
  obtain ⟨x0, hx0⟩ := htx
  obtain ⟨t, rfl⟩ : ∃ t, tx = some t := by
    rcases (globalFold_spec g _ _ _ _ _ _ hgf).2.2.2.2 _ hx0 with ⟨_, t, ht, _⟩ | ⟨e, _⟩ | ⟨_, e, _⟩
    · exact ⟨t, ht⟩
    · simp at e
    · simp at e
  have hv2 : p.version ≠ some 2 := by
    rcases hver with ⟨_, e⟩ | ⟨e, _⟩
    · simp at e
    · exact e
  obtain ⟨ptx, lnt, lot⟩ := ftx t rfl
  obtain ⟨g1, w, g2, eg, n1, n2, hparse, hu⟩ := globalFold_split g _ _ _ _ _ hgf
  have hwf : WF t := (Props.C03.parse_sound w t hparse).1
  have hser : Tx.ser t = w := Props.C03.reencode w t hparse
  subst hser
  have hc1 : ∀ kv ∈ g1, kv.1 ≠ [0x00] ∧ kv.1 ≠ [0x04] ∧ kv.1 ≠ [0x05] := fun kv hkv =>
    ⟨n1 kv hkv, hcnt kv (by simp [eg, hkv])⟩
  have hc2 : ∀ kv ∈ g2, kv.1 ≠ [0x00] ∧ kv.1 ≠ [0x04] ∧ kv.1 ≠ [0x05] := fun kv hkv =>
    ⟨n2 kv hkv, hcnt kv (by simp [eg, hkv])⟩
  obtain ⟨gv1, gv2⟩ := globalFold_ver g _ _ _ _ _ _ hgf
  have hverfold : lastFold [0xfb] (fun v => some (ofLe v)) none g = p.version :=
    lastFold_char _ _ _ g none (fun kv hkv hk => (gv1 kv hkv hk).symm) (fun hh => (gv2 hh).symm)
  have hv1 : lastFold [0xfb] (fun v => some (ofLe v)) none g1 ≠ some 2 := by
    rcases lastFold_mem [0xfb] (fun v => some (ofLe v)) g1 none with e | ⟨kv, hkv, hk, e⟩
    · rw [e]; simp
    · rw [e, ← gv1 kv (by simp [eg, hkv]) hk]; exact hv2
  generalize hbuf : pre ++ (b ++ post) = buf
  have hb1 : buf = (pre ++ psbtMagic) ++ (writeKVs g ++ ((kin ++ kout).flatMap writeKVs ++ post)) := by
    rw [← hbuf, eb]; simp [List.append_assoc]
  have hb2 : buf = (pre ++ psbtMagic ++ writeKVs g) ++ ((kin ++ kout).flatMap writeKVs ++ post) := by
    rw [hb1]; simp [List.append_assoc]
  have hlen : g.length + 1 ≤ buf.length := by
    have := writeKVs_length g
    rw [hb1]; simp only [List.length_append]; omega
  obtain ⟨P, Q, gx, eP, hopen, hscan⟩ := viewScan_v0 buf (pre ++ psbtMagic) _ g1 g2 t hwf hu
    (by rw [hb1, eg]) (by rw [← eg]; exact wg) hc1 hc2 hv1 (buf.length + 1)
    (by rw [eg] at hlen; simp at hlen; omega)
  rw [← eg, hverfold] at hscan
  have hpm : (pre ++ psbtMagic).length = pre.length + 5 := by simp [psbtMagic]
  rw [hpm] at hscan
  have hopen' : GTx.open (P ++ (Tx.ser t ++ Q)) P.length = some gx := by rw [← eP]; exact hopen
  obtain ⟨hlock, hvers⟩ := GTx.locktime_spec P Q t hwf hu gx hopen'
  have hvin := GTx.vin_spec P Q t hwf hu gx hopen'
  have hvout := GTx.vout_spec P Q t hwf hu gx hopen'
  rw [← eP] at hlock hvers hvin hvout
  have hmagic : readAt buf pre.length 5 = psbtMagic := by
    rw [hb1]; simp [readAt, psbtMagic, List.append_assoc]
  have hview : View.open buf pre.length
      = some { offset := pre.length, firstScope := pre.length + 5 + (writeKVs g).length,
               numIn := t.vin.length, numOut := t.vout.length, version := p.version,
               tx := some gx, txVersion := some t.version, locktime := some t.locktime } := by
    simp [View.open, hmagic, hscan, hlock, hvers]
  subst hbuf
  refine ⟨t, _, ptx, ⟨hview, rfl, by rw [hgk]; simp only []; omega, hglob, lnt.symm, lot.symm, rfl, ?_, ?_⟩,
    ⟨rfl, rfl, ?_, ?_, ?_, ?_⟩⟩
  · intro i
    by_cases hi : i ≥ t.vin.length
    · have : p.inputs[i]? = none := List.getElem?_eq_none (by omega)
      simp [View.input, hi, this]
    · have hi' : i < t.vin.length := by omega
      obtain ⟨kvs, s, a1, a2, a3⟩ := fi i (by omega)
      have hk : (kin ++ kout)[i]? = some kvs := by
        rw [List.getElem?_append_left (by omega)]; exact a1
      have hvi : GTx.vin (pre ++ (b ++ post)) gx i = some t.vin[i] := by rw [hvin i, List.getElem?_eq_getElem hi']
      rw [hb2] at hvi ⊢
      rw [View.input_v0 ko sha c _ post (kin ++ kout) _ i kvs gx t.vin[i] ws (by simp [psbtMagic]; omega)
        (by simp; omega) hi' hk rfl hvi, a2]
      rw [← a3]
      simp [seedIn, List.getElem?_eq_getElem hi']
  · intro j
    by_cases hj : j ≥ t.vout.length
    · have : p.outputs[j]? = none := List.getElem?_eq_none (by omega)
      simp [View.output, hj, this]
    · have hj' : j < t.vout.length := by omega
      obtain ⟨kvs, s, a1, a2, a3⟩ := fo j (by omega)
      have hk : (kin ++ kout)[t.vin.length + j]? = some kvs := by
        rw [List.getElem?_append_right (by omega)]
        rw [show t.vin.length + j - kin.length = j by omega]; exact a1
      have hvo : GTx.vout (pre ++ (b ++ post)) gx j = some t.vout[j] := by rw [hvout j, List.getElem?_eq_getElem hj']
      rw [hb2] at hvo ⊢
      rw [View.output_v0 ko _ post (kin ++ kout) _ j kvs gx t.vout[j] ws (by simp [psbtMagic]; omega)
        (by simp; omega) hj' hk rfl hvo, a2]
      rw [← a3]
      simp [seedOut, List.getElem?_eq_getElem hj']
  · intro i
    by_cases hi : i ≥ t.vin.length
    · simp [View.vin, hi, List.getElem?_eq_none hi]
    · simp [View.vin, hi, hvin i]
  · intro j
    by_cases hj : j ≥ t.vout.length
    · simp [View.vout, hj, List.getElem?_eq_none hj]
    · simp [View.vout, hj, hvout j]
  · simp [View.getLocktime]
  · simp [View.getTxVersion]

/-- version 2, every reader mode: the view over an accepted PSBTv2 whose global scope carries both counts presents
    the parsed PSBT; `vin(i)` / `vout(j)` are what the scopes themselves describe, locktime and tx version the stored
    global fields with the defaults of `PSBT.tx` -/
theorem view_of_parse_v2 (ko : KeyOps) (sha : Bytes → Bytes) (c : Nat) (pre post b : Bytes) (p : Psbt)
    (h : Psbt.parse ko sha c b = some p) (hv : p.version = some 2)
    (h4 : ∃ x, ([0x04], x) ∈ globalKVs b) (h5 : ∃ x, ([0x05], x) ∈ globalKVs b) :
    ∃ (v : View), ViewOf ko sha c pre post b p v
      ∧ (∀ i, View.vin (pre ++ (b ++ post)) v i = (p.inputs[i]?).bind InScope.vin)
      ∧ (∀ j, View.vout (pre ++ (b ++ post)) v j = (p.outputs[j]?).bind OutScope.vout)
      ∧ View.getLocktime (pre ++ (b ++ post)) v = some (p.locktime.getD 0)
      ∧ View.getTxVersion (pre ++ (b ++ post)) v = some (p.txVersion.getD 2) := by
  obtain ⟨g, kin, kout, tx, unk, gs, eb, wg, ws, hgf, hpu, hver, etv, elt, _, _, lki, lko, lni, lno, fi, fo, ftx⟩ :=
    parse_frame ko sha c b p h
  have hgk : globalKVs b = g := by rw [eb]; exact globalKVs_eq g _ wg
  have hglob : b.take (5 + (writeKVs (globalKVs b)).length) = psbtMagic ++ writeKVs (globalKVs b) := by
    rw [hgk, eb]; exact take_global g _
  rw [hgk] at h4 h5
  have htx : tx = none := by
    rcases hver with ⟨_, e⟩ | ⟨e, _⟩
    · exact e
    · exact absurd hv e
  subst htx
  have hunk : unk = g.filter notTxVer := by
    have := globalFold_unk g _ _ _ _ _ _ hgf; simpa using this
  have hnd := globalFold_nodup g none none [] _ _ _ hgf (by simp)
  have h00 : ∀ kv ∈ g, kv.1 ≠ [0x00] := by
    intro kv hkv
    rcases (globalFold_spec g _ _ _ _ _ _ hgf).2.2.2.2 kv hkv with ⟨_, t, ht, _⟩ | ⟨e, _⟩ | ⟨_, e, _⟩
    · simp at ht
    · rw [e]; decide
    · exact e
  have hv' : (p.version == some 2) = true := by rw [hv]; rfl
  rw [hv'] at hpu
  obtain ⟨q1, q2, q3, q4, q5⟩ := parseUnknowns_fold ko unk _ gs hpu
  simp only [gstate0, Option.map_none] at q1 q2 q3 q4
  have k2 : ∀ kv : KV, kv.1 = [0x02] → notTxVer kv = true := fun kv e => by simp [notTxVer, e]
  have k3 : ∀ kv : KV, kv.1 = [0x03] → notTxVer kv = true := fun kv e => by simp [notTxVer, e]
  have k4 : ∀ kv : KV, kv.1 = [0x04] → notTxVer kv = true := fun kv e => by simp [notTxVer, e]
  have k5 : ∀ kv : KV, kv.1 = [0x05] → notTxVer kv = true := fun kv e => by simp [notTxVer, e]
  rw [hunk, lastFold_filter _ _ _ k4] at q3
  rw [hunk, lastFold_filter _ _ _ k5] at q4
  have hparse : ∀ kv ∈ g, kv.1 = [0x04] ∨ kv.1 = [0x05] → (parseAll Compact.read kv.2).isSome := by
    intro kv hkv hk
    apply q5 kv _ hk
    rw [hunk]; apply List.mem_filter.mpr ⟨hkv, ?_⟩
    rcases hk with e | e
    · exact k4 kv e
    · exact k5 kv e
  obtain ⟨x4, hx4⟩ := h4
  obtain ⟨x5, hx5⟩ := h5
  obtain ⟨nin, hnin⟩ : ∃ n, gs.nin = some n := by
    obtain ⟨kv, hkv, hk, e⟩ := lastFold_occ [0x04] (parseAll Compact.read) g none ⟨_, hx4, rfl⟩
    rw [q3, e]; exact Option.isSome_iff_exists.mp (hparse kv hkv (Or.inl hk))
  obtain ⟨nout, hnout⟩ : ∃ n, gs.nout = some n := by
    obtain ⟨kv, hkv, hk, e⟩ := lastFold_occ [0x05] (parseAll Compact.read) g none ⟨_, hx5, rfl⟩
    rw [q4, e]; exact Option.isSome_iff_exists.mp (hparse kv hkv (Or.inr hk))
  rw [hnin] at lni q3; rw [hnout] at lno q4
  simp only [Option.getD_some] at lni lno
  obtain ⟨gv1, gv2⟩ := globalFold_ver g _ _ _ _ _ _ hgf
  have hverfold : lastFold [0xfb] (fun v => some (ofLe v)) none g = p.version :=
    lastFold_char _ _ _ g none (fun kv hkv hk => (gv1 kv hkv hk).symm) (fun hh => (gv2 hh).symm)
  generalize hbuf : pre ++ (b ++ post) = buf
  have hb1 : buf = (pre ++ psbtMagic) ++ (writeKVs g ++ ((kin ++ kout).flatMap writeKVs ++ post)) := by
    rw [← hbuf, eb]; simp [List.append_assoc]
  have hb2 : buf = (pre ++ psbtMagic ++ writeKVs g) ++ ((kin ++ kout).flatMap writeKVs ++ post) := by
    rw [hb1]; simp [List.append_assoc]
  have hlen : g.length + 1 ≤ buf.length := by
    have := writeKVs_length g
    rw [hb1]; simp only [List.length_append]; omega
  have hscan := viewScan_v2 buf (pre ++ psbtMagic) _ g hb1 wg h00 hparse (buf.length + 1) (by omega)
  have hpm : (pre ++ psbtMagic).length = pre.length + 5 := by simp [psbtMagic]
  rw [hverfold, hv, ← q3, ← q4, hpm] at hscan
  have hmagic : readAt buf pre.length 5 = psbtMagic := by
    rw [hb1]; simp [readAt, psbtMagic, List.append_assoc]
  have hview : View.open buf pre.length
      = some { offset := pre.length, firstScope := pre.length + 5 + (writeKVs g).length,
               numIn := nin, numOut := nout, version := some 2,
               tx := none, txVersion := none, locktime := none } := by
    simp [View.open, hmagic, hscan]
  have hval : ∀ key : Bytes, key ≠ [] → View.getValue buf key (pre.length + 5) = some (lookup key g) := by
    intro key hkey
    rw [hb1]
    apply valueAt_spec _ key hkey g (pre ++ psbtMagic) _ _ wg hpm.symm
    rw [← hb1]; omega
  have hlt : p.locktime = (lookup [0x03] g).map ofLe := by
    rw [elt, q2]; exact v2_field_lookup g unk hunk hnd [0x03] k3 ofLe
  have htv : p.txVersion = (lookup [0x02] g).map ofLe := by
    rw [etv, q1]; exact v2_field_lookup g unk hunk hnd [0x02] k2 ofLe
  subst hbuf
  refine ⟨_, ⟨hview, rfl, by rw [hgk]; simp only []; omega, hglob, lni.symm, lno.symm, hv.symm, ?_, ?_⟩,
    ?_, ?_, ?_, ?_⟩
  · intro i
    by_cases hi : i ≥ nin
    · have : p.inputs[i]? = none := List.getElem?_eq_none (by omega)
      simp [View.input, hi, this]
    · have hi' : i < nin := by omega
      obtain ⟨kvs, s, a1, a2, a3⟩ := fi i (by omega)
      have hk : (kin ++ kout)[i]? = some kvs := by
        rw [List.getElem?_append_left (by omega)]; exact a1
      rw [hb2, View.input_v2 ko sha c _ post (kin ++ kout) _ i kvs ws (by simp [psbtMagic]; omega)
        (by simp; omega) hi' hk rfl, a2, ← a3]
      simp [seedIn]
  · intro j
    by_cases hj : j ≥ nout
    · have : p.outputs[j]? = none := List.getElem?_eq_none (by omega)
      simp [View.output, hj, this]
    · have hj' : j < nout := by omega
      obtain ⟨kvs, s, a1, a2, a3⟩ := fo j (by omega)
      have hk : (kin ++ kout)[nin + j]? = some kvs := by
        rw [List.getElem?_append_right (by omega)]
        rw [show nin + j - kin.length = j by omega]; exact a1
      rw [hb2, View.output_v2 ko _ post (kin ++ kout) _ j kvs ws (by simp [psbtMagic]; omega)
        (by simp; omega) hj' hk rfl, a2, ← a3]
      simp [seedOut]
  · intro i
    by_cases hi : i ≥ nin
    · have : p.inputs[i]? = none := List.getElem?_eq_none (by omega)
      simp [View.vin, hi, this]
    · have hi' : i < nin := by omega
      obtain ⟨kvs, s, a1, a2, a3⟩ := fi i (by omega)
      have hk : (kin ++ kout)[i]? = some kvs := by
        rw [List.getElem?_append_left (by omega)]; exact a1
      rw [hb2, View.vin_v2 ko sha c _ post (kin ++ kout) _ i kvs s ws (by simp [psbtMagic]; omega)
        (by simp; omega) hi' hk rfl (by simpa [seedIn] using a3), a2]
      rfl
  · intro j
    by_cases hj : j ≥ nout
    · have : p.outputs[j]? = none := List.getElem?_eq_none (by omega)
      simp [View.vout, hj, this]
    · have hj' : j < nout := by omega
      obtain ⟨kvs, s, a1, a2, a3⟩ := fo j (by omega)
      have hk : (kin ++ kout)[nin + j]? = some kvs := by
        rw [List.getElem?_append_right (by omega)]
        rw [show nin + j - kin.length = j by omega]; exact a1
      rw [hb2, View.vout_v2 ko _ post (kin ++ kout) _ j kvs s ws (by simp [psbtMagic]; omega)
        (by simp; omega) hj' hk rfl (by simpa [seedOut] using a3), a2]
      rfl
  · simp only [View.getLocktime, hval [0x03] (by decide), hlt]
    cases lookup [0x03] g <;> rfl
  · simp only [View.getTxVersion, hval [0x02] (by decide), htv]
    cases lookup [0x02] g <;> rfl

/-- … and when every scope carries its transaction fields (`PSBT.tx` is defined), the view describes `PSBT.tx` -/
theorem viewObs_v2 (buf : Bytes) (v : View) (p : Psbt) (t : Tx) (htx : p.tx = some t)
    (hn : v.numIn = p.inputs.length) (hm : v.numOut = p.outputs.length)
    (hvin : ∀ i, View.vin buf v i = (p.inputs[i]?).bind InScope.vin)
    (hvout : ∀ j, View.vout buf v j = (p.outputs[j]?).bind OutScope.vout)
    (hlt : View.getLocktime buf v = some (p.locktime.getD 0))
    (htv : View.getTxVersion buf v = some (p.txVersion.getD 2)) : ViewObs buf v t := by
  unfold Psbt.tx at htx
  cases h1 : optAll (p.inputs.map InScope.vin) with
  | none => rw [h1] at htx; simp at htx
  | some vin =>
    cases h2 : optAll (p.outputs.map OutScope.vout) with
    | none => rw [h1, h2] at htx; simp at htx
    | some vout =>
      rw [h1, h2] at htx
      simp only [Option.some.injEq] at htx
      subst htx
      obtain ⟨l1, e1⟩ := optAll_getElem? InScope.vin p.inputs vin h1
      obtain ⟨l2, e2⟩ := optAll_getElem? OutScope.vout p.outputs vout h2
      exact ⟨by simp [hn, l1], by simp [hm, l2], fun i => by rw [hvin i]; exact (e1 i).symm,
        fun j => by rw [hvout j]; exact (e2 j).symm, hlt, htv⟩

end Embit
