import EmbitModel.Proofs.Owns
import EmbitModel.Proofs.DescDerive
import EmbitModel.Proofs.DescParseNormal
/-
  C14 (audit item A16): the hypotheses of `owns_sound` for the descriptors the parser returns.

  * whatever `Key.read_from` returns carries derivation steps that went through `AllowedDerivation.__init__`
    (`mkAllowed`): at most one wildcard, at most one set (`StepsWF`) — for EVERY instance of the key operations,
    no hypothesis on the key codecs;
  * a property every key returned by `Key.read_from` has is a property of every element of `Descriptor.keys` of every
    parsed descriptor (pkh / wpkh / sh(wpkh) / sh / wsh / sh(wsh) over any miniscript incl. multi / sortedmulti /
    thresh, tr with and without a tap tree): `parse_keys_all`;
  * a parsed descriptor has EITHER a miniscript OR a key (+ tap tree) (`Desc.Shaped`) and is one of the seven forms
    (`formOf`);
  * `owns` never answers True when no key carries a derivation (so `hhard` is only needed when one does).
-/
set_option linter.unusedSimpArgs false
set_option linter.unusedVariables false
namespace Embit.Model.Descriptor
open Embit Embit.Miniscript Embit.Spec.Descriptor

variable {K : Type}

/-! ### `AllowedDerivation.__init__` -/

theorem wildCount_le_wildLike : ∀ (ix : List Step), wildCount ix ≤ (ix.filter Step.isWildLike).length := by
  intro ix
  induction ix with
  | nil => simp
  | cons s r ih =>
    cases s with
    | idx n => simpa [List.filter, Step.isWildLike] using ih
    | wild => simp [List.filter, Step.isWildLike]; omega
    | set l =>
      rw [wildCount_set]
      by_cases hc : l.contains none = true
      · simp only [List.filter, Step.isWildLike, hc, List.length_cons]; omega
      · have hc' : l.contains none = false := by simpa using hc
        simp only [List.filter, Step.isWildLike, hc']; exact ih

/-- what the constructor of `AllowedDerivation` lets through has at most one wildcard and at most one set -/
theorem mkAllowed_wf {ix ix' : List Step} (h : mkAllowed ix = some ix') : StepsWF ix' := by
  unfold mkAllowed at h
  split at h
  · cases h
  · rename_i hw
    split at h
    · cases h
    · rename_i hs
      cases h
      refine ⟨?_, ?_⟩
      · have := wildCount_le_wildLike ix
        omega
      · unfold setCount
        omega

/-! ### `Key.read_from` -/

/-- the derivation of a key returned by `Key.read_from` / `KeyHash.read_from` passed `AllowedDerivation.__init__`,
    and the key object is an extended key (`Key.__init__`: only keys with `derive` may carry a derivation) -/
theorem readKey_deriv (ops : KeyOps K) (tap hash : Bool) (s s' : Stream) (k : KeyExpr K)
    (h : readKey ops tap hash s = some (k, s')) (ix : List Step) (hix : k.deriv = some ix) :
    mkAllowed ix = some ix ∧ k.key.hasDerive ops = true := by
  unfold readKey at h
  simp only [] at h
  split at h
  · simp at h
  · split at h
    · simp at h
    · split at h
      · simp at h
      · rename_i kv xo hkey
        split at h
        · simp at h
        · rename_i derivation hder
          split at h
          · simp at h
          · rename_i hcheck
            simp only [Option.some.injEq, Prod.mk.injEq] at h
            obtain ⟨rfl, _⟩ := h
            simp only at hix
            subst hix
            refine ⟨(parseAllowed_sound _ _ _ hder).2.2, ?_⟩
            cases hd : kv.hasDerive ops with
            | true => rfl
            | false => simp [hd] at hcheck

theorem readKey_stepsWF (ops : KeyOps K) (tap hash : Bool) (s s' : Stream) (k : KeyExpr K)
    (h : readKey ops tap hash s = some (k, s')) : ∀ ix, k.deriv = some ix → StepsWF ix :=
  fun ix hix => mkAllowed_wf (readKey_deriv ops tap hash s s' k h ix hix).1

/-! ### a property of every key `Key.read_from` returns is a property of every key of a parsed descriptor -/

/-- `P` holds of every key any call of `Key.read_from` / `KeyHash.read_from` returns -/
def ReadKeyInv (ops : KeyOps K) (P : KeyExpr K → Prop) : Prop :=
  ∀ (tap hash : Bool) (s s' : Stream) (k : KeyExpr K), readKey ops tap hash s = some (k, s') → P k

theorem keysL_all {P : KeyExpr K → Prop} : ∀ (xs : List (DMs K)),
    (∀ x ∈ xs, ∀ k ∈ x.keys, P k) → ∀ k ∈ DMs.keysL xs, P k := by
  intro xs h k hk
  obtain ⟨x, hx, hkx⟩ := mem_keysL hk
  exact h x hx k hkx

theorem applyWrappers_keys : ∀ (ws : Str) (e e' : DMs K), applyWrappers ws e = some e' → e'.keys = e.keys := by
  intro ws
  induction ws with
  | nil => intro e e' h; simp [applyWrappers] at h; subst h; rfl
  | cons c r ih =>
    intro e e' h
    simp only [applyWrappers] at h
    split at h
    · rename_i inner w hi _
      simp at h; subst h
      simp only [DMs.keys]
      exact ih e inner hi
    · simp at h

theorem readMsBody_keys (ops : KeyOps K) (P : KeyExpr K → Prop) (hP : ReadKeyInv ops P) (tap : Bool)
    (sub : Stream → Option (DMs K × Stream))
    (hsub : ∀ s x s', sub s = some (x, s') → ∀ k ∈ x.keys, P k) (fuel : Nat) (op : Str) (s s' : Stream) (e : DMs K)
    (h : readMsBody ops tap sub fuel op s = some (e, s')) : ∀ k ∈ e.keys, P k := by
  unfold readMsBody at h
  split at h
  · -- key fragments
    rename_i f _
    simp only [] at h
    split at h
    · simp at h
    · rename_i k s1 hk
      simp only [Option.map_eq_some_iff, Prod.mk.injEq] at h
      obtain ⟨_, _, rfl, _⟩ := h
      intro k' hk'
      simp only [DMs.keys, List.mem_singleton] at hk'
      subst hk'
      exact hP _ _ _ _ _ hk
  · split at h
    · split at h
      · simp at h
      · simp only [Option.map_eq_some_iff, Prod.mk.injEq] at h
        obtain ⟨_, _, rfl, _⟩ := h
        intro k hk; simp [DMs.keys] at hk
    · split at h
      · split at h
        · simp at h
        · simp only [Option.map_eq_some_iff, Prod.mk.injEq] at h
          obtain ⟨_, _, rfl, _⟩ := h
          intro k hk; simp [DMs.keys] at hk
      · split at h
        · -- andor
          split at h
          · simp at h
          rename_i x s1 hx
          split at h
          · simp at h
          split at h
          · simp at h
          rename_i y s3 hy
          split at h
          · simp at h
          split at h
          · simp at h
          rename_i z s5 hz
          simp only [Option.map_eq_some_iff, Prod.mk.injEq] at h
          obtain ⟨_, _, rfl, _⟩ := h
          intro k hk
          simp only [DMs.keys, List.mem_append] at hk
          rcases hk with (hk | hk) | hk
          · exact hsub _ _ _ hx k hk
          · exact hsub _ _ _ hy k hk
          · exact hsub _ _ _ hz k hk
        · split at h
          · split at h
            · simp at h
            rename_i x s1 hx
            split at h
            · simp at h
            split at h
            · simp at h
            rename_i y s3 hy
            simp only [Option.map_eq_some_iff, Prod.mk.injEq] at h
            obtain ⟨_, _, rfl, _⟩ := h
            intro k hk
            simp only [DMs.keys, List.mem_append] at hk
            rcases hk with hk | hk
            · exact hsub _ _ _ hx k hk
            · exact hsub _ _ _ hy k hk
          · split at h
            · -- thresh
              split at h
              · simp at h
              · split at h
                · simp at h
                · rename_i xs s2 hm
                  simp only [Option.some.injEq, Prod.mk.injEq] at h
                  obtain ⟨rfl, _⟩ := h
                  simp only [DMs.keys]
                  exact keysL_all xs (readMore_all sub (fun x => ∀ k ∈ x.keys, P k) hsub fuel _ _ _ hm)
            · split at h
              · -- multi / sortedmulti / multi_a / sortedmulti_a
                split at h
                · simp at h
                · split at h
                  · simp at h
                  · rename_i keys s2 hm
                    split at h
                    · simp only [Option.some.injEq, Prod.mk.injEq] at h
                      obtain ⟨rfl, _⟩ := h
                      simp only [DMs.keys]
                      exact readMore_all (readKey ops tap false) P (fun s x s' hx => hP tap false s s' x hx) fuel _ _ _ hm
                    · simp at h
              · simp at h

theorem readMs_keys (ops : KeyOps K) (P : KeyExpr K → Prop) (hP : ReadKeyInv ops P) (tap : Bool) :
    ∀ (fuel : Nat) (s s' : Stream) (e : DMs K), readMs ops tap fuel s = some (e, s') → ∀ k ∈ e.keys, P k := by
  intro fuel
  induction fuel with
  | zero => intro s s' e h; simp [readMs] at h
  | succ n ih =>
    intro s s' e h
    simp only [readMs] at h
    split at h
    · simp at h
    · split at h
      · simp at h
      · split at h
        · simp at h
        · rename_i e0 s1 hb
          simp only [Option.map_eq_some_iff, Prod.mk.injEq] at h
          obtain ⟨e1, hw, rfl, _⟩ := h
          rw [applyWrappers_keys _ e0 e1 hw]
          exact readMsBody_keys ops P hP tap _ (fun s x s' hx => ih s s' x hx) n _ _ _ e0 hb

theorem readTapTree_keys (ops : KeyOps K) (P : KeyExpr K → Prop) (hP : ReadKeyInv ops P) :
    ∀ (fuel : Nat) (s s' : Stream) (t : TapTree K), readTapTree ops fuel s = some (t, s') → ∀ k ∈ t.keys, P k := by
  intro fuel
  induction fuel with
  | zero => intro s s' t h; simp [readTapTree] at h
  | succ n ih =>
    intro s s' t h
    simp only [readTapTree] at h
    split at h
    · simp only [Option.some.injEq, Prod.mk.injEq] at h
      obtain ⟨rfl, _⟩ := h
      intro k hk; simp [TapTree.keys] at hk
    · split at h
      · split at h
        · simp at h
        · rename_i left s2 hl
          have hleft := ih _ _ _ hl
          split at h
          · simp only [Option.some.injEq, Prod.mk.injEq] at h
            obtain ⟨rfl, _⟩ := h
            exact hleft
          · split at h
            · simp at h
            · rename_i right s4 hrt
              have hright := ih _ _ _ hrt
              simp only [Option.map_eq_some_iff, Prod.mk.injEq] at h
              obtain ⟨_, _, rfl, _⟩ := h
              intro k hk
              simp only [TapTree.keys, List.mem_append] at hk
              rcases hk with hk | hk
              · exact hleft k hk
              · exact hright k hk
          · simp at h
      · split at h
        · simp at h
        · split at h
          · simp at h
          · rename_i ms s3 hms
            split at h
            · simp only [Option.some.injEq, Prod.mk.injEq] at h
              obtain ⟨rfl, _⟩ := h
              simp only [TapTree.keys]
              exact readMs_keys ops P hP true _ _ _ _ hms
            · simp at h

/-- the seven shapes of object `Descriptor.read_from` builds -/
inductive ParsedShape : Desc K → Prop
  | tr (key : KeyExpr K) (tree : TapTree K) : ParsedShape ⟨none, false, false, some key, false, true, tree⟩
  | shwsh (ms : DMs K) : ParsedShape ⟨some ms, true, true, none, false, false, .empty⟩
  | wsh (ms : DMs K) : ParsedShape ⟨some ms, false, true, none, false, false, .empty⟩
  | sh (ms : DMs K) : ParsedShape ⟨some ms, true, false, none, false, false, .empty⟩
  | shwpkh (key : KeyExpr K) : ParsedShape ⟨none, true, false, some key, true, false, .empty⟩
  | wpkh (key : KeyExpr K) : ParsedShape ⟨none, false, false, some key, true, false, .empty⟩
  | pkh (key : KeyExpr K) : ParsedShape ⟨none, false, false, some key, false, false, .empty⟩

theorem ParsedShape.shaped {d : Desc K} (h : ParsedShape d) : d.Shaped := by
  cases h
  · exact Or.inl rfl
  · exact Or.inr ⟨rfl, rfl⟩
  · exact Or.inr ⟨rfl, rfl⟩
  · exact Or.inr ⟨rfl, rfl⟩
  · exact Or.inl rfl
  · exact Or.inl rfl
  · exact Or.inl rfl

theorem ParsedShape.formOf_some {d : Desc K} (h : ParsedShape d) : ∃ fm, formOf d = some fm := by
  cases h <;> exact ⟨_, rfl⟩

/-- MAIN (`Descriptor.read_from`): the object has one of the seven shapes and every element of `Descriptor.keys`
    came out of `Key.read_from` -/
theorem readFrom_keys (ops : KeyOps K) (P : KeyExpr K → Prop) (hP : ReadKeyInv ops P) (fuel : Nat) (s s' : Stream)
    (d : Desc K) (h : Desc.readFrom ops fuel s = some (d, s')) : ParsedShape d ∧ ∀ k ∈ d.keys, P k := by
  have single : ∀ (key : KeyExpr K) (sh wpkh : Bool), P key →
      ∀ k ∈ (⟨none, sh, false, some key, wpkh, false, .empty⟩ : Desc K).keys, P k := by
    intro key sh wpkh hk k hmem
    simp only [Desc.keys, TapTree.truthy, Bool.false_eq_true, if_false, List.mem_singleton] at hmem
    subst hmem
    exact hk
  have msk : ∀ (ms : DMs K) (sh wsh : Bool), (∀ k ∈ ms.keys, P k) →
      ∀ k ∈ (⟨some ms, sh, wsh, none, false, false, .empty⟩ : Desc K).keys, P k := by
    intro ms sh wsh hk k hmem
    simp only [Desc.keys, TapTree.truthy, Bool.false_eq_true, if_false] at hmem
    exact hk k hmem
  unfold Desc.readFrom at h
  split at h
  · simp at h
  · -- tr
    split at h
    · simp at h
    · rename_i key s2 hk
      simp only [] at h
      split at h
      · simp at h
      · rename_i tree s3 htt
        simp only [Option.map_eq_some_iff, Prod.mk.injEq] at h
        obtain ⟨s4, _, rfl, _⟩ := h
        refine ⟨.tr key tree, ?_⟩
        have htree : ∀ k ∈ tree.keys, P k := by
          split at htt
          · exact readTapTree_keys ops P hP _ _ _ _ htt
          · simp only [Option.map_eq_some_iff, Prod.mk.injEq] at htt
            obtain ⟨_, _, rfl, _⟩ := htt
            intro k hk'; simp [TapTree.keys] at hk'
        intro k hmem
        simp only [Desc.keys] at hmem
        split at hmem
        · simp only [List.mem_cons] at hmem
          rcases hmem with rfl | hmem
          · exact hP _ _ _ _ _ hk
          · exact htree k hmem
        · simp only [List.mem_singleton] at hmem
          subst hmem
          exact hP _ _ _ _ _ hk
  · -- sh(wsh(M))
    split at h
    · simp at h
    · rename_i ms s2 hm
      split at h
      · simp at h
      · split at h
        · simp only [Option.some.injEq, Prod.mk.injEq] at h
          obtain ⟨rfl, _⟩ := h
          exact ⟨.shwsh ms, msk ms _ _ (readMs_keys ops P hP false _ _ _ _ hm)⟩
        · simp at h
  · -- wsh(M)
    split at h
    · simp at h
    · rename_i ms s2 hm
      split at h
      · simp at h
      · split at h
        · simp only [Option.some.injEq, Prod.mk.injEq] at h
          obtain ⟨rfl, _⟩ := h
          exact ⟨.wsh ms, msk ms _ _ (readMs_keys ops P hP false _ _ _ _ hm)⟩
        · simp at h
  · -- sh(M)
    split at h
    · simp at h
    · rename_i ms s2 hm
      split at h
      · simp at h
      · split at h
        · simp only [Option.some.injEq, Prod.mk.injEq] at h
          obtain ⟨rfl, _⟩ := h
          exact ⟨.sh ms, msk ms _ _ (readMs_keys ops P hP false _ _ _ _ hm)⟩
        · simp at h
  · -- sh(wpkh(K))
    split at h
    · simp at h
    · rename_i key s2 hk
      simp only [Option.map_eq_some_iff, Prod.mk.injEq] at h
      obtain ⟨_, _, rfl, _⟩ := h
      exact ⟨.shwpkh key, single key _ _ (hP _ _ _ _ _ hk)⟩
  · -- wpkh(K)
    split at h
    · simp at h
    · rename_i key s2 hk
      simp only [Option.map_eq_some_iff, Prod.mk.injEq] at h
      obtain ⟨_, _, rfl, _⟩ := h
      exact ⟨.wpkh key, single key _ _ (hP _ _ _ _ _ hk)⟩
  · -- pkh(K)
    split at h
    · simp at h
    · rename_i key s2 hk
      simp only [Option.map_eq_some_iff, Prod.mk.injEq] at h
      obtain ⟨_, _, rfl, _⟩ := h
      exact ⟨.pkh key, single key _ _ (hP _ _ _ _ _ hk)⟩

/-- MAIN (`Descriptor.from_string`) -/
theorem parse_keys_all (ops : KeyOps K) (P : KeyExpr K → Prop) (hP : ReadKeyInv ops P) (t : Str) (d : Desc K)
    (h : Desc.parse ops t = some d) : ParsedShape d ∧ ∀ k ∈ d.keys, P k := by
  unfold Desc.parse at h
  split at h
  · simp at h
  · rename_i d' s hr
    have hn := readFrom_keys ops P hP _ _ _ _ hr
    split at h
    · simp at h; subst h; exact hn
    · split at h
      · simp at h; subst h; exact hn
      · simp at h

/-! ### the premises of `owns_sound` -/

/-- every key of a parsed descriptor carries well-formed steps, and a key with steps is an extended key -/
theorem parse_keys_deriv (ops : KeyOps K) (t : Str) (d : Desc K) (h : Desc.parse ops t = some d) :
    ∀ k ∈ d.keys, ∀ ix, k.deriv = some ix → StepsWF ix ∧ k.key.hasDerive ops = true :=
  (parse_keys_all ops (fun k => ∀ ix, k.deriv = some ix → StepsWF ix ∧ k.key.hasDerive ops = true)
    (fun tap hash s s' k hk ix hix =>
      have := readKey_deriv ops tap hash s s' k hk ix hix
      ⟨mkAllowed_wf this.1, this.2⟩) t d h).2

/-- the views `Desc.owns` hands to `ownsCore` are well-formed: the premise `hwf` of `owns_sound` -/
theorem parse_views_wf (ops : KeyOps K) (hs : Hashes) (t : Str) (d : Desc K) (h : Desc.parse ops t = some d) :
    ∀ k, k ∈ d.keys.map (KeyExpr.view ops hs) → k.WF := by
  intro v hv
  obtain ⟨k, hk, rfl⟩ := List.mem_map.mp hv
  intro ix ha
  exact (parse_keys_deriv ops t d h k hk ix ha).1

theorem parse_shaped (ops : KeyOps K) (t : Str) (d : Desc K) (h : Desc.parse ops t = some d) : d.Shaped :=
  (parse_keys_all ops (fun _ => True) (fun _ _ _ _ _ _ => trivial) t d h).1.shaped

theorem parse_formOf (ops : KeyOps K) (t : Str) (d : Desc K) (h : Desc.parse ops t = some d) :
    ∃ fm, formOf d = some fm :=
  (parse_keys_all ops (fun _ => True) (fun _ _ _ _ _ _ => trivial) t d h).1.formOf_some

/-- a key without derivation steps matches no record -/
theorem KeyView.check_none_of_no_allowed {k : KeyView} (h : k.allowed = none) (r : DerivRec) : k.check r = none := by
  unfold KeyView.check
  simp [h]

/-- what an answer True of the decision procedure rests on -/
theorem ownsCore_true_witness {keys : List KeyView} {ty : Option SpkType} {ds : Nat → Nat → Option Bytes}
    {sc : Scope} (h : ownsCore keys ty ds sc = some true) :
    ∃ spk, sc.spk = some spk ∧ scriptType spk = ty ∧ ∃ r, r ∈ sc.derivs ++ sc.tapDerivs ∧
      ∃ k, k ∈ keys ∧ k.extended = true ∧ ∃ i b, k.check r = some (i, b) ∧ ds i b = some spk := by
  unfold ownsCore at h
  cases hspk : sc.spk with
  | none => simp [hspk] at h
  | some spk =>
    simp only [hspk] at h
    split at h
    · cases h
    · rename_i hty
      have hty' : scriptType spk = ty := by simpa using hty
      refine ⟨spk, rfl, hty', ?_⟩
      have core : ∀ recs, (∀ r, r ∈ recs → r ∈ sc.derivs ++ sc.tapDerivs) →
          scanRecords keys ds spk recs = some true →
          ∃ r, r ∈ sc.derivs ++ sc.tapDerivs ∧
            ∃ k, k ∈ keys ∧ k.extended = true ∧ ∃ i b, k.check r = some (i, b) ∧ ds i b = some spk := by
        intro recs hsub hsr
        obtain ⟨r, hr, hk⟩ := scanRecords_true hsr
        exact ⟨r, hsub r hr, scanKeys_true hk⟩
      split at h
      · cases h
      · rename_i h1
        exact core sc.derivs (fun r hr => List.mem_append_left _ hr) h1
      · exact core sc.tapDerivs (fun r hr => List.mem_append_right _ hr) h

/-- no key with derivation steps: never True (every `check_derivation` answers `None`) -/
theorem ownsCore_no_allowed {keys : List KeyView} {ty : Option SpkType} {ds : Nat → Nat → Option Bytes}
    {sc : Scope} (hno : ∀ k, k ∈ keys → k.allowed = none) : ownsCore keys ty ds sc ≠ some true := by
  intro h
  obtain ⟨_, _, _, r, _, k, hk, _, i, b, hc, _⟩ := ownsCore_true_witness h
  rw [KeyView.check_none_of_no_allowed (hno k hk) r] at hc
  cases hc

end Embit.Model.Descriptor
