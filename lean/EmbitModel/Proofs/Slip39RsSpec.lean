import EmbitModel.Proofs.Slip39Rs
import EmbitModel.Spec.Slip39Spec
/- embit's rs1024_polymod with its ten generator constants = remainder modulo the Reed-Solomon generator
   polynomial (x-a)(x-a^2)(x-a^3) over GF(1024) = GF(2)[z]/(z^10+z^3+1) of the standard. -/
namespace Embit.Model.Slip39
open Embit.Spec.Slip39 (gf1024Mul rsG0 rsG1 rsG2 rsStep rsResidue rsValid rsChecksum)

/-- the 30-bit state as three GF(1024) coefficients -/
def pack (c : Nat × Nat × Nat) : Nat := (((c.1 <<< 10) ^^^ c.2.1) <<< 10) ^^^ c.2.2

def Small (c : Nat × Nat × Nat) : Prop := c.1 < 1024 ∧ c.2.1 < 1024 ∧ c.2.2 < 1024

theorem shl_xor_eq_add (a b i : Nat) (hb : b < 2 ^ i) : (a <<< i) ^^^ b = a * 2 ^ i + b := by
  have : (a <<< i) ^^^ b = (a <<< i) ||| b := by
    apply Nat.eq_of_testBit_eq
    intro j
    simp only [Nat.testBit_xor, Nat.testBit_or, Nat.testBit_shiftLeft]
    by_cases h : i ≤ j
    · have : b.testBit j = false :=
        Nat.testBit_lt_two_pow (Nat.lt_of_lt_of_le hb (Nat.pow_le_pow_right (by decide) h))
      simp [this]
    · simp [h]
  rw [this, ← Nat.shiftLeft_add_eq_or_of_lt hb, Nat.shiftLeft_eq]

theorem pack_eq (c : Nat × Nat × Nat) (h : Small c) : pack c = c.1 * 1048576 + c.2.1 * 1024 + c.2.2 := by
  obtain ⟨c2, c1, c0⟩ := c
  obtain ⟨_, h1, h0⟩ := h
  simp only at h1 h0
  simp only [pack]
  rw [shl_xor_eq_add c2 c1 10 h1, shl_xor_eq_add _ c0 10 h0]
  omega

theorem pack_xor (c d : Nat × Nat × Nat) : pack (c.1 ^^^ d.1, c.2.1 ^^^ d.2.1, c.2.2 ^^^ d.2.2) = pack c ^^^ pack d := by
  obtain ⟨c2, c1, c0⟩ := c
  obtain ⟨d2, d1, d0⟩ := d
  show (((c2 ^^^ d2) <<< 10 ^^^ (c1 ^^^ d1)) <<< 10) ^^^ (c0 ^^^ d0) =
    ((((c2 <<< 10) ^^^ c1) <<< 10) ^^^ c0) ^^^ ((((d2 <<< 10) ^^^ d1) <<< 10) ^^^ d0)
  simp only [Nat.shiftLeft_xor_distrib]
  generalize c2 <<< 10 <<< 10 = A
  generalize d2 <<< 10 <<< 10 = B
  generalize c1 <<< 10 = C
  generalize d1 <<< 10 = D
  apply Nat.eq_of_testBit_eq
  intro i
  simp only [Nat.testBit_xor]
  cases A.testBit i <;> cases B.testBit i <;> cases C.testBit i <;> cases D.testBit i <;>
    cases c0.testBit i <;> cases d0.testBit i <;> rfl

set_option maxRecDepth 100000 in
/-- the generator constants are the multiples 2^i·(g2, g1, g0) of the Reed-Solomon generator polynomial
    g(x) = (x−a)(x−a²)(x−a³) over GF(1024): folding them in along the bits of `b` multiplies g by `b` -/
theorem genFold_eq_mul : ∀ b < 1024, genFold b rs1024Gen 0 0 = pack (gf1024Mul b rsG2, gf1024Mul b rsG1, gf1024Mul b rsG0)
    ∧ gf1024Mul b rsG2 < 1024 ∧ gf1024Mul b rsG1 < 1024 ∧ gf1024Mul b rsG0 < 1024 := by decide +kernel

theorem step_eq_spec (c : Nat × Nat × Nat) (v : Nat) (hc : Small c) (hv : v < 1024) :
    rs1024Step (pack c) v = pack (rsStep c v) ∧ Small (rsStep c v) := by
  obtain ⟨c2, c1, c0⟩ := c
  obtain ⟨h2, h1, h0⟩ := hc
  simp only at h2 h1 h0
  obtain ⟨hg, b2, b1, b0⟩ := genFold_eq_mul c2 h2
  have lt : ∀ {a b : Nat}, a < 1024 → b < 1024 → a ^^^ b < 1024 := fun ha hb => Nat.xor_lt_two_pow (n := 10) ha hb
  refine ⟨?_, lt h1 b2, lt h0 b1, lt hv b0⟩
  have hp := pack_eq (c2, c1, c0) ⟨h2, h1, h0⟩
  simp only at hp
  unfold rs1024Step
  have eF : (0xFFFFF : Nat) = 2 ^ 20 - 1 := by decide
  rw [genFold_acc, eF, Nat.and_two_pow_sub_one_eq_mod, Nat.shiftRight_eq_div_pow, hp]
  have d1 : (c2 * 1048576 + c1 * 1024 + c0) / 2 ^ 20 = c2 := by omega
  have d2 : (c2 * 1048576 + c1 * 1024 + c0) % 2 ^ 20 = c1 * 1024 + c0 := by omega
  rw [d1, d2, hg]
  have e1 : ((c1 * 1024 + c0) <<< 10) ^^^ v = pack (c1, c0, v) := by
    simp only [pack]
    rw [shl_xor_eq_add c1 c0 10 h0]
  rw [e1, ← pack_xor]
  rfl

theorem fold_eq_spec (vs : List Nat) (hv : ∀ v ∈ vs, v < 1024) (c : Nat × Nat × Nat) (hc : Small c) :
    vs.foldl rs1024Step (pack c) = pack (vs.foldl rsStep c) ∧ Small (vs.foldl rsStep c) := by
  induction vs generalizing c with
  | nil => exact ⟨rfl, hc⟩
  | cons v vs ih =>
    have := step_eq_spec c v hc (hv v List.mem_cons_self)
    simp only [List.foldl_cons]
    rw [this.1]
    exact ih (fun v' h' => hv v' (List.mem_cons_of_mem _ h')) _ this.2

theorem unpack_pack (c : Nat × Nat × Nat) (hc : Small c) (h : pack c = 1) : c = (0, 0, 1) := by
  rw [pack_eq c hc] at h
  obtain ⟨c2, c1, c0⟩ := c
  obtain ⟨h2, h1, h0⟩ := hc
  simp only at h h2 h1 h0
  have : c2 = 0 ∧ c1 = 0 ∧ c0 = 1 := by omega
  rw [this.1, this.2.1, this.2.2]

theorem and1023' (a : Nat) : a &&& 1023 = a % 1024 := by
  have := Nat.and_two_pow_sub_one_eq_mod a 10
  simpa using this

theorem customization_eq : Spec.Slip39.customization 0 = csShamir := by decide

/-- the model's polymod is the residue modulo the Reed-Solomon generator polynomial over GF(1024), packed -/
theorem polymod_eq_spec (vs : List Nat) (hv : ∀ v ∈ vs, v < 1024) :
    rs1024Polymod vs = pack (rsResidue vs) ∧ Small (rsResidue vs) :=
  fold_eq_spec vs hv (0, 0, 1) ⟨by decide, by decide, by decide⟩

theorem csShamir_lt : ∀ v ∈ csShamir, v < 1024 := by decide

/-- embit's checksum verification = membership in the RS1024 code of the standard -/
theorem verify_eq_spec (ws : List Nat) (hw : ∀ w ∈ ws, w < 1024) : rs1024Verify csShamir ws = rsValid 0 ws := by
  have hall : ∀ v ∈ csShamir ++ ws, v < 1024 := by
    intro v h; rcases List.mem_append.mp h with h | h
    · exact csShamir_lt v h
    · exact hw v h
  obtain ⟨e, hs⟩ := polymod_eq_spec _ hall
  unfold rs1024Verify rsValid
  rw [customization_eq, e]
  by_cases h : pack (rsResidue (csShamir ++ ws)) = 1
  · have := unpack_pack _ hs h
    rw [this]; rfl
  · have : rsResidue (csShamir ++ ws) ≠ (0, 0, 1) := by
      intro e'; apply h; rw [e']; rfl
    rw [beq_eq_false_iff_ne.mpr h, beq_eq_false_iff_ne.mpr this]

/-- embit's checksum creation = the systematic Reed-Solomon encoding of the standard -/
theorem create_eq_spec (data : List Nat) (hd : ∀ w ∈ data, w < 1024) : rs1024Create csShamir data = rsChecksum 0 data := by
  have hall : ∀ v ∈ csShamir ++ data ++ [0, 0, 0], v < 1024 := by
    intro v h
    simp only [List.mem_append, List.mem_cons, List.not_mem_nil, or_false] at h
    rcases h with (h | h) | h
    · exact csShamir_lt v h
    · exact hd v h
    · omega
  obtain ⟨e, hs⟩ := polymod_eq_spec _ hall
  unfold rs1024Create rsChecksum
  rw [customization_eq]
  simp only
  rw [e]
  generalize rsResidue (csShamir ++ data ++ [0, 0, 0]) = c at hs ⊢
  obtain ⟨c2, c1, c0⟩ := c
  obtain ⟨h2, h1, h0⟩ := hs
  simp only at h2 h1 h0
  have hx : c0 ^^^ 1 < 1024 := Nat.xor_lt_two_pow (n := 10) h0 (by decide)
  have : pack (c2, c1, c0) ^^^ 1 = pack (c2, c1, c0 ^^^ 1) := by
    simp only [pack, Nat.xor_assoc]
  rw [this, pack_eq _ ⟨h2, h1, hx⟩]
  simp only [and1023', Nat.shiftRight_eq_div_pow]
  have a : (c2 * 1048576 + c1 * 1024 + (c0 ^^^ 1)) / 2 ^ 20 % 1024 = c2 := by omega
  have b : (c2 * 1048576 + c1 * 1024 + (c0 ^^^ 1)) / 2 ^ 10 % 1024 = c1 := by omega
  have d : (c2 * 1048576 + c1 * 1024 + (c0 ^^^ 1)) % 1024 = c0 ^^^ 1 := by omega
  rw [a, b, d]

end Embit.Model.Slip39
