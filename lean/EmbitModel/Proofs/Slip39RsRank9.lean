import EmbitModel.Proofs.Slip39RsElim
/- RS1024 rank checks (kernel evaluation), part 9: all position triples whose largest offset is in [21, 20, 19] -/
namespace Embit.Model.Slip39
set_option maxRecDepth 1000000 in
theorem tripleOk_21 : tripleOk 21 = true := by decide +kernel
set_option maxRecDepth 1000000 in
theorem tripleOk_20 : tripleOk 20 = true := by decide +kernel
set_option maxRecDepth 1000000 in
theorem tripleOk_19 : tripleOk 19 = true := by decide +kernel
end Embit.Model.Slip39
