import EmbitModel.Proofs.Recover
/-
  `ecdsa_sign_recoverable`: py signs, then searches the recovery id by trial recovery (`for i in range(4)`, an
  exception inside the loop propagates); libsecp256k1 computes the id from the nonce point. Relative to `EcLaws`
  the two agree away from an explicit region (see `recidSearchSafe`).
-/
namespace Embit
open Embit.Model Embit.Model.Der Embit.Model.PySecp

variable {E : EcOps}

/-! ### what the signing attempts return -/

theorem signAttempts_some (H : HashOps) (d z : Nat) (kv : Bytes × Bytes) :
    ∀ (is : List Nat) (k r s : Nat), Spec.Libsecp.signAttempts E H d z kv is = some (k, r, s) →
      1 ≤ k ∧ k < E.n ∧ Spec.Ecdsa.signWith E d z k = some (r, s) := by
  intro is
  induction is with
  | nil => intro k r s h; simp [Spec.Libsecp.signAttempts] at h
  | cons i rest ih =>
    intro k r s h
    simp only [Spec.Libsecp.signAttempts] at h
    split at h
    · rename_i hv
      split at h
      · rename_i r' s' hsw
        simp only [Option.some.injEq, Prod.mk.injEq] at h
        obtain ⟨rfl, rfl, rfl⟩ := h
        exact ⟨hv.1, hv.2, hsw⟩
      · exact ih k r s h
    · exact ih k r s h

theorem signWith_some (d z k r s : Nat) (h : Spec.Ecdsa.signWith E d z k = some (r, s)) :
    ∃ xR yR, E.xy (E.mul k E.g) = some (xR, yR) ∧ r = xR % E.n ∧
      s = (E.invN k * (z + r * d)) % E.n ∧ r ≠ 0 ∧ s ≠ 0 := by
  unfold Spec.Ecdsa.signWith at h
  split at h
  · cases h
  · rename_i xR yR hxy
    simp only at h
    split at h
    · cases h
    · rename_i hnz
      simp only [Option.some.injEq, Prod.mk.injEq] at h
      obtain ⟨rfl, rfl⟩ := h
      exact ⟨xR, yR, hxy, rfl, rfl, fun h => hnz (Or.inl h), fun h => hnz (Or.inr h)⟩

/-! ### the recovery id libsecp256k1 attaches, and the region where py's search can differ -/

/-- the recovery id of `secp256k1_ecdsa_sign_recoverable`: bit 1 = `x(R) ≥ n`, bit 0 = `y(R)` odd, bit 0 flipped
    when S was negated -/
def nonceRecid (E : EcOps) (xR yR s : Nat) : Nat :=
  let recid0 := (if xR ≥ E.n then 2 else 0) + yR % 2
  if !Spec.Ecdsa.isLowS E s then (if recid0 % 2 = 0 then recid0 + 1 else recid0 - 1) else recid0

/-- Outside this region py's search is proved to return libsecp256k1's id. It excludes
    * `x(R) ≥ n` (the id is 2 or 3): py first tries `x = r`, which in general is not an abscissa of the curve —
      `ECPubKey.set` fails and the exception leaves the loop (probability ≈ 2^-128 per signature);
    * id 1 with `2z + r·d ≡ 0 (mod n)`: the wrong candidate tried first recovers the point at infinity, whose
      serialisation raises (probability ≈ 2^-256). -/
def recidSearchSafe (E : EcOps) (H : HashOps) (fuel : Nat) (msg secret : Bytes) : Bool :=
  match Spec.Libsecp.signCore E H fuel (ofBe secret) msg none with
  | none => true
  | some (k, r, s) =>
    match E.xy (E.mul k E.g) with
    | none => true
    | some (xR, yR) =>
      decide (xR < E.n) &&
        (nonceRecid E xR yR s != 1 || decide ((2 * ofBe msg + r * ofBe secret) % E.n ≠ 0))

/-! ### candidates -/

/-- `lift_x` of the abscissa of a point, then the parity bit: the point itself when the bit is the parity of its
    y, its negation otherwise -/
theorem lift_bit (L : EcLaws E) (P : E.Pt) (x y : Nat) (hxy : E.xy P = some (x, y)) (b : Nat) :
    ((E.liftX x).bind fun R0 => some (if b % 2 = 1 then E.neg R0 else R0))
      = some (if b % 2 = y % 2 then P else E.neg P) := by
  by_cases hy : y % 2 = 0
  · rw [L.liftX_even P x y hxy hy]
    simp only [Option.bind_some, Option.some.injEq, hy]
    by_cases hb : b % 2 = 1
    · rw [if_pos hb, if_neg (by omega)]
    · rw [if_neg hb, if_pos (by omega)]
  · obtain ⟨hneg, hpar⟩ := L.neg_parity P x y hxy
    rw [L.liftX_even (E.neg P) x (E.p - y) hneg (hpar.mpr (by omega))]
    simp only [Option.bind_some, Option.some.injEq]
    by_cases hb : b % 2 = 1
    · rw [if_pos hb, if_pos (by omega), L.neg_neg]
    · rw [if_neg hb, if_neg (by omega)]

/-- SEC 1 recovery from a candidate `R = cG` with `x(R) = r < n`: the point `eG` with `e = r⁻¹(s c − z)`, unless
    it is the point at infinity -/
theorem recoverPoint_of (L : EcLaws E) (r s z idx : Nat) (hr0 : r ≠ 0) (hs0 : s ≠ 0) (hidx : idx / 2 = 0)
    (K : E.Pt) (yK : Nat) (hK : E.xy K = some (r, yK)) (c : Nat)
    (hc : (if idx % 2 = yK % 2 then K else E.neg K) = E.mul c E.g) :
    ∃ e, e < E.n ∧ (e : ZMod E.n) = (E.invN r : ZMod E.n) * ((s : ZMod E.n) * c - z) ∧
      Spec.Libsecp.recoverPoint E r s z idx =
        (match E.xy (E.mul e E.g) with | none => none | some _ => some (E.mul e E.g)) := by
  obtain ⟨_, hrp, _, _⟩ := L.xy_range K r yK hK
  obtain ⟨e, he, hQ, hcast⟩ := recover_scalar L r s z c
  refine ⟨e, he, hcast, ?_⟩
  unfold Spec.Libsecp.recoverPoint
  have h1 : ¬ (r = 0 ∨ s = 0) := by omega
  have h2 : ¬ (idx / 2 = 1) := by omega
  rw [if_neg h1]
  simp only [h2, if_false]
  rw [if_neg (by omega)]
  have hb := lift_bit L K r yK hK idx
  cases hl : E.liftX r with
  | none => rw [hl] at hb; cases hb
  | some R0 =>
    rw [hl] at hb
    simp only [Option.bind_some, Option.some.injEq] at hb ⊢
    rw [hb, hc, hQ]
    cases E.xy (E.mul e E.g) <;> rfl

/-! ### scalar facts about a signature made with nonce `k` -/

/-- `s·k = z + r·d` in `ZMod n` -/
theorem sig_relation (L : EcLaws E) (k z r d s : Nat) (hk : 0 < k ∧ k < E.n)
    (hs : s = (E.invN k * (z + r * d)) % E.n) :
    (s : ZMod E.n) * k = z + r * d := by
  have h1 := inv_cast L k hk.1 hk.2
  rw [hs]
  simp only [ZMod.natCast_mod]
  push_cast
  linear_combination ((z : ZMod E.n) + r * d) * h1

theorem cast_eq_zero_iff {n : Nat} (a : Nat) : (a : ZMod n) = 0 ↔ a % n = 0 := by
  constructor
  · intro h
    have := mod_eq_of_cast (n := n) a 0 (by simpa using h)
    simpa using this
  · intro h
    have := cast_eq_of_mod (n := n) a 0 (by simpa using h)
    simpa using this

/-- a finite key structure determines the scalar -/
theorem pubkeyStruct_inj (L : EcLaws E) (hp : E.p ≤ 2 ^ 256) (a b : Nat) (ha : a < E.n) (hb : b < E.n) (q : Bytes)
    (h1 : Spec.Libsecp.pubkeyStruct E (E.mul a E.g) = some q)
    (h2 : Spec.Libsecp.pubkeyStruct E (E.mul b E.g) = some q) : a = b := by
  unfold Spec.Libsecp.pubkeyStruct at h1 h2
  cases hxa : E.xy (E.mul a E.g) with
  | none => simp [hxa] at h1
  | some pa =>
    cases hxb : E.xy (E.mul b E.g) with
    | none => simp [hxb] at h2
    | some pb =>
      obtain ⟨xa, ya⟩ := pa
      obtain ⟨xb, yb⟩ := pb
      simp only [hxa, hxb, Option.map_some, Option.some.injEq] at h1 h2
      obtain ⟨_, hxa', _, hya'⟩ := L.xy_range _ _ _ hxa
      obtain ⟨_, hxb', _, hyb'⟩ := L.xy_range _ _ _ hxb
      have heq : leN 32 xa ++ leN 32 ya = leN 32 xb ++ leN 32 yb := by rw [h1, h2]
      have e1 := congrArg (fun l => ofLe (l.take 32)) heq
      have e2 := congrArg (fun l => ofLe (l.drop 32)) heq
      simp only [take32_leN, drop32_leN] at e1 e2
      rw [ofLe_leN32 xa (by omega), ofLe_leN32 xb (by omega)] at e1
      rw [ofLe_leN32 ya (by omega), ofLe_leN32 yb (by omega)] at e2
      subst e1; subst e2
      have p1 := L.ofXY_xy _ _ _ hxa
      have p2 := L.ofXY_xy _ _ _ hxb
      rw [p1] at p2
      exact L.mul_inj a b ha hb (Option.some.inj p2)

/-! ### the right candidate recovers the signer's key, the wrong one a different finite point -/

theorem normalizeS_ne_zero (s : Nat) (hs0 : s ≠ 0) (hsn : s < E.n) : Spec.Ecdsa.normalizeS E s ≠ 0 := by
  unfold Spec.Ecdsa.normalizeS
  split <;> omega

theorem normalizeS_lt (s : Nat) (hs0 : s ≠ 0) (hsn : s < E.n) : Spec.Ecdsa.normalizeS E s < E.n := by
  unfold Spec.Ecdsa.normalizeS
  split <;> omega

/-- `s'·c = s·k` where `(s', c)` is `(s, k)` or `(n − s, n − k)` -/
theorem norm_pair_cast (k s : Nat) (hk : k ≤ E.n) (hs : s ≤ E.n) :
    ((Spec.Ecdsa.normalizeS E s : Nat) : ZMod E.n) * ((if Spec.Ecdsa.isLowS E s then k else E.n - k : Nat) : ZMod E.n)
      = (s : ZMod E.n) * k := by
  unfold Spec.Ecdsa.normalizeS
  cases Spec.Ecdsa.isLowS E s
  · simp only [Bool.false_eq_true, if_false]
    rw [cast_n_sub s hs, cast_n_sub k hk]; ring
  · simp only [if_true]

/-- `s'·c = −s·k` where `(s', c)` is `(s, n − k)` or `(n − s, k)` -/
theorem norm_pair_cast_neg (k s : Nat) (hk : k ≤ E.n) (hs : s ≤ E.n) :
    ((Spec.Ecdsa.normalizeS E s : Nat) : ZMod E.n) * ((if Spec.Ecdsa.isLowS E s then E.n - k else k : Nat) : ZMod E.n)
      = -((s : ZMod E.n) * k) := by
  unfold Spec.Ecdsa.normalizeS
  cases Spec.Ecdsa.isLowS E s
  · simp only [Bool.false_eq_true, if_false]
    rw [cast_n_sub s hs]; ring
  · simp only [if_true]
    rw [cast_n_sub k hk]; ring

theorem recover_right (L : EcLaws E) (k d z xR yR r s : Nat) (hk : 0 < k ∧ k < E.n)
    (hK : E.xy (E.mul k E.g) = some (xR, yR)) (hxn : xR < E.n) (hr : r = xR % E.n)
    (hs : s = (E.invN k * (z + r * d)) % E.n) (hr0 : r ≠ 0) (hs0 : s ≠ 0)
    (hfin : (E.xy (E.mul d E.g)).isSome = true) :
    Spec.Libsecp.recoverPoint E r (Spec.Ecdsa.normalizeS E s) z (nonceRecid E xR yR s) = some (E.mul d E.g) := by
  have hn := L.n_pos
  have hrx : r = xR := by rw [hr, Nat.mod_eq_of_lt hxn]
  have hsn : s < E.n := by rw [hs]; exact Nat.mod_lt _ hn
  have hrec : nonceRecid E xR yR s / 2 = 0 ∧
      (nonceRecid E xR yR s % 2 = yR % 2 ↔ Spec.Ecdsa.isLowS E s = true) := by
    unfold nonceRecid
    have h1 : ¬ xR ≥ E.n := by omega
    simp only [h1, if_false, Nat.zero_add]
    cases Spec.Ecdsa.isLowS E s
    · simp only [Bool.not_false, if_true, Bool.false_eq_true, iff_false]
      have : yR % 2 = 0 ∨ yR % 2 = 1 := by omega
      rcases this with h | h <;> simp [h]
    · simp only [Bool.not_true, Bool.false_eq_true, if_false, iff_true]
      have : yR % 2 = 0 ∨ yR % 2 = 1 := by omega
      rcases this with h | h <;> simp [h]
  have hK' : E.xy (E.mul k E.g) = some (r, yR) := by rw [hrx]; exact hK
  have hc : (if nonceRecid E xR yR s % 2 = yR % 2 then E.mul k E.g else E.neg (E.mul k E.g))
      = E.mul (if Spec.Ecdsa.isLowS E s then k else E.n - k) E.g := by
    cases hlow : Spec.Ecdsa.isLowS E s
    · have : ¬ (nonceRecid E xR yR s % 2 = yR % 2) := fun h => by have := hrec.2.mp h; rw [hlow] at this; cases this
      rw [if_neg this]
      simp only [Bool.false_eq_true, if_false]
      exact L.neg_mul k (by omega)
    · rw [if_pos (hrec.2.mpr hlow)]
      simp
  obtain ⟨e, _, hcast, hrp⟩ := recoverPoint_of L r (Spec.Ecdsa.normalizeS E s) z (nonceRecid E xR yR s) hr0
    (normalizeS_ne_zero s hs0 hsn) hrec.1 (E.mul k E.g) yR hK' _ hc
  rw [hrp]
  have hed : (e : ZMod E.n) = (d : ZMod E.n) := by
    rw [hcast, norm_pair_cast k s (by omega) (by omega), sig_relation L k z r d s hk hs]
    have hri := inv_cast L r (by omega) (by omega)
    linear_combination (d : ZMod E.n) * hri
  rw [mul_congr L e d hed]
  cases hxy : E.xy (E.mul d E.g) with
  | none => rw [hxy] at hfin; cases hfin
  | some _ => rfl

theorem recover_wrong (L : EcLaws E) (hodd : E.n % 2 = 1) (k d z xR yR r s : Nat) (hk : 0 < k ∧ k < E.n)
    (hdn : d < E.n)
    (hK : E.xy (E.mul k E.g) = some (xR, yR)) (hxn : xR < E.n) (hr : r = xR % E.n)
    (hs : s = (E.invN k * (z + r * d)) % E.n) (hr0 : r ≠ 0) (hs0 : s ≠ 0)
    (ht : nonceRecid E xR yR s = 1) (hsafe : (2 * z + r * d) % E.n ≠ 0)
    (hfinite : ∀ a, 0 < a → a < E.n → (E.xy (E.mul a E.g)).isSome = true) :
    ∃ e, e < E.n ∧ e ≠ d ∧ (E.xy (E.mul e E.g)).isSome = true ∧
      Spec.Libsecp.recoverPoint E r (Spec.Ecdsa.normalizeS E s) z 0 = some (E.mul e E.g) := by
  have hn := L.n_pos
  have hn3 : 2 < E.n := by have := L.n_gt_one; omega
  have hrx : r = xR := by rw [hr, Nat.mod_eq_of_lt hxn]
  have hsn : s < E.n := by rw [hs]; exact Nat.mod_lt _ hn
  have hpar : (0 % 2 = yR % 2 ↔ Spec.Ecdsa.isLowS E s = false) := by
    unfold nonceRecid at ht
    have h1 : ¬ xR ≥ E.n := by omega
    simp only [h1, if_false, Nat.zero_add] at ht
    cases hlow : Spec.Ecdsa.isLowS E s
    · simp only [hlow, Bool.not_false, if_true] at ht
      simp only [iff_true]
      have : yR % 2 = 0 ∨ yR % 2 = 1 := by omega
      rcases this with h | h
      · omega
      · rw [h] at ht; simp at ht
    · simp only [hlow, Bool.not_true, Bool.false_eq_true, if_false] at ht
      simp only [Bool.true_eq_false, iff_false]
      omega
  have hK' : E.xy (E.mul k E.g) = some (r, yR) := by rw [hrx]; exact hK
  have hc : (if 0 % 2 = yR % 2 then E.mul k E.g else E.neg (E.mul k E.g))
      = E.mul (if Spec.Ecdsa.isLowS E s then E.n - k else k) E.g := by
    cases hlow : Spec.Ecdsa.isLowS E s
    · rw [if_pos (hpar.mpr hlow)]
      simp
    · have : ¬ (0 % 2 = yR % 2) := fun h => by have := hpar.mp h; rw [hlow] at this; cases this
      rw [if_neg this]
      simp only [if_true]
      exact L.neg_mul k (by omega)
  obtain ⟨e, he, hcast, hrp⟩ := recoverPoint_of L r (Spec.Ecdsa.normalizeS E s) z 0 hr0
    (normalizeS_ne_zero s hs0 hsn) (by decide) (E.mul k E.g) yR hK' _ hc
  have hri := inv_cast L r (by omega) (by omega)
  have hrel := sig_relation L k z r d s hk hs
  -- e = −r⁻¹(2z + r d)
  have he2 : (r : ZMod E.n) * e = -(2 * (z : ZMod E.n) + r * d) := by
    rw [hcast, norm_pair_cast_neg k s (by omega) (by omega), hrel]
    linear_combination (-(2 * (z : ZMod E.n) + r * d)) * hri
  have hsafe' : (2 * (z : ZMod E.n) + r * d) ≠ 0 := by
    intro h
    apply hsafe
    have : (((2 * z + r * d : Nat)) : ZMod E.n) = 0 := by push_cast; exact h
    exact (cast_eq_zero_iff _).mp this
  have he0 : e ≠ 0 := by
    intro h0
    rw [h0] at he2
    apply hsafe'
    have : -(2 * (z : ZMod E.n) + r * d) = 0 := by rw [← he2]; simp
    exact neg_eq_zero.mp this
  have hed : e ≠ d := by
    intro h
    rw [h] at he2
    -- 2 (z + r d) = 0, hence z + r d = 0, hence s = 0
    have h2 := inv_cast L 2 (by omega) hn3
    have hzero : (z : ZMod E.n) + r * d = 0 := by
      have h2' : (2 : ZMod E.n) * (E.invN 2 : ZMod E.n) = 1 := by simpa using h2
      linear_combination (E.invN 2 : ZMod E.n) * he2 - ((z : ZMod E.n) + r * d) * h2'
    have hki := inv_cast L k hk.1 hk.2
    have hs' : (s : ZMod E.n) = 0 := by
      rw [hzero] at hrel
      linear_combination (E.invN k : ZMod E.n) * hrel - (s : ZMod E.n) * hki
    have := (cast_eq_zero_iff s).mp hs'
    rw [Nat.mod_eq_of_lt hsn] at this
    exact hs0 this
  exact ⟨e, he, hed, hfinite e (by omega) he, by
    rw [hrp]
    cases hxy : E.xy (E.mul e E.g) with
    | none => have := hfinite e (by omega) he; rw [hxy] at this; cases this
    | some _ => rfl⟩

/-! ### assembling `ecdsa_sign_recoverable` -/

theorem contract_recover_struct (hn : E.n ≤ 2 ^ 256) (r s i : Nat) (hr : r < E.n) (hs : s < E.n) (hi : i ≤ 3)
    (msg : Bytes) (hm : msg.length = 32) :
    Spec.Libsecp.ecdsa_recover E (Spec.Libsecp.sigStruct r s ++ [UInt8.ofNat i]) msg
      = (Spec.Libsecp.recoverPoint E r s (ofBe msg) i).bind (Spec.Libsecp.pubkeyStruct E) := by
  unfold Spec.Libsecp.ecdsa_recover Spec.Libsecp.sigStruct
  have hlen : (leN 32 r ++ leN 32 s ++ [UInt8.ofNat i]).length = 65 := by simp
  have hget : (leN 32 r ++ leN 32 s ++ [UInt8.ofNat i]).getD 64 0 = UInt8.ofNat i := by
    have : (leN 32 r ++ leN 32 s).length = 64 := by simp
    rw [List.getD_eq_getElem?_getD, List.getElem?_append_right (by omega)]
    simp [this]
  have hi' : (UInt8.ofNat i).toNat = i := by
    simp [UInt8.toNat_ofNat']; omega
  have ht : (leN 32 r ++ leN 32 s ++ [UInt8.ofNat i]).take 32 = leN 32 r := by
    rw [List.append_assoc]; exact take32_append _ _ (by simp)
  have hd : ((leN 32 r ++ leN 32 s ++ [UInt8.ofNat i]).drop 32).take 32 = leN 32 s := by
    rw [List.append_assoc, drop32_append _ _ (by simp)]
    exact take32_append _ _ (by simp)
  simp only [hlen, hm, ne_eq, not_true_eq_false, or_self, if_false, hget, hi', ht, hd]
  rw [ofLe_leN32 r (by omega), ofLe_leN32 s (by omega)]
  rw [if_neg (by omega)]

variable (E) (H : HashOps)

/-- a finite-point hypothesis the abstract laws do not contain: the multiples `aG`, `0 < a < n`, are finite
    (for secp256k1: `G` has order exactly `n` and only the neutral element has no coordinates) -/
def FiniteMultiples : Prop := ∀ a, 0 < a → a < E.n → (E.xy (E.mul a E.g)).isSome = true

theorem eq_ecdsa_sign_recoverable_partial (L : EcLaws E) (hn : E.n < 2 ^ 256) (hodd : E.n % 2 = 1)
    (hp : E.p ≤ 2 ^ 256) (hfinite : FiniteMultiples E) (fuel : Nat) (msg secret : Bytes)
    (hgood : ∀ k, deterministicK H fuel E.n (ofBe secret) (ofBe msg) none = some k →
      (Spec.Ecdsa.signWith E (ofBe secret) (ofBe msg) k).isSome)
    (hsafe : recidSearchSafe E H fuel msg secret = true) :
    ecdsaSignRecoverable E H fuel msg secret = Spec.Libsecp.ecdsa_sign_recoverable E H fuel msg secret := by
  unfold ecdsaSignRecoverable
  rw [eq_ecdsa_sign_partial E H hn hodd fuel msg secret none hgood, eq_pubkey_create]
  unfold Spec.Libsecp.ecdsa_sign Spec.Libsecp.ecdsa_sign_recoverable Spec.Libsecp.ec_pubkey_create
  by_cases hm : msg.length = 32
  swap
  · simp [hm]
  simp only [hm, ne_eq, not_true_eq_false, if_false, Option.map_none, reduceCtorEq]
  cases hsk : Spec.Libsecp.seckey E secret with
  | none => rfl
  | some d =>
    have hd : d = ofBe secret ∧ 0 < d ∧ d < E.n := by
      unfold Spec.Libsecp.seckey at hsk
      split at hsk
      · rename_i hc
        exact ⟨(Option.some.inj hsk).symm, by rw [← Option.some.inj hsk]; exact hc.2.1,
          by rw [← Option.some.inj hsk]; exact hc.2.2⟩
      · cases hsk
    simp only [Option.bind_some]
    cases hsc : Spec.Libsecp.signCore E H fuel d msg none with
    | none => rfl
    | some krs =>
      obtain ⟨k, r, s⟩ := krs
      simp only [Option.map_some, Option.bind_some]
      have hsc' := hsc
      unfold Spec.Libsecp.signCore at hsc'
      obtain ⟨hk1, hk2, hsw⟩ := signAttempts_some H d (ofBe msg) _ _ k r s hsc'
      obtain ⟨xR, yR, hK, hr, hs, hr0, hs0⟩ := signWith_some d (ofBe msg) k r s hsw
      have hnpos := L.n_pos
      have hsn : s < E.n := by rw [hs]; exact Nat.mod_lt _ hnpos
      have hrn : r < E.n := by rw [hr]; exact Nat.mod_lt _ hnpos
      -- the safe region
      unfold recidSearchSafe at hsafe
      rw [← hd.1, hsc] at hsafe
      simp only [hK, Bool.and_eq_true, decide_eq_true_eq, Bool.or_eq_true, bne_iff_ne, ne_eq] at hsafe
      obtain ⟨hxn, hsafe2⟩ := hsafe
      -- the signer's public key is finite
      have hfd := hfinite d hd.2.1 hd.2.2
      cases hpub : Spec.Libsecp.pubkeyStruct E (E.mul d E.g) with
      | none =>
        exfalso
        unfold Spec.Libsecp.pubkeyStruct at hpub
        cases hx : E.xy (E.mul d E.g) with
        | none => rw [hx] at hfd; cases hfd
        | some _ => rw [hx] at hpub; cases hpub
      | some pubb =>
        simp only [hK, Option.map_some]
        have hs'n := normalizeS_lt (E := E) s hs0 hsn
        have hrec : ∀ i, i ≤ 3 →
            ecdsaRecover E (Spec.Libsecp.sigStruct r (Spec.Ecdsa.normalizeS E s) ++ [UInt8.ofNat i]) msg
              = (Spec.Libsecp.recoverPoint E r (Spec.Ecdsa.normalizeS E s) (ofBe msg) i).bind
                  (Spec.Libsecp.pubkeyStruct E) := by
          intro i hi
          rw [eq_ecdsa_recover E L (by omega) hp,
            contract_recover_struct (E := E) (by omega) r _ i hrn hs'n hi msg hm]
        have hright := recover_right L k d (ofBe msg) xR yR r s ⟨by omega, hk2⟩ hK hxn hr
          (by rw [hs, Nat.mul_comm r d]) hr0 hs0 hfd
        have ht01 : nonceRecid E xR yR s = 0 ∨ nonceRecid E xR yR s = 1 := by
          unfold nonceRecid
          have h1 : ¬ xR ≥ E.n := by omega
          simp only [h1, if_false, Nat.zero_add]
          have : yR % 2 = 0 ∨ yR % 2 = 1 := by omega
          rcases this with h | h <;> rw [h] <;> split <;> simp
        show recidSearch E _ msg pubb [0, 1, 2, 3] = some (_ ++ [UInt8.ofNat (nonceRecid E xR yR s)])
        rcases ht01 with ht | ht
        · rw [ht] at hright ⊢
          simp only [recidSearch]
          rw [hrec 0 (by omega), hright]
          simp only [Option.bind_some, hpub, if_true]
        · rw [ht] at hright ⊢
          have hsafe3 : (2 * ofBe msg + r * d) % E.n ≠ 0 := by
            rcases hsafe2 with h | h
            · exact absurd ht h
            · exact h
          obtain ⟨e, he, hed, hefin, hwrong⟩ := recover_wrong L hodd k d (ofBe msg) xR yR r s ⟨by omega, hk2⟩
            hd.2.2 hK hxn hr (by rw [hs, Nat.mul_comm r d]) hr0 hs0 ht hsafe3 hfinite
          simp only [recidSearch]
          rw [hrec 0 (by omega), hwrong]
          simp only [Option.bind_some]
          cases hq0 : Spec.Libsecp.pubkeyStruct E (E.mul e E.g) with
          | none =>
            exfalso
            unfold Spec.Libsecp.pubkeyStruct at hq0
            cases hx : E.xy (E.mul e E.g) with
            | none => rw [hx] at hefin; cases hefin
            | some _ => rw [hx] at hq0; cases hq0
          | some q0 =>
            have hne : q0 ≠ pubb := by
              intro h
              rw [h] at hq0
              exact hed (pubkeyStruct_inj L hp e d he hd.2.2 pubb hq0 hpub)
            simp only [hne, if_false]
            rw [hrec 1 (by omega), hright]
            simp only [Option.bind_some, hpub, if_true]

end Embit
