import EmbitModel.Proofs.PsbtLossless
import EmbitModel.Model.ViewWrite
/-
  C05Y helpers (1/2): what `read_value` (KEEP_ALL) does for each key type, and the invariant `Canon` of scope
  objects that were read from bytes: every typed field re-encodes to something its own reader accepts, keys of the
  dict-valued fields are valid and pairwise different, `unknown` holds only keys no typed field is written under.
  `Canon` is kept by `read_value` (every reader mode), by `update` (merging another canonical scope) and by
  `clear_metadata`. It says nothing about the two attributes of the memory-saving reader (`_utxo`, `_txhash`), which
  are never written: `InScope.NoHidden` / `InScope.erase` track those.
-/
set_option linter.unusedSimpArgs false
set_option linter.unusedVariables false
namespace Embit
open Model

/-! ### one step of `InputScope.read_value` per key type (KEEP_ALL) -/

section perKeyIn
variable (ko : KeyOps) (sha : Bytes → Bytes) (s s' : InScope) (kr v : Bytes)

theorem InScope.addPair_00 (h : InScope.addPair ko sha 0 s (0x00 :: kr) v = some s') :
    kr = [] ∧ s.nonWitnessUtxo = none ∧ ∃ t, Tx.parse v = some t ∧ s' = { s with nonWitnessUtxo := some t } := by
  simp [InScope.addPair] at h
  obtain ⟨a, b, _, c⟩ := h
  cases ht : Tx.parse v with
  | none => rw [ht] at c; simp at c
  | some t => rw [ht] at c; simp at c; exact ⟨a, b, t, rfl, c.symm⟩

theorem InScope.addPair_01 (h : InScope.addPair ko sha 0 s (0x01 :: kr) v = some s') :
    kr = [] ∧ s.witnessUtxo = none ∧ ∃ o, parseAll TxOut.read v = some o ∧ s' = { s with witnessUtxo := some o } := by
  simp [InScope.addPair] at h
  obtain ⟨a, b, c⟩ := h
  cases ht : parseAll TxOut.read v with
  | none => rw [ht] at c; simp at c
  | some t => rw [ht] at c; simp at c; exact ⟨a, b, t, rfl, c.symm⟩

theorem InScope.addPair_02 (h : InScope.addPair ko sha 0 s (0x02 :: kr) v = some s') :
    ko.validSec kr = true ∧ lookup kr s.partialSigs = none
      ∧ s' = { s with partialSigs := s.partialSigs ++ [(kr, v)] } := by
  simp [InScope.addPair] at h
  exact ⟨h.1, h.2.1, h.2.2.symm⟩

theorem InScope.addPair_03 (h : InScope.addPair ko sha 0 s (0x03 :: kr) v = some s') :
    kr = [] ∧ s.sighashType = none ∧ v.length = 4 ∧ s' = { s with sighashType := some (ofLe v) } := by
  simp [InScope.addPair] at h
  exact ⟨h.1, h.2.1, h.2.2.1, h.2.2.2.symm⟩

theorem InScope.addPair_04 (h : InScope.addPair ko sha 0 s (0x04 :: kr) v = some s') :
    kr = [] ∧ s.redeemScript = none ∧ s' = { s with redeemScript := some v } := by
  simp [InScope.addPair] at h
  exact ⟨h.1, h.2.1, h.2.2.symm⟩

theorem InScope.addPair_05 (h : InScope.addPair ko sha 0 s (0x05 :: kr) v = some s') :
    kr = [] ∧ s.witnessScript = none ∧ s' = { s with witnessScript := some v } := by
  simp [InScope.addPair] at h
  exact ⟨h.1, h.2.1, h.2.2.symm⟩

theorem InScope.addPair_06 (h : InScope.addPair ko sha 0 s (0x06 :: kr) v = some s') :
    ko.validSec kr = true ∧ lookup kr s.bip32 = none
      ∧ ∃ d, Deriv.parse v = some d ∧ s' = { s with bip32 := s.bip32 ++ [(kr, d)] } := by
  simp [InScope.addPair] at h
  obtain ⟨a, b, c⟩ := h
  cases ht : Deriv.parse v with
  | none => rw [ht] at c; simp at c
  | some t => rw [ht] at c; simp at c; exact ⟨a, b, t, rfl, c.symm⟩

theorem InScope.addPair_07 (h : InScope.addPair ko sha 0 s (0x07 :: kr) v = some s') :
    kr = [] ∧ s.finalScriptSig = none ∧ s' = { s with finalScriptSig := some v } := by
  simp [InScope.addPair] at h
  exact ⟨h.1, h.2.1, h.2.2.symm⟩

theorem InScope.addPair_08 (h : InScope.addPair ko sha 0 s (0x08 :: kr) v = some s') :
    kr = [] ∧ s.finalWitness = none
      ∧ ∃ w, parseAll witnessRead v = some w ∧ s' = { s with finalWitness := some w } := by
  simp [InScope.addPair] at h
  obtain ⟨a, b, c⟩ := h
  cases ht : parseAll witnessRead v with
  | none => rw [ht] at c; simp at c
  | some t => rw [ht] at c; simp at c; exact ⟨a, b, t, rfl, c.symm⟩

theorem InScope.addPair_0e (h : InScope.addPair ko sha 0 s [0x0e] v = some s') :
    s.txid = none ∧ v.length = 32 ∧ s' = { s with txid := some v.reverse } := by
  simp [InScope.addPair] at h
  exact ⟨h.1, h.2.1, h.2.2.symm⟩

theorem InScope.addPair_0f (h : InScope.addPair ko sha 0 s [0x0f] v = some s') :
    s.vout = none ∧ v.length = 4 ∧ s' = { s with vout := some (ofLe v) } := by
  simp [InScope.addPair] at h
  exact ⟨h.1, h.2.1, h.2.2.symm⟩

theorem InScope.addPair_10 (h : InScope.addPair ko sha 0 s [0x10] v = some s') :
    s.sequence = none ∧ v.length = 4 ∧ s' = { s with sequence := some (ofLe v) } := by
  simp [InScope.addPair] at h
  exact ⟨h.1, h.2.1, h.2.2.symm⟩

theorem InScope.addPair_14 (h : InScope.addPair ko sha 0 s (0x14 :: kr) v = some s') :
    kr.length = 64 ∧ ko.validX (kr.take 32) = true ∧ lookup kr s.tapSigs = none
      ∧ s' = { s with tapSigs := s.tapSigs ++ [(kr, v)] } := by
  simp [InScope.addPair] at h
  exact ⟨h.1, h.2.1, h.2.2.1, h.2.2.2.symm⟩

theorem InScope.addPair_15 (h : InScope.addPair ko sha 0 s (0x15 :: kr) v = some s') :
    lookup kr s.tapScripts = none ∧ s' = { s with tapScripts := s.tapScripts ++ [(kr, v)] } := by
  simp [InScope.addPair] at h
  exact ⟨h.1, h.2.symm⟩

theorem InScope.addPair_16 (h : InScope.addPair ko sha 0 s (0x16 :: kr) v = some s') :
    kr.length = 32 ∧ ko.validX kr = true ∧ lookup kr s.tapBip32 = none
      ∧ ∃ x, tapDerivParse v = some x ∧ s' = { s with tapBip32 := s.tapBip32 ++ [(kr, x)] } := by
  simp [InScope.addPair] at h
  obtain ⟨a, b, c, d⟩ := h
  cases ht : tapDerivParse v with
  | none => rw [ht] at d; simp at d
  | some t => rw [ht] at d; simp at d; exact ⟨a, b, c, t, rfl, d.symm⟩

theorem InScope.addPair_17 (h : InScope.addPair ko sha 0 s (0x17 :: kr) v = some s') :
    kr = [] ∧ s.tapInternalKey = none ∧ v.length = 32 ∧ ko.validX v = true
      ∧ s' = { s with tapInternalKey := some v } := by
  simp [InScope.addPair] at h
  exact ⟨h.1, h.2.1, h.2.2.1, h.2.2.2.1, h.2.2.2.2.symm⟩

theorem InScope.addPair_18 (h : InScope.addPair ko sha 0 s (0x18 :: kr) v = some s') :
    kr = [] ∧ s.tapMerkleRoot = none ∧ s' = { s with tapMerkleRoot := some v } := by
  simp [InScope.addPair] at h
  exact ⟨h.1, h.2.1, h.2.2.symm⟩

end perKeyIn

/-- a key no typed input field is read from or written under -/
def UnkKeyIn (k : Bytes) : Prop := ∃ k0 kr, k = k0 :: kr ∧ typedIn k0 = false ∧ txFieldKey k = false

theorem InScope.addPair_unknown_canon (ko : KeyOps) (sha : Bytes → Bytes) (s s' : InScope) (k0 : UInt8) (kr v : Bytes)
    (ht : typedIn k0 = false) (hx : txFieldKey (k0 :: kr) = false)
    (h : InScope.addPair ko sha 0 s (k0 :: kr) v = some s') :
    lookup (k0 :: kr) s.unknown = none ∧ s' = { s with unknown := s.unknown ++ [(k0 :: kr, v)] } := by
  simp only [typedIn, Bool.or_eq_false_iff, beq_eq_false_iff_ne, ne_eq] at ht
  simp only [txFieldKey, Bool.or_eq_false_iff, beq_eq_false_iff_ne, ne_eq] at hx
  obtain ⟨⟨⟨⟨⟨⟨⟨⟨⟨⟨⟨⟨⟨t0, t1⟩, t2⟩, t3⟩, t4⟩, t5⟩, t6⟩, t7⟩, t8⟩, t14⟩, t15⟩, t16⟩, t17⟩, t18⟩ := ht
  obtain ⟨⟨x1, x2⟩, x3⟩ := hx
  simp only [InScope.addPair, t0, t1, t2, t3, t4, t5, t6, t7, t8, t14, t15, t16, t17, t18, x1, x2, x3, if_false] at h
  split at h
  · simp at h
  · rename_i hl
    simp at h
    refine ⟨?_, h.symm⟩
    cases hh : lookup (k0 :: kr) s.unknown with
    | none => rfl
    | some y => rw [hh] at hl; simp at hl

/-! ### dict-valued fields -/

/-- every entry satisfies `P` and no key occurs twice -/
def DictOK {β : Type} (P : Bytes → β → Prop) (l : List (Bytes × β)) : Prop :=
  (∀ x ∈ l, P x.1 x.2) ∧ (l.map Prod.fst).Nodup

theorem DictOK.nil {β : Type} (P : Bytes → β → Prop) : DictOK P ([] : List (Bytes × β)) := by
  simp [DictOK]

theorem lookup_eq_none_iff_c {β : Type} (k : Bytes) (l : List (Bytes × β)) :
    lookup k l = none ↔ ∀ p ∈ l, p.1 ≠ k := by
  rw [← lookup_none_iff]
  cases lookup k l <;> simp

theorem DictOK.snoc {β : Type} {P : Bytes → β → Prop} {l : List (Bytes × β)} (h : DictOK P l) (k : Bytes) (v : β)
    (hn : lookup k l = none) (hp : P k v) : DictOK P (l ++ [(k, v)]) := by
  refine ⟨?_, ?_⟩
  · intro x hx
    rcases List.mem_append.mp hx with hx | hx
    · exact h.1 x hx
    · simp at hx; subst hx; exact hp
  · simp only [List.map_append, List.map_cons, List.map_nil]
    rw [List.nodup_append]
    refine ⟨h.2, by simp, ?_⟩
    intro a ha b hb
    simp at hb
    simp at ha
    obtain ⟨w, hw⟩ := ha
    intro e
    exact (lookup_eq_none_iff_c k l).mp hn (a, w) hw (e.trans hb)

theorem mem_setKey {β : Type} (k : Bytes) (v : β) : ∀ (l : List (Bytes × β)) (x : Bytes × β),
    x ∈ setKey k v l → x = (k, v) ∨ x ∈ l := by
  intro l
  induction l with
  | nil => intro x hx; simp [setKey] at hx; exact Or.inl hx
  | cons y ys ih =>
    intro x hx
    obtain ⟨k', v'⟩ := y
    simp only [setKey] at hx
    split at hx
    · rename_i hk
      simp at hx
      rcases hx with hx | hx
      · left; rw [hx, hk]
      · right; simp [hx]
    · simp at hx
      rcases hx with hx | hx
      · right; simp [hx]
      · rcases ih x hx with e | e
        · exact Or.inl e
        · right; simp [e]

theorem keys_setKey {β : Type} (k : Bytes) (v : β) : ∀ (l : List (Bytes × β)),
    (setKey k v l).map Prod.fst = if k ∈ l.map Prod.fst then l.map Prod.fst else l.map Prod.fst ++ [k] := by
  intro l
  induction l with
  | nil => simp [setKey]
  | cons y ys ih =>
    obtain ⟨k', v'⟩ := y
    simp only [setKey]
    by_cases hk : k = k'
    · simp [hk]
    · simp only [hk, if_false, List.map_cons, ih]
      have : ¬ k' = k := fun e => hk e.symm
      by_cases hm : k ∈ ys.map Prod.fst
      · simp [hm]
      · simp [hm, hk]

theorem DictOK.setKey {β : Type} {P : Bytes → β → Prop} {l : List (Bytes × β)} (h : DictOK P l) (k : Bytes) (v : β)
    (hp : P k v) : DictOK P (setKey k v l) := by
  refine ⟨?_, ?_⟩
  · intro x hx
    rcases mem_setKey k v l x hx with e | e
    · subst e; exact hp
    · exact h.1 x e
  · rw [keys_setKey]
    split
    · exact h.2
    · rename_i hm
      rw [List.nodup_append]
      refine ⟨h.2, by simp, ?_⟩
      intro a ha b hb
      simp at hb
      intro e; rw [e, hb] at ha; exact hm ha

theorem DictOK.dictUpdate {β : Type} {P : Bytes → β → Prop} {a b : List (Bytes × β)} (ha : DictOK P a)
    (hb : ∀ x ∈ b, P x.1 x.2) : DictOK P (dictUpdate a b) := by
  unfold Model.dictUpdate
  induction b generalizing a with
  | nil => simpa using ha
  | cons x xs ih =>
    simp only [List.foldl_cons]
    exact ih (ha.setKey x.1 x.2 (hb x (by simp))) (fun y hy => hb y (by simp [hy]))

/-! ### the invariant for input scopes -/

structure InScope.Canon (ko : KeyOps) (s : InScope) : Prop where
  nwu : ∀ t, s.nonWitnessUtxo = some t → Tx.parse (Tx.ser t) = some t ∧ (Tx.ser t).length < 2^64
  wu : ∀ o, s.witnessUtxo = some o → parseAll TxOut.read (TxOut.ser o) = some o ∧ (TxOut.ser o).length < 2^64
  verified : s.verified = false
  psigs : DictOK (fun k v => ko.validSec k = true ∧ k.length + 1 < 2^64 ∧ v.length < 2^64) s.partialSigs
  sighash : ∀ n, s.sighashType = some n → n < 2^32
  redeem : ∀ r, s.redeemScript = some r → r.length < 2^64
  witness : ∀ r, s.witnessScript = some r → r.length < 2^64
  bip32 : DictOK (fun k d => ko.validSec k = true ∧ k.length + 1 < 2^64 ∧ Deriv.parse (Deriv.ser d) = some d
            ∧ (Deriv.ser d).length < 2^64) s.bip32
  fss : ∀ r, s.finalScriptSig = some r → r.length < 2^64
  fw : ∀ w, s.finalWitness = some w → parseAll witnessRead (witnessSer w) = some w ∧ (witnessSer w).length < 2^64
  txid : ∀ t, s.txid = some t → t.length = 32
  vout : ∀ n, s.vout = some n → n < 2^32
  seq : ∀ n, s.sequence = some n → n < 2^32
  tapSigs : DictOK (fun k v => k.length = 64 ∧ ko.validX (k.take 32) = true ∧ v.length < 2^64) s.tapSigs
  tapScripts : DictOK (fun k v => k.length + 1 < 2^64 ∧ v.length < 2^64) s.tapScripts
  tapBip32 : DictOK (fun k x => k.length = 32 ∧ ko.validX k = true ∧ tapDerivParse (tapDerivSer x) = some x
            ∧ (tapDerivSer x).length < 2^64) s.tapBip32
  tik : ∀ k, s.tapInternalKey = some k → k.length = 32 ∧ ko.validX k = true
  tmr : ∀ r, s.tapMerkleRoot = some r → r.length < 2^64
  unk : DictOK (fun k v => UnkKeyIn k ∧ k.length < 2^64 ∧ v.length < 2^64) s.unknown

theorem ofLe_lt4_c {v : Bytes} (h : v.length = 4) : ofLe v < 2^32 := by
  have := ofLe_lt v; rw [h] at this; exact this

/-- `read_value` keeps the invariant -/
theorem InScope.addPair_canon (ko : KeyOps) (sha : Bytes → Bytes) (s s' : InScope) (k v : Bytes)
    (hc : InScope.Canon ko s) (hw : KVWF (k, v)) (h : InScope.addPair ko sha 0 s k v = some s') :
    InScope.Canon ko s' := by
  obtain ⟨hk, hkl, hvl⟩ := hw
  simp only [] at hk hkl hvl
  rcases k with _ | ⟨k0, kr⟩
  · exact absurd rfl hk
  have hkl' : kr.length + 1 < 2^64 := by simpa using hkl
  by_cases c00 : k0 = 0x00
  · subst c00
    obtain ⟨rfl, _, t, ht, rfl⟩ := InScope.addPair_00 ko sha s s' kr v h
    have e := Props.C03.reencode v t ht
    have hn : ∀ t', (some t : Option Tx) = some t' → Tx.parse (Tx.ser t') = some t' ∧ (Tx.ser t').length < 2^64 := by
      intro t' ht'; simp at ht'; subst ht'; rw [e]; exact ⟨ht, hvl⟩
    exact { hc with nwu := hn }
  by_cases c01 : k0 = 0x01
  · subst c01
    obtain ⟨rfl, _, o, ho, rfl⟩ := InScope.addPair_01 ko sha s s' kr v h
    have e := parseAll_TxOut_ser ho
    have hn : ∀ o', (some o : Option TxOut) = some o' →
        parseAll TxOut.read (TxOut.ser o') = some o' ∧ (TxOut.ser o').length < 2^64 := by
      intro o' ho'; simp at ho'; subst ho'; rw [e]; exact ⟨ho, hvl⟩
    exact { hc with wu := hn }
  by_cases c02 : k0 = 0x02
  · subst c02
    obtain ⟨a, b, rfl⟩ := InScope.addPair_02 ko sha s s' kr v h
    exact { hc with psigs := hc.psigs.snoc kr v b ⟨a, hkl', hvl⟩ }
  by_cases c03 : k0 = 0x03
  · subst c03
    obtain ⟨rfl, _, l4, rfl⟩ := InScope.addPair_03 ko sha s s' kr v h
    exact { hc with sighash := fun n hn => by simp at hn; subst hn; exact ofLe_lt4_c l4 }
  by_cases c04 : k0 = 0x04
  · subst c04
    obtain ⟨rfl, _, rfl⟩ := InScope.addPair_04 ko sha s s' kr v h
    exact { hc with redeem := fun r hr => by simp at hr; subst hr; exact hvl }
  by_cases c05 : k0 = 0x05
  · subst c05
    obtain ⟨rfl, _, rfl⟩ := InScope.addPair_05 ko sha s s' kr v h
    exact { hc with witness := fun r hr => by simp at hr; subst hr; exact hvl }
  by_cases c06 : k0 = 0x06
  · subst c06
    obtain ⟨a, b, d, hd, rfl⟩ := InScope.addPair_06 ko sha s s' kr v h
    have e := Deriv.ser_parse hd
    exact { hc with bip32 := hc.bip32.snoc kr d b ⟨a, hkl', by rw [e]; exact hd, by rw [e]; exact hvl⟩ }
  by_cases c07 : k0 = 0x07
  · subst c07
    obtain ⟨rfl, _, rfl⟩ := InScope.addPair_07 ko sha s s' kr v h
    exact { hc with fss := fun r hr => by simp at hr; subst hr; exact hvl }
  by_cases c08 : k0 = 0x08
  · subst c08
    obtain ⟨rfl, _, w, hw', rfl⟩ := InScope.addPair_08 ko sha s s' kr v h
    have e := parseAll_witness_ser hw'
    have hn : ∀ w', (some w : Option (List Bytes)) = some w' →
        parseAll witnessRead (witnessSer w') = some w' ∧ (witnessSer w').length < 2^64 := by
      intro w' hw''; simp at hw''; subst hw''; rw [e]; exact ⟨hw', hvl⟩
    exact { hc with fw := hn }
  by_cases c0e : k0 :: kr = [0x0e]
  · rw [c0e] at h
    obtain ⟨_, l, rfl⟩ := InScope.addPair_0e ko sha s s' v h
    exact { hc with txid := fun t ht => by simp at ht; subst ht; simpa using l }
  by_cases c0f : k0 :: kr = [0x0f]
  · rw [c0f] at h
    obtain ⟨_, l, rfl⟩ := InScope.addPair_0f ko sha s s' v h
    exact { hc with vout := fun n hn => by simp at hn; subst hn; exact ofLe_lt4_c l }
  by_cases c10 : k0 :: kr = [0x10]
  · rw [c10] at h
    obtain ⟨_, l, rfl⟩ := InScope.addPair_10 ko sha s s' v h
    exact { hc with seq := fun n hn => by simp at hn; subst hn; exact ofLe_lt4_c l }
  by_cases c14 : k0 = 0x14
  · subst c14
    obtain ⟨a, b, c, rfl⟩ := InScope.addPair_14 ko sha s s' kr v h
    exact { hc with tapSigs := hc.tapSigs.snoc kr v c ⟨a, b, hvl⟩ }
  by_cases c15 : k0 = 0x15
  · subst c15
    obtain ⟨a, rfl⟩ := InScope.addPair_15 ko sha s s' kr v h
    exact { hc with tapScripts := hc.tapScripts.snoc kr v a ⟨hkl', hvl⟩ }
  by_cases c16 : k0 = 0x16
  · subst c16
    obtain ⟨a, b, c, x, hx, rfl⟩ := InScope.addPair_16 ko sha s s' kr v h
    have e := tapDeriv_ser_parse hx
    exact { hc with tapBip32 := hc.tapBip32.snoc kr x c ⟨a, b, by rw [e]; exact hx, by rw [e]; exact hvl⟩ }
  by_cases c17 : k0 = 0x17
  · subst c17
    obtain ⟨rfl, _, a, b, rfl⟩ := InScope.addPair_17 ko sha s s' kr v h
    exact { hc with tik := fun k hk' => by simp at hk'; subst hk'; exact ⟨a, b⟩ }
  by_cases c18 : k0 = 0x18
  · subst c18
    obtain ⟨rfl, _, rfl⟩ := InScope.addPair_18 ko sha s s' kr v h
    exact { hc with tmr := fun r hr => by simp at hr; subst hr; exact hvl }
  have ht : typedIn k0 = false := by
    simp [typedIn, c00, c01, c02, c03, c04, c05, c06, c07, c08, c14, c15, c16, c17, c18]
  have hx : txFieldKey (k0 :: kr) = false := by
    simp only [txFieldKey, Bool.or_eq_false_iff, beq_eq_false_iff_ne, ne_eq]
    exact ⟨⟨c0e, c0f⟩, c10⟩
  obtain ⟨a, rfl⟩ := InScope.addPair_unknown_canon ko sha s s' k0 kr v ht hx h
  exact { hc with unk := hc.unk.snoc (k0 :: kr) v a ⟨⟨k0, kr, rfl, ht, hx⟩, hkl, hvl⟩ }

theorem InScope.addPairs_canon (ko : KeyOps) (sha : Bytes → Bytes) :
    ∀ (kvs : List KV) (s s' : InScope), InScope.Canon ko s → (∀ kv ∈ kvs, KVWF kv) →
      InScope.addPairs ko sha 0 s kvs = some s' → InScope.Canon ko s' := by
  intro kvs
  induction kvs with
  | nil => intro s s' hc _ h; simp [InScope.addPairs] at h; subst h; exact hc
  | cons kv kvs ih =>
    intro s s' hc hw h
    obtain ⟨k, v⟩ := kv
    simp only [InScope.addPairs] at h
    split at h
    · simp at h
    · rename_i s1 h1
      exact ih s1 s' (InScope.addPair_canon ko sha s s1 k v hc (hw (k, v) (by simp)) h1)
        (fun x hx => hw x (by simp [hx])) h

/-! ### the attributes of the memory-saving reader, and the other reader modes -/

def InScope.NoHidden (s : InScope) : Prop := s.utxoS = none ∧ s.txhash = none

theorem InScope.erase_of_noHidden (s : InScope) (h : InScope.NoHidden s) : s.erase = s := by
  obtain ⟨h1, h2⟩ := h
  cases s; simp_all [InScope.erase]

theorem InScope.erase_canon (ko : KeyOps) (s : InScope) (h : InScope.Canon ko s) : InScope.Canon ko s.erase :=
  { h with }

theorem InScope.pairs_erase (ver : Option Nat) (s : InScope) : s.erase.pairs ver = s.pairs ver := rfl

/-- outside the four key types whose handling depends on the mode (00: streamed previous transaction; 02, 07, 08:
    skipped), `read_value` does the same in every mode -/
theorem InScope.addPair_eq_mode0 (ko : KeyOps) (sha : Bytes → Bytes) (c : Nat) (s : InScope) (k0 : UInt8) (kr v : Bytes)
    (h0 : k0 ≠ 0x00) (h2 : k0 ≠ 0x02) (h7 : k0 ≠ 0x07) (h8 : k0 ≠ 0x08) :
    InScope.addPair ko sha c s (k0 :: kr) v = InScope.addPair ko sha 0 s (k0 :: kr) v := by
  simp only [InScope.addPair, h0, h2, h7, h8, if_false]

/-- KEEP_ALL never touches `_utxo` / `_txhash` -/
theorem InScope.addPair_hidden0 (ko : KeyOps) (sha : Bytes → Bytes) (s s' : InScope) (k v : Bytes) (hk : k ≠ [])
    (h : InScope.addPair ko sha 0 s k v = some s') : s'.utxoS = s.utxoS ∧ s'.txhash = s.txhash := by
  rcases k with _ | ⟨k0, kr⟩
  · exact absurd rfl hk
  by_cases c00 : k0 = 0x00
  · subst c00; obtain ⟨_, _, t, _, rfl⟩ := InScope.addPair_00 ko sha s s' kr v h; exact ⟨rfl, rfl⟩
  by_cases c01 : k0 = 0x01
  · subst c01; obtain ⟨_, _, o, _, rfl⟩ := InScope.addPair_01 ko sha s s' kr v h; exact ⟨rfl, rfl⟩
  by_cases c02 : k0 = 0x02
  · subst c02; obtain ⟨_, _, rfl⟩ := InScope.addPair_02 ko sha s s' kr v h; exact ⟨rfl, rfl⟩
  by_cases c03 : k0 = 0x03
  · subst c03; obtain ⟨_, _, _, rfl⟩ := InScope.addPair_03 ko sha s s' kr v h; exact ⟨rfl, rfl⟩
  by_cases c04 : k0 = 0x04
  · subst c04; obtain ⟨_, _, rfl⟩ := InScope.addPair_04 ko sha s s' kr v h; exact ⟨rfl, rfl⟩
  by_cases c05 : k0 = 0x05
  · subst c05; obtain ⟨_, _, rfl⟩ := InScope.addPair_05 ko sha s s' kr v h; exact ⟨rfl, rfl⟩
  by_cases c06 : k0 = 0x06
  · subst c06; obtain ⟨_, _, d, _, rfl⟩ := InScope.addPair_06 ko sha s s' kr v h; exact ⟨rfl, rfl⟩
  by_cases c07 : k0 = 0x07
  · subst c07; obtain ⟨_, _, rfl⟩ := InScope.addPair_07 ko sha s s' kr v h; exact ⟨rfl, rfl⟩
  by_cases c08 : k0 = 0x08
  · subst c08; obtain ⟨_, _, w, _, rfl⟩ := InScope.addPair_08 ko sha s s' kr v h; exact ⟨rfl, rfl⟩
  by_cases c0e : k0 :: kr = [0x0e]
  · rw [c0e] at h; obtain ⟨_, _, rfl⟩ := InScope.addPair_0e ko sha s s' v h; exact ⟨rfl, rfl⟩
  by_cases c0f : k0 :: kr = [0x0f]
  · rw [c0f] at h; obtain ⟨_, _, rfl⟩ := InScope.addPair_0f ko sha s s' v h; exact ⟨rfl, rfl⟩
  by_cases c10 : k0 :: kr = [0x10]
  · rw [c10] at h; obtain ⟨_, _, rfl⟩ := InScope.addPair_10 ko sha s s' v h; exact ⟨rfl, rfl⟩
  by_cases c14 : k0 = 0x14
  · subst c14; obtain ⟨_, _, _, rfl⟩ := InScope.addPair_14 ko sha s s' kr v h; exact ⟨rfl, rfl⟩
  by_cases c15 : k0 = 0x15
  · subst c15; obtain ⟨_, rfl⟩ := InScope.addPair_15 ko sha s s' kr v h; exact ⟨rfl, rfl⟩
  by_cases c16 : k0 = 0x16
  · subst c16; obtain ⟨_, _, _, x, _, rfl⟩ := InScope.addPair_16 ko sha s s' kr v h; exact ⟨rfl, rfl⟩
  by_cases c17 : k0 = 0x17
  · subst c17; obtain ⟨_, _, _, _, rfl⟩ := InScope.addPair_17 ko sha s s' kr v h; exact ⟨rfl, rfl⟩
  by_cases c18 : k0 = 0x18
  · subst c18; obtain ⟨_, _, rfl⟩ := InScope.addPair_18 ko sha s s' kr v h; exact ⟨rfl, rfl⟩
  have ht : typedIn k0 = false := by
    simp [typedIn, c00, c01, c02, c03, c04, c05, c06, c07, c08, c14, c15, c16, c17, c18]
  have hx : txFieldKey (k0 :: kr) = false := by
    simp only [txFieldKey, Bool.or_eq_false_iff, beq_eq_false_iff_ne, ne_eq]
    exact ⟨⟨c0e, c0f⟩, c10⟩
  obtain ⟨_, rfl⟩ := InScope.addPair_unknown_canon ko sha s s' k0 kr v ht hx h
  exact ⟨rfl, rfl⟩

theorem InScope.addPairs_hidden0 (ko : KeyOps) (sha : Bytes → Bytes) :
    ∀ (kvs : List KV) (s s' : InScope), (∀ kv ∈ kvs, kv.1 ≠ []) → InScope.addPairs ko sha 0 s kvs = some s' →
      s'.utxoS = s.utxoS ∧ s'.txhash = s.txhash := by
  intro kvs
  induction kvs with
  | nil => intro s s' _ h; simp [InScope.addPairs] at h; subst h; exact ⟨rfl, rfl⟩
  | cons kv kvs ih =>
    intro s s' hne h
    obtain ⟨k, v⟩ := kv
    simp only [InScope.addPairs] at h
    split at h
    · simp at h
    · rename_i s1 h1
      obtain ⟨a1, a2⟩ := InScope.addPair_hidden0 ko sha s s1 k v (hne (k, v) (by simp)) h1
      obtain ⟨b1, b2⟩ := ih s1 s' (fun x hx => hne x (by simp [hx])) h
      exact ⟨b1.trans a1, b2.trans a2⟩

/-- `read_value` keeps the invariant in every reader mode -/
theorem InScope.addPair_canon_mode (ko : KeyOps) (sha : Bytes → Bytes) (c : Nat) (s s' : InScope) (k v : Bytes)
    (hc : InScope.Canon ko s) (hw : KVWF (k, v)) (h : InScope.addPair ko sha c s k v = some s') :
    InScope.Canon ko s' := by
  by_cases hc0 : c = 0
  · subst hc0; exact InScope.addPair_canon ko sha s s' k v hc hw h
  have hk := hw.1
  simp only [] at hk
  rcases k with _ | ⟨k0, kr⟩
  · exact absurd rfl hk
  by_cases c00 : k0 = 0x00
  · subst c00
    simp only [InScope.addPair] at h
    simp [hc0] at h
    obtain ⟨rfl, hn, _, h⟩ := h
    split at h
    · -- streamed: only `_utxo` / `_txhash` are set
      cases hr : readVoutAll sha v (s.vout.getD 0) with
      | none => rw [hr] at h; simp at h
      | some r =>
        obtain ⟨o, hh⟩ := r
        rw [hr] at h; simp at h; subst h
        exact { hc with }
    · -- no outpoint yet: the whole previous transaction is parsed, as in KEEP_ALL
      cases ht : Tx.parse v with
      | none => rw [ht] at h; simp at h
      | some t =>
        rw [ht] at h; simp at h; subst h
        have e := Props.C03.reencode v t ht
        have hnw : ∀ t', (some t : Option Tx) = some t' → Tx.parse (Tx.ser t') = some t' ∧ (Tx.ser t').length < 2^64 := by
          intro t' ht'; simp at ht'; subst ht'; rw [e]; exact ⟨ht, hw.2.2⟩
        exact { hc with nwu := hnw }
  by_cases c02 : k0 = 0x02
  · subst c02; simp [InScope.addPair, hc0] at h; subst h; exact hc
  by_cases c07 : k0 = 0x07
  · subst c07; simp [InScope.addPair, hc0] at h; subst h; exact hc
  by_cases c08 : k0 = 0x08
  · subst c08; simp [InScope.addPair, hc0] at h; subst h; exact hc
  rw [InScope.addPair_eq_mode0 ko sha c s k0 kr v c00 c02 c07 c08] at h
  exact InScope.addPair_canon ko sha s s' (k0 :: kr) v hc hw h

theorem InScope.addPairs_canon_mode (ko : KeyOps) (sha : Bytes → Bytes) (c : Nat) :
    ∀ (kvs : List KV) (s s' : InScope), InScope.Canon ko s → (∀ kv ∈ kvs, KVWF kv) →
      InScope.addPairs ko sha c s kvs = some s' → InScope.Canon ko s' := by
  intro kvs
  induction kvs with
  | nil => intro s s' hc _ h; simp [InScope.addPairs] at h; subst h; exact hc
  | cons kv kvs ih =>
    intro s s' hc hw h
    obtain ⟨k, v⟩ := kv
    simp only [InScope.addPairs] at h
    split at h
    · simp at h
    · rename_i s1 h1
      exact ih s1 s' (InScope.addPair_canon_mode ko sha c s s1 k v hc (hw (k, v) (by simp)) h1)
        (fun x hx => hw x (by simp [hx])) h

/-! ### merging and compressing keep the invariant -/

theorem orOpt_cases {α : Type} (t : α → Bool) (a b : Option α) (x : α) (h : orOpt t a b = some x) :
    a = some x ∨ b = some x := by
  unfold orOpt at h
  cases a with
  | none => exact Or.inr h
  | some y =>
    simp only [] at h
    split at h
    · exact Or.inl h
    · exact Or.inr h

theorem notNoneOr_cases {α : Type} (a b : Option α) (x : α) (h : notNoneOr a b = some x) :
    a = some x ∨ b = some x := by
  unfold notNoneOr at h
  cases a with
  | none => exact Or.inr h
  | some y => exact Or.inl h

/-- `InputScope.update(other)` of two canonical scopes is canonical -/
theorem InScope.update_canon (ko : KeyOps) (s o : InScope) (hs : InScope.Canon ko s) (ho : InScope.Canon ko o) :
    InScope.Canon ko (s.update o) := by
  unfold InScope.update
  refine
    { nwu := fun t h => ?_, wu := fun t h => ?_, verified := hs.verified,
      psigs := hs.psigs.dictUpdate ho.psigs.1, sighash := fun t h => ?_, redeem := fun t h => ?_,
      witness := fun t h => ?_, bip32 := hs.bip32.dictUpdate ho.bip32.1, fss := fun t h => ?_, fw := fun t h => ?_,
      txid := fun t h => ?_, vout := fun t h => ?_, seq := fun t h => ?_,
      tapSigs := hs.tapSigs.dictUpdate ho.tapSigs.1, tapScripts := hs.tapScripts.dictUpdate ho.tapScripts.1,
      tapBip32 := hs.tapBip32.dictUpdate ho.tapBip32.1, tik := fun t h => ?_, tmr := fun t h => ?_,
      unk := hs.unk.dictUpdate ho.unk.1 }
  · rcases notNoneOr_cases _ _ _ h with e | e
    · exact ho.nwu t e
    · exact hs.nwu t e
  · rcases notNoneOr_cases _ _ _ h with e | e
    · exact ho.wu t e
    · exact hs.wu t e
  · rcases notNoneOr_cases _ _ _ h with e | e
    · exact ho.sighash t e
    · exact hs.sighash t e
  · rcases orOpt_cases _ _ _ _ h with e | e
    · exact ho.redeem t e
    · exact hs.redeem t e
  · rcases orOpt_cases _ _ _ _ h with e | e
    · exact ho.witness t e
    · exact hs.witness t e
  · rcases orOpt_cases _ _ _ _ h with e | e
    · exact ho.fss t e
    · exact hs.fss t e
  · rcases orOpt_cases _ _ _ _ h with e | e
    · exact ho.fw t e
    · exact hs.fw t e
  · rcases orOpt_cases _ _ _ _ h with e | e
    · exact ho.txid t e
    · exact hs.txid t e
  · rcases notNoneOr_cases _ _ _ h with e | e
    · exact ho.vout t e
    · exact hs.vout t e
  · rcases notNoneOr_cases _ _ _ h with e | e
    · exact ho.seq t e
    · exact hs.seq t e
  · rcases notNoneOr_cases _ _ _ h with e | e
    · exact ho.tik t e
    · exact hs.tik t e
  · rcases orOpt_cases _ _ _ _ h with e | e
    · exact ho.tmr t e
    · exact hs.tmr t e

/-- `InputScope.clear_metadata(compress)` of a canonical scope is canonical -/
theorem InScope.clearMetadata_canon (ko : KeyOps) (s : InScope) (c : Nat) (hs : InScope.Canon ko s) :
    InScope.Canon ko (s.clearMetadata c) := by
  unfold InScope.clearMetadata
  by_cases h0 : c = 0
  · simp only [h0, if_true]; exact hs
  · simp only [h0, if_false]
    by_cases h1 : c = 1
    · simp only [h1, if_true]
      exact { hs with nwu := fun t h => by simp at h, wu := fun t h => by simp at h,
                      sighash := fun t h => by simp at h, redeem := fun t h => by simp at h,
                      witness := fun t h => by simp at h, bip32 := DictOK.nil _, tapBip32 := DictOK.nil _,
                      tik := fun t h => by simp at h, tmr := fun t h => by simp at h,
                      tapScripts := DictOK.nil _, unk := DictOK.nil _ }
    · simp only [h1, if_false]
      have hn : ∀ t, (if s.witnessUtxo.isSome = true then none else s.nonWitnessUtxo) = some t →
          Tx.parse (Tx.ser t) = some t ∧ (Tx.ser t).length < 2^64 := by
        intro t h
        split at h
        · simp at h
        · exact hs.nwu t h
      exact { hs with nwu := hn, bip32 := DictOK.nil _, tapBip32 := DictOK.nil _,
                      tik := fun t h => by simp at h, tmr := fun t h => by simp at h,
                      tapScripts := DictOK.nil _, unk := DictOK.nil _ }

/-- the empty scope (what `InputScope()` starts from when it reads an extra stream) -/
theorem InScope.canon_empty (ko : KeyOps) : InScope.Canon ko {} := by
  constructor <;> simp [DictOK]

/-! ### output scopes -/

section perKeyOut
variable (ko : KeyOps) (s s' : OutScope) (kr v : Bytes)

theorem OutScope.addPair_00 (h : OutScope.addPair ko s (0x00 :: kr) v = some s') :
    kr = [] ∧ s.redeemScript = none ∧ s' = { s with redeemScript := some v } := by
  simp [OutScope.addPair] at h
  exact ⟨h.1, h.2.1, h.2.2.symm⟩

theorem OutScope.addPair_01 (h : OutScope.addPair ko s (0x01 :: kr) v = some s') :
    kr = [] ∧ s.witnessScript = none ∧ s' = { s with witnessScript := some v } := by
  simp [OutScope.addPair] at h
  exact ⟨h.1, h.2.1, h.2.2.symm⟩

theorem OutScope.addPair_02 (h : OutScope.addPair ko s (0x02 :: kr) v = some s') :
    ko.validSec kr = true ∧ lookup kr s.bip32 = none
      ∧ ∃ d, Deriv.parse v = some d ∧ s' = { s with bip32 := s.bip32 ++ [(kr, d)] } := by
  simp [OutScope.addPair] at h
  obtain ⟨a, b, c⟩ := h
  cases ht : Deriv.parse v with
  | none => rw [ht] at c; simp at c
  | some t => rw [ht] at c; simp at c; exact ⟨a, b, t, rfl, c.symm⟩

theorem OutScope.addPair_03 (h : OutScope.addPair ko s [0x03] v = some s') :
    s.value = none ∧ v.length = 8 ∧ s' = { s with value := some (ofLe v) } := by
  simp [OutScope.addPair] at h
  exact ⟨h.1, h.2.1, h.2.2.symm⟩

theorem OutScope.addPair_04 (h : OutScope.addPair ko s [0x04] v = some s') :
    s.spk = none ∧ s' = { s with spk := some v } := by
  simp [OutScope.addPair] at h
  exact ⟨h.1, h.2.symm⟩

theorem OutScope.addPair_05 (h : OutScope.addPair ko s (0x05 :: kr) v = some s') :
    kr = [] ∧ s.tapInternalKey = none ∧ v.length = 32 ∧ ko.validX v = true
      ∧ s' = { s with tapInternalKey := some v } := by
  simp [OutScope.addPair] at h
  exact ⟨h.1, h.2.1, h.2.2.1, h.2.2.2.1, h.2.2.2.2.symm⟩

theorem OutScope.addPair_07 (h : OutScope.addPair ko s (0x07 :: kr) v = some s') :
    kr.length = 32 ∧ ko.validX kr = true ∧ lookup kr s.tapBip32 = none
      ∧ ∃ x, tapDerivParse v = some x ∧ s' = { s with tapBip32 := s.tapBip32 ++ [(kr, x)] } := by
  simp [OutScope.addPair] at h
  obtain ⟨a, b, c, d⟩ := h
  cases ht : tapDerivParse v with
  | none => rw [ht] at d; simp at d
  | some t => rw [ht] at d; simp at d; exact ⟨a, b, c, t, rfl, d.symm⟩

end perKeyOut

def UnkKeyOut (k : Bytes) : Prop := ∃ k0 kr, k = k0 :: kr ∧ typedOut k0 = false ∧ txFieldKeyOut k = false

theorem OutScope.addPair_unknown_canon (ko : KeyOps) (s s' : OutScope) (k0 : UInt8) (kr v : Bytes)
    (ht : typedOut k0 = false) (hx : txFieldKeyOut (k0 :: kr) = false)
    (h : OutScope.addPair ko s (k0 :: kr) v = some s') :
    lookup (k0 :: kr) s.unknown = none ∧ s' = { s with unknown := s.unknown ++ [(k0 :: kr, v)] } := by
  simp only [typedOut, Bool.or_eq_false_iff, beq_eq_false_iff_ne, ne_eq] at ht
  simp only [txFieldKeyOut, Bool.or_eq_false_iff, beq_eq_false_iff_ne, ne_eq] at hx
  obtain ⟨⟨⟨⟨t0, t1⟩, t2⟩, t5⟩, t7⟩ := ht
  obtain ⟨x1, x2⟩ := hx
  simp only [OutScope.addPair, t0, t1, t2, t5, t7, x1, x2, if_false] at h
  split at h
  · simp at h
  · rename_i hl
    simp at h
    refine ⟨?_, h.symm⟩
    cases hh : lookup (k0 :: kr) s.unknown with
    | none => rfl
    | some y => rw [hh] at hl; simp at hl

structure OutScope.Canon (ko : KeyOps) (s : OutScope) : Prop where
  redeem : ∀ r, s.redeemScript = some r → r.length < 2^64
  witness : ∀ r, s.witnessScript = some r → r.length < 2^64
  bip32 : DictOK (fun k d => ko.validSec k = true ∧ k.length + 1 < 2^64 ∧ Deriv.parse (Deriv.ser d) = some d
            ∧ (Deriv.ser d).length < 2^64) s.bip32
  value : ∀ n, s.value = some n → n < 2^64
  spk : ∀ r, s.spk = some r → r.length < 2^64
  tik : ∀ k, s.tapInternalKey = some k → k.length = 32 ∧ ko.validX k = true
  tapBip32 : DictOK (fun k x => k.length = 32 ∧ ko.validX k = true ∧ tapDerivParse (tapDerivSer x) = some x
            ∧ (tapDerivSer x).length < 2^64) s.tapBip32
  unk : DictOK (fun k v => UnkKeyOut k ∧ k.length < 2^64 ∧ v.length < 2^64) s.unknown

theorem ofLe_lt8_c {v : Bytes} (h : v.length = 8) : ofLe v < 2^64 := by
  have := ofLe_lt v; rw [h] at this; exact this

theorem OutScope.addPair_canon (ko : KeyOps) (s s' : OutScope) (k v : Bytes)
    (hc : OutScope.Canon ko s) (hw : KVWF (k, v)) (h : OutScope.addPair ko s k v = some s') :
    OutScope.Canon ko s' := by
  obtain ⟨hk, hkl, hvl⟩ := hw
  simp only [] at hk hkl hvl
  rcases k with _ | ⟨k0, kr⟩
  · exact absurd rfl hk
  have hkl' : kr.length + 1 < 2^64 := by simpa using hkl
  by_cases c00 : k0 = 0x00
  · subst c00
    obtain ⟨rfl, _, rfl⟩ := OutScope.addPair_00 ko s s' kr v h
    exact { hc with redeem := fun r hr => by simp at hr; subst hr; exact hvl }
  by_cases c01 : k0 = 0x01
  · subst c01
    obtain ⟨rfl, _, rfl⟩ := OutScope.addPair_01 ko s s' kr v h
    exact { hc with witness := fun r hr => by simp at hr; subst hr; exact hvl }
  by_cases c02 : k0 = 0x02
  · subst c02
    obtain ⟨a, b, d, hd, rfl⟩ := OutScope.addPair_02 ko s s' kr v h
    have e := Deriv.ser_parse hd
    exact { hc with bip32 := hc.bip32.snoc kr d b ⟨a, hkl', by rw [e]; exact hd, by rw [e]; exact hvl⟩ }
  by_cases c03 : k0 :: kr = [0x03]
  · rw [c03] at h
    obtain ⟨_, l, rfl⟩ := OutScope.addPair_03 ko s s' v h
    exact { hc with value := fun n hn => by simp at hn; subst hn; exact ofLe_lt8_c l }
  by_cases c04 : k0 :: kr = [0x04]
  · rw [c04] at h
    obtain ⟨_, rfl⟩ := OutScope.addPair_04 ko s s' v h
    exact { hc with spk := fun r hr => by simp at hr; subst hr; exact hvl }
  by_cases c05 : k0 = 0x05
  · subst c05
    obtain ⟨rfl, _, a, b, rfl⟩ := OutScope.addPair_05 ko s s' kr v h
    exact { hc with tik := fun k hk' => by simp at hk'; subst hk'; exact ⟨a, b⟩ }
  by_cases c07 : k0 = 0x07
  · subst c07
    obtain ⟨a, b, c, x, hx, rfl⟩ := OutScope.addPair_07 ko s s' kr v h
    have e := tapDeriv_ser_parse hx
    exact { hc with tapBip32 := hc.tapBip32.snoc kr x c ⟨a, b, by rw [e]; exact hx, by rw [e]; exact hvl⟩ }
  have ht : typedOut k0 = false := by simp [typedOut, c00, c01, c02, c05, c07]
  have hx : txFieldKeyOut (k0 :: kr) = false := by
    simp only [txFieldKeyOut, Bool.or_eq_false_iff, beq_eq_false_iff_ne, ne_eq]
    exact ⟨c03, c04⟩
  obtain ⟨a, rfl⟩ := OutScope.addPair_unknown_canon ko s s' k0 kr v ht hx h
  exact { hc with unk := hc.unk.snoc (k0 :: kr) v a ⟨⟨k0, kr, rfl, ht, hx⟩, hkl, hvl⟩ }

theorem OutScope.addPairs_canon (ko : KeyOps) :
    ∀ (kvs : List KV) (s s' : OutScope), OutScope.Canon ko s → (∀ kv ∈ kvs, KVWF kv) →
      OutScope.addPairs ko s kvs = some s' → OutScope.Canon ko s' := by
  intro kvs
  induction kvs with
  | nil => intro s s' hc _ h; simp [OutScope.addPairs] at h; subst h; exact hc
  | cons kv kvs ih =>
    intro s s' hc hw h
    obtain ⟨k, v⟩ := kv
    simp only [OutScope.addPairs] at h
    split at h
    · simp at h
    · rename_i s1 h1
      exact ih s1 s' (OutScope.addPair_canon ko s s1 k v hc (hw (k, v) (by simp)) h1)
        (fun x hx => hw x (by simp [hx])) h

theorem OutScope.update_canon (ko : KeyOps) (s o : OutScope) (hs : OutScope.Canon ko s) (ho : OutScope.Canon ko o) :
    OutScope.Canon ko (s.update o) := by
  unfold OutScope.update
  refine
    { redeem := fun t h => ?_, witness := fun t h => ?_, bip32 := hs.bip32.dictUpdate ho.bip32.1,
      value := fun t h => ?_, spk := fun t h => ?_, tik := fun t h => ?_,
      tapBip32 := hs.tapBip32.dictUpdate ho.tapBip32.1, unk := hs.unk.dictUpdate ho.unk.1 }
  · rcases orOpt_cases _ _ _ _ h with e | e
    · exact ho.redeem t e
    · exact hs.redeem t e
  · rcases orOpt_cases _ _ _ _ h with e | e
    · exact ho.witness t e
    · exact hs.witness t e
  · rcases notNoneOr_cases _ _ _ h with e | e
    · exact ho.value t e
    · exact hs.value t e
  · rcases orOpt_cases _ _ _ _ h with e | e
    · exact ho.spk t e
    · exact hs.spk t e
  · rcases notNoneOr_cases _ _ _ h with e | e
    · exact ho.tik t e
    · exact hs.tik t e

theorem OutScope.clearMetadata_canon (ko : KeyOps) (s : OutScope) (c : Nat) (hs : OutScope.Canon ko s) :
    OutScope.Canon ko (s.clearMetadata c) := by
  unfold OutScope.clearMetadata
  by_cases h0 : c = 0
  · simp only [h0, if_true]; exact hs
  · simp only [h0, if_false]
    exact { hs with redeem := fun t h => by simp at h, witness := fun t h => by simp at h,
                    bip32 := DictOK.nil _, tapBip32 := DictOK.nil _, tik := fun t h => by simp at h,
                    unk := DictOK.nil _ }

theorem OutScope.canon_empty (ko : KeyOps) : OutScope.Canon ko {} := by
  constructor <;> simp [DictOK]

end Embit
