import Mathlib.Tactic.Ring
import EmbitModel.Proofs.Slip39Rs
/-
  `Share.parse (Share.mnemonic s) = some s` for every well-formed share: bit packing into 10-bit words,
  header fields, padding, checksum.
-/
namespace Embit.Model.Slip39

theorem or_eq_add (a b i : Nat) (h : b < 2 ^ i) : (a <<< i) ||| b = a * 2 ^ i + b := by
  rw [← Nat.shiftLeft_add_eq_or_of_lt h, Nat.shiftLeft_eq]

theorem or10 (a b : Nat) (h : b < 1024) : (a <<< 10) ||| b = a * 1024 + b := or_eq_add a b 10 h

theorem and1023 (a : Nat) : a &&& 1023 = a % 1024 := by
  have := Nat.and_two_pow_sub_one_eq_mod a 10
  simpa using this

theorem wordsOfBits_succ (A w : Nat) :
    wordsOfBits A (w + 1) = ((A >>> (10 * w)) &&& 1023) :: wordsOfBits A w := by
  unfold wordsOfBits
  rw [List.range_succ_eq_map, List.map_cons, List.map_map]
  congr 1
  apply List.map_congr_left
  intro i hi
  simp only [Function.comp]
  have : w + 1 - Nat.succ i - 1 = w - i - 1 := by omega
  rw [this]

theorem wordsOfBits_length (A w : Nat) : (wordsOfBits A w).length = w := by simp [wordsOfBits]

theorem wordsOfBits_lt (A w : Nat) : ∀ d ∈ wordsOfBits A w, d < 1024 := by
  intro d hd
  simp only [wordsOfBits, List.mem_map] at hd
  obtain ⟨i, _, rfl⟩ := hd
  rw [and1023]; exact Nat.mod_lt _ (by decide)

theorem foldl_words_acc (ws : List Nat) (h : ∀ d ∈ ws, d < 1024) (v : Nat) :
    ws.foldl (fun v w => (v <<< 10) ||| w) v = v * 1024 ^ ws.length + ws.foldl (fun v w => (v <<< 10) ||| w) 0 := by
  induction ws generalizing v with
  | nil => simp
  | cons d ws ih =>
    have hd := h d List.mem_cons_self
    have hws := fun d' h' => h d' (List.mem_cons_of_mem _ h')
    simp only [List.foldl_cons, List.length_cons]
    rw [ih hws ((v <<< 10) ||| d), ih hws ((0 <<< 10) ||| d), or10 v d hd, or10 0 d hd]
    rw [Nat.pow_succ]
    generalize 1024 ^ ws.length = M
    ring

/-- reading the `w` ten-bit words of `A` back gives `A mod 2^(10w)` -/
theorem valueOfWords_wordsOfBits (A w : Nat) : valueOfWords (wordsOfBits A w) = A % 1024 ^ w := by
  induction w with
  | zero => simp [valueOfWords, wordsOfBits, Nat.mod_one]
  | succ w ih =>
    unfold valueOfWords at ih ⊢
    rw [wordsOfBits_succ, List.foldl_cons, foldl_words_acc _ (wordsOfBits_lt A w), ih, wordsOfBits_length]
    have hd : (A >>> (10 * w)) &&& 1023 < 1024 := by rw [and1023]; exact Nat.mod_lt _ (by decide)
    rw [or10 0 _ hd, and1023, Nat.shiftRight_eq_div_pow, Nat.pow_mul]
    have : (2:Nat) ^ 10 = 1024 := by decide
    rw [this, Nat.zero_mul, Nat.zero_add, Nat.pow_succ, Nat.mod_mul]
    rw [Nat.mul_comm, Nat.add_comm]


/-- well-formed share fields: what `Share.__init__` enforces, plus the field widths of the text format -/
structure Share.WF (s : Share) : Prop where
  init : s.initOk = true
  id : s.id < 2 ^ 15
  exp : s.exponent < 32
  sbl16 : s.shareBitLength % 16 = 0
  sbl128 : 128 ≤ s.shareBitLength

theorem pow256 (q : Nat) : 256 ^ q = 2 ^ (8 * q) := by
  rw [Nat.pow_mul]

theorem pow1024 (m : Nat) : (2 : Nat) ^ (10 * m) = 1024 ^ m := by rw [Nat.pow_mul]

theorem shiftRight_header (H v m j : Nat) (hv : v < 1024 ^ m) :
    (H * 1024 ^ m + v) >>> (10 * (m + j)) = H >>> (10 * j) := by
  rw [Nat.shiftRight_eq_div_pow, Nat.shiftRight_eq_div_pow, Nat.mul_add, Nat.pow_add, pow1024, pow1024,
    ← Nat.div_div_eq_div_mul]
  congr 1
  rw [Nat.add_comm, Nat.add_mul_div_right _ _ (Nat.pow_pos (by decide)), Nat.div_eq_of_lt hv, Nat.zero_add]

/-- reading the header back from its four words -/
theorem header_decode (id e gi gt gc mi mt : Nat) (hid : id < 32768) (he : e < 32) (hgi : gi ≤ 15)
    (hgt1 : 1 ≤ gt) (hgt2 : gt ≤ 16) (hgc1 : 1 ≤ gc) (hgc2 : gc ≤ 16) (hmi : mi ≤ 15) (hmt1 : 1 ≤ mt) (hmt2 : mt ≤ 16)
    (H : Nat) (hH : H = ((((((id * 32 + e) * 16 + gi) * 16 + (gt - 1)) * 16 + (gc - 1)) * 16 + mi) * 16 + (mt - 1))) :
    H / 1073741824 % 1024 * 32 + H / 1048576 % 1024 / 32 = id ∧
    H / 1048576 % 1024 % 32 = e ∧
    H / 1024 % 1024 / 64 = gi ∧
    H / 1024 % 1024 / 4 % 16 + 1 = gt ∧
    H / 1024 % 1024 % 4 * 4 + H % 1024 / 256 + 1 = gc ∧
    H % 1024 / 16 % 16 = mi ∧
    H % 1024 % 16 + 1 = mt := by
  subst hH
  refine ⟨?_, ?_, ?_, ?_, ?_, ?_, ?_⟩ <;> omega

theorem headerOf_words (id e gi gt gc mi mt L value : Nat) (hid : id < 32768) (he : e < 32) (hgi : gi ≤ 15)
    (hgt1 : 1 ≤ gt) (hgt2 : gt ≤ 16) (hgc1 : 1 ≤ gc) (hgc2 : gc ≤ 16) (hmi : mi ≤ 15) (hmt1 : 1 ≤ mt) (hmt2 : mt ≤ 16)
    (H : Nat) (hH : H = ((((((id * 32 + e) * 16 + gi) * 16 + (gt - 1)) * 16 + (gc - 1)) * 16 + mi) * 16 + (mt - 1))) :
    headerOf ((H >>> 30) &&& 1023) ((H >>> 20) &&& 1023) ((H >>> 10) &&& 1023) (H &&& 1023) L value =
      ⟨L, id, e, gi, gt, gc, mi, mt, value⟩ := by
  have a31 : ∀ a : Nat, a &&& 31 = a % 32 := fun a => Nat.and_two_pow_sub_one_eq_mod a 5
  have a15 : ∀ a : Nat, a &&& 15 = a % 16 := fun a => Nat.and_two_pow_sub_one_eq_mod a 4
  have a3 : ∀ a : Nat, a &&& 3 = a % 4 := fun a => Nat.and_two_pow_sub_one_eq_mod a 2
  obtain ⟨f1, f2, f3, f4, f5, f6, f7⟩ := header_decode id e gi gt gc mi mt hid he hgi hgt1 hgt2 hgc1 hgc2 hmi hmt1 hmt2 H hH
  unfold headerOf
  simp only [and1023, a31, a15, a3, Nat.shiftRight_eq_div_pow]
  have p30 : (2:Nat) ^ 30 = 1073741824 := by decide
  have p20 : (2:Nat) ^ 20 = 1048576 := by decide
  have p10 : (2:Nat) ^ 10 = 1024 := by decide
  have p8 : (2:Nat) ^ 8 = 256 := by decide
  have p6 : (2:Nat) ^ 6 = 64 := by decide
  have p5 : (2:Nat) ^ 5 = 32 := by decide
  have p4 : (2:Nat) ^ 4 = 16 := by decide
  have p2 : (2:Nat) ^ 2 = 4 := by decide
  rw [or_eq_add _ _ 5 (by rw [p20, p5]; omega), or_eq_add _ _ 2 (by rw [p8, p2]; omega)]
  simp only [p30, p20, p10, p8, p6, p5, p4, p2]
  rw [f1, f2, f3, f4, f5, f6, f7]

/-- `Share.parse` on at least four words whose checksum verifies, with the intermediate values named -/
theorem parse_eq (i0 i1 i2 i3 : Nat) (rest : List Nat) (hv : rs1024Verify csShamir (i0 :: i1 :: i2 :: i3 :: rest) = true)
    (hlen : 3 ≤ rest.length) (value sbl : Nat) (hvalue : valueOfWords (rest.take (rest.length - 3)) = value)
    (hsbl : (rest.length - 3) * 10 / 16 * 16 = sbl) (h1 : value >>> sbl = 0) (h2 : 128 ≤ sbl)
    (h3 : (rest.length - 3) * 10 - sbl ≤ 8) :
    Share.parse (i0 :: i1 :: i2 :: i3 :: rest) = Share.new? (headerOf i0 i1 i2 i3 sbl value) := by
  unfold Share.parse
  have e7 : (i0 :: i1 :: i2 :: i3 :: rest).length - 7 = rest.length - 3 := by simp only [List.length_cons]; omega
  have c0 : ¬ ((i0 :: i1 :: i2 :: i3 :: rest).length < 7) := by simp only [List.length_cons]; omega
  simp only [hv, Bool.not_true, Bool.false_eq_true, if_false, c0, e7, hvalue, hsbl, h1, ne_eq, not_true_eq_false]
  rw [if_neg (by omega), if_neg (by omega)]

theorem share_text_roundtrip (s : Share) (h : s.WF) : Share.parse s.mnemonic = some s := by
  obtain ⟨hinit, hid, he, h16, h128⟩ := h
  obtain ⟨L, id, e, gi, gt, gc, mi, mt, value⟩ := s
  have hinit0 := hinit
  simp only [Share.initOk, Bool.and_eq_true, Bool.not_eq_true', decide_eq_false_iff_not, Bool.or_eq_false_iff,
    decide_eq_true_eq, Nat.not_lt] at hinit
  simp only at hid he h16 h128
  obtain ⟨⟨⟨⟨⟨hgi, hgt1, hgt2⟩, hgc1, hgc2⟩, hmi⟩, hmt1, hmt2⟩, hval⟩ := hinit
  -- padding and number of value words
  obtain ⟨m, hm⟩ : ∃ m, (10 - L % 10) % 10 + L = 10 * m := ⟨((10 - L % 10) % 10 + L) / 10, by omega⟩
  have hm' : ((10 - L % 10) % 10 + L) / 10 = m := by omega
  have hval2 : value < 2 ^ L := by
    have h8 : 8 * (L / 8) = L := by omega
    rw [pow256, h8] at hval; exact hval
  have hvalue : value < 1024 ^ m := by
    rw [← pow1024]
    exact Nat.lt_of_lt_of_le hval2 (Nat.pow_le_pow_right (by decide) (by omega))
  -- the header as a number
  obtain ⟨H, hH⟩ : ∃ H, H = ((((((id * 32 + e) * 16 + gi) * 16 + (gt - 1)) * 16 + (gc - 1)) * 16 + mi) * 16 + (mt - 1)) :=
    ⟨_, rfl⟩
  have hA : Share.allBits ⟨L, id, e, gi, gt, gc, mi, mt, value⟩ = H * 1024 ^ m + value := by
    simp only [Share.allBits]
    rw [or_eq_add id e 5 he, or_eq_add _ gi 4 (by omega), or_eq_add _ (gt - 1) 4 (by omega),
      or_eq_add _ (gc - 1) 4 (by omega), or_eq_add _ mi 4 (by omega), or_eq_add _ (mt - 1) 4 (by omega), hm]
    rw [or_eq_add _ value (10 * m) (by rw [pow1024]; exact hvalue), pow1024, hH]
    rfl
  -- the printed words
  have hidx : wordsOfBits (H * 1024 ^ m + value) (4 + m) =
      ((H >>> 30) &&& 1023) :: ((H >>> 20) &&& 1023) :: ((H >>> 10) &&& 1023) :: (H &&& 1023) ::
        wordsOfBits (H * 1024 ^ m + value) m := by
    rw [show 4 + m = m + 1 + 1 + 1 + 1 by omega, wordsOfBits_succ, wordsOfBits_succ, wordsOfBits_succ, wordsOfBits_succ]
    rw [show 10 * (m + 1 + 1 + 1) = 10 * (m + 3) by omega, show 10 * (m + 1 + 1) = 10 * (m + 2) by omega,
      show 10 * m = 10 * (m + 0) by omega,
      shiftRight_header H value m 3 hvalue, shiftRight_header H value m 2 hvalue,
      shiftRight_header H value m 1 hvalue, shiftRight_header H value m 0 hvalue]
    simp
  unfold Share.mnemonic
  simp only [hm', hA, hidx]
  generalize hchk : rs1024Create csShamir _ = chk
  have hver := rs1024_create_verify csShamir (((H >>> 30) &&& 1023) :: ((H >>> 20) &&& 1023) ::
    ((H >>> 10) &&& 1023) :: (H &&& 1023) :: wordsOfBits (H * 1024 ^ m + value) m)
  rw [hchk] at hver
  have hchk3 : chk.length = 3 := by rw [← hchk]; simp [rs1024Create]
  have hlen : (wordsOfBits (H * 1024 ^ m + value) m ++ chk).length = m + 3 := by
    simp [wordsOfBits_length, hchk3]
  have htake : (wordsOfBits (H * 1024 ^ m + value) m ++ chk).take
      ((wordsOfBits (H * 1024 ^ m + value) m ++ chk).length - 3) = wordsOfBits (H * 1024 ^ m + value) m := by
    rw [hlen, show m + 3 - 3 = (wordsOfBits (H * 1024 ^ m + value) m).length by simp [wordsOfBits_length]]
    simp
  have hvm : (H * 1024 ^ m + value) % 1024 ^ m = value := by
    rw [Nat.add_comm, Nat.add_mul_mod_self_right, Nat.mod_eq_of_lt hvalue]
  rw [List.cons_append, List.cons_append, List.cons_append, List.cons_append]
  have hver' : rs1024Verify csShamir (((H >>> 30) &&& 1023) :: ((H >>> 20) &&& 1023) ::
    ((H >>> 10) &&& 1023) :: (H &&& 1023) :: (wordsOfBits (H * 1024 ^ m + value) m ++ chk)) = true := hver
  rw [parse_eq _ _ _ _ (wordsOfBits (H * 1024 ^ m + value) m ++ chk) hver' (by omega) value L (by rw [htake, valueOfWords_wordsOfBits, hvm])
    (by rw [hlen]; omega)
    (by rw [Nat.shiftRight_eq_div_pow]; exact Nat.div_eq_of_lt hval2) h128 (by rw [hlen]; omega)]
  rw [headerOf_words id e gi gt gc mi mt L value hid he hgi hgt1 (by omega) hgc1 hgc2 hmi hmt1 hmt2 H hH]
  simp only [Share.new?, hinit0, if_true]

end Embit.Model.Slip39
