import EmbitModel.Proofs.Slip39Rs
/-
  GF(2) linear independence by a kernel-evaluable elimination, with its soundness lemma, and the table of
  T^d(2^i) (T = one polymod step with symbol 0, i.e. multiplication by x) used for the RS1024 error-detection
  rank checks.
-/
namespace Embit.Model.Slip39

/-- XOR of the selected columns -/
def comb : List Bool → List Nat → Nat
  | b :: bs, c :: cs => (if b then c else 0) ^^^ comb bs cs
  | _, _ => 0

def reduce (c p x : Nat) : Nat := if x.testBit p then x ^^^ c else x

/-- Gaussian elimination on columns given as numbers (pivot = highest set bit); `true` = independent -/
def elimF : Nat → List Nat → Bool
  | _, [] => true
  | 0, _ :: _ => false
  | n + 1, c :: rest => c != 0 && elimF n (rest.map (reduce c c.log2))

/-- parity of the selected columns that have bit `p` set -/
def par (p : Nat) : List Bool → List Nat → Bool
  | b :: bs, c :: cs => ((b && c.testBit p) ^^ par p bs cs)
  | _, _ => false

theorem xor_cancel_left (c y : Nat) : c ^^^ (c ^^^ y) = y := by
  rw [← Nat.xor_assoc, Nat.xor_self, Nat.zero_xor]

theorem comb_reduce (c p : Nat) (bs : List Bool) (cs : List Nat) :
    comb bs (cs.map (reduce c p)) = comb bs cs ^^^ (if par p bs cs then c else 0) := by
  induction bs generalizing cs with
  | nil => simp [comb, par]
  | cons b bs ih =>
    cases cs with
    | nil => simp [comb, par]
    | cons x cs =>
      simp only [List.map_cons, comb, par, ih, reduce]
      by_cases hx : x.testBit p = true <;> by_cases hq : par p bs cs = true <;> cases b <;>
        simp [hx, hq] <;>
        (apply Nat.eq_of_testBit_eq; intro i; simp only [Nat.testBit_xor];
         cases c.testBit i <;> cases x.testBit i <;> cases (comb bs cs).testBit i <;> rfl)

theorem comb_testBit_false (p : Nat) (bs : List Bool) (cs : List Nat) (h : ∀ c ∈ cs, c.testBit p = false) :
    (comb bs cs).testBit p = false := by
  induction bs generalizing cs with
  | nil => simp [comb]
  | cons b bs ih =>
    cases cs with
    | nil => simp [comb]
    | cons x cs =>
      simp only [comb, Nat.testBit_xor]
      rw [ih cs (fun c hc => h c (List.mem_cons_of_mem _ hc))]
      cases b
      · simp
      · simp [h x List.mem_cons_self]

theorem par_all_false (p : Nat) (bs : List Bool) (cs : List Nat) (h : ∀ b ∈ bs, b = false) : par p bs cs = false := by
  induction bs generalizing cs with
  | nil => simp [par]
  | cons b bs ih =>
    cases cs with
    | nil => simp [par]
    | cons x cs =>
      simp only [par, h b List.mem_cons_self, ih cs (fun b' hb' => h b' (List.mem_cons_of_mem _ hb'))]
      simp

/-- soundness: independent columns admit no non-trivial vanishing combination -/
theorem elimF_sound (n : Nat) (cs : List Nat) (h : elimF n cs = true) (bs : List Bool) (hl : bs.length = cs.length)
    (h0 : comb bs cs = 0) : ∀ b ∈ bs, b = false := by
  induction n generalizing cs bs with
  | zero =>
    cases cs with
    | nil => cases bs with
      | nil => simp
      | cons _ _ => simp at hl
    | cons _ _ => simp [elimF] at h
  | succ n ih =>
    cases cs with
    | nil => cases bs with
      | nil => simp
      | cons _ _ => simp at hl
    | cons c rest =>
      cases bs with
      | nil => simp at hl
      | cons b bs =>
        simp only [elimF, Bool.and_eq_true, bne_iff_ne, ne_eq] at h
        simp only [List.length_cons, Nat.add_right_cancel_iff] at hl
        have hc : c.testBit c.log2 = true := Nat.testBit_log2 h.1
        have hred := comb_reduce c c.log2 bs rest
        have hbit : (comb bs (rest.map (reduce c c.log2))).testBit c.log2 = false := by
          apply comb_testBit_false
          intro x hx
          obtain ⟨y, _, rfl⟩ := List.mem_map.mp hx
          unfold reduce
          split
          · rename_i hy; simp [Nat.testBit_xor, hy, hc]
          · rename_i hy; simpa using hy
        -- comb bs rest = comb bs rest' ^^^ (par ? c : 0)
        have e1 : comb bs rest = comb bs (rest.map (reduce c c.log2)) ^^^ (if par c.log2 bs rest then c else 0) := by
          rw [hred, Nat.xor_assoc, Nat.xor_self, Nat.xor_zero]
        simp only [comb] at h0
        rw [e1] at h0
        -- bit p of the equation gives b = par
        have hb : b = par c.log2 bs rest := by
          have hh : ((if b = true then c else 0) ^^^
              (comb bs (rest.map (reduce c c.log2)) ^^^ (if par c.log2 bs rest = true then c else 0))).testBit c.log2
                = (0 : Nat).testBit c.log2 := by rw [h0]
          rw [Nat.testBit_xor, Nat.testBit_xor, hbit, Nat.zero_testBit] at hh
          cases b <;> cases hq : par c.log2 bs rest <;> simp [hq, hc] at hh ⊢
        rw [hb] at h0
        have h1 : comb bs (rest.map (reduce c c.log2)) = 0 := by
          cases hp : par c.log2 bs rest
          · simpa [hp] using h0
          · rw [hp] at h0
            simp only [if_true] at h0
            rw [Nat.xor_comm (comb _ _), ← Nat.xor_assoc, Nat.xor_self, Nat.zero_xor] at h0
            exact h0
        have hall := ih _ h.2 bs (by simpa using hl) h1
        intro b' hb'
        rcases List.mem_cons.mp hb' with e | e
        · rw [e, hb]; exact par_all_false _ _ _ hall
        · exact hall b' e

/-! ### T = step with symbol 0 -/

def T (c : Nat) : Nat := rs1024Step c 0

def Tpow : Nat → Nat → Nat
  | 0, c => c
  | d + 1, c => Tpow d (T c)

def tpowTable : List (List Nat) := [
  [1, 2, 4, 8, 16, 32, 64, 128, 256, 512],
  [1024, 2048, 4096, 8192, 16384, 32768, 65536, 131072, 262144, 524288],
  [1048576, 2097152, 4194304, 8388608, 16777216, 33554432, 67108864, 134217728, 268435456, 536870912],
  [14737472, 29474944, 58949888, 117899776, 235798537, 470557714, 940076068, 814808136, 565311632, 66318624],
  [113525632, 227050249, 453060123, 906119231, 747933822, 431563004, 862086648, 643091440, 205100009, 409143259],
  [831441718, 597538405, 129715395, 258391430, 516782860, 1032508945, 999656491, 935008342, 804656300, 528230744],
  [275239865, 550478715, 18835199, 36630007, 72220654, 143384533, 285712291, 571423567, 77485719, 153914663],
  [1019043088, 972725792, 863312969, 645544082, 208950564, 417901128, 834761881, 588441906, 112579172, 225157313],
  [428407580, 855758385, 647211115, 230117590, 460235180, 919431000, 756739769, 448134523, 896269046, 710399461],
  [1002731217, 924379563, 783415126, 502524581, 1005048131, 929014406, 775906565, 486469130, 971897885, 861658170],
  [361699043, 722341327, 379338654, 757620533, 449879651, 899758287, 735211934, 389342012, 778682993, 475243755],
  [753605309, 425071987, 850143974, 634942917, 187748234, 375495453, 750989875, 420896879, 841793758, 618243516],
  [574936780, 68790673, 136541986, 273082957, 546164883, 26969382, 52899404, 105797777, 210539810, 420023876],
  [254239794, 508479588, 1015919816, 966479248, 867614496, 670923337, 259708059, 518360374, 1036720748, 991302865],
  [114015479, 226975214, 453950428, 906844081, 748326763, 431308511, 862615991, 643094382, 205105877, 409171363],
  [242423606, 484846181, 969691331, 857245062, 649146124, 233986577, 467972139, 935944278, 789767340, 515230040],
  [443207102, 885374844, 689666801, 313972203, 627944406, 173766565, 346476355, 692951695, 303764759, 606473774],
  [609851722, 137565844, 275130657, 550261314, 18384013, 35728666, 71457332, 142913633, 285827266, 570615172],
  [519951428, 1038847112, 995573008, 910064160, 754766921, 427396242, 853753124, 626424392, 171765913, 342476082],
  [131202862, 262404693, 524808355, 1049616710, 1033889420, 1002433809, 939523618, 796908621, 511679642, 1022303540],
  [697471871, 330638071, 661275111, 240429006, 480856981, 960673571, 840264271, 616222871, 167085358, 334170716],
  [818352929, 555622987, 45900959, 90762558, 180485756, 360970481, 721940962, 379577284, 758114177, 450883339],
  [982126256, 898907497, 733510354, 401659309, 803318618, 525554365, 1051107699, 1037910758, 993699269, 922054538],
  [568529898, 55976925, 111952819, 222865263, 444690135, 889379239, 714453838, 364602005, 728163619, 375245382],
  [83303081, 166605147, 332154550, 663268709, 261193418, 522385821, 1044771642, 1008460413, 951575795, 838846950],
  [566717412, 52351937, 103647115, 206253855, 411467319, 822933607, 580506830, 95653276, 191306552, 382612089],
  [349626921, 699252827, 333161654, 665283948, 266263256, 531469753, 1061883762, 1041645293, 1018984915, 972609446],
  [106255348, 212509665, 423978955, 847956895, 630568759, 196831847, 392623303, 785246606, 488371996, 975687217],
  [841546102, 617731820, 154380753, 308761506, 617521997, 152921747, 304803119, 608566878, 136050869, 271045994],
  [476722466, 952389188, 823695489, 582030594, 99756548, 199512065, 399024130, 797008900, 529713160, 1059426320],
  [62890364, 124741368, 248442361, 495845362, 990633965, 915906515, 767507375, 469653335, 938249895, 794377543],
  [715257563, 366209471, 732418942, 400532213, 800024035, 534704070, 1068367749, 1071374083, 1060609551, 1056913431],
  [779257850, 477432829, 954864627, 827590639, 574098391, 82851751, 165702471, 331403911, 662806791, 261308942]]

def pow2s : List Nat := [1, 2, 4, 8, 16, 32, 64, 128, 256, 512]

/-- the ten columns T^d(2^i) from the table -/
def colsTbl (d : Nat) : List Nat := tpowTable.getD d []

set_option maxRecDepth 100000 in
theorem tpowTable_correct : ∀ d < 33, colsTbl d = pow2s.map (Tpow d) := by decide +kernel

/-- all position triples d3 < d2 < d1 with fixed d1 have independent column sets -/
def tripleOk (d1 : Nat) : Bool :=
  (List.range d1).all fun d2 => (List.range d2).all fun d3 =>
    elimF 30 (colsTbl d1 ++ colsTbl d2 ++ colsTbl d3)

end Embit.Model.Slip39
