import EmbitModel.Proofs.LiquidTx
/-
  C18 main codec lemmas: `LTx.read` inverts `LTx.ser` on well-formed Liquid transactions and accepts nothing else.
-/
set_option linter.unusedSimpArgs false
set_option linter.unusedVariables false
namespace Embit
open Model Spec.LWire

def clearInW (i : LTxIn) : LTxIn := { i with witness := {} }
def clearOutW (o : LTxOut) : LTxOut := { o with witness := {} }

theorem LInWitness.isEmpty_iff (w : LInWitness) : LInWitness.isEmpty w = true ↔ w = {} := by
  obtain ⟨a, t, s, p⟩ := w
  simp [LInWitness.isEmpty, List.isEmpty_iff]
  constructor
  · rintro ⟨⟨⟨rfl, rfl⟩, rfl⟩, rfl⟩; trivial
  · intro h; simp_all

theorem LOutWitness.isEmpty_iff (w : LOutWitness) : LOutWitness.isEmpty w = true ↔ w = {} := by
  obtain ⟨s, p⟩ := w
  simp [LOutWitness.isEmpty, List.isEmpty_iff]

theorem setInWitnesses_clear (vin : List LTxIn) :
    setInWitnesses (vin.map clearInW) (vin.map (·.witness)) = vin := by
  induction vin with
  | nil => rfl
  | cons i is ih => simp [setInWitnesses, clearInW, ih]

theorem setOutWitnesses_clear (vout : List LTxOut) :
    setOutWitnesses (vout.map clearOutW) (vout.map (·.witness)) = vout := by
  induction vout with
  | nil => rfl
  | cons o os ih => simp [setOutWitnesses, clearOutW, ih]

theorem hasWitness_false_in {t : LTx} (h : LTx.hasWitness t = false) : t.vin.map clearInW = t.vin := by
  simp only [LTx.hasWitness, Bool.or_eq_false_iff, List.any_eq_false] at h
  have : ∀ i ∈ t.vin, clearInW i = i := by
    intro i hi
    have := h.1 i hi
    simp at this
    have := (LInWitness.isEmpty_iff _).mp this
    cases i; simp_all [clearInW]
  calc t.vin.map clearInW = t.vin.map id := List.map_congr_left this
    _ = t.vin := List.map_id _

theorem hasWitness_false_out {t : LTx} (h : LTx.hasWitness t = false) : t.vout.map clearOutW = t.vout := by
  simp only [LTx.hasWitness, Bool.or_eq_false_iff, List.any_eq_false] at h
  have : ∀ o ∈ t.vout, clearOutW o = o := by
    intro o ho
    have := h.2 o ho
    simp at this
    have := (LOutWitness.isEmpty_iff _).mp this
    cases o; simp_all [clearOutW]
  calc t.vout.map clearOutW = t.vout.map id := List.map_congr_left this
    _ = t.vout := List.map_id _

theorem LTx.read_ser (t : LTx) (r : Bytes) (h : WF t) : LTx.read (LTx.ser t ++ r) = some (t, r) := by
  have hver : ∀ r, readLe 4 (leN 4 t.version ++ r) = some (t.version, r) := fun r =>
    readLe_leN 4 t.version r (by have := h.version; omega)
  have hlt : ∀ r, readLe 4 (leN 4 t.locktime ++ r) = some (t.locktime, r) := fun r =>
    readLe_leN 4 t.locktime r (by have := h.locktime; omega)
  have hvin : ∀ r, readMany LTxIn.read t.vin.length (t.vin.flatMap LTxIn.ser ++ r)
      = some (t.vin.map clearInW, r) := fun r =>
    readMany_enc_map LTxIn.read LTxIn.ser clearInW t.vin r
      (fun i hi r => LTxIn.read_ser i r (h.ins i hi))
  have hvout : ∀ r, readMany LTxOut.read t.vout.length (t.vout.flatMap LTxOut.ser ++ r)
      = some (t.vout.map clearOutW, r) := fun r =>
    readMany_enc_map LTxOut.read LTxOut.ser clearOutW t.vout r
      (fun o ho r => LTxOut.read_ser o r (h.outs o ho))
  cases hs : LTx.hasWitness t with
  | false =>
    simp only [LTx.ser, hs, LTx.read, List.append_assoc, Bool.false_eq_true, if_false, hver,
      List.cons_append, List.nil_append, takeN_one_cons, Compact.read_enc _ _ h.ninLt, hvin,
      Compact.read_enc _ _ h.noutLt, hvout, hlt, hasWitness_false_in hs, hasWitness_false_out hs, List.append_nil]
    simp
  | true =>
    have hiw : ∀ r, readMany LInWitness.read (t.vin.map clearInW).length
        (t.vin.flatMap (fun i => LInWitness.ser i.witness) ++ r) = some (t.vin.map (·.witness), r) := by
      intro r
      have := readMany_enc LInWitness.read LInWitness.ser (t.vin.map (·.witness)) r
        (fun w hw r => by
          simp at hw
          obtain ⟨i, hi, rfl⟩ := hw
          exact LInWitness.read_ser _ r (h.ins i hi).witness)
      simpa [List.flatMap_map] using this
    have how : ∀ r, readMany LOutWitness.read (t.vout.map clearOutW).length
        (t.vout.flatMap (fun o => LOutWitness.ser o.witness) ++ r) = some (t.vout.map (·.witness), r) := by
      intro r
      have := readMany_enc LOutWitness.read LOutWitness.ser (t.vout.map (·.witness)) r
        (fun w hw r => by
          simp at hw
          obtain ⟨o, ho, rfl⟩ := hw
          exact LOutWitness.read_ser _ r (h.outs o ho).witness)
      simpa [List.flatMap_map] using this
    simp only [LTx.ser, hs, LTx.read, List.append_assoc, if_true, hver,
      List.cons_append, List.nil_append, takeN_one_cons, Compact.read_enc _ _ h.ninLt, hvin,
      Compact.read_enc _ _ h.noutLt, hvout, hlt, hiw, how, setInWitnesses_clear, setOutWitnesses_clear]
    have : LTx.hasWitness { version := t.version, vin := t.vin, vout := t.vout, locktime := t.locktime } = true := hs
    simp [this]

theorem setInWitnesses_props (vin : List LTxIn) (wits : List LInWitness)
    (hl : wits.length = vin.length)
    (hv : ∀ i ∈ vin, WFIn i ∧ i.witness = {})
    (hw : ∀ w ∈ wits, WFInWitness w) :
    (setInWitnesses vin wits).length = vin.length
    ∧ (setInWitnesses vin wits).flatMap LTxIn.ser = vin.flatMap LTxIn.ser
    ∧ (setInWitnesses vin wits).flatMap (fun i => LInWitness.ser i.witness) = wits.flatMap LInWitness.ser
    ∧ ∀ i ∈ setInWitnesses vin wits, WFIn i := by
  induction vin generalizing wits with
  | nil =>
    cases wits with
    | nil => simp [setInWitnesses]
    | cons w ws => simp at hl
  | cons i is ih =>
    cases wits with
    | nil => simp at hl
    | cons w ws =>
      simp only [List.length_cons, Nat.add_right_cancel_iff] at hl
      obtain ⟨h1, h2, h3, h4⟩ := ih ws hl (fun j hj => hv j (by simp [hj]))
        (fun x hx => hw x (by simp [hx]))
      obtain ⟨wfi, _⟩ := hv i (by simp)
      have ww := hw w (by simp)
      refine ⟨by simp [setInWitnesses, h1], ?_, ?_, ?_⟩
      · simp [setInWitnesses, h2, LTxIn.ser, LTxIn.wireVout]
      · simp [setInWitnesses, h3]
      · intro j hj
        simp [setInWitnesses] at hj
        rcases hj with rfl | hj
        · exact ⟨wfi.txid, wfi.index, wfi.script, wfi.sequence, wfi.issuance, ww⟩
        · exact h4 j hj

theorem setOutWitnesses_props (vout : List LTxOut) (wits : List LOutWitness)
    (hl : wits.length = vout.length)
    (hv : ∀ o ∈ vout, WFOut o ∧ o.witness = {})
    (hw : ∀ w ∈ wits, WFOutWitness w) :
    (setOutWitnesses vout wits).length = vout.length
    ∧ (setOutWitnesses vout wits).flatMap LTxOut.ser = vout.flatMap LTxOut.ser
    ∧ (setOutWitnesses vout wits).flatMap (fun o => LOutWitness.ser o.witness) = wits.flatMap LOutWitness.ser
    ∧ ∀ o ∈ setOutWitnesses vout wits, WFOut o := by
  induction vout generalizing wits with
  | nil =>
    cases wits with
    | nil => simp [setOutWitnesses]
    | cons w ws => simp at hl
  | cons o os ih =>
    cases wits with
    | nil => simp at hl
    | cons w ws =>
      simp only [List.length_cons, Nat.add_right_cancel_iff] at hl
      obtain ⟨h1, h2, h3, h4⟩ := ih ws hl (fun j hj => hv j (by simp [hj]))
        (fun x hx => hw x (by simp [hx]))
      obtain ⟨wfo, _⟩ := hv o (by simp)
      have ww := hw w (by simp)
      refine ⟨by simp [setOutWitnesses, h1], ?_, ?_, ?_⟩
      · simp [setOutWitnesses, h2, LTxOut.ser]
      · simp [setOutWitnesses, h3]
      · intro j hj
        simp [setOutWitnesses] at hj
        rcases hj with rfl | hj
        · exact ⟨wfo.asset, wfo.value, wfo.nonce, wfo.script, ww⟩
        · exact h4 j hj

theorem LTx.read_sound {b r : Bytes} {t : LTx} (h : LTx.read b = some (t, r)) :
    b = LTx.ser t ++ r ∧ WF t := by
  unfold LTx.read at h
  split at h
  · simp at h
  · rename_i ver r1 h1
    obtain ⟨e1, l1⟩ := readLe_sound h1
    split at h
    · simp at h
    · rename_i flag r2 h2
      obtain ⟨f, rfl, e2⟩ := takeN_one_sound h2
      split at h
      · simp at h
      · rename_i hflag
        split at h
        · simp at h
        · rename_i n r3 h3
          obtain ⟨e3, l3⟩ := Compact.read_sound h3
          split at h
          · simp at h
          · rename_i vin r4 h4
            obtain ⟨e4, l4, a4⟩ := readMany_sound LTxIn.read LTxIn.ser
              (fun i => WFIn i ∧ i.witness = {}) (fun b x r hx => LTxIn.read_sound hx) _ _ _ _ h4
            split at h
            · simp at h
            · rename_i m r5 h5
              obtain ⟨e5, l5⟩ := Compact.read_sound h5
              split at h
              · simp at h
              · rename_i vout r6 h6
                obtain ⟨e6, l6, a6⟩ := readMany_sound LTxOut.read LTxOut.ser
                  (fun o => WFOut o ∧ o.witness = {}) (fun b x r hx => LTxOut.read_sound hx) _ _ _ _ h6
                split at h
                · simp at h
                · rename_i lt r7 h7
                  obtain ⟨e7, l7⟩ := readLe_sound h7
                  split at h
                  · rename_i hf1
                    simp at hf1; subst hf1
                    split at h
                    · simp at h
                    · rename_i iw r8 h8
                      obtain ⟨e8, l8, a8⟩ := readMany_sound LInWitness.read LInWitness.ser WFInWitness
                        (fun b x r hx => LInWitness.read_sound hx) _ _ _ _ h8
                      split at h
                      · simp at h
                      · rename_i ow r9 h9
                        obtain ⟨e9, l9, a9⟩ := readMany_sound LOutWitness.read LOutWitness.ser WFOutWitness
                          (fun b x r hx => LOutWitness.read_sound hx) _ _ _ _ h9
                        obtain ⟨s1, s2, s3, s4⟩ := setInWitnesses_props vin iw l8 a4 a8
                        obtain ⟨o1, o2, o3, o4⟩ := setOutWitnesses_props vout ow l9 a6 a9
                        simp only at h
                        split at h
                        · simp at h
                        · rename_i hw
                          simp only [Bool.not_eq_true, Bool.not_eq_false'] at hw
                          simp at h; obtain ⟨rfl, rfl⟩ := h
                          refine ⟨?_, ⟨by simpa using l1, by simpa using l7, by simp [s1, l4]; exact l3,
                            by simp [o1, l6]; exact l5, s4, o4⟩⟩
                          simp only [LTx.ser, hw, if_true, s1, s2, s3, o1, o2, o3, List.append_assoc]
                          subst l4; subst l6
                          simp [e1, e2, e3, e4, e5, e6, e7, e8, e9]
                  · rename_i hf1
                    have hf0 : f = 0 := by
                      simp at hflag hf1
                      by_cases hne : f = 0
                      · exact hne
                      · exact absurd (hflag hne) hf1
                    subst hf0
                    simp at h; obtain ⟨rfl, rfl⟩ := h
                    have hnw : LTx.hasWitness { version := ver, vin := vin, vout := vout, locktime := lt } = false := by
                      simp only [LTx.hasWitness, Bool.or_eq_false_iff, List.any_eq_false]
                      constructor
                      · intro i hi; rw [(a4 i hi).2]; simp [LInWitness.isEmpty]
                      · intro o ho; rw [(a6 o ho).2]; simp [LOutWitness.isEmpty]
                    refine ⟨?_, ⟨by simpa using l1, by simpa using l7, by simp [l4]; exact l3,
                      by simp [l6]; exact l5, fun i hi => (a4 i hi).1, fun o ho => (a6 o ho).1⟩⟩
                    simp only [LTx.ser, hnw, List.append_assoc]
                    subst l4; subst l6
                    simp [e1, e2, e3, e4, e5, e6, e7]

/-! ### the model's serialiser is the Elements wire encoding -/

theorem or31 (v : Nat) (h : v < 2^30) : v ||| 0x80000000 = v + 2^31 := by
  have := Nat.two_pow_add_eq_or_of_lt (i := 31) (b := v) (by omega) 1
  simp at this
  rw [Nat.or_comm]; omega
theorem or30 (v : Nat) (h : v < 2^30) : v ||| 0x40000000 = v + 2^30 := by
  have := Nat.two_pow_add_eq_or_of_lt (i := 30) (b := v) (by omega) 1
  simp at this
  rw [Nat.or_comm]; omega
theorem or3130 (v : Nat) (h : v < 2^30) : v ||| 0x80000000 ||| 0x40000000 = v + 2^31 + 2^30 := by
  rw [Nat.or_assoc]
  have hc : (0x80000000 ||| 0x40000000 : Nat) = 0xC0000000 := by decide
  rw [hc]
  have := Nat.two_pow_add_eq_or_of_lt (i := 30) (b := v) (by omega) 3
  simp at this
  rw [Nat.or_comm]; omega

theorem or3130' (v : Nat) (h : v < 2^30) : (v + 2147483648) ||| 1073741824 = v + 2147483648 + 1073741824 := by
  have a := or3130 v h
  have b := or31 v h
  simp at a b
  rw [b] at a; exact a

theorem flatMap_congr' {α : Type} (l : List α) (f g : α → Bytes) (h : ∀ x ∈ l, f x = g x) :
    l.flatMap f = l.flatMap g := by
  induction l with
  | nil => rfl
  | cons x xs ih =>
    simp only [List.flatMap_cons]
    rw [h x (by simp), ih (fun y hy => h y (by simp [hy]))]

/-- on well-formed inputs the flagged index written by embit (`+`) is the Elements index (`|||`) -/
theorem wireVout_eq (i : LTxIn) (h : WFIndex i) : LTxIn.wireVout i = outpointIndex i := by
  obtain ⟨txid, vout, ss, sq, pg, iss, wit⟩ := i
  simp only [WFIndex] at h
  rcases h with ⟨h1, _⟩ | ⟨h1, h2, h3⟩
  · cases iss <;> cases pg <;> simp [LTxIn.wireVout, outpointIndex, or31 vout h1, or30 vout h1, or3130' vout h1]
  · subst h2; subst h3; simp [LTxIn.wireVout, outpointIndex]

theorem LTxIn.ser_eq (i : LTxIn) (h : WFIndex i) : LTxIn.ser i = encIn i := by
  simp only [LTxIn.ser, encIn, wireVout_eq i h, scriptSer, Spec.Wire.varStr]
  cases i.issuance <;> simp [Issuance.ser_eq]

theorem LTxOut.ser_eq (o : LTxOut) (h : WFNonce o.nonce) : LTxOut.ser o = encOut o := by
  simp only [LTxOut.ser, encOut, encAsset, LValue.ser_eq, nonceSer_eq _ h, scriptSer, Spec.Wire.varStr]
  split <;> simp

theorem LTx.hasWitness_eq (t : LTx) : LTx.hasWitness t = hasWitness t := rfl

theorem LTx.ser_eq_encode (t : LTx) (h : WF t) : LTx.ser t = encode t := by
  have hin : t.vin.flatMap LTxIn.ser = t.vin.flatMap encIn := by
    apply flatMap_congr'; intro i hi; exact LTxIn.ser_eq i (h.ins i hi).index
  have hout : t.vout.flatMap LTxOut.ser = t.vout.flatMap encOut := by
    apply flatMap_congr'; intro o ho; exact LTxOut.ser_eq o (h.outs o ho).nonce
  unfold LTx.ser encode encodeBody
  rw [LTx.hasWitness_eq, hin, hout]
  cases hasWitness t <;> simp [List.append_assoc] <;> rfl

end Embit
