import EmbitModel.Model.Heap
/-
  Helper lemmas for C19: frame properties of allocation, the ownership invariant (the containers of distinct
  objects and the caller's argument objects are pairwise distinct cells below the allocation pointer) and its
  preservation by every operation when all constructors are safe.
-/
namespace Embit.Heap

def objRefs (st : State) : List Nat := st.objs.flatMap (·.fields)

/-- ownership invariant -/
structure Inv (st : State) : Prop where
  objNodup : (objRefs st).Nodup
  poolNodup : st.pool.Nodup
  disj : ∀ r ∈ objRefs st, r ∉ st.pool
  objBound : ∀ r ∈ objRefs st, r < st.next
  poolBound : ∀ r ∈ st.pool, r < st.next

/-- what an allocation-only step may change -/
structure Extends (st st' : State) (n : Nat) : Prop where
  next : st'.next = st.next + n
  heap : ∀ x, x < st.next → st'.heap x = st.heap x
  objs : st'.objs = st.objs
  pool : st'.pool = st.pool
  memo : st'.memo = st.memo

theorem Extends.refl (st : State) : Extends st st 0 :=
  ⟨rfl, fun _ _ => rfl, rfl, rfl, rfl⟩

theorem Extends.trans {a b c : State} {n m : Nat} (h1 : Extends a b n) (h2 : Extends b c m) :
    Extends a c (n + m) := by
  refine ⟨?_, ?_, ?_, ?_, ?_⟩
  · rw [h2.next, h1.next]; omega
  · intro x hx
    rw [h2.heap x (by rw [h1.next]; omega), h1.heap x hx]
  · rw [h2.objs, h1.objs]
  · rw [h2.pool, h1.pool]
  · rw [h2.memo, h1.memo]

theorem alloc_extends (st : State) (c : List Val) : Extends st (st.alloc c).1 1 := by
  refine ⟨rfl, ?_, rfl, rfl, rfl⟩
  intro x hx
  simp only [State.alloc]
  have : x ≠ st.next := by omega
  simp [this]

theorem alloc_ref (st : State) (c : List Val) : (st.alloc c).2 = st.next := rfl

theorem alloc_heap_new (st : State) (c : List Val) : (st.alloc c).1.heap st.next = c := by
  simp [State.alloc]

theorem fieldRef_safe (env : Env) (c p : Nat) (k : ParamKind) (arg : Option (List Val)) (st : State)
    (hk : k.safe = true) :
    (fieldRef env c p k arg st).2 = st.next ∧ Extends st (fieldRef env c p k arg st).1 1 := by
  cases k <;> cases arg <;> simp [ParamKind.safe] at hk <;>
    exact ⟨rfl, alloc_extends _ _⟩

theorem buildFields_safe (env : Env) (c : Nat) :
    ∀ (ks : List ParamKind) (p : Nat) (args : List (Option (List Val))) (st : State),
      ks.all ParamKind.safe = true →
      (buildFields env c p ks args st).2 = List.range' st.next ks.length ∧
      Extends st (buildFields env c p ks args st).1 ks.length := by
  intro ks
  induction ks with
  | nil => intro p args st _; exact ⟨rfl, Extends.refl st⟩
  | cons k ks ih =>
    intro p args st h
    simp only [List.all_cons, Bool.and_eq_true] at h
    obtain ⟨h1, h2⟩ := fieldRef_safe env c p k (args.head?.getD none) st h.1
    obtain ⟨h3, h4⟩ := ih (p + 1) args.tail (fieldRef env c p k (args.head?.getD none) st).1 h.2
    constructor
    · simp only [buildFields, List.length_cons]
      rw [h1, h3, h2.next]
      rw [List.range'_succ]
    · simp only [buildFields, List.length_cons]
      have := Extends.trans h2 h4
      have e : 1 + ks.length = ks.length + 1 := Nat.add_comm _ _
      rw [e] at this
      exact this

theorem copyFields_spec : ∀ (rs : List Nat) (st : State),
    (copyFields rs st).2 = List.range' st.next rs.length ∧ Extends st (copyFields rs st).1 rs.length ∧
    ((∀ r ∈ rs, r < st.next) → (copyFields rs st).2.map (copyFields rs st).1.heap = rs.map st.heap) := by
  intro rs
  induction rs with
  | nil => intro st; exact ⟨rfl, Extends.refl st, fun _ => rfl⟩
  | cons r rs ih =>
    intro st
    obtain ⟨h3, h4, h5⟩ := ih (st.alloc (st.heap r)).1
    have h2 := alloc_extends st (st.heap r)
    refine ⟨?_, ?_, ?_⟩
    · simp only [copyFields, List.length_cons]
      rw [h3, alloc_ref, h2.next, List.range'_succ]
    · simp only [copyFields, List.length_cons]
      have := Extends.trans h2 h4
      have e : 1 + rs.length = rs.length + 1 := Nat.add_comm _ _
      rw [e] at this
      exact this
    · intro hb
      simp only [copyFields, List.map_cons]
      have hb' : ∀ x ∈ rs, x < (st.alloc (st.heap r)).1.next := by
        intro x hx
        rw [h2.next]
        have := hb x (List.mem_cons_of_mem _ hx)
        omega
      rw [h5 hb']
      congr 1
      · rw [alloc_ref, h4.heap _ (by rw [h2.next]; omega), alloc_heap_new]
      · apply List.map_congr_left
        intro x hx
        exact h2.heap x (hb x (List.mem_cons_of_mem _ hx))

/-! ### ownership -/

theorem flatMap_disjoint {α β : Type} (g : α → List β) :
    ∀ (l : List α) (i j : Nat) (a b : α), (l.flatMap g).Nodup → l[i]? = some a → l[j]? = some b → i ≠ j →
      ∀ r ∈ g a, r ∉ g b := by
  intro l
  induction l with
  | nil => intro i j a b _ h; simp at h
  | cons x xs ih =>
    intro i j a b hn hi hj hij r hra hrb
    rw [List.flatMap_cons, List.nodup_append] at hn
    obtain ⟨_, hxs, hd⟩ := hn
    cases i with
    | zero =>
      cases j with
      | zero => exact hij rfl
      | succ j =>
        simp only [List.getElem?_cons_zero, Option.some.injEq] at hi
        simp only [List.getElem?_cons_succ] at hj
        subst hi
        have : r ∈ xs.flatMap g := List.mem_flatMap.mpr ⟨b, List.mem_of_getElem? hj, hrb⟩
        exact hd r hra r this rfl
    | succ i =>
      cases j with
      | zero =>
        simp only [List.getElem?_cons_zero, Option.some.injEq] at hj
        simp only [List.getElem?_cons_succ] at hi
        subst hj
        have : r ∈ xs.flatMap g := List.mem_flatMap.mpr ⟨a, List.mem_of_getElem? hi, hra⟩
        exact hd r hrb r this rfl
      | succ j =>
        simp only [List.getElem?_cons_succ] at hi hj
        exact ih i j a b hxs hi hj (by omega) r hra hrb

theorem mem_objRefs {st : State} {i : Nat} {o : Obj} (h : st.objs[i]? = some o) {r : Nat} (hr : r ∈ o.fields) :
    r ∈ objRefs st :=
  List.mem_flatMap.mpr ⟨o, List.mem_of_getElem? h, hr⟩

theorem objRefs_append (st : State) (o : Obj) (st' : State) (h : st'.objs = st.objs ++ [o]) :
    objRefs st' = objRefs st ++ o.fields := by
  simp [objRefs, h, List.flatMap_append]

/-- adding an object whose containers are `n` freshly allocated cells keeps the invariant -/
theorem inv_add_fresh {st st1 : State} {n : Nat} (hI : Inv st) (hE : Extends st st1 n) :
    Inv { st1 with objs := st.objs ++ [⟨List.range' st.next n⟩] } := by
  have hO : objRefs { st1 with objs := st.objs ++ [⟨List.range' st.next n⟩] }
      = objRefs st ++ List.range' st.next n := objRefs_append st _ _ rfl
  refine ⟨?_, ?_, ?_, ?_, ?_⟩
  · rw [hO, List.nodup_append]
    refine ⟨hI.objNodup, List.nodup_range', ?_⟩
    intro a ha b hb hab
    have := hI.objBound a ha
    rw [List.mem_range'_1] at hb
    omega
  · show st1.pool.Nodup
    rw [hE.pool]; exact hI.poolNodup
  · intro r hr
    show r ∉ st1.pool
    rw [hE.pool]
    rw [hO, List.mem_append] at hr
    rcases hr with hr | hr
    · exact hI.disj r hr
    · intro hp
      have := hI.poolBound r hp
      rw [List.mem_range'_1] at hr
      omega
  · intro r hr
    show r < st1.next
    rw [hE.next]
    rw [hO, List.mem_append] at hr
    rcases hr with hr | hr
    · have := hI.objBound r hr; omega
    · rw [List.mem_range'_1] at hr; omega
  · intro r hr
    show r < st1.next
    rw [hE.next]
    have : r ∈ st.pool := by
      have h2 : r ∈ st1.pool := hr
      rw [hE.pool] at h2; exact h2
    have := hI.poolBound r this; omega

theorem classesSafe_get {env : Env} (h : env.classesSafe = true) {c : Nat} {d : ClassDesc}
    (hc : env.classes[c]? = some d) : d.params.all ParamKind.safe = true ∧ d.copiesSource = true := by
  have := List.all_eq_true.mp h d (List.mem_of_getElem? hc)
  simpa [Bool.and_eq_true] using this

theorem inv_write {st : State} (hI : Inv st) (r : Nat) (c : List Val) : Inv (st.write r c) :=
  ⟨hI.objNodup, hI.poolNodup, hI.disj, hI.objBound, hI.poolBound⟩

theorem inv_of_refs_eq {st st' : State} (hI : Inv st) (h1 : st'.objs = st.objs) (h2 : st'.pool = st.pool)
    (h3 : st'.next = st.next) : Inv st' := by
  have hO : objRefs st' = objRefs st := by simp [objRefs, h1]
  exact ⟨hO ▸ hI.objNodup, h2 ▸ hI.poolNodup, by rw [hO, h2]; exact hI.disj,
    by rw [hO, h3]; exact hI.objBound, by rw [h2, h3]; exact hI.poolBound⟩

theorem inv_init (d : Nat) (dflt : Nat → List Val) : Inv (init d dflt) := by
  refine ⟨?_, ?_, ?_, ?_, ?_⟩ <;> simp [init, objRefs]

/-! ### every operation keeps the ownership invariant -/

theorem inv_newArg {st : State} (hI : Inv st) (content : List Val) : Inv (step env st (.newArg content)) := by
  simp only [step]
  have hO : objRefs { (st.alloc content).1 with pool := st.pool ++ [(st.alloc content).2] } = objRefs st := rfl
  refine ⟨hI.objNodup, ?_, ?_, ?_, ?_⟩
  · show (st.pool ++ [st.next]).Nodup
    rw [List.nodup_append]
    refine ⟨hI.poolNodup, by simp, ?_⟩
    intro a ha b hb hab
    simp only [List.mem_singleton] at hb
    have := hI.poolBound a ha
    omega
  · intro r hr
    show r ∉ st.pool ++ [st.next]
    rw [hO] at hr
    simp only [List.mem_append, List.mem_singleton, not_or]
    exact ⟨hI.disj r hr, by have := hI.objBound r hr; omega⟩
  · intro r hr
    rw [hO] at hr
    show r < st.next + 1
    have := hI.objBound r hr; omega
  · intro r hr
    show r < st.next + 1
    have hr' : r ∈ st.pool ++ [st.next] := hr
    simp only [List.mem_append, List.mem_singleton] at hr'
    rcases hr' with h | h
    · have := hI.poolBound r h; omega
    · omega

theorem inv_construct {env : Env} (hs : env.classesSafe = true) {st : State} (hI : Inv st) (c : Nat)
    (args : List (Option (List Val))) : Inv (step env st (.construct c args)) := by
  simp only [step]
  split
  · exact hI
  · rename_i d hd
    obtain ⟨hp, _⟩ := classesSafe_get hs hd
    obtain ⟨h1, h2⟩ := buildFields_safe env c d.params 0 args st hp
    rw [h1]
    exact inv_add_fresh hI h2

theorem inv_constructFrom {env : Env} (hs : env.classesSafe = true) {st : State} (hI : Inv st) (c src : Nat) :
    Inv (step env st (.constructFrom c src)) := by
  simp only [step]
  split
  · rename_i d o hd ho
    obtain ⟨_, hc⟩ := classesSafe_get hs hd
    simp only [hc, if_true]
    obtain ⟨h1, h2, _⟩ := copyFields_spec o.fields st
    rw [h1]
    exact inv_add_fresh hI h2
  · exact hI

theorem step_inv {env : Env} (hs : env.classesSafe = true) {st : State} (hI : Inv st) (op : Op) :
    Inv (step env st op) := by
  cases op with
  | newArg content => exact inv_newArg hI content
  | construct c args => exact inv_construct hs hI c args
  | constructFrom c src => exact inv_constructFrom hs hI c src
  | mutate i f v =>
    simp only [step]
    split
    · exact hI
    · split
      · exact hI
      · exact inv_of_refs_eq hI rfl rfl rfl
  | mutateRaw i f v =>
    simp only [step]
    split
    · exact hI
    · split
      · exact hI
      · exact inv_write hI _ _
  | query i m k =>
    simp only [step]
    split
    · split
      · exact hI
      · split
        · split
          · exact inv_of_refs_eq hI rfl rfl rfl
          · exact inv_of_refs_eq hI rfl rfl rfl
          · split
            · exact inv_of_refs_eq hI rfl rfl rfl
            · exact inv_of_refs_eq hI rfl rfl rfl
        · split
          · exact hI
          · exact inv_of_refs_eq hI rfl rfl rfl
          · split
            · exact hI
            · exact inv_of_refs_eq hI rfl rfl rfl
    · exact hI

/-! ### frame: which existing cells an operation may write -/

/-- the existing cells an operation writes -/
def writes (env : Env) (st : State) : Op → List Nat
  | .mutate i f _ | .mutateRaw i f _ =>
    match st.objs[i]? with
    | none => []
    | some o => match o.fields[f]? with
      | none => []
      | some r => [r]
  | .query i m k =>
    if i < st.objs.length ∧ m < env.methods.length then
      match st.pool[k]? with
      | none => []
      | some r => if mutatesArg env m then [r] else []
    else []
  | _ => []

theorem write_heap_ne (st : State) (r : Nat) (c : List Val) (x : Nat) (h : x ≠ r) : (st.write r c).heap x = st.heap x := by
  simp [State.write, h]

theorem step_frame {env : Env} (hs : env.classesSafe = true) (st : State) (op : Op) (x : Nat) (hx : x < st.next)
    (hw : x ∉ writes env st op) : (step env st op).heap x = st.heap x := by
  cases op with
  | newArg content =>
    simp only [step]
    exact (alloc_extends st content).heap x hx
  | construct c args =>
    simp only [step]
    split
    · rfl
    · rename_i d hd
      obtain ⟨hp, _⟩ := classesSafe_get hs hd
      exact (buildFields_safe env c d.params 0 args st hp).2.heap x hx
  | constructFrom c src =>
    simp only [step]
    split
    · rename_i d o hd ho
      obtain ⟨_, hc⟩ := classesSafe_get hs hd
      simp only [hc, if_true]
      exact (copyFields_spec o.fields st).2.1.heap x hx
    · rfl
  | mutate i f v =>
    simp only [step]
    simp only [writes] at hw
    split
    · rfl
    · rename_i o ho
      simp only [ho] at hw
      split
      · rfl
      · rename_i r hr
        simp only [hr, List.mem_singleton] at hw
        show (st.write r (st.heap r ++ [v])).heap x = st.heap x
        exact write_heap_ne _ _ _ _ hw
  | mutateRaw i f v =>
    simp only [step]
    simp only [writes] at hw
    split
    · rfl
    · rename_i o ho
      simp only [ho] at hw
      split
      · rfl
      · rename_i r hr
        simp only [hr, List.mem_singleton] at hw
        exact write_heap_ne _ _ _ _ hw
  | query i m k =>
    simp only [step]
    simp only [writes] at hw
    split
    · rename_i hv
      simp only [hv] at hw
      split
      · rfl
      · rename_i r hr
        simp only [hr] at hw
        split
        · rename_i hm
          have hw' : x ≠ r := by
            intro h; apply hw; simp [hm, h]
          rw [write_heap_ne _ _ _ _ hw']
          split
          · rfl
          · rfl
          · split <;> rfl
        · split
          · rfl
          · rfl
          · split <;> rfl
    · rfl

theorem step_objs_get {env : Env} (st : State) (op : Op) (j : Nat) (hj : j < st.objs.length) :
    (step env st op).objs[j]? = st.objs[j]? := by
  cases op with
  | newArg content => rfl
  | construct c args =>
    simp only [step]
    split
    · rfl
    · exact List.getElem?_append_left hj
  | constructFrom c src =>
    simp only [step]
    split
    · split
      · exact List.getElem?_append_left hj
      · exact List.getElem?_append_left hj
    · rfl
  | mutate i f v =>
    simp only [step]
    split
    · rfl
    · split <;> rfl
  | mutateRaw i f v =>
    simp only [step]
    split
    · rfl
    · split <;> rfl
  | query i m k =>
    simp only [step]
    split
    · split
      · rfl
      · split
        · split
          · rfl
          · rfl
          · split <;> rfl
        · split
          · rfl
          · rfl
          · split <;> rfl
    · rfl

theorem step_objs_length {env : Env} (st : State) (op : Op) : st.objs.length ≤ (step env st op).objs.length := by
  cases op with
  | newArg content => exact Nat.le_refl _
  | construct c args =>
    simp only [step]
    split
    · exact Nat.le_refl _
    · simp
  | constructFrom c src =>
    simp only [step]
    split
    · split <;> simp
    · exact Nat.le_refl _
  | mutate i f v =>
    simp only [step]
    split
    · exact Nat.le_refl _
    · split <;> exact Nat.le_refl _
  | mutateRaw i f v =>
    simp only [step]
    split
    · exact Nat.le_refl _
    · split <;> exact Nat.le_refl _
  | query i m k =>
    simp only [step]
    split
    · split
      · exact Nat.le_refl _
      · split
        · split
          · exact Nat.le_refl _
          · exact Nat.le_refl _
          · split <;> exact Nat.le_refl _
        · split
          · exact Nat.le_refl _
          · exact Nat.le_refl _
          · split <;> exact Nat.le_refl _
    · exact Nat.le_refl _

theorem step_pool_get {env : Env} (hs : env.classesSafe = true) (st : State) (op : Op) (k : Nat) (hk : k < st.pool.length) :
    (step env st op).pool[k]? = st.pool[k]? := by
  cases op with
  | newArg content =>
    simp only [step]
    exact List.getElem?_append_left hk
  | construct c args =>
    simp only [step]
    split
    · rfl
    · rename_i d hd
      obtain ⟨hp, _⟩ := classesSafe_get hs hd
      show (buildFields env c 0 d.params args st).1.pool[k]? = _
      rw [(buildFields_safe env c d.params 0 args st hp).2.pool]
  | constructFrom c src =>
    simp only [step]
    split
    · rename_i d o hd ho
      obtain ⟨_, hc⟩ := classesSafe_get hs hd
      simp only [hc, if_true]
      show (copyFields o.fields st).1.pool[k]? = _
      rw [(copyFields_spec o.fields st).2.1.pool]
    · rfl
  | mutate i f v =>
    simp only [step]
    split
    · rfl
    · split <;> rfl
  | mutateRaw i f v =>
    simp only [step]
    split
    · rfl
    · split <;> rfl
  | query i m k' =>
    simp only [step]
    split
    · split
      · rfl
      · split
        · split
          · rfl
          · rfl
          · split <;> rfl
        · split
          · rfl
          · rfl
          · split <;> rfl
    · rfl

theorem step_pool_length {env : Env} (hs : env.classesSafe = true) (st : State) (op : Op) :
    st.pool.length ≤ (step env st op).pool.length := by
  by_cases h : st.pool.length = 0
  · omega
  · have hk : st.pool.length - 1 < st.pool.length := by omega
    have := step_pool_get hs st op (st.pool.length - 1) hk
    have h2 : st.pool[st.pool.length - 1]? ≠ none := by
      simp; omega
    rw [← this] at h2
    simp only [ne_eq, List.getElem?_eq_none_iff, Nat.not_le] at h2
    omega

/-- the containers of an object that is neither mutated itself nor ... are unchanged by any operation -/
theorem step_obs {env : Env} (hs : env.classesSafe = true) {st : State} (hI : Inv st) (op : Op) (j : Nat)
    (hj : j < st.objs.length)
    (hne : ∀ f v, op ≠ .mutate j f v ∧ op ≠ .mutateRaw j f v) :
    obs (step env st op) j = obs st j := by
  have hg := step_objs_get (env := env) st op j hj
  unfold obs
  rw [hg]
  cases ho : st.objs[j]? with
  | none => rfl
  | some o =>
    simp only
    apply List.map_congr_left
    intro r hr
    have hrO : r ∈ objRefs st := mem_objRefs ho hr
    apply step_frame hs st op r (hI.objBound r hrO)
    -- r is not written
    cases op with
    | newArg content => simp [writes]
    | construct c args => simp [writes]
    | constructFrom c src => simp [writes]
    | mutate i f v =>
      simp only [writes]
      cases hoi : st.objs[i]? with
      | none => simp
      | some oi =>
        simp only
        cases hf : oi.fields[f]? with
        | none => simp
        | some r' =>
          simp only [List.mem_singleton]
          intro hEq
          subst hEq
          have hij : i ≠ j := by
            intro h; subst h
            exact (hne f v).1 rfl
          exact flatMap_disjoint (fun o : Obj => o.fields) st.objs i j oi o hI.objNodup hoi ho hij r (List.mem_of_getElem? hf) hr
    | mutateRaw i f v =>
      simp only [writes]
      cases hoi : st.objs[i]? with
      | none => simp
      | some oi =>
        simp only
        cases hf : oi.fields[f]? with
        | none => simp
        | some r' =>
          simp only [List.mem_singleton]
          intro hEq
          subst hEq
          have hij : i ≠ j := by
            intro h; subst h
            exact (hne f v).2 rfl
          exact flatMap_disjoint (fun o : Obj => o.fields) st.objs i j oi o hI.objNodup hoi ho hij r (List.mem_of_getElem? hf) hr
    | query i m k =>
      simp only [writes]
      split
      · cases hp : st.pool[k]? with
        | none => simp
        | some r' =>
          simp only
          split
          · simp only [List.mem_singleton]
            intro hEq
            subst hEq
            exact hI.disj r hrO (List.mem_of_getElem? hp)
          · simp
      · simp

/-- a caller-owned argument object is unchanged by every operation of a library whose methods do not write
    through their arguments -/
theorem step_argObs {env : Env} (hs : env.classesSafe = true) (hm : env.noArgMutation = true) {st : State} (hI : Inv st)
    (op : Op) (k : Nat) (hk : k < st.pool.length) : argObs (step env st op) k = argObs st k := by
  have hg := step_pool_get hs st op k hk
  unfold argObs
  rw [hg]
  cases hp : st.pool[k]? with
  | none => rfl
  | some r =>
    simp only
    have hrP : r ∈ st.pool := List.mem_of_getElem? hp
    apply step_frame hs st op r (hI.poolBound r hrP)
    cases op with
    | newArg content => simp [writes]
    | construct c args => simp [writes]
    | constructFrom c src => simp [writes]
    | mutate i f v =>
      simp only [writes]
      cases hoi : st.objs[i]? with
      | none => simp
      | some oi =>
        simp only
        cases hf : oi.fields[f]? with
        | none => simp
        | some r' =>
          simp only [List.mem_singleton]
          intro hEq
          subst hEq
          exact hI.disj r (mem_objRefs hoi (List.mem_of_getElem? hf)) hrP
    | mutateRaw i f v =>
      simp only [writes]
      cases hoi : st.objs[i]? with
      | none => simp
      | some oi =>
        simp only
        cases hf : oi.fields[f]? with
        | none => simp
        | some r' =>
          simp only [List.mem_singleton]
          intro hEq
          subst hEq
          exact hI.disj r (mem_objRefs hoi (List.mem_of_getElem? hf)) hrP
    | query i m k' =>
      simp only [writes]
      have : mutatesArg env m = false := by
        unfold mutatesArg
        cases hd : env.methods[m]? with
        | none => rfl
        | some d =>
          have := List.all_eq_true.mp hm d (List.mem_of_getElem? hd)
          simpa using this
      simp only [this]
      split
      · split <;> simp
      · simp

/-! ### memo slots -/

/-- every filled memo slot holds the value of the method for the receiver as it is now and the arguments recorded
    with it; objects that do not exist yet have no memo -/
structure MemoInv (env : Env) (st : State) : Prop where
  sound : ∀ i m key v, st.memo i m = some (key, v) → v = env.f m (obs st i) key
  fresh : ∀ i m, st.objs.length ≤ i → st.memo i m = none

theorem memoKind_keyed {env : Env} (hk : env.memosKeyed = true) (m : Nat) : memoKind env m ≠ .keyedOnNothing := by
  unfold memoKind
  cases hd : env.methods[m]? with
  | none => simp
  | some d =>
    have := List.all_eq_true.mp hk d (List.mem_of_getElem? hd)
    simpa using this

theorem answer_eq {env : Env} {st : State} (hM : MemoInv env st) {m : Nat} (hk : memoKind env m ≠ .keyedOnNothing)
    (i k : Nat) : answer env st i m k = env.f m (obs st i) (argObs st k) := by
  unfold answer
  cases hkind : memoKind env m with
  | uncached => rfl
  | keyedOnNothing => exact absurd hkind hk
  | keyedOnArgs =>
    simp only
    cases hmemo : st.memo i m with
    | none => rfl
    | some e =>
      obtain ⟨key, v⟩ := e
      simp only
      split
      · rename_i heq
        rw [hM.sound i m key v hmemo, heq]
      · rfl

theorem query_memo {env : Env} {st : State} {i m k i' m' : Nat} {e : List Val × Val}
    (h : (step env st (.query i m k)).memo i' m' = some e) :
    st.memo i' m' = some e ∨ (i' = i ∧ m' = m ∧ i < st.objs.length ∧ e = (argObs st k, answer env st i m k)) := by
  simp only [step] at h
  split at h
  · rename_i hv
    split at h
    · exact Or.inl h
    · rename_i r hr
      have ha : argObs st k = st.heap r := by simp [argObs, hr]
      have key : ∀ st1 : State,
          (st1 = st ∨ st1 = setMemo st i m (some (st.heap r, answer env st i m k))) →
          (if mutatesArg env m then st1.write r (st.heap r ++ [0]) else st1).memo i' m' = some e →
          st.memo i' m' = some e ∨ (i' = i ∧ m' = m ∧ i < st.objs.length ∧ e = (argObs st k, answer env st i m k)) := by
        intro st1 h1 h2
        have h3 : st1.memo i' m' = some e := by
          split at h2
          · exact h2
          · exact h2
        rcases h1 with h1 | h1
        · subst h1; exact Or.inl h3
        · subst h1
          simp only [setMemo] at h3
          split at h3
          · rename_i hc
            right
            refine ⟨hc.1, hc.2, hv.1, ?_⟩
            rw [ha]
            exact (Option.some.inj h3).symm
          · exact Or.inl h3
      apply key _ _ h
      split
      · exact Or.inl rfl
      · exact Or.inr rfl
      · split
        · exact Or.inl rfl
        · exact Or.inr rfl
  · exact Or.inl h

theorem step_memoInv {env : Env} (hs : env.classesSafe = true) (hk : env.memosKeyed = true) {st : State}
    (hI : Inv st) (hM : MemoInv env st) (op : Op) (hraw : op.isRaw = false) : MemoInv env (step env st op) := by
  -- memo entries of operations that do not touch the memo table
  have keep : ∀ (hmemo : (step env st op).memo = st.memo)
      (hne : ∀ j f v, op ≠ .mutate j f v ∧ op ≠ .mutateRaw j f v), MemoInv env (step env st op) := by
    intro hmemo hne
    constructor
    · intro i m key v h
      rw [hmemo] at h
      have hi : i < st.objs.length := by
        apply Classical.byContradiction
        intro hc
        have := hM.fresh i m (by omega)
        rw [this] at h; cases h
      rw [step_obs hs hI op i hi (hne i)]
      exact hM.sound i m key v h
    · intro i m hi
      rw [hmemo]
      exact hM.fresh i m (Nat.le_trans (step_objs_length st op) hi)
  cases op with
  | newArg content =>
    exact keep rfl (by intro j f v; constructor <;> intro h <;> cases h)
  | construct c args =>
    apply keep _ (by intro j f v; constructor <;> intro h <;> cases h)
    simp only [step]
    split
    · rfl
    · rename_i d hd
      obtain ⟨hp, _⟩ := classesSafe_get hs hd
      exact (buildFields_safe env c d.params 0 args st hp).2.memo
  | constructFrom c src =>
    apply keep _ (by intro j f v; constructor <;> intro h <;> cases h)
    simp only [step]
    split
    · rename_i d o hd ho
      obtain ⟨_, hc⟩ := classesSafe_get hs hd
      simp only [hc, if_true]
      exact (copyFields_spec o.fields st).2.1.memo
    · rfl
  | mutateRaw i f v => simp [Op.isRaw] at hraw
  | mutate i f v =>
    constructor
    · intro i' m key w h
      have hmem : st.memo i' m = some (key, w) ∧ (i' ≠ i ∨ (step env st (.mutate i f v)) = st) := by
        simp only [step] at h ⊢
        split at h
        · rename_i hn
          exact ⟨h, Or.inr (by simp)⟩
        · rename_i o ho
          split at h
          · rename_i hn
            exact ⟨h, Or.inr (by simp)⟩
          · rename_i r hr
            simp only [clearMemo] at h
            split at h
            · cases h
            · rename_i hne
              exact ⟨h, Or.inl hne⟩
      obtain ⟨h1, h2⟩ := hmem
      have hi : i' < st.objs.length := by
        apply Classical.byContradiction
        intro hc
        have := hM.fresh i' m (by omega)
        rw [this] at h1; cases h1
      rcases h2 with h2 | h2
      · rw [step_obs hs hI _ i' hi (by
          intro f' v'; constructor
          · intro hc; cases hc; exact h2 rfl
          · intro hc; cases hc)]
        exact hM.sound i' m key w h1
      · rw [h2]; exact hM.sound i' m key w h1
    · intro i' m hi
      have hi' := Nat.le_trans (step_objs_length (env := env) st (.mutate i f v)) hi
      have := hM.fresh i' m hi'
      simp only [step]
      split
      · exact this
      · split
        · exact this
        · simp only [clearMemo]
          split
          · rfl
          · exact this
  | query i m k =>
    constructor
    · intro i' m' key w h
      have hobs : ∀ j, j < st.objs.length → obs (step env st (.query i m k)) j = obs st j := by
        intro j hj
        exact step_obs hs hI _ j hj (by intro f v; constructor <;> intro hc <;> cases hc)
      rcases query_memo h with h1 | ⟨h1, h2, h3, h4⟩
      · have hi : i' < st.objs.length := by
          apply Classical.byContradiction
          intro hc
          have := hM.fresh i' m' (by omega)
          rw [this] at h1; cases h1
        rw [hobs i' hi]
        exact hM.sound i' m' key w h1
      · subst h1; subst h2
        rw [hobs i' h3]
        have := answer_eq hM (memoKind_keyed hk m') i' k
        simp only [Prod.mk.injEq] at h4
        rw [h4.2, h4.1, this]
    · intro i' m' hi
      have hi' := Nat.le_trans (step_objs_length (env := env) st (.query i m k)) hi
      cases hc : (step env st (.query i m k)).memo i' m' with
      | none => rfl
      | some e =>
        rcases query_memo hc with h1 | ⟨h1, _, h3, _⟩
        · rw [hM.fresh i' m' hi'] at h1; cases h1
        · omega

theorem memoInv_init (env : Env) (d : Nat) (dflt : Nat → List Val) : MemoInv env (init d dflt) :=
  ⟨by intro i m key v h; simp [init] at h, by intro i m _; rfl⟩

theorem run_memoInv {env : Env} (hs : env.classesSafe = true) (hk : env.memosKeyed = true) :
    ∀ (ops : List Op) {st : State}, Inv st → MemoInv env st → (ops.all fun o => !o.isRaw) = true →
      Inv (run env st ops) ∧ MemoInv env (run env st ops) := by
  intro ops
  induction ops with
  | nil => intro st h1 h2 _; exact ⟨h1, h2⟩
  | cons op ops ih =>
    intro st h1 h2 h3
    simp only [List.all_cons, Bool.and_eq_true, Bool.not_eq_true'] at h3
    exact ih (step_inv hs h1 op) (step_memoInv hs hk h1 h2 op h3.1) h3.2

theorem run_inv {env : Env} (hs : env.classesSafe = true) : ∀ (ops : List Op) {st : State}, Inv st →
    Inv (run env st ops) := by
  intro ops
  induction ops with
  | nil => intro st h; exact h
  | cons op ops ih => intro st h; exact ih (step_inv hs h op)

end Embit.Heap
