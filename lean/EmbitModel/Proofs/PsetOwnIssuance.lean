import EmbitModel.Proofs.PsetV0ParseWF
/-
  C18 (round 7, fix `c18-kf1`): `LInputScope.read_value` validates the issuance fields a transaction holds verbatim
  (`pset 01` / `pset 0b`: 33 bytes, prefix 08 / 09; `pset 0c` / `pset 0d`: 32 bytes). Hence the issuance an input scope of
  ANY parsed PSET builds from fields of its own (`LInputScope.asset_issuance`) is one an Elements transaction can hold
  (`WFIssuance`): it is written and read back unchanged.
-/
set_option linter.unusedSimpArgs false
set_option linter.unusedVariables false
namespace Embit
open Model Spec.LWire

/-- every liquid field of the table passed the checks of `read_value` -/
def LfOK (lf : List (LInField × Bytes)) : Prop :=
  ∀ e ∈ lf, lenOK e.1.len e.2 = true ∧ e.1.pfxOK e.2 = true

/-- one step of `read_value` leaves the liquid table alone or appends a field that passed the checks -/
theorem LInScope.addPair_lf (ko : KeyOps) (s s' : LInScope) (k v : Bytes) (h : LInScope.addPair ko s k v = some s') :
    s'.lf = s.lf ∨ ∃ f, s'.lf = s.lf ++ [(f, v)] ∧ lenOK f.len v = true ∧ f.pfxOK v = true := by
  unfold LInScope.addPair at h
  repeat' (split at h)
  all_goals (try (simp at h; done))
  all_goals (simp only [Option.some.injEq] at h; subst h)
  all_goals (try (left; rfl; done))
  rename_i f _ _ hc
  right
  exact ⟨f, rfl, by simpa using hc⟩

theorem LInScope.addPair_lfOK (ko : KeyOps) (s s' : LInScope) (k v : Bytes) (hw : LfOK s.lf)
    (h : LInScope.addPair ko s k v = some s') : LfOK s'.lf := by
  rcases LInScope.addPair_lf ko s s' k v h with e | ⟨f, e, h1, h2⟩
  · rw [e]; exact hw
  · rw [e]; exact forall_snoc (P := fun e : LInField × Bytes => lenOK e.1.len e.2 = true ∧ e.1.pfxOK e.2 = true) hw ⟨h1, h2⟩

theorem LInScope.addPairs_lfOK (ko : KeyOps) : ∀ (kvs : List KV) (s s' : LInScope), LfOK s.lf →
    LInScope.addPairs ko s kvs = some s' → LfOK s'.lf := by
  intro kvs
  induction kvs with
  | nil => intro s s' hw h; simp [LInScope.addPairs] at h; subst h; exact hw
  | cons kv kvs ih =>
    intro s s' hw h
    obtain ⟨k, v⟩ := kv
    simp only [LInScope.addPairs] at h
    split at h
    · simp at h
    · rename_i s1 h1
      exact ih s1 s' (LInScope.addPair_lfOK ko s s1 k v hw h1) h

theorem lseedIn_lf (tx : Option LTx) (j : Nat) : (lseedIn tx j).lf = [] := by
  unfold lseedIn
  repeat' split
  all_goals rfl

/-- every input scope of a parsed PSET (any version) holds only liquid fields that passed the checks -/
theorem LPset.parse_lfOK (ko : KeyOps) (b : Bytes) (p : LPset) (h : LPset.parse ko b = some p) :
    ∀ s ∈ p.inputs, LfOK s.lf := by
  obtain ⟨g, kin, kout, tx, unk, gs, eb, wg, ws, hgf, hpu, hver, e1, e2, e3, e4, l1, l2, l3, l4, fi, fo⟩ :=
    LPset.parse_decomp ko b p h
  intro s hs
  obtain ⟨j, hj⟩ := List.mem_iff_getElem?.mp hs
  have hjl : j < p.inputs.length := (List.getElem?_eq_some_iff.mp hj).1
  obtain ⟨kvs, s', a1, a2, a3⟩ := fi j hjl
  rw [hj] at a2; simp at a2; subst a2
  exact LInScope.addPairs_lfOK ko kvs _ s (by rw [lseedIn_lf]; intro e he; cases he) a3

theorem lfOK_len {lf : List (LInField × Bytes)} (h : LfOK lf) (f : LInField) (v : Bytes) (n : Nat)
    (hv : lget lf f = some v) (hn : f.len = some n) : v.length = n := by
  have := (h (f, v) (lget_mem lf f v hv)).1
  simpa [hn, lenOK] using this

theorem lfOK_commit {lf : List (LInField × Bytes)} (h : LfOK lf) (f : LInField) (v : Bytes)
    (hf : f = .issueCommitment ∨ f = .tokenCommitment) (hv : lget lf f = some v) : WFCommit (.conf v) := by
  have h1 := (h (f, v) (lget_mem lf f v hv)).1
  have h2 := (h (f, v) (lget_mem lf f v hv)).2
  rcases hf with rfl | rfl
  · simp [LInField.len, lenOK, LInField.pfxOK] at h1 h2
    refine ⟨h1, ?_, ?_⟩ <;> rcases h2 with e | e <;> simp [e]
  · simp [LInField.len, lenOK, LInField.pfxOK] at h1 h2
    refine ⟨h1, ?_, ?_⟩ <;> rcases h2 with e | e <;> simp [e]

/-- the issuance a scope builds from validated fields of its own is one a transaction can hold -/
theorem LInScope.assetIssuance_wf (s : LInScope) (hw : LfOK s.lf) (a : Issuance) (ha : s.assetIssuance = some a) :
    WFIssuance a := by
  unfold LInScope.assetIssuance at ha
  simp only [] at ha
  split at ha
  · simp only [Option.some.injEq] at ha
    subst ha
    refine ⟨?_, ?_, ?_, ?_⟩
    · simp only []
      split
      · rename_i ht
        cases hv : lget s.lf .issueNonce with
        | none => simp [hv, truthyB] at ht
        | some v => simpa using lfOK_len hw .issueNonce v 32 hv rfl
      · simp
    · simp only []
      split
      · rename_i ht
        cases hv : lget s.lf .issueEntropy with
        | none => simp [hv, truthyB] at ht
        | some v => simpa using lfOK_len hw .issueEntropy v 32 hv rfl
      · simp
    · simp only []
      split
      · rename_i ht
        cases hv : lget s.lf .issueCommitment with
        | none => simp [hv, truthyB] at ht
        | some v => simpa using lfOK_commit hw .issueCommitment v (Or.inl rfl) hv
      · cases hv : lget s.lf .issueValue with
        | none => simp [LInScope.geti, hv, WFCommit]
        | some v =>
          simp only [LInScope.geti, hv, Option.map_some, WFCommit]
          exact ofLe_lt64 (lfOK_len hw .issueValue v 8 hv rfl)
    · simp only []
      split
      · rename_i ht
        cases hv : lget s.lf .tokenCommitment with
        | none => simp [hv, truthyB] at ht
        | some v => simpa using lfOK_commit hw .tokenCommitment v (Or.inr rfl) hv
      · cases hv : lget s.lf .tokenValue with
        | none => simp [LInScope.geti, hv, WFCommit]
        | some v =>
          simp only [LInScope.geti, hv, Option.map_some, WFCommit]
          exact ofLe_lt64 (lfOK_len hw .tokenValue v 8 hv rfl)
  · simp at ha

end Embit
