import EmbitModel.Model.Descriptor
/-
  Helper lemmas for the print/parse theorems of C12: BytesIO zipper, `read_until`, `split`/`join`, `int()` of
  `%d`, hex, derivation steps, key origin, `Key.read_from` against `Key.to_string`, the key-only descriptor forms.
-/
namespace Embit.Model.Descriptor
open Embit

/-! ### streams -/

theorem readUntilAux_stop (stops : List Char) : ∀ (s : Str) (b : Str) (c : Char) (r : Str),
    (∀ x ∈ s, x ∉ stops) → c ∈ stops →
    readUntilAux stops b (s ++ c :: r) = (s, some c, ⟨c :: (s.reverse ++ b), r⟩) := by
  intro s
  induction s with
  | nil => intro b c r _ hc; simp [readUntilAux, hc]
  | cons x xs ih =>
    intro b c r hs hc
    have hx : x ∉ stops := hs x List.mem_cons_self
    simp only [List.cons_append, readUntilAux, List.contains_iff_mem, hx, if_false]
    rw [ih (x :: b) c r (fun y hy => hs y (List.mem_cons_of_mem _ hy)) hc]
    simp

theorem readUntil_stop (stops : List Char) (s b : Str) (c : Char) (r : Str)
    (hs : ∀ x ∈ s, x ∉ stops) (hc : c ∈ stops) :
    readUntil stops ⟨b, s ++ c :: r⟩ = (s, some c, ⟨c :: (s.reverse ++ b), r⟩) :=
  readUntilAux_stop stops s b c r hs hc

/-- `unread` after reading up to and including `c` -/
theorem unread_after (c : Char) (b r : Str) : Stream.unread ⟨c :: b, r⟩ = some ⟨b, c :: r⟩ := rfl

/-! ### split / join -/

theorem splitOn_no_sep (sep : Char) : ∀ (s : Str), (∀ x ∈ s, x ≠ sep) → splitOn sep s = [s] := by
  intro s
  induction s with
  | nil => intro _; rfl
  | cons c r ih =>
    intro h
    have hc : c ≠ sep := h c List.mem_cons_self
    simp [splitOn, hc, ih (fun x hx => h x (List.mem_cons_of_mem _ hx))]

theorem splitOn_append (sep : Char) : ∀ (s : Str) (t : Str), (∀ x ∈ s, x ≠ sep) →
    splitOn sep (s ++ sep :: t) = s :: splitOn sep t := by
  intro s
  induction s with
  | nil => intro t _; simp [splitOn]
  | cons c r ih =>
    intro t h
    have hc : c ≠ sep := h c List.mem_cons_self
    simp [splitOn, hc, ih t (fun x hx => h x (List.mem_cons_of_mem _ hx))]

theorem splitOn_joinWith (sep : Char) : ∀ (parts : List Str), parts ≠ [] →
    (∀ p ∈ parts, ∀ x ∈ p, x ≠ sep) → splitOn sep (joinWith sep parts) = parts := by
  intro parts
  induction parts with
  | nil => intro h; exact absurd rfl h
  | cons p ps ih =>
    intro _ hall
    cases ps with
    | nil => simpa [joinWith] using splitOn_no_sep sep p (hall p List.mem_cons_self)
    | cons q qs =>
      simp only [joinWith]
      rw [splitOn_append sep p _ (hall p List.mem_cons_self)]
      rw [ih (by simp) (fun p' hp' => hall p' (List.mem_cons_of_mem _ hp'))]

/-! ### numbers -/

theorem digitVal_digitChar (d : Nat) (h : d < 10) : digitVal (digitChar d) = some d := by
  have : ∀ d : Fin 10, digitVal (digitChar d.val) = some d.val := by decide
  exact this ⟨d, h⟩

theorem digitChar_ne (d : Nat) (h : d < 10) (c : Char) (hc : digitVal c = none) : digitChar d ≠ c := by
  intro he
  rw [← he, digitVal_digitChar d h] at hc
  cases hc

/-- decimal digits of `n`, most significant first, onto `acc` -/
theorem showNatAux_spec : ∀ (fuel n : Nat) (acc : Str), n < fuel →
    showNatAux fuel n acc = showNatAux fuel n [] ++ acc := by
  intro fuel
  induction fuel with
  | zero => intro n acc h; omega
  | succ f ih =>
    intro n acc h
    simp only [showNatAux]
    split
    · simp
    · rw [ih (n / 10) (digitChar (n % 10) :: acc) (by omega), ih (n / 10) [digitChar (n % 10)] (by omega)]
      simp

theorem showNatAux_fuel : ∀ (f1 f2 n : Nat) (acc : Str), n < f1 → n < f2 →
    showNatAux f1 n acc = showNatAux f2 n acc := by
  intro f1
  induction f1 with
  | zero => intro f2 n acc h; omega
  | succ f ih =>
    intro f2 n acc h1 h2
    cases f2 with
    | zero => omega
    | succ g =>
      simp only [showNatAux]
      split
      · rfl
      · exact ih g (n / 10) _ (by omega) (by omega)

theorem showNat_lt10 (n : Nat) (h : n < 10) : showNat n = [digitChar n] := by
  simp [showNat, showNatAux, h]

theorem showNat_ge10 (n : Nat) (h : ¬ n < 10) : showNat n = showNat (n / 10) ++ [digitChar (n % 10)] := by
  have e1 : showNat n = showNatAux n (n / 10) [digitChar (n % 10)] := by
    simp only [showNat, showNatAux, h, if_false]
  have e2 : showNat (n / 10) = showNatAux n (n / 10) [] :=
    showNatAux_fuel (n / 10 + 1) n (n / 10) [] (by omega) (by omega)
  rw [e1, e2]
  exact showNatAux_spec n (n / 10) _ (by omega)

/-- all characters of `showNat n` are digits -/
theorem showNat_digits (n : Nat) : ∀ c ∈ showNat n, (digitVal c).isSome = true := by
  induction n using Nat.strongRecOn with
  | _ n ih =>
    by_cases h : n < 10
    · rw [showNat_lt10 n h]
      intro c hc
      simp only [List.mem_singleton] at hc
      subst hc
      simp [digitVal_digitChar n h]
    · rw [showNat_ge10 n h]
      intro c hc
      simp only [List.mem_append, List.mem_singleton] at hc
      cases hc with
      | inl h1 => exact ih (n / 10) (by omega) c h1
      | inr h2 => subst h2; simp [digitVal_digitChar (n % 10) (by omega)]

theorem showNat_ne_nil (n : Nat) : showNat n ≠ [] := by
  by_cases h : n < 10
  · rw [showNat_lt10 n h]; simp
  · rw [showNat_ge10 n h]; simp

/-- value of a digit string -/
def digitsVal : Nat → Str → Nat
  | acc, [] => acc
  | acc, c :: r => digitsVal (10 * acc + (digitVal c).getD 0) r

theorem pyDigits_plain : ∀ (s : Str) (acc : Nat) (prev : Bool), (∀ c ∈ s, (digitVal c).isSome = true) →
    (s ≠ [] ∨ prev = true) → pyDigits acc prev s = some (digitsVal acc s) := by
  intro s
  induction s with
  | nil =>
    intro acc prev _ h
    cases h with
    | inl h1 => exact absurd rfl h1
    | inr h2 => simp [pyDigits, h2, digitsVal]
  | cons c r ih =>
    intro acc prev hd _
    have hc := hd c List.mem_cons_self
    cases hv : digitVal c with
    | none => rw [hv] at hc; cases hc
    | some d =>
      simp only [pyDigits, hv, digitsVal, Option.getD_some]
      exact ih _ true (fun x hx => hd x (List.mem_cons_of_mem _ hx)) (Or.inr rfl)

theorem digitsVal_append (s : Str) (acc : Nat) (c : Char) :
    digitsVal acc (s ++ [c]) = 10 * digitsVal acc s + (digitVal c).getD 0 := by
  induction s generalizing acc with
  | nil => rfl
  | cons x xs ih => simp [digitsVal, ih]

theorem digitsVal_showNat (n : Nat) : digitsVal 0 (showNat n) = n := by
  induction n using Nat.strongRecOn with
  | _ n ih =>
    by_cases h : n < 10
    · rw [showNat_lt10 n h]
      simp [digitsVal, digitVal_digitChar n h]
    · rw [showNat_ge10 n h, digitsVal_append, ih (n / 10) (by omega), digitVal_digitChar _ (by omega)]
      simp only [Option.getD_some]
      omega

theorem isPySpace_digit (c : Char) (h : (digitVal c).isSome = true) : isPySpace c = false := by
  unfold digitVal at h
  split at h
  · rename_i hc
    have h1 : 48 ≤ c.toNat := hc.1
    have h2 : c.toNat ≤ 57 := hc.2
    simp [isPySpace]
    omega
  · cases h

theorem lstripWs_of_head (c : Char) (r : Str) (h : isPySpace c = false) : lstripWs (c :: r) = c :: r := by
  simp [lstripWs, h]

theorem rstripWs_digits : ∀ (s : Str), (∀ c ∈ s, (digitVal c).isSome = true) → rstripWs s = s := by
  intro s
  induction s with
  | nil => intro _; rfl
  | cons c r ih =>
    intro h
    have := ih (fun x hx => h x (List.mem_cons_of_mem _ hx))
    simp only [rstripWs, this, isPySpace_digit c (h c List.mem_cons_self), Bool.and_false, Bool.false_eq_true,
      if_false]

/-- `int("%d" % n) = n` -/
theorem pyInt_showNat (n : Nat) : pyInt (showNat n) = some (Int.ofNat n) := by
  have hd := showNat_digits n
  have hne := showNat_ne_nil n
  unfold pyInt
  cases hs : showNat n with
  | nil => exact absurd hs hne
  | cons c r =>
    rw [hs] at hd
    have hc := hd c List.mem_cons_self
    rw [lstripWs_of_head c r (isPySpace_digit c hc), rstripWs_digits (c :: r) hd]
    have hm : c ≠ '-' ∧ c ≠ '+' := by
      constructor <;> (intro he; subst he; revert hc; decide)
    simp only
    split
    · rename_i heq; cases heq; exact absurd rfl hm.1
    · rename_i heq; cases heq; exact absurd rfl hm.2
    · rw [pyDigits_plain (c :: r) 0 false hd (Or.inl (by simp)), ← hs, digitsVal_showNat]
      rfl

/-! ### hex -/

theorem hexVal_hexDigit (n : Nat) (h : n < 16) : hexVal (hexDigit n) = some n := by
  have : ∀ n : Fin 16, hexVal (hexDigit n.val) = some n.val := by decide
  exact this ⟨n, h⟩

theorem unhexlify_hexlify (b : Bytes) : unhexlify (hexlify b) = some b := by
  induction b with
  | nil => rfl
  | cons x xs ih =>
    have h1 : x.toNat / 16 < 16 := by have := x.toNat_lt; omega
    have h2 : x.toNat % 16 < 16 := by omega
    unfold unhexlify at ih ⊢
    simp only [hexlify, List.flatMap_cons, List.cons_append, List.nil_append, ofHexChars,
      hexVal_hexDigit _ h1, hexVal_hexDigit _ h2]
    have ih' : ofHexChars (List.flatMap (fun x => [hexDigit (x.toNat / 16), hexDigit (x.toNat % 16)]) xs) = some xs := ih
    rw [ih']
    have : UInt8.ofNat (16 * (x.toNat / 16) + x.toNat % 16) = x := by
      have : 16 * (x.toNat / 16) + x.toNat % 16 = x.toNat := by omega
      rw [this]
      simp
    simp only [bind, Option.bind, pure, this]

theorem hexlify_length (b : Bytes) : (hexlify b).length = 2 * b.length := by
  induction b with
  | nil => rfl
  | cons x xs ih => simp [hexlify, List.flatMap_cons] at ih ⊢; omega

/-- hex digits are not delimiters of the descriptor grammar -/
def isHexChar (c : Char) : Bool := (hexVal c).isSome

theorem hexDigit_isHex (n : Nat) (h : n < 16) : isHexChar (hexDigit n) = true := by
  simp [isHexChar, hexVal_hexDigit n h]

theorem hexlify_chars (b : Bytes) : ∀ c ∈ hexlify b, isHexChar c = true := by
  intro c hc
  simp only [hexlify, List.mem_flatMap] at hc
  obtain ⟨x, _, hx⟩ := hc
  have h1 : x.toNat / 16 < 16 := by have := x.toNat_lt; omega
  have h2 : x.toNat % 16 < 16 := by omega
  simp only [List.mem_cons, List.mem_nil_iff, or_false] at hx
  rcases hx with rfl | rfl
  · exact hexDigit_isHex _ h1
  · exact hexDigit_isHex _ h2

/-! ### one derivation index -/

theorem showNat_head (n : Nat) : ∃ c r, showNat n = c :: r ∧ (digitVal c).isSome = true := by
  cases hs : showNat n with
  | nil => exact absurd hs (showNat_ne_nil n)
  | cons c r => exact ⟨c, r, rfl, by have := showNat_digits n; rw [hs] at this; exact this c List.mem_cons_self⟩

theorem showNat_last (n : Nat) : ∃ c, (showNat n).getLast? = some c ∧ (digitVal c).isSome = true := by
  cases hl : (showNat n).getLast? with
  | none => simp [List.getLast?_eq_none_iff] at hl; exact absurd hl (showNat_ne_nil n)
  | some c => exact ⟨c, rfl, showNat_digits n c (List.mem_of_getLast? hl)⟩

theorem digit_not_marker (c : Char) (h : (digitVal c).isSome = true) :
    c ≠ '*' ∧ c ≠ '{' ∧ c ≠ '}' ∧ c ≠ '<' ∧ c ≠ '>' ∧ c ≠ 'h' ∧ c ≠ 'H' ∧ c ≠ '\'' ∧ c ≠ '/' ∧ c ≠ ',' ∧ c ≠ ')'
      ∧ c ≠ ';' ∧ c ≠ ']' ∧ c ≠ '[' ∧ c ≠ '(' ∧ c ≠ '#' := by
  refine ⟨?_, ?_, ?_, ?_, ?_, ?_, ?_, ?_, ?_, ?_, ?_, ?_, ?_, ?_, ?_, ?_⟩ <;>
    (intro he; subst he; revert h; decide)

theorem parseSetElem_showIndex (ah : Bool) (n : Nat) (hn : n < 2 ^ 32) (hh : n ≥ HARDENED → ah = true) :
    parseSetElem ah (showIndex n) = some (some n) := by
  unfold showIndex
  by_cases hge : n ≥ HARDENED
  · simp only [hge, if_true]
    obtain ⟨c, r, hs, hc⟩ := showNat_head (n - HARDENED)
    have hm := digit_not_marker c hc
    have hne : showNat (n - HARDENED) ++ ['h'] ≠ ['*'] := by
      rw [hs]
      intro he
      simp only [List.cons_append, List.cons.injEq] at he
      exact hm.1 he.1
    unfold parseSetElem
    rw [if_neg hne]
    have hhead : (showNat (n - HARDENED) ++ ['h']).head? = some c := by rw [hs]; rfl
    have hlast : (showNat (n - HARDENED) ++ ['h']).getLast? = some 'h' := by simp
    simp only [hhead, hlast]
    have hf : ¬ ((c = '{' ∧ 'h' = '}') ∨ (c = '<' ∧ 'h' = '>')) := by
      intro h
      rcases h with ⟨_, h2⟩ | ⟨_, h2⟩ <;> revert h2 <;> decide
    simp only [hh hge, List.dropLast_concat]
    have hb : n - HARDENED < HARDENED := by simp only [HARDENED] at hge ⊢; omega
    simp [hm.2.1, hm.2.2.2.1, pyInt_showNat]
    constructor
    · simp only [HARDENED] at hb ⊢; omega
    · simp only [HARDENED] at hge ⊢; omega
  · simp only [hge, if_false]
    obtain ⟨c, r, hs, hc⟩ := showNat_head n
    obtain ⟨l, hl, hlc⟩ := showNat_last n
    have hm := digit_not_marker c hc
    have hml := digit_not_marker l hlc
    have hne : showNat n ≠ ['*'] := by
      rw [hs]
      intro he
      simp only [List.cons.injEq] at he
      exact hm.1 he.1
    unfold parseSetElem
    rw [if_neg hne]
    have hhead : (showNat n).head? = some c := by rw [hs]; rfl
    simp only [hhead, hl]
    simp [hm.2.1, hm.2.2.2.1, hml.2.2.2.2.2.1, hml.2.2.2.2.2.2.1, hml.2.2.2.2.2.2.2.1, pyInt_showNat]
    simp only [HARDENED] at hge ⊢
    omega


/-! ### derivation steps: text -/

def stepText : Step → Option Str
  | .wild => some ['*']
  | .idx n => some (showIndex n)
  | .set l => (showSetElems l).map fun es => ['<'] ++ joinWith ';' es ++ ['>']

theorem joinWith_cons_cons (sep : Char) (x y : Str) (r : List Str) :
    joinWith sep (x :: y :: r) = x ++ sep :: joinWith sep (y :: r) := rfl

theorem flatMap_slash (ts : List Str) (h : ts ≠ []) :
    ts.flatMap (fun t => '/' :: t) = '/' :: joinWith '/' ts := by
  induction ts with
  | nil => exact absurd rfl h
  | cons t r ih =>
    cases r with
    | nil => simp [joinWith]
    | cons u v =>
      rw [List.flatMap_cons, ih (by simp), joinWith_cons_cons]
      simp

theorem showSteps_eq (ix : List Step) :
    showSteps ix = (mapOpt stepText ix).map fun ts => ts.flatMap (fun t => '/' :: t) := by
  induction ix with
  | nil => rfl
  | cons s r ih =>
    cases s with
    | wild =>
      simp only [showSteps, ih, mapOpt, stepText]
      cases mapOpt stepText r <;> simp
    | idx n =>
      simp only [showSteps, ih, mapOpt, stepText]
      cases mapOpt stepText r <;> simp
    | set l =>
      simp only [showSteps, ih, mapOpt, stepText]
      cases showSetElems l <;> cases mapOpt stepText r <;> simp

/-- the characters of a non-set step: digits, `h`, `*` -/
def plainChar (c : Char) : Bool := (digitVal c).isSome || c == 'h' || c == '*'

theorem showIndex_plain (n : Nat) : ∀ c ∈ showIndex n, plainChar c = true := by
  intro c hc
  unfold showIndex at hc
  split at hc
  · simp only [List.mem_append, List.mem_singleton] at hc
    cases hc with
    | inl h => simp [plainChar, showNat_digits _ c h]
    | inr h => subst h; simp [plainChar]
  · simp [plainChar, showNat_digits _ c hc]

theorem showIndex_ne_nil (n : Nat) : showIndex n ≠ [] := by
  unfold showIndex
  split
  · simp
  · exact showNat_ne_nil n

theorem plainChar_not (c : Char) (h : plainChar c = true) :
    c ≠ '/' ∧ c ≠ ',' ∧ c ≠ ')' ∧ c ≠ '<' ∧ c ≠ '{' ∧ c ≠ '>' ∧ c ≠ ';' ∧ c ≠ '}' := by
  simp only [plainChar, Bool.or_eq_true, beq_iff_eq] at h
  rcases h with (h | h) | h
  · have := digit_not_marker c h
    exact ⟨this.2.2.2.2.2.2.2.2.1, this.2.2.2.2.2.2.2.2.2.1, this.2.2.2.2.2.2.2.2.2.2.1, this.2.2.2.1,
      this.2.1, this.2.2.2.2.1, this.2.2.2.2.2.2.2.2.2.2.2.1, this.2.2.1⟩
  · subst h; decide
  · subst h; decide

/-! ### well-formed steps (what the parser produces and the printer can print) -/

def ElemOk (ah : Bool) (n : Nat) : Prop := n < 2 ^ 32 ∧ (n ≥ HARDENED → ah = true)

def StepOk (ah : Bool) : Step → Prop
  | .wild => True
  | .idx n => ElemOk ah n
  | .set l => l ≠ [] ∧ ∀ x ∈ l, x = none ∨ ∃ n, x = some n ∧ ElemOk ah n

theorem showSetElems_ok (ah : Bool) : ∀ (l : List (Option Nat)), (∀ x ∈ l, x = none ∨ ∃ n, x = some n ∧ ElemOk ah n) →
    ∃ es, showSetElems l = some es ∧ es.length = l.length ∧ mapOpt (parseSetElem ah) es = some l ∧
      (∀ e ∈ es, e ≠ [] ∧ ∀ c ∈ e, plainChar c = true) := by
  intro l
  induction l with
  | nil => intro _; exact ⟨[], rfl, rfl, rfl, fun e he => by cases he⟩
  | cons x r ih =>
    intro h
    obtain ⟨es, h1, h2, h3, h4⟩ := ih (fun y hy => h y (List.mem_cons_of_mem _ hy))
    rcases h x List.mem_cons_self with hx | ⟨n, hx, hn⟩
    · -- a wildcard inside the set: printed `*`, read back as `None`
      subst hx
      refine ⟨['*'] :: es, by simp [showSetElems, h1], by simp [h2], ?_, ?_⟩
      · simp [mapOpt, parseSetElem, h3]
      · intro e he
        cases he with
        | head => exact ⟨by simp, by intro c hc; simp at hc; subst hc; decide⟩
        | tail _ hm => exact h4 e hm
    · subst hx
      refine ⟨showIndex n :: es, by simp [showSetElems, h1], by simp [h2], ?_, ?_⟩
      · simp [mapOpt, parseSetElem_showIndex ah n hn.1 hn.2, h3]
      · intro e he
        cases he with
        | head => exact ⟨showIndex_ne_nil n, showIndex_plain n⟩
        | tail _ hm => exact h4 e hm

theorem joinWith_chars (sep : Char) (P : Char → Prop) : ∀ (parts : List Str),
    (∀ p ∈ parts, ∀ c ∈ p, P c) → P sep → ∀ c ∈ joinWith sep parts, P c := by
  intro parts
  induction parts with
  | nil => intro _ _ c hc; cases hc
  | cons p r ih =>
    intro h hs c hc
    cases r with
    | nil => exact h p List.mem_cons_self c (by simpa [joinWith] using hc)
    | cons q t =>
      rw [joinWith_cons_cons] at hc
      simp only [List.mem_append, List.mem_cons] at hc
      rcases hc with h1 | h2 | h3
      · exact h p List.mem_cons_self c h1
      · subst h2; exact hs
      · exact ih (fun p' hp' => h p' (List.mem_cons_of_mem _ hp')) hs c h3

/-- the text of one step: plain characters, or `<` … `>` around plain characters and `;` -/
def TextOk (t : Str) : Prop :=
  (t ≠ [] ∧ ∀ c ∈ t, plainChar c = true) ∨
    (∃ inner, t = '<' :: (inner ++ ['>']) ∧ ∀ c ∈ inner, plainChar c = true ∨ c = ';')

theorem TextOk.ne_nil {t : Str} (h : TextOk t) : t ≠ [] := by
  cases h with
  | inl h1 => exact h1.1
  | inr h2 => obtain ⟨inner, rfl, _⟩ := h2; simp

theorem TextOk.no_slash {t : Str} (h : TextOk t) : ∀ c ∈ t, c ≠ '/' := by
  intro c hc
  cases h with
  | inl h1 => exact (plainChar_not c (h1.2 c hc)).1
  | inr h2 =>
    obtain ⟨inner, rfl, hin⟩ := h2
    simp only [List.mem_cons, List.mem_append, List.mem_singleton, List.mem_nil_iff, or_false] at hc
    rcases hc with rfl | h | rfl
    · decide
    · cases hin c h with
      | inl hp => exact (plainChar_not c hp).1
      | inr hs => subst hs; decide
    · decide

/-- an element text parses back to its step -/
theorem parseElement_stepText (ah : Bool) (st : Step) (hok : StepOk ah st) :
    ∃ t, stepText st = some t ∧ parseElement ah t = some st ∧ TextOk t := by
  cases st with
  | wild =>
    exact ⟨['*'], rfl, by simp [parseElement], Or.inl ⟨by simp, by intro c hc; simp at hc; subst hc; decide⟩⟩
  | idx n =>
    refine ⟨showIndex n, rfl, ?_, Or.inl ⟨showIndex_ne_nil n, showIndex_plain n⟩⟩
    have hp := parseSetElem_showIndex ah n hok.1 hok.2
    -- head / last are plain characters
    cases hs : showIndex n with
    | nil => exact absurd hs (showIndex_ne_nil n)
    | cons c r =>
      have hc := showIndex_plain n c (by rw [hs]; exact List.mem_cons_self)
      have hcn := plainChar_not c hc
      have hlast : ∃ l, (c :: r).getLast? = some l ∧ plainChar l = true := by
        cases hl : (c :: r).getLast? with
        | none => simp at hl
        | some l => exact ⟨l, rfl, showIndex_plain n l (by rw [hs]; exact List.mem_of_getLast? hl)⟩
      obtain ⟨l, hl, hlp⟩ := hlast
      have hln := plainChar_not l hlp
      rw [hs] at hp
      unfold parseElement
      have hne : c :: r ≠ ['*'] ∨ True := Or.inr trivial
      by_cases hstar : c :: r = ['*']
      · -- "*" cannot be an index text: parseSetElem would give none
        rw [hstar] at hp
        simp [parseSetElem] at hp
      · rw [if_neg hstar]
        simp only [List.head?_cons, hl]
        simp [hcn.2.2.2.2.1, hcn.2.2.2.1, hp]
  | set l =>
    obtain ⟨hne, hall⟩ := hok
    obtain ⟨es, h1, h2, h3, h4⟩ := showSetElems_ok ah l hall
    have hes : es ≠ [] := by
      intro he; subst he
      cases l with
      | nil => exact hne rfl
      | cons _ _ => simp at h2
    refine ⟨['<'] ++ joinWith ';' es ++ ['>'], by simp [stepText, h1], ?_, ?_⟩
    · unfold parseElement
      have hstar : ['<'] ++ joinWith ';' es ++ ['>'] ≠ ['*'] := by simp
      rw [if_neg hstar]
      have hhead : (['<'] ++ joinWith ';' es ++ ['>']).head? = some '<' := rfl
      have hlast : (['<'] ++ joinWith ';' es ++ ['>']).getLast? = some '>' := by
        rw [List.getLast?_append]
        simp
      simp only [hhead, hlast]
      have hinner : ((['<'] ++ joinWith ';' es ++ ['>']).drop 1).dropLast = joinWith ';' es := by
        simp [List.dropLast_concat]
      have hsplit : splitOn ';' (joinWith ';' es) = es :=
        splitOn_joinWith ';' es hes (fun p hp c hc => (plainChar_not c ((h4 p hp).2 c hc)).2.2.2.2.2.2.1)
      simp [hinner, hsplit, h3]
    · refine Or.inr ⟨joinWith ';' es, by simp, ?_⟩
      intro c hc
      by_cases hsc : c = ';'
      · exact Or.inr hsc
      · left
        have := joinWith_chars ';' (fun c => plainChar c = true ∨ c = ';') es
          (fun p hp c' hc' => Or.inl ((h4 p hp).2 c' hc')) (Or.inr rfl) c hc
        cases this with
        | inl h => exact h
        | inr h => exact absurd h hsc

def StepsOk (ah : Bool) (ix : List Step) : Prop :=
  ix ≠ [] ∧ (∀ s ∈ ix, StepOk ah s) ∧ mkAllowed ix = some ix

theorem mapOpt_parseElement (ah : Bool) : ∀ (ix : List Step), (∀ s ∈ ix, StepOk ah s) →
    ∃ ts, mapOpt stepText ix = some ts ∧ mapOpt (parseElement ah) ts = some ix ∧ ts.length = ix.length ∧
      ∀ t ∈ ts, TextOk t := by
  intro ix
  induction ix with
  | nil => intro _; exact ⟨[], rfl, rfl, rfl, fun t ht => by cases ht⟩
  | cons s r ih =>
    intro h
    obtain ⟨t, h1, h2, h3⟩ := parseElement_stepText ah s (h s List.mem_cons_self)
    obtain ⟨ts, g1, g2, g3, g4⟩ := ih (fun x hx => h x (List.mem_cons_of_mem _ hx))
    refine ⟨t :: ts, by simp [mapOpt, h1, g1], by simp [mapOpt, h2, g2], by simp [g3], ?_⟩
    intro t' ht'
    cases ht' with
    | head => exact h3
    | tail _ hm => exact g4 t' hm

/-- `AllowedDerivation.from_string` inverts `__str__` (without its leading `/`) -/
theorem parseAllowed_showSteps (ah : Bool) (ix : List Step) (hok : StepsOk ah ix) :
    ∃ ts, ts ≠ [] ∧ (∀ t ∈ ts, TextOk t) ∧ showSteps ix = some ('/' :: joinWith '/' ts) ∧
      parseAllowed ah (joinWith '/' ts) = some (some ix) := by
  obtain ⟨hne, hall, hmk⟩ := hok
  obtain ⟨ts, g1, g2, g3, g4⟩ := mapOpt_parseElement ah ix hall
  have htne : ts ≠ [] := by
    intro he; subst he
    cases ix with
    | nil => exact hne rfl
    | cons _ _ => simp at g3
  refine ⟨ts, htne, g4, by rw [showSteps_eq, g1]; simp [flatMap_slash ts htne], ?_⟩
  unfold parseAllowed
  have hnonempty : (joinWith '/' ts).isEmpty = false := by
    cases ts with
    | nil => exact absurd rfl htne
    | cons t r =>
      have := (g4 t List.mem_cons_self).ne_nil
      cases r with
      | nil => cases t with
        | nil => exact absurd rfl this
        | cons _ _ => rfl
      | cons u v => cases t with
        | nil => exact absurd rfl this
        | cons _ _ => rfl
  simp only [hnonempty, Bool.false_eq_true, if_false]
  rw [splitOn_joinWith '/' ts htne (fun p hp => (g4 p hp).no_slash), g2]
  simp [hmk]


theorem TextOk.chars {t : Str} (h : TextOk t) : ∀ c ∈ t, c ≠ ',' ∧ c ≠ ')' ∧ c ≠ '{' := by
  intro c hc
  cases h with
  | inl h1 =>
    have := plainChar_not c (h1.2 c hc)
    exact ⟨this.2.1, this.2.2.1, this.2.2.2.2.1⟩
  | inr h2 =>
    obtain ⟨inner, rfl, hin⟩ := h2
    simp only [List.mem_cons, List.mem_append, List.mem_nil_iff, or_false] at hc
    rcases hc with rfl | h | rfl
    · decide
    · cases hin c h with
      | inl hp =>
        have := plainChar_not c hp
        exact ⟨this.2.1, this.2.2.1, this.2.2.2.2.1⟩
      | inr hs => subst hs; decide
    · decide

/-- the shape of a derivation text that `Key.read_from` relies on -/
theorem der_shape : ∀ (ts : List Str), ts ≠ [] → (∀ t ∈ ts, TextOk t) →
    (∀ c ∈ joinWith '/' ts, c ≠ ',' ∧ c ≠ ')' ∧ c ≠ '{') ∧
    ((∀ c ∈ joinWith '/' ts, c ≠ '<') ∨
      ∃ pre inner post, joinWith '/' ts = pre ++ '<' :: (inner ++ '>' :: post) ∧ (∀ c ∈ pre, c ≠ '<') ∧
        (∀ c ∈ inner, c ≠ '>')) := by
  intro ts
  induction ts with
  | nil => intro h; exact absurd rfl h
  | cons t r ih =>
    intro _ hall
    have ht := hall t List.mem_cons_self
    have shape_t : (∀ c ∈ t, c ≠ '<') ∨ ∃ inner, t = '<' :: (inner ++ ['>']) ∧ ∀ c ∈ inner, c ≠ '>' := by
      cases ht with
      | inl h1 => exact Or.inl (fun c hc => (plainChar_not c (h1.2 c hc)).2.2.2.1)
      | inr h2 =>
        obtain ⟨inner, he, hin⟩ := h2
        refine Or.inr ⟨inner, he, fun c hc => ?_⟩
        cases hin c hc with
        | inl hp => exact (plainChar_not c hp).2.2.2.2.2.1
        | inr hs => subst hs; decide
    cases r with
    | nil =>
      simp only [joinWith]
      refine ⟨ht.chars, ?_⟩
      cases shape_t with
      | inl h => exact Or.inl h
      | inr h =>
        obtain ⟨inner, he, hin⟩ := h
        exact Or.inr ⟨[], inner, [], by simp [he], by simp, hin⟩
    | cons u v =>
      obtain ⟨ih1, ih2⟩ := ih (by simp) (fun x hx => hall x (List.mem_cons_of_mem _ hx))
      rw [joinWith_cons_cons]
      constructor
      · intro c hc
        simp only [List.mem_append, List.mem_cons] at hc
        rcases hc with h | rfl | h
        · exact ht.chars c h
        · decide
        · exact ih1 c h
      · cases shape_t with
        | inr h =>
          obtain ⟨inner, he, hin⟩ := h
          exact Or.inr ⟨[], inner, '/' :: joinWith '/' (u :: v), by simp [he], by simp, hin⟩
        | inl h =>
          cases ih2 with
          | inl hno =>
            left
            intro c hc
            simp only [List.mem_append, List.mem_cons] at hc
            rcases hc with h1 | rfl | h1
            · exact h c h1
            · decide
            · exact hno c h1
          | inr hex =>
            obtain ⟨pre, inner, post, he, hp, hi⟩ := hex
            refine Or.inr ⟨t ++ '/' :: pre, inner, post, by simp [he], ?_, hi⟩
            intro c hc
            simp only [List.mem_append, List.mem_cons] at hc
            rcases hc with h1 | rfl | h1
            · exact h c h1
            · decide
            · exact hp c h1

theorem reverse_cons_append (c : Char) (s b : Str) : c :: (s.reverse ++ b) = (s ++ [c]).reverse ++ b := by simp

/-- `Key.read_from` after the origin: key text, then `/` and a derivation text, up to `,` or `)` -/
theorem readKeyBody_steps (kt : Str) (ts : List Str) (b : Str) (c : Char) (r : Str)
    (hkt : ∀ x ∈ kt, x ≠ ',' ∧ x ≠ ')' ∧ x ≠ '/') (hts : ts ≠ []) (hall : ∀ t ∈ ts, TextOk t)
    (hc : c = ',' ∨ c = ')') :
    readKeyBody ⟨b, kt ++ '/' :: (joinWith '/' ts ++ c :: r)⟩ =
      some (kt, joinWith '/' ts, ⟨(kt ++ '/' :: joinWith '/' ts).reverse ++ b, c :: r⟩) := by
  obtain ⟨hchars, hshape⟩ := der_shape ts hts hall
  generalize joinWith '/' ts = der at hchars hshape
  have hcne : c ≠ '{' ∧ c ≠ '<' ∧ c ≠ '/' := by
    rcases hc with rfl | rfl <;> decide
  unfold readKeyBody
  have s1 := readUntil_stop [',', ')', '/'] kt b '/' (der ++ c :: r)
    (fun x hx => by have := hkt x hx; simp [this.1, this.2.1, this.2.2]) (by simp)
  simp only [s1, if_true]
  cases hshape with
  | inl hno =>
    have s2 := readUntil_stop ['<', '{', ',', ')'] der ('/' :: (kt.reverse ++ b)) c r
      (fun x hx => by have := hchars x hx; simp [this.1, this.2.1, this.2.2, hno x hx])
      (by rcases hc with rfl | rfl <;> simp)
    simp only [s2]
    have e1 : (some c = some '{') = False := by simp [hcne.1]
    have e2 : (some c = some '<') = False := by simp [hcne.2.1]
    simp only [e1, e2, if_false, Stream.unread, Option.map_some]
    simp
  | inr hex =>
    obtain ⟨pre, inner, post, he, hp, hi⟩ := hex
    subst he
    have hcp : ∀ x ∈ pre ++ '<' :: (inner ++ '>' :: post), x ≠ ',' ∧ x ≠ ')' ∧ x ≠ '{' := hchars
    have s2 := readUntil_stop ['<', '{', ',', ')'] pre ('/' :: (kt.reverse ++ b)) '<'
      (inner ++ '>' :: post ++ c :: r)
      (fun x hx => by
        have := hcp x (by simp [hx])
        simp [this.1, this.2.1, this.2.2, hp x hx]) (by simp)
    have hrest : (pre ++ '<' :: (inner ++ '>' :: post)) ++ c :: r = pre ++ '<' :: (inner ++ '>' :: post ++ c :: r) := by
      simp
    rw [hrest]
    simp only [s2]
    have e1 : (some '<' = some '{') = False := by simp
    simp only [e1, if_false, if_true]
    have hr2 : inner ++ '>' :: post ++ c :: r = inner ++ '>' :: (post ++ c :: r) := by simp
    rw [hr2]
    have s3 := readUntil_stop ['>'] inner ('<' :: (pre.reverse ++ '/' :: (kt.reverse ++ b))) '>' (post ++ c :: r)
      (fun x hx => by simp [hi x hx]) (by simp)
    simp only [s3]
    have e3 : (some '>' = none) = False := by simp
    simp only [e3, if_false]
    have s4 := readUntil_stop [',', ')'] post ('>' :: (inner.reverse ++ '<' :: (pre.reverse ++ '/' :: (kt.reverse ++ b))))
      c r
      (fun x hx => by
        have := hcp x (by simp [hx])
        simp [this.1, this.2.1]) (by rcases hc with rfl | rfl <;> simp)
    simp only [s4, Stream.unread, Option.map_some]
    simp

/-- … and without a derivation -/
theorem readKeyBody_plain (kt : Str) (b : Str) (c : Char) (r : Str)
    (hkt : ∀ x ∈ kt, x ≠ ',' ∧ x ≠ ')' ∧ x ≠ '/') (hc : c = ',' ∨ c = ')') :
    readKeyBody ⟨b, kt ++ c :: r⟩ = some (kt, [], ⟨kt.reverse ++ b, c :: r⟩) := by
  unfold readKeyBody
  have s1 := readUntil_stop [',', ')', '/'] kt b c r
    (fun x hx => by have := hkt x hx; simp [this.1, this.2.1, this.2.2])
    (by rcases hc with rfl | rfl <;> simp)
  simp only [s1]
  have e : (some c = some '/') = False := by rcases hc with rfl | rfl <;> simp
  simp only [e, if_false, Stream.unread, Option.map_some]


/-! ### key origin -/

theorem rstripC_of_last (c : Char) : ∀ (s : Str), s.getLast? ≠ some c → rstripC c s = s := by
  intro s
  induction s with
  | nil => intro _; rfl
  | cons x xs ih =>
    intro h
    cases xs with
    | nil =>
      have hx : x ≠ c := by simpa using h
      simp [rstripC, hx]
    | cons y ys =>
      have h' : (y :: ys).getLast? ≠ some c := by simpa [List.getLast?_cons_cons] using h
      have e := ih h'
      have u : rstripC c (x :: y :: ys) =
          (if (rstripC c (y :: ys)).isEmpty && x = c then [] else x :: rstripC c (y :: ys)) := rfl
      rw [u, e]
      simp

def originElemText (n : Nat) : Str := showIndex n

theorem showOriginElem_ofNat (n : Nat) : showOriginElem (Int.ofNat n) = showIndex n := by
  unfold showOriginElem showIndex
  by_cases h : n ≥ HARDENED
  · have h1 : (Int.ofNat n) ≥ (HARDENED : Int) := by
      simp only [HARDENED, Int.ofNat_eq_natCast] at h ⊢
      omega
    have h2 : Int.ofNat n - (HARDENED : Int) = Int.ofNat (n - HARDENED) := by
      simp only [HARDENED, Int.ofNat_eq_natCast] at h ⊢
      omega
    simp only [h1, h, if_true, h2]
    rfl
  · have h1 : ¬ (Int.ofNat n) ≥ (HARDENED : Int) := by
      simp only [HARDENED, Int.ofNat_eq_natCast] at h ⊢
      omega
    simp only [h1, h, if_false]
    rfl

theorem parseDerItem_showIndex (n : Nat) : parseDerItem (showIndex n) = some (Int.ofNat n) := by
  unfold showIndex parseDerItem
  by_cases h : n ≥ HARDENED
  · simp only [h, if_true]
    have hl : (showNat (n - HARDENED) ++ ['h']).getLast? = some 'h' := by simp
    simp only [hl, List.dropLast_concat, pyInt_showNat, Option.map_some, beq_self_eq_true, Bool.true_or,
      Bool.or_true, if_true]
    have : Int.ofNat (n - HARDENED) + (HARDENED : Int) = Int.ofNat n := by
      simp only [HARDENED, Int.ofNat_eq_natCast] at h ⊢
      omega
    rw [this]
    simp
  · simp only [h, if_false]
    obtain ⟨l, hl, hlc⟩ := showNat_last n
    have hm := digit_not_marker l hlc
    simp only [hl]
    simp [hm.2.2.2.2.2.1, hm.2.2.2.2.2.2.1, hm.2.2.2.2.2.2.2.1, pyInt_showNat]

theorem showIndex_last (n : Nat) : ∃ l, (showIndex n).getLast? = some l ∧ l ≠ '/' := by
  unfold showIndex
  split
  · exact ⟨'h', by simp, by decide⟩
  · obtain ⟨l, hl, hlc⟩ := showNat_last n
    exact ⟨l, hl, (digit_not_marker l hlc).2.2.2.2.2.2.2.2.1⟩

/-- a normal origin: 4-byte fingerprint; the path elements are arbitrary integers, as `int()` produces them
    (C12 deepening: the non-negativity demanded here earlier was not needed: an origin element `-1` prints and parses back) -/
def OriginOk (o : Origin) : Prop := o.fingerprint.length = 4

theorem path_nat (p : List Int) (h : ∀ e ∈ p, 0 ≤ e) : ∃ ns : List Nat, p = ns.map Int.ofNat := by
  induction p with
  | nil => exact ⟨[], rfl⟩
  | cons e r ih =>
    obtain ⟨ns, hns⟩ := ih (fun x hx => h x (List.mem_cons_of_mem _ hx))
    have he := h e List.mem_cons_self
    refine ⟨e.toNat :: ns, ?_⟩
    simp only [List.map_cons, ← hns]
    congr 1
    exact (Int.toNat_of_nonneg he).symm

theorem showOrigin_eq (fp : Bytes) (ns : List Nat) :
    showOrigin ⟨fp, ns.map Int.ofNat⟩ = joinWith '/' (hexlify fp :: ns.map showIndex) := by
  unfold showOrigin
  simp only [List.flatMap_map]
  have : (ns.flatMap fun a => '/' :: showOriginElem (Int.ofNat a)) = (ns.map showIndex).flatMap (fun t => '/' :: t) := by
    rw [List.flatMap_map]
    congr 1
    funext a
    rw [showOriginElem_ofNat]
  rw [this]
  cases hn : ns.map showIndex with
  | nil => simp [joinWith]
  | cons t r =>
    rw [flatMap_slash (t :: r) (by simp), joinWith_cons_cons]

theorem hex_no_slash (b : Bytes) : ∀ c ∈ hexlify b, c ≠ '/' ∧ c ≠ ']' := by
  intro c hc
  have := hexlify_chars b c hc
  constructor <;> (intro he; subst he; revert this; decide)

theorem mapOpt_parseDerItem (ns : List Nat) : mapOpt parseDerItem (ns.map showIndex) = some (ns.map Int.ofNat) := by
  induction ns with
  | nil => rfl
  | cons n r ih => simp [mapOpt, parseDerItem_showIndex, ih]

theorem getLast?_append_cons (x : Str) (sep : Char) (y : Str) (hy : y ≠ []) :
    (x ++ sep :: y).getLast? = y.getLast? := by
  cases y with
  | nil => exact absurd rfl hy
  | cons a r =>
    rw [List.getLast?_append, List.getLast?_cons_cons]
    cases hl : (a :: r).getLast? with
    | none => simp at hl
    | some l => rfl

theorem joinWith_ne_nil (sep : Char) : ∀ (parts : List Str), parts ≠ [] → (∀ p ∈ parts, p ≠ []) →
    joinWith sep parts ≠ [] := by
  intro parts hne hall
  cases parts with
  | nil => exact absurd rfl hne
  | cons p r =>
    cases r with
    | nil => simpa [joinWith] using hall p List.mem_cons_self
    | cons q t => rw [joinWith_cons_cons]; simp

theorem joinWith_last (sep : Char) : ∀ (parts : List Str) (last : Str), parts.getLast? = some last →
    (∀ p ∈ parts, p ≠ []) → (joinWith sep parts).getLast? = last.getLast? := by
  intro parts
  induction parts with
  | nil => intro last h; simp at h
  | cons p r ih =>
    intro last hl hne
    cases r with
    | nil =>
      simp only [List.getLast?_singleton, Option.some.injEq] at hl
      subst hl
      rfl
    | cons q t =>
      rw [joinWith_cons_cons]
      have hl' : (q :: t).getLast? = some last := by simpa [List.getLast?_cons_cons] using hl
      have hne' : ∀ x ∈ q :: t, x ≠ [] := fun x hx => hne x (List.mem_cons_of_mem _ hx)
      rw [getLast?_append_cons p sep _ (joinWith_ne_nil sep (q :: t) (by simp) hne')]
      exact ih last hl' hne'

theorem showIndex_no_slash (n : Nat) : ∀ x ∈ showIndex n, x ≠ '/' :=
  fun x hx => (plainChar_not x (showIndex_plain n x hx)).1

theorem parsePathM_texts (ns : List Nat) : parsePathM (ns.map showIndex) = some (ns.map Int.ofNat) := by
  have hm : ∀ p ∈ ['m'] :: ns.map showIndex, ∀ x ∈ p, x ≠ '/' := by
    intro p hp x hx
    rw [List.mem_cons] at hp
    cases hp with
    | inl h =>
      subst h
      rw [List.mem_singleton] at hx
      subst hx
      decide
    | inr h =>
      rw [List.mem_map] at h
      obtain ⟨n, _, rfl⟩ := h
      exact showIndex_no_slash n x hx
  have hnn : ∀ p ∈ ['m'] :: ns.map showIndex, p ≠ [] := by
    intro p hp
    rw [List.mem_cons] at hp
    cases hp with
    | inl h => subst h; exact List.cons_ne_nil _ _
    | inr h =>
      rw [List.mem_map] at h
      obtain ⟨n, _, rfl⟩ := h
      exact showIndex_ne_nil n
  have hlast : (joinWith '/' (['m'] :: ns.map showIndex)).getLast? ≠ some '/' := by
    cases hl : (['m'] :: ns.map showIndex).getLast? with
    | none => simp at hl
    | some last =>
      rw [joinWith_last '/' _ last hl hnn]
      have hmem : last ∈ ['m'] :: ns.map showIndex := List.mem_of_getLast? hl
      intro hc
      exact hm last hmem '/' (List.mem_of_getLast? hc) rfl
  unfold parsePathM
  simp only []
  rw [rstripC_of_last '/' _ hlast, splitOn_joinWith '/' _ (by simp) hm]
  simp only [if_true]
  exact mapOpt_parseDerItem ns

/-! origin path elements as `int()` produces them: any integer (negative ones included) -/

theorem pyInt_showInt (e : Int) : pyInt (showInt e) = some e := by
  cases e with
  | ofNat n => exact pyInt_showNat n
  | negSucc n =>
    have hd := showNat_digits (n + 1)
    have hne := showNat_ne_nil (n + 1)
    show pyInt ('-' :: showNat (n + 1)) = _
    unfold pyInt
    have h1 : lstripWs ('-' :: showNat (n + 1)) = '-' :: showNat (n + 1) := lstripWs_of_head _ _ (by decide)
    have h2 : rstripWs ('-' :: showNat (n + 1)) = '-' :: showNat (n + 1) := by
      have hsp : isPySpace '-' = false := by decide
      have e : rstripWs ('-' :: showNat (n + 1)) = (if (rstripWs (showNat (n + 1))).isEmpty && isPySpace '-' then []
          else '-' :: rstripWs (showNat (n + 1))) := rfl
      rw [e, rstripWs_digits _ hd, hsp]
      simp
    rw [h1, h2]
    simp only
    rw [pyDigits_plain _ 0 false hd (Or.inl hne), digitsVal_showNat]
    rfl

def intChar (c : Char) : Bool := (digitVal c).isSome || c == '-'

theorem showInt_chars (e : Int) : ∀ c ∈ showInt e, intChar c = true := by
  intro c hc
  cases e with
  | ofNat n => simp [intChar, showNat_digits n c hc]
  | negSucc n =>
    have : c = '-' ∨ c ∈ showNat (n + 1) := by simpa [showInt] using hc
    rcases this with rfl | h
    · decide
    · simp [intChar, showNat_digits _ c h]

theorem showInt_ne_nil (e : Int) : showInt e ≠ [] := by
  cases e with
  | ofNat n => exact showNat_ne_nil n
  | negSucc n => simp [showInt]

theorem showInt_last (e : Int) : ∃ c, (showInt e).getLast? = some c ∧ (digitVal c).isSome = true := by
  cases e with
  | ofNat n => exact showNat_last n
  | negSucc n =>
    obtain ⟨c, hc, hd⟩ := showNat_last (n + 1)
    refine ⟨c, ?_, hd⟩
    show ('-' :: showNat (n + 1)).getLast? = some c
    cases hs : showNat (n + 1) with
    | nil => exact absurd hs (showNat_ne_nil _)
    | cons a r => rw [hs] at hc; rw [List.getLast?_cons_cons]; exact hc

/-- the characters of an origin path element: digits, `-`, `h` -/
def originChar (c : Char) : Bool := intChar c || c == 'h'

theorem originChar_not (c : Char) (h : originChar c = true) : c ≠ '/' ∧ c ≠ ']' := by
  simp only [originChar, intChar, Bool.or_eq_true, beq_iff_eq] at h
  rcases h with (h | h) | h
  · have := digit_not_marker c h
    exact ⟨this.2.2.2.2.2.2.2.2.1, this.2.2.2.2.2.2.2.2.2.2.2.2.1⟩
  · subst h; decide
  · subst h; decide

theorem showOriginElem_chars (e : Int) : ∀ c ∈ showOriginElem e, originChar c = true := by
  intro c hc
  unfold showOriginElem at hc
  split at hc
  · simp only [List.mem_append, List.mem_singleton] at hc
    rcases hc with h | h
    · simp [originChar, showInt_chars _ c h]
    · subst h; decide
  · simp [originChar, showInt_chars _ c hc]

theorem showOriginElem_ne_nil (e : Int) : showOriginElem e ≠ [] := by
  unfold showOriginElem
  split
  · simp
  · exact showInt_ne_nil e

theorem parseDerItem_showOriginElem (e : Int) : parseDerItem (showOriginElem e) = some e := by
  unfold showOriginElem parseDerItem
  by_cases h : e ≥ (HARDENED : Int)
  · simp only [h, if_true]
    have hl : (showInt (e - (HARDENED : Int)) ++ ['h']).getLast? = some 'h' := by simp
    simp only [hl, List.dropLast_concat, pyInt_showInt, Option.map_some, beq_self_eq_true, Bool.true_or,
      Bool.or_true, if_true]
    simp
  · simp only [h, if_false]
    obtain ⟨l, hl, hlc⟩ := showInt_last e
    have hm := digit_not_marker l hlc
    simp only [hl]
    simp [hm.2.2.2.2.2.1, hm.2.2.2.2.2.2.1, hm.2.2.2.2.2.2.2.1, pyInt_showInt]

theorem showOrigin_eqI (fp : Bytes) (p : List Int) :
    showOrigin ⟨fp, p⟩ = joinWith '/' (hexlify fp :: p.map showOriginElem) := by
  unfold showOrigin
  have : (p.flatMap fun a => '/' :: showOriginElem a) = (p.map showOriginElem).flatMap (fun t => '/' :: t) := by
    rw [List.flatMap_map]
  simp only [this]
  cases hn : p.map showOriginElem with
  | nil => simp [joinWith]
  | cons t r =>
    rw [flatMap_slash (t :: r) (by simp), joinWith_cons_cons]

theorem mapOpt_parseDerItemI (p : List Int) : mapOpt parseDerItem (p.map showOriginElem) = some p := by
  induction p with
  | nil => rfl
  | cons n r ih => simp [mapOpt, parseDerItem_showOriginElem, ih]

theorem showOriginElem_no_slash (e : Int) : ∀ x ∈ showOriginElem e, x ≠ '/' :=
  fun x hx => (originChar_not x (showOriginElem_chars e x hx)).1

theorem parsePathM_textsI (p : List Int) : parsePathM (p.map showOriginElem) = some p := by
  have hm : ∀ q ∈ ['m'] :: p.map showOriginElem, ∀ x ∈ q, x ≠ '/' := by
    intro q hq x hx
    rw [List.mem_cons] at hq
    cases hq with
    | inl h =>
      subst h
      rw [List.mem_singleton] at hx
      subst hx
      decide
    | inr h =>
      rw [List.mem_map] at h
      obtain ⟨n, _, rfl⟩ := h
      exact showOriginElem_no_slash n x hx
  have hnn : ∀ q ∈ ['m'] :: p.map showOriginElem, q ≠ [] := by
    intro q hq
    rw [List.mem_cons] at hq
    cases hq with
    | inl h => subst h; exact List.cons_ne_nil _ _
    | inr h =>
      rw [List.mem_map] at h
      obtain ⟨n, _, rfl⟩ := h
      exact showOriginElem_ne_nil n
  have hlast : (joinWith '/' (['m'] :: p.map showOriginElem)).getLast? ≠ some '/' := by
    cases hl : (['m'] :: p.map showOriginElem).getLast? with
    | none => simp at hl
    | some last =>
      rw [joinWith_last '/' _ last hl hnn]
      have hmem : last ∈ ['m'] :: p.map showOriginElem := List.mem_of_getLast? hl
      intro hc
      exact hm last hmem '/' (List.mem_of_getLast? hc) rfl
  unfold parsePathM
  simp only []
  rw [rstripC_of_last '/' _ hlast, splitOn_joinWith '/' _ (by simp) hm]
  simp only [if_true]
  exact mapOpt_parseDerItemI p

theorem parseOrigin_showOriginI (o : Origin) (hfp : o.fingerprint.length = 4) : parseOrigin (showOrigin o) = some o := by
  obtain ⟨fp, path⟩ := o
  rw [showOrigin_eqI]
  unfold parseOrigin
  have hparts : ∀ p ∈ hexlify fp :: path.map showOriginElem, ∀ x ∈ p, x ≠ '/' := by
    intro p hp x hx
    rw [List.mem_cons] at hp
    cases hp with
    | inl h => subst h; exact (hex_no_slash fp x hx).1
    | inr h =>
      rw [List.mem_map] at h
      obtain ⟨n, _, rfl⟩ := h
      exact showOriginElem_no_slash n x hx
  rw [splitOn_joinWith '/' _ (by simp) hparts]
  have hfp' : fp.length = 4 := hfp
  simp only [unhexlify_hexlify, hfp', ne_eq, not_true_eq_false, if_false, parsePathM_textsI, Option.map_some]

theorem parseOrigin_showOrigin (o : Origin) (hok : OriginOk o) : parseOrigin (showOrigin o) = some o :=
  parseOrigin_showOriginI o hok

variable {K : Type}

/-- the key's own text (between origin and derivation) as `Key.to_string` writes it -/
def keyText (ops : KeyOps K) (k : KeyExpr K) : Option Str :=
  match k.key with
  | .raw s => some s
  | .obj key =>
    match ops.kind key with
    | .pub => some (hexlify (if k.xonlyRepr then ((ops.sec key).drop 1).take 32 else ops.sec key))
    | _ => ops.text key

/-- a key expression the parser can have produced and the printer prints back to it (`tap`: taproot context,
    `hash`: argument of pk_h / pkh). The key text must not start with `[` when there is no origin in front of it
    (C12 deepening: behind an origin it may — a 40-character raw key hash is taken verbatim) -/
structure KeyNormal (ops : KeyOps K) (tap hash : Bool) (k : KeyExpr K) : Prop where
  origin_ok : ∀ o, k.origin = some o → OriginOk o
  /-- the key's text is free of the delimiters and is decoded to the key again (C10/C11: the codecs invert) -/
  text : ∃ kt, keyText ops k = some kt ∧ (k.origin = none → kt.head? ≠ some '[') ∧ kt ≠ [] ∧
    (∀ x ∈ kt, x ≠ ',' ∧ x ≠ ')' ∧ x ≠ '/') ∧
    (if hash then parseKeyHashText ops tap kt else parseKeyText ops tap kt) = some (k.key, k.xonlyRepr)
  xonly_tap : k.xonlyRepr = true → tap = true
  /-- a derivation only on an extended key, within the printable / parseable range -/
  deriv_ok : ∀ ix, k.deriv = some ix → k.key.hasDerive ops = true ∧ StepsOk (k.key.allowHardened ops) ix

theorem showKey_eq (ops : KeyOps K) (k : KeyExpr K) (kt : Str) (hkt : keyText ops k = some kt)
    (hd : ∀ ix, k.deriv = some ix → k.key.hasDerive ops = true) :
    showKey ops k =
      (match k.deriv with
        | none => some []
        | some ix => showSteps ix).map fun suf =>
        (match k.origin with
          | some o => ['['] ++ showOrigin o ++ [']']
          | none => []) ++ kt ++ suf := by
  unfold showKey
  unfold keyText at hkt
  cases ho : k.origin <;> cases hdv : k.deriv <;> cases hk : k.key <;> simp only [hk] at hkt ⊢
  all_goals first
    | (have := hd _ hdv; simp [hk, KeyVal.hasDerive] at this; done)
    | (simp only [Option.some.injEq] at hkt; subst hkt; simp; done)
    | skip
  all_goals
    rename_i key
    cases hkind : ops.kind key <;> simp only [hkind] at hkt ⊢
  all_goals first
    | (have := hd _ hdv; simp [hk, KeyVal.hasDerive, hkind] at this; done)
    | (simp only [Option.some.injEq] at hkt; subst hkt; simp; done)
    | (simp [hkt]; done)
    | (simp only [hkt]; cases showSteps _ <;> simp; done)

theorem showOrigin_no_closeI (o : Origin) : ∀ x ∈ showOrigin o, x ≠ ']' := by
  obtain ⟨fp, path⟩ := o
  rw [showOrigin_eqI]
  apply joinWith_chars '/' (· ≠ ']')
  · intro p hp c hc
    rw [List.mem_cons] at hp
    cases hp with
    | inl h => subst h; exact (hex_no_slash fp c hc).2
    | inr h =>
      rw [List.mem_map] at h
      obtain ⟨n, _, rfl⟩ := h
      exact (originChar_not c (showOriginElem_chars n c hc)).2
  · decide

theorem showOrigin_no_close (o : Origin) (hok : OriginOk o) : ∀ x ∈ showOrigin o, x ≠ ']' :=
  showOrigin_no_closeI o

theorem KeyExpr.eta (k : KeyExpr K) (o : Option Origin) (d : Option (List Step)) (ho : k.origin = o)
    (hd : k.deriv = d) : (⟨o, k.key, d, k.xonlyRepr⟩ : KeyExpr K) = k := by
  cases k
  simp_all

/-- `Key.read_from` inverts `Key.to_string` in front of `,` or `)` -/
theorem readKey_showKey (ops : KeyOps K) (tap hash : Bool) (k : KeyExpr K) (hn : KeyNormal ops tap hash k)
    (b : Str) (c : Char) (r : Str) (hc : c = ',' ∨ c = ')') :
    ∃ t, showKey ops k = some t ∧
      readKey ops tap hash ⟨b, t ++ c :: r⟩ = some (k, ⟨t.reverse ++ b, c :: r⟩) := by
  obtain ⟨kt, hkt, hhead, hne, hchars, hparse⟩ := hn.text
  have hshow := showKey_eq ops k kt hkt (fun ix hix => (hn.deriv_ok ix hix).1)
  have hx : (k.xonlyRepr && tap) = k.xonlyRepr := by
    cases hxr : k.xonlyRepr with
    | false => rfl
    | true => simp [hn.xonly_tap hxr]
  -- the part after the origin
  have body : ∀ (b' : Str), ∃ suf,
      (match k.deriv with | none => some [] | some ix => showSteps ix) = some suf ∧
      ∃ der, readKeyBody ⟨b', kt ++ suf ++ c :: r⟩ = some (kt, der, ⟨(kt ++ suf).reverse ++ b', c :: r⟩) ∧
        parseAllowed (k.key.allowHardened ops) der = some k.deriv := by
    intro b'
    cases hdv : k.deriv with
    | none =>
      refine ⟨[], rfl, [], ?_, by simp [parseAllowed]⟩
      simpa using readKeyBody_plain kt b' c r hchars hc
    | some ix =>
      obtain ⟨ts, htne, hall, hs, hp⟩ := parseAllowed_showSteps _ ix (hn.deriv_ok ix hdv).2
      refine ⟨'/' :: joinWith '/' ts, hs, joinWith '/' ts, ?_, hp⟩
      have := readKeyBody_steps kt ts b' c r hchars htne hall hc
      simpa using this
  cases ho : k.origin with
  | none =>
    obtain ⟨suf, hsuf, der, hbody, hpa⟩ := body b
    refine ⟨kt ++ suf, by rw [hshow, hsuf, ho]; simp, ?_⟩
    unfold readKey
    obtain ⟨x, xs, rfl⟩ : ∃ x xs, kt = x :: xs := by
      cases kt with
      | nil => exact absurd rfl hne
      | cons x xs => exact ⟨x, xs, rfl⟩
    have hx0 : x ≠ '[' := by
      intro he; subst he; exact hhead ho rfl
    have hread : (Stream.read1 ⟨b, (x :: xs) ++ suf ++ c :: r⟩) = (some x, ⟨x :: b, xs ++ suf ++ c :: r⟩) := rfl
    simp only [hread, Option.some.injEq, hx0, if_false, Stream.unread, Option.map_some]
    have e : (x :: (xs ++ suf ++ c :: r)) = (x :: xs) ++ suf ++ c :: r := by simp
    rw [e, hbody]
    simp only [hparse, hpa]
    cases hdv : k.deriv with
    | none => simp [hx, KeyExpr.eta k _ _ ho hdv]
    | some ix =>
      have := (hn.deriv_ok ix hdv).1
      simp [this, hx, KeyExpr.eta k _ _ ho hdv]
  | some o =>
    have hoo := hn.origin_ok o ho
    obtain ⟨suf, hsuf, der, hbody, hpa⟩ := body (']' :: ((showOrigin o).reverse ++ '[' :: b))
    refine ⟨['['] ++ showOrigin o ++ [']'] ++ kt ++ suf, by rw [hshow, hsuf, ho]; simp, ?_⟩
    unfold readKey
    have hread : (Stream.read1 ⟨b, ['['] ++ showOrigin o ++ [']'] ++ kt ++ suf ++ c :: r⟩) =
        (some '[', ⟨'[' :: b, showOrigin o ++ ']' :: (kt ++ suf ++ c :: r)⟩) := by
      simp [Stream.read1]
    have hru := readUntil_stop [']'] (showOrigin o) ('[' :: b) ']' (kt ++ suf ++ c :: r)
      (fun x hx => by simpa using showOrigin_no_close o hoo x hx) (by simp)
    simp only [hread, if_true, hru, ne_eq, not_true_eq_false, if_false, parseOrigin_showOrigin o hoo,
      Option.map_some]
    have e : kt ++ suf ++ c :: r = kt ++ suf ++ c :: r := rfl
    rw [hbody]
    simp only [hparse, hpa]
    cases hdv : k.deriv with
    | none => simp [hx, KeyExpr.eta k _ _ ho hdv]
    | some ix =>
      have := (hn.deriv_ok ix hdv).1
      simp [this, hx, KeyExpr.eta k _ _ ho hdv]


/-! ### streams: `read(n)` then `seek(-k, 1)` -/

theorem readN_exact : ∀ (n : Nat) (b t r : Str), t.length = n →
    Stream.readN n ⟨b, t ++ r⟩ = (t, ⟨t.reverse ++ b, r⟩) := by
  intro n
  induction n with
  | zero => intro b t r h; cases t with
    | nil => simp [Stream.readN]
    | cons _ _ => simp at h
  | succ n ih =>
    intro b t r h
    cases t with
    | nil => simp at h
    | cons c cs =>
      simp only [List.cons_append, Stream.readN]
      rw [ih (c :: b) cs r (by simpa using h)]
      simp

/-- `q` = the characters consumed last, most recent first -/
theorem seekBack_spec : ∀ (k : Nat) (q b r : Str), q.length = k →
    Stream.seekBack k ⟨q ++ b, r⟩ = some ⟨b, q.reverse ++ r⟩ := by
  intro k
  induction k with
  | zero => intro q b r h; cases q with
    | nil => rfl
    | cons _ _ => simp at h
  | succ k ih =>
    intro q b r h
    cases q with
    | nil => simp at h
    | cons c q' =>
      simp only [List.cons_append, Stream.seekBack, Stream.unread]
      rw [ih q' b (c :: r) (by simpa using h)]
      simp

/-- `expectChar` on a matching character -/
theorem expectChar_ok (c : Char) (b r : Str) : expectChar c ⟨b, c :: r⟩ = some ⟨c :: b, r⟩ := by
  simp [expectChar, Stream.read1]

/-! ### the key-only descriptor forms -/

/-- `pkh(K)`, `wpkh(K)`, `sh(wpkh(K))`, `tr(K)` as embit stores them -/
inductive KeyForm | pkh | wpkh | shwpkh | tr
deriving DecidableEq

def KeyForm.desc (f : KeyForm) (k : KeyExpr K) : Desc K :=
  match f with
  | .pkh => ⟨none, false, false, some k, false, false, .empty⟩
  | .wpkh => ⟨none, false, false, some k, true, false, .empty⟩
  | .shwpkh => ⟨none, true, false, some k, true, false, .empty⟩
  | .tr => ⟨none, false, false, some k, false, true, .empty⟩

def KeyForm.tap : KeyForm → Bool
  | .tr => true
  | _ => false

def KeyForm.opening : KeyForm → Str
  | .pkh => ['p', 'k', 'h', '(']
  | .wpkh => ['w', 'p', 'k', 'h', '(']
  | .shwpkh => ['s', 'h', '(', 'w', 'p', 'k', 'h', '(']
  | .tr => ['t', 'r', '(']

def KeyForm.closing : KeyForm → Str
  | .shwpkh => [')', ')']
  | _ => [')']

theorem print_keyForm (ops : KeyOps K) (f : KeyForm) (k : KeyExpr K) (t : Str) (ht : showKey ops k = some t) :
    (f.desc k).print ops = some (f.opening ++ t ++ f.closing) := by
  cases f <;> simp [KeyForm.desc, Desc.print, showOptKey, ht, TapTree.truthy, KeyForm.opening, KeyForm.closing]

/-- the `start = s.read(7)` dispatch lands right after the opening -/
theorem readHead_keyForm (f : KeyForm) (t : Str) (ht : t.length ≥ 4) (r : Str) :
    ∃ hd, readHead ⟨[], f.opening ++ t ++ r⟩ = some (hd, ⟨f.opening.reverse, t ++ r⟩) ∧
      hd = (match f with | .pkh => Head.pkh | .wpkh => Head.wpkh | .shwpkh => Head.shwpkh | .tr => Head.tr) := by
  -- at least four characters of `t` are needed so that `read(7)` returns seven characters
  obtain ⟨a, b, c, d, t', rfl⟩ : ∃ a b c d t', t = a :: b :: c :: d :: t' := by
    match t, ht with
    | a :: b :: c :: d :: t', _ => exact ⟨a, b, c, d, t', rfl⟩
  cases f with
  | pkh =>
    refine ⟨.pkh, ?_, rfl⟩
    have h7 := readN_exact 7 [] ['p', 'k', 'h', '(', a, b, c] (d :: t' ++ r) rfl
    have hs := seekBack_spec 3 [c, b, a] ['(', 'h', 'k', 'p'] (d :: (t' ++ r)) rfl
    simp only [KeyForm.opening, List.cons_append, List.nil_append, List.reverse_cons, List.reverse_nil] at h7 hs ⊢
    unfold readHead
    simp only [h7]
    simp [isPrefix, hs]
  | wpkh =>
    refine ⟨.wpkh, ?_, rfl⟩
    have h7 := readN_exact 7 [] ['w', 'p', 'k', 'h', '(', a, b] (c :: d :: t' ++ r) rfl
    have hs := seekBack_spec 2 [b, a] ['(', 'h', 'k', 'p', 'w'] (c :: d :: (t' ++ r)) rfl
    simp only [KeyForm.opening, List.cons_append, List.nil_append, List.reverse_cons, List.reverse_nil] at h7 hs ⊢
    unfold readHead
    simp only [h7]
    simp [isPrefix, hs]
  | shwpkh =>
    refine ⟨.shwpkh, ?_, rfl⟩
    have h7 := readN_exact 7 [] ['s', 'h', '(', 'w', 'p', 'k', 'h'] ('(' :: a :: b :: c :: d :: t' ++ r) rfl
    simp only [KeyForm.opening, List.cons_append, List.nil_append] at h7 ⊢
    unfold readHead
    simp only [h7]
    simp [isPrefix, expectChar, Stream.read1]
  | tr =>
    refine ⟨.tr, ?_, rfl⟩
    have h7 := readN_exact 7 [] ['t', 'r', '(', a, b, c, d] (t' ++ r) rfl
    have hs := seekBack_spec 4 [d, c, b, a] ['(', 'r', 't'] (t' ++ r) rfl
    simp only [KeyForm.opening, List.cons_append, List.nil_append, List.reverse_cons, List.reverse_nil] at h7 hs ⊢
    unfold readHead
    simp only [h7]
    simp [isPrefix, hs]

/-- PRINT then PARSE, key-only forms: for a normal key expression (in the form's context) whose text has at least
    four characters, `Descriptor.from_string(str(d))` is `d` again -/
theorem print_parse_keyForm (ops : KeyOps K) (f : KeyForm) (k : KeyExpr K) (hn : KeyNormal ops f.tap false k)
    (hlen : ∀ t, showKey ops k = some t → t.length ≥ 4) :
    ∃ text, (f.desc k).print ops = some text ∧ Desc.parse ops text = some (f.desc k) := by
  cases f with
  | pkh =>
    obtain ⟨t, ht, hrk⟩ := readKey_showKey ops false false k hn KeyForm.pkh.opening.reverse ')' [] (Or.inr rfl)
    refine ⟨KeyForm.pkh.opening ++ t ++ KeyForm.pkh.closing, print_keyForm ops .pkh k t ht, ?_⟩
    obtain ⟨hd, hrh, hhd⟩ := readHead_keyForm .pkh t (hlen t ht) KeyForm.pkh.closing
    subst hhd
    unfold Desc.parse Desc.readFrom
    have hstream : Stream.ofStr (KeyForm.pkh.opening ++ t ++ KeyForm.pkh.closing)
        = ⟨[], KeyForm.pkh.opening ++ t ++ KeyForm.pkh.closing⟩ := rfl
    rw [hstream, hrh]
    simp only [KeyForm.closing] at hrk ⊢
    simp [hrk, expectClose, expectChar, Stream.read1, KeyForm.desc]
  | wpkh =>
    obtain ⟨t, ht, hrk⟩ := readKey_showKey ops false false k hn KeyForm.wpkh.opening.reverse ')' [] (Or.inr rfl)
    refine ⟨KeyForm.wpkh.opening ++ t ++ KeyForm.wpkh.closing, print_keyForm ops .wpkh k t ht, ?_⟩
    obtain ⟨hd, hrh, hhd⟩ := readHead_keyForm .wpkh t (hlen t ht) KeyForm.wpkh.closing
    subst hhd
    unfold Desc.parse Desc.readFrom
    have hstream : Stream.ofStr (KeyForm.wpkh.opening ++ t ++ KeyForm.wpkh.closing)
        = ⟨[], KeyForm.wpkh.opening ++ t ++ KeyForm.wpkh.closing⟩ := rfl
    rw [hstream, hrh]
    simp only [KeyForm.closing] at hrk ⊢
    simp [hrk, expectClose, expectChar, Stream.read1, KeyForm.desc]
  | shwpkh =>
    obtain ⟨t, ht, hrk⟩ := readKey_showKey ops false false k hn KeyForm.shwpkh.opening.reverse ')' [')'] (Or.inr rfl)
    refine ⟨KeyForm.shwpkh.opening ++ t ++ KeyForm.shwpkh.closing, print_keyForm ops .shwpkh k t ht, ?_⟩
    obtain ⟨hd, hrh, hhd⟩ := readHead_keyForm .shwpkh t (hlen t ht) KeyForm.shwpkh.closing
    subst hhd
    unfold Desc.parse Desc.readFrom
    have hstream : Stream.ofStr (KeyForm.shwpkh.opening ++ t ++ KeyForm.shwpkh.closing)
        = ⟨[], KeyForm.shwpkh.opening ++ t ++ KeyForm.shwpkh.closing⟩ := rfl
    rw [hstream, hrh]
    simp only [KeyForm.closing] at hrk ⊢
    simp [hrk, expectClose, expectChar, Stream.read1, KeyForm.desc]
  | tr =>
    obtain ⟨t, ht, hrk⟩ := readKey_showKey ops true false k hn KeyForm.tr.opening.reverse ')' [] (Or.inr rfl)
    refine ⟨KeyForm.tr.opening ++ t ++ KeyForm.tr.closing, print_keyForm ops .tr k t ht, ?_⟩
    obtain ⟨hd, hrh, hhd⟩ := readHead_keyForm .tr t (hlen t ht) KeyForm.tr.closing
    subst hhd
    unfold Desc.parse Desc.readFrom
    have hstream : Stream.ofStr (KeyForm.tr.opening ++ t ++ KeyForm.tr.closing)
        = ⟨[], KeyForm.tr.opening ++ t ++ KeyForm.tr.closing⟩ := rfl
    rw [hstream, hrh]
    simp only [KeyForm.closing] at hrk ⊢
    simp [hrk, expectClose, expectChar, Stream.read1, Stream.unread, KeyForm.desc]


theorem hexlify_cons (x : UInt8) (xs : Bytes) :
    hexlify (x :: xs) = hexDigit (x.toNat / 16) :: hexDigit (x.toNat % 16) :: hexlify xs := by
  simp [hexlify, List.flatMap_cons]

theorem isHex_not_delim (c : Char) (h : isHexChar c = true) : c ≠ ',' ∧ c ≠ ')' ∧ c ≠ '/' ∧ c ≠ '[' := by
  refine ⟨?_, ?_, ?_, ?_⟩ <;> (intro he; subst he; revert h; decide)

/-- the `text` condition of `KeyNormal` for a plain public key printed as SEC hex: all that is used of the key
    codec is that `PublicKey.parse` inverts `sec()` and that `sec()` is 33 bytes starting 02/03 or 65 bytes
    starting 04 (C10) -/
theorem keyText_pub_sec (ops : KeyOps K) (tap hash : Bool) (k : KeyExpr K) (key : K) (hk : k.key = .obj key)
    (hkind : ops.kind key = .pub) (hx : k.xonlyRepr = false)
    (hshape : ∃ x rest, ops.sec key = x :: rest ∧
      ((rest.length = 32 ∧ (x = 2 ∨ x = 3)) ∨ (rest.length = 64 ∧ x = 4)))
    (hparse : ops.parseSec (ops.sec key) = some key) :
    ∃ kt, keyText ops k = some kt ∧ kt.head? ≠ some '[' ∧ kt ≠ [] ∧
      (∀ x ∈ kt, x ≠ ',' ∧ x ≠ ')' ∧ x ≠ '/') ∧
      (if hash then parseKeyHashText ops tap kt else parseKeyText ops tap kt) = some (k.key, k.xonlyRepr) := by
  obtain ⟨x, rest, hsec, hlen⟩ := hshape
  refine ⟨hexlify (ops.sec key), by simp [keyText, hk, hkind, hx], ?_, ?_, ?_, ?_⟩
  · rw [hsec, hexlify_cons]
    have h1 : x.toNat / 16 < 16 := by have := x.toNat_lt; omega
    have := isHex_not_delim _ (hexDigit_isHex _ h1)
    simp only [List.head?_cons, ne_eq, Option.some.injEq]
    exact this.2.2.2
  · rw [hsec, hexlify_cons]; simp
  · intro c hc
    have := isHex_not_delim c (hexlify_chars _ c hc)
    exact ⟨this.1, this.2.1, this.2.2.1⟩
  · have hl : (hexlify (ops.sec key)).length = 66 ∨ (hexlify (ops.sec key)).length = 130 := by
      rw [hexlify_length, hsec]
      simp only [List.length_cons]
      rcases hlen with ⟨h32, _⟩ | ⟨h64, _⟩ <;> omega
    have hp2 : (hexlify (ops.sec key)).take 2 = ['0', '2'] ∨ (hexlify (ops.sec key)).take 2 = ['0', '3']
        ∨ (hexlify (ops.sec key)).take 2 = ['0', '4'] := by
      rw [hsec, hexlify_cons]
      rcases hlen with ⟨_, rfl | rfl⟩ | ⟨_, rfl⟩
      · left; rfl
      · right; left; rfl
      · right; right; rfl
    have hne40 : (hexlify (ops.sec key)).length ≠ 40 := by rcases hl with h | h <;> omega
    have core : parseKeyText ops tap (hexlify (ops.sec key)) = some (k.key, k.xonlyRepr) := by
      unfold parseKeyText
      have c1 : ((hexlify (ops.sec key)).length = 66 || (hexlify (ops.sec key)).length = 130) = true := by
        rcases hl with h | h <;> simp [h]
      have c2 : ((hexlify (ops.sec key)).take 2 = ['0', '2'] || (hexlify (ops.sec key)).take 2 = ['0', '3']
          || (hexlify (ops.sec key)).take 2 = ['0', '4']) = true := by
        rcases hp2 with h | h | h <;> simp [h]
      simp only [c1, c2, Bool.and_self, if_true, unhexlify_hexlify, hparse, Option.map_some, hk, hx]
    cases hash with
    | false => simpa using core
    | true =>
      simp only [if_true, parseKeyHashText]
      rw [if_neg hne40]
      exact core

end Embit.Model.Descriptor
