import EmbitModel.Proofs.MiniscriptTyping
/-
  C13 helper lemmas, part 2: embit's `compile()` (model, byte level) against the specification's script
  template (element level, then serialised), and `len()` against the compiled length.
-/
namespace Embit.Miniscript
open Embit.Model.Miniscript Embit.Spec.Miniscript

/-! ### numbers: `Number.compile` = OP_n / minimal CScriptNum push -/

theorem minLEAux_eq_nil {f n : Nat} (h : n ≤ f) : minLEAux f n = [] ↔ n = 0 := by
  cases f with
  | zero => simp [minLEAux]; omega
  | succ f => unfold minLEAux; split <;> simp_all

theorem ofNat_ne_zero {n : Nat} (h0 : n ≠ 0) (h : n < 256) : (UInt8.ofNat n == 0) = false := by
  have : (UInt8.ofNat n).toNat = n := by simp [UInt8.toNat_ofNat']; omega
  rw [beq_eq_false_iff_ne]
  intro e
  rw [e] at this
  simp at this; omega

theorem rstrip0_leN (k : Nat) : ∀ n f, n < 256 ^ k → n ≤ f → rstrip0 (leN k n) = minLEAux f n := by
  induction k with
  | zero =>
    intro n f h _
    have : n = 0 := by simpa using h
    subst this
    cases f <;> simp [leN, rstrip0, minLEAux]
  | succ k ih =>
    intro n f h hf
    have h2 : n / 256 < 256 ^ k := by
      rw [Nat.div_lt_iff_lt_mul (by decide)]; rw [Nat.pow_succ] at h; exact h
    by_cases hn : n = 0
    · subst hn
      have := ih 0 0 (by simpa using h2) (Nat.le_refl 0)
      simp only [leN, rstrip0, Nat.zero_div, Nat.zero_mod, this]
      cases f <;> simp [minLEAux]
    · obtain ⟨f', rfl⟩ : ∃ f', f = f' + 1 := ⟨f - 1, by omega⟩
      have hf' : n / 256 ≤ f' := by
        have : n / 256 < n := Nat.div_lt_self (by omega) (by decide)
        omega
      have e := ih (n / 256) f' h2 hf'
      simp only [leN, rstrip0, e, minLEAux, hn, if_false]
      by_cases hq : n / 256 = 0
      · have hlt : n < 256 := by
          rcases Nat.lt_or_ge n 256 with h | h
          · exact h
          · have : 0 < n / 256 := Nat.div_pos h (by decide)
            omega
        have hm : n % 256 = n := Nat.mod_eq_of_lt hlt
        rw [hm, ofNat_ne_zero hn hlt]; simp
      · have : minLEAux f' (n / 256) ≠ [] := by
          intro c; exact hq ((minLEAux_eq_nil hf').mp c)
        cases hh : minLEAux f' (n / 256) with
        | nil => exact absurd hh this
        | cons a as => simp

theorem rstrip0_length_le (b : Bytes) : (rstrip0 b).length ≤ b.length := by
  induction b with
  | nil => simp [rstrip0]
  | cons x xs ih => simp only [rstrip0]; split <;> simp <;> omega

theorem numCompile_eq_pushNum (n : Nat) (h : n < 2 ^ 256) : numCompile n = pushNum n := by
  unfold numCompile pushNum
  by_cases h0 : n = 0
  · simp [h0]
  · by_cases h16 : n ≤ 16
    · simp [h0, h16]
    · simp only [h0, h16, if_false]
      have hk : n < 256 ^ 32 := by
        have : (256:Nat) ^ 32 = 2 ^ 256 := by decide
        omega
      have e := rstrip0_leN 32 n n hk (Nat.le_refl n)
      have hl : (minLEAux n n).length ≤ 32 := by
        rw [← e]; have := rstrip0_length_le (leN 32 n); simpa using this
      unfold scriptNum pushData
      rw [e]
      rcases hg : (minLEAux n n).getLast? with _ | l
      · simp only [hg]; rw [if_pos (by omega)]
      · simp only [hg]
        by_cases hs : l.toNat ≥ 128
        · simp only [hs, if_true]; rw [if_pos (by simp; omega)]
        · simp only [hs, if_false]; rw [if_pos (by omega)]

/-! ### data pushes -/

theorem pushCompact_eq_cons (d : Bytes) (h : d.length < 253) : pushCompact d = UInt8.ofNat d.length :: d := by
  unfold pushCompact Compact.enc
  rw [if_pos (by omega)]; rfl

theorem pushCompact_eq_pushData (d : Bytes) (h : d.length < 76) : pushCompact d = pushData d := by
  rw [pushCompact_eq_cons d (by omega)]
  unfold pushData
  rw [if_pos (by omega)]

/-! ### serialisation -/

@[simp] theorem serScript_nil : serScript [] = [] := rfl
@[simp] theorem serScript_append (a b : List Elem) : serScript (a ++ b) = serScript a ++ serScript b := by
  simp [serScript]
@[simp] theorem serScript_cons (e : Elem) (s : List Elem) : serScript (e :: s) = e.ser ++ serScript s := by
  simp [serScript]

/-! ### ordering the pushes orders the keys -/

theorem bytesLe_cons_same (c : UInt8) (a b : Bytes) : bytesLe (c :: a) (c :: b) = bytesLe a b := by
  simp [bytesLe, UInt8.lt_irrefl]

theorem insertSorted_map_cons (c : UInt8) (x : Bytes) (l : List Bytes) :
    insertSorted (c :: x) (l.map (c :: ·)) = (insertSorted x l).map (c :: ·) := by
  induction l with
  | nil => rfl
  | cons y ys ih =>
    simp only [List.map_cons, insertSorted, bytesLe_cons_same]
    split <;> simp [ih]

theorem sortBytes_map_cons (c : UInt8) (l : List Bytes) :
    sortBytes (l.map (c :: ·)) = (sortBytes l).map (c :: ·) := by
  induction l with
  | nil => rfl
  | cons x xs ih => simp only [List.map_cons, sortBytes, ih, insertSorted_map_cons]

theorem mem_insertSorted {x y : Bytes} {l : List Bytes} : y ∈ insertSorted x l ↔ y = x ∨ y ∈ l := by
  induction l with
  | nil => simp [insertSorted]
  | cons z zs ih =>
    unfold insertSorted
    split
    · simp
    · simp [ih]; constructor
      · rintro (h | h | h) <;> simp [h]
      · rintro (h | h | h) <;> simp [h]

theorem mem_sortBytes {y : Bytes} {l : List Bytes} : y ∈ sortBytes l ↔ y ∈ l := by
  induction l with
  | nil => simp [sortBytes]
  | cons x xs ih => simp [sortBytes, mem_insertSorted, ih]

/-- keys of one length below 253: the pushes are `L :: key` for one byte `L` -/
theorem map_pushCompact_sameLen (keys : List Bytes) (hs : sameLen keys = true)
    (hl : ∀ a ∈ keys, a.length < 253) :
    ∃ c : UInt8, ∀ l : List Bytes, (∀ a ∈ l, a ∈ keys) → l.map pushCompact = l.map (c :: ·) := by
  cases keys with
  | nil => exact ⟨0, fun l h => by cases l with | nil => rfl | cons a _ => exact absurd (h a (by simp)) (by simp)⟩
  | cons k ks =>
    refine ⟨UInt8.ofNat k.length, fun l h => ?_⟩
    apply List.map_congr_left
    intro a ha
    have hm := h a ha
    have hlen : a.length = k.length := by
      simp only [List.mem_cons] at hm
      rcases hm with rfl | hm
      · rfl
      · simp only [sameLen, List.all_eq_true, beq_iff_eq] at hs
        exact hs a hm
    rw [pushCompact_eq_cons a (hl a hm), hlen]

theorem sort_pushes (keys : List Bytes) (hs : sameLen keys = true) (hl : ∀ a ∈ keys, a.length < 253) :
    sortBytes (keys.map pushCompact) = (sortBytes keys).map pushCompact := by
  obtain ⟨c, hc⟩ := map_pushCompact_sameLen keys hs hl
  rw [hc keys (fun a h => h), sortBytes_map_cons, hc (sortBytes keys) (fun a h => mem_sortBytes.mp h)]

/-! ### the `v:` wrapper: byte-level folding = opcode-level folding -/

/-- the last script element is an opcode, or the number 0 or 1 -/
def vOk (s : List Elem) : Bool :=
  match s.getLast? with
  | some (.op _) => true
  | some (.num n) => decide (n ≤ 1)
  | _ => false

theorem eq_dropLast_append_of_getLast? {α : Type} (l : List α) (a : α) (h : l.getLast? = some a) :
    l = l.dropLast ++ [a] := by
  have hne : l ≠ [] := by intro c; subst c; simp at h
  have h2 := List.getLast?_eq_some_getLast hne
  rw [h2] at h
  have h3 : l.getLast hne = a := Option.some.inj h
  rw [← h3]
  exact (List.dropLast_concat_getLast hne).symm

theorem vOk_append (a b : List Elem) (h : vOk b = true) : vOk (a ++ b) = true := by
  unfold vOk at *
  rw [List.getLast?_append]
  cases hb : b.getLast? with
  | none => simp [hb] at h
  | some e => simpa [hb] using h

theorem verifyVersion_code (o : Op) :
    (match verifyVersion o with
      | some ov => (o.code == 0xac || o.code == 0xae || o.code == 0x9c || o.code == 0x87) = true ∧ ov.code = o.code + 1
      | none => (o.code == 0xac || o.code == 0xae || o.code == 0x9c || o.code == 0x87) = false) := by
  cases o <;> simp [verifyVersion, Op.code] <;> decide

theorem vCompile_ser (s : List Elem) (h : vOk s = true) : vCompile (serScript s) = serScript (addVerify s) := by
  unfold vOk at h
  cases hl : s.getLast? with
  | none => simp [hl] at h
  | some el =>
    have hs : s = s.dropLast ++ [el] := eq_dropLast_append_of_getLast? s el hl
    generalize s.dropLast = init at hs
    subst hs
    have hd : (init ++ [el]).dropLast = init := by simp
    cases el with
    | push d => simp [hl] at h
    | op o =>
      have hv := verifyVersion_code o
      unfold addVerify
      simp only [hl, hd]
      unfold vCompile
      have e1 : serScript (init ++ [Elem.op o]) = serScript init ++ [o.code] := by simp [Elem.ser]
      rw [e1]
      have e2 : (serScript init ++ [o.code]).getLast? = some o.code := by simp
      have e3 : (serScript init ++ [o.code]).dropLast = serScript init := by simp
      simp only [e2, e3]
      cases hvv : verifyVersion o with
      | none =>
        rw [hvv] at hv
        simp only [hv]
        simp [Elem.ser, Op.code]
      | some ov =>
        rw [hvv] at hv
        simp only [hv.1, if_true]
        simp [Elem.ser, hv.2]
    | num n =>
      simp [hl] at h
      unfold addVerify
      simp only [hl]
      unfold vCompile
      have hn : n = 0 ∨ n = 1 := by omega
      rcases hn with rfl | rfl
      · have e1 : serScript (init ++ [Elem.num 0]) = serScript init ++ [0x00] := by simp [Elem.ser, pushNum]
        have e2 : (serScript init ++ [(0x00 : UInt8)]).getLast? = some 0x00 := by simp
        rw [e1]; simp only [e2]
        simp [Elem.ser, Op.code, pushNum]
      · have e1 : serScript (init ++ [Elem.num 1]) = serScript init ++ [0x51] := by simp [Elem.ser, pushNum]
        have e2 : (serScript init ++ [(0x51 : UInt8)]).getLast? = some 0x51 := by simp
        rw [e1]; simp only [e2]
        simp [Elem.ser, Op.code, pushNum]

/-- an expression of base type B ends in an opcode (or in the `1` of `t:`) -/
theorem vOk_of_B : ∀ e, type e = .B → vOk (script (desugar e)) = true := by
  intro e
  induction e using Ms.ind with
  | key f a => cases f <;> simp [type, Gen.Ms.keyType, desugar, script, vOk]
  | time f n => cases f <;> simp [desugar, script, vOk]
  | hash f h => simp [desugar, script, vOk]
  | andor x y z _ _ _ => intro _; simp only [desugar, script]; exact vOk_append _ _ (by rfl)
  | bin f x y _ ihy =>
    cases f <;> simp only [type, binType, Gen.Ms.binStaticType, desugar, script]
    · intro h; exact vOk_append _ _ (ihy h)
    all_goals first
      | (intro _; exact vOk_append _ _ (by rfl))
      | simp
  | thresh k xs _ =>
    intro _
    simp only [desugar, script]
    split
    · rfl
    · exact vOk_append _ _ (by rfl)
  | multi f k keys =>
    intro _
    cases f <;> simp only [desugar, script]
    · exact vOk_append _ _ (by rfl)
    · exact vOk_append _ _ (by rfl)
    · split
      · rfl
      · exact vOk_append _ _ (by rfl)
    · split
      · rfl
      · exact vOk_append _ _ (by rfl)
  | wrap w x _ =>
    cases w <;> simp only [type, Gen.Ms.wrapType, desugar, script]
    all_goals first
      | (intro _; exact vOk_append _ _ (by rfl))
      | simp

/-! ### compile = serialised template -/

theorem flatMap_append_byte (cs : List (List Elem)) (b : UInt8) (o : Op) (hb : o.code = b) :
    (cs.map serScript).flatMap (fun c => c ++ [b]) = serScript ((cs.map (fun s => s ++ [Elem.op o])).flatten) := by
  induction cs with
  | nil => rfl
  | cons c cs ih => simp [ih, Elem.ser, hb]

theorem addChain_eq (ss : List (List Elem)) :
    addChain ss = (ss.map (fun s => s ++ [Elem.op .ADD])).flatten := by
  induction ss with
  | nil => rfl
  | cons s ss ih => simp [addChain, ih]

theorem sigAddChain_ser (ks : List Bytes) (h : ∀ a ∈ ks, a.length < 76) :
    serScript (sigAddChain ks) = (ks.map pushCompact).flatMap (fun c => c ++ [0xba]) := by
  induction ks with
  | nil => rfl
  | cons k ks ih =>
    have hk := h k (by simp)
    simp [sigAddChain, Elem.ser, Op.code, pushCompact_eq_pushData k hk, ih (fun a ha => h a (by simp [ha]))]

theorem pushes_ser (ks : List Bytes) (h : ∀ a ∈ ks, a.length < 76) :
    serScript (ks.map Elem.push) = (ks.map pushCompact).flatten := by
  induction ks with
  | nil => rfl
  | cons k ks ih =>
    have hk := h k (by simp)
    simp [Elem.ser, pushCompact_eq_pushData k hk, ih (fun a ha => h a (by simp [ha]))]

/-- the statement proved for every expression -/
def CompileOk (ctx : Ctx) (e : Ms) : Prop :=
  e.argsOk = true → verify ctx e = true → compile e = serScript (script (desugar e))

theorem compileL_eq (ctx : Ctx) (xs : List Ms) (ih : ∀ x ∈ xs, CompileOk ctx x)
    (ha : Ms.argsOkL xs = true) (hv : verifyL ctx xs = true) :
    compileL xs = (scriptL (desugarL xs)).map serScript := by
  induction xs with
  | nil => rfl
  | cons x xs ihx =>
    simp only [Ms.argsOkL, verifyL, Bool.and_eq_true] at ha hv
    simp only [compileL, desugarL, scriptL, List.map_cons]
    rw [ih x (by simp) ha.1 hv.1, ihx (fun y hy => ih y (by simp [hy])) ha.2 hv.2]

theorem num_small (n : Nat) (h : n < 2 ^ 31) : numCompile n = pushNum n :=
  numCompile_eq_pushNum n (by
    have : (2:Nat) ^ 31 < 2 ^ 256 := by decide
    omega)

theorem compile_eq (ctx : Ctx) : ∀ e, CompileOk ctx e := by
  intro e
  induction e using Ms.ind with
  | key f a =>
    intro ha _
    simp only [Ms.argsOk, decide_eq_true_eq] at ha
    cases f <;>
      simp [compile, keyCompile, desugar, script, Elem.ser, Op.code, pushCompact_eq_pushData a ha]
  | time f n =>
    intro _ hv
    simp only [verify, Bool.not_eq_true', Bool.or_eq_false_iff, decide_eq_false_iff_not] at hv
    have hn : n < 2 ^ 31 := by
      have : (2:Nat) ^ 31 = 0x80000000 := by decide
      omega
    cases f <;> simp [compile, desugar, script, Elem.ser, Op.code, timeOp, num_small n hn]
  | hash f h =>
    intro ha _
    simp only [Ms.argsOk, decide_eq_true_eq] at ha
    have h32 : numCompile 32 = pushNum 32 := num_small 32 (by decide)
    cases f <;>
      simp [compile, desugar, script, Elem.ser, Op.code, Model.Miniscript.hashOp, Spec.Miniscript.hashOp,
        pushCompact_eq_pushData h ha, h32]
  | andor x y z ihx ihy ihz =>
    intro ha hv
    simp only [Ms.argsOk, verify, Bool.and_eq_true] at ha hv
    simp [compile, desugar, script, Elem.ser, Op.code, ihx ha.1.1 hv.1.1.1, ihy ha.1.2 hv.1.1.2, ihz ha.2 hv.1.2]
  | bin f x y ihx ihy =>
    intro ha hv
    simp only [Ms.argsOk, verify, Bool.and_eq_true] at ha hv
    have h0 : numCompile 0 = pushNum 0 := num_small 0 (by decide)
    cases f <;>
      simp [compile, binCompile, desugar, script, Elem.ser, Op.code, ihx ha.1 hv.1.1, ihy ha.2 hv.1.2, h0]
  | thresh k xs ih =>
    intro ha hv
    simp only [Ms.argsOk, verify, Bool.and_eq_true, decide_eq_true_eq] at ha hv
    have hk := numCompile_eq_pushNum k ha.1
    have hl := compileL_eq ctx xs ih ha.2 hv.1
    simp only [compile, desugar, script, hl]
    cases hs : scriptL (desugarL xs) with
    | nil =>
      -- no sub-expression: `verify` is false
      have : tpL ctx xs = [] := by
        have : xs = [] := by
          cases xs with
          | nil => rfl
          | cons a as => simp [desugarL, scriptL] at hs
        subst this; rfl
      simp [threshVerify, this] at hv
    | cons s1 rest =>
      simp only [List.map_cons, threshCompile]
      rw [flatMap_append_byte rest 0x93 .ADD rfl, addChain_eq]
      simp [Elem.ser, Op.code, hk]
  | multi f k keys =>
    intro ha hv
    simp only [Ms.argsOk, Bool.and_eq_true, List.all_eq_true, decide_eq_true_eq] at ha
    have hlen := ha.1
    have hkn : k < 2 ^ 256 ∧ keys.length < 2 ^ 256 ∧ keys ≠ [] := by
      have : (999 : Nat) < 2 ^ 256 := by decide
      cases f <;> simp [verify, multiVerify, Gen.Ms.multiMaxKeys] at hv <;>
        (refine ⟨by omega, by omega, ?_⟩; intro c; subst c; simp at hv)
    have hk := numCompile_eq_pushNum k hkn.1
    have hn := numCompile_eq_pushNum keys.length hkn.2.1
    cases f
    · simp [compile, multiCompile, desugar, script, Elem.ser, Op.code, hk, hn, pushes_ser keys hlen]
    · have hs := sort_pushes keys ha.2 (fun a h => by have := hlen a h; omega)
      have hlen' : ∀ a ∈ sortBytes keys, a.length < 76 := fun a h => hlen a (mem_sortBytes.mp h)
      simp [compile, multiCompile, desugar, script, Elem.ser, Op.code, hk, hn, hs, pushes_ser _ hlen',
        sortBytes_length]
    · cases hks : keys with
      | nil => exact absurd hks hkn.2.2
      | cons k1 rest =>
        subst hks
        have h1 := hlen k1 (by simp)
        have hr : ∀ a ∈ rest, a.length < 76 := fun a h => hlen a (by simp [h])
        simp [compile, multiCompile, desugar, script, Elem.ser, Op.code, hk, pushCompact_eq_pushData k1 h1,
          sigAddChain_ser rest hr]
    · have hs := sort_pushes keys ha.2 (fun a h => by have := hlen a h; omega)
      have hlen' : ∀ a ∈ sortBytes keys, a.length < 76 := fun a h => hlen a (mem_sortBytes.mp h)
      simp only [compile, multiCompile, desugar, script, hs]
      cases hks : sortBytes keys with
      | nil =>
        have := sortBytes_length keys
        rw [hks] at this
        exact absurd (List.length_eq_zero_iff.mp this.symm) hkn.2.2
      | cons k1 rest =>
        rw [hks] at hlen'
        have h1 := hlen' k1 (by simp)
        have hr : ∀ a ∈ rest, a.length < 76 := fun a h => hlen' a (by simp [h])
        simp [Elem.ser, Op.code, hk, pushCompact_eq_pushData k1 h1, sigAddChain_ser rest hr]
  | wrap w x ih =>
    intro ha hv
    simp only [Ms.argsOk, verify, Bool.and_eq_true] at ha hv
    have hx := ih ha hv.1
    have h0 : numCompile 0 = pushNum 0 := num_small 0 (by decide)
    have h1 : numCompile 1 = pushNum 1 := num_small 1 (by decide)
    cases w
    case v =>
      have hB : type x = .B := by simpa [wrapVerify] using hv.2
      simp only [compile, wrapCompile, desugar, script, hx]
      exact vCompile_ser _ (vOk_of_B x hB)
    all_goals simp [compile, wrapCompile, desugar, script, Elem.ser, Op.code, hx, h0, h1]

end Embit.Miniscript
