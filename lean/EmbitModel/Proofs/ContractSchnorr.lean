import EmbitModel.Proofs.ContractCurve
/-
  BIP340: the model of key.py's `sign_schnorr` / `verify_schnorr` and of the bindings around them equals the BIP
  (`Spec.Bip340`) as wrapped by the contract — signing by unfolding, verification relative to `EcLaws`
  (`(n − e)·P = −(e·P)`, `lift_x(0)` fails).
-/
namespace Embit
open Embit.Model Embit.Model.PySecp

variable (E : EcOps) (H : HashOps)

theorem signSchnorr_eq_spec (key msg : Bytes) (aux : Option Bytes) (hk : key.length = 32) (hm : msg.length = 32)
    (ha : badExtra aux = false) :
    signSchnorr E H key msg aux = Spec.Bip340.sign E H (ofBe key) msg aux := by
  unfold signSchnorr Spec.Bip340.sign
  simp only [hk, hm, ha, ne_eq, not_true_eq_false, if_false, Bool.false_eq_true, Spec.Bip340.bytes32]
  by_cases hv : ofBe key = 0 ∨ ofBe key ≥ E.n
  · simp [hv]
  · simp only [hv, if_false]
    cases E.xy (E.mul (ofBe key) E.g) with
    | none => rfl
    | some xy =>
      obtain ⟨px, py⟩ := xy
      simp only [evenScalar]
      cases aux with
      | none => rfl
      | some a => rfl

/-- `(n − e)·P = −(e·P)` for every point -/
theorem mul_sub_eq_neg (L : EcLaws E) (e : Nat) (he : e ≤ E.n) (P : E.Pt) :
    E.mul (E.n - e) P = E.neg (E.mul e P) := by
  obtain ⟨a, _, rfl⟩ := L.generated P
  have hnpos := L.n_pos
  rw [L.mul_mul, L.mul_mul, ← L.mul_mod (e * a), L.neg_mul _ (by have := Nat.mod_lt (e * a) hnpos; omega),
    ← L.mul_mod ((E.n - e) * a), ← L.mul_mod (E.n - e * a % E.n)]
  congr 1
  apply mod_eq_of_cast
  rw [cast_sub_self _ (by have := Nat.mod_lt (e * a) hnpos; omega), ZMod.natCast_mod]
  push_cast
  rw [Nat.cast_sub he]
  simp

theorem liftX_zero (L : EcLaws E) : E.liftX 0 = none := by
  cases h : E.liftX 0 with
  | none => rfl
  | some P =>
    obtain ⟨y, hxy, _⟩ := L.liftX_sound 0 P h
    have := (L.xy_range P 0 y hxy).1
    omega

theorem verifySchnorr_eq_spec (L : EcLaws E) (key sig msg : Bytes) (hk : key.length = 32) (hm : msg.length = 32)
    (hs : sig.length = 64) :
    verifySchnorr E H key sig msg = some (Spec.Bip340.verify E H key msg sig) := by
  have hnpos := L.n_pos
  unfold verifySchnorr Spec.Bip340.verify Spec.Bip340.liftX
  simp only [hk, hm, hs, ne_eq, not_true_eq_false, if_false, Spec.Bip340.bytes32]
  have hb1 : beN 32 (ofBe (sig.take 32)) = sig.take 32 := by
    have := beN_ofBe (sig.take 32); rwa [take32_len sig hs] at this
  have hb2 : beN 32 (ofBe key) = key := by
    have := beN_ofBe key; rwa [hk] at this
  by_cases hx0 : ofBe key = 0
  · simp [hx0, liftX_zero E L]
  by_cases hxp : ofBe key ≥ E.p
  · simp [hxp]
  have c1 : ¬ (ofBe key = 0 ∨ ofBe key ≥ E.p) := by omega
  rw [if_neg c1]
  simp only [hxp, if_false]
  cases E.liftX (ofBe key) with
  | none => rfl
  | some P =>
    simp only []
    by_cases hr : ofBe (sig.take 32) ≥ E.p
    · simp [hr]
    simp only [hr, if_false]
    by_cases hsn : ofBe (sig.drop 32) ≥ E.n
    · simp [hsn]
    simp only [hsn, if_false, hb1, hb2]
    set e := ofBe (H.tagged "BIP0340/challenge" (sig.take 32 ++ key ++ msg)) % E.n with he
    have helt : e < E.n := Nat.mod_lt _ hnpos
    rw [mul_sub_eq_neg E L e (by omega) P]
    cases E.xy (E.add (E.mul (ofBe (sig.drop 32)) E.g) (E.neg (E.mul e P))) with
    | none => rfl
    | some xy => rfl

theorem eq_schnorrsig_verify (L : EcLaws E) (hp : E.p ≤ 2 ^ 256) (sig msg pub : Bytes) :
    schnorrsigVerify E H sig msg pub = Spec.Libsecp.schnorrsig_verify E H sig msg pub := by
  unfold schnorrsigVerify Spec.Libsecp.schnorrsig_verify
  by_cases hs : sig.length = 64
  swap
  · simp [hs]
  by_cases hm : msg.length = 32
  swap
  · simp [hs, hm]
  by_cases hl : pub.length = 64
  swap
  · simp [hs, hm, hl, pubkeyOf_none E pub hl]
  simp only [hs, hm, hl, ne_eq, not_true_eq_false, if_false, or_self]
  rw [← pubLoad_eq E pub hl]
  cases hP : pubLoad E pub with
  | none => rw [serialize_none E pub hl hP]; rfl
  | some P =>
    obtain ⟨x, y, hxy, _, _⟩ := pubLoad_xy E L pub P hP
    rw [serialize_compressed E L pub hl P hP x y hxy]
    simp only [Option.bind_some, hxy]
    have ht : (beN 32 x).take 32 = beN 32 x := List.take_of_length_le (by simp)
    by_cases hy : y % 2 = 1
    · have e : UInt8.ofNat (2 + y % 2) = 0x03 := by rw [hy]; rfl
      simp [e, hy]
    · have hy0 : y % 2 = 0 := by omega
      have e : UInt8.ofNat (2 + y % 2) = 0x02 := by rw [hy0]; rfl
      simp only [e, ne_eq, not_true_eq_false, if_false, hy, ht]
      exact verifySchnorr_eq_spec E H L (beN 32 x) sig msg (by simp) hm hs

theorem pubStore_len (P : E.Pt) (b : Bytes) (h : pubStore E P = some b) : b.length = 64 := by
  unfold pubStore at h
  split at h
  · cases h
  · cases h; simp

theorem eq_schnorrsig_sign (L : EcLaws E) (hp : E.p ≤ 2 ^ 256) (msg keypair : Bytes) (aux : Option Bytes) :
    schnorrsigSign E H msg keypair aux = Spec.Libsecp.schnorrsig_sign E H msg keypair aux := by
  unfold schnorrsigSign Spec.Libsecp.schnorrsig_sign
  by_cases hm : msg.length = 32
  swap
  · simp [hm]
  simp only [hm, ne_eq, not_true_eq_false, if_false]
  -- keypair_create on a 32-byte secret, on both sides
  have hkc : ∀ sk : Bytes, sk.length = 32 →
      (keypairCreate E sk = none ∧ Spec.Libsecp.keypair_create E sk = none ∧
        (Spec.Libsecp.seckey E sk = none ∨ ∃ d, Spec.Libsecp.seckey E sk = some d ∧ E.xy (E.mul d E.g) = none)) ∨
      (∃ pub d, keypairCreate E sk = some (sk ++ pub) ∧ Spec.Libsecp.keypair_create E sk = some (sk ++ pub) ∧
        pub.length = 64 ∧ Spec.Libsecp.seckey E sk = some d ∧ d = ofBe sk) := by
    intro sk hsk
    have e := eq_keypair_create E L hp sk
    unfold Spec.Libsecp.keypair_create at e ⊢
    rw [← eq_pubkey_create] at e ⊢
    rw [e]
    unfold ecPubkeyCreate
    rw [seckey_eq E sk hsk]
    simp only [hsk, ne_eq, not_true_eq_false, if_false]
    by_cases hv : seckeyValid E (ofBe sk) = true
    · simp only [hv, if_true]
      cases hst : pubStore E (E.mul (ofBe sk) E.g) with
      | none =>
        left
        refine ⟨rfl, rfl, Or.inr ⟨ofBe sk, rfl, ?_⟩⟩
        unfold pubStore at hst
        split at hst
        · assumption
        · cases hst
      | some pub =>
        right
        exact ⟨pub, ofBe sk, rfl, rfl, pubStore_len E _ _ hst, rfl, rfl⟩
    · left
      simp [hv]
  -- signing itself fails on both sides when the key is invalid or its public key is the point at infinity
  have hsign_none : ∀ sk : Bytes, sk.length = 32 →
      (Spec.Libsecp.seckey E sk = none ∨ ∃ d, Spec.Libsecp.seckey E sk = some d ∧ E.xy (E.mul d E.g) = none) →
      ((Spec.Libsecp.seckey E sk).bind fun d => Spec.Bip340.sign E H d msg aux) = none := by
    intro sk hsk h
    rcases h with h | ⟨d, h, hinf⟩
    · rw [h]; rfl
    · rw [h]
      simp only [Option.bind_some]
      unfold Spec.Bip340.sign
      split
      · rfl
      · rw [hinf]
  by_cases hbad : badExtra aux = true
  · -- bad aux: contract rejects first; the model rejects at the latest inside sign_schnorr
    have hc : (aux.map fun e => e.length != 32) = some true := by
      cases aux with
      | none => simp [badExtra] at hbad
      | some a => simpa [badExtra] using hbad
    simp only [hc, if_true]
    have hss : ∀ k, signSchnorr E H k msg aux = none := by
      intro k; unfold signSchnorr
      split
      · rfl
      · split
        · rfl
        · simp [hbad]
    cases (if keypair.length = 32 then keypairCreate E keypair else some keypair) with
    | none => rfl
    | some kp =>
      simp only []
      split
      · rfl
      · cases keypairCreate E (kp.take 32) with
        | none => rfl
        | some kp' =>
          simp only []
          split
          · rfl
          · exact hss _
  have hbad' : badExtra aux = false := by simpa using hbad
  have hc : ¬ (aux.map fun e => e.length != 32) = some true := by
    cases aux with
    | none => simp
    | some a => simpa [badExtra] using hbad
  simp only [hc, if_false]
  by_cases h32 : keypair.length = 32
  · simp only [h32, if_true, Option.bind_some]
    rcases hkc keypair h32 with ⟨h1, _, h3⟩ | ⟨pub, d, h1, _, hpl, h4, h5⟩
    · rw [h1, hsign_none keypair h32 h3]
    · rw [h1]
      have hlen : (keypair ++ pub).length = 96 := by simp [h32, hpl]
      have htake : (keypair ++ pub).take 32 = keypair := by rw [← h32]; simp
      simp only [hlen, ne_eq, not_true_eq_false, if_false, htake, h1]
      rw [h4]
      simp only [Option.bind_some, h5]
      exact signSchnorr_eq_spec E H keypair msg aux h32 hm hbad'
  · simp only [h32, if_false]
    by_cases h96 : keypair.length = 96
    · have htl : (keypair.take 32).length = 32 := by simp; omega
      simp only [h96, ne_eq, not_true_eq_false, if_false, true_and]
      rcases hkc (keypair.take 32) htl with ⟨h1, h2, _⟩ | ⟨pub, d, h1, h2, hpl, h4, h5⟩
      · rw [h1, h2]; simp
      · rw [h1, h2]
        simp only [Option.some.injEq]
        by_cases heq : keypair = keypair.take 32 ++ pub
        · have : keypair.take 32 ++ pub = keypair := heq.symm
          simp only [this, ne_eq, not_true_eq_false, if_false, if_true, Option.bind_some]
          rw [h4]
          simp only [Option.bind_some, h5]
          exact signSchnorr_eq_spec E H (keypair.take 32) msg aux htl hm hbad'
        · have h' : ¬ keypair.take 32 ++ pub = keypair := fun h => heq h.symm
          simp [heq, h']
    · simp [h96]

end Embit
