import EmbitModel.Proofs.DescScripts
/-
  C12, descriptor level: the script of a derived descriptor against the specification (`script_eq_spec_core`),
  and scripts as a function of a small "view" (for the commutation theorems).
-/
namespace Embit.Model.Descriptor
open Embit Embit.Miniscript Embit.Spec.Descriptor Embit.Model.Miniscript

variable {K : Type}

/-- the script expressions of a descriptor: its miniscript, or the leaves of its tap tree -/
def Desc.exprs (d : Desc K) : List (DMs K) :=
  match d.miniscript with
  | some ms => [ms]
  | none => d.taptree.leaves

/-- the tap tree over its compiled leaf scripts -/
def compiledTree (ops : KeyOps K) (h : Hashes) : TapTree K → Option STree
  | .empty => none
  | .leaf ms => (compileMs ops h true ms).map STree.leaf
  | .node l r =>
    match compiledTree ops h l, compiledTree ops h r with
    | some a, some b => some (.node a b)
    | _, _ => none

theorem keyBytes_derived {ops : KeyOps K} {h : Hashes} {tweakAdd : Bytes → Bytes → Option Bytes}
    (laws : KeyLaws ops h tweakAdd) (k k' : KeyExpr K) (i b : Nat) (hi : i < 2 ^ 31)
    (hd : k.derive ops h (some i) (some b) = some k') :
    (k'.obj?).map ops.sec = deriveKey ops k i b := by
  have := payload_agree laws k k' i b hi hd false .pk_k
  simp only [fragPayload, argBytes, Bool.false_eq_true, if_false] at this
  cases hk : k'.key with
  | obj key =>
    simp only [keyBytes, hk, Bool.false_eq_true, if_false] at this
    simp only [KeyExpr.obj?, hk, Option.map_some]
    rw [this]
    cases deriveKey ops k i b <;> rfl
  | raw s =>
    simp only [keyBytes, hk] at this
    simp only [KeyExpr.obj?, hk, Option.map_none]
    rw [this]
    cases deriveKey ops k i b <;> rfl

theorem TapTree.mapKeys_empty_iff (f : KeyExpr K → Option (KeyExpr K)) (t t' : TapTree K)
    (h : t.mapKeys f = some t') : (t' = .empty ↔ t = .empty) := by
  cases t with
  | empty => simp [TapTree.mapKeys] at h; subst h; simp
  | leaf ms =>
    simp only [TapTree.mapKeys] at h
    cases hm : ms.mapKeys f with
    | none => simp [hm] at h
    | some ms' =>
      simp only [hm] at h
      split at h
      · cases h; simp
      · cases h
  | node l r =>
    simp only [TapTree.mapKeys] at h
    cases hl : l.mapKeys f with
    | none => simp [hl] at h
    | some l' =>
      cases hr : r.mapKeys f with
      | none => simp [hl, hr] at h
      | some r' => simp [hl, hr] at h; subst h; simp

/-- the merkle root of the derived tree is BIP341's root of the resolved tree -/
theorem tree_tweak_derived {ops : KeyOps K} {h : Hashes} {tweakAdd : Bytes → Bytes → Option Bytes}
    (laws : KeyLaws ops h tweakAdd) (t t' : TapTree K) (i b : Nat) (hi : i < 2 ^ 31)
    (ht : t.mapKeys (fun k => k.derive ops h (some i) (some b)) = some t') (hne : t ≠ .empty)
    (hargs : ∀ e ∈ t.leaves, ∀ m, e.toMs (argBytes h true (fun k => deriveKey ops k i b)) = some m →
      m.argsOk = true) :
    t'.tweak ops h = (resolveTree h (fun k => deriveKey ops k i b) t).map (merkleRoot h) := by
  have hne' : t' ≠ .empty := fun he => hne ((TapTree.mapKeys_empty_iff _ t t' ht).mp he)
  have htw : t'.tweak ops h = (tweakHelper ops h t').map (·.2) := by
    cases t' with
    | empty => exact absurd rfl hne'
    | leaf _ => rfl
    | node _ _ => rfl
  rw [htw, tweakHelper_root, treeRoot_mapKeys h _ _ t t' ht, resolveTree_root]
  apply treeRoot_congr
  intro ms hms
  obtain ⟨ms', hm', hacc⟩ := TapTree.mapKeys_leaves _ t t' ht ms hms
  rw [hm', Option.bind_some]
  exact compile_derived_eq laws true ms ms' i b hi hm' (by simpa [ctxOf, leafAccepted] using hacc)
    (hargs ms hms)

/-- SCRIPT = SPEC, success form: whenever `derive(i, b)` succeeds, `script_pubkey()` of the result is the script
    BIP380–386 prescribe for the descriptor's form from the `deriveKey` public keys -/
theorem script_eq_spec_core {ops : KeyOps K} {h : Hashes} {tweakAdd : Bytes → Bytes → Option Bytes}
    (laws : KeyLaws ops h tweakAdd) (d d' : Desc K) (fm : Form K) (i b : Nat) (hi : i < 2 ^ 31)
    (hs : d.Shaped) (hform : formOf d = some fm)
    (hd : d.derive ops h i (some b) = some d')
    (hargs : ∀ e ∈ d.exprs, ∀ m,
      e.toMs (argBytes h d.taproot (fun k => deriveKey ops k i b)) = some m → m.argsOk = true) :
    d'.scriptPubkey ops h = scriptAt ops h tweakAdd d i b := by
  unfold Desc.derive Desc.mapKeys at hd
  unfold scriptAt
  rw [hform]
  cases hms : d.miniscript with
  | some ms =>
    have hk : d.key = none ∧ d.taptree = .empty := by
      cases hs with
      | inl h0 => rw [hms] at h0; cases h0
      | inr h1 => exact h1
    have htap : d.taproot = false := by
      cases ht : d.taproot with
      | false => rfl
      | true => simp [formOf, ht, hk.1] at hform
    simp only [hms] at hd
    cases hm : ms.mapKeys (fun k => k.derive ops h (some i) (some b)) with
    | none => simp [hm] at hd
    | some ms' =>
      simp only [hm] at hd
      split at hd
      · rename_i hacc
        cases hd
        have hacc' : accepts (ctxOf false) ms'.shape = true := by
          simp only [msAccepted, Bool.and_eq_true, Desc.ctx, htap] at hacc
          simpa [ctxOf] using hacc.1
        have hc := compile_derived_eq laws false ms ms' i b hi hm hacc'
          (by
            have := hargs ms (by simp [Desc.exprs, hms])
            rw [htap] at this
            exact this)
        simp only [formOf, htap, hms] at hform
        cases hw : d.wsh <;> cases hsh : d.sh <;> simp [hw, hsh] at hform <;> subst hform <;>
          simp only [Desc.scriptPubkey, Desc.redeemScript, Desc.witnessScript, htap, hw, hsh, hc, resolve,
            Bool.false_eq_true, if_false, if_true, Bool.not_true, Bool.not_false] <;>
          cases ms.toMs (argBytes h false fun k => deriveKey ops k i b) <;>
          simp [SExpr.script, p2shOf, p2wshOf, OP_HASH160, OP_EQUAL, OP_0]
      · cases hd
  | none =>
    simp only [hms] at hd
    cases hkey : d.key with
    | none => simp [hkey] at hd
    | some k =>
      simp only [hkey] at hd
      cases hfk : k.derive ops h (some i) (some b) with
      | none => simp [hfk] at hd
      | some k' =>
        cases htt : d.taptree.mapKeys (fun k => k.derive ops h (some i) (some b)) with
        | none => simp [hfk, htt] at hd
        | some t' =>
          simp only [hfk, htt, Option.some.injEq] at hd
          subst hd
          have hkb := keyBytes_derived laws k k' i b hi hfk
          cases htap : d.taproot with
          | true =>
            simp only [formOf, htap, hkey, if_true, Option.map_some, Option.some.injEq] at hform
            subst hform
            simp only [Desc.scriptPubkey, if_true, Option.bind_some, resolve, ← hkb]
            cases hobj : k'.obj? with
            | none => simp
            | some key' =>
              simp only [Option.map_some]
              cases hte : d.taptree with
              | empty =>
                rw [hte] at htt
                simp [TapTree.mapKeys] at htt
                subst htt
                simp [TapTree.tweak, SExpr.script, laws.tweak_eq, xonlyOf, OP_1]
              | leaf ms0 =>
                have := tree_tweak_derived laws d.taptree t' i b hi htt (by rw [hte]; simp)
                  (by
                    intro e he
                    have := hargs e (by simpa [Desc.exprs, hms] using he)
                    rw [htap] at this
                    exact this)
                rw [hte] at this
                rw [this]
                cases hrt : resolveTree h (fun k => deriveKey ops k i b) (TapTree.leaf ms0) with
                | none => simp [hrt]
                | some st => simp [hrt, SExpr.script, laws.tweak_eq, xonlyOf, OP_1]
              | node l r =>
                have := tree_tweak_derived laws d.taptree t' i b hi htt (by rw [hte]; simp)
                  (by
                    intro e he
                    have := hargs e (by simpa [Desc.exprs, hms] using he)
                    rw [htap] at this
                    exact this)
                rw [hte] at this
                rw [this]
                cases hrt : resolveTree h (fun k => deriveKey ops k i b) (TapTree.node l r) with
                | none => simp [hrt]
                | some st => simp [hrt, SExpr.script, laws.tweak_eq, xonlyOf, OP_1]
          | false =>
            simp only [formOf, htap, hms, hkey] at hform
            cases hw : d.wpkh <;> cases hsh : d.sh <;> cases hwsh : d.wsh <;> simp [hw, hsh, hwsh] at hform <;>
              subst hform <;>
              simp only [Desc.scriptPubkey, Desc.redeemScript, Desc.witnessScript, hw, hsh, hwsh, resolve,
                Bool.false_eq_true, if_false, if_true, Bool.not_true, Bool.not_false, Option.bind_some, ← hkb] <;>
              cases k'.obj? <;>
              simp [SExpr.script, p2shOf, p2wpkhOf, p2pkhOf, OP_HASH160, OP_EQUAL, OP_0, OP_DUP, OP_EQUALVERIFY,
                OP_CHECKSIG]

end Embit.Model.Descriptor
