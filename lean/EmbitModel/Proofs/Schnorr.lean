import EmbitModel.Proofs.EcLaws
import EmbitModel.Proofs.DerInt
import EmbitModel.Model.PySecp
/-
  BIP340 correctness of the model (`key.py: sign_schnorr / verify_schnorr`) relative to `EcLaws`.
-/
namespace Embit
open Embit.Model Embit.Model.PySecp

variable {E : EcOps}

theorem ofBe_beN32 (v : Nat) (h : v < 2 ^ 256) : ofBe (beN 32 v) = v := by
  apply ofBe_beN; rw [pow256]; exact h

theorem take32_append (a b : Bytes) (h : a.length = 32) : (a ++ b).take 32 = a := by
  rw [← h]; simp

theorem drop32_append (a b : Bytes) (h : a.length = 32) : (a ++ b).drop 32 = b := by
  rw [← h]; simp

/-- the scalar whose multiple of `G` has even Y -/
theorem even_point (L : EcLaws E) (a : Nat) (ha : a ≤ E.n) (x y : Nat) (h : E.xy (E.mul a E.g) = some (x, y)) :
    ∃ y', E.xy (E.mul (evenScalar E.n a y) E.g) = some (x, y') ∧ y' % 2 = 0 := by
  unfold evenScalar
  by_cases hy : y % 2 = 0
  · exact ⟨y, by simp [hy, h], hy⟩
  · refine ⟨E.p - y, ?_, ?_⟩
    · simp only [hy, if_false]
      rw [← L.neg_mul a ha]; exact L.xy_neg _ _ _ h
    · exact (L.neg_parity _ _ _ h).2.mpr (by omega)

theorem schnorr_scalar (n k e sec : Nat) (he : e ≤ n) : ((k + e * sec) % n + (n - e) * sec) % n = k % n := by
  have : (k + e * sec) % n + (n - e) * sec ≡ k + e * sec + (n - e) * sec [MOD n] :=
    Nat.ModEq.add_right _ (Nat.mod_modEq _ _)
  rw [this]
  have e2 : k + e * sec + (n - e) * sec = k + n * sec := by
    rw [Nat.add_assoc, ← Nat.add_mul, Nat.add_sub_cancel' he]
  rw [e2, Nat.add_mul_mod_self_left]

/-- **BIP340 correctness** at the level of `key.py` -/
theorem verify_signSchnorr (L : EcLaws E) (H : HashOps) (hp : E.p ≤ 2 ^ 256) (hn : E.n ≤ 2 ^ 256)
    (key msg : Bytes) (aux : Option Bytes) (sig : Bytes) (h : signSchnorr E H key msg aux = some sig) :
    ∃ px py, E.xy (E.mul (ofBe key) E.g) = some (px, py) ∧
      verifySchnorr E H (beN 32 px) sig msg = some true := by
  unfold signSchnorr at h
  split at h; · cases h
  rename_i hkl
  split at h; · cases h
  rename_i hml
  split at h; · cases h
  simp only [] at h
  split at h; · cases h
  rename_i hsec
  split at h; · cases h
  rename_i px py hP
  refine ⟨px, py, hP, ?_⟩
  split at h; · cases h
  rename_i hkp
  split at h; · cases h
  rename_i rx ry hR
  simp only [Option.some.injEq] at h
  have hnpos := L.n_pos
  have hsec' : 0 < ofBe key ∧ ofBe key < E.n := by omega
  obtain ⟨hpx0, hpxp, _, _⟩ := L.xy_range _ _ _ hP
  obtain ⟨hrx0, hrxp, _, _⟩ := L.xy_range _ _ _ hR
  -- the (possibly negated) secret and nonce
  set sec := evenScalar E.n (ofBe key) py with hsecdef
  set kp := ofBe (H.tagged "BIP0340/nonce" (schnorrT H sec aux ++ beN 32 px ++ msg)) % E.n with hkpdef
  have hkplt : kp < E.n := Nat.mod_lt _ hnpos
  set k := evenScalar E.n kp ry with hkdef
  obtain ⟨py', hP', hpy'⟩ := even_point L (ofBe key) (by omega) px py hP
  obtain ⟨ry', hR', hry'⟩ := even_point L kp (by omega) rx ry hR
  rw [← hsecdef] at hP'
  rw [← hkdef] at hR'
  set e := ofBe (H.tagged "BIP0340/challenge" (beN 32 rx ++ beN 32 px ++ msg)) % E.n with hedef
  have helt : e < E.n := Nat.mod_lt _ hnpos
  subst h
  unfold verifySchnorr
  have l1 : (beN 32 px).length = 32 := by simp
  have l2 : (beN 32 rx ++ beN 32 ((k + e * sec) % E.n)).length = 64 := by simp
  have hml' : msg.length = 32 := by simpa using hml
  simp only [l1, l2, hml', ne_eq, not_true_eq_false, if_false]
  rw [take32_append _ _ (by simp), drop32_append _ _ (by simp)]
  rw [ofBe_beN32 px (by omega), ofBe_beN32 rx (by omega),
      ofBe_beN32 ((k + e * sec) % E.n) (by have := Nat.mod_lt (k + e * sec) hnpos; omega)]
  have c1 : ¬ (px = 0 ∨ px ≥ E.p) := by omega
  simp only [c1, if_false]
  rw [L.liftX_even _ _ _ hP' hpy']
  have c2 : ¬ rx ≥ E.p := by omega
  have c3 : ¬ (k + e * sec) % E.n ≥ E.n := by have := Nat.mod_lt (k + e * sec) hnpos; omega
  simp only [c2, c3, if_false]
  rw [← hedef, L.lin_comb, schnorr_scalar E.n k e sec (by omega), L.mul_mod, hR']
  simp [hry']

end Embit
