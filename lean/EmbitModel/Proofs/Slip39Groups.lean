import EmbitModel.Spec.Slip39Groups
import EmbitModel.Proofs.Slip39Layout
import EmbitModel.Proofs.Slip39InterpSpec
import EmbitModel.Proofs.Slip39CryptSpec
import EmbitModel.Proofs.Slip39Logic
/-
  Two-level (group) recovery: `ShareSet.recover` on a set of shares that is valid in the sense of the standard
  equals `Spec.Slip39.combineShares` (RecoverSecret per group, RecoverSecret on the group shares, decryption);
  and what the code refuses: fewer groups than the group threshold, a group below its member threshold.
-/
namespace Embit.Model.Slip39
open Embit Embit.Spec.Slip39

/-! ### the group loop -/

theorem recoverGroup_nonempty (P : Prims) (i : Nat) (g0 : Share) (rest : List Share) :
    recoverGroup P i (g0 :: rest) ≠ some none := by
  simp only [recoverGroup]
  split_ifs <;> try simp
  split <;> simp

/-- one group: its share data, `none` when the group loop raises -/
def groupData (P : Prims) (g : Nat × List Share) : Option (Nat × Bytes) :=
  match recoverGroup P g.1 g.2 with
  | some (some d) => some d
  | _ => none

/-- the group loop = map over the non-empty groups, failing as soon as one group fails -/
theorem gather_eq_mapOpt (P : Prims) (gs : List (Nat × List Share)) :
    gatherGroups P gs = mapOpt (groupData P) (gs.filter fun g => !g.2.isEmpty) := by
  induction gs with
  | nil => rfl
  | cons g gs ih =>
    obtain ⟨i, grp⟩ := g
    cases grp with
    | nil =>
      simp only [gatherGroups, recoverGroup, ih, List.filter_cons, List.isEmpty_nil, Bool.not_true, Bool.false_eq_true,
        if_false]
      cases mapOpt _ _ <;> rfl
    | cons g0 rest =>
      have hne : (!(g0 :: rest).isEmpty) = true := rfl
      simp only [gatherGroups, List.filter_cons, hne, if_true, mapOpt, ih, groupData]
      cases hr : recoverGroup P i (g0 :: rest) with
      | none => rfl
      | some r =>
        cases r with
        | none => exact absurd hr (recoverGroup_nonempty P i g0 rest)
        | some d => simp only []; cases mapOpt (groupData P) _ <;> rfl

theorem mapOpt_congr {α β : Type} (f g : α → Option β) (l : List α) (h : ∀ a ∈ l, f a = g a) :
    mapOpt f l = mapOpt g l := by
  induction l with
  | nil => rfl
  | cons a l ih =>
    simp only [mapOpt, h a List.mem_cons_self, ih (fun b hb => h b (List.mem_cons_of_mem _ hb))]

theorem mapOpt_map {α β γ : Type} (f : β → Option γ) (g : α → β) (l : List α) :
    mapOpt f (l.map g) = mapOpt (fun a => f (g a)) l := by
  induction l with
  | nil => rfl
  | cons a l ih => simp only [List.map_cons, mapOpt, ih]

theorem mapOpt_some {α β : Type} (f : α → Option β) (l : List α) (r : List β) (h : mapOpt f l = some r) :
    r.length = l.length ∧ ∀ k (hk : k < l.length) (hk' : k < r.length), f l[k] = some r[k] := by
  induction l generalizing r with
  | nil => simp only [mapOpt, Option.some.injEq] at h; subst h; simp
  | cons a l ih =>
    simp only [mapOpt] at h
    split at h
    · simp at h
    · rename_i b hb
      split at h
      · simp at h
      · rename_i bs hbs
        simp only [Option.some.injEq] at h; subst h
        obtain ⟨h1, h2⟩ := ih bs hbs
        refine ⟨by simp [h1], ?_⟩
        intro k hk hk'
        cases k with
        | zero => simpa using hb
        | succ k => simpa using h2 k (by simpa using hk) (by simpa using hk')

theorem mapOpt_none_of_mem {α β : Type} (f : α → Option β) (l : List α) (a : α) (ha : a ∈ l) (h : f a = none) :
    mapOpt f l = none := by
  induction l with
  | nil => simp at ha
  | cons b l ih =>
    simp only [List.mem_cons] at ha
    simp only [mapOpt]
    rcases ha with rfl | ha
    · rw [h]
    · rw [ih ha]; cases f b <;> rfl

theorem range_filter_eq (p : Nat → Bool) (m n : Nat) (hmn : m ≤ n) (hp : ∀ i, p i = true → i < m) :
    (List.range n).filter p = (List.range m).filter p := by
  obtain ⟨d, rfl⟩ : ∃ d, n = m + d := ⟨n - m, by omega⟩
  rw [List.range_add, List.filter_append]
  have : (List.map (fun x => m + x) (List.range d)).filter p = [] := by
    rw [List.filter_eq_nil_iff]
    intro a ha
    obtain ⟨x, _, rfl⟩ := List.mem_map.mp ha
    intro h; have := hp _ h; omega
  rw [this, List.append_nil]


theorem pairwiseDistinct_iff (l : List Nat) : pairwiseDistinct l = true ↔ l.Nodup := by
  induction l with
  | nil => simp [pairwiseDistinct]
  | cons a l ih => simp [pairwiseDistinct, ih]

theorem bytes_length (s : Share) : s.bytes.length = s.shareBitLength / 8 := by simp [Share.bytes]

/-- one group with exactly its member threshold of shares: embit's group step is RecoverSecret(T_i, ·) -/
theorem groupData_eq_spec (P : Prims) (i : Nat) (grp : List Share) (hinit : ∀ s ∈ grp, s.initOk = true)
    (L : Nat) (hL : ∀ s ∈ grp, s.shareBitLength / 8 = L) (hv : validGroup (grp.map Share.toFields) = true) :
    groupData P (i, grp) = groupShare (toSpec P) i (grp.map Share.toFields) ∧
    ∀ d, groupData P (i, grp) = some d → d.1 = i ∧ d.2.length = L := by
  cases grp with
  | nil => simp [validGroup] at hv
  | cons g0 rest =>
    simp only [List.map_cons, validGroup, Bool.and_eq_true, List.all_eq_true, beq_iff_eq, pairwiseDistinct_iff,
      List.length_cons, List.length_map] at hv
    obtain ⟨⟨hsame, hnd⟩, hcount⟩ := hv
    have hsame' : ∀ s ∈ g0 :: rest, s.memberThreshold = g0.memberThreshold := by
      intro s hs
      have := hsame s.toFields (by rw [← List.map_cons]; exact List.mem_map_of_mem hs)
      simpa [Share.toFields] using this
    have hall : (g0 :: rest).all (fun s => s.memberThreshold == g0.memberThreshold) = true := by
      rw [List.all_eq_true]; intro s hs; simpa using hsame' s hs
    have hmt : g0.toFields.t = g0.memberThreshold := rfl
    rw [hmt] at hcount
    have hmembers : ((g0 :: rest).map Share.toFields).map (fun m => (m.I, m.value)) =
        (g0 :: rest).map fun s => (s.memberIndex, s.bytes) := by
      rw [List.map_map]; rfl
    by_cases h1 : g0.memberThreshold = 1
    · have hall1 := hall
      rw [h1] at hall1
      have hd : groupData P (i, g0 :: rest) = some (i, g0.bytes) := by
        simp only [groupData, recoverGroup, h1, hall1, Bool.not_true, Bool.false_eq_true, if_false, if_true]
      refine ⟨?_, ?_⟩
      · rw [hd]
        simp only [groupShare, List.map_cons, hmt, h1, Spec.Slip39.recoverSecret, if_true, Option.map_some]
        rfl
      · intro d hd'
        rw [hd] at hd'; simp only [Option.some.injEq] at hd'; subst hd'
        exact ⟨rfl, by rw [bytes_length]; exact hL g0 List.mem_cons_self⟩
    · have hgood : Good ((g0 :: rest).map fun s => (s.memberIndex, s.bytes)) L := by
        refine ⟨?_, ?_, ?_, by simp⟩
        · intro t ht
          obtain ⟨s, hs, rfl⟩ := List.mem_map.mp ht
          have := hinit s hs
          simp only [Share.initOk, Bool.and_eq_true, Bool.not_eq_true', decide_eq_false_iff_not] at this
          have := this.1.1.2
          show s.memberIndex < 256
          omega
        · rw [List.map_map]
          have : ((g0 :: rest).map Share.toFields).map (·.I) = (g0 :: rest).map ((·.1) ∘ fun s => (s.memberIndex, s.bytes)) := by
            rw [List.map_map]; rfl
          rw [← this]; exact hnd
        · intro t ht
          obtain ⟨s, hs, rfl⟩ := List.mem_map.mp ht
          show s.bytes.length = L
          rw [bytes_length]; exact hL s hs
      have hlt16 : ∀ x ∈ ((g0 :: rest).map fun s => (s.memberIndex, s.bytes)).map (·.1), x < 16 := by
        intro x hx
        rw [List.map_map] at hx
        obtain ⟨s, hs, rfl⟩ := List.mem_map.mp hx
        have := hinit s hs
        simp only [Share.initOk, Bool.and_eq_true, Bool.not_eq_true', decide_eq_false_iff_not] at this
        have := this.1.1.2
        show s.memberIndex < 16
        omega
      have hspec := recoverSecret_eq_spec P hgood g0.memberThreshold h1
        (fun h => by have := hlt16 _ h; omega) (fun h => by have := hlt16 _ h; omega)
      have hd : groupData P (i, g0 :: rest) =
          (recoverSecret P ((g0 :: rest).map fun s => (s.memberIndex, s.bytes))).map fun v => (i, v) := by
        simp only [groupData, recoverGroup, hall, Bool.not_true, Bool.false_eq_true, if_false, h1,
          show ¬ g0.memberThreshold > (g0 :: rest).length by simp only [List.length_cons]; omega]
        cases recoverSecret P _ <;> rfl
      refine ⟨?_, ?_⟩
      · rw [hd, hspec]
        simp only [groupShare, hmembers]
        rfl
      · intro d hd'
        rw [hd] at hd'
        cases hr : recoverSecret P ((g0 :: rest).map fun s => (s.memberIndex, s.bytes)) with
        | none => rw [hr] at hd'; simp at hd'
        | some v =>
          rw [hr] at hd'; simp only [Option.map_some, Option.some.injEq] at hd'; subst hd'
          refine ⟨rfl, ?_⟩
          rw [(recoverSecret_digest P _ v hr).1]
          exact interpolate_length' hgood 255


/-- distinct member indices within every group ⇒ no (group index, member index) pair twice -/
theorem nodup_pairs (l : List Share)
    (h : ∀ gi, ((l.filter fun s => s.groupIndex == gi).map (·.memberIndex)).Nodup) :
    (l.map fun s => (s.groupIndex, s.memberIndex)).Nodup := by
  induction l with
  | nil => simp
  | cons a l ih =>
    rw [List.map_cons, List.nodup_cons]
    constructor
    · intro hmem
      obtain ⟨b, hb, hab⟩ := List.mem_map.mp hmem
      simp only [Prod.mk.injEq] at hab
      have := h a.groupIndex
      rw [List.filter_cons, if_pos (by simp), List.map_cons, List.nodup_cons] at this
      apply this.1
      exact List.mem_map.mpr ⟨b, List.mem_filter.mpr ⟨hb, by simp [hab.1]⟩, hab.2⟩
    · apply ih
      intro gi
      have := h gi
      rw [List.filter_cons] at this
      split at this
      · rw [List.map_cons, List.nodup_cons] at this; exact this.2
      · exact this

theorem mapOpt_fst {β : Type} (f : Nat → Option (Nat × β)) (l : List Nat) (r : List (Nat × β))
    (h : mapOpt f l = some r) (hf : ∀ a ∈ l, ∀ b, f a = some b → b.1 = a) : r.map (·.1) = l := by
  induction l generalizing r with
  | nil => simp only [mapOpt, Option.some.injEq] at h; subst h; rfl
  | cons a l ih =>
    simp only [mapOpt] at h
    split at h
    · simp at h
    · rename_i b hb
      split at h
      · simp at h
      · rename_i bs hbs
        simp only [Option.some.injEq] at h; subst h
        rw [List.map_cons, hf a List.mem_cons_self b hb,
          ih bs hbs (fun a' ha' => hf a' (List.mem_cons_of_mem _ ha'))]

theorem mapOpt_mem {α β : Type} (f : α → Option β) (l : List α) (r : List β) (h : mapOpt f l = some r) :
    ∀ b ∈ r, ∃ a ∈ l, f a = some b := by
  induction l generalizing r with
  | nil => simp only [mapOpt, Option.some.injEq] at h; subst h; simp
  | cons a l ih =>
    simp only [mapOpt] at h
    split at h
    · simp at h
    · rename_i b hb
      split at h
      · simp at h
      · rename_i bs hbs
        simp only [Option.some.injEq] at h; subst h
        intro b' hb'
        simp only [List.mem_cons] at hb'
        rcases hb' with rfl | hb'
        · exact ⟨a, List.mem_cons_self, hb⟩
        · obtain ⟨a', ha', hfa⟩ := ih bs hbs b' hb'
          exact ⟨a', List.mem_cons_of_mem _ ha', hfa⟩

theorem mapOpt_length {α β : Type} (f : α → Option β) (l : List α) (r : List β) (h : mapOpt f l = some r) :
    r.length = l.length := (mapOpt_some f l r h).1


/-- what a valid set (in the sense of the standard) of well-formed embit shares looks like -/
theorem validSet_facts (s0 : Share) (rest : List Share) (hwf : ∀ s ∈ s0 :: rest, s.WF)
    (hv : validSet ((s0 :: rest).map Share.toFields) = true) :
    (∀ s ∈ s0 :: rest, s.id = s0.id ∧ s.exponent = s0.exponent ∧ s.groupThreshold = s0.groupThreshold ∧
      s.groupCount = s0.groupCount ∧ s.shareBitLength = s0.shareBitLength ∧ s.groupIndex < s0.groupCount) ∧
    (groupIndices ((s0 :: rest).map Share.toFields)).length = s0.groupThreshold ∧
    ∀ gi ∈ groupIndices ((s0 :: rest).map Share.toFields),
      validGroup (membersOf ((s0 :: rest).map Share.toFields) gi) = true := by
  simp only [List.map_cons, validSet, Bool.and_eq_true, List.all_eq_true, beq_iff_eq, decide_eq_true_eq] at hv
  obtain ⟨⟨⟨⟨hall, _⟩, hgi⟩, hcnt⟩, hgrp⟩ := hv
  refine ⟨?_, hcnt, hgrp⟩
  intro s hs
  have hm : s.toFields ∈ s0.toFields :: rest.map Share.toFields := by
    rw [← List.map_cons]; exact List.mem_map_of_mem hs
  obtain ⟨⟨⟨⟨⟨e1, e2⟩, e3⟩, e4⟩, e5⟩, e6⟩ := hall _ hm
  have g1 := hgi _ hm
  simp only [Share.toFields, Share.bytes, beN_length] at e1 e2 e3 e4 e5 e6 g1
  have w := (hwf s hs).sbl16
  have w0 := (hwf s0 List.mem_cons_self).sbl16
  exact ⟨e1, by omega, e4, e5, by omega, g1⟩

/-- **two-level recovery**: on every set of well-formed shares (non-extendable) that is valid in the sense of the
    standard — one id / exponent / group threshold / group count / length, exactly GT groups, each with exactly
    its member threshold of distinct members — `ShareSet(shares).recover(passphrase)` is the standard's
    combination: RecoverSecret(T_i, ·) per group, RecoverSecret(GT, ·) on the group shares, decryption -/
theorem recover_eq_combine (P : Prims) (shares : List Share) (pass : Bytes) (hwf : ∀ s ∈ shares, s.WF)
    (hext : ∀ s ∈ shares, s.exponent < 16) (hv : validSet (shares.map Share.toFields) = true) :
    (ShareSet.new? shares).bind (fun ss => ss.recover P pass) =
      combineShares (toSpec P) (shares.map Share.toFields) pass := by
  cases shares with
  | nil => simp [validSet] at hv
  | cons s0 rest =>
    obtain ⟨hall, hcnt, hgrp⟩ := validSet_facts s0 rest hwf hv
    have hwf0 := hwf s0 List.mem_cons_self
    have hinit0 := hwf0.init
    simp only [Share.initOk, Bool.and_eq_true, Bool.not_eq_true', decide_eq_false_iff_not, Bool.or_eq_false_iff,
      decide_eq_true_eq, Nat.not_lt] at hinit0
    obtain ⟨⟨⟨⟨⟨_, hgt1, hgtle⟩, _, hgc16⟩, _⟩, _⟩, _⟩ := hinit0
    -- ShareSet(shares) is accepted
    have hnd : ((s0 :: rest).map fun s => (s.groupIndex, s.memberIndex)).Nodup := by
      apply nodup_pairs
      intro gi
      by_cases hin : gi ∈ groupIndices ((s0 :: rest).map Share.toFields)
      · have := hgrp gi hin
        simp only [membersOf, List.filter_map] at this
        generalize hF : List.filter ((fun s => s.GI == gi) ∘ Share.toFields) (s0 :: rest) = F at this
        have hF' : (s0 :: rest).filter (fun s => s.groupIndex == gi) = F := by rw [← hF]; rfl
        rw [hF']
        cases F with
        | nil => simp
        | cons f0 F =>
          simp only [List.map_cons, validGroup, Bool.and_eq_true, pairwiseDistinct_iff] at this
          have h2 := this.1.2
          simp only [List.map_map] at h2
          exact h2
      · have : (s0 :: rest).filter (fun s => s.groupIndex == gi) = [] := by
          rw [List.filter_eq_nil_iff]
          intro s hs hsg
          apply hin
          simp only [groupIndices, List.mem_filter, List.mem_range, List.any_map]
          have hsi := (hwf s hs).init
          simp only [Share.initOk, Bool.and_eq_true, Bool.not_eq_true', decide_eq_false_iff_not] at hsi
          have := hsi.1.1.1.1.1
          simp only [beq_iff_eq] at hsg
          refine ⟨by omega, ?_⟩
          rw [List.any_eq_true]
          exact ⟨s, hs, by simp [Share.toFields, hsg]⟩
        rw [this]; simp
    have hcons : consistent s0 (s0 :: rest) = true := by
      simp only [consistent, Bool.and_eq_true, List.all_eq_true, beq_iff_eq, Bool.not_eq_true',
        decide_eq_false_iff_not, Nat.not_lt]
      refine ⟨⟨⟨⟨⟨⟨?_, ?_⟩, ?_⟩, ?_⟩, hgtle⟩, ?_⟩, (nodupB_iff _).mpr hnd⟩
      · intro s hs; exact (hall s hs).1
      · intro s hs; exact (hall s hs).2.1
      · intro s hs; exact (hall s hs).2.2.1
      · intro s hs; exact (hall s hs).2.2.2.1
      · intro s hs; exact (hall s hs).2.2.2.2.1
    have hnew : ShareSet.new? (s0 :: rest) = some ⟨s0 :: rest, s0.id, s0.exponent, s0.groupThreshold,
        s0.groupCount, s0.shareBitLength⟩ := by
      simp only [ShareSet.new?, hcons, Bool.not_true, Bool.and_false, Bool.false_eq_true, if_false]
    rw [hnew, Option.bind_some]
    -- the groups present
    generalize hGIs : ((List.range s0.groupCount).filter fun i => (s0 :: rest).any fun s => s.groupIndex == i) = GIs
    have hspecGIs : groupIndices ((s0 :: rest).map Share.toFields) = GIs := by
      rw [← hGIs]
      unfold groupIndices
      rw [range_filter_eq _ s0.groupCount 16 hgc16]
      · apply List.filter_congr
        intro i _
        rw [List.any_map]; rfl
      · intro i hi
        rw [List.any_map, List.any_eq_true] at hi
        obtain ⟨s, hs, hsi⟩ := hi
        simp only [Function.comp, Share.toFields, beq_iff_eq] at hsi
        rw [← hsi]; exact (hall s hs).2.2.2.2.2
    have hmembers : ∀ gi, membersOf ((s0 :: rest).map Share.toFields) gi =
        ((s0 :: rest).filter fun s => s.groupIndex == gi).map Share.toFields := by
      intro gi; unfold membersOf; rw [List.filter_map]; rfl
    rw [hspecGIs] at hcnt hgrp
    have hL : ∀ s ∈ s0 :: rest, s.shareBitLength / 8 = s0.shareBitLength / 8 := by
      intro s hs; rw [(hall s hs).2.2.2.2.1]
    -- per group: embit's step is the standard's
    have hgroup : ∀ gi ∈ GIs,
        groupData P (gi, (s0 :: rest).filter fun s => s.groupIndex == gi) =
          groupShare (toSpec P) gi (membersOf ((s0 :: rest).map Share.toFields) gi) ∧
        ∀ d, groupData P (gi, (s0 :: rest).filter fun s => s.groupIndex == gi) = some d →
          d.1 = gi ∧ d.2.length = s0.shareBitLength / 8 := by
      intro gi hgi
      rw [hmembers gi]
      apply groupData_eq_spec P gi _ (fun s hs => (hwf s (List.mem_of_mem_filter hs)).init) _
        (fun s hs => hL s (List.mem_of_mem_filter hs))
      rw [← hmembers gi]; exact hgrp gi hgi
    have hgather : gatherGroups P ((List.range s0.groupCount).map fun i =>
        (i, (s0 :: rest).filter fun s => s.groupIndex == i)) =
        mapOpt (fun gi => groupShare (toSpec P) gi (membersOf ((s0 :: rest).map Share.toFields) gi)) GIs := by
      rw [gather_eq_mapOpt, List.filter_map]
      have : (List.range s0.groupCount).filter ((fun g : Nat × List Share => !g.2.isEmpty) ∘ fun i =>
          (i, (s0 :: rest).filter fun s => s.groupIndex == i)) = GIs := by
        rw [← hGIs]
        apply List.filter_congr
        intro i _
        simp only [Function.comp]
        cases hf : (s0 :: rest).filter (fun s => s.groupIndex == i) with
        | nil =>
          rw [List.filter_eq_nil_iff] at hf
          have : ((s0 :: rest).any fun s => s.groupIndex == i) = false := by
            rw [List.any_eq_false]; exact hf
          rw [this]; rfl
        | cons a l =>
          have ha : a ∈ (s0 :: rest).filter (fun s => s.groupIndex == i) := by rw [hf]; exact List.mem_cons_self
          have : ((s0 :: rest).any fun s => s.groupIndex == i) = true := by
            rw [List.any_eq_true]; exact ⟨a, List.mem_of_mem_filter ha, (List.mem_filter.mp ha).2⟩
          rw [this]; rfl
      rw [this, mapOpt_map]
      exact mapOpt_congr _ _ _ (fun gi hgi => (hgroup gi hgi).1)
    have hidx : ((s0 :: rest).any fun s => decide (s.groupIndex ≥ s0.groupCount)) = false := by
      rw [List.any_eq_false]
      intro s hs
      have := (hall s hs).2.2.2.2.2
      simp only [decide_eq_true_eq]; omega
    have hext0 : s0.toFields.ext = 0 := by
      have := hext s0 List.mem_cons_self
      simp only [Share.toFields]; omega
    have he0 : s0.toFields.e = s0.exponent := by
      have := hext s0 List.mem_cons_self
      simp only [Share.toFields]; omega
    -- facts about the group shares
    have hsd : ∀ sd, mapOpt (fun gi => groupShare (toSpec P) gi (membersOf ((s0 :: rest).map Share.toFields) gi)) GIs
        = some sd → sd.length = s0.groupThreshold ∧ Good sd (s0.shareBitLength / 8) ∧
          ∀ x ∈ sd.map (·.1), x < 16 := by
      intro sd hm
      rw [← mapOpt_congr _ _ _ (fun gi hgi => (hgroup gi hgi).1)] at hm
      have hlen := mapOpt_length _ _ _ hm
      have hfst := mapOpt_fst _ _ _ hm (fun a ha b hb => ((hgroup a ha).2 b hb).1)
      have hmem := mapOpt_mem _ _ _ hm
      have hGlt : ∀ x ∈ GIs, x < 16 := by
        intro x hx; rw [← hGIs] at hx
        have := (List.mem_filter.mp hx).1
        rw [List.mem_range] at this; omega
      refine ⟨by rw [hlen, hcnt], ⟨?_, ?_, ?_, ?_⟩, by rw [hfst]; exact hGlt⟩
      · intro d hd
        have := hGlt d.1 (by rw [← hfst]; exact List.mem_map_of_mem hd)
        omega
      · rw [hfst, ← hGIs]; exact List.Nodup.sublist List.filter_sublist List.nodup_range
      · intro d hd
        obtain ⟨a, ha, hfa⟩ := hmem d hd
        exact ((hgroup a ha).2 d hfa).2
      · intro h; rw [h] at hlen; simp at hlen; omega
    have hid : s0.id < 65536 := by have := hwf0.id; omega
    have hdec : ∀ x : Bytes, x.length = s0.shareBitLength / 8 →
        decrypt P x s0.id s0.exponent pass = some (decryptMS (toSpec P) x s0.id s0.exponent pass) := by
      intro x hx
      have h16 := hwf0.sbl16
      have h128 := hwf0.sbl128
      exact (crypt_eq_spec P x s0.id s0.exponent pass (by omega) (by intro h; rw [h] at hx; simp at hx; omega) hid).2
    unfold ShareSet.recover
    unfold combineShares
    simp only [List.map_cons] at hv hgather hspecGIs hsd ⊢
    simp only [hidx, Bool.false_eq_true, if_false, hgather, hv, Bool.not_true, hext0, ne_eq, not_true_eq_false, he0,
      hspecGIs]
    cases hm : mapOpt (fun gi => groupShare (toSpec P) gi (membersOf (s0.toFields :: List.map Share.toFields rest) gi))
        GIs with
    | none => rfl
    | some sd =>
      obtain ⟨hlen, hgood, hlt16⟩ := hsd sd hm
      have hGt : s0.toFields.Gt = s0.groupThreshold := rfl
      have hId : s0.toFields.id = s0.id := rfl
      simp only [hGt, hId]
      by_cases h1 : s0.groupThreshold = 1
      · simp only [h1, if_true]
        obtain ⟨d, rfl⟩ := List.length_eq_one_iff.mp (hlen.trans h1)
        simp only [Spec.Slip39.recoverSecret, if_true]
        exact hdec d.2 (hgood.len d List.mem_cons_self)
      · simp only [h1, if_false]
        rw [if_neg (by omega)]
        have hrs : recoverSecret P sd = Spec.Slip39.recoverSecret (toSpec P) s0.groupThreshold sd :=
          recoverSecret_eq_spec P hgood s0.groupThreshold h1
            (fun h => by have := hlt16 _ h; omega) (fun h => by have := hlt16 _ h; omega)
        cases hr : recoverSecret P sd with
        | none => rw [← hrs, hr]
        | some sec =>
          rw [← hrs, hr]
          have hsl : sec.length = s0.shareBitLength / 8 := by
            rw [(recoverSecret_digest P _ sec hr).1]; exact interpolate_length' hgood 255
          exact hdec sec hsl


/-! ### refusals -/

/-- **fewer groups than the group threshold** (threshold ≥ 2): if all group indices of the given shares lie in a
    list of fewer than `group_threshold` numbers, `recover` raises — whatever the shares contain -/
theorem fewer_groups_refused (P : Prims) (ss : ShareSet) (pass : Bytes) (hk : 2 ≤ ss.groupThreshold)
    (D : List Nat) (hD : ∀ s ∈ ss.shares, s.groupIndex ∈ D) (hfew : D.length < ss.groupThreshold) :
    ss.recover P pass = none := by
  unfold ShareSet.recover
  split
  · rfl
  · simp only
    split
    · rfl
    · rename_i sd hsd
      have hsub := gather_length P _ sd hsd
      have hnd : (sd.map (·.1)).Nodup := by
        apply List.Nodup.sublist hsub
        apply List.Nodup.sublist (List.Sublist.map _ List.filter_sublist)
        simp only [List.map_map, Function.comp_def, List.map_id']
        exact List.nodup_range
      have hmem : ∀ i ∈ sd.map (·.1), i ∈ D := by
        intro i hi
        have := hsub.subset hi
        obtain ⟨g, hg, rfl⟩ := List.mem_map.mp this
        obtain ⟨hg1, hne⟩ := List.mem_filter.mp hg
        obtain ⟨j, _, rfl⟩ := List.mem_map.mp hg1
        simp only [Bool.not_eq_true', List.isEmpty_eq_false_iff] at hne
        obtain ⟨s, hs⟩ := List.exists_mem_of_ne_nil _ hne
        simp only [List.mem_filter, beq_iff_eq] at hs
        rw [← hs.2]; exact hD s hs.1
      have hle : sd.length ≤ D.length := by
        have := (List.subperm_of_subset hnd hmem).length_le
        simpa using this
      rw [if_neg (by omega), if_pos (by omega)]

/-- **a group with fewer shares than its member threshold**: if some given share's group holds fewer shares than
    that share's member threshold, `recover` raises — also when the group threshold is 1 and another group is
    complete (every non-empty group is processed before the group threshold is looked at) -/
theorem fewer_members_refused (P : Prims) (ss : ShareSet) (pass : Bytes) (s : Share) (hs : s ∈ ss.shares)
    (hfew : (ss.shares.filter fun t => t.groupIndex == s.groupIndex).length < s.memberThreshold) :
    ss.recover P pass = none := by
  unfold ShareSet.recover
  split
  · rfl
  · rename_i hidx
    simp only
    have hlt : s.groupIndex < ss.groupCount := by
      simp only [Bool.not_eq_true, List.any_eq_false, decide_eq_true_eq] at hidx
      have := hidx s hs; omega
    have hin : s ∈ ss.shares.filter (fun t => t.groupIndex == s.groupIndex) :=
      List.mem_filter.mpr ⟨hs, by simp⟩
    have hnone : groupData P (s.groupIndex, ss.shares.filter fun t => t.groupIndex == s.groupIndex) = none := by
      cases hg : ss.shares.filter (fun t => t.groupIndex == s.groupIndex) with
      | nil => rw [hg] at hin; simp at hin
      | cons g0 rest =>
        rw [hg] at hin hfew
        simp only [groupData, recoverGroup]
        by_cases hall : (g0 :: rest).all (fun t => t.memberThreshold == g0.memberThreshold) = true
        · have hsm : s.memberThreshold = g0.memberThreshold := by
            rw [List.all_eq_true] at hall; simpa using hall s hin
          simp only [List.length_cons] at hfew
          simp only [hall, Bool.not_true, Bool.false_eq_true, if_false]
          rw [if_neg (by omega), if_pos (by simp only [List.length_cons]; omega)]
        · simp only [hall, Bool.not_false, if_true]
    rw [gather_eq_mapOpt]
    rw [mapOpt_none_of_mem (groupData P) _ (s.groupIndex, ss.shares.filter fun t => t.groupIndex == s.groupIndex) ?_ hnone]
    rw [List.mem_filter]
    refine ⟨List.mem_map.mpr ⟨s.groupIndex, List.mem_range.mpr hlt, rfl⟩, ?_⟩
    simp only [Bool.not_eq_true', List.isEmpty_eq_false_iff]
    exact List.ne_nil_of_mem hin

end Embit.Model.Slip39
