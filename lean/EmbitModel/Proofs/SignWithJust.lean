import EmbitModel.Proofs.SignWithTrace
import EmbitModel.Proofs.SignWithDigest
/-
  Every write `SignWith.signWith` performs is justified: authorised flag, a key the signer controls for that input,
  a signature over the digest of the PSBT as handed in (Mathlib-free).
-/
namespace Embit.Model.SignWith
open Embit Embit.Model

variable {HD : Type}

/-! ### the justification only reads the frame -/

theorem core_fields {s t : InScope} (h : core s = core t) :
    s.utxo = t.utxo ∧ s.witnessScript = t.witnessScript ∧ s.redeemScript = t.redeemScript ∧
    s.tapMerkleRoot = t.tapMerkleRoot ∧ s.tapScripts = t.tapScripts ∧ s.bip32 = t.bip32 ∧ s.tapBip32 = t.tapBip32 ∧
    s.sighashType = t.sighashType :=
  ⟨show (core s).utxo = (core t).utxo from congrArg _ h,
   show (core s).witnessScript = (core t).witnessScript from congrArg _ h,
   show (core s).redeemScript = (core t).redeemScript from congrArg _ h,
   show (core s).tapMerkleRoot = (core t).tapMerkleRoot from congrArg _ h,
   show (core s).tapScripts = (core t).tapScripts from congrArg _ h,
   show (core s).bip32 = (core t).bip32 from congrArg _ h,
   show (core s).tapBip32 = (core t).tapBip32 from congrArg _ h,
   show (core s).sighashType = (core t).sighashType from congrArg _ h⟩

theorem scriptOf_core {s t : InScope} (h : core s = core t) (spk : Bytes) : scriptOf s spk = scriptOf t spk := by
  obtain ⟨_, h2, h3, _⟩ := core_fields h
  simp [scriptOf, h2, h3]

theorem matchingDerivs_core {s t : InScope} (h : core s = core t) (fp : Bytes) :
    matchingDerivs s fp = matchingDerivs t fp := by
  obtain ⟨_, _, _, _, _, h6, h7, _⟩ := core_fields h
  simp [matchingDerivs, h6, h7]

theorem Controls.core {O : Ops HD} {sg : Single HD} {tap : Bool} {s t : InScope} {sk pub : Bytes}
    (h : core s = core t) (hc : Controls O sg tap s sk pub) : Controls O sg tap t sk pub := by
  obtain ⟨fp, d, k, h1, h2, h3, h4⟩ := hc
  exact ⟨fp, d, k, h1, h2, matchingDerivs_core h fp ▸ h3, h4⟩

theorem OwnKey.core {O : Ops HD} {sg : Single HD} {s t : InScope} {sk : Bytes} {c : Bool}
    (h : core s = core t) (hc : OwnKey O sg s sk c) : OwnKey O sg t sk c := by
  rcases hc with h1 | ⟨h1, pub, h2⟩
  · exact Or.inl h1
  · exact Or.inr ⟨h1, pub, h2.core h⟩

theorem Justified.core {O : Ops HD} {sg : Single HD} {s t : InScope} {u : TxOut} {f : Nat}
    {D : Nat → Option (Bytes × Nat) → Option Bytes} {w : Slot × Bytes}
    (h : core s = core t) (hj : Justified O sg s u f D w) : Justified O sg t u f D w := by
  have hf := core_fields h
  cases hj with
  | ecdsaRoot hh sig h1 h2 h3 h4 =>
    exact Justified.ecdsaRoot hh sig h1 (scriptOf_core h u.spk ▸ h2) h3 h4
  | ecdsaDerived sk pub hh sig h1 h2 h3 h4 =>
    exact Justified.ecdsaDerived sk pub hh sig h1 (h2.core h) h3 h4
  | tapKey sk c tsk hh sig h1 h2 h3 h4 h5 h6 =>
    exact Justified.tapKey sk c tsk hh sig h1 (h2.core h) (hf.2.2.2.1 ▸ h3) h4 h5 h6
  | tapLeaf sk c ctrl sc lv hh sig h1 h2 h3 h4 h5 h6 h7 =>
    exact Justified.tapLeaf sk c ctrl sc lv hh sig h1 (h2.core h) (hf.2.2.2.2.1 ▸ h3) h4 h5 h6 h7

theorem Justified.digest {O : Ops HD} {sg : Single HD} {s : InScope} {u : TxOut} {f : Nat}
    {D D' : Nat → Option (Bytes × Nat) → Option Bytes} {w : Slot × Bytes}
    (h : ∀ f leaf, D f leaf = D' f leaf) (hj : Justified O sg s u f D w) : Justified O sg s u f D' w := by
  have : D = D' := by funext f leaf; exact h f leaf
  exact this ▸ hj

/-! ### taproot -/

theorem signLeaves_just (O : Ops HD) (sg : Single HD) (dg : Digest) (s0 : InScope) (u : TxOut) (sk : Bytes) (c : Bool)
    (f : Nat) (hdg : ∀ t, core t = core s0 → dg t = dg s0) (htap : isTaprootSpk u.spk = true)
    (hown : OwnKey O sg s0 sk c) (l : List (Bytes × Bytes)) (hsub : ∀ e ∈ l, e ∈ s0.tapScripts)
    (seen : List Slot) (s s' : InScope) (k : Nat) (ws : List (Slot × Bytes)) (hc : core s = core s0)
    (h : signLeaves O dg sk f (xonlyOfSec (O.secOf sk c)) seen l s = some (s', k, ws)) :
    ∀ w ∈ ws, Justified O sg s0 u f (dg s0) w := by
  induction l generalizing seen s s' k ws with
  | nil =>
    simp only [signLeaves, Option.some.injEq, Prod.mk.injEq] at h; obtain ⟨rfl, rfl, rfl⟩ := h
    intro w hw; cases hw
  | cons e r ih =>
    obtain ⟨ctrl, sc⟩ := e
    have hsub' : ∀ e ∈ r, e ∈ s0.tapScripts := fun e he => hsub e (List.mem_cons_of_mem _ he)
    unfold signLeaves at h
    split at h
    · exact ih hsub' _ _ _ _ _ hc h
    · rename_i hin
      split at h
      · cases h
      · rename_i lv hlv
        dsimp only at h
        split at h
        · cases h
        · rename_i hh hdig
          split at h
          · cases h
          · rename_i sig hsig
            split at h
            · cases h
            · rename_i s2 k2 ws2 hrec
              simp only [Option.some.injEq, Prod.mk.injEq] at h
              obtain ⟨rfl, rfl, rfl⟩ := h
              intro w hw
              rw [List.mem_cons] at hw
              rcases hw with rfl | hw
              · rw [hdg s hc] at hdig
                have hin' : isInfix (xonlyOfSec (O.secOf sk c)) sc = true := by simpa using hin
                exact Justified.tapLeaf sk c ctrl sc lv hh sig htap hown (hsub _ List.mem_cons_self) hin' hlv
                  hdig hsig
              · exact ih hsub' _ _ _ _ _ (by exact hc) hrec w hw

theorem signTapKey_just (O : Ops HD) (sg : Single HD) (dg : Digest) (s0 : InScope) (u : TxOut) (sk : Bytes) (c : Bool)
    (f : Nat) (hdg : ∀ t, core t = core s0 → dg t = dg s0) (hu : s0.utxo = some u)
    (hown : OwnKey O sg s0 sk c) (seen : List Slot) (s s' : InScope) (k : Nat) (ws : List (Slot × Bytes))
    (hc : core s = core s0) (h : signTapKey O dg sk c f seen s = some (s', k, ws)) :
    ∀ w ∈ ws, Justified O sg s0 u f (dg s0) w := by
  have hf := core_fields hc
  unfold signTapKey at h
  rw [hf.1, hu] at h
  dsimp only at h
  split at h
  · simp only [Option.some.injEq, Prod.mk.injEq] at h; obtain ⟨rfl, rfl, rfl⟩ := h
    intro w hw; cases hw
  · rename_i htap
    have htap' : isTaprootSpk u.spk = true := by simpa using htap
    split at h
    · cases h
    · rename_i tsk htw
      split at h
      · rename_i hin
        split at h
        · cases h
        · rename_i hh hdig
          split at h
          · cases h
          · rename_i sig hsig
            simp only [Option.some.injEq, Prod.mk.injEq] at h; obtain ⟨rfl, rfl, rfl⟩ := h
            intro w hw
            rw [List.mem_singleton] at hw
            subst hw
            rw [hdg s hc] at hdig
            rw [hf.2.2.2.1] at htw
            exact Justified.tapKey sk c tsk hh sig htap' hown htw hin hdig hsig
      · rw [hf.2.2.2.2.1] at h
        exact signLeaves_just O sg dg s0 u sk c f hdg htap' hown _ (fun e he => he) seen s s' k ws hc h

theorem signTapDerived_just (O : Ops HD) (sg : Single HD) (dg : Digest) (s0 : InScope) (u : TxOut)
    (f : Nat) (hdg : ∀ t, core t = core s0 → dg t = dg s0) (hu : s0.utxo = some u)
    (l : List (Bytes × Bytes)) (hl : ∀ e ∈ l, Controls O sg true s0 e.1 e.2)
    (seen : List Slot) (s s' : InScope) (k : Nat) (ws : List (Slot × Bytes)) (hc : core s = core s0)
    (h : signTapDerived O dg f seen l s = some (s', k, ws)) :
    ∀ w ∈ ws, Justified O sg s0 u f (dg s0) w := by
  induction l generalizing seen s s' k ws with
  | nil =>
    simp only [signTapDerived, Option.some.injEq, Prod.mk.injEq] at h; obtain ⟨rfl, rfl, rfl⟩ := h
    intro w hw; cases hw
  | cons e r ih =>
    obtain ⟨prv, pub⟩ := e
    unfold signTapDerived at h
    split at h
    · cases h
    · rename_i s1 k1 w1 h1
      split at h
      · cases h
      · rename_i s2 k2 w2 h2
        simp only [Option.some.injEq, Prod.mk.injEq] at h; obtain ⟨rfl, rfl, rfl⟩ := h
        intro w hw
        rw [List.mem_append] at hw
        have hown : OwnKey O sg s0 prv true := Or.inr ⟨rfl, pub, hl (prv, pub) List.mem_cons_self⟩
        rcases hw with hw | hw
        · exact signTapKey_just O sg dg s0 u prv true f hdg hu hown seen s s1 k1 w1 hc h1 w hw
        · have hc1 : core s1 = core s0 := by rw [(signTapKey_tr _ _ _ _ _ _ _ _ _ _ h1).core, hc]
          exact ih (fun e he => hl e (List.mem_cons_of_mem _ he)) _ _ _ _ _ hc1 h2 w hw

/-! ### legacy and segwit -/

theorem signEcdsaRoot_just (O : Ops HD) (sg : Single HD) (s0 : InScope) (u : TxOut) (f : Nat)
    (D : Nat → Option (Bytes × Nat) → Option Bytes) (hh : Bytes)
    (htap : isTaprootSpk u.spk = false) (hD : D f none = some hh)
    (seen : List Slot) (s s' : InScope) (k : Nat) (ws : List (Slot × Bytes))
    (h : signEcdsaRoot O (sg.secret O) sg.compressed f hh (scriptOf s0 u.spk) seen s = some (s', k, ws)) :
    ∀ w ∈ ws, Justified O sg s0 u f D w := by
  unfold signEcdsaRoot at h
  dsimp only at h
  split at h
  · rename_i hin
    split at h
    · cases h
    · rename_i sig hsig
      simp only [Option.some.injEq, Prod.mk.injEq] at h; obtain ⟨rfl, rfl, rfl⟩ := h
      intro w hw
      rw [List.mem_singleton] at hw
      subst hw
      have hin' : isInfix (O.secOf (sg.secret O) sg.compressed) (scriptOf s0 u.spk) = true
          ∨ isInfix (O.hash160 (O.secOf (sg.secret O) sg.compressed)) (scriptOf s0 u.spk) = true := by
        simpa [Bool.or_eq_true] using hin
      exact Justified.ecdsaRoot hh sig htap hin' hD hsig
  · simp only [Option.some.injEq, Prod.mk.injEq] at h; obtain ⟨rfl, rfl, rfl⟩ := h
    intro w hw; cases hw

theorem signEcdsaDerived_just (O : Ops HD) (sg : Single HD) (s0 : InScope) (u : TxOut) (f : Nat)
    (D : Nat → Option (Bytes × Nat) → Option Bytes) (hh rootpub : Bytes)
    (htap : isTaprootSpk u.spk = false) (hD : D f none = some hh)
    (l : List (Bytes × Bytes)) (hl : ∀ e ∈ l, Controls O sg false s0 e.1 e.2)
    (seen : List Slot) (s s' : InScope) (k : Nat) (ws : List (Slot × Bytes))
    (h : signEcdsaDerived O rootpub f hh seen l s = some (s', k, ws)) :
    ∀ w ∈ ws, Justified O sg s0 u f D w := by
  induction l generalizing seen s s' k ws with
  | nil =>
    simp only [signEcdsaDerived, Option.some.injEq, Prod.mk.injEq] at h; obtain ⟨rfl, rfl, rfl⟩ := h
    intro w hw; cases hw
  | cons e r ih =>
    obtain ⟨prv, pub⟩ := e
    have hl' : ∀ e ∈ r, Controls O sg false s0 e.1 e.2 := fun e he => hl e (List.mem_cons_of_mem _ he)
    unfold signEcdsaDerived at h
    split at h
    · exact ih hl' _ _ _ _ _ h
    · split at h
      · cases h
      · rename_i sig hsig
        dsimp only at h
        split at h
        · cases h
        · rename_i s2 k2 w2 h2
          simp only [Option.some.injEq, Prod.mk.injEq] at h; obtain ⟨rfl, rfl, rfl⟩ := h
          intro w hw
          rw [List.mem_cons] at hw
          rcases hw with rfl | hw
          · exact Justified.ecdsaDerived prv pub hh sig htap (hl (prv, pub) List.mem_cons_self) hD hsig
          · exact ih hl' _ _ _ _ _ h2 w hw

/-! ### derived key pairs -/

theorem derivedPairs_sound (O : Ops HD) (sg : Single HD) (tap : Bool) (l : List (Bytes × Deriv))
    (kps : List (Bytes × Bytes)) (h : derivedPairs O sg tap l = some kps) :
    ∀ e ∈ kps, ∃ d k, (e.2, d) ∈ l ∧ sg.deriveFor O d.path = some (some k) ∧ O.hdSecret k = e.1 ∧
      keyMatches O tap e.1 e.2 = true := by
  induction l generalizing kps with
  | nil => simp only [derivedPairs, Option.some.injEq] at h; subst h; intro e he; cases he
  | cons a r ih =>
    obtain ⟨pub, d⟩ := a
    unfold derivedPairs at h
    split at h
    · cases h
    · intro e he
      obtain ⟨d', k', h1, h2⟩ := ih kps h e he
      exact ⟨d', k', List.mem_cons_of_mem _ h1, h2⟩
    · rename_i k hk
      split at h
      · cases h
      · rename_i hm
        split at h
        · cases h
        · rename_i l' hl'
          simp only [Option.some.injEq] at h; subst h
          intro e he
          rw [List.mem_cons] at he
          rcases he with rfl | he
          · exact ⟨d, k, List.mem_cons_self, hk, rfl, by simpa using hm⟩
          · obtain ⟨d', k', h1, h2⟩ := ih l' hl' e he
            exact ⟨d', k', List.mem_cons_of_mem _ h1, h2⟩

/-- the key pairs `signInput` signs with are controlled by the signer -/
theorem derived_controls (O : Ops HD) (OL : OrderLaws O) (sg : Single HD) (tap : Bool) (s : InScope)
    (kps0 : List (Bytes × Bytes))
    (h : derivedPairs O sg tap (O.orderD (dedup (match sg.fingerprint O with
        | some fp => if fp.isEmpty then [] else matchingDerivs s fp
        | none => []))) = some kps0) :
    ∀ e ∈ O.orderK (dedup kps0), Controls O sg tap s e.1 e.2 := by
  intro e he
  have he' : e ∈ kps0 := (mem_dedup e kps0).mp ((OL.permK _).mem_iff.mp he)
  obtain ⟨d, k, h1, h2, h3, h4⟩ := derivedPairs_sound O sg tap _ kps0 h e he'
  have h1' := (mem_dedup _ _).mp ((OL.permD _).mem_iff.mp h1)
  cases hfp : sg.fingerprint O with
  | none => rw [hfp] at h1'; cases h1'
  | some fp =>
    rw [hfp] at h1'
    dsimp only at h1'
    split at h1'
    · cases h1'
    · rename_i hne
      refine ⟨fp, d, k, hfp, ?_, h1', h2, h3, h4⟩
      intro hnil; apply hne; simp [hnil]

/-! ### one input -/

theorem signInput_just (O : Ops HD) (OL : OrderLaws O) (sg : Single HD) (auth : Option Nat) (dg : Digest)
    (s : InScope) (u : TxOut) (hdg : ∀ t, core t = core s → dg t = dg s) (hu : s.utxo = some u) (seen : List Slot)
    (s' : InScope) (k : Nat) (ws : List (Slot × Bytes)) (h : signInput O sg auth dg seen s = some (s', k, ws)) :
    ∀ w ∈ ws, ∃ f, signPolicy auth s.sighashType (isTaprootSpk u.spk) = some f ∧ Justified O sg s u f (dg s) w := by
  unfold signInput at h
  rw [hu] at h
  dsimp only at h
  split at h
  · simp only [Option.some.injEq, Prod.mk.injEq] at h; obtain ⟨rfl, rfl, rfl⟩ := h
    intro w hw; cases hw
  · rename_i f hpol
    split at h
    · cases h
    · rename_i kps0 hkps
      have hctl := derived_controls O OL sg (isTaprootSpk u.spk) s kps0 hkps
      split at h
      · rename_i htap
        split at h
        · cases h
        · rename_i s1 k1 w1 h1
          split at h
          · cases h
          · rename_i s2 k2 w2 h2
            simp only [Option.some.injEq, Prod.mk.injEq] at h; obtain ⟨rfl, rfl, rfl⟩ := h
            intro w hw
            refine ⟨f, hpol, ?_⟩
            rw [List.mem_append] at hw
            rcases hw with hw | hw
            · exact signTapKey_just O sg dg s u _ _ f hdg hu (Or.inl ⟨rfl, rfl⟩) seen s s1 k1 w1 rfl h1 w hw
            · have hc1 : core s1 = core s := (signTapKey_tr _ _ _ _ _ _ _ _ _ _ h1).core
              rw [htap] at hctl
              exact signTapDerived_just O sg dg s u f hdg hu _ hctl _ s1 s2 k2 w2 hc1 h2 w hw
      · rename_i htap
        have htap' : isTaprootSpk u.spk = false := by simpa using htap
        split at h
        · cases h
        · rename_i hh hdig
          split at h
          · cases h
          · rename_i s1 k1 w1 h1
            split at h
            · cases h
            · rename_i s2 k2 w2 h2
              simp only [Option.some.injEq, Prod.mk.injEq] at h; obtain ⟨rfl, rfl, rfl⟩ := h
              intro w hw
              refine ⟨f, hpol, ?_⟩
              rw [List.mem_append] at hw
              rcases hw with hw | hw
              · exact signEcdsaRoot_just O sg s u f (dg s) hh htap' hdig seen s s1 k1 w1 h1 w hw
              · rw [htap'] at hctl
                exact signEcdsaDerived_just O sg s u f (dg s) hh _ htap' hdig _ hctl _ s1 s2 k2 w2 h2 w hw

end Embit.Model.SignWith

namespace Embit.Model.SignWith
open Embit Embit.Model

variable {HD : Type}

/-! ### PSBT level -/

/-- the write `w` is justified for key `sg` on PSBT `p`: its input exists and has a previous output, the policy
    authorises the flag, and the signature is by a key `sg` controls there over the digest `PSBT.sighash` of `p` -/
def JustifiedAt (O : Ops HD) (sg : Single HD) (auth : Option Nat) (p : Psbt) (w : Write) : Prop :=
  ∃ s u f, p.inputs[w.1]? = some s ∧ s.utxo = some u ∧
    signPolicy auth s.sighashType (isTaprootSpk u.spk) = some f ∧
    Justified O sg s u f (fun f leaf => psbtSighash O.sha p w.1 f leaf) w.2

theorem pcore_get {p q : Psbt} (h : pcore p = pcore q) (i : Nat) (s : InScope) (hs : p.inputs[i]? = some s) :
    ∃ t, q.inputs[i]? = some t ∧ core s = core t := by
  have h1 : (pcore p).inputs[i]? = (pcore q).inputs[i]? := by rw [h]
  simp only [pcore, List.getElem?_map, hs, Option.map_some] at h1
  cases hq : q.inputs[i]? with
  | none => rw [hq] at h1; cases h1
  | some t =>
    rw [hq] at h1
    exact ⟨t, rfl, Option.some.inj h1⟩

theorem JustifiedAt.pcore {O : Ops HD} {sg : Single HD} {auth : Option Nat} {p q : Psbt} {w : Write}
    (h : pcore p = pcore q) (hj : JustifiedAt O sg auth p w) : JustifiedAt O sg auth q w := by
  obtain ⟨s, u, f, h1, h2, h3, h4⟩ := hj
  obtain ⟨t, ht, hc⟩ := pcore_get h w.1 s h1
  have hf := core_fields hc
  refine ⟨t, u, f, ht, hf.1 ▸ h2, hf.2.2.2.2.2.2.2 ▸ h3, ?_⟩
  exact (h4.core hc).digest (fun f leaf => psbtSighash_congr O.sha p q h w.1 f leaf)

theorem signInputs_just (O : Ops HD) (OL : OrderLaws O) (sg : Single HD) (auth : Option Nat) (p0 : Psbt)
    (idxs : List Nat) (G : List (Nat × Slot)) (p p' : Psbt) (n : Nat) (ws : List Write) (hp : pcore p = pcore p0)
    (h : signInputs O sg auth idxs G p = some (p', n, ws)) : ∀ w ∈ ws, JustifiedAt O sg auth p0 w := by
  induction idxs generalizing G p p' n ws with
  | nil =>
    simp only [signInputs, Option.some.injEq, Prod.mk.injEq] at h; obtain ⟨rfl, rfl, rfl⟩ := h
    intro w hw; cases hw
  | cons i r ih =>
    unfold signInputs at h
    split at h
    · cases h
    · rename_i s hs
      split at h
      · cases h
      · rename_i s' k w1 h1
        split at h
        · cases h
        · rename_i p2 k2 w2 h2
          simp only [Option.some.injEq, Prod.mk.injEq] at h; obtain ⟨rfl, rfl, rfl⟩ := h
          have htr := signInput_tr _ _ _ _ _ _ _ _ _ h1
          intro w hw
          rw [List.mem_append] at hw
          rcases hw with hw | hw
          · rw [List.mem_map] at hw
            obtain ⟨w', hw', rfl⟩ := hw
            cases hu : s.utxo with
            | none => simp [signInput, hu] at h1
            | some u =>
              have hdg : ∀ t, core t = core s →
                  (fun s' f leaf => psbtSighash O.sha (Psbt.setInput p i s') i f leaf) t
                    = (fun s' f leaf => psbtSighash O.sha (Psbt.setInput p i s') i f leaf) s := by
                intro t ht
                funext f leaf
                show psbtSighash O.sha (Psbt.setInput p i t) i f leaf = psbtSighash O.sha (Psbt.setInput p i s) i f leaf
                rw [digest_setInput O.sha p i s t hs ht, setInput_self p i s hs]
              obtain ⟨f, hpol, hj⟩ := signInput_just O OL sg auth _ s u hdg hu _ s' k w1 h1 w' hw'
              refine JustifiedAt.pcore hp ⟨s, u, f, hs, hu, hpol, ?_⟩
              refine hj.digest (fun f leaf => ?_)
              show psbtSighash O.sha (Psbt.setInput p i s) i f leaf = psbtSighash O.sha p i f leaf
              rw [setInput_self p i s hs]
          · refine ih _ _ _ _ _ ?_ h2 w hw
            rw [pcore_setInput p i s s' hs htr.core, hp]

theorem signSingle_just (O : Ops HD) (OL : OrderLaws O) (sg : Single HD) (auth : Option Nat) (p0 : Psbt)
    (G : List (Nat × Slot)) (p p' : Psbt)
    (n : Nat) (ws : List Write) (hp : pcore p = pcore p0) (h : signSingle O sg auth G p = some (p', n, ws)) :
    ∀ w ∈ ws, JustifiedAt O sg auth p0 w := by
  unfold signSingle at h
  split at h
  · simp only [Option.some.injEq, Prod.mk.injEq] at h; obtain ⟨rfl, rfl, rfl⟩ := h
    intro w hw; cases hw
  · exact signInputs_just O OL sg auth p0 _ G p p' n ws hp h

theorem signKeys_just (O : Ops HD) (OL : OrderLaws O) (auth : Option Nat) (p0 : Psbt) (keys : List (Single HD))
    (G : List (Nat × Slot)) (p p' : Psbt) (n : Nat) (ws : List Write) (hp : pcore p = pcore p0)
    (h : signKeys O auth keys G p = some (p', n, ws)) : ∀ w ∈ ws, ∃ sg ∈ keys, JustifiedAt O sg auth p0 w := by
  induction keys generalizing G p p' n ws with
  | nil =>
    simp only [signKeys, Option.some.injEq, Prod.mk.injEq] at h; obtain ⟨rfl, rfl, rfl⟩ := h
    intro w hw; cases hw
  | cons k r ih =>
    unfold signKeys at h
    split at h
    · cases h
    · rename_i p1 n1 w1 h1
      split at h
      · cases h
      · rename_i p2 n2 w2 h2
        simp only [Option.some.injEq, Prod.mk.injEq] at h; obtain ⟨rfl, rfl, rfl⟩ := h
        intro w hw
        rw [List.mem_append] at hw
        rcases hw with hw | hw
        · exact ⟨k, List.mem_cons_self, signSingle_just O OL k auth p0 G p p1 n1 w1 hp h1 w hw⟩
        · have hp1 : pcore p1 = pcore p0 := by
            rw [(signSingle_tr _ _ _ _ _ _ _ _ h1).app, pcore_applyWrites, hp]
          obtain ⟨sg, hsg, hj⟩ := ih _ _ _ _ _ hp1 h2 w hw
          exact ⟨sg, List.mem_cons_of_mem _ hsg, hj⟩

theorem signWith_just (O : Ops HD) (OL : OrderLaws O) (signer : Signer HD) (auth : Option Nat) (p p' : Psbt)
    (n : Nat) (ws : List Write) (h : signWith O signer auth p = some (p', n, ws)) :
    ∀ w ∈ ws, ∃ sg ∈ signer.keys, JustifiedAt O sg auth p w := by
  unfold signWith at h
  split at h
  · rename_i sg
    intro w hw
    exact ⟨sg, List.mem_singleton.mpr rfl, signSingle_just O OL sg auth p [] p p' n ws rfl h w hw⟩
  · exact signKeys_just O OL auth p _ [] p p' n ws rfl h

end Embit.Model.SignWith
