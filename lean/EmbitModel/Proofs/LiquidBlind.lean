import EmbitModel.Model.Liquid
/-
  C18 helper lemmas about the data flow of `PSET.blind`: element-wise characterisation of the three passes over the
  outputs (hash-derived factors, last value blinding factor, commitments / proofs).
-/
set_option linter.unusedSimpArgs false
set_option linter.unusedVariables false
namespace Embit
open Model

/-- the factors pass on one output with index `i` -/
def withFactors (sha : Bytes → Bytes) (ts : Bytes) (i : Nat) (o : BlindOut) : BlindOut :=
  if o.selected then
    { o with abf := some (taggedHash sha "liquid/abf" (ts ++ idx4 i)),
             vbf := some (taggedHash sha "liquid/vbf" (ts ++ idx4 i)) }
  else o

theorem withFactors_selected (sha : Bytes → Bytes) (ts : Bytes) (i : Nat) (o : BlindOut) :
    (withFactors sha ts i o).selected = o.selected := by
  unfold withFactors; split <;> simp [BlindOut.selected]

theorem assignFactors_get (sha : Bytes → Bytes) (ts : Bytes) (l : List BlindOut) (k i : Nat) :
    (assignFactors sha ts k l)[i]? = (l[i]?).map (withFactors sha ts (k + i)) := by
  induction l generalizing k i with
  | nil => simp [assignFactors]
  | cons o r ih =>
    cases i with
    | zero => simp [assignFactors, withFactors]
    | succ j =>
      simp only [assignFactors, List.getElem?_cons_succ]
      rw [ih (k+1) j]
      congr 2; omega

theorem assignFactors_selected (sha : Bytes → Bytes) (ts : Bytes) (l : List BlindOut) (k : Nat) :
    (assignFactors sha ts k l).map BlindOut.selected = l.map BlindOut.selected := by
  induction l generalizing k with
  | nil => simp [assignFactors]
  | cons o r ih =>
    have := withFactors_selected sha ts k o
    simp only [assignFactors, List.map_cons, ih (k+1)]
    congr 1

theorem assignFactors_length (sha : Bytes → Bytes) (ts : Bytes) (l : List BlindOut) (k : Nat) :
    (assignFactors sha ts k l).length = l.length := by
  have := congrArg List.length (assignFactors_selected sha ts l k)
  simpa using this

theorem any_selected_of_map {l l' : List BlindOut} (h : l.map BlindOut.selected = l'.map BlindOut.selected) :
    l.any BlindOut.selected = l'.any BlindOut.selected := by
  have e : ∀ x : List BlindOut, x.any BlindOut.selected = (x.map BlindOut.selected).any id := by
    intro x; simp [List.any_map]
  rw [e l, e l', h]

/-- is position `i` the last selected output of `l`? -/
def isLastSelected (l : List BlindOut) (i : Nat) : Bool :=
  match l[i]? with
  | some o => o.selected && !((l.drop (i+1)).any BlindOut.selected)
  | none => false

theorem setLastVbf_get (v : Bytes) (l : List BlindOut) (i : Nat) :
    (setLastVbf v l)[i]? = (l[i]?).map (fun o => if isLastSelected l i then { o with vbf := some v } else o) := by
  induction l generalizing i with
  | nil => simp [setLastVbf]
  | cons o r ih =>
    simp only [setLastVbf]
    split
    · rename_i hc
      simp only [Bool.and_eq_true, Bool.not_eq_true'] at hc
      cases i with
      | zero => simp [isLastSelected, hc.1, hc.2]
      | succ j =>
        simp only [List.getElem?_cons_succ]
        cases hj : r[j]? with
        | none => simp
        | some x =>
          have hx : x.selected = false := by
            have := hc.2
            rw [List.any_eq_false] at this
            simpa using this x (List.mem_of_getElem? hj)
          simp [isLastSelected, hj, hx]
    · rename_i hc
      cases i with
      | zero =>
        have : isLastSelected (o :: r) 0 = false := by
          simp only [isLastSelected, List.getElem?_cons_zero, List.drop_succ_cons, List.drop_zero]
          simpa using hc
        simp [this]
      | succ j =>
        have e : isLastSelected (o :: r) (j+1) = isLastSelected r j := by simp [isLastSelected]
        simp only [List.getElem?_cons_succ, ih j, e]

theorem setLastVbf_selected (v : Bytes) (l : List BlindOut) :
    (setLastVbf v l).map BlindOut.selected = l.map BlindOut.selected := by
  induction l with
  | nil => simp [setLastVbf]
  | cons o r ih =>
    simp only [setLastVbf]
    split
    · simp [BlindOut.selected]
    · simp [ih]

theorem blindEach_get (Z : Zkp) (sha : Bytes → Bytes) (ts : Bytes) (tags gens abfs : List Bytes)
    (l res : List BlindOut) (k : Nat) (h : blindEach Z sha ts tags gens abfs k l = some res) :
    res.length = l.length ∧ ∀ i o, l[i]? = some o → ∃ r, res[i]? = some r ∧ blindOne Z sha ts tags gens abfs (k + i) o = some r := by
  induction l generalizing k res with
  | nil =>
    simp [blindEach] at h; subst h; simp
  | cons o r ih =>
    simp only [blindEach] at h
    split at h
    · simp at h
    · rename_i o' ho'
      split at h
      · simp at h
      · rename_i r' hr'
        simp at h; subst h
        obtain ⟨hl, hall⟩ := ih r' (k+1) hr'
        refine ⟨by simp [hl], ?_⟩
        intro i x hx
        cases i with
        | zero =>
          simp at hx; subst hx
          exact ⟨o', by simp, by simpa using ho'⟩
        | succ j =>
          simp at hx
          obtain ⟨y, hy1, hy2⟩ := hall j x hx
          refine ⟨y, by simpa using hy1, ?_⟩
          rw [← hy2]; congr 1; omega

/-- what the third pass writes into a selected output: everything is a library function of the output's own
    (value, asset, abf, vbf, blinding key, script), of the hash-derived nonces for its index, and of the inputs -/
structure BlindOneSpec (Z : Zkp) (sha : Bytes → Bytes) (ts : Bytes) (i : Nat) (o r : BlindOut) : Prop where
  same : r.spk = o.spk ∧ r.value = o.value ∧ r.asset = o.asset ∧ r.blindingPubkey = o.blindingPubkey
         ∧ r.abf = o.abf ∧ r.vbf = o.vbf
  commitments : ∃ asset value abf vbf gen vc, o.asset = some asset ∧ o.value = some value ∧ o.abf = some abf
      ∧ o.vbf = some vbf
      ∧ Z.generatorGenerateBlinded asset abf = some gen ∧ Z.generatorSerialize gen = r.assetCommitment
      ∧ Z.pedersenCommit vbf value gen = some vc ∧ Z.pedersenCommitmentSerialize vc = r.valueCommitment
  ecdh : r.ecdhPubkey = Z.pubkeyOfSecret (taggedHash sha "liquid/range_proof" (ts ++ idx4 i))
  proofsPresent : r.rangeProof.isSome ∧ r.surjProof.isSome ∧ r.assetProof.isSome ∧ r.valueProof.isSome

theorem blindOne_spec (Z : Zkp) (sha : Bytes → Bytes) (ts : Bytes) (tags gens abfs : List Bytes) (i : Nat)
    (o r : BlindOut) (h : blindOne Z sha ts tags gens abfs i o = some r) :
    (o.selected = false ∨ o.abf = none → r = o)
    ∧ (o.selected = true → o.abf.isSome = true → BlindOneSpec Z sha ts i o r) := by
  unfold blindOne at h
  split at h
  · rename_i bpk value abf hb hv ha
    refine ⟨?_, ?_⟩
    · intro hc
      rcases hc with hc | hc
      · simp [BlindOut.selected, hb, hv] at hc
      · simp [ha] at hc
    · intro _ _
      simp only [] at h
      repeat' (split at h)
      all_goals (try (simp at h; done))
      all_goals (
        obtain rfl := Option.some.inj h
        have hA := ‹o.asset = some _›
        have hG := ‹Z.generatorGenerateBlinded _ abf = some _›
        rw [hA] at hG
        refine ⟨⟨rfl, rfl, rfl, rfl, rfl, rfl⟩, ?_, ?_, ⟨rfl, rfl, rfl, rfl⟩⟩
        · exact ⟨_, _, _, _, _, _, hA, hv, ha, ‹o.vbf = some _›, hG, by simpa using ‹Z.generatorSerialize _ = some _›,
            ‹Z.pedersenCommit _ value _ = some _›, by simpa using ‹Z.pedersenCommitmentSerialize _ = some _›⟩
        · simpa using (‹Z.pubkeyOfSecret _ = some _›).symm)
  · rename_i hno
    simp at h; subst h
    refine ⟨fun _ => rfl, ?_⟩
    intro hs ha
    exfalso
    simp only [BlindOut.selected, Bool.and_eq_true, Option.isSome_iff_exists] at hs
    obtain ⟨⟨b, hb⟩, ⟨v, hv⟩⟩ := hs
    obtain ⟨a, ha'⟩ := Option.isSome_iff_exists.mp ha
    exact hno b v a hb hv ha'

def lastSelB (bs : List Bool) (i : Nat) : Bool :=
  match bs[i]? with
  | some b => b && !((bs.drop (i+1)).any id)
  | none => false

theorem isLastSelected_eq (l : List BlindOut) (i : Nat) :
    isLastSelected l i = lastSelB (l.map BlindOut.selected) i := by
  unfold isLastSelected lastSelB
  cases h : l[i]? with
  | none => simp [h]
  | some o =>
    simp only [h, List.getElem?_map, Option.map_some]
    rw [← List.map_drop, List.any_map]
    rfl

theorem isLastSelected_congr {l l' : List BlindOut} (h : l.map BlindOut.selected = l'.map BlindOut.selected) (i : Nat) :
    isLastSelected l i = isLastSelected l' i := by
  rw [isLastSelected_eq, isLastSelected_eq, h]

theorem blind_unfold (Z : Zkp) (sha : Bytes → Bytes) (seed : Bytes) (ins : List BlindIn) (outs res : List BlindOut)
    (h : blind Z sha seed ins outs = some res) :
    ∃ a lastVbf tags gens,
      sumArgs ins (assignFactors sha (txseed sha seed ins outs) 0 outs) = some a
      ∧ Z.blindSum a.vals a.abfs a.vbfs a.nIn = some lastVbf
      ∧ surjInputs Z ins = some (tags, gens)
      ∧ blindEach Z sha (txseed sha seed ins outs) tags gens a.abfs 0
          (setLastVbf lastVbf (assignFactors sha (txseed sha seed ins outs) 0 outs)) = some res := by
  unfold blind at h
  simp only [] at h
  split at h
  · simp at h
  · split at h
    · simp at h
    · rename_i a ha
      split at h
      · simp at h
      · rename_i lv hlv
        split at h
        · simp at h
        · rename_i tags gens hs
          exact ⟨a, lv, tags, gens, ha, hlv, hs, h⟩

end Embit
