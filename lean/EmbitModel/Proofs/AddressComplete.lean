import EmbitModel.Proofs.Bech32Complete
/-
  Completeness of `address_to_scriptpubkey` (`Address.toScript`): exactly which strings yield a script.
  Base58 addresses: the Base58Check text itself. Segwit addresses: the canonical text up to whole-string case,
  restricted by the case-sensitive comparison of `addr.split("1")[0]` with the table's human-readable parts.
-/
namespace Embit.Model.Address
open Embit Digits Spec.Address

/-- native segwit templates (bech32/bech32m addresses) as opposed to the Base58Check ones -/
def isSegwit : Std → Bool
  | .p2pkh _ | .p2sh _ => false
  | .p2wpkh _ | .p2wsh _ | .p2tr _ => true

/-- every human-readable part of the table contains an ASCII lower-case letter -/
def hrpsHaveLower (nets : List Network) : Bool := nets.all (fun n => n.bech32.any Spec.Bech32.isLower)

/-! ### character facts -/

theorem toLower_printable (c : Char) (h : 33 ≤ c.toLower.toNat ∧ c.toLower.toNat ≤ 126) :
    33 ≤ c.toNat ∧ c.toNat ≤ 126 := by
  unfold Char.toLower at h
  split at h
  · rename_i hc
    have e : c.toNat = c.val.toNat := rfl
    have h1 : ('A' : Char).val.toNat = 65 := by decide
    have h2 : ('Z' : Char).val.toNat = 90 := by decide
    simp only [ge_iff_le, UInt32.le_iff_toNat_le] at hc
    omega
  · exact h

theorem printable_of_lower (s : List Char) (h : ∀ c ∈ Bech32.lower s, 33 ≤ c.toNat ∧ c.toNat ≤ 126) :
    ∀ c ∈ s, 33 ≤ c.toNat ∧ c.toNat ≤ 126 := by
  intro c hc
  apply toLower_printable
  apply h
  unfold Bech32.lower
  exact List.mem_map_of_mem hc

theorem ascii_more : ∀ n, n < 127 →
    ((Char.ofNat n).toLower = Char.ofNat n → (Char.ofNat n).toUpper.toLower = Char.ofNat n)
    ∧ (Spec.Bech32.isLower (Char.ofNat n) = true → (Char.ofNat n).toUpper ≠ Char.ofNat n)
    ∧ (33 ≤ n → 33 ≤ (Char.ofNat n).toUpper.toNat ∧ (Char.ofNat n).toUpper.toNat ≤ 126)
    ∧ (Char.ofNat n).toUpper.toUpper = (Char.ofNat n).toUpper
    ∧ ((Char.ofNat n).toLower = '1' ↔ Char.ofNat n = '1') := by
  decide +kernel

theorem ofNat_toNat_small : ∀ n, n < 127 → (Char.ofNat n).toNat = n := by decide +kernel

/-- the canonical segwit text is printable, lower case and its part before the first `1` is the hrp -/
theorem segwitText_lower (hrp : List Char) (ver : Nat) (conv : List Nat) (hh : Bech32.HrpOk hrp) (hv : ver < 32)
    (hc : ∀ x ∈ conv, x < 32) : Bech32.lower (Bech32.segwitText hrp ver conv) = Bech32.segwitText hrp ver conv := by
  unfold Bech32.lower
  conv => rhs; rw [← List.map_id (Bech32.segwitText hrp ver conv)]
  apply List.map_congr_left
  intro c hcm
  unfold Bech32.segwitText at hcm
  simp only [List.mem_append, List.mem_map, List.mem_cons, List.not_mem_nil, or_false] at hcm
  rcases hcm with (h | rfl) | ⟨d, hd, rfl⟩
  · exact hh.lower c h
  · decide
  · have hd32 : d < 32 := by
      rcases hd with (rfl | hd) | hd
      · exact hv
      · exact hc d hd
      · exact Bech32.createChecksum_lt _ _ _ d hd
    exact (Bech32.chr_props d hd32).2.2.2.2

theorem splitOne_segwitText (hrp : List Char) (ver : Nat) (conv : List Nat) (h : '1' ∉ hrp) :
    splitOne (Bech32.segwitText hrp ver conv) = hrp := by
  unfold Bech32.segwitText
  rw [List.append_assoc]
  exact splitOne_spec _ _ h

/-! ### the segwit branch -/

/-- what the segwit branch computes once `bech32.decode` has succeeded -/
theorem bech32Branch_of_decode (nets : List Network) (net : Network) (hmem : net ∈ nets) (s : List Char)
    (ver : Nat) (h : Bytes) (hsplit : splitOne s = net.bech32)
    (hdec : Bech32.decode net.bech32 s = some (ver, h.map UInt8.toNat))
    (hv : ver ≤ 1) (hl : h.length = 20 ∨ h.length = 32) (h1 : ver = 1 → h.length = 32) :
    bech32Branch true nets s
      = some (UInt8.ofNat (if ver > 0 then ver + 0x50 else ver) :: UInt8.ofNat h.length :: h) := by
  unfold bech32Branch
  have hcont : (nets.map (·.bech32)).contains net.bech32 = true := by
    rw [List.contains_iff_mem]; exact List.mem_map_of_mem hmem
  simp only [hsplit, hcont, Bool.not_true, Bool.and_false, Bool.false_eq_true, if_false, hdec,
    List.length_map, List.map_map]
  have hmap : h.map (UInt8.ofNat ∘ UInt8.toNat) = h := by
    conv => rhs; rw [← List.map_id h]
    apply List.map_congr_left; intro x _; simp
  rw [hmap]
  have hv' : ver = 0 ∨ ver = 1 := by omega
  rcases hv' with rfl | rfl
  · rcases hl with e | e <;> simp [e]
  · have := h1 rfl; simp [this]

/-- completeness of the segwit branch: any spelling of a canonical v0/v1 address that is not mixed case and
    whose part before the first `1` is literally the table's human-readable part is accepted -/
theorem bech32Branch_complete (nets : List Network) (net : Network) (hn : NetOk net) (hmem : net ∈ nets)
    (ver : Nat) (h : Bytes) (hv : ver ≤ 1) (hl : h.length = 20 ∨ h.length = 32) (h1 : ver = 1 → h.length = 32)
    (s : List Char) (hlow : Bech32.lower s = Bech32.segwitText net.bech32 ver (convOf h))
    (hmix : Spec.Bech32.mixedCase s = false) (hsplit : splitOne s = net.bech32) :
    bech32Branch true nets s
        = some (UInt8.ofNat (if ver > 0 then ver + 0x50 else ver) :: UInt8.ofNat h.length :: h)
      ∧ 35 < s.length := by
  obtain ⟨_, hdec, hcl⟩ := encode_convOf net hn ver h hv hl
  have hpl := Bech32.segwitText_printable net.bech32 ver (convOf h) hn.hrpOk.range (by omega) (Bech32.convOf_lt h)
  rw [← hlow] at hpl
  have hprint := printable_of_lower s hpl
  have hnm := Bech32.not_mixed_of_spec s hprint hmix
  have hd : Bech32.decode net.bech32 s = some (ver, h.map UInt8.toNat) := by
    rw [Bech32.decode_lower _ s hprint hnm, hlow]; exact hdec
  refine ⟨bech32Branch_of_decode nets net hmem s ver h hsplit hd hv hl h1, ?_⟩
  have : (Bech32.lower s).length = s.length := by simp [Bech32.lower]
  rw [← this, hlow, segwitText_length]
  have := hn.hrpOk.nonempty
  rcases hl with e | e <;> rw [e] at hcl <;> omega

/-- soundness of the segwit branch in the same vocabulary -/
theorem bech32Branch_sound (nets : List Network) (s : List Char) (sc : Bytes)
    (hb : bech32Branch true nets s = some sc) :
    ∃ net ∈ nets, ∃ ver, ∃ h : Bytes,
      ((ver = 0 ∧ (h.length = 20 ∨ h.length = 32)) ∨ (ver = 1 ∧ h.length = 32))
      ∧ sc = UInt8.ofNat (if ver > 0 then ver + 0x50 else ver) :: UInt8.ofNat h.length :: h
      ∧ Bech32.lower s = Bech32.segwitText net.bech32 ver (convOf h)
      ∧ Spec.Bech32.mixedCase s = false ∧ splitOne s = net.bech32 := by
  obtain ⟨hh, ver, prog, hd, hv, hsc⟩ := bech32Branch_yields nets s sc hb
  simp only [List.mem_map] at hh
  obtain ⟨net, hn, hnb⟩ := hh
  obtain ⟨pb, hpb, hvalid⟩ := Bech32.decode_sound _ s ver prog hd
  have hlen : prog.length = pb.length := by rw [hpb]; simp
  have hmap : prog.map UInt8.ofNat = pb := by
    rw [hpb, List.map_map]
    conv => rhs; rw [← List.map_id pb]
    apply List.map_congr_left; intro x _; simp
  rw [hmap, hlen] at hsc
  rw [hlen] at hv
  have hbd : Bech32.bech32Decode s ≠ none := by
    intro e; unfold Bech32.decode at hd; rw [e] at hd; simp at hd
  obtain ⟨hrange, hnm⟩ := Bech32.bech32Decode_guard s hbd
  obtain ⟨cf1, _, _⟩ := Bech32.case_facts s hrange hnm
  obtain ⟨⟨hv16, _⟩, _, hmix, _, _, henc⟩ := hvalid
  refine ⟨net, hn, ver, pb, hv, hsc, ?_, hmix, hnb.symm⟩
  rw [← cf1, henc, hnb, Bech32.segwitText_eq_spec _ ver pb (by omega)]; rfl

/-- when the human-readable part contains a lower-case letter, an accepted spelling is the lower-case one -/
theorem lower_of_hrp_lower (s hrp : List Char) (hsplit : splitOne s = hrp)
    (hl : hrp.any Spec.Bech32.isLower = true) (hmix : Spec.Bech32.mixedCase s = false)
    (hprint : ∀ c ∈ s, 33 ≤ c.toNat ∧ c.toNat ≤ 126) : Bech32.lower s = s := by
  have hany : s.any Spec.Bech32.isLower = true := by
    rw [List.any_eq_true] at hl ⊢
    obtain ⟨c, hc, hcl⟩ := hl
    refine ⟨c, ?_, hcl⟩
    rw [← hsplit] at hc
    unfold splitOne at hc
    exact (List.takeWhile_sublist _).subset hc
  have hup : s.any Spec.Bech32.isUpper = false := by
    unfold Spec.Bech32.mixedCase at hmix
    rw [hany, Bool.and_true] at hmix; exact hmix
  unfold Bech32.lower
  conv => rhs; rw [← List.map_id s]
  apply List.map_congr_left
  intro c hc
  have hnu : Spec.Bech32.isUpper c = false := by
    rw [List.any_eq_false] at hup
    simpa using hup c hc
  exact Bech32.ascii_cases (fun c => Spec.Bech32.isUpper c = false → c.toLower = c)
    (fun n hn => (Bech32.ascii_case_conv n hn).2.2.2.1) c (hprint c hc).2 hnu

/-! ### the upper-case spelling -/

theorem lower_upper (a : List Char) (hp : ∀ c ∈ a, 33 ≤ c.toNat ∧ c.toNat ≤ 126) (hl : Bech32.lower a = a) :
    Bech32.lower (Bech32.upper a) = a := by
  unfold Bech32.lower Bech32.upper
  rw [List.map_map]
  conv => rhs; rw [← List.map_id a]
  apply List.map_congr_left
  intro c hc
  have hcl : c.toLower = c := Bech32.map_eq_self _ _ hl c hc
  exact Bech32.ascii_cases (fun c => c.toLower = c → c.toUpper.toLower = c)
    (fun n hn => (ascii_more n hn).1) c (hp c hc).2 hcl

theorem upper_ne (a : List Char) (hp : ∀ c ∈ a, 33 ≤ c.toNat ∧ c.toNat ≤ 126)
    (hl : a.any Spec.Bech32.isLower = true) : Bech32.upper a ≠ a := by
  intro e
  rw [List.any_eq_true] at hl
  obtain ⟨c, hc, hcl⟩ := hl
  have := Bech32.map_eq_self _ _ e c hc
  exact Bech32.ascii_cases (fun c => Spec.Bech32.isLower c = true → c.toUpper ≠ c)
    (fun n hn => (ascii_more n hn).2.1) c (hp c hc).2 hcl this

theorem upper_printable (a : List Char) (hp : ∀ c ∈ a, 33 ≤ c.toNat ∧ c.toNat ≤ 126) :
    ∀ c ∈ Bech32.upper a, 33 ≤ c.toNat ∧ c.toNat ≤ 126 := by
  intro c hc
  unfold Bech32.upper at hc
  simp only [List.mem_map] at hc
  obtain ⟨x, hx, rfl⟩ := hc
  exact Bech32.ascii_cases (fun c => 33 ≤ c.toNat → 33 ≤ c.toUpper.toNat ∧ c.toUpper.toNat ≤ 126)
    (fun n hn h33 => (ascii_more n hn).2.2.1 (by rw [ofNat_toNat_small n hn] at h33; exact h33))
    x (hp x hx).2 (hp x hx).1

theorem upper_upper (a : List Char) (hp : ∀ c ∈ a, 33 ≤ c.toNat ∧ c.toNat ≤ 126) :
    Bech32.upper (Bech32.upper a) = Bech32.upper a := by
  unfold Bech32.upper
  rw [List.map_map]
  apply List.map_congr_left
  intro c hc
  exact Bech32.ascii_cases (fun c => c.toUpper.toUpper = c.toUpper) (fun n hn => (ascii_more n hn).2.2.2.1) c (hp c hc).2

/-- `bech32.decode` accepts the all-upper-case spelling of whatever lower-case string it accepts -/
theorem decode_upper (hrp a : List Char) (hp : ∀ c ∈ a, 33 ≤ c.toNat ∧ c.toNat ≤ 126) (hl : Bech32.lower a = a) :
    Bech32.decode hrp (Bech32.upper a) = Bech32.decode hrp a := by
  rw [Bech32.decode_lower hrp _ (upper_printable a hp) (fun hh => hh.2 (upper_upper a hp)), lower_upper a hp hl]

/-! ### templates ↔ (version, program) -/

theorem segwit_std_cases (std : Std) (hs : isSegwit std = true) (hw : std.WF) :
    ∃ ver, ∃ h : Bytes, ver ≤ 1 ∧ (h.length = 20 ∨ h.length = 32) ∧ (ver = 1 → h.length = 32)
      ∧ (∀ dsha net, textOf dsha net std = Bech32.segwitText net.bech32 ver (convOf h))
      ∧ std.script = UInt8.ofNat (if ver > 0 then ver + 0x50 else ver) :: UInt8.ofNat h.length :: h := by
  cases std with
  | p2pkh h => simp [isSegwit] at hs
  | p2sh h => simp [isSegwit] at hs
  | p2wpkh h =>
    simp only [Std.WF] at hw
    exact ⟨0, h, by decide, Or.inl hw, fun e => absurd e (by decide), fun _ _ => rfl, by simp [Std.script, hw]⟩
  | p2wsh h =>
    simp only [Std.WF] at hw
    exact ⟨0, h, by decide, Or.inr hw, fun e => absurd e (by decide), fun _ _ => rfl, by simp [Std.script, hw]⟩
  | p2tr h =>
    simp only [Std.WF] at hw
    exact ⟨1, h, by decide, Or.inr hw, fun _ => hw, fun _ _ => rfl, by simp [Std.script, hw]⟩

theorem std_of_segwit (ver : Nat) (h : Bytes)
    (hv : (ver = 0 ∧ (h.length = 20 ∨ h.length = 32)) ∨ (ver = 1 ∧ h.length = 32)) :
    ∃ std : Std, std.WF ∧ isSegwit std = true
      ∧ UInt8.ofNat (if ver > 0 then ver + 0x50 else ver) :: UInt8.ofNat h.length :: h = std.script
      ∧ (∀ dsha net, textOf dsha net std = Bech32.segwitText net.bech32 ver (convOf h)) := by
  rcases hv with ⟨rfl, hl | hl⟩ | ⟨rfl, hl⟩
  · exact ⟨.p2wpkh h, hl, rfl, by simp [Std.script, hl], fun _ _ => rfl⟩
  · exact ⟨.p2wsh h, hl, rfl, by simp [Std.script, hl], fun _ _ => rfl⟩
  · exact ⟨.p2tr h, hl, rfl, by simp [Std.script, hl], fun _ _ => rfl⟩

end Embit.Model.Address
