import EmbitModel.Proofs.PsbtReject
import EmbitModel.Spec.Bip370
/-
  C04 (deepening): the transaction the model reconstructs for a version-2 PSBT (`PSBT.tx` over the per-scope
  fields) equals the one BIP370 assigns to the raw maps (Spec/Bip370.lean).
-/
set_option linter.unusedSimpArgs false
set_option linter.unusedVariables false
namespace Embit
open Model Spec.Wire

theorem Bip370.get_eq_lookup : ∀ (m : List KV) (k : Bytes), Spec.Bip370.get m k = lookup k m := by
  intro m
  induction m with
  | nil => intro k; rfl
  | cons x xs ih =>
    intro k
    obtain ⟨k', v⟩ := x
    by_cases hk : k' = k
    · subst hk; simp [Spec.Bip370.get, lookup]
    · have : ¬ k = k' := fun e => hk e.symm
      simp [Spec.Bip370.get, lookup, hk, this, ih]

theorem Bip370.allSome_eq_optAll {α : Type} : ∀ (l : List (Option α)), Spec.Bip370.allSome l = optAll l := by
  intro l
  induction l with
  | nil => rfl
  | cons x xs ih =>
    cases x with
    | none => rfl
    | some a =>
      simp only [Spec.Bip370.allSome, optAll, ih]
      cases optAll xs <;> rfl

/-! ### widths of the values the parser accepted -/

/-- one step of `parse_unknowns`: the rest is processed from some state, and a PSBTv2 tx-version / fallback-locktime
    value has four bytes -/
theorem parseUnknowns_step (ko : KeyOps) (g g' : GState) (k v : Bytes) (rest : List KV)
    (h : parseUnknowns ko true g ((k, v) :: rest) = some g') :
    (∃ g1, parseUnknowns ko true g1 rest = some g') ∧ (k = [0x02] ∨ k = [0x03] → v.length = 4) := by
  simp only [parseUnknowns] at h
  split at h
  · exact ⟨⟨_, h⟩, by simp⟩
  · rename_i k0 krest
    split at h
    · rename_i hk0
      split at h
      · simp at h
      · split at h
        · simp at h
        · exact ⟨⟨_, h⟩, by subst hk0; simp⟩
    · split at h
      · rename_i hc
        split at h
        · simp at h
        · rename_i hl
          exact ⟨⟨_, h⟩, fun _ => by simpa using hl⟩
      · rename_i hc2
        split at h
        · rename_i hc
          split at h
          · simp at h
          · rename_i hl
            exact ⟨⟨_, h⟩, fun _ => by simpa using hl⟩
        · rename_i hc3
          simp only [Bool.true_and, decide_eq_true_eq] at hc2 hc3
          have hnot : k0 :: krest = [0x02] ∨ k0 :: krest = [0x03] → v.length = 4 := by
            rintro (e | e)
            · exact absurd e hc2
            · exact absurd e hc3
          split at h
          · split at h
            · simp at h
            · exact ⟨⟨_, h⟩, hnot⟩
          · split at h
            · split at h
              · simp at h
              · exact ⟨⟨_, h⟩, hnot⟩
            · exact ⟨⟨_, h⟩, hnot⟩

theorem parseUnknowns_len4 (ko : KeyOps) : ∀ (unk : List KV) (g g' : GState),
    parseUnknowns ko true g unk = some g' → ∀ kv ∈ unk, kv.1 = [0x02] ∨ kv.1 = [0x03] → kv.2.length = 4 := by
  intro unk
  induction unk with
  | nil => intro g g' _ kv hkv; simp at hkv
  | cons x unk ih =>
    intro g g' h kv hkv hk
    obtain ⟨k, v⟩ := x
    obtain ⟨⟨g1, h1⟩, h2⟩ := parseUnknowns_step ko g g' k v unk h
    simp at hkv
    rcases hkv with rfl | hkv
    · exact h2 hk
    · exact ih g1 g' h1 kv hkv hk

theorem InScope.addPairs_keylens (ko : KeyOps) (sha : Bytes → Bytes) (c : Nat) :
    ∀ (kvs : List KV) (s s' : InScope), InScope.addPairs ko sha c s kvs = some s' →
      (∀ v, ([0x0e], v) ∈ kvs → v.length = 32) ∧ (∀ v, ([0x0f], v) ∈ kvs → v.length = 4) := by
  intro kvs
  induction kvs with
  | nil => intro s s' _; simp
  | cons x kvs ih =>
    intro s s' h
    obtain ⟨k, w⟩ := x
    simp only [InScope.addPairs] at h
    split at h
    · simp at h
    · rename_i s1 h1
      obtain ⟨r1, r2⟩ := ih s1 s' h
      refine ⟨?_, ?_⟩
      · intro v hv
        simp at hv
        rcases hv with ⟨rfl, rfl⟩ | hv
        · simp [InScope.addPair] at h1
          exact h1.2.1
        · exact r1 v hv
      · intro v hv
        simp at hv
        rcases hv with ⟨rfl, rfl⟩ | hv
        · exact ((InScope.addPair_txfields ko sha c s s1 _ _ h1).2.2.2.2.1 rfl).2
        · exact r2 v hv

theorem OutScope.addPairs_keylens (ko : KeyOps) :
    ∀ (kvs : List KV) (s s' : OutScope), OutScope.addPairs ko s kvs = some s' →
      ∀ v, ([0x03], v) ∈ kvs → v.length = 8 := by
  intro kvs
  induction kvs with
  | nil => intro s s' _; simp
  | cons x kvs ih =>
    intro s s' h
    obtain ⟨k, w⟩ := x
    simp only [OutScope.addPairs] at h
    split at h
    · simp at h
    · rename_i s1 h1
      intro v hv
      simp at hv
      rcases hv with ⟨rfl, rfl⟩ | hv
      · exact ((OutScope.addPair_txfields ko s s1 _ _ h1).2.2.1 rfl).2
      · exact ih s1 s' h v hv

/-! ### scopes -/

/-- a PSBTv2 input scope: the transaction input embit builds is the one BIP370 reads off the raw map -/
theorem Bip370.input_eq_vin (ko : KeyOps) (sha : Bytes → Bytes) (kvs : List KV) (s : InScope)
    (h : InScope.addPairs ko sha 0 {} kvs = some s) : Spec.Bip370.input kvs = InScope.vin s := by
  obtain ⟨f1, f2, f3, f4⟩ := InScope.addPairs_v2_fields ko sha 0 kvs s h
  obtain ⟨l1, l2⟩ := InScope.addPairs_keylens ko sha 0 kvs {} s h
  unfold Spec.Bip370.input InScope.vin
  simp only [Bip370.get_eq_lookup, Spec.Bip370.IN_PREVIOUS_TXID, Spec.Bip370.IN_OUTPUT_INDEX,
    Spec.Bip370.IN_SEQUENCE, f1, f2, f3]
  cases ht : lookup [0x0e] kvs with
  | none => simp
  | some t =>
    cases hi : lookup [0x0f] kvs with
    | none => simp
    | some idx =>
      have a1 := l1 t (lookup_mem _ _ _ ht)
      have a2 := l2 idx (lookup_mem _ _ _ hi)
      cases hq : lookup [0x10] kvs with
      | none => simp [a1, a2, Spec.Bip370.u32]
      | some q =>
        have a3 := f4 q hq
        simp [a1, a2, a3, Spec.Bip370.u32]

theorem Bip370.output_eq_vout (ko : KeyOps) (kvs : List KV) (s : OutScope)
    (h : OutScope.addPairs ko {} kvs = some s) : Spec.Bip370.output kvs = OutScope.vout s := by
  obtain ⟨f1, f2⟩ := OutScope.addPairs_v2_fields ko kvs s h
  have l1 := OutScope.addPairs_keylens ko kvs {} s h
  unfold Spec.Bip370.output OutScope.vout
  simp only [Bip370.get_eq_lookup, Spec.Bip370.OUT_AMOUNT, Spec.Bip370.OUT_SCRIPT, f1, f2]
  cases ha : lookup [0x03] kvs with
  | none => simp
  | some a =>
    cases hsc : lookup [0x04] kvs with
    | none => simp
    | some sc =>
      have a1 := l1 a (lookup_mem _ _ _ ha)
      simp [a1, Spec.Bip370.u64]

/-! ### whole PSBT -/

/-- version 2: the transaction embit reconstructs equals the BIP370 transaction of the raw maps, provided the
    global map carries the (required) transaction version and no input requires a lock time -/
theorem Psbt.tx_eq_bip370 (ko : KeyOps) (sha : Bytes → Bytes) (g : List KV) (ins outs : List (List KV)) (p : Psbt)
    (hg : ∀ kv ∈ g, KVWF kv) (hs : ∀ kvs ∈ ins ++ outs, ∀ kv ∈ kvs, KVWF kv)
    (h : Psbt.parse ko sha 0 (framePsbt g (ins ++ outs)) = some p)
    (hv : p.version = some 2) (hcnt : p.inputs.length = ins.length)
    (htv : (Spec.Bip370.get g Spec.Bip370.GLOBAL_TX_VERSION).isSome = true)
    (hreq : ∀ m ∈ ins, Spec.Bip370.get m Spec.Bip370.IN_REQUIRED_TIME_LOCKTIME = none
                      ∧ Spec.Bip370.get m Spec.Bip370.IN_REQUIRED_HEIGHT_LOCKTIME = none) :
    p.tx = Spec.Bip370.unsignedTx g ins outs := by
  obtain ⟨tx, unk, gs, hgf, hpu, hver, q1, q2, _, _, hl, _, _, fi, fo, _⟩ :=
    parse_framed_decomp ko sha g (ins ++ outs) p hg hs h
  obtain rfl : tx = none := by
    rcases hver with ⟨_, e⟩ | ⟨e, _⟩
    · exact e
    · exact absurd hv e
  rw [hv] at hpu
  have hpu' : parseUnknowns ko true (gstate0 none) unk = some gs := by simpa using hpu
  have hunk : unk = g.filter notTxVer := by simpa using globalFold_unk g none none [] none p.version unk hgf
  have hnd := globalFold_nodup g none none [] none p.version unk hgf (by simp)
  obtain ⟨t1, t2, _, _, _⟩ := parseUnknowns_fold ko unk _ gs hpu'
  have hlen := parseUnknowns_len4 ko unk _ gs hpu'
  -- transaction version
  have hver' : (Spec.Bip370.get g Spec.Bip370.GLOBAL_TX_VERSION).bind Spec.Bip370.u32 = some (p.txVersion.getD 2) := by
    rw [Bip370.get_eq_lookup] at htv ⊢
    obtain ⟨w, hw⟩ := Option.isSome_iff_exists.mp htv
    have hwl : w.length = 4 := hlen ([0x02], w) (by
      rw [hunk]; exact List.mem_filter.mpr ⟨lookup_mem _ _ _ hw, rfl⟩) (Or.inl rfl)
    have : p.txVersion = some (ofLe w) := by
      rw [q1, t1]
      have := v2_field_lookup g unk hunk hnd [0x02] (fun kv hk => by simp [notTxVer, hk]) ofLe
      simp only [gstate0, Option.map_none] at this ⊢
      rw [this]
      simp [Spec.Bip370.GLOBAL_TX_VERSION] at hw
      simp [hw]
    rw [hw, this]
    simp [Spec.Bip370.u32, hwl]
  -- lock time
  have hlock : Spec.Bip370.lockTime g ins = some (p.locktime.getD 0) := by
    have hc : (ins.filter fun m => (Spec.Bip370.get m Spec.Bip370.IN_REQUIRED_TIME_LOCKTIME).isSome
        || (Spec.Bip370.get m Spec.Bip370.IN_REQUIRED_HEIGHT_LOCKTIME).isSome) = [] := by
      rw [List.filter_eq_nil_iff]
      intro m hm
      obtain ⟨a, b⟩ := hreq m hm
      simp [a, b]
    have hlt : p.locktime = (lookup [0x03] g).map ofLe := by
      rw [q2, t2]
      have := v2_field_lookup g unk hunk hnd [0x03] (fun kv hk => by simp [notTxVer, hk]) ofLe
      simp only [gstate0, Option.map_none] at this ⊢
      exact this
    unfold Spec.Bip370.lockTime
    simp only [hc, List.isEmpty_nil, if_true]
    rw [Bip370.get_eq_lookup]
    simp only [Spec.Bip370.GLOBAL_FALLBACK_LOCKTIME]
    cases hw : lookup [0x03] g with
    | none => simp [hlt, hw]
    | some w =>
      have hwl : w.length = 4 := hlen ([0x03], w) (by
        rw [hunk]; exact List.mem_filter.mpr ⟨lookup_mem _ _ _ hw, rfl⟩) (Or.inr rfl)
      simp [hlt, hw, Spec.Bip370.u32, hwl]
  -- inputs and outputs
  have hins : ins.map Spec.Bip370.input = p.inputs.map InScope.vin := by
    apply List.ext_getElem?
    intro j
    simp only [List.getElem?_map]
    by_cases hj : j < p.inputs.length
    · obtain ⟨kvs, s, a1, a2, a3⟩ := fi j hj
      rw [List.getElem?_append_left (by omega)] at a1
      rw [a1, a2]
      simp only [Option.map_some]
      rw [Bip370.input_eq_vin ko sha kvs s (by simpa [seedIn] using a3)]
    · rw [List.getElem?_eq_none (by omega), List.getElem?_eq_none (by omega)]; rfl
  have houts : outs.map Spec.Bip370.output = p.outputs.map OutScope.vout := by
    have hol : outs.length = p.outputs.length := by simp at hl; omega
    apply List.ext_getElem?
    intro j
    simp only [List.getElem?_map]
    by_cases hj : j < p.outputs.length
    · obtain ⟨kvs, s, a1, a2, a3⟩ := fo j hj
      rw [List.getElem?_append_right (by omega), show p.inputs.length + j - ins.length = j by omega] at a1
      rw [a1, a2]
      simp only [Option.map_some]
      rw [Bip370.output_eq_vout ko kvs s (by simpa [seedOut] using a3)]
    · rw [List.getElem?_eq_none (by omega), List.getElem?_eq_none (by omega)]; rfl
  unfold Spec.Bip370.unsignedTx Psbt.tx
  rw [hver', hlock, Bip370.allSome_eq_optAll, Bip370.allSome_eq_optAll, hins, houts]
  cases optAll (p.inputs.map InScope.vin) <;> cases optAll (p.outputs.map OutScope.vout) <;> rfl

end Embit
