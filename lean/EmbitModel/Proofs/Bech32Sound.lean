import EmbitModel.Proofs.Bech32Spec
/-
  Soundness of the segwit decoder: whatever `bech32.decode(hrp, s)` returns, `s` is a valid BIP173/BIP350
  segwit address (`Spec.Bech32.IsSegwitAddress`) for exactly that witness version and program.
-/
namespace Embit.Model.Bech32
open Embit Digits

/-! ### 5 → 8 → 5 -/

theorem convertbits_5_8_back (data prog : List Nat) (hd : ∀ v ∈ data, v < 32)
    (h : convertbits data 5 8 false = some prog) :
    (∀ v ∈ prog, v < 256) ∧ 8 * prog.length ≤ 5 * data.length ∧ 5 * data.length < 8 * prog.length + 5
      ∧ convertbits prog 8 5 true = some data := by
  have hs := convertbits_spec 5 8 (by decide) (by decide) data (by simpa using hd) false
  rw [h] at hs
  simp only [valOf, Bool.false_eq_true, if_false] at hs
  split at hs
  · simp at hs
  · rename_i hc
    simp only [not_or, Nat.not_le, Decidable.not_not] at hc
    obtain ⟨hb, hz⟩ := hc
    simp only [Option.some.injEq] at hs
    -- abbreviations
    generalize hN : ofBE (2 ^ 5) data = N at hs hz
    have hN32 : ofBE 32 data = N := by simpa using hN
    have hNlt : N < 2 ^ (5 * data.length) := by
      have := ofBE_lt (B := 32) (by decide) data hd
      rw [hN32, show (32:Nat) = 2 ^ 5 by decide, ← Nat.pow_mul] at this; exact this
    generalize hbits : 5 * data.length % 8 = bits at hs hz hb
    generalize hm : 5 * data.length / 8 = m at hs
    have hdm : 5 * data.length = 8 * m + bits := by
      have := Nat.div_add_mod (5 * data.length) 8; omega
    have hplen : prog.length = m := by rw [hs]; simp
    have hplt : ∀ v ∈ prog, v < 256 := by
      rw [hs]; simpa using fixedBE_lt (B := 2 ^ 8) (by decide) m (N / 2 ^ bits)
    refine ⟨hplt, by omega, by omega, ?_⟩
    -- value of prog
    have hq : N / 2 ^ bits < 2 ^ (8 * m) := by
      rw [Nat.div_lt_iff_lt_mul (Nat.two_pow_pos _), ← Nat.pow_add, ← hdm]; exact hNlt
    have hval : ofBE 256 prog = N / 2 ^ bits := by
      rw [hs, show (2:Nat) ^ 8 = 256 by decide, ofBE_fixedBE, show (256:Nat) = 2 ^ 8 by decide, ← Nat.pow_mul]
      exact Nat.mod_eq_of_lt hq
    have hback : N / 2 ^ bits * 2 ^ bits = N := by
      have := Nat.div_add_mod N (2 ^ bits)
      rw [hz] at this; rw [Nat.mul_comm]; omega
    have hdata : data = fixedBE 32 data.length N := by
      rw [← hN32]; exact (fixedBE_ofBE (by decide) data hd).symm
    have h2 := convertbits_spec 8 5 (by decide) (by decide) prog (by simpa using hplt) true
    simp only [valOf, if_true, show (2:Nat) ^ 8 = 256 by decide, show (2:Nat) ^ 5 = 32 by decide, hval, hplen] at h2
    rw [h2]
    congr 1
    by_cases hb0 : bits = 0
    · subst hb0
      have h1 : 8 * m % 5 = 0 := by omega
      have h3 : 8 * m / 5 = data.length := by omega
      simp only [h1, ne_eq, not_true_eq_false, if_false, h3, Nat.pow_zero, Nat.div_one]
      exact hdata.symm
    · have h1 : 8 * m % 5 = 5 - bits := by omega
      have h3 : 8 * m / 5 + 1 = data.length := by omega
      have h4 : 5 - (5 - bits) = bits := by omega
      have hne : 5 - bits ≠ 0 := by omega
      simp only [h1, ne_eq, hne, not_false_eq_true, if_true, h3, h4, hback]
      exact hdata.symm

/-! ### ASCII case analysis -/

theorem ascii_cases (P : Char → Prop) (h : ∀ n, n < 127 → P (Char.ofNat n)) (c : Char) (hc : c.toNat ≤ 126) : P c := by
  have := h c.toNat (by omega)
  rwa [Char.ofNat_toNat] at this

theorem lower_eq_spec_char : ∀ n, n < 127 →
    (Char.ofNat n).toLower = (if Spec.Bech32.isUpper (Char.ofNat n) then Char.ofNat ((Char.ofNat n).toNat + 32) else Char.ofNat n) := by
  decide +kernel

theorem upper_lower_char : ∀ n, n < 127 →
    (Spec.Bech32.isUpper (Char.ofNat n) = true → (Char.ofNat n).toLower ≠ Char.ofNat n)
    ∧ (Spec.Bech32.isLower (Char.ofNat n) = true → (Char.ofNat n).toUpper ≠ Char.ofNat n)
    ∧ (33 ≤ n → 33 ≤ (Char.ofNat n).toLower.toNat ∧ (Char.ofNat n).toLower.toNat ≤ 126) := by
  decide +kernel

theorem map_eq_self {α : Type} (f : α → α) (l : List α) (h : l.map f = l) : ∀ x ∈ l, f x = x := by
  induction l with
  | nil => simp
  | cons y ys ih =>
    simp only [List.map_cons, List.cons.injEq] at h
    intro x hx
    simp at hx
    rcases hx with rfl | hx
    · exact h.1
    · exact ih h.2 x hx

/-- on printable ASCII the model's lower-casing is the specification's, and "not (lower ≠ s and upper ≠ s)" is
    "not mixed case" -/
theorem case_facts (s : List Char) (hr : ∀ c ∈ s, 33 ≤ c.toNat ∧ c.toNat ≤ 126)
    (hm : ¬ (lower s ≠ s ∧ upper s ≠ s)) :
    Spec.Bech32.toLower s = lower s ∧ Spec.Bech32.mixedCase s = false
    ∧ ∀ c ∈ lower s, 33 ≤ c.toNat ∧ c.toNat ≤ 126 := by
  refine ⟨?_, ?_, ?_⟩
  · unfold Spec.Bech32.toLower lower
    apply List.map_congr_left
    intro c hc
    have := ascii_cases (fun c => c.toLower = (if Spec.Bech32.isUpper c then Char.ofNat (c.toNat + 32) else c))
      (fun n hn => lower_eq_spec_char n hn) c (hr c hc).2
    exact this.symm
  · cases hmc : Spec.Bech32.mixedCase s with
    | false => rfl
    | true =>
      exfalso
      apply hm
      unfold Spec.Bech32.mixedCase at hmc
      simp only [Bool.and_eq_true, List.any_eq_true] at hmc
      obtain ⟨⟨u, hu, hu2⟩, ⟨l, hl, hl2⟩⟩ := hmc
      constructor
      · intro he
        have : u.toLower = u := by
          unfold lower at he
          exact map_eq_self _ _ he u hu
        exact (ascii_cases (fun c => Spec.Bech32.isUpper c = true → c.toLower ≠ c)
          (fun n hn => (upper_lower_char n hn).1) u (hr u hu).2) hu2 this
      · intro he
        unfold upper at he
        have h2 := map_eq_self _ _ he
        exact (ascii_cases (fun c => Spec.Bech32.isLower c = true → c.toUpper ≠ c)
          (fun n hn => (upper_lower_char n hn).2.1) l (hr l hl).2) hl2 (h2 l hl)
  · intro c hc
    unfold lower at hc
    simp only [List.mem_map] at hc
    obtain ⟨x, hx, rfl⟩ := hc
    exact ascii_cases (fun c => 33 ≤ c.toNat → 33 ≤ c.toLower.toNat ∧ c.toLower.toNat ≤ 126)
      (fun n hn h33 => (upper_lower_char n hn).2.2 (by
        -- (Char.ofNat n).toNat = n for n < 127
        have : (Char.ofNat n).toNat = n := by
          have : ∀ n, n < 127 → (Char.ofNat n).toNat = n := by decide +kernel
          exact this n hn
        omega)) x (hr x hx).2 (hr x hx).1

/-! ### the decoder's guards -/

theorem bech32Decode_guard (s : List Char) (h : bech32Decode s ≠ none) :
    (∀ c ∈ s, 33 ≤ c.toNat ∧ c.toNat ≤ 126) ∧ ¬ (lower s ≠ s ∧ upper s ≠ s) := by
  unfold bech32Decode at h
  split at h
  · exact absurd rfl h
  · rename_i hc
    simp only [Bool.or_eq_true, List.any_eq_true, Bool.and_eq_true, bne_iff_ne, ne_eq, decide_eq_true_eq,
      not_or, not_exists, not_and] at hc
    refine ⟨?_, ?_⟩
    · intro c hcm
      have := hc.1 c hcm
      omega
    · intro hm
      exact hc.2 hm.1 hm.2

/-- soundness: whatever `decode hrp s` returns, `s` is a valid BIP173/BIP350 segwit address for `hrp` with that
    witness version and program -/
theorem decode_sound (hrp s : List Char) (ver : Nat) (prog : List Nat) (h : decode hrp s = some (ver, prog)) :
    ∃ pb : Bytes, prog = pb.map UInt8.toNat ∧ Spec.Bech32.IsSegwitAddress hrp s ver pb := by
  obtain ⟨hv16, hlo, hhi, hv0, data, hbd, hcb⟩ := decode_some_rules hrp s ver prog h
  obtain ⟨vals, h1, h2, h3, h4, h5, h6, h7⟩ := bech32Decode_some s _ hrp _ hbd
  obtain ⟨hrange, hmix⟩ := bech32Decode_guard s (by rw [hbd]; simp)
  obtain ⟨cf1, cf2, cf3⟩ := case_facts s hrange hmix
  -- split vals into data and checksum
  have hsplit : vals = (ver :: data) ++ vals.drop (vals.length - 6) := by
    rw [h5, List.take_append_drop]
  have hcl : (vals.drop (vals.length - 6)).length = 6 := by simp; omega
  have hclt : ∀ x ∈ vals.drop (vals.length - 6), x < 32 := fun x hx => h2 x (List.mem_of_mem_drop hx)
  have hdlt : ∀ x ∈ ver :: data, x < 32 := by
    intro x hx; rw [h5] at hx; exact h2 x (List.mem_of_mem_take hx)
  rw [verifyChecksum_eq_some, hsplit, ← List.append_assoc] at h4
  have hck := checksum_unique (encOf ver) hrp (ver :: data) _ hclt hcl h4
  -- the program bytes
  have hdata32 : ∀ x ∈ data, x < 32 := fun x hx => hdlt x (by simp [hx])
  obtain ⟨hp256, _, _, hback⟩ := convertbits_5_8_back data prog hdata32 hcb
  let pb : Bytes := prog.map UInt8.ofNat
  have hpb : prog = pb.map UInt8.toNat := by
    simp only [pb, List.map_map]
    conv => lhs; rw [← List.map_id prog]
    apply List.map_congr_left
    intro v hv
    have := hp256 v hv
    simp [UInt8.toNat_ofNat']; omega
  have hconv : Address.convOf pb = data := by
    unfold Address.convOf; rw [← hpb, hback]; rfl
  have hlower : lower s = Spec.Bech32.segwitEncode hrp ver pb := by
    rw [← segwitText_eq_spec hrp ver pb (by omega), hconv, h1, hsplit, hck]
    simp [segwitText]
  have hpl : pb.length = prog.length := by simp [pb]
  refine ⟨pb, hpb, ⟨hv16, by omega, by omega, ?_⟩, h6, cf2, ⟨h7, ?_, ?_⟩, ?_, ?_⟩
  · intro hz; rw [hpl]; exact hv0 hz
  · have : (lower s).length = s.length := by simp [lower]
    rw [h1] at this; simp at this; omega
  · intro c hc
    apply cf3 c
    rw [h1]; simp [hc]
  · intro d hd
    simp at hd
    rcases hd with rfl | hd
    · omega
    · rw [toBase32_eq] at hd; exact convOf_lt pb d hd
  · rw [cf1, hlower]; rfl

end Embit.Model.Bech32
