import Mathlib.Tactic.Ring
import EmbitModel.Proofs.Slip39ParseSound
/-
  Bit lists of the SLIP-0039 layout spec (`bitsBE`, `natOfBitsBE`, `words10`) versus numbers:
  a bit list is the positional notation of `natOfBitsBE`, slices of it are quotients/remainders by powers
  of two, chopping into ten-bit words is `wordsOfBits`, bytes are `beN`.
-/
namespace Embit.Model.Slip39
open Embit Embit.Spec.Slip39

/-! ### `natOfBitsBE` -/

theorem natOfBits_foldl (bs : List Bool) (a : Nat) :
    bs.foldl (fun a b => 2 * a + (if b then 1 else 0)) a = a * 2 ^ bs.length + natOfBitsBE bs := by
  unfold natOfBitsBE
  induction bs generalizing a with
  | nil => simp
  | cons b bs ih =>
    simp only [List.foldl_cons, List.length_cons]
    rw [ih (2 * a + _), ih (2 * 0 + _), Nat.pow_succ]
    ring

theorem natOfBits_cons (b : Bool) (bs : List Bool) :
    natOfBitsBE (b :: bs) = (if b then 1 else 0) * 2 ^ bs.length + natOfBitsBE bs := by
  have := natOfBits_foldl bs (2 * 0 + (if b then 1 else 0))
  simpa [natOfBitsBE] using this

theorem natOfBits_nil : natOfBitsBE [] = 0 := rfl

theorem natOfBits_append (a b : List Bool) :
    natOfBitsBE (a ++ b) = natOfBitsBE a * 2 ^ b.length + natOfBitsBE b := by
  unfold natOfBitsBE
  rw [List.foldl_append]
  exact natOfBits_foldl b _

theorem natOfBits_lt (bs : List Bool) : natOfBitsBE bs < 2 ^ bs.length := by
  induction bs with
  | nil => simp [natOfBitsBE]
  | cons b bs ih =>
    rw [natOfBits_cons, List.length_cons, Nat.pow_succ]
    cases b <;> simp <;> omega

theorem natOfBits_replicate_false (n : Nat) : natOfBitsBE (List.replicate n false) = 0 := by
  induction n with
  | zero => rfl
  | succ n ih => rw [List.replicate_succ, natOfBits_cons, ih]; simp

theorem natOfBits_eq_zero (bs : List Bool) : natOfBitsBE bs = 0 ↔ bs.any id = false := by
  induction bs with
  | nil => simp [natOfBitsBE]
  | cons b bs ih =>
    rw [natOfBits_cons, List.any_cons]
    cases b
    · simp [ih]
    · have : 0 < 2 ^ bs.length := Nat.pow_pos (by decide)
      simp only [if_true, Nat.one_mul, id, Bool.true_or]
      constructor
      · intro h; omega
      · intro h; cases h

/-- a slice of a bit list is a quotient and remainder by powers of two -/
theorem natOfBits_slice (bs : List Bool) (off w : Nat) (h : off + w ≤ bs.length) :
    natOfBitsBE ((bs.drop off).take w) = natOfBitsBE bs / 2 ^ (bs.length - off - w) % 2 ^ w := by
  have e : bs = bs.take off ++ ((bs.drop off).take w ++ (bs.drop off).drop w) := by
    rw [List.take_append_drop, List.take_append_drop]
  have hl : ((bs.drop off).drop w).length = bs.length - off - w := by simp only [List.length_drop]
  have hw : ((bs.drop off).take w).length = w := by rw [List.length_take, List.length_drop]; omega
  generalize hA : bs.take off = A at e
  generalize hB : (bs.drop off).take w = B at e hw ⊢
  generalize hC : (bs.drop off).drop w = C at e hl
  have hN : natOfBitsBE bs = (natOfBitsBE A * 2 ^ w + natOfBitsBE B) * 2 ^ C.length + natOfBitsBE C := by
    conv => lhs; rw [e]
    rw [natOfBits_append, natOfBits_append, List.length_append, hw, Nat.pow_add]; ring
  rw [hN, ← hl]
  have hC := natOfBits_lt C
  have hB := natOfBits_lt B
  rw [hw] at hB
  rw [Nat.add_comm _ (natOfBitsBE C), Nat.add_mul_div_right _ _ (Nat.pow_pos (by decide)),
    Nat.div_eq_of_lt hC, Nat.zero_add, Nat.add_comm, Nat.add_mul_mod_self_right, Nat.mod_eq_of_lt hB]

theorem natOfBits_drop (bs : List Bool) (off : Nat) (h : off ≤ bs.length) :
    natOfBitsBE (bs.drop off) = natOfBitsBE bs % 2 ^ (bs.length - off) := by
  have := natOfBits_slice bs off (bs.length - off) (by omega)
  rw [List.take_of_length_le (by simp [List.length_drop])] at this
  rw [this, show bs.length - off - (bs.length - off) = 0 by omega]; simp

/-! ### `bitsBE` -/

theorem bitsBE_length (w v : Nat) : (bitsBE w v).length = w := by simp [bitsBE]

theorem bitsBE_succ (w v : Nat) : bitsBE (w + 1) v = v.testBit w :: bitsBE w v := by
  unfold bitsBE
  rw [List.range_succ_eq_map, List.map_cons, List.map_map]
  congr 1
  apply List.map_congr_left
  intro i _
  simp only [Function.comp, Nat.succ_eq_add_one]
  congr 1; omega

theorem natOfBits_bitsBE (w v : Nat) : natOfBitsBE (bitsBE w v) = v % 2 ^ w := by
  induction w with
  | zero => simp [bitsBE, natOfBitsBE, Nat.mod_one]
  | succ w ih =>
    rw [bitsBE_succ, natOfBits_cons, ih, bitsBE_length, Nat.mod_pow_succ, Nat.testBit_eq_decide_div_mod_eq]
    have : v / 2 ^ w % 2 = 0 ∨ v / 2 ^ w % 2 = 1 := by omega
    rcases this with h | h
    · simp [h]
    · simp [h]; ring

theorem natOfBits_bitsBE_lt (w v : Nat) (h : v < 2 ^ w) : natOfBitsBE (bitsBE w v) = v := by
  rw [natOfBits_bitsBE, Nat.mod_eq_of_lt h]

/-! ### ten-bit words -/

theorem flatMap_bits10_length (ws : List Nat) : (ws.flatMap (bitsBE 10)).length = 10 * ws.length := by
  induction ws with
  | nil => rfl
  | cons w ws ih => rw [List.flatMap_cons, List.length_append, ih, bitsBE_length, List.length_cons]; omega

/-- the bits of a sequence of ten-bit words are the binary notation of the number the words spell -/
theorem natOfBits_flatMap10 (ws : List Nat) (h : ∀ w ∈ ws, w < 1024) :
    natOfBitsBE (ws.flatMap (bitsBE 10)) = valueOfWords ws := by
  induction ws with
  | nil => rfl
  | cons w ws ih =>
    have hw := h w List.mem_cons_self
    have hws := fun x hx => h x (List.mem_cons_of_mem _ hx)
    rw [List.flatMap_cons, natOfBits_append, natOfBits_bitsBE_lt 10 w hw, flatMap_bits10_length, ih hws,
      valueOfWords_cons w ws hw hws, pow1024]

theorem wordsOfBits_mod (A n : Nat) : wordsOfBits A n = wordsOfBits (A % 1024 ^ n) n := by
  have hlen := wordsOfBits_length (A % 1024 ^ n) n
  have h := wordsOfBits_valueOfWords (wordsOfBits (A % 1024 ^ n) n) (wordsOfBits_lt _ n) (A / 1024 ^ n)
  rw [hlen, valueOfWords_wordsOfBits, Nat.mod_mod, Nat.mul_comm, Nat.div_add_mod] at h
  exact h

/-- chopping a bit string of `10 n` bits into words is `wordsOfBits` of its number -/
theorem words10_eq (n : Nat) (bs : List Bool) (h : bs.length = 10 * n) :
    words10 n bs = wordsOfBits (natOfBitsBE bs) n := by
  induction n generalizing bs with
  | zero => simp [words10, wordsOfBits]
  | succ n ih =>
    have e : bs = bs.take 10 ++ bs.drop 10 := (List.take_append_drop 10 bs).symm
    have hd : (bs.drop 10).length = 10 * n := by rw [List.length_drop]; omega
    have ht : (bs.take 10).length = 10 := by rw [List.length_take]; omega
    have hN : natOfBitsBE bs = natOfBitsBE (bs.take 10) * 1024 ^ n + natOfBitsBE (bs.drop 10) := by
      conv => lhs; rw [e]
      rw [natOfBits_append, hd, pow1024]
    have hlo : natOfBitsBE (bs.drop 10) < 1024 ^ n := by
      have := natOfBits_lt (bs.drop 10); rwa [hd, pow1024] at this
    have hhi : natOfBitsBE (bs.take 10) < 1024 := by
      have := natOfBits_lt (bs.take 10); rwa [ht] at this
    rw [words10, wordsOfBits_succ, ih _ hd]
    congr 1
    · rw [and1023, Nat.shiftRight_eq_div_pow, pow1024, hN, Nat.add_comm,
        Nat.add_mul_div_right _ _ (Nat.pow_pos (by decide)), Nat.div_eq_of_lt hlo, Nat.zero_add,
        Nat.mod_eq_of_lt hhi]
    · rw [wordsOfBits_mod (natOfBitsBE bs) n, hN, Nat.add_comm, Nat.add_mul_mod_self_right, Nat.mod_eq_of_lt hlo]

/-! ### bytes -/

theorem ofLe_append (a b : Bytes) : ofLe (a ++ b) = ofLe a + 256 ^ a.length * ofLe b := by
  induction a with
  | nil => simp [ofLe]
  | cons x xs ih => simp only [List.cons_append, ofLe, ih, List.length_cons, Nat.pow_succ]; ring

theorem ofBe_cons (x : UInt8) (xs : Bytes) : ofBe (x :: xs) = x.toNat * 256 ^ xs.length + ofBe xs := by
  simp only [ofBe, List.reverse_cons, ofLe_append, ofLe, List.length_reverse]; ring

theorem flatMap_bits8_length (b : Bytes) : (b.flatMap fun x => bitsBE 8 x.toNat).length = 8 * b.length := by
  induction b with
  | nil => rfl
  | cons x xs ih => rw [List.flatMap_cons, List.length_append, ih, bitsBE_length, List.length_cons]; omega

/-- the bits of a byte string are the binary notation of its big-endian number -/
theorem natOfBits_flatMap8 (b : Bytes) : natOfBitsBE (b.flatMap fun x => bitsBE 8 x.toNat) = ofBe b := by
  induction b with
  | nil => rfl
  | cons x xs ih =>
    rw [List.flatMap_cons, natOfBits_append, natOfBits_bitsBE_lt 8 _ x.toNat_lt, flatMap_bits8_length, ih,
      ofBe_cons, pow256]

theorem leN_eq_map (n v : Nat) : leN n v = (List.range n).map fun j => UInt8.ofNat (v / 256 ^ j % 256) := by
  induction n generalizing v with
  | zero => rfl
  | succ n ih =>
    rw [leN, List.range_succ_eq_map, List.map_cons, List.map_map, ih]
    congr 1
    · simp
    · apply List.map_congr_left
      intro j _
      simp only [Function.comp, Nat.succ_eq_add_one, Nat.pow_succ]
      rw [Nat.div_div_eq_div_mul, Nat.mul_comm]

/-- byte `k` of `beN n v` is `v / 256^(n-1-k) % 256` -/
theorem beN_eq_map (n v : Nat) :
    beN n v = (List.range n).map fun k => UInt8.ofNat (v / 256 ^ (n - 1 - k) % 256) := by
  unfold beN
  rw [leN_eq_map]
  apply List.ext_getElem
  · simp
  · intro i h1 h2
    simp only [List.length_reverse, List.length_map, List.length_range] at h1
    simp [List.getElem_reverse]

end Embit.Model.Slip39
