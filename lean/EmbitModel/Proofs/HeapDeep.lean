import EmbitModel.Model.HeapDeep
/-
  C19 — keyed memos whose keys are DEEP copies, under in-place edits of the caller's lists AND of the buffers in them:
  the memo invariant and its preservation (audit2 B-7).
-/
namespace Embit.HeapDeep

/-- every memo entry is keyed by a deep copy and holds the value of `f` on exactly those bytes -/
def MemoOk (env : Env) (st : State) : Prop :=
  ∀ i m key v, st.memo i m = some (key, v) → ∃ c, key = .deep c ∧ v = env.f m (st.recv i) c

theorem memoOk_init (env : Env) : MemoOk env init := by
  intro i m key v h; simp [init] at h

theorem keyKind_deep {env : Env} (hd : env.keysDeep = true) (m : Nat) : keyKind env m = .deep := by
  unfold keyKind
  cases hm : env.methods[m]? with
  | none => rfl
  | some k =>
    have hmem := List.mem_of_getElem? hm
    simp only [Env.keysDeep, List.all_eq_true] at hd
    have := hd _ hmem
    simpa using this

theorem mkKey_deep {env : Env} (hd : env.keysDeep = true) (st : State) (m k : Nat) :
    mkKey env st m k = .deep (deref st k) := by
  unfold mkKey; rw [keyKind_deep hd]

theorem step_memoOk (env : Env) (hd : env.keysDeep = true) (st : State) (op : Op)
    (I : MemoOk env st) : MemoOk env (step env st op) := by
  cases op with
  | newCell c => exact I
  | editCell r c =>
    by_cases hr : r < st.ncells
    · intro i m key v h
      have h' : st.memo i m = some (key, v) := by simpa [step, hr] using h
      simpa [step, hr] using I i m key v h'
    · simpa [step, hr] using I
  | newArg rs =>
    by_cases hr : rs.all (· < st.ncells) = true
    · have e : step env st (.newArg rs) = { st with args := fun x => if x = st.nargs then rs else st.args x, nargs := st.nargs + 1 } := by
        simp only [step, if_pos hr]
      rw [e]; exact I
    · have e : step env st (.newArg rs) = st := by simp only [step, if_neg hr]
      rw [e]; exact I
  | editArg k rs =>
    by_cases hr : k < st.nargs ∧ rs.all (· < st.ncells) = true
    · have e : step env st (.editArg k rs) = { st with args := fun x => if x = k then rs else st.args x } := by
        simp only [step, if_pos hr]
      rw [e]; exact I
    · have e : step env st (.editArg k rs) = st := by simp only [step, if_neg hr]
      rw [e]; exact I
  | newObj c =>
    intro i m key v h
    by_cases hi : i = st.nobjs
    · simp [step, hi] at h
    · have h' : st.memo i m = some (key, v) := by simpa [step, hi] using h
      simpa [step, hi] using I i m key v h'
  | mutate j w =>
    by_cases hj : j < st.nobjs
    · intro i m key v h
      by_cases hi : i = j
      · simp [step, hj, hi] at h
      · have h' : st.memo i m = some (key, v) := by simpa [step, hj, hi] using h
        simpa [step, hj, hi] using I i m key v h'
    · simpa [step, hj] using I
  | query j n k =>
    by_cases hjk : j < st.nobjs ∧ k < st.nargs
    · have store : MemoOk env (setMemo st j n (mkKey env st n k, env.f n (st.recv j) (deref st k))) := by
        intro i m key v h
        simp only [setMemo] at h
        by_cases him : i = j ∧ m = n
        · obtain ⟨rfl, rfl⟩ := him
          simp only [and_self, if_true, Option.some.injEq, Prod.mk.injEq] at h
          obtain ⟨rfl, rfl⟩ := h
          exact ⟨deref st k, mkKey_deep hd st m k, rfl⟩
        · simp only [him, if_false] at h
          exact I i m key v h
      cases hmemo : st.memo j n with
      | none =>
        have : step env st (.query j n k) = (setMemo st j n (mkKey env st n k, env.f n (st.recv j) (deref st k))) := by
          simp [step, hjk, hmemo]
        rw [this]; exact store
      | some e =>
        obtain ⟨key, v⟩ := e
        by_cases hit : keyContent st key = deref st k
        · have : step env st (.query j n k) = st := by simp [step, hjk, hmemo, hit]
          rw [this]; exact I
        · have : step env st (.query j n k) = (setMemo st j n (mkKey env st n k, env.f n (st.recv j) (deref st k))) := by
            simp [step, hjk, hmemo, hit]
          rw [this]; exact store
    · have : step env st (.query j n k) = st := by simp [step, hjk]
      rw [this]; exact I

theorem run_memoOk (env : Env) (hd : env.keysDeep = true) (h : List Op) :
    ∀ st, MemoOk env st → MemoOk env (run env st h) := by
  induction h with
  | nil => intro st I; exact I
  | cons op ops ih => intro st I; exact ih _ (step_memoOk env hd st op I)

theorem answer_of_memoOk (env : Env) (st : State) (I : MemoOk env st) (i m k : Nat) :
    answer env st i m k = env.f m (st.recv i) (deref st k) := by
  unfold answer
  cases hmemo : st.memo i m with
  | none => rfl
  | some e =>
    obtain ⟨key, v⟩ := e
    simp only
    split
    · rename_i hit
      obtain ⟨c, rfl, rfl⟩ := I i m key v hmemo
      simp only [keyContent] at hit
      rw [hit]
    · rfl

/-! ### shallow (or deep) keys, histories without in-place edits of buffers -/

/-- keys are never the caller's list; a memo entry holds the value of `f` on what its key compares as NOW; the buffers a
    shallow key refers to, and the buffers the caller's lists refer to, exist -/
def MemoOkS (env : Env) (st : State) : Prop :=
  (∀ i m key v, st.memo i m = some (key, v) →
    v = env.f m (st.recv i) (keyContent st key) ∧ (∀ r, key ≠ .ref r) ∧ (∀ rs, key = .shallow rs → ∀ r ∈ rs, r < st.ncells))
  ∧ (∀ k, k < st.nargs → ∀ r ∈ st.args k, r < st.ncells)

theorem memoOkS_init (env : Env) : MemoOkS env init :=
  ⟨fun i m key v h => by simp [init] at h, fun k hk => by simp [init] at hk⟩

theorem keyKind_not_aliases {env : Env} (hn : env.noListAlias = true) (m : Nat) : keyKind env m ≠ .aliases := by
  unfold keyKind
  cases hm : env.methods[m]? with
  | none => simp
  | some k =>
    have hmem := List.mem_of_getElem? hm
    simp only [Env.noListAlias, List.all_eq_true] at hn
    have := hn _ hmem
    simpa using this

theorem keyContent_cells_irrel (st st' : State) (key : StoredKey) (hne : ∀ r, key ≠ .ref r)
    (hc : ∀ rs, key = .shallow rs → ∀ r ∈ rs, st'.cells r = st.cells r) :
    keyContent st' key = keyContent st key := by
  cases key with
  | deep c => rfl
  | shallow rs =>
    simp only [keyContent]
    exact List.map_congr_left (hc rs rfl)
  | ref r => exact absurd rfl (hne r)

theorem mkKey_okS {env : Env} (hn : env.noListAlias = true) (st : State) (m k : Nat)
    (hargs : ∀ r ∈ st.args k, r < st.ncells) :
    keyContent st (mkKey env st m k) = deref st k ∧ (∀ r, mkKey env st m k ≠ .ref r)
      ∧ (∀ rs, mkKey env st m k = .shallow rs → ∀ r ∈ rs, r < st.ncells) := by
  have hk := keyKind_not_aliases hn m
  unfold mkKey
  cases hkind : keyKind env m with
  | deep => dsimp only; exact ⟨rfl, fun r h => (by cases h), fun rs h => (by cases h)⟩
  | shallow =>
    dsimp only
    refine ⟨rfl, fun r h => (by cases h), fun rs h r hr => ?_⟩
    cases h
    exact hargs r hr
  | aliases => exact absurd hkind hk

theorem step_memoOkS (env : Env) (hn : env.noListAlias = true) (st : State) (op : Op) (hop : op.isCellEdit = false)
    (I : MemoOkS env st) : MemoOkS env (step env st op) := by
  obtain ⟨I1, I2⟩ := I
  cases op with
  | newCell c =>
    refine ⟨fun i m key v h => ?_, fun k hk r hr => Nat.lt_succ_of_lt (I2 k hk r hr)⟩
    obtain ⟨h1, h2, h3⟩ := I1 i m key v h
    refine ⟨?_, h2, fun rs hrs r hr => Nat.lt_succ_of_lt (h3 rs hrs r hr)⟩
    rw [h1]
    congr 1
    symm
    apply keyContent_cells_irrel _ _ key h2
    intro rs hrs r hr
    have : r ≠ st.ncells := Nat.ne_of_lt (h3 rs hrs r hr)
    simp [step, this]
  | editCell r c => simp [Op.isCellEdit] at hop
  | newArg rs =>
    by_cases hr : rs.all (· < st.ncells) = true
    · have e : step env st (.newArg rs) = { st with args := fun x => if x = st.nargs then rs else st.args x, nargs := st.nargs + 1 } := by
        simp only [step, if_pos hr]
      rw [e]
      refine ⟨fun i m key v h => ?_, fun k hk r hrk => ?_⟩
      · obtain ⟨h1, h2, h3⟩ := I1 i m key v h
        refine ⟨?_, h2, h3⟩
        rw [h1]; congr 1; symm
        exact keyContent_cells_irrel _ _ key h2 (fun _ _ _ _ => rfl)
      · by_cases hk' : k = st.nargs
        · simp only [hk', if_true] at hrk
          simp only [List.all_eq_true, decide_eq_true_eq] at hr
          exact hr r hrk
        · simp only [hk', if_false] at hrk
          exact I2 k (by simp only at hk; omega) r hrk
    · have e : step env st (.newArg rs) = st := by simp only [step, if_neg hr]
      rw [e]; exact ⟨I1, I2⟩
  | editArg k rs =>
    by_cases hr : k < st.nargs ∧ rs.all (· < st.ncells) = true
    · have e : step env st (.editArg k rs) = { st with args := fun x => if x = k then rs else st.args x } := by
        simp only [step, if_pos hr]
      rw [e]
      refine ⟨fun i m key v h => ?_, fun k' hk r hrk => ?_⟩
      · obtain ⟨h1, h2, h3⟩ := I1 i m key v h
        refine ⟨?_, h2, h3⟩
        rw [h1]; congr 1; symm
        exact keyContent_cells_irrel _ _ key h2 (fun _ _ _ _ => rfl)
      · by_cases hk' : k' = k
        · simp only [hk', if_true] at hrk
          have := hr.2
          simp only [List.all_eq_true, decide_eq_true_eq] at this
          exact this r hrk
        · simp only [hk', if_false] at hrk
          exact I2 k' hk r hrk
    · have e : step env st (.editArg k rs) = st := by simp only [step, if_neg hr]
      rw [e]; exact ⟨I1, I2⟩
  | newObj c =>
    refine ⟨fun i m key v h => ?_, I2⟩
    by_cases hi : i = st.nobjs
    · simp [step, hi] at h
    · have h' : st.memo i m = some (key, v) := by simpa [step, hi] using h
      obtain ⟨h1, h2, h3⟩ := I1 i m key v h'
      refine ⟨?_, h2, h3⟩
      rw [h1]
      have : keyContent (step env st (.newObj c)) key = keyContent st key :=
        keyContent_cells_irrel _ _ key h2 (fun _ _ _ _ => rfl)
      rw [this]; simp [step, hi]
  | mutate j w =>
    by_cases hj : j < st.nobjs
    · refine ⟨fun i m key v h => ?_, by simpa [step, hj] using I2⟩
      by_cases hi : i = j
      · simp [step, hj, hi] at h
      · have h' : st.memo i m = some (key, v) := by simpa [step, hj, hi] using h
        obtain ⟨h1, h2, h3⟩ := I1 i m key v h'
        refine ⟨?_, h2, by simpa [step, hj] using h3⟩
        rw [h1]
        have : keyContent (step env st (.mutate j w)) key = keyContent st key :=
          keyContent_cells_irrel _ _ key h2 (fun _ _ _ _ => by simp [step, hj])
        rw [this]; simp [step, hj, hi]
    · have e : step env st (.mutate j w) = st := by simp [step, hj]
      rw [e]; exact ⟨I1, I2⟩
  | query j n k =>
    by_cases hjk : j < st.nobjs ∧ k < st.nargs
    · have store : MemoOkS env (setMemo st j n (mkKey env st n k, env.f n (st.recv j) (deref st k))) := by
        refine ⟨fun i m key v h => ?_, I2⟩
        simp only [setMemo] at h
        by_cases him : i = j ∧ m = n
        · obtain ⟨rfl, rfl⟩ := him
          simp only [and_self, if_true, Option.some.injEq, Prod.mk.injEq] at h
          obtain ⟨rfl, rfl⟩ := h
          obtain ⟨e1, e2, e3⟩ := mkKey_okS hn st m k (I2 k hjk.2)
          refine ⟨?_, e2, e3⟩
          have : keyContent (setMemo st i m (mkKey env st m k, env.f m (st.recv i) (deref st k))) (mkKey env st m k)
              = keyContent st (mkKey env st m k) := by cases mkKey env st m k <;> rfl
          rw [this, e1]; rfl
        · simp only [him, if_false] at h
          obtain ⟨h1, h2, h3⟩ := I1 i m key v h
          exact ⟨by rw [h1]; cases key <;> rfl, h2, h3⟩
      cases hmemo : st.memo j n with
      | none =>
        have : step env st (.query j n k) = (setMemo st j n (mkKey env st n k, env.f n (st.recv j) (deref st k))) := by
          simp [step, hjk, hmemo]
        rw [this]; exact store
      | some e =>
        obtain ⟨key, v⟩ := e
        by_cases hit : keyContent st key = deref st k
        · have : step env st (.query j n k) = st := by simp [step, hjk, hmemo, hit]
          rw [this]; exact ⟨I1, I2⟩
        · have : step env st (.query j n k) = (setMemo st j n (mkKey env st n k, env.f n (st.recv j) (deref st k))) := by
            simp [step, hjk, hmemo, hit]
          rw [this]; exact store
    · have : step env st (.query j n k) = st := by simp [step, hjk]
      rw [this]; exact ⟨I1, I2⟩

theorem run_memoOkS (env : Env) (hn : env.noListAlias = true) (h : List Op) :
    ∀ st, (h.all fun o => !o.isCellEdit) = true → MemoOkS env st → MemoOkS env (run env st h) := by
  induction h with
  | nil => intro st _ I; exact I
  | cons op ops ih =>
    intro st hs I
    simp only [List.all_cons, Bool.and_eq_true] at hs
    exact ih _ hs.2 (step_memoOkS env hn st op (by simpa using hs.1) I)

theorem answer_of_memoOkS (env : Env) (st : State) (I : MemoOkS env st) (i m k : Nat) :
    answer env st i m k = env.f m (st.recv i) (deref st k) := by
  unfold answer
  cases hmemo : st.memo i m with
  | none => rfl
  | some e =>
    obtain ⟨key, v⟩ := e
    simp only
    split
    · rename_i hit
      rw [(I.1 i m key v hmemo).1, hit]
    · rfl

end Embit.HeapDeep
