import EmbitModel.Proofs.SignWithValid
/-
  `PSBT.parse` only lets encodings of curve points into the derivation maps of an input scope: the hypothesis
  `KeysValid` of the validity theorems of C02X holds of every parsed PSBT. The branch-by-branch proof of the step
  follows the pattern of Proofs/PsbtScope.lean (Mathlib-free).
-/
set_option linter.unusedSimpArgs false
set_option linter.unusedVariables false
namespace Embit.Model.SignWith
open Embit Embit.Model

/-- the keys of both derivation maps passed the parser's validators -/
def KInv (ko : KeyOps) (s : InScope) : Prop :=
  (∀ e ∈ s.bip32, ko.validSec e.1 = true) ∧ (∀ e ∈ s.tapBip32, ko.validX e.1 = true)

set_option maxHeartbeats 1000000 in
theorem addPair_kinv (ko : KeyOps) (sha : Bytes → Bytes) (c : Nat) (s s' : InScope) (k v : Bytes)
    (hi : KInv ko s) (h : InScope.addPair ko sha c s k v = some s') : KInv ko s' := by
  unfold InScope.addPair at h
  split at h
  · simp at h; subst h; exact hi
  · rename_i k0 krest
    simp only [] at h
    by_cases h0x00 : k0 = 0x00
    · simp only [h0x00, if_true] at h
      repeat' (split at h)
      all_goals (try (simp at h; done))
      all_goals (try (obtain rfl := Option.some.inj h))
      all_goals (first
        | exact hi
        | (refine ⟨fun e he => ?_, fun e he => ?_⟩
           all_goals (first
             | exact hi.1 e he
             | exact hi.2 e he
             | (rcases List.mem_append.mp he with he | he
                · first | exact hi.1 e he | exact hi.2 e he
                · simp only [List.mem_singleton] at he
                  subst he
                  simp_all))))
    simp only [h0x00, if_false] at h
    by_cases h0x01 : k0 = 0x01
    · simp only [h0x01, if_true] at h
      repeat' (split at h)
      all_goals (try (simp at h; done))
      all_goals (try (obtain rfl := Option.some.inj h))
      all_goals (first
        | exact hi
        | (refine ⟨fun e he => ?_, fun e he => ?_⟩
           all_goals (first
             | exact hi.1 e he
             | exact hi.2 e he
             | (rcases List.mem_append.mp he with he | he
                · first | exact hi.1 e he | exact hi.2 e he
                · simp only [List.mem_singleton] at he
                  subst he
                  simp_all))))
    simp only [h0x01, if_false] at h
    by_cases h0x02 : k0 = 0x02
    · simp only [h0x02, if_true] at h
      repeat' (split at h)
      all_goals (try (simp at h; done))
      all_goals (try (obtain rfl := Option.some.inj h))
      all_goals (first
        | exact hi
        | (refine ⟨fun e he => ?_, fun e he => ?_⟩
           all_goals (first
             | exact hi.1 e he
             | exact hi.2 e he
             | (rcases List.mem_append.mp he with he | he
                · first | exact hi.1 e he | exact hi.2 e he
                · simp only [List.mem_singleton] at he
                  subst he
                  simp_all))))
    simp only [h0x02, if_false] at h
    by_cases h0x03 : k0 = 0x03
    · simp only [h0x03, if_true] at h
      repeat' (split at h)
      all_goals (try (simp at h; done))
      all_goals (try (obtain rfl := Option.some.inj h))
      all_goals (first
        | exact hi
        | (refine ⟨fun e he => ?_, fun e he => ?_⟩
           all_goals (first
             | exact hi.1 e he
             | exact hi.2 e he
             | (rcases List.mem_append.mp he with he | he
                · first | exact hi.1 e he | exact hi.2 e he
                · simp only [List.mem_singleton] at he
                  subst he
                  simp_all))))
    simp only [h0x03, if_false] at h
    by_cases h0x04 : k0 = 0x04
    · simp only [h0x04, if_true] at h
      repeat' (split at h)
      all_goals (try (simp at h; done))
      all_goals (try (obtain rfl := Option.some.inj h))
      all_goals (first
        | exact hi
        | (refine ⟨fun e he => ?_, fun e he => ?_⟩
           all_goals (first
             | exact hi.1 e he
             | exact hi.2 e he
             | (rcases List.mem_append.mp he with he | he
                · first | exact hi.1 e he | exact hi.2 e he
                · simp only [List.mem_singleton] at he
                  subst he
                  simp_all))))
    simp only [h0x04, if_false] at h
    by_cases h0x05 : k0 = 0x05
    · simp only [h0x05, if_true] at h
      repeat' (split at h)
      all_goals (try (simp at h; done))
      all_goals (try (obtain rfl := Option.some.inj h))
      all_goals (first
        | exact hi
        | (refine ⟨fun e he => ?_, fun e he => ?_⟩
           all_goals (first
             | exact hi.1 e he
             | exact hi.2 e he
             | (rcases List.mem_append.mp he with he | he
                · first | exact hi.1 e he | exact hi.2 e he
                · simp only [List.mem_singleton] at he
                  subst he
                  simp_all))))
    simp only [h0x05, if_false] at h
    by_cases h0x06 : k0 = 0x06
    · simp only [h0x06, if_true] at h
      repeat' (split at h)
      all_goals (try (simp at h; done))
      all_goals (try (obtain rfl := Option.some.inj h))
      all_goals (first
        | exact hi
        | (refine ⟨fun e he => ?_, fun e he => ?_⟩
           all_goals (first
             | exact hi.1 e he
             | exact hi.2 e he
             | (rcases List.mem_append.mp he with he | he
                · first | exact hi.1 e he | exact hi.2 e he
                · simp only [List.mem_singleton] at he
                  subst he
                  simp_all))))
    simp only [h0x06, if_false] at h
    by_cases h0x07 : k0 = 0x07
    · simp only [h0x07, if_true] at h
      repeat' (split at h)
      all_goals (try (simp at h; done))
      all_goals (try (obtain rfl := Option.some.inj h))
      all_goals (first
        | exact hi
        | (refine ⟨fun e he => ?_, fun e he => ?_⟩
           all_goals (first
             | exact hi.1 e he
             | exact hi.2 e he
             | (rcases List.mem_append.mp he with he | he
                · first | exact hi.1 e he | exact hi.2 e he
                · simp only [List.mem_singleton] at he
                  subst he
                  simp_all))))
    simp only [h0x07, if_false] at h
    by_cases h0x08 : k0 = 0x08
    · simp only [h0x08, if_true] at h
      repeat' (split at h)
      all_goals (try (simp at h; done))
      all_goals (try (obtain rfl := Option.some.inj h))
      all_goals (first
        | exact hi
        | (refine ⟨fun e he => ?_, fun e he => ?_⟩
           all_goals (first
             | exact hi.1 e he
             | exact hi.2 e he
             | (rcases List.mem_append.mp he with he | he
                · first | exact hi.1 e he | exact hi.2 e he
                · simp only [List.mem_singleton] at he
                  subst he
                  simp_all))))
    simp only [h0x08, if_false] at h
    by_cases he : k0 :: krest = [0x0e]
    · simp only [he, if_true] at h
      repeat' (split at h)
      all_goals (try (simp at h; done))
      all_goals (try (obtain rfl := Option.some.inj h))
      all_goals (first
        | exact hi
        | (refine ⟨fun e he => ?_, fun e he => ?_⟩
           all_goals (first
             | exact hi.1 e he
             | exact hi.2 e he
             | (rcases List.mem_append.mp he with he | he
                · first | exact hi.1 e he | exact hi.2 e he
                · simp only [List.mem_singleton] at he
                  subst he
                  simp_all))))
    simp only [he, if_false] at h
    by_cases hf : k0 :: krest = [0x0f]
    · simp only [hf, if_true] at h
      repeat' (split at h)
      all_goals (try (simp at h; done))
      all_goals (try (obtain rfl := Option.some.inj h))
      all_goals (first
        | exact hi
        | (refine ⟨fun e he => ?_, fun e he => ?_⟩
           all_goals (first
             | exact hi.1 e he
             | exact hi.2 e he
             | (rcases List.mem_append.mp he with he | he
                · first | exact hi.1 e he | exact hi.2 e he
                · simp only [List.mem_singleton] at he
                  subst he
                  simp_all))))
    simp only [hf, if_false] at h
    by_cases hg : k0 :: krest = [0x10]
    · simp only [hg, if_true] at h
      repeat' (split at h)
      all_goals (try (simp at h; done))
      all_goals (try (obtain rfl := Option.some.inj h))
      all_goals (first
        | exact hi
        | (refine ⟨fun e he => ?_, fun e he => ?_⟩
           all_goals (first
             | exact hi.1 e he
             | exact hi.2 e he
             | (rcases List.mem_append.mp he with he | he
                · first | exact hi.1 e he | exact hi.2 e he
                · simp only [List.mem_singleton] at he
                  subst he
                  simp_all))))
    simp only [hg, if_false] at h
    by_cases h0x14 : k0 = 0x14
    · simp only [h0x14, if_true] at h
      repeat' (split at h)
      all_goals (try (simp at h; done))
      all_goals (try (obtain rfl := Option.some.inj h))
      all_goals (first
        | exact hi
        | (refine ⟨fun e he => ?_, fun e he => ?_⟩
           all_goals (first
             | exact hi.1 e he
             | exact hi.2 e he
             | (rcases List.mem_append.mp he with he | he
                · first | exact hi.1 e he | exact hi.2 e he
                · simp only [List.mem_singleton] at he
                  subst he
                  simp_all))))
    simp only [h0x14, if_false] at h
    by_cases h0x15 : k0 = 0x15
    · simp only [h0x15, if_true] at h
      repeat' (split at h)
      all_goals (try (simp at h; done))
      all_goals (try (obtain rfl := Option.some.inj h))
      all_goals (first
        | exact hi
        | (refine ⟨fun e he => ?_, fun e he => ?_⟩
           all_goals (first
             | exact hi.1 e he
             | exact hi.2 e he
             | (rcases List.mem_append.mp he with he | he
                · first | exact hi.1 e he | exact hi.2 e he
                · simp only [List.mem_singleton] at he
                  subst he
                  simp_all))))
    simp only [h0x15, if_false] at h
    by_cases h0x16 : k0 = 0x16
    · simp only [h0x16, if_true] at h
      repeat' (split at h)
      all_goals (try (simp at h; done))
      all_goals (try (obtain rfl := Option.some.inj h))
      all_goals (first
        | exact hi
        | (refine ⟨fun e he => ?_, fun e he => ?_⟩
           all_goals (first
             | exact hi.1 e he
             | exact hi.2 e he
             | (rcases List.mem_append.mp he with he | he
                · first | exact hi.1 e he | exact hi.2 e he
                · simp only [List.mem_singleton] at he
                  subst he
                  simp_all))))
    simp only [h0x16, if_false] at h
    by_cases h0x17 : k0 = 0x17
    · simp only [h0x17, if_true] at h
      repeat' (split at h)
      all_goals (try (simp at h; done))
      all_goals (try (obtain rfl := Option.some.inj h))
      all_goals (first
        | exact hi
        | (refine ⟨fun e he => ?_, fun e he => ?_⟩
           all_goals (first
             | exact hi.1 e he
             | exact hi.2 e he
             | (rcases List.mem_append.mp he with he | he
                · first | exact hi.1 e he | exact hi.2 e he
                · simp only [List.mem_singleton] at he
                  subst he
                  simp_all))))
    simp only [h0x17, if_false] at h
    by_cases h0x18 : k0 = 0x18
    · simp only [h0x18, if_true] at h
      repeat' (split at h)
      all_goals (try (simp at h; done))
      all_goals (try (obtain rfl := Option.some.inj h))
      all_goals (first
        | exact hi
        | (refine ⟨fun e he => ?_, fun e he => ?_⟩
           all_goals (first
             | exact hi.1 e he
             | exact hi.2 e he
             | (rcases List.mem_append.mp he with he | he
                · first | exact hi.1 e he | exact hi.2 e he
                · simp only [List.mem_singleton] at he
                  subst he
                  simp_all))))
    simp only [h0x18, if_false] at h
    repeat' (split at h)
    all_goals (try (simp at h; done))
    all_goals (try (obtain rfl := Option.some.inj h))
    all_goals (first
      | exact hi
      | (refine ⟨fun e he => ?_, fun e he => ?_⟩
         all_goals (first
           | exact hi.1 e he
           | exact hi.2 e he
           | (rcases List.mem_append.mp he with he | he
              · first | exact hi.1 e he | exact hi.2 e he
              · simp only [List.mem_singleton] at he
                subst he
                simp_all))))

theorem addPairs_kinv (ko : KeyOps) (sha : Bytes → Bytes) (c : Nat) (kvs : List KV) (s s' : InScope)
    (hi : KInv ko s) (h : InScope.addPairs ko sha c s kvs = some s') : KInv ko s' := by
  induction kvs generalizing s with
  | nil => simp only [InScope.addPairs, Option.some.injEq] at h; subst h; exact hi
  | cons kv r ih =>
    obtain ⟨k, v⟩ := kv
    unfold InScope.addPairs at h
    split at h
    · cases h
    · rename_i s1 h1
      exact ih s1 (addPair_kinv ko sha c s s1 k v hi h1) h

theorem kinv_empty (ko : KeyOps) (s : InScope) (h1 : s.bip32 = []) (h2 : s.tapBip32 = []) : KInv ko s := by
  refine ⟨fun e he => ?_, fun e he => ?_⟩
  · rw [h1] at he; cases he
  · rw [h2] at he; cases he

theorem seedIn_kinv (ko : KeyOps) (tx : Option Tx) (i : Nat) : KInv ko (seedIn tx i) := by
  unfold seedIn
  split
  · split
    · exact kinv_empty ko _ rfl rfl
    · exact kinv_empty ko _ rfl rfl
  · exact kinv_empty ko _ rfl rfl

theorem readIns_kinv (ko : KeyOps) (sha : Bytes → Bytes) (c : Nat) (tx : Option Tx) (n i : Nat) (b : Bytes)
    (ss : List InScope) (r : Bytes) (h : readIns ko sha c tx n i b = some (ss, r)) : ∀ s ∈ ss, KInv ko s := by
  induction n generalizing i b ss r with
  | zero => simp only [readIns, Option.some.injEq, Prod.mk.injEq] at h; obtain ⟨rfl, _⟩ := h; intro s hs; cases hs
  | succ n ih =>
    unfold readIns at h
    split at h
    · cases h
    · rename_i kvs r1 _
      split at h
      · cases h
      · rename_i s1 h1
        split at h
        · cases h
        · rename_i ss2 r2 h2
          simp only [Option.some.injEq, Prod.mk.injEq] at h; obtain ⟨rfl, _⟩ := h
          intro s hs
          rcases List.mem_cons.mp hs with rfl | hs
          · exact addPairs_kinv ko sha c kvs _ _ (seedIn_kinv ko tx i) h1
          · exact ih _ _ _ _ h2 s hs

/-- every input scope of a parsed PSBT has validated derivation keys -/
theorem parse_kinv (ko : KeyOps) (sha : Bytes → Bytes) (c : Nat) (b : Bytes) (p : Psbt)
    (h : Psbt.parse ko sha c b = some p) : ∀ s ∈ p.inputs, KInv ko s := by
  unfold Psbt.parse at h
  repeat' (split at h)
  all_goals (try (cases h; done))
  dsimp only at h
  repeat' (split at h)
  all_goals (try (cases h; done))
  simp only [Option.some.injEq] at h
  subst h
  exact readIns_kinv ko sha c _ _ _ _ _ _ (by assumption)

/-- … hence `KeysValid`, when an x-only key accepted by `from_xonly` is the SEC key `02 ‖ x` (its definition) -/
theorem parse_keysValid (ko : KeyOps) (hx : ∀ x, ko.validX x = true → ko.validSec (0x02 :: x) = true)
    (sha : Bytes → Bytes) (c : Nat) (b : Bytes) (p : Psbt) (h : Psbt.parse ko sha c b = some p) :
    ∀ s ∈ p.inputs, KeysValid ko.validSec s := by
  intro s hs
  obtain ⟨h1, h2⟩ := parse_kinv ko sha c b p h s hs
  exact ⟨h1, fun e he => hx _ (h2 e he)⟩

end Embit.Model.SignWith
