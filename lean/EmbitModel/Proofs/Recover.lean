import EmbitModel.Proofs.ContractCurve
/-
  Public-key recovery: `py_secp256k1.ecdsa_recover` (u1·R − u2·G with u1 = s/r, u2 = z/r, followed by a
  re-verification of the signature under the recovered key) against the contract of
  `secp256k1_ecdsa_recover` (SEC 1 §4.1.6: Q = r⁻¹(sR − zG)), relative to `EcLaws`.
-/
namespace Embit
open Embit.Model Embit.Model.Der Embit.Model.PySecp

variable {E : EcOps}

/-! ### scalar algebra in `ZMod n` -/

theorem inv_cast (L : EcLaws E) (a : Nat) (h0 : 0 < a) (h1 : a < E.n) :
    (a : ZMod E.n) * (E.invN a : ZMod E.n) = 1 := by
  have := L.inv_mul a h0 h1
  have h2 := cast_eq_of_mod (n := E.n) (a * E.invN a) 1 (by rw [this, Nat.mod_eq_of_lt L.n_gt_one])
  simpa using h2

/-- multiples of `G` depend on the scalar modulo `n` only -/
theorem mul_congr (L : EcLaws E) (a b : Nat) (h : (a : ZMod E.n) = (b : ZMod E.n)) :
    E.mul a E.g = E.mul b E.g := by
  have := mod_eq_of_cast a b h
  rw [← L.mul_mod a, this, L.mul_mod]

/-- `u·(cG) − vG = (u c + (n − v)) G` for `v ≤ n` -/
theorem comb_neg (L : EcLaws E) (u c v : Nat) (hv : v ≤ E.n) :
    E.add (E.mul u (E.mul c E.g)) (E.neg (E.mul v E.g)) = E.mul (u * c + (E.n - v)) E.g := by
  rw [L.mul_mul, L.neg_mul v hv, L.mul_add]

theorem cast_n_sub {n : Nat} (v : Nat) (hv : v ≤ n) : ((n - v : Nat) : ZMod n) = -(v : ZMod n) := cast_sub_self v hv

/-- the recovered point, both formulations: for `R = cG` they are `(r⁻¹(s c − z)) G` -/
theorem recover_point_eq (L : EcLaws E) (r s z c : Nat) :
    E.add (E.mul (s * E.invN r % E.n) (E.mul c E.g)) (E.neg (E.mul (z * E.invN r % E.n) E.g))
      = E.mul (E.invN r) (E.add (E.mul s (E.mul c E.g)) (E.neg (E.mul (z % E.n) E.g))) := by
  have hn := L.n_pos
  rw [comb_neg L _ _ _ (Nat.le_of_lt (Nat.mod_lt _ hn)), comb_neg L _ _ _ (Nat.le_of_lt (Nat.mod_lt _ hn)),
    L.mul_mul]
  apply mul_congr L
  push_cast
  rw [cast_n_sub _ (Nat.le_of_lt (Nat.mod_lt _ hn)), cast_n_sub _ (Nat.le_of_lt (Nat.mod_lt _ hn))]
  simp only [ZMod.natCast_mod]
  push_cast
  ring

/-- the scalar of the recovered point -/
theorem recover_scalar (L : EcLaws E) (r s z c : Nat) :
    ∃ e, e < E.n ∧
      E.mul (E.invN r) (E.add (E.mul s (E.mul c E.g)) (E.neg (E.mul (z % E.n) E.g))) = E.mul e E.g ∧
      (e : ZMod E.n) = (E.invN r : ZMod E.n) * ((s : ZMod E.n) * c - z) := by
  have hn := L.n_pos
  refine ⟨(E.invN r * (s * c + (E.n - z % E.n))) % E.n, Nat.mod_lt _ hn, ?_, ?_⟩
  · rw [comb_neg L _ _ _ (Nat.le_of_lt (Nat.mod_lt _ hn)), L.mul_mul, L.mul_mod]
  · simp only [ZMod.natCast_mod]
    push_cast
    rw [cast_n_sub _ (Nat.le_of_lt (Nat.mod_lt _ hn))]
    simp only [ZMod.natCast_mod]
    ring

/-- the re-verification at the end of py's `ecdsa_recover` always succeeds: `z/s·G + r/s·Q = R` for the recovered `Q` -/
theorem reverify_point (L : EcLaws E) (r s z c e : Nat) (hr : 0 < r ∧ r < E.n) (hs : 0 < s ∧ s < E.n)
    (he : (e : ZMod E.n) = (E.invN r : ZMod E.n) * ((s : ZMod E.n) * c - z)) :
    E.add (E.mul (z * E.invN s % E.n) E.g) (E.mul (r * E.invN s % E.n) (E.mul e E.g)) = E.mul c E.g := by
  rw [L.lin_comb, L.mul_mod]
  apply mul_congr L
  have h1 := inv_cast L r hr.1 hr.2
  have h2 := inv_cast L s hs.1 hs.2
  push_cast
  simp only [ZMod.natCast_mod]
  push_cast
  rw [he]
  linear_combination ((c : ZMod E.n) * s * E.invN s - (z : ZMod E.n) * E.invN s) * h1 + (c : ZMod E.n) * h2

/-! ### the tail of `ecdsa_recover`: compute the point, store it, load it, verify the signature under it -/

theorem recover_tail (L : EcLaws E) (hp : E.p ≤ 2 ^ 256) (r s : Nat) (msg : Bytes) (hr : 0 < r ∧ r < E.n)
    (hs : s < E.n) (hr256 : r < 2 ^ 256) (hs256 : s < 2 ^ 256) (R : E.Pt) (x yR : Nat)
    (hR : E.xy R = some (x, yR)) (hx : x % E.n = r) :
    (match pubStore E (E.add (E.mul (s * E.invN r % E.n) R) (E.neg (E.mul (ofBe msg * E.invN r % E.n) E.g))) with
      | none => none
      | some result =>
        match pubLoad E result with
        | none => none
        | some Q => if verifyEcdsaKey E Q (serRS r s) msg false = true then some result else none)
    = (if s = 0 then none else
        (match E.xy (E.mul (E.invN r) (E.add (E.mul s R) (E.neg (E.mul (ofBe msg % E.n) E.g)))) with
          | none => none
          | some _ => some (E.mul (E.invN r) (E.add (E.mul s R) (E.neg (E.mul (ofBe msg % E.n) E.g)))))).bind
          (Spec.Libsecp.pubkeyStruct E) := by
  obtain ⟨c, _, rfl⟩ := L.generated R
  rw [recover_point_eq L r s (ofBe msg) c]
  obtain ⟨e, _, hQ, he⟩ := recover_scalar L r s (ofBe msg) c
  rw [hQ]
  cases hxy : E.xy (E.mul e E.g) with
  | none =>
    have : pubStore E (E.mul e E.g) = none := by simp [pubStore, hxy]
    rw [this]
    simp only []
    split <;> rfl
  | some q =>
    obtain ⟨qx, qy⟩ := q
    obtain ⟨_, hqx, _, hqy⟩ := L.xy_range _ _ _ hxy
    have hst : pubStore E (E.mul e E.g) = some (leN 32 qx ++ leN 32 qy) := by simp [pubStore, hxy]
    have hld : pubLoad E (leN 32 qx ++ leN 32 qy) = some (E.mul e E.g) := by
      rw [pubLoad_store E qx qy hqx hqy hp]; exact L.ofXY_xy _ _ _ hxy
    simp only [hst, hld]
    have hps : Spec.Libsecp.pubkeyStruct E (E.mul e E.g) = some (leN 32 qx ++ leN 32 qy) := by
      rw [← pubStore_eq, hst]
    unfold verifyEcdsaKey
    rw [parse_of_ser E.n false r s hr256 hs256]
    by_cases hs0 : s = 0
    · have : rangeOk E.n false r s = false := by
        cases hb : rangeOk E.n false r s
        · rfl
        · have := (rangeOk_iff E.n false r s).mp hb; omega
      subst hs0
      simp [this]
    · have hok : rangeOk E.n false r s = true :=
        (rangeOk_iff E.n false r s).mpr ⟨hr.1, hr.2, by omega, hs, fun h => by cases h⟩
      simp only [hok, if_true, hs0, if_false, Option.bind_some, hps]
      rw [reverify_point L r s (ofBe msg) c e hr ⟨by omega, hs⟩ he, hR]
      simp [hx]

/-! ### candidate selection -/

/-- py's candidate list (`02‖r, 03‖r` and, when `r + n < p`, `02‖(r+n), 03‖(r+n)`, indexed by the recovery id
    and parsed by `ECPubKey.set`) against SEC 1's "x = r + jn, reject when x ≥ p; lift; negate by the parity bit" -/
theorem candidate_eq (hn : E.n ≤ 2 ^ 256) (hp : E.p ≤ 2 ^ 256) (r idx : Nat) (hr : r < E.n) (hidx : idx ≤ 3) :
    (if idx ≥ (if r + E.n < E.p then 4 else 2) then none
      else setCompressed E (if idx % 2 = 0 then 0x02 else 0x03) (beN 32 (if idx < 2 then r else r + E.n)))
    = (if (if idx / 2 = 1 then r + E.n else r) ≥ E.p then none
        else (E.liftX (if idx / 2 = 1 then r + E.n else r)).bind fun R0 =>
          some (if idx % 2 = 1 then E.neg R0 else R0)) := by
  have hpre0 : ((0x02 : UInt8).toNat % 2 = 1) = False := by decide
  have hpre1 : ((0x03 : UInt8).toNat % 2 = 1) = True := by decide
  have key : ∀ x, x < 2 ^ 256 → ∀ pre : UInt8,
      setCompressed E pre (beN 32 x) =
        if x ≥ E.p then none else (E.liftX x).bind fun R0 => some (if pre.toNat % 2 = 1 then E.neg R0 else R0) := by
    intro x hx pre
    unfold setCompressed
    simp only [ofBe_beN32 x hx]
    by_cases hxp : x < E.p
    · rw [if_pos hxp, if_neg (by omega)]
      cases E.liftX x <;> rfl
    · rw [if_neg hxp, if_pos (by omega)]
  have h01 : idx = 0 ∨ idx = 1 ∨ idx = 2 ∨ idx = 3 := by omega
  rcases h01 with rfl | rfl | rfl | rfl
  · have : ¬ (0 ≥ if r + E.n < E.p then 4 else 2) := by split <;> omega
    simp only [this, if_false, Nat.zero_mod, if_true, Nat.zero_div, Nat.zero_lt_succ, Nat.zero_ne_one]
    rw [key r (by omega)]
    simp [hpre0]
  · have : ¬ (1 ≥ if r + E.n < E.p then 4 else 2) := by split <;> omega
    simp only [this, if_false]
    norm_num
    rw [key r (by omega)]
    simp [hpre1]
  · by_cases hc : r + E.n < E.p
    · simp only [hc, if_true]
      norm_num
      rw [key (r + E.n) (by omega), if_neg (by omega), if_neg (by omega)]
      simp [hpre0]
    · simp only [hc, if_false]
      norm_num
      omega
  · by_cases hc : r + E.n < E.p
    · simp only [hc, if_true]
      norm_num
      rw [key (r + E.n) (by omega), if_neg (by omega), if_neg (by omega)]
      simp [hpre1]
    · simp only [hc, if_false]
      norm_num
      omega

/-! ### `ecdsa_recover` -/

theorem take64_take32 (sig : Bytes) : (sig.take 64).take 32 = sig.take 32 := by
  rw [List.take_take]; rfl

theorem take64_drop32 (sig : Bytes) : (sig.take 64).drop 32 = (sig.drop 32).take 32 := by
  rw [List.drop_take]

variable (E)

theorem eq_ecdsa_recover (L : EcLaws E) (hn : E.n ≤ 2 ^ 256) (hp : E.p ≤ 2 ^ 256) (sig msg : Bytes) :
    ecdsaRecover E sig msg = Spec.Libsecp.ecdsa_recover E sig msg := by
  unfold ecdsaRecover Spec.Libsecp.ecdsa_recover
  by_cases hl : sig.length = 65
  swap
  · simp [hl]
  by_cases hm : msg.length = 32
  swap
  · simp [hl, hm]
  have hlt : 64 < sig.length := by omega
  have hib : sig[64]? = some sig[64] := List.getElem?_eq_getElem hlt
  have hgd : sig.getD 64 0 = sig[64] := by simp [List.getD, hib]
  have hder : ecdsaSignatureSerializeDer (sig.take 64)
      = some (serRS (ofLe (sig.take 32)) (ofLe ((sig.drop 32).take 32))) := by
    unfold ecdsaSignatureSerializeDer
    rw [if_neg (by simp [hl]), take64_take32, take64_drop32]
  simp only [hl, hm, ne_eq, not_true_eq_false, if_false, or_self, hib, hgd, hder]
  generalize sig[64].toNat = idx
  have hr256 : ofLe (sig.take 32) < 2 ^ 256 := ofLe_lt_256 _ (by simp [hl])
  have hs256 : ofLe ((sig.drop 32).take 32) < 2 ^ 256 := ofLe_lt_256 _ (by simp [hl])
  generalize ofLe (sig.take 32) = r at hr256 ⊢
  generalize ofLe ((sig.drop 32).take 32) = s at hs256 ⊢
  by_cases hrange : r ≥ E.n ∨ s ≥ E.n
  · rw [if_pos hrange, if_pos (Or.inr hrange)]
  rw [if_neg hrange]
  have hrn : r < E.n := by omega
  have hsn : s < E.n := by omega
  by_cases hidx : idx > 3
  · have h1 : idx > 3 ∨ r ≥ E.n ∨ s ≥ E.n := Or.inl hidx
    have h2 : idx ≥ (if r + E.n < E.p then 4 else 2) := by split <;> omega
    rw [if_pos h1, if_pos h2]
  have h3 : ¬ (idx > 3 ∨ r ≥ E.n ∨ s ≥ E.n) := by omega
  rw [if_neg h3]
  -- the candidate
  have hcand := candidate_eq (E := E) hn hp r idx hrn (by omega)
  unfold Spec.Libsecp.recoverPoint
  by_cases hr0 : r = 0
  · -- r = 0: py computes modinv(0, n) = None and raises; SEC 1 refuses
    have h4 : r = 0 ∨ s = 0 := Or.inl hr0
    rw [if_pos h4]
    simp only [Option.bind_none]
    by_cases hge : idx ≥ (if r + E.n < E.p then 4 else 2)
    · rw [if_pos hge]
    · rw [if_neg hge]
      cases setCompressed E (if idx % 2 = 0 then 0x02 else 0x03) (beN 32 (if idx < 2 then r else r + E.n)) with
      | none => rfl
      | some R => simp only [hr0, if_true]
  by_cases hge : idx ≥ (if r + E.n < E.p then 4 else 2)
  · rw [if_pos hge] at hcand ⊢
    by_cases hs0 : s = 0
    · rw [if_pos (Or.inr hs0)]; rfl
    · rw [if_neg (by omega)]
      simp only []
      by_cases hx : (if idx / 2 = 1 then r + E.n else r) ≥ E.p
      · rw [if_pos hx]; rfl
      · rw [if_neg hx] at hcand ⊢
        cases hlx : E.liftX (if idx / 2 = 1 then r + E.n else r) with
        | none => rfl
        | some R0 => rw [hlx] at hcand; cases hcand
  rw [if_neg hge] at hcand ⊢
  rw [hcand]
  by_cases hx : (if idx / 2 = 1 then r + E.n else r) ≥ E.p
  · rw [if_pos hx]
    simp only []
    rw [if_pos hx]
    split <;> rfl
  rw [if_neg hx]
  simp only []
  rw [if_neg hx]
  cases hlx : E.liftX (if idx / 2 = 1 then r + E.n else r) with
  | none =>
    simp only [Option.bind_none]
    split <;> rfl
  | some R0 =>
    simp only [Option.bind_some, hr0, if_false, false_or]
    obtain ⟨y0, hxy0, _⟩ := L.liftX_sound _ _ hlx
    have hxmod : (if idx / 2 = 1 then r + E.n else r) % E.n = r := by
      split
      · rw [Nat.add_mod_right, Nat.mod_eq_of_lt hrn]
      · exact Nat.mod_eq_of_lt hrn
    have hR : ∃ yR, E.xy (if idx % 2 = 1 then E.neg R0 else R0) = some ((if idx / 2 = 1 then r + E.n else r), yR) := by
      split
      · exact ⟨_, L.xy_neg _ _ _ hxy0⟩
      · exact ⟨_, hxy0⟩
    obtain ⟨yR, hR⟩ := hR
    exact recover_tail L hp r s msg ⟨by omega, hrn⟩ hsn hr256 hs256 _ _ yR hR hxmod

end Embit
